"""judges.py — per-property verdict logic over the op / implementation / model line streams.

A judge looks at one case (the lines between two RESETs) of one shard and returns
  concrete : implementation outputs that violate the property by themselves (with the line index)
  diverge  : lines inside the property's observation where implementation and model differ
  evals / keys / hist : coverage accounting (evaluations, distinct non-trivial keys, histogram)
  drift    : differing lines outside the observation (reported in the evidence, never an alarm)
"""
import re, subprocess, os, hashlib

HEXMAL = ', malformed! '.encode().hex()


def notes(line):
    d = {}
    for t in line.split()[1:]:
        if '=' in t:
            k, v = t.split('=', 1)
            d[k] = v
    return d


def same(go, lean):
    if go == lean:
        return True
    # the model marks renderings outside the modelled %q subset with '?': any normal return matches
    if lean.endswith(' ?') and go.split(' ')[0] == lean.split(' ')[0] and not go.endswith('panic') and not go.endswith('hang'):
        return True
    return False


def opname(op):
    return op.split(' ', 1)[0] if op else ''


def base(sh, a, b, observed):
    """common part: divergences inside / outside the observation"""
    res = dict(concrete=[], diverge=[], evals=0, keys=[], hist=[], drift=0)
    for i in range(a, b):
        if not same(sh['go'][i], sh['lean'][i]):
            if opname(sh['ops'][i]) in observed:
                res['diverge'].append(dict(line=i, what='model and implementation differ on `%s`: impl `%s` model `%s`' % (
                    sh['ops'][i][:120], sh['go'][i][:160], sh['lean'][i][:160])))
            else:
                res['drift'] += 1
    return res


def abnormal(line):
    return line.endswith(' panic') or line.endswith(' hang') or ' panic ||' in line or 'FAIL' in line or line == '<no output>' \
        or ' panic' in line.split('||')[-1] or ' hang' in line.split('||')[-1]


def lenclass(n):
    for edge in (0, 1, 127, 128, 16383, 16384, 65534, 65535):
        if n == edge:
            return 'len=%d' % edge
    return None


def case_hist(sh, a, b):
    """input-distribution histogram entries of a case"""
    h = []
    for i in range(a, b):
        op = sh['ops'][i]
        t = op.split()
        if not t:
            continue
        if t[0] == 'NOTE':
            d = notes(op)
            if 'kind' in d:
                h.append('kind=' + d['kind'])
            if 'why' in d:
                h.append('why=' + d['why'])
            if 'list' in d:
                h.append('biglist=' + d['list'])
                h.append('biglist-count>=%d' % (int(d.get('count', '0')) // 1000 * 1000))
                if d.get('cut', '0') != '0':
                    h.append('biglist-cut')
        elif t[0] == 'SET':
            h.append('set=' + t[2])
            for x in t[3:]:
                if re.fullmatch(r'[0-9a-f]*|-', x):
                    lc = lenclass(0 if x == '-' else len(x) // 2)
                    if lc:
                        h.append(lc)
        elif t[0] == 'ENC':
            m = re.search(r' n=(\d+)', sh['go'][i])
            if m:
                n = int(m.group(1))
                h.append('frame=' + ('1B' if n < 130 else '2B' if n < 16387 else '3B' if n < 2097156 else '4B') + '-remlen')
        elif t[0] in ('RD', 'DEC'):
            g = sh['go'][i]
            h.append(t[0].lower() + '=' + ('pkt' if ' pkt ' in g or ' ok' in g else 'err' if ' err' in g else 'abnormal'))
    return h


def setter_key(sh, a, b):
    kind, names, lens = '?', set(), set()
    for i in range(a, b):
        t = sh['ops'][i].split()
        if not t:
            continue
        if t[0] in ('NEW', 'ZERO') and t[1] in ('p', 'a'):
            kind = t[0] + t[2]
        if t[0] == 'SET':
            names.add(t[2])
            for x in t[3:]:
                if re.fullmatch(r'[0-9a-f]+', x):
                    lc = lenclass(len(x) // 2)
                    if lc:
                        lens.add(lc)
    return kind + '|' + ','.join(sorted(names)) + '|' + ','.join(sorted(lens))


# ------------------------------------------------------------------------------------------ C01

def j_c01(sh, a, b):
    res = base(sh, a, b, {'NEW', 'SET', 'VIEW', 'ENC', 'RT'})
    for i in range(a, b):
        if opname(sh['ops'][i]) == 'RT':
            res['evals'] += 1
            if sh['go'][i] != 'rt ok':
                res['concrete'].append(dict(line=i, what='round trip fails: ' + sh['go'][i]))
    res['keys'] = [setter_key(sh, a, b)]
    res['hist'] = case_hist(sh, a, b)
    return res


# ------------------------------------------------------------------------------------------ C02 (per shard: batches SPEC)

def parse_frame(bs):
    """(first, remlen, vblen) of one frame by the MQTT rules, or None"""
    if len(bs) < 2:
        return None
    mult, val, i = 1, 0, 1
    while True:
        if i >= len(bs) or i > 4:
            return None
        val += (bs[i] & 127) * mult
        mult *= 128
        i += 1
        if bs[i - 1] & 128 == 0:
            break
    return bs[0], val, i - 1


UNTRANSMITTED_WILL = ('Will.TopicAlias', 'Will.SubscriptionIDs', 'Will.PacketID', 'Will.Duplicate')


def drop_keys(view, keys):
    return ';'.join(kv for kv in view.split(';') if kv.partition('=')[0].split(' ')[-1] not in keys)


def js_c02(sh, ctx):
    out = []
    reqs = []  # (case index, line, hex, expected view)
    cases = list(ctx['split_cases'](sh))
    for ci, (a, b) in enumerate(cases):
        res = base(sh, a, b, {'NEW', 'SET', 'VIEW', 'ENC'})
        res['hist'] = case_hist(sh, a, b)
        res['keys'] = []
        out.append(res)
        d = notes(sh['ops'][a + 1]) if a + 1 < b else {}
        if d.get('wf') not in ('1', 's') and not sh['cls'].startswith('corpus'):
            continue
        structure_only = d.get('wf') == 's'
        view, last = None, None
        for i in range(a, b):
            op, g = sh['ops'][i], sh['go'][i]
            if op == 'VIEW p' and g.startswith('view '):
                view = g[5:]
            if op.startswith('SET p '):
                view = None          # the values changed: wait for the next accessor snapshot
            if op == 'ENC p' and g.startswith('enc ') and view is not None:
                last = (ci, i, g.split()[1], view, structure_only)
        if last:
            reqs.append(last)
        res['keys'] = [setter_key(sh, a, b)]
    if reqs:
        ops = ''.join('SPEC %s\n' % r[2] for r in reqs)
        p = subprocess.run([ctx['DRIVER']], input=ops, capture_output=True, text=True)
        lines = p.stdout.split('\n')
        for (ci, i, hx, view, structure_only), got in zip(reqs, lines):
            out[ci]['evals'] += 1
            if structure_only:
                # a will carrying fields MQTT cannot transmit: the frame must be valid and every other value read back
                got, view = drop_keys(got, UNTRANSMITTED_WILL), drop_keys(view, UNTRANSMITTED_WILL)
            if got != 'spec ' + view:
                out[ci]['concrete'].append(dict(line=i, what='frame %s… is not what the specification reads back: spec reader says `%s`, API values `%s`' % (
                    hx[:60], got[:200], view[:200])))
    return out


# ------------------------------------------------------------------------------------------ C03 / C07

def frame_key(expect):
    kind, _, view = expect.partition(' ')
    nz = []
    for kv in view.split(';'):
        k, _, v = kv.partition('=')
        if v not in ('0', 'false', 'x', '[]', '-1', ''):
            nz.append(k)
    return kind + '|' + ','.join(nz)


def j_c03(sh, a, b):
    res = base(sh, a, b, {'RD', 'VIEW'})
    for i in range(a, b):
        op = sh['ops'][i]
        if op.startswith('NOTE case=frames expect '):
            expect = op[len('NOTE case=frames expect '):]
            rd = sh['ops'][i + 1].split()
            n = len(rd[2]) // 2
            want = 'rd pkt %s c=%d' % (expect, n)
            res['evals'] += 1
            fk = frame_key(expect)
            res['keys'].append(fk)
            kind, _, nz = fk.partition('|')
            frame_hist = ['kind=' + kind, 'frame-bytes=%s' % ('<128' if n < 130 else '<16384' if n < 16387 else '>=16384')]
            frame_hist += ['carries=' + kind + '.' + f for f in nz.split(',') if f]
            res['frame_hist'] = res.get('frame_hist', []) + frame_hist
            if sh['go'][i + 1] != want:
                res['concrete'].append(dict(line=i + 1, what='valid frame not decoded to the values it carries: got `%s` want `%s`' % (
                    sh['go'][i + 1][:300], want[:300])))
    res['hist'] = case_hist(sh, a, b) + res.pop('frame_hist', [])
    return res


def js_c03(sh, ctx):
    """C03 per shard: additionally every generated frame goes through Spec.parse (Lean); a frame the
    specification reader rejects or reads differently is an inconsistency between the harness's frame
    generator and Spec.* — a harness error (counted, reported on stderr), never a violation."""
    out = [j_c03(sh, a, b) for a, b in ctx['split_cases'](sh)]
    reqs = []
    for i, op in enumerate(sh['ops']):
        if op.startswith('NOTE case=frames expect '):
            reqs.append((op[len('NOTE case=frames expect '):], sh['ops'][i + 1].split()[2]))
    if reqs:
        ops = ''.join('SPEC %s\n' % r[1] for r in reqs)
        p = subprocess.run([ctx['DRIVER']], input=ops, capture_output=True, text=True)
        bad = 0
        for (expect, hx), got in zip(reqs, p.stdout.split('\n')):
            if got != 'spec ' + expect:
                bad += 1
                if bad <= 3:
                    import sys
                    print('harness: generator/spec mismatch on %s…: spec `%s` generator `%s`' % (hx[:40], got[:300], expect[:300]), file=sys.stderr)
        if out:
            out[0].setdefault('hist', [])
            out[0]['hist'] += ['generator-vs-Spec.parse mismatch'] * bad + ['generator-vs-Spec.parse agree'] * (len(reqs) - bad)
    return out


def j_c07(sh, a, b):
    res = base(sh, a, b, {'RD'})
    contig = None
    for i in range(a, b):
        op = sh['ops'][i]
        if op.startswith('NOTE case=frames') or op.startswith('NOTE case=comp base'):
            contig = (sh['ops'][i + 1].split()[2], sh['go'][i + 1])
        if op.startswith('NOTE case=sched') and contig is not None:
            rd = sh['ops'][i + 1].split()
            if rd[2] != contig[0]:
                continue
            res['evals'] += 1
            res['keys'].append(hashlib.md5(sh['ops'][i + 1].encode()).hexdigest()[:10])
            sched = [t for t in rd if t.startswith('sched=')][0]
            res['hist'].append('chunks=' + ('1' if set(sched[6:].split(',')) <= {'1', '0'} else 'mixed'))
            if sh['go'][i + 1] != contig[1]:
                res['concrete'].append(dict(line=i + 1, what='result depends on fragmentation: `%s` under %s, `%s` contiguous' % (
                    sh['go'][i + 1][:200], sched[:80], contig[1][:200])))
    return res


# ------------------------------------------------------------------------------------------ C04 / C05

def j_c04(sh, a, b):
    res = base(sh, a, b, set())
    for i in range(a, b):
        o = opname(sh['ops'][i])
        if o in ('DEC', 'RD'):
            res['evals'] += 1
            res['keys'].append(hashlib.md5(sh['ops'][i].encode()).hexdigest()[:10])
            g = sh['go'][i]
            if ' panic' in g or 'FAIL xor' in g or g == '<no output>':
                res['concrete'].append(dict(line=i, what='decoding does not return normally with exactly one of packet/error: ' + g[:200]))
            gc = 'panic' if ' panic' in g else 'hang' if ' hang' in g else 'normal'
            lc = 'panic' if ' panic' in sh['lean'][i] else 'hang' if ' hang' in sh['lean'][i] else 'normal'
            if gc != lc and gc == 'normal':
                res['diverge'].append(dict(line=i, what='model outcome %s, implementation %s' % (lc, gc)))
    res['hist'] = case_hist(sh, a, b)
    return res


def j_c05(sh, a, b):
    res = base(sh, a, b, set())
    for i in range(a, b):
        o = opname(sh['ops'][i])
        if o in ('DEC', 'RD'):
            res['evals'] += 1
            res['keys'].append(hashlib.md5(sh['ops'][i].encode()).hexdigest()[:10])
            g = sh['go'][i]
            if ' hang' in g or 'FAIL elems' in g or g == '<no output>':
                res['concrete'].append(dict(line=i, what='decoding does not terminate within bounds: ' + g[:200]))
            elif 'FAIL alloc' in g:
                res['concrete'].append(dict(line=i, what='decoding allocates more than 1 MiB + 512 bytes per input byte + twice the declared length: ' + g[:200]))
            elif o == 'RD':
                # bytes drawn from the stream: the model's count is bounded by the theorems of C05/C06
                mg, ml = re.findall(r' c=(\d+)', g), re.findall(r' c=(\d+)', sh['lean'][i])
                if mg and ml and sum(map(int, mg)) > sum(map(int, ml)):
                    res['concrete'].append(dict(line=i, what='ReadPacket draws %d bytes from the stream where the frame (model) accounts for %d: %s' % (
                        sum(map(int, mg)), sum(map(int, ml)), g[:120])))
    res['hist'] = case_hist(sh, a, b)
    return res


# ------------------------------------------------------------------------------------------ C06

def j_c06(sh, a, b):
    res = base(sh, a, b, {'RD'})
    for i in range(a, b):
        op = sh['ops'][i]
        if op.startswith('NOTE case=seq'):
            d = notes(op)
            lens = [int(x) for x in d['lens'].split(',')]
            tail = int(d['tail'])
            g = sh['go'][i + 1]
            res['evals'] += 1
            res['keys'].append(d['lens'] + '/' + d['tail'])
            res['hist'].append('frames=%d' % len(lens))
            res['hist'].append('tail=%s' % ('yes' if tail else 'no'))
            if not g.startswith('rd '):
                res['concrete'].append(dict(line=i + 1, what='stream read fails: ' + g[:200]))
                continue
            calls = g[3:].split(' || ')
            ok = len(calls) == len(lens) + (1 if tail == 0 else 0)
            if ok:
                for k, ln in enumerate(lens):
                    m = re.search(r' c=(\d+)$', calls[k])
                    if not m or int(m.group(1)) != ln or not (calls[k].startswith('pkt ') or calls[k].startswith('err ')):
                        ok = False
                if tail == 0 and not (calls[-1].startswith('err eof=1') and calls[-1].endswith(' c=0')):
                    ok = False
            if not ok:
                res['concrete'].append(dict(line=i + 1, what='calls do not consume exactly one frame each (frame lengths %s, tail %d): %s' % (
                    d['lens'], tail, ' || '.join(c[:8] + '…' + c[-8:] for c in calls)[:300])))
    return res


# ------------------------------------------------------------------------------------------ C08 / C09

def j_c08(sh, a, b):
    res = base(sh, a, b, {'RD'})
    for i in range(a, b):
        op = sh['ops'][i]
        if op.startswith('NOTE case=cut '):
            d = notes(op)
            g = sh['go'][i + 1]
            res['evals'] += 1
            res['keys'].append(hashlib.md5(sh['ops'][i + 1].encode()).hexdigest()[:10])
            res['hist'].append('fail=' + ('eof' if d['fail'] == 'eof' else 'error'))
            res['hist'].append('cut=' + ('boundary' if d['k'] == '0' else 'inside'))
            bad = None
            if not g.startswith('rd err '):
                bad = 'stream cut after %s bytes is not reported: %s' % (d['k'], g[:200])
            elif d['fail'] != 'eof' and ' fail=1' not in g:
                bad = 'transport error not recognisable with errors.Is after %s bytes: %s' % (d['k'], g[:200])
            elif d['fail'] == 'eof' and d['k'] == '0' and ' eof=1' not in g:
                bad = 'end of stream on a frame boundary is not io.EOF: ' + g[:200]
            if bad:
                res['concrete'].append(dict(line=i + 1, what=bad))
    return res


def j_c09(sh, a, b):
    res = base(sh, a, b, {'RD'})
    for i in range(a, b):
        op = sh['ops'][i]
        if op.startswith('NOTE case=reject '):
            d = notes(op)
            g = sh['go'][i + 1]
            res['evals'] += 1
            res['keys'].append(hashlib.md5(sh['ops'][i + 1].encode()).hexdigest()[:10])
            res['hist'].append('why=' + d['why'])
            if not g.startswith('rd err '):
                res['concrete'].append(dict(line=i + 1, what='frame that must be rejected (%s) is not: %s' % (
                    ' '.join('%s=%s' % kv for kv in d.items()), g[:200])))
    return res


# ------------------------------------------------------------------------------------------ C10

def j_c10(sh, a, b):
    res = base(sh, a, b, {'ENC', 'WR', 'STR'})
    kind, enc = None, None
    for i in range(a, b):
        op, g = sh['ops'][i], sh['go'][i]
        t = op.split()
        if not t:
            continue
        if t[0] in ('NEW', 'ZERO') and t[1] == 'p':
            kind = t[2]
        if t[:2] == ['ENC', 'p']:
            res['evals'] += 1
            if kind == 'Undefined':
                if g != 'enc - n=0 err=1':
                    res['concrete'].append(dict(line=i, what='Undefined.WriteTo must fail without emitting bytes: ' + g[:100]))
                continue
            m = re.fullmatch(r'enc ([0-9a-f]+) n=(\d+) err=0', g)
            if not m:
                res['concrete'].append(dict(line=i, what='WriteTo does not emit a frame: ' + g[:120]))
                continue
            bs = bytes.fromhex(m.group(1))
            n = int(m.group(2))
            fr = parse_frame(bs)
            if n != len(bs) or fr is None or 1 + fr[2] + fr[1] != n:
                res['concrete'].append(dict(line=i, what='returned size %d does not match the frame (%d bytes, header %s)' % (n, len(bs), fr)))
            enc = m.group(1)
        if t[:2] == ['STR', 'p'] and enc is not None and g.startswith('str ') and not g.endswith('panic'):
            try:
                text = bytes.fromhex(g[4:]) if g[4:] != '-' else b''
            except ValueError:
                text = b''
            m = re.findall(rb'(\d+) bytes', text)
            res['evals'] += 1
            if not m or int(m[-1]) != len(enc) // 2:
                res['concrete'].append(dict(line=i, what='String() prints size %s, frame has %d bytes' % (m[-1:] , len(enc) // 2)))
        if t[:2] == ['WR', 'p']:
            res['evals'] += 1
            d = notes(op)
            if kind == 'Undefined':
                if not re.fullmatch(r'wr calls=0 off= n=0 err=other', g):
                    res['concrete'].append(dict(line=i, what='Undefined.WriteTo wrote or did not fail: ' + g[:100]))
                continue
            m = re.fullmatch(r'wr calls=(\d+) off=([0-9a-f,]*) n=(\d+) err=(\w+)', g)
            if not m or enc is None:
                res['concrete'].append(dict(line=i, what='WriteTo to a scripted writer: ' + g[:120]))
                continue
            total = len(enc) // 2
            want_n = total if d['accept'] == 'all' else min(int(d['accept']), total)
            want_err = 'none' if d['err'] == '0' else 'w'
            if m.group(1) != '1' or m.group(2) != enc or int(m.group(3)) != want_n or m.group(4) != want_err:
                res['concrete'].append(dict(line=i, what='WriteTo(writer accept=%s err=%s): calls=%s n=%s err=%s, frame offered intact=%s; want 1 call, n=%d, err=%s' % (
                    d['accept'], d['err'], m.group(1), m.group(3), m.group(4), m.group(2) == enc, want_n, want_err)))
    res['keys'] = [setter_key(sh, a, b)]
    res['hist'] = case_hist(sh, a, b)
    return res


# ------------------------------------------------------------------------------------------ C11 (per shard: second process)

def js_c11(sh, ctx):
    out = []
    # a second process (different map hash seed) must produce the same bytes
    other = ctx['exec_go'](sh['harness'], '\n'.join(sh['ops']) + '\n')
    for a, b in ctx['split_cases'](sh):
        res = base(sh, a, b, {'ENC', 'VIEW'})
        encs, views = [], []
        for i in range(a, b):
            op, g = sh['ops'][i], sh['go'][i]
            if op == 'ENC p':
                encs.append((i, g))
                if i < len(other) and other[i] != g:
                    res['concrete'].append(dict(line=i, what='another process encodes the same packet differently: `%s` vs `%s`' % (g[:120], other[i][:120])))
            if op == 'VIEW p':
                views.append((i, g))
        if encs:
            res['evals'] += len(encs)
            for i, g in encs[1:]:
                if g != encs[0][1]:
                    res['concrete'].append(dict(line=i, what='repeated WriteTo differs: `%s` vs `%s`' % (encs[0][1][:120], g[:120])))
                    break
        for i, g in views[1:]:
            if g != views[0][1]:
                res['concrete'].append(dict(line=i, what='accessors changed by a read-only operation: `%s` -> `%s`' % (views[0][1][:160], g[:160])))
                break
        res['keys'] = [setter_key(sh, a, b)]
        res['hist'] = case_hist(sh, a, b)
        out.append(res)
    return out


# ------------------------------------------------------------------------------------------ C12 / C14

def j_c12(sh, a, b):
    res = base(sh, a, b, {'NEW', 'SET', 'ENC'})
    steps = 0
    last = None
    for i in range(a, b):
        if sh['ops'][i] == 'VIEW p':
            last = i
        if sh['ops'][i] == 'RDP p q' and last is not None:
            # the frame written after the history, read back by the library itself. When the model says that frame decodes
            # to the very values the accessors report (the state is inside what the wire can carry) and the accessors of
            # the implementation are the model's, the implementation's frame must decode to them too.
            gv, lv = sh['go'][last], sh['lean'][last]
            gr, lr = sh['go'][i], sh['lean'][i]
            if gv == lv and lv.startswith('view ') and lr == 'rdp ' + lv[5:]:
                res['evals'] += 1
                if gr != lr:
                    res['concrete'].append(dict(line=i, from_start=False, what='the encoded frame does not reflect the final state: accessors say `%s`, the frame reads back as `%s`' % (
                        gv[5:300], gr[:300])))
                    break
        if opname(sh['ops'][i]) == 'VIEW':
            res['evals'] += 1
            steps += 1
            if sh['go'][i] != sh['lean'][i]:
                res['concrete'].append(dict(line=i, what='accessors after this setter history differ from the record-of-fields model: impl `%s` model `%s`' % (
                    sh['go'][i][:300], sh['lean'][i][:300])))
                break
    res['keys'] = [setter_key(sh, a, b) + '|%d' % steps]
    res['hist'] = case_hist(sh, a, b)
    return res


def j_c14(sh, a, b):
    """oracle on the implementation alone: the accessor snapshot of a packet that has not been operated on since
    its last snapshot (taken by VIEW, or by DEC itself) must not have changed — whatever happened to the input
    buffer it was decoded from (SCRIBBLE) or to any other packet. The model (value semantics) predicts exactly
    this; a disagreement between model and implementation about what a frame decodes *to* is C03's business."""
    res = base(sh, a, b, {'SCRIBBLE'})
    known, known_enc = {}, {}
    for i in range(a, b):
        t = sh['ops'][i].split()
        if not t:
            continue
        op, g = t[0], sh['go'][i]
        if op == 'RESET':
            known, known_enc = {}, {}
        elif op == 'DEC' and len(t) >= 2:
            known[t[1]] = g[len('dec ok '):] if g.startswith('dec ok ') else None
            known_enc[t[1]] = None
        elif op in ('NEW', 'ZERO', 'SET', 'RD', 'RDP') and len(t) >= 2:
            known[t[2] if op == 'RDP' else t[1]] = None
            known_enc[t[2] if op == 'RDP' else t[1]] = None
        elif op == 'ENC' and len(t) >= 2 and g.startswith('enc '):
            # the bytes an untouched packet writes must not change either (a PINGREQ has no accessor to look at)
            res['evals'] += 1
            old = known_enc.get(t[1])
            if old is not None and old != g:
                res['concrete'].append(dict(line=i, what='packet %s changed without being operated on: it wrote `%s`, now writes `%s`' % (
                    t[1], old[:200], g[:200])))
                break
            known_enc[t[1]] = g
        elif op == 'VIEW' and len(t) >= 2 and g.startswith('view '):
            res['evals'] += 1
            cur = g[len('view '):]
            old = known.get(t[1])
            if old is not None and old != cur:
                res['concrete'].append(dict(line=i, what='packet %s changed without being operated on: was `%s` now `%s`' % (
                    t[1], old[:300], cur[:300])))
                break
            known[t[1]] = cur
    ops = [opname(sh['ops'][i]) for i in range(a, b)]
    res['keys'] = [hashlib.md5('\n'.join(sh['ops'][a:b]).encode()).hexdigest()[:10]] if 'SCRIBBLE' in ops else []
    res['hist'] = ['op=' + o for o in ops if o in ('DEC', 'SCRIBBLE', 'SET', 'ENC')]
    return res


def js_c14(sh, ctx):
    """j_c14 per case, plus history independence of decoding: where the implementation's DEC result differs from the
    model's (the model has no history), the same constructor/setter/DEC lines are replayed in a fresh process; a
    different result there means the frame decodes differently depending on what was processed before."""
    out = []
    budget = 6
    for a, b in ctx['split_cases'](sh):
        res = j_c14(sh, a, b)
        out.append(res)
        since_new = {}
        for i in range(a, b):
            t = sh['ops'][i].split()
            if len(t) < 2:
                continue
            if t[0] in ('NEW', 'ZERO'):
                since_new[t[1]] = [sh['ops'][i]]
            elif t[0] == 'SET' and t[1] in since_new:
                since_new[t[1]].append(sh['ops'][i])
            elif t[0] == 'DEC' and t[1] in since_new:
                hist = since_new[t[1]] + [sh['ops'][i]]
                since_new[t[1]] = hist
                if not same(sh['go'][i], sh['lean'][i]) and budget > 0 and not res['concrete']:
                    budget -= 1
                    fresh = ctx['exec_go'](sh['harness'], 'RESET\n' + '\n'.join(hist) + '\n')
                    res['evals'] += 1
                    got = fresh[len(hist)] if len(fresh) > len(hist) else '<no output>'
                    if got != sh['go'][i]:
                        res['concrete'].append(dict(line=i, from_start=True, what='a frame decodes differently depending on what was processed before: '
                                                    'in this history `%s`, in a fresh process `%s`' % (sh['go'][i][:300], got[:300])))
    return out


# ------------------------------------------------------------------------------------------ C15

def vb_enc(n):
    out = bytearray()
    while True:
        b = n % 128
        n //= 128
        if n > 0:
            out.append(b | 128)
        else:
            out.append(b)
            return bytes(out)


def j_c15(sh, a, b):
    res = base(sh, a, b, {'VB'})
    for i in range(a, b):
        t = sh['ops'][i].split()
        if sh['ops'][i].startswith('NOTE case=vbframe'):
            # the remaining length decoded from a stream by ReadPacket: value (= bytes of the body handed to the decoder,
            # seen as the payload length) and advance (= where the next frame is found)
            d = notes(sh['ops'][i])
            v, w = int(d['v']), int(d['w'])
            g = sh['go'][i + 1]
            res['evals'] += 1
            res['keys'].append(sh['ops'][i + 1][-60:] + d['v'])
            res['hist'].append('stream-remaining-length-width=%d' % w)
            calls = g[3:].split(' || ') if g.startswith('rd ') else []
            m = re.search(r'Payload=x([0-9a-f]*);', calls[0]) if calls else None
            ok = len(calls) == 2 and calls[0].startswith('pkt Publish ') and calls[0].endswith(' c=%d' % (1 + w + v)) \
                and m is not None and len(m.group(1)) == 2 * (v - 4) and calls[1].startswith('pkt PingReq ') and calls[1].endswith(' c=2')
            if not ok:
                res['concrete'].append(dict(line=i + 1, what='remaining length %d (%d bytes) read from a stream: the call does not return a %d-byte payload, advance by %d and find the next frame: %s' % (
                    v, w, v - 4, 1 + w + v, ' || '.join(c[:14] + '…' + c[-8:] for c in calls)[:200] or g[:100])))
            continue
        if not t or t[0] != 'VB':
            continue
        g = sh['go'][i]
        res['evals'] += 1
        res['keys'].append(sh['ops'][i][:40])
        want = None
        if t[1] == 'enc':
            want = 'vb ' + vb_enc(int(t[2])).hex()
            res['hist'].append('enc-width=%d' % len(vb_enc(int(t[2]))))
        elif t[1] == 'width':
            want = 'vb %d' % len(vb_enc(int(t[2])))
        elif t[1] in ('mem', 'stream'):
            data = bytes.fromhex(t[2]) if t[2] != '-' else b''
            val, ok, used = 0, False, 0
            for k, x in enumerate(data):
                if k == 4:
                    used = 5
                    break
                val += (x & 127) * 128 ** k
                used = k + 1
                if x < 128:
                    ok = True
                    break
            if ok:
                want = 'vb ok %d %d' % (val, len(vb_enc(val)) if t[1] == 'mem' else used)
                res['hist'].append(t[1] + '=ok/%d' % used)
            else:
                want = 'vb err' if t[1] == 'mem' else 'vb err %d' % used
                res['hist'].append(t[1] + '=reject')
        if want is not None and g != want:
            res['concrete'].append(dict(line=i, what='variable byte integer codec: `%s` gives `%s`, MQTT says `%s`' % (sh['ops'][i][:60], g, want)))
    return res


def js_c15(sh, ctx):
    """the codec through its hooks and through ReadPacket (j_c15); property lengths at the boundaries inside real frames of
    every type, read by the strict specification parser, which accepts minimal variable byte integers only (js_c02's oracle)"""
    if sh['cls'].startswith('proplen'):
        out = js_c02(sh, ctx)
        for r in out:
            for v in r['concrete']:
                v['what'] = 'property length at a variable-byte-integer boundary: ' + v['what']
            r['hist'] = [h for h in r.get('hist', []) if h.startswith('kind=')] + ['proplen']
        return out
    return per_case(j_c15)(sh, ctx)


# ------------------------------------------------------------------------------------------ C16

KINDS = ["Undefined", "Connect", "ConnAck", "Publish", "PubAck", "PubRec", "PubRel", "PubComp", "Subscribe", "SubAck",
         "Unsubscribe", "UnsubAck", "PingReq", "PingResp", "Disconnect", "Auth"]


def j_c16(sh, a, b):
    res = base(sh, a, b, {'RD', 'VIEW', 'ENC'})
    b0 = None
    keep = False
    for i in range(a, b):
        op, g = sh['ops'][i], sh['go'][i]
        if op.startswith('NOTE case=first '):
            b0 = int(notes(op)['b0'])
            res['keys'].append('b0=%d' % b0)
            res['hist'].append('type=%d' % (b0 >> 4))
        elif op == 'NOTE case=firstkeep':
            keep = True
        elif keep and op.startswith('ENC k'):
            n = int(op[5:])
            if n >> 4:
                res['evals'] += 1
                if not g.startswith('enc %02x' % n):
                    res['concrete'].append(dict(line=i, what='first byte 0x%02x not reproduced when the packet is written after later decodes: %s' % (n, g[:60])))
                    break
        elif op.startswith('RD ') and b0 is not None:
            res['evals'] += 1
            kind = KINDS[b0 >> 4]
            if not g.startswith('rd pkt %s ' % kind):
                res['concrete'].append(dict(line=i, what='first byte 0x%02x must give %s: %s' % (b0, kind, g[:160])))
            elif kind == 'Publish':
                qos = (b0 >> 1) & 3
                for want in ('Duplicate=%s' % ('true' if b0 & 8 else 'false'), 'QoS=%d' % qos,
                             'Retain=%s' % ('true' if b0 & 1 else 'false')):
                    if ';' + want + ';' not in ';' + g.split(' ', 3)[3].rsplit(' c=', 1)[0] + ';':
                        res['concrete'].append(dict(line=i, what='PUBLISH first byte 0x%02x: expected %s in %s' % (b0, want, g[:200])))
        elif op.startswith('ENC ') and b0 is not None and (b0 >> 4) != 0:
            res['evals'] += 1
            if not g.startswith('enc %02x' % b0):
                res['concrete'].append(dict(line=i, what='first byte 0x%02x not reproduced on write: %s' % (b0, g[:60])))
    return res


# ------------------------------------------------------------------------------------------ C17

def j_c17(sh, a, b):
    res = base(sh, a, b, {'WF', 'STR'})
    kind = None
    rdp_ok = False
    st = dict(topic=False, alias=0, qos=0, pid=0, filters=[], subid=None)
    for i in range(a, b):
        op, g = sh['ops'][i], sh['go'][i]
        t = op.split()
        if not t:
            continue
        if t[0] == 'NEW' and t[1] == 'p':
            kind = t[2]
        elif t[0] == 'SET' and t[1] == 'p':
            if t[2] == 'SetTopicName':
                st['topic'] = t[3] != '-'
            elif t[2] == 'SetTopicAlias':
                st['alias'] = int(t[3])
            elif t[2] == 'SetQoS':
                v = int(t[3])
                st['qos'] = v if v in (1, 2, 3) else 0
            elif t[2] == 'SetPacketID':
                st['pid'] = int(t[3])
            elif t[2] == 'AddFilters':
                xs = t[3:]
                for k in range(0, len(xs), 2):
                    st['filters'].append((xs[k] != '-', int(xs[k + 1])))
            elif t[2] == 'SetSubscriptionID':
                st['subid'] = int(t[3])
        elif t[0] == 'RDP' and t[1:] == ['p', 'q']:
            # the twin decoded from the bytes p wrote: same verdict expected (what the rules look at is transmitted
            # whenever it matters: the packet identifier for QoS 1 and 2, every filter with its options)
            rdp_ok = g.startswith('rdp ') and g != 'rdp err'
        elif t[0] in ('WF', 'STR') and (t[1] == 'p' or (t[1] == 'q' and rdp_ok)) and kind in ('Publish', 'Subscribe'):
            if kind == 'Publish':
                mal = (not st['topic'] and st['alias'] == 0) or (st['qos'] in (1, 2) and st['pid'] == 0) or st['qos'] == 3
                key = 'P|t%d a%d q%d p%d' % (st['topic'], st['alias'] != 0, st['qos'], st['pid'] != 0)
            else:
                mal = (not st['filters']) or (st['subid'] is not None and st['subid'] > 268435455) or \
                    any((not f) or (o & 3) == 3 for f, o in st['filters'])
                key = 'S|n%d s%s %s' % (len(st['filters']), 'none' if st['subid'] is None else ('big' if st['subid'] > 268435455 else 'ok'),
                                          ','.join('%d%d' % (f, (o & 3) == 3) for f, o in st['filters']))
            res['evals'] += 1
            res['keys'].append(key)
            res['hist'].append(kind + ('=malformed' if mal else '=wellformed') + ('/decoded' if t[1] == 'q' else ''))
            if t[0] == 'WF':
                if (g == 'wf nil') == mal or not g.startswith('wf '):
                    res['concrete'].append(dict(line=i, what='WellFormed disagrees with the documented rules (%s, expected %s): %s' % (
                        key, 'an error' if mal else 'nil', g)))
            else:
                has = re.search(r'2062797465732c206d616c666f726d65642120', g) is not None   # " bytes, malformed! "
                if has != mal and not g.endswith('panic'):
                    res['concrete'].append(dict(line=i, what='String() malformed suffix %s but rules say %s (%s)' % (has, mal, key)))
    return res


# ------------------------------------------------------------------------------------------ C18 / C19

def j_c18(sh, a, b):
    res = base(sh, a, b, {'STR', 'DUMP', 'RDP'})
    out = {}
    redecoded = False
    for i in range(a, b):
        op = sh['ops'][i]
        if op.startswith('DEC a '):
            redecoded = True      # from here on a and b are the same values re-used as decode targets
        if op in ('STR a', 'STR b', 'DUMP a', 'DUMP b') and redecoded:
            out[op + '2'] = (i, sh['go'][i])
        elif op in ('STR a', 'STR b', 'DUMP a', 'DUMP b', 'STR da', 'STR db', 'DUMP da', 'DUMP db'):
            out[op] = (i, sh['go'][i])
    # the wire-decoded pair: two packets decoded from frames that differ only in the bytes of equally long credentials.
    # That is what the frames of a and b are *when every value is within MQTT's limits*; a user name of more than
    # 65 535 bytes, say, does not survive the wire (its length prefix wraps), what comes back is decoded from a frame
    # whose structure depends on the credential bytes, and the pair is outside the property's quantifier.
    inlimit = True
    for i in range(a, b):
        t = sh['ops'][i].split()
        if len(t) >= 4 and t[0] == 'SET':
            for x in t[3:]:
                if re.fullmatch(r'[0-9a-f]+', x) and len(x) // 2 > 65535:
                    inlimit = False
    rdp = {}
    for i in range(a, b):
        t = sh['ops'][i].split()
        if len(t) == 3 and t[0] == 'RDP' and sh['go'][i].startswith('rdp ') and sh['go'][i] != 'rdp err':
            rdp[t[2]] = True
    decoded_pair_ok = inlimit and 'da' in rdp and 'db' in rdp
    for tag in ('STR', 'DUMP'):
        for x, y, how in ((' a', ' b', 'API-built'), (' da', ' db', 'wire-decoded'), (' a2', ' b2', 're-used as decode targets')):
            if how == 'wire-decoded' and not decoded_pair_ok:
                continue
            if how.startswith('re-used') and not inlimit:
                continue
            if tag + x in out and tag + y in out:
                res['evals'] += 1
                if out[tag + x][1] != out[tag + y][1]:
                    res['concrete'].append(dict(line=out[tag + y][0], what='%s output of %s CONNECT packets depends on the credential bytes' % (tag, how)))
    res['keys'] = [hashlib.md5('\n'.join(sh['ops'][a:b]).encode()).hexdigest()[:10]]
    res['hist'] = ['will=' + str(any('SetWill' in sh['ops'][i] for i in range(a, b)))]
    return res


def j_c19(sh, a, b):
    res = base(sh, a, b, set())
    for i in range(a, b):
        o = opname(sh['ops'][i])
        if o in ('STR', 'DUMP'):
            g = sh['go'][i]
            if g == 'bad-op':
                continue
            res['evals'] += 1
            res['keys'].append(hashlib.md5(g.encode()).hexdigest()[:10])
            if g.endswith(' panic') or g.endswith(' hang') or g == '<no output>':
                res['concrete'].append(dict(line=i, what='%s does not return normally: %s' % (o, g)))
            elif '2850414e49433d' in g:
                # fmt recovers a panic raised inside a nested String/Format method and prints `%!s(PANIC=String method: …)`:
                # the outer call returns, but a renderer panicked
                res['concrete'].append(dict(line=i, what='%s: a nested renderer panicked, fmt printed (PANIC=…): %s' % (o, bytes.fromhex(g.split(' ', 1)[1]).decode('latin1')[:200] if ' ' in g else g)))
            elif not same(g, sh['lean'][i]) and (sh['lean'][i].endswith('panic')):
                res['diverge'].append(dict(line=i, what='model panics where the implementation returns'))
            elif not same(g, sh['lean'][i]):
                res['drift'] += 0
    res['hist'] = case_hist(sh, a, b)
    return res


def j_c13(sh, a, b):
    res = base(sh, a, b, {'ENC'})
    res['evals'] = sum(1 for i in range(a, b) if opname(sh['ops'][i]) == 'ENC')
    res['keys'] = [setter_key(sh, a, b)]
    return res


def race_once(rharness, ops, goroutines, iterations, gomaxprocs=None):
    """run the race-detector stress on an op file; returns None or a description of what went wrong"""
    env = dict(os.environ, GORACE='exitcode=66 halt_on_error=1')
    if gomaxprocs:
        env['VERIF_GOMAXPROCS'] = str(gomaxprocs)
    try:
        p = subprocess.run([rharness, 'race', str(goroutines), str(iterations)], input=ops, capture_output=True, text=True,
                           env=env, timeout=int(os.environ.get('VERIF_RACE_TIMEOUT', '240')))
    except subprocess.TimeoutExpired:
        # an operation that does not return is C19's / C05's business, not a data race: inconclusive here
        return None
    if p.returncode == 66 or 'DATA RACE' in p.stderr:
        lines = [l for l in p.stderr.split('\n') if l.strip()]
        where = [l.strip() for l in lines if 'gregoryv/mq' in l or '/repo/' in l][:4]
        return 'data race reported by the Go race detector: ' + ' | '.join(where)[:400]
    if p.returncode == 3:
        bad = [l for l in p.stdout.split('\n') if l.startswith('race bad ')]
        return (bad[0][9:] if bad else 'concurrent result differs from the sequential one')
    if p.returncode != 0:
        return 'race stress exited with status %d: %s' % (p.returncode, p.stderr[-200:])
    return None


def extra_c13(pid, tier, seed, harness, stats, h):
    """dynamic support for C13: goroutines performing read-only operations on shared packets under the
    race detector, every concurrent WriteTo compared with the sequential bytes"""
    rh, err = h['build_harness'](race=True)
    if rh is None:
        h['log'](err)
        yield ('nofail', dict(property=pid, kind='obligation', what='cannot build the race-detector harness'))
        return
    plan = [(None, 8, 60, 200), (None, 8, 60, 150)] if tier == 'quick' else [(1, 4, 200, 1500), (2, 8, 200, 1500), (4, 8, 200, 1500), (None, 16, 200, 3000)]
    total = 0
    for k, (procs, gor, iters, ncases) in enumerate(plan):
        ops = subprocess.run([harness, 'gen', 'shared' if k % 2 == 0 else 'pkt', str(seed * 100 + k), str(ncases)], capture_output=True, text=True).stdout
        bad = race_once(rh, ops, gor, iters, procs)
        total += ncases * gor * iters // max(1, ncases) * ncases // ncases
        stats['hist']['race-run gomaxprocs=%s goroutines=%d' % (procs or 'all', gor)] = ncases
        stats['evaluations'] += ncases
        if bad:
            # narrow down to a chunk of cases that still shows it
            cases = ops.split('RESET\n')
            chunk_ops = ops
            for a in range(1, len(cases), 25):
                sub = 'RESET\n' + 'RESET\n'.join(cases[a:a + 25])
                if race_once(rh, sub, gor, iters * 3, procs):
                    chunk_ops = sub
                    break
            yield ('concrete', dict(property=pid, kind='concrete', what=bad, race=True, goroutines=gor, iterations=iters * 3,
                                    gomaxprocs=procs, seed=seed, ops=chunk_ops.split('\n')[:4000],
                                    note='goroutine schedules are not exactly replayable; the replay re-runs the same packets under the race detector'))
            return


def j_fuzz_agree(sh, a, b):
    """coverage-selected inputs, C03/C09: what the decoder returns (accepted or rejected, the decoded values, the
    bytes drawn) is what the model of the decoder returns"""
    res = base(sh, a, b, {'RD', 'DEC', 'STR'})
    for i in range(a, b):
        if opname(sh['ops'][i]) in ('RD', 'DEC'):
            res['evals'] += 1
            res['keys'].append(hashlib.md5(sh['ops'][i].encode()).hexdigest()[:10])
    return res


def extra_fuzz(pid, tier, seed, harness, stats, h):
    """search support for C04/C05 (thorough tier): Go's coverage-guided fuzzing of ReadPacket and of UnmarshalBinary on
    a re-used target (harness/fuzz). A failing input it reports, and the inputs it kept because they reached new code,
    are turned into operation lines (`mqharness fuzzops`), executed by implementation and model and judged by the
    judge of the property like generated cases. Proves nothing; widens what the correspondence sees."""
    if tier != 'thorough':
        return
    hdir = os.path.join(h['ROOT'], 'harness')
    secs = int(os.environ.get('VERIF_FUZZ_SECONDS', '60'))
    gocache = subprocess.run(['go', 'env', 'GOCACHE'], capture_output=True, text=True, env=h['GOENV']).stdout.strip()
    judge = PROPS[pid]['judge'] if pid in ('C04', 'C05') else per_case(j_fuzz_agree)
    ctx = dict(split_cases=h['split_cases'])
    for target in ('FuzzReadPacket', 'FuzzUnmarshal'):
        tdir = os.path.join(hdir, 'fuzz', 'testdata', 'fuzz', target)
        before = set(os.listdir(tdir)) if os.path.isdir(tdir) else set()
        p = subprocess.run(['go', 'test', '-tags', 'verif', '-run', 'xxx', '-fuzz=^' + target + '$', '-fuzztime=%ds' % secs, '-parallel', str(max(2, (os.cpu_count() or 4) // 2)), './fuzz'],
                           cwd=hdir, env=h['GOENV'], capture_output=True, text=True)
        m = re.findall(r'execs: (\d+)', p.stdout)
        stats['hist']['fuzz %s execs' % target] = int(m[-1]) if m else 0
        failing = sorted(set(os.listdir(tdir)) - before) if os.path.isdir(tdir) else []
        srcs = [os.path.join(tdir, f) for f in failing]
        cdir = os.path.join(gocache, 'fuzz', 'mqverif', 'fuzz', target)
        if os.path.isdir(cdir):
            srcs.append(cdir)
        ops = subprocess.run([harness, 'fuzzops', target] + srcs, capture_output=True, text=True).stdout
        for f in failing:          # a failing input is evidence for this run only; it is re-found if the defect stays
            os.remove(os.path.join(tdir, f))
        if not ops.strip():
            if p.returncode != 0 and 'FAIL' in p.stdout:
                yield ('nofail', dict(property=pid, kind='obligation', what='fuzz target %s fails but its input could not be converted: %s' % (target, p.stdout[-300:])))
            continue
        sh = h['run_shard'](harness, 'fuzz:' + target, 0, 0, ops)
        found = False
        for (a, b), res in zip(h['split_cases'](sh), judge(sh, ctx)):
            stats['cases'] += 1
            stats['evaluations'] += res.get('evals', 1)
            for k in res.get('keys', []):
                stats['distinct'].add(k)
            stats['hist']['fuzz %s corpus inputs' % target] = stats['hist'].get('fuzz %s corpus inputs' % target, 0) + 1
            for kind, lst in (('concrete', res['concrete']), ('nofail', res['diverge'])):
                for v in lst[:1]:
                    if found:
                        continue
                    found = True
                    end = min(b, v['line'] + 1)
                    yield (kind, dict(property=pid, kind='concrete' if kind == 'concrete' else 'correspondence', what=v['what'],
                                      **{'class': 'fuzz:' + target}, seed=0, ops=sh['ops'][a:end], impl=sh['go'][a:end], model=sh['lean'][a:end]))
        if p.returncode != 0 and failing and not found:
            # the fuzz target's own oracle failed (it has a wall-clock watchdog, which a loaded machine can trip) but the
            # executor, with its re-runs, and the judge of the property do not confirm it on that input: not reported
            stats['hist']['fuzz %s failure not confirmed by the executor' % target] = len(failing)


def per_case(fn):
    def js(sh, ctx):
        return [fn(sh, a, b) for a, b in ctx['split_cases'](sh)]
    return js


def P(judge, quick, thorough, rule, **kw):
    d = dict(judge=judge, classes=dict(quick=quick, thorough=thorough), rule=rule)
    d.update(kw)
    return d


PROPS = {
    'C01': P(per_case(j_c01), [('pkt', 1400), ('rewrite', 400)], [('pkt', 40000), ('pkt+', 2000), ('rewrite', 10000)],
             'one case = one in-domain packet built through the API; distinct by (type, set of setters used, boundary lengths hit); non-trivial = has at least the constructor and the round trip ran'),
    'C02': P(js_c02, [('pkt', 1400), ('rewrite', 400), ('willx', 200)], [('pkt', 40000), ('pkt+', 2000), ('rewrite', 10000), ('willx', 5000)],
             'well-formed in-domain packets; the bytes WriteTo produced are parsed by the independent Spec.parse in Lean and compared with the API values; distinct as C01'),
    'C03': P(js_c03, [('frames', 1600)], [('frames', 40000), ('frames+', 1500)],
             'specification-style generated valid frames (all 15 types, property permutations, explicit zeros, short forms); distinct by (type, set of non-default fields); thorough adds the inputs Go native fuzzing keeps, on which model and decoder must return the same',
             extra=extra_fuzz),
    'C04': P(per_case(j_c04), [('malformed', 1500), ('reject', 40), ('cuts', 40), ('wfrd', 160)], [('malformed', 60000), ('reject', 1500), ('cuts', 1500), ('short', 2), ('wfrd', 5000)],
             'arbitrary, truncated and mutated bytes through UnmarshalBinary of every type and through ReadPacket; distinct = distinct input lines; thorough adds the inputs Go native fuzzing keeps (input_distribution: fuzz …)',
             extra=extra_fuzz),
    'C05': P(per_case(j_c05), [('malformed', 1500), ('reject', 40), ('cuts', 40), ('biglist', 64)], [('malformed', 60000), ('reject', 1500), ('cuts', 1500), ('biglist', 2000)],
             'as C04, outcome = returned within the watchdog, list elements <= input bytes, bytes allocated during the call (runtime.MemStats.TotalAlloc) <= 1 MiB + 512 x input + 2 x declared length; biglist = frames with 600..4500 user properties, subscription identifiers, filters or reason codes, whole and cut short; distinct = distinct input lines',
             extra=extra_fuzz),
    'C06': P(per_case(j_c06), [('seq', 1200)], [('seq', 40000)],
             'concatenations of 1..5 frames (valid, content-malformed, zero-length) plus trailing bytes; distinct by the vector of frame lengths and tail'),
    'C07': P(per_case(j_c07), [('frames', 1200), ('nonmin', 160)], [('frames', 20000), ('comps', 200), ('nonmin', 5000)],
             'frame x delivery schedule pairs compared with the contiguous read of the same frame; distinct = distinct (frame, schedule) lines'),
    'C08': P(per_case(j_c08), [('cuts', 120)], [('cuts', 4000)],
             'every cut offset of generated frames x EOF / transport error x delivery style; distinct = distinct (prefix, schedule, failure) lines'),
    'C09': P(per_case(j_c09), [('reject', 150)], [('reject', 3000), ('reject+', 300)],
             'valid frames mutated by the four rules (cut inside a field per the field map, fifth varint byte, boolean 2..255, undefined identifier); distinct = distinct mutated frames; thorough adds the inputs Go native fuzzing keeps, on which model and decoder must accept/reject alike',
             extra=extra_fuzz),
    'C10': P(per_case(j_c10), [('pkt', 900), ('odd', 500), ('rewrite', 400), ('willmod', 150)], [('pkt', 30000), ('odd', 10000), ('pkt+', 1000), ('rewrite', 10000), ('willmod', 5000)],
             'API-built packets (in-domain and constructible-malformed, zero values, CONNECTs whose will is changed after it was attached) x writers (succeed / fail / accept k bytes; *bytes.Buffer, a bare io.Writer, bufio.Writer); distinct as C01'),
    'C11': P(js_c11, [('pkt', 1200)], [('pkt', 30000)],
             'packets encoded repeatedly with read-only operations in between, in two processes; distinct as C01'),
    'C12': P(per_case(j_c12), [('hist', 1000)], [('hist', 40000)],
             'setter histories of length 1..25 with a VIEW after every step; distinct by (type, setter set, boundary lengths, length)'),
    'C13': P(per_case(j_c13), [('pkt', 200)], [('pkt', 2000)],
             'sequential encodings against the model, plus goroutines doing read-only operations on shared packets under the Go race detector (input_distribution: race-run …); distinct as C01',
             extra=extra_c13),
    'C14': P(js_c14, [('pool', 500)], [('pool', 20000)],
             'histories over a pool of 2..5 packets (decode, scribble over the decoder input, set, encode) with all packets viewed after every step; distinct = histories containing a scribble'),
    'C15': P(js_c15, [('vb', 4000), ('vbframe', 64), ('proplen', 104)], [('vb', 100000), ('vbframe', 2000), ('proplen', 1040)],
             'boundary values, random values, random byte sequences through the hooks, against a closed-form oracle; remaining lengths at the boundaries read by ReadPacket from split streams (vbframe); property sections of exactly 126..129 and 16382..16385 bytes in every packet type, read by the strict specification parser (proplen); thorough adds the exhaustive Go sweep; distinct = distinct op lines'),
    'C16': P(per_case(j_c16), [('first', 1)], [('first', 12)],
             'all 256 first bytes x generated bodies valid for the selected type; distinct = first bytes', ),
    'C17': P(per_case(j_c17), [('wf', 1500)], [('wf', 40000)],
             'Publish over topic/alias/QoS/packet id and Subscribe over filter count/sub id boundary/option bytes, judged by an independent predicate; distinct by the predicate inputs'),
    'C18': P(per_case(j_c18), [('cred', 800)], [('cred', 30000)],
             'pairs of CONNECT packets identical up to equally long credentials; distinct = distinct surrounding packets'),
    'C19': P(per_case(j_c19), [('render', 1), ('hist', 300), ('odd', 400), ('malformed', 400), ('frames', 300), ('willmod', 80), ('utf8', 300)],
             [('render', 1), ('hist', 10000), ('odd', 10000), ('malformed', 20000), ('frames', 10000), ('willmod', 3000), ('utf8', 10000)],
             'String/Dump on zero values, packets under construction, decoded packets (valid and malformed-but-accepted), all 256 values of every rendered byte; distinct = distinct renderings'),
}
