#!/usr/bin/env python3
"""regenerates MANIFEST.json from the table below (keeps it valid and in one place)"""
import json, os, re
ROOT = os.path.dirname(os.path.abspath(__file__))
ALL = ['C%02d' % i for i in range(1, 20)]

CLAIMED = {
 'C01': dict(text="Theorems C01_roundtrip_partial, C01_accessors_and_reencoding: for every packet of Packet.InDomain (Props/Domain.lean: all 15 types, strings 0..65535 bytes, any remaining length below 2^28 in its 1-4 byte forms, CONNECT with nested will and credentials, user properties, subscription identifiers, filters, reason codes) ReadPacket on the bytes the two-pass encoder produced — under any reader schedule, followed by anything — returns without error the very packet value that was written (hence same dynamic type, every accessor equal incl. the nested will, byte-identical re-encoding) and consumes exactly the frame. Proof: E (C02: encoder output = Spec.unparse of a legal abstract packet with the same view), D (C03: the decoder accepts it with the specification's view), C16 (first byte preserved), and Proofs.Inject (view + first byte determine the packet value; decoded CONNECTs are canonical). Correspondence: RT oracle (WriteTo, ReadPacket, accessor snapshots, re-WriteTo) on generated packets over the full C01 domain incl. boundary lengths.",
             note="PARTIAL: the theorem covers the structurally valid part of the C01 domain (protocol name MQTT/version 5, legal subscription option bits, at least one SUBACK/UNSUBACK reason code); constructible-but-invalid packets of the domain (other protocol names/versions, all 256 option bytes, empty reason-code lists) are covered by the correspondence oracle only. All 256 reason-code values, MaxQoS values etc. are inside the theorem.",
             technique="Lean 4 theorem (E + D + injectivity of the accessor view: decode(encode p) = p as values) + differential round-trip correspondence", ref="§7 C01"),
 'C02': dict(text="Theorems C02_emits_valid, C02_one_frame: for every packet of the domain Packet.InDomain (Props/Domain.lean: all 15 types; strings and user properties within 65535 bytes, non-empty keys, remaining length below 2^28, first byte as the constructor sets it, CONNECT flags as the setters maintain them with an unmodified will, protocol MQTT/5, at least one reason code/filter, legal subscription option bits, QoS <= 2) the bytes of the two-pass encoder are exactly one frame: unparse of an abstract packet that is Legal by the independent specification layer (allowed identifiers per packet with their wire type, at most once, short forms, minimal lengths equal to what follows) and whose specification-side reading (absent = zero value) equals the API values. Proofs.E*: per packet type, generic bridge in Proofs.EBridge (the encoder writes the non-zero fields in a fixed order, a legal occurrence list). Correspondence: WriteTo bytes of generated well-formed packets parsed by the strict Spec.parse in Lean (op SPEC) and compared with the accessor view.",
             note="Structural validity is defined generatively (image of Spec.unparse over Spec.Legal); the strict parser Spec.parse is exercised dynamically on every emitted frame but parse-after-unparse is not yet a theorem. Spec.* is a hand-written reading of MQTT v5.0 and is trusted.",
             technique="Lean 4 theorem (encoder output = specification unparser on a legal abstract packet, per packet type) + differential correspondence through an independent strict parser", ref="§7 C02"),
 'C03': dict(text="Theorems C03_frame / C03_accepts_valid: for every legal abstract packet of the independent specification layer (all 15 types, any property order, explicit zero values, every short form, strings up to 65535 bytes, multi-byte property lengths) the model of ReadPacket, under any reader schedule and followed by anything, returns a packet of the matching type whose accessor view equals the specification's view and consumes exactly the frame. Correspondence: specification-style frame generator in the harness, each frame through Go ReadPacket, the model and Spec.parse.",
             note="The valid-frame language is defined generatively as the image of Spec.unparse over Spec.Legal; Spec.* is a hand-written reading of MQTT v5.0 and is trusted. Model/code tie by differential testing.",
             technique="Lean 4 theorem (per-type refinement of the Go-shaped decoder against the specification unparser) + differential correspondence", ref="§7 C03"),
 'C04': dict(text="Theorems C04_unmarshal_total / C04_readPacket_xor: in the Lean model every decoder (16 dispatch targets) returns normally on every byte string and every reader, each partial Go operation being an explicit panic branch shown unreachable. The model is tied to the code by differential execution of malformed, truncated and mutated inputs (outcome class normal/panic/hang) on every run.",
             note="Kernel-checked for the model; the model/code tie is differential testing, so a decoder path no generated input reaches is covered only by the reading of the code that the model encodes.",
             technique="Lean 4 theorem over a hand-written model + differential correspondence (line protocol)", ref="§7 C04"),
 'C05': dict(text="Theorems C05_terminates, C05_list_growth, C05_elements_below_frame: the three decoder loops of the model never exhaust a budget of (input length + 1) iterations and the decoded lists grow by at most one element per input byte. Tied to the code by running the same inputs under a watchdog and an address-space cap in a killable worker.",
             note="Partial: allocator behaviour and wall-clock time of the Go runtime are not modelled; the harness's watchdog and element count support the model, they are not proof.",
             technique="Lean 4 theorem (fuel adequacy, element bound) + watchdog correspondence", ref="§7 C05"),
 'C06': dict(text="Theorems C06_consumed, C06_sequence, C06_then_eof, C06_zero_length over the model of ReadPacket: a complete frame at the head of any stream is consumed exactly, its outcome is a function of its bytes, concatenations come back in order followed by io.EOF. Correspondence: counting reader in Go vs model on generated frame sequences.",
             note="Frames with remaining length < 2^28 (the MQTT limit). Model/code tie by differential testing.",
             technique="Lean 4 theorem + differential correspondence", ref="§7 C06"),
 'C07': dict(text="Theorem C07_schedule_irrelevant: for any two delivery schedules permitted by the io.Reader contract (chunk sizes, (0,nil) reads, error with or after the last bytes) ReadPacket returns the same result and leaves the same bytes; proved from a schedule-free characterisation of io.ReadFull (readFull_pure). Correspondence: scripted readers in Go, compared with the contiguous read and with the model.",
             note="The quantifier 'every legal io.Reader' is the script semantics of Mq.Stream.Reader; io.ReadFull is modelled from its documented contract.",
             technique="Lean 4 theorem over a modelled io.Reader contract + differential correspondence", ref="§7 C07"),
 'C08': dict(text="Theorems C08_cut_reported, C08_boundary_eof, C08_boundary_error, C08_packet_needs_all_bytes: every proper prefix of every frame, under every schedule and failure style, yields (nil, err) with errors.Is(err, E) for a transport error and io.EOF on a frame boundary. Correspondence: every cut offset of generated frames through scripted readers.",
             note="As C07: modelled reader contract; %w wrapping is modelled as Err.io.",
             technique="Lean 4 theorem over a modelled io.Reader contract + differential correspondence", ref="§7 C08"),
 'C10': dict(text="Theorems C10_two_pass (for every packet value the Go-shaped two-pass encoder of Mq.Fill — fill(buf,i) with the Go guards, dry run on the nil slice, real pass on a buffer of that size — produces exactly Packet.encode and width() is its length; Proofs.Fill: Sound/two_pass for every wire type incl. the per-byte-guarded vbint loop, Proofs.FillPackets: every packet section), C10_frame_shape (1 + remaining-length field + remaining length), C10_writeTo (exactly one Write offered the whole frame; count and error are the writer's), C10_count, C10_short_write, C10_undefined (error, no Write), C10_defined_types, C10_string_size (String prints the dry-run width = frame length). Correspondence: ENC/WR/STR of API-built, malformed-but-constructible and zero-value packets against scripted writers; the driver executes the Go-shaped fillers.",
             note="io.Writer is the script {accept, err}; a writer violating its contract is out of scope. Model/code tie by differential testing.",
             technique="Lean 4 refinement proof (Go-shaped fill(buf,i) fillers refine list-append encoding; dry run = real pass) + differential correspondence", ref="§7 C10"),
 'C11': dict(text="Theorems C11_range_singleton (map iteration modelled as an arbitrary permutation: a range over at most one entry does not depend on it), C11_ranged_properties (SUBSCRIBE/SUBACK/UNSUBACK), C11_two_entries_differ (why the bound matters), C11_repeatable (any interleaving of read-only operations: every WriteTo yields Packet.encode, every accessor snapshot is the same), and the source facts C11_map_ranges / C11_readonly, regenerated from /repo by the go/ssa+go/ast extractor on every run and re-checked by lake build (Proofs.Tie.*): every range over a map on an encoding path ranges over a literal of at most one entry; no read-only operation writes to the packet or package state. Correspondence: repeated ENC in two processes with STR/DUMP/WF/VIEW in between.",
             note="The effect classification of the extractor (conservative may-analysis over SSA) is trusted; see DESIGN.md §11.",
             technique="Lean 4 theorems + facts regenerated from the source by a translator (go/ssa effect summary, go/ast map-range sites) checked by decide + differential correspondence", ref="§7 C11"),
 'C13': dict(text="Theorems C13_confined_no_race, C13_shared_constant, C13_reads_initial: in every interleaving of any number of goroutines whose operations write only private memory there is no data race, shared memory never changes and every read of it returns the initial value (each operation computes what it computes alone); C13_mq_confined: the effect summary regenerated from /repo's source (read-only operations and ReadPacket write nothing but memory they allocate and their own stream; no write through a package-level variable; _LEN never assigned) satisfies the hypothesis. Dynamic support: goroutines performing read-only operations on shared packets under the Go race detector, every concurrent WriteTo compared with the sequential bytes.",
             note="Partial: soundness of the SSA effect classification and the Go memory model are trusted, not proved; the race detector supports the model, it is not a proof. Schedules found by it are not exactly replayable.",
             technique="Lean 4 theorem over an abstract interleaving semantics + effect summary regenerated from the source (go/ssa) checked by decide + race-detector stress", ref="§7 C13"),
 'C14': dict(text="Theorems C14_pool_frame, C14_bystander (over whole histories), C14_scribble, C14_history_free over the value-semantics model of a pool of packets, and the source facts C14_no_retain (no UnmarshalBinary of any type and not ReadPacket stores a pointer into its input where it outlives the call) and C14_no_shared_state (no exported operation writes through a package-level variable, mqtt5 included), regenerated from /repo by the go/ssa extractor on every run. Correspondence: pool histories (decode, scribble over the decoder input, set, encode) with all packets viewed after every step.",
             note="That value semantics is the right model of the Go code is exactly what the source facts and the scribble correspondence establish; the SSA retain analysis is trusted.",
             technique="Lean 4 frame theorems + facts regenerated from the source by a translator (go/ssa retain/effect analysis) checked by decide + differential correspondence with input scribbling", ref="§7 C14"),
 'C12': dict(text="Theorems C12_connect_flags (over every setter history from NewConnect: user-name/password flags iff non-empty, will flag iff a will is attached, will QoS/retain mirror the message, reserved bit clear), C12_connect_step, C12_clean_start, C12_session_present(+_frame), C12_publish_dup_retain, C12_publish_qos; bit facts are complete kernel-checked enumerations of the 256 flag bytes. Scalar setters are record updates in the model; correspondence compares every accessor after every step of generated histories.",
             note="The model's plain setters are last-write-wins by construction; that they match the Go setters is established by differential testing of histories only.",
             technique="Lean 4 invariant by induction over setter histories + exhaustive bit tables + differential correspondence", ref="§7 C12"),
 'C15': dict(text="Theorems C15_enc_length/shape/minimal, C15_mem_roundtrip, C15_stream_roundtrip (any schedule), C15_decoders_agree (every byte string), C15_reject_long_mem/stream, C15_reject_truncated, C15_no_overflow: all by induction for every value and every byte string. Correspondence through the verif hooks against the model and a closed-form oracle; thorough tier adds an exhaustive Go sweep.",
             note="Nat arithmetic in the model; C15_no_overflow shows the Go uint arithmetic cannot wrap. Hook wrappers (build tag verif) are trusted to call the unexported codec unchanged.",
             technique="Lean 4 theorems by strong induction + differential correspondence through build-tag hooks", ref="§7 C15"),
 'C16': dict(text="Theorems C16_dispatch (complete enumeration of the 256 first bytes by decide +kernel), C16_decoded, C16_undefined, C16_publish_flags, C16_first_byte_back: type by upper nibble, first byte preserved by decoding and reproduced by encoding. Correspondence: all 256 first bytes x generated bodies.",
             note="Model/code tie by exhaustive differential run over the 256 first bytes.",
             technique="Lean 4 theorems (finite table by kernel evaluation, structural lemmas) + exhaustive correspondence", ref="§7 C16"),
 'C17': dict(text="Theorems C17_publish, C17_filter, C17_subscribe (iff-characterisations of WellFormed), C17_string_publish/subscribe (the malformed suffix is appended exactly when WellFormed reports an error). Correspondence: cross product of the predicate inputs judged by an independent predicate in the harness.",
             note="String() text is modelled for the fmt verbs used; see DESIGN.md §4.",
             technique="Lean 4 theorems by case analysis + differential correspondence with an independent predicate", ref="§7 C17"),
 'C18': dict(text="Theorems C18_dump, C18_string, C18_size, C18_setters, C18_decoded: non-interference over arbitrary Connect values of the model — Dump and String of two CONNECT packets that differ only in the bytes of equally long credentials are identical (Dump sees only stars(len), String only the flag byte and the frame size, which depends on the lengths). Correspondence: generated pairs of CONNECT packets through Go Dump/String, compared within the pair and with the model's rendering.",
             note="The rendering model covers the fmt verbs the library uses; %q of bytes >= 0x80 is compared only as 'returned normally' (DESIGN.md §4). Model/code tie by differential testing.",
             technique="Lean 4 theorem (two-run non-interference over the rendering model) + differential correspondence", ref="§7 C18"),
 'C19': dict(text="Theorems C19_string_total, C19_dump_total, C19_total (over the inductive set Reachable: zero values, constructors, any setter, UnmarshalBinary of any bytes with any outcome, anything ReadPacket returns), C19_inv_zero_new/_setter/_decode, C19_reason_code (complete enumeration of 256 codes: stringer table slicing stays in range), C19_flag_renderers. Every partial Go operation of the renderers (nil will dereference, table slicing) is an explicit panic branch of the model, shown unreachable. Correspondence: String/Dump on zero values, histories, decoded packets, all 256 values of each rendered byte.",
             note="SetWill(nil) panics inside the setter itself and is outside Reachable. Model/code tie by differential testing.",
             technique="Lean 4 theorem (invariant by induction over reachable packet values, finite tables by kernel evaluation) + differential correspondence", ref="§7 C19"),
}

def main():
    checks = []
    for pid in ALL:
        if pid not in CLAIMED:
            continue
        c = CLAIMED[pid]
        checks.append(dict(
            property_id=pid,
            quick_cmd='./check %s --tier quick' % pid,
            thorough_cmd='./check %s --tier thorough' % pid,
            evidence_file='evidence/%s.json' % pid,
            replay_cmd_template='./check %s --replay {path}' % pid,
            engine='lean-model+go-harness',
            level_claimed=dict(category='proof', text=c['text'], design_ref=c['ref']),
            level_note=c['note'],
            technique=c['technique']))
    na = [dict(property_id=p, reason='check under construction in this round: the Lean theorems for this property are not finished, so nothing is claimed yet (the technique applies; see DESIGN.md §13)')
          for p in ALL if p not in CLAIMED]
    m = dict(
        version=1,
        setup_cmd='./check --setup',
        hooks=dict(guard='verif', enable='go build -tags verif (the harness is built with -tags verif against /repo through a replace directive)',
                   baseline_off_cmd='cd /repo && go test -vet=off -count=1 ./...',
                   source_commits=['6edf761'], add_only=True),
        engines=[dict(name='lean-model', path='lean', serves_properties=sorted(CLAIMED), kind_free_text='Lean 4 model of the codec (Mq.*), proofs (Proofs.*), property theorems (Props.*), compiled line-protocol driver'),
                 dict(name='go-harness', path='harness', serves_properties=sorted(CLAIMED), kind_free_text='Go executor of the line protocol against /repo (build tag verif), seeded generators, killable worker'),
                 dict(name='fact-extractor', path='extract', serves_properties=[p for p in ['C01', 'C02', 'C03', 'C10', 'C11', 'C13', 'C14', 'C19'] if p in CLAIMED], kind_free_text='Go translator (go/ast, go/types, go/ssa over /repo) regenerating lean/Mq/Generated/Facts.lean on every run: property tables, fillProp order, constants, stringer tables, map-range sites, effect and retain summaries; Proofs/Tie/*.lean re-checks them against the model'),
                 dict(name='judges', path='lib/judges.py', serves_properties=sorted(CLAIMED), kind_free_text='per-property verdict logic over implementation/model output streams')],
        checks=checks,
        notes='One entry point: ./check <ID> [--tier quick|thorough] [--replay path]; VERIF_SEED and VERIF_TIER are honoured. See DESIGN.md.',
        not_applicable=na)
    with open(os.path.join(ROOT, 'MANIFEST.json'), 'w') as f:
        json.dump(m, f, indent=1)

if __name__ == '__main__':
    main()
