#!/usr/bin/env python3
"""translator_coverage.py — how much of the library's source does the regenerated model see?

`mqextract -sites /repo` lists every comparison/boolean/arithmetic operator and every integer literal inside the
functions of the library (non-test files). Each is edited, one at a time, in a scratch copy of /repo (never in /repo), the
translators are run on the copy, and the regenerated files (lean/Mq/Generated/*.lean, status.json) are compared with
those of the unedited copy:

  visible      some regenerated definition or fact differs: the tie theorems are re-checked against another model, and
               either still hold (the edit is harmless for what they say) or break
  unavailable  the translator no longer recognises the shape: the family's tie is not built for that run (no alarm); the
               model stays tied by the correspondence run only
  invisible    nothing regenerated changes: this token of the source is tied to the model by the correspondence run only
  no-typecheck the edited source does not type-check (not a realistic change)

Writes translator_coverage.json and prints the table of DESIGN.md §11a. About 4 minutes on 16 cores."""
import sys, os, json, subprocess, shutil, hashlib, collections
from concurrent.futures import ThreadPoolExecutor
ROOT = os.path.dirname(os.path.dirname(os.path.abspath(__file__)))
ENV = dict(os.environ, GOFLAGS='-mod=mod', GOPROXY='off', GOSUMDB='off', GOTOOLCHAIN='local')
EXTRACT = os.path.join(ROOT, 'work', 'bin', 'mqextract')
W = max(2, (os.cpu_count() or 4) // 2)


def snapshot(outdir):
    snap = {}
    for f in sorted(os.listdir(outdir)):
        snap[f] = hashlib.sha1(open(os.path.join(outdir, f), 'rb').read()).hexdigest()
    return snap


def run_extract(clone, outdir):
    p = subprocess.run([EXTRACT, clone, os.path.join(outdir, 'Facts.lean')], capture_output=True, text=True, env=ENV)
    return p.returncode == 0


def worker(w, sites, base_status):
    clone, outdir = '/tmp/tc-%d' % w, '/tmp/tcout-%d' % w
    shutil.rmtree(clone, ignore_errors=True); shutil.rmtree(outdir, ignore_errors=True)
    shutil.copytree('/repo', clone, ignore=shutil.ignore_patterns('.git'))
    os.makedirs(outdir)
    assert run_extract(clone, outdir)
    base = snapshot(outdir)
    res = []
    for s in sites:
        path = os.path.join(clone, os.path.basename(s['file']))
        orig = open(path, 'rb').read()
        old = s['old'].encode()
        if orig[s['off']:s['off'] + len(old)] != old:
            res.append(dict(s, outcome='skipped')); continue
        open(path, 'wb').write(orig[:s['off']] + s['new'].encode() + orig[s['off'] + len(old):])
        try:
            if not run_extract(clone, outdir):
                res.append(dict(s, outcome='no-typecheck')); continue
            snap = snapshot(outdir)
            changed = sorted(f for f in snap if snap[f] != base.get(f) and f != 'status.json')
            status = json.load(open(os.path.join(outdir, 'status.json')))
            lost = sorted(k for k, v in status.items() if v and not base_status.get(k))
            if lost:
                res.append(dict(s, outcome='unavailable', families=lost, changed=changed))
            elif changed:
                res.append(dict(s, outcome='visible', changed=changed))
            else:
                res.append(dict(s, outcome='invisible'))
        finally:
            open(path, 'wb').write(orig)
    shutil.rmtree(clone, ignore_errors=True); shutil.rmtree(outdir, ignore_errors=True)
    return res


def main():
    subprocess.run(['go', 'build', '-o', EXTRACT, '.'], cwd=os.path.join(ROOT, 'extract'), env=ENV, check=True)
    sites = json.loads(subprocess.run([EXTRACT, '-sites', '/repo'], capture_output=True, text=True, env=ENV).stdout)
    base_status = json.load(open(os.path.join(ROOT, 'lean', 'Mq', 'Generated', 'status.json')))
    chunks = [sites[i::W] for i in range(W)]
    with ThreadPoolExecutor(W) as ex:
        results = [r for part in ex.map(lambda a: worker(a[0], a[1], base_status), enumerate(chunks)) for r in part]
    results.sort(key=lambda r: (r['file'], r['off']))
    for r in results:
        r['file'] = os.path.basename(r['file'])
    byfile = collections.defaultdict(collections.Counter)
    for r in results:
        byfile[r['file']][r['outcome']] += 1
    total = collections.Counter(r['outcome'] for r in results)
    invisible = collections.Counter((r['file'], r['func']) for r in results if r['outcome'] == 'invisible')
    json.dump(dict(total=total, by_file={f: dict(c) for f, c in byfile.items()},
                   invisible_by_function={'%s %s' % k: v for k, v in sorted(invisible.items())}, sites=results),
              open(os.path.join(ROOT, 'translator_coverage.json'), 'w'), indent=1)
    print('| file | sites | visible | unavailable | invisible | no-typecheck |')
    print('|---|---|---|---|---|---|')
    for f in sorted(byfile):
        c = byfile[f]
        print('| %s | %d | %d | %d | %d | %d |' % (f, sum(c.values()), c['visible'], c['unavailable'], c['invisible'], c['no-typecheck']))
    print('| **all** | %d | %d | %d | %d | %d |' % (sum(total.values()), total['visible'], total['unavailable'], total['invisible'], total['no-typecheck']))
    print()
    print('invisible sites by function:', ', '.join('%s (%d)' % (k[1], v) for k, v in sorted(invisible.items(), key=lambda kv: -kv[1])))


if __name__ == '__main__':
    main()
