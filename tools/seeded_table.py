#!/usr/bin/env python3
"""seeded_table.py — prints the table of DESIGN.md §14 from seeded/*/meta.json and seeded/*/caught.json
(written by tools/mutlab.py): every confirmed breaking change, the property it was written against, what it needs to
manifest, and which quick checks alarm on it — in CAPITALS with a concrete failing input, in lower case as a broken
obligation only (`no-failing-input-found`)."""
import os, json, re
ROOT = os.path.dirname(os.path.dirname(os.path.abspath(__file__)))


def title(meta):
    for l in (meta.get('needs_to_manifest') or '').split('\n'):
        l = l.strip()
        if l.startswith('#'):
            l = re.sub(r'^#+\s*', '', l)
            l = re.sub(r'^(C\d\d\s*)?(/|seed|mutation|mutant)?\s*m?\d?\s*[:\-—–]+\s*', '', l, flags=re.I)
            return l[:110]
    return ''


def main():
    rows = []
    for name in sorted(os.listdir(os.path.join(ROOT, 'seeded'))):
        d = os.path.join(ROOT, 'seeded', name)
        if not os.path.exists(os.path.join(d, 'meta.json')):
            continue
        meta = json.load(open(os.path.join(d, 'meta.json')))
        caught = json.load(open(os.path.join(d, 'caught.json'))) if os.path.exists(os.path.join(d, 'caught.json')) else None
        if caught is None:
            cell = '(not re-run)'
            own = '?'
        else:
            al = caught['alarms']
            cell = ' '.join((k if v['concrete'] else k.lower()) for k, v in sorted(al.items())) or '—'
            own = 'yes' if meta['breaks'] in al and al[meta['breaks']]['concrete'] else ('obligation' if meta['breaks'] in al else 'NO')
        if meta['breaks'] == 'none':
            own = '—'
        rows.append((name, meta['breaks'], title(meta), own, cell))
    print('| change | written against | what it is | own check finds an input | alarms (CAPITAL = concrete input, lower = broken obligation only) |')
    print('|---|---|---|---|---|')
    for r in rows:
        print('| %s | %s | %s | %s | %s |' % r)
    br = [r for r in rows if r[1] != 'none']
    hl = [r for r in rows if r[1] == 'none']
    own = sum(1 for r in br if r[3] == 'yes')
    obl = sum(1 for r in br if r[3] == 'obligation')
    no = sum(1 for r in br if r[3] == 'NO')
    print()
    print('%d breaking changes: the check of the property the change was written against reports it with a concrete failing '
          'input for %d, as a broken obligation only for %d, not at all for %d. %d harmless refactors: %d of them raise an alarm.'
          % (len(br), own, obl, no, len(hl), sum(1 for r in hl if r[4] not in ('—', '(not re-run)'))))


if __name__ == '__main__':
    main()
