#!/usr/bin/env python3
"""seed.py <seed-name> <property> <patch> <demo_test.go> <notes.md> [checks...]

Confirms a candidate breaking change in a scratch worktree of /repo (existing tests pass with it,
the demonstration fails with it and passes without it), then applies it to /repo, runs the given
checks (default: all claimed in MANIFEST.json), reverts /repo, and records the result under
/verif/seeded/<seed-name>/ (patch.diff, demo, meta.json)."""
import sys, os, subprocess, json, shutil, tempfile, re
ROOT = os.path.dirname(os.path.dirname(os.path.abspath(__file__)))
ENV = dict(os.environ, GOFLAGS='-mod=mod', GOPROXY='off', GOSUMDB='off', GOTOOLCHAIN='local')

def sh(cmd, cwd=None, timeout=600):
    p = subprocess.run(cmd, cwd=cwd, env=ENV, capture_output=True, text=True, timeout=timeout)
    return p.returncode, p.stdout + p.stderr

def main():
    name, prop, patch, demo, notes = sys.argv[1:6]
    patch, demo = os.path.abspath(patch), os.path.abspath(demo)
    checks = sys.argv[6:]
    if not checks:
        checks = [c['property_id'] for c in json.load(open(os.path.join(ROOT, 'MANIFEST.json')))['checks']]
    meta = dict(seed=name, breaks=prop, ran=[], confirmed={})
    # ---- confirm in a scratch worktree
    wt = tempfile.mkdtemp(prefix='mqseed')
    os.rmdir(wt)
    rc, out = sh(['git', '-C', '/repo', 'worktree', 'add', '-q', '--detach', wt, 'HEAD'])
    assert rc == 0, out
    try:
        demo_dst = os.path.join(wt, 'zz_seed_demo_test.go')
        shutil.copyfile(demo, demo_dst)
        rc0, out0 = sh(['go', 'test', '-count=1', '.'], cwd=wt)
        meta['confirmed']['demo_passes_on_clean_tree'] = rc0 == 0
        os.remove(demo_dst)
        rc, out = sh(['git', 'apply', patch], cwd=wt)
        meta['confirmed']['patch_applies'] = rc == 0
        rc1, out1 = sh(['go', 'build', './...'], cwd=wt)
        rc2, out2 = sh(['go', 'test', '-count=1', './...'], cwd=wt)
        meta['confirmed']['compiles'] = rc1 == 0
        meta['confirmed']['existing_tests_pass_with_change'] = rc2 == 0
        shutil.copyfile(demo, demo_dst)
        rc3, out3 = sh(['go', 'test', '-count=1', '.'], cwd=wt, timeout=900)
        meta['confirmed']['demo_fails_with_change'] = rc3 != 0
    finally:
        sh(['git', '-C', '/repo', 'worktree', 'remove', '--force', wt])
    ok = all(meta['confirmed'].values())
    print('confirmed:', meta['confirmed'])
    # ---- run the checks against the change
    results = {}
    if ok:
        rc, out = sh(['git', '-C', '/repo', 'apply', patch])
        assert rc == 0, out
        try:
            for c in checks:
                rc, out = sh([os.path.join(ROOT, 'check'), c, '--tier', 'quick'], cwd=ROOT, timeout=1800)
                viol = [l for l in out.split('\n') if l.startswith('VIOLATION')]
                results[c] = dict(exit=rc, violations=viol[:3])
                print(c, 'exit', rc, viol[:1])
        finally:
            sh(['git', '-C', '/repo', 'checkout', '--', '.'])
            rc, out = sh(['git', '-C', '/repo', 'status', '--short'])
            assert out.strip() == '', 'repo not clean: ' + out
    meta['ran'] = ['./check %s --tier quick' % c for c in checks]
    meta['results'] = results
    meta['caught_by'] = [c for c, r in results.items() if r['exit'] == 1]
    old = os.path.join(ROOT, 'seeded', name, 'meta.json')
    meta['needs_to_manifest'] = open(notes).read()[:3000] if os.path.exists(notes) and not notes.endswith('.txt') else (json.load(open(old)).get('needs_to_manifest', '') if os.path.exists(old) else '')
    d = os.path.join(ROOT, 'seeded', name)
    os.makedirs(d, exist_ok=True)
    if os.path.abspath(patch) != os.path.join(d, 'patch.diff'):
        shutil.copyfile(patch, os.path.join(d, 'patch.diff'))
    if os.path.abspath(demo) != os.path.join(d, 'demo_test.go.txt'):
        shutil.copyfile(demo, os.path.join(d, 'demo_test.go.txt'))
    json.dump(meta, open(os.path.join(d, 'meta.json'), 'w'), indent=1)
    print('caught by:', meta['caught_by'])

if __name__ == '__main__':
    main()
