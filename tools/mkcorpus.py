#!/usr/bin/env python3
"""mkcorpus.py — turns the twelve repaired defects back into regression inputs.

For every `fix:` commit of /repo named in known-findings.txt the fix is reverted in a laboratory clone (never in
/repo), the quick checks of the properties that finding is recorded under are run in a laboratory copy of /verif, and the
operation lines of the first concrete violation each check reports are stored as corpus/<property>-<commit>.ops.
`./check` runs the corpus files of a property before the generated cases, so a defect that comes back is reported from
a fixed input, not only when a generator happens to produce it again. Run once after a repair; the corpus is committed."""
import sys, os, subprocess, json, shutil, re
ROOT = os.path.dirname(os.path.dirname(os.path.abspath(__file__)))
ENV = dict(os.environ, GOFLAGS='-mod=mod', GOPROXY='off', GOSUMDB='off', GOTOOLCHAIN='local')
LAB, CLONE = '/tmp/verif-mut-corpus', '/tmp/repo-mut-corpus'


def sh(cmd, **kw):
    return subprocess.run(cmd, capture_output=True, text=True, env=ENV, **kw)


def main():
    shutil.rmtree(LAB, ignore_errors=True); shutil.rmtree(CLONE, ignore_errors=True)
    sh(['git', 'clone', '-q', '/repo', CLONE])
    sh(['rsync', '-a', '--exclude', '.git', '--exclude', 'replays', '--exclude', 'seeded', '--exclude', 'corpus', ROOT + '/', LAB + '/'])
    for f in ('check', 'lib/judges.py', 'harness/go.mod'):
        p = os.path.join(LAB, f)
        text = open(p).read().replace('/repo', CLONE)
        open(p, 'w').write(text)
    fixed = {}
    for line in open(os.path.join(ROOT, 'known-findings.txt')):
        m = re.match(r'fixed: property=(C\d\d) ([0-9a-f]{7}) ', line)
        if m:
            fixed.setdefault(m.group(2), []).append(m.group(1))
    os.makedirs(os.path.join(ROOT, 'corpus'), exist_ok=True)
    for commit, pids in fixed.items():
        patch = sh(['git', '-C', CLONE, 'show', '--format=', commit, '--', '.', ':!*_test.go']).stdout
        pf = os.path.join(LAB, 'revert.diff')
        open(pf, 'w').write(patch)
        r = sh(['git', '-C', CLONE, 'apply', '-R', pf])
        if r.returncode != 0:
            print(commit, 'cannot be reverted on top of HEAD:', r.stderr[:120].strip(), flush=True)
            continue
        for pid in sorted(set(pids)):
            p = sh([os.path.join(LAB, 'check'), pid, '--tier', 'quick'], cwd=LAB, timeout=3600)
            got = None
            for l in p.stdout.split('\n'):
                m = re.match(r'VIOLATION property=%s replay=(\S+)$' % pid, l.strip())
                if m:
                    rec = json.load(open(os.path.join(LAB, m.group(1))))
                    if 'ops' in rec:
                        got = rec
                        break
            if got is None:
                print(commit, pid, 'no concrete violation with the fix reverted', flush=True)
                continue
            out = os.path.join(ROOT, 'corpus', '%s-%s.ops' % (pid, commit))
            open(out, 'w').write('\n'.join(got['ops']) + '\n')
            print(commit, pid, '->', os.path.relpath(out, ROOT), len(got['ops']), 'lines:', got['what'][:100], flush=True)
        sh(['git', '-C', CLONE, 'checkout', '--', '.']); sh(['git', '-C', CLONE, 'clean', '-fdq'])
    shutil.rmtree(LAB, ignore_errors=True); shutil.rmtree(CLONE, ignore_errors=True)


if __name__ == '__main__':
    main()
