#!/usr/bin/env python3
"""mutlab.py <lab-id> <job>... — confirms seeded changes and runs every quick check against them, in a laboratory copy.

job = an existing seeded/<name>, or NEW:<ID>:<k> to take /tmp/mutout-<ID>/m<k>/{patch.diff,demo_test.go,notes.md}
(written by a sub-agent that saw only the property text), confirm it and store it as seeded/<ID>-sm<k>.

Nothing here touches /repo or the checks' own state in /verif: /repo is cloned to /tmp/repo-mut-<lab>, /verif is copied
to /tmp/verif-mut-<lab> with its references to /repo redirected to the clone; each patch is applied to the clone, all
quick checks run in the copy, the clone is reset. Confirmation = the change builds, the library's own test suite
passes with it, the demonstration test fails with it and passes without it. Results go to seeded/<name>/meta.json and
seeded/<name>/caught.json (which checks alarm, with a concrete failing input or as a broken obligation only);
tools/seeded_table.py makes the table of DESIGN.md §14 from them. The laboratory is removed at the end."""
import sys, os, subprocess, json, shutil, re
ROOT = os.path.dirname(os.path.dirname(os.path.abspath(__file__)))
ENV = dict(os.environ, GOFLAGS='-mod=mod', GOPROXY='off', GOSUMDB='off', GOTOOLCHAIN='local')


def sh(cmd, **kw):
    try:
        return subprocess.run(cmd, capture_output=True, text=True, env=ENV, **kw)
    except subprocess.TimeoutExpired as e:
        return subprocess.CompletedProcess(cmd, 124, e.stdout or '', e.stderr or '')


def main():
    lab_id, jobs = sys.argv[1], sys.argv[2:]
    LAB, CLONE = '/tmp/verif-mut-' + lab_id, '/tmp/repo-mut-' + lab_id
    shutil.rmtree(LAB, ignore_errors=True); shutil.rmtree(CLONE, ignore_errors=True)
    sh(['git', 'clone', '-q', '/repo', CLONE])
    sh(['rsync', '-a', '--exclude', '.git', '--exclude', 'replays', '--exclude', 'seeded', ROOT + '/', LAB + '/'])
    for f in ('check', 'lib/judges.py', 'harness/go.mod'):
        p = os.path.join(LAB, f)
        text = open(p).read().replace('/repo', CLONE)
        open(p, 'w').write(text)
    ids = [c['property_id'] for c in json.load(open(os.path.join(ROOT, 'MANIFEST.json')))['checks']]

    def reset():
        sh(['git', '-C', CLONE, 'reset', '-q', '--hard', 'HEAD'])
        sh(['git', '-C', CLONE, 'clean', '-fdq'])

    def apply(patch):
        """a patch written against an earlier commit of /repo is merged three-way"""
        r = sh(['git', '-C', CLONE, 'apply', patch])
        if r.returncode != 0:
            reset()
            r = sh(['git', '-C', CLONE, 'apply', '--3way', patch])
        return r

    for job in jobs:
        if job.startswith('NEW:'):
            parts = job.split(':')
            pid, k = parts[1], parts[2]
            tag = parts[3] if len(parts) > 3 else 'sm'
            src = '/tmp/mutout-%s/m%s' % (pid, k)
            name = '%s-%s%s' % (pid, tag, k)
            d = os.path.join(ROOT, 'seeded', name)
            if not os.path.exists(os.path.join(src, 'patch.diff')):
                print(name, 'no patch', flush=True); continue
            conf = {}
            conf['patch_applies'] = apply(os.path.join(src, 'patch.diff')).returncode == 0
            conf['compiles'] = sh(['go', 'build', './...'], cwd=CLONE).returncode == 0
            conf['existing_tests_pass_with_change'] = sh(['go', 'test', '-vet=off', '-count=1', './...'], cwd=CLONE, timeout=1500).returncode == 0
            shutil.copyfile(os.path.join(src, 'demo_test.go'), os.path.join(CLONE, 'zz_seed_demo_test.go'))
            demo = ['go', 'test', '-vet=off', '-count=1', '-run', 'ZZSeed', '.']
            conf['demo_fails_with_change'] = sh(demo, cwd=CLONE, timeout=900).returncode != 0
            if not conf['demo_fails_with_change']:
                # a data race shows under the race detector only
                demo.insert(2, '-race')
                conf['demo_fails_with_change'] = sh(demo, cwd=CLONE, timeout=1500).returncode != 0
                conf['demo_needs_race_detector'] = True
            sh(['git', '-C', CLONE, 'reset', '-q', '--hard', 'HEAD'])
            conf['demo_passes_on_clean_tree'] = sh(demo, cwd=CLONE, timeout=1500).returncode == 0
            reset()
            if not all(v for k, v in conf.items() if k != 'demo_needs_race_detector'):
                print(name, 'NOT CONFIRMED', conf, flush=True); continue
            os.makedirs(d, exist_ok=True)
            shutil.copyfile(os.path.join(src, 'patch.diff'), os.path.join(d, 'patch.diff'))
            shutil.copyfile(os.path.join(src, 'demo_test.go'), os.path.join(d, 'demo_test.go.txt'))
            notes = open(os.path.join(src, 'notes.md')).read() if os.path.exists(os.path.join(src, 'notes.md')) else ''
            json.dump(dict(seed=name, breaks=pid, confirmed=conf, needs_to_manifest=notes[:3000]), open(os.path.join(d, 'meta.json'), 'w'), indent=1)
        elif job.startswith('REF:'):
            # a behaviour-preserving refactoring written by a sub-agent: /tmp/refout-<area>/m<k>/{patch.diff,notes.md}
            _, area, k = job.split(':')
            src = '/tmp/refout-%s/m%s' % (area, k)
            name = 'harmless-%s%s' % (area, k)
            d = os.path.join(ROOT, 'seeded', name)
            if not os.path.exists(os.path.join(src, 'patch.diff')):
                print(name, 'no patch', flush=True); continue
            conf = {}
            conf['patch_applies'] = apply(os.path.join(src, 'patch.diff')).returncode == 0
            conf['compiles'] = sh(['go', 'build', './...'], cwd=CLONE).returncode == 0
            conf['existing_tests_pass_with_change'] = sh(['go', 'test', '-vet=off', '-count=1', './...'], cwd=CLONE, timeout=1500).returncode == 0
            reset()
            if not all(v for k, v in conf.items() if k != 'demo_needs_race_detector'):
                print(name, 'NOT CONFIRMED', conf, flush=True); continue
            os.makedirs(d, exist_ok=True)
            shutil.copyfile(os.path.join(src, 'patch.diff'), os.path.join(d, 'patch.diff'))
            notes = open(os.path.join(src, 'notes.md')).read() if os.path.exists(os.path.join(src, 'notes.md')) else ''
            json.dump(dict(seed=name, breaks='none', confirmed=conf, needs_to_manifest=notes[:3000]), open(os.path.join(d, 'meta.json'), 'w'), indent=1)
        else:
            name = job
        patch = os.path.join(ROOT, 'seeded', name, 'patch.diff')
        if not os.path.exists(patch):
            continue
        r = apply(patch)
        if r.returncode != 0:
            print(name, 'patch does not apply:', r.stderr[:200], flush=True); continue
        res = {}
        for pid in ids:
            p = sh([os.path.join(LAB, 'check'), pid, '--tier', 'quick'], cwd=LAB, timeout=3600)
            v = [l for l in p.stdout.split('\n') if l.startswith('VIOLATION')]
            if p.returncode == 0 and not v:
                continue
            res[pid] = dict(exit=p.returncode,
                            concrete=sum(1 for l in v if 'no-failing-input-found' not in l),
                            obligation_only=sum(1 for l in v if 'no-failing-input-found' in l),
                            first=(re.findall(r'^  (.*)$', p.stdout + p.stderr, re.M) or [''])[0][:300])
        reset()
        json.dump(dict(seed=name, checks_run=ids, alarms=res), open(os.path.join(ROOT, 'seeded', name, 'caught.json'), 'w'), indent=1)
        print(name, {k: ('concrete' if v['concrete'] else 'obligation') for k, v in res.items()}, flush=True)
    shutil.rmtree(LAB, ignore_errors=True); shutil.rmtree(CLONE, ignore_errors=True)


if __name__ == '__main__':
    main()
