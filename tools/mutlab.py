#!/usr/bin/env python3
"""mutlab.py [seed names...] — re-runs every quick check against every confirmed seeded change, in a laboratory copy.

Nothing here touches /repo or /verif: /repo is cloned to /tmp/repo-mut, /verif is copied to /tmp/verif-mut with its
references to /repo redirected to the clone, each seeded patch is applied to the clone, all quick checks run in the
copy, and the clone is reset. Results: seeded/<name>/caught.json in /verif (which checks alarm, and whether with a
concrete failing input or as a broken obligation only) — the table of DESIGN.md §14 is made from these files
(tools/seeded_table.py). The laboratory is removed at the end."""
import sys, os, subprocess, json, shutil, re
ROOT = os.path.dirname(os.path.dirname(os.path.abspath(__file__)))
LAB, CLONE = '/tmp/verif-mut', '/tmp/repo-mut'


def sh(cmd, **kw):
    return subprocess.run(cmd, capture_output=True, text=True, **kw)


def main():
    names = sys.argv[1:] or sorted(os.listdir(os.path.join(ROOT, 'seeded')))
    shutil.rmtree(LAB, ignore_errors=True); shutil.rmtree(CLONE, ignore_errors=True)
    sh(['git', 'clone', '-q', '/repo', CLONE])
    sh(['rsync', '-a', '--exclude', '.git', '--exclude', 'replays', ROOT + '/', LAB + '/'])
    for f in ('check', 'lib/judges.py', 'harness/go.mod'):
        p = os.path.join(LAB, f)
        s = open(p).read().replace('/repo', CLONE)
        open(p, 'w').write(s)
    ids = [c['property_id'] for c in json.load(open(os.path.join(ROOT, 'MANIFEST.json')))['checks']]
    for name in names:
        patch = os.path.join(ROOT, 'seeded', name, 'patch.diff')
        if not os.path.exists(patch):
            continue
        r = sh(['git', '-C', CLONE, 'apply', patch])
        if r.returncode != 0:
            print(name, 'patch does not apply:', r.stderr[:200]); continue
        res = {}
        for pid in ids:
            p = sh([os.path.join(LAB, 'check'), pid, '--tier', 'quick'], cwd=LAB)
            v = [l for l in p.stdout.split('\n') if l.startswith('VIOLATION')]
            if p.returncode == 0 and not v:
                continue
            res[pid] = dict(exit=p.returncode,
                            concrete=sum(1 for l in v if 'no-failing-input-found' not in l),
                            obligation_only=sum(1 for l in v if 'no-failing-input-found' in l),
                            first=(re.findall(r'^  (.*)$', p.stdout + p.stderr, re.M) or [''])[0][:300])
        sh(['git', '-C', CLONE, 'checkout', '--', '.']); sh(['git', '-C', CLONE, 'clean', '-fdq'])
        json.dump(dict(seed=name, checks_run=ids, alarms=res), open(os.path.join(ROOT, 'seeded', name, 'caught.json'), 'w'), indent=1)
        print(name, {k: ('concrete' if v['concrete'] else 'obligation') for k, v in res.items()}, flush=True)
    shutil.rmtree(LAB, ignore_errors=True); shutil.rmtree(CLONE, ignore_errors=True)


if __name__ == '__main__':
    main()
