#!/bin/bash
# trymut.sh <patch> <check ids...>: apply a patch to /repo, run the quick checks, revert
patch=$1; shift
git -C /repo status --short | grep -q . && { echo "repo not clean"; exit 2; }
git -C /repo apply "$patch" || exit 2
for c in "$@"; do
  out=$(/verif/check $c --tier quick 2>&1); rc=$?
  echo "$c exit=$rc $(echo "$out" | grep -m1 '^VIOLATION')"
  echo "$out" | grep -m2 '^  ' | cut -c1-260
done
git -C /repo checkout -- . ; git -C /repo clean -fdq ; git -C /repo status --short
