module mqverif

go 1.21

require github.com/gregoryv/mq v0.0.0

replace github.com/gregoryv/mq => /repo
