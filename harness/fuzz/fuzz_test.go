// Package fuzz — coverage-guided search (Go's native fuzzing) for inputs on which the decoding side of the library
// does not return normally with exactly one of packet and error, or consumes something else than one frame. It
// supports the checks of C04/C05/C06 in the thorough tier: an input it finds is turned into operation lines and
// judged like any generated case (lib/judges.py, extra_fuzz); nothing is reported on this file's say-so alone.
// It proves nothing.
package fuzz

import (
	"bytes"
	"io"
	"testing"
	"time"

	"github.com/gregoryv/mq"
)

func seeds() [][]byte {
	var out [][]byte
	add := func(p mq.ControlPacket) {
		var b bytes.Buffer
		if _, err := p.WriteTo(&b); err == nil {
			out = append(out, b.Bytes())
		}
	}
	c := mq.NewConnect()
	c.SetClientID("cid")
	c.SetUsername("u")
	c.SetPassword([]byte("p"))
	c.SetWill(mq.Pub(1, "will/topic", "gone"))
	c.SetAuthMethod("m")
	c.AddUserProp("k", "v")
	add(c)
	ca := mq.NewConnAck()
	ca.SetReasonString("rs")
	ca.SetAssignedClientID("a")
	ca.SetSessionPresent(true)
	ca.AddUserProp("k", "v")
	add(ca)
	pb := mq.Pub(2, "a/b", "payload")
	pb.SetPacketID(7)
	pb.SetCorrelationData([]byte("corr"))
	pb.SetResponseTopic("r")
	pb.AddSubscriptionID(5)
	pb.AddUserProp("k", "v")
	add(pb)
	for _, a := range []interface {
		mq.ControlPacket
		SetPacketID(uint16)
		SetReasonString(string)
		AddUserProp(...string)
	}{mq.NewPubAck(), mq.NewPubRec(), mq.NewPubRel(), mq.NewPubComp()} {
		a.SetPacketID(9)
		a.SetReasonString("why")
		a.AddUserProp("k", "v")
		add(a)
	}
	s := mq.NewSubscribe()
	s.SetPacketID(3)
	s.SetSubscriptionID(11)
	s.AddFilters(mq.NewTopicFilter("a/#", mq.OptQoS1), mq.NewTopicFilter("b", mq.OptQoS2))
	s.AddUserProp("k", "v")
	add(s)
	sa := mq.NewSubAck()
	sa.SetPacketID(3)
	sa.SetReasonString("ok")
	sa.AddReasonCode(mq.GrantedQoS1)
	sa.AddUserProp("k", "v")
	add(sa)
	us := mq.NewUnsubscribe()
	us.SetPacketID(4)
	us.AddFilter("a/#")
	us.AddUserProp("k", "v")
	add(us)
	ua := mq.NewUnsubAck()
	ua.SetPacketID(4)
	ua.SetReasonString("ok")
	ua.AddReasonCode(mq.Success)
	add(ua)
	add(mq.NewPingReq())
	add(mq.NewPingResp())
	d := mq.NewDisconnect()
	d.SetReasonCode(mq.NotAuthorized)
	d.SetReasonString("bye")
	d.SetServerReference("other")
	d.AddUserProp("k", "v")
	add(d)
	au := mq.NewAuth()
	au.SetAuthMethod("m")
	au.SetAuthData([]byte("d"))
	au.SetReasonString("r")
	add(au)
	// a string property given twice, the second time empty (D13)
	out = append(out, []byte{0x90, 0x0c, 0x00, 0x01, 0x09, 0x1f, 0x00, 0x03, 'a', 'b', 'c', 0x1f, 0x00, 0x00})
	return out
}

type counting struct {
	r io.Reader
	n int
}

func (c *counting) Read(p []byte) (int, error) {
	n, err := c.r.Read(p)
	c.n += n
	return n, err
}

// within runs f and fails the test if it panics or does not return in time
func within(t *testing.T, what string, f func()) {
	done := make(chan interface{}, 1)
	go func() {
		defer func() { done <- recover() }()
		f()
	}()
	select {
	case r := <-done:
		if r != nil {
			t.Fatalf("%s panics: %v", what, r)
		}
	case <-time.After(60 * time.Second):
		t.Fatalf("%s does not return", what)
	}
}

// frameLen is 1 + size of the remaining-length field + remaining length, if the fixed header is complete and legal
func frameLen(data []byte) (int, bool) {
	if len(data) < 2 {
		return 0, false
	}
	v, m := 0, 1
	for i := 1; i < len(data) && i <= 4; i++ {
		v += int(data[i]&127) * m
		if data[i]&128 == 0 {
			return 1 + i + v, true
		}
		m *= 128
	}
	return 0, false
}

func FuzzReadPacket(f *testing.F) {
	for _, s := range seeds() {
		f.Add(s)
	}
	f.Fuzz(func(t *testing.T, data []byte) {
		within(t, "ReadPacket", func() {
			c := &counting{r: bytes.NewReader(data)}
			p, err := mq.ReadPacket(c)
			if (p == nil) == (err == nil) {
				t.Fatalf("ReadPacket returned packet=%v error=%v", p != nil, err)
			}
			if n, ok := frameLen(data); ok && n <= len(data) && c.n != n {
				t.Fatalf("ReadPacket consumed %d bytes of a %d byte frame", c.n, n)
			}
			if p != nil {
				_ = p.String()
				mq.Dump(io.Discard, p)
				var b bytes.Buffer
				p.WriteTo(&b)
			}
		})
	})
}

// Kinds are the type names of the line protocol (`NEW p <Kind>`), so that an input found here replays there.
var Kinds = []string{"Connect", "ConnAck", "Publish", "PubAck", "PubRec", "PubRel", "PubComp", "Subscribe", "SubAck",
	"Unsubscribe", "UnsubAck", "PingReq", "PingResp", "Disconnect", "Auth"}

func fresh(kind uint8) mq.ControlPacket {
	switch Kinds[int(kind)%len(Kinds)] {
	case "Connect":
		return mq.NewConnect()
	case "ConnAck":
		return mq.NewConnAck()
	case "Publish":
		return mq.NewPublish()
	case "PubAck":
		return mq.NewPubAck()
	case "PubRec":
		return mq.NewPubRec()
	case "PubRel":
		return mq.NewPubRel()
	case "PubComp":
		return mq.NewPubComp()
	case "Subscribe":
		return mq.NewSubscribe()
	case "SubAck":
		return mq.NewSubAck()
	case "Unsubscribe":
		return mq.NewUnsubscribe()
	case "UnsubAck":
		return mq.NewUnsubAck()
	case "PingReq":
		return mq.NewPingReq()
	case "PingResp":
		return mq.NewPingResp()
	case "Disconnect":
		return mq.NewDisconnect()
	}
	return mq.NewAuth()
}

// body of a seed frame (what UnmarshalBinary is given)
func bodyOf(s []byte) ([]byte, bool) {
	n, ok := frameLen(s)
	if !ok || n != len(s) {
		return nil, false
	}
	hdr := 2
	for hdr < len(s) && s[hdr-1]&128 != 0 {
		hdr++
	}
	return s[hdr:], true
}

type unmarshaler interface {
	UnmarshalBinary([]byte) error
}

// FuzzUnmarshal decodes `first` and then `body` into the same packet: the second decode runs on a target that
// already holds values (lists, strings, a will), which is where a decoder that trusts its own previous state fails.
func FuzzUnmarshal(f *testing.F) {
	for _, s := range seeds() {
		if b, ok := bodyOf(s); ok {
			k := s[0]>>4 - 1 // Kinds is in the order of the MQTT type numbers 1..15
			f.Add(k, []byte{}, b)
			f.Add(k, b, b)
		}
	}
	f.Fuzz(func(t *testing.T, kind uint8, first, body []byte) {
		p := fresh(kind)
		within(t, "UnmarshalBinary", func() {
			u := p.(unmarshaler)
			if len(first) > 0 {
				_ = u.UnmarshalBinary(first)
			}
			_ = u.UnmarshalBinary(body)
			_ = p.String()
			mq.Dump(io.Discard, p)
		})
	})
}
