package main

// race.go — `mqharness race <goroutines> <iterations>`: reads an op file on stdin; for every case
// builds the packets by executing its NEW/SET lines, then lets several goroutines perform random
// read-only operations on the *shared* packets (WriteTo, String, Dump, WellFormed, every accessor;
// a will message is used both through its CONNECT and directly) and ReadPacket on streams of their
// own, comparing every concurrent WriteTo with the sequential bytes. Built with `-race`, a data
// race makes the process exit with status 66 after printing the detector's report.

import (
	"bufio"
	"bytes"
	"fmt"
	"io"
	"math/rand"
	"os"
	"runtime"
	"strconv"
	"strings"
	"sync"
	"sync/atomic"

	"github.com/gregoryv/mq"
)

type wellFormer interface{ WellFormed() *mq.Malformed }

func runRace(args []string) {
	gor, iters := 8, 40
	if len(args) > 0 {
		gor, _ = strconv.Atoi(args[0])
	}
	if len(args) > 1 {
		iters, _ = strconv.Atoi(args[1])
	}
	if v := os.Getenv("VERIF_GOMAXPROCS"); v != "" {
		if n, err := strconv.Atoi(v); err == nil {
			runtime.GOMAXPROCS(n)
		}
	}
	sc := bufio.NewScanner(os.Stdin)
	sc.Buffer(make([]byte, 1<<20), 1<<30)
	e := newExecutor()
	var cases, ops, mismatches int64
	var firstBad string
	var caseLines []string
	flush := func() {
		if len(e.slots) == 0 {
			return
		}
		var shared []mq.ControlPacket
		for _, name := range sortedSlotNames(e.slots) {
			s := e.slots[name]
			if s.tainted || s.p == nil {
				continue
			}
			shared = append(shared, s.p)
		}
		if len(shared) == 0 {
			return
		}
		cases++
		// sequential reference
		want := make([][]byte, len(shared))
		views := make([]string, len(shared))
		for i, p := range shared {
			var buf bytes.Buffer
			func() {
				defer func() { recover() }()
				p.WriteTo(&buf)
			}()
			want[i] = append([]byte(nil), buf.Bytes()...)
			views[i] = safeView(p)
		}
		var wg sync.WaitGroup
		for g := 0; g < gor; g++ {
			wg.Add(1)
			go func(seed int64) {
				defer wg.Done()
				r := rand.New(rand.NewSource(seed))
				for k := 0; k < iters; k++ {
					i := r.Intn(len(shared))
					p := shared[i]
					atomic.AddInt64(&ops, 1)
					func() {
						defer func() { recover() }()
						switch r.Intn(6) {
						case 0, 1:
							var buf bytes.Buffer
							p.WriteTo(&buf)
							if !bytes.Equal(buf.Bytes(), want[i]) {
								if atomic.AddInt64(&mismatches, 1) == 1 {
									firstBad = fmt.Sprintf("concurrent WriteTo of %s differs from the sequential bytes", kindOf(p))
								}
							}
						case 2:
							_ = p.String()
						case 3:
							mq.Dump(io.Discard, p)
						case 4:
							if w, ok := p.(wellFormer); ok {
								_ = w.WellFormed()
							}
							if v := safeView(p); v != views[i] {
								if atomic.AddInt64(&mismatches, 1) == 1 {
									firstBad = fmt.Sprintf("accessors of %s changed during concurrent read-only use", kindOf(p))
								}
							}
						case 5:
							if len(want[i]) > 0 {
								q, err := mq.ReadPacket(bytes.NewReader(want[i]))
								if err == nil && q != nil {
									_ = q.String()
								}
							}
						}
					}()
				}
			}(int64(cases)*1000 + int64(g))
		}
		wg.Wait()
		// second phase — first use: the packets are built afresh and the goroutines start on them together, with no
		// read-only operation having completed before (a write that only the first WriteTo/String performs, a lazily
		// filled cache, is over by the time the sequential reference above has run)
		for round := 0; round < 3; round++ {
			e2 := newExecutor()
			for _, l := range caseLines {
				if t := strings.Fields(l); len(t) > 0 && (t[0] == "NEW" || t[0] == "ZERO" || t[0] == "SET") {
					e2.exec(l)
				}
			}
			var fresh []mq.ControlPacket
			for _, name := range sortedSlotNames(e2.slots) {
				if s := e2.slots[name]; !s.tainted && s.p != nil {
					fresh = append(fresh, s.p)
				}
			}
			if len(fresh) != len(shared) {
				break
			}
			start := make(chan struct{})
			var wg2 sync.WaitGroup
			for g := 0; g < gor; g++ {
				wg2.Add(1)
				go func(g int) {
					defer wg2.Done()
					<-start
					for i, p := range fresh {
						atomic.AddInt64(&ops, 1)
						func() {
							defer func() { recover() }()
							if (g+i)%3 == 2 {
								_ = p.String()
								return
							}
							var buf bytes.Buffer
							p.WriteTo(&buf)
							if !bytes.Equal(buf.Bytes(), want[i]) {
								if atomic.AddInt64(&mismatches, 1) == 1 {
									firstBad = fmt.Sprintf("first concurrent WriteTo of %s differs from the sequential bytes", kindOf(p))
								}
							}
						}()
					}
				}(g)
			}
			close(start)
			wg2.Wait()
		}
	}
	for sc.Scan() {
		line := sc.Text()
		toks := strings.Fields(line)
		if len(toks) == 0 {
			continue
		}
		if toks[0] == "RESET" {
			flush()
			caseLines = caseLines[:0]
			e.exec(line)
			continue
		}
		caseLines = append(caseLines, line)
		switch toks[0] {
		case "NEW", "ZERO", "SET":
			e.exec(line)
		}
	}
	flush()
	fmt.Printf("race cases=%d ops=%d mismatches=%d goroutines=%d gomaxprocs=%d\n", cases, ops, mismatches, gor, runtime.GOMAXPROCS(0))
	if mismatches > 0 {
		fmt.Println("race bad " + firstBad)
		os.Exit(3)
	}
}

func safeView(p mq.ControlPacket) (s string) {
	defer func() {
		if r := recover(); r != nil {
			s = "panic"
		}
	}()
	return viewOf(p)
}

func sortedSlotNames(m map[string]*slotT) []string {
	var ks []string
	for k := range m {
		ks = append(ks, k)
	}
	for i := 1; i < len(ks); i++ {
		for j := i; j > 0 && ks[j] < ks[j-1]; j-- {
			ks[j], ks[j-1] = ks[j-1], ks[j]
		}
	}
	return ks
}
