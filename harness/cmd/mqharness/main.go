// mqharness — executes the verification line protocol against the real gregoryv/mq, and
// generates the op files. See /verif/DESIGN.md §9.
package main

import (
	"bufio"
	"fmt"
	"io"
	"os"
	"os/exec"
	"strconv"
	"strings"
	"syscall"
	"time"
)

var eofErr = io.EOF

func main() {
	if len(os.Args) < 2 {
		fmt.Fprintln(os.Stderr, "usage: mqharness worker | exec | gen <class> <seed> <n> | sweep ...")
		os.Exit(2)
	}
	switch os.Args[1] {
	case "worker":
		// address-space cap so that an unbounded allocation kills the worker, not the sandbox
		lim := uint64(6 << 30)
		_ = syscall.Setrlimit(syscall.RLIMIT_AS, &syscall.Rlimit{Cur: lim, Max: lim})
		runWorker(os.Stdin, os.Stdout)
	case "exec":
		runParent(os.Stdin, os.Stdout)
	case "gen":
		if len(os.Args) != 5 {
			fmt.Fprintln(os.Stderr, "usage: mqharness gen <class> <seed> <n>")
			os.Exit(2)
		}
		seed, _ := strconv.ParseInt(os.Args[3], 10, 64)
		n, _ := strconv.Atoi(os.Args[4])
		w := bufio.NewWriterSize(os.Stdout, 1<<20)
		runGen(os.Args[2], seed, n, w)
		w.Flush()
	case "sweep":
		runSweep(os.Args[2:])
	case "race":
		runRace(os.Args[2:])
	case "fuzzops":
		runFuzzOps(os.Args[2:])
	default:
		fmt.Fprintln(os.Stderr, "unknown subcommand", os.Args[1])
		os.Exit(2)
	}
}

type worker struct {
	cmd *exec.Cmd
	in  io.WriteCloser
	out *bufio.Reader
	res chan string
}

func startWorker() *worker {
	cmd := exec.Command(os.Args[0], "worker")
	cmd.Stderr = os.Stderr
	// a worker stuck in an operation that never returns must not outlive a parent that was killed
	cmd.SysProcAttr = &syscall.SysProcAttr{Pdeathsig: syscall.SIGKILL}
	in, _ := cmd.StdinPipe()
	outp, _ := cmd.StdoutPipe()
	if err := cmd.Start(); err != nil {
		fmt.Fprintln(os.Stderr, "cannot start worker:", err)
		os.Exit(3)
	}
	w := &worker{cmd: cmd, in: in, out: bufio.NewReaderSize(outp, 1<<20), res: make(chan string, 1)}
	return w
}

// send one line, wait for one line; ok=false on timeout or worker death
func (w *worker) do(line string, timeout time.Duration) (string, bool) {
	if _, err := io.WriteString(w.in, line+"\n"); err != nil {
		return "", false
	}
	done := make(chan struct{})
	var res string
	var err error
	go func() {
		res, err = w.out.ReadString('\n')
		close(done)
	}()
	select {
	case <-done:
		if err != nil {
			return "", false
		}
		return strings.TrimRight(res, "\n"), true
	case <-time.After(timeout):
		return "", false
	}
}

func (w *worker) kill() {
	w.cmd.Process.Kill()
	w.cmd.Wait()
}

// runParent feeds the op lines to a worker under a per-op watchdog. An op that does not
// return (or kills the worker by exhausting memory) is reported as `<tag> hang`; the worker
// is restarted and the ops since the last RESET are replayed without it.
func runParent(in io.Reader, out io.Writer) {
	timeout := 10 * time.Second
	if v := os.Getenv("VERIF_OP_TIMEOUT_MS"); v != "" {
		if ms, err := strconv.Atoi(v); err == nil {
			timeout = time.Duration(ms) * time.Millisecond
		}
	}
	sc := bufio.NewScanner(in)
	sc.Buffer(make([]byte, 1<<20), 1<<30)
	bw := bufio.NewWriterSize(out, 1<<20)
	defer bw.Flush()
	w := startWorker()
	defer func() { w.in.Close(); w.kill() }()
	var history []string
	hangs := 0
	for sc.Scan() {
		line := sc.Text()
		if hangs >= 3 {
			// three operations of this run did not return: report the rest as skipped instead of
			// spending the watchdog on each of them (the caller cuts the run at the first `skip`)
			bw.WriteString("skip\n")
			continue
		}
		if strings.HasPrefix(line, "RESET") {
			history = history[:0]
		}
		res, ok := w.do(line, timeout)
		if !ok {
			w.kill()
			toks := strings.Fields(line)
			tag := "op"
			if len(toks) > 0 {
				tag = strings.ToLower(toks[0])
			}
			res = tag + " hang"
			hangs++
			w = startWorker()
			for _, h := range history {
				if _, ok := w.do(h, timeout); !ok {
					// replaying history failed too: give up on state, start clean
					w.kill()
					w = startWorker()
					break
				}
			}
		} else {
			history = append(history, line)
		}
		bw.WriteString(res)
		bw.WriteByte('\n')
	}
}
