package main

// specgen.go — an encoder written from the MQTT v5.0 specification (DESIGN.md Appendix A),
// sharing no code or constants with the library. It produces valid frames with every legal
// choice (property order, explicit zero values, short forms), the values a specification-
// faithful reading gives (in the canonical VIEW format), and a field map for the C09 mutations.

import (
	"fmt"
	"strings"
)

type sframe struct {
	kind  string
	first byte
	body  []byte
	// view: name -> formatted value; printed in the order of viewOrder[kind] with defaults
	view map[string]string
	// offsets into body (C09)
	bounds   map[int]bool // positions between atomic fields (a cut here is not "inside a field")
	payload  int          // start of the PUBLISH payload in body, -1 if none
	vbPos    [][2]int     // (offset, length) of variable byte integers in the body
	boolPos  []int        // offsets of boolean property values
	propIDs  []int        // offsets of property identifiers
	interior []int        // cut positions strictly inside a field that are always tried (C09a)
}

func (f *sframe) mark() { f.bounds[len(f.body)] = true }
func (f *sframe) u8(v byte) { f.body = append(f.body, v); f.mark() }
func (f *sframe) u16(v uint64) {
	f.interior = append(f.interior, len(f.body)+1)
	f.body = append(f.body, byte(v>>8), byte(v))
	f.mark()
}
func (f *sframe) u32(v uint64) {
	f.interior = append(f.interior, len(f.body)+1, len(f.body)+3)
	f.body = append(f.body, byte(v>>24), byte(v>>16), byte(v>>8), byte(v))
	f.mark()
}
func (f *sframe) str(v []byte) {
	f.interior = append(f.interior, len(f.body)+1)
	if len(v) > 0 {
		f.interior = append(f.interior, len(f.body)+2, len(f.body)+2+len(v)-1)
	}
	f.body = append(f.body, byte(len(v)>>8), byte(len(v)))
	f.body = append(f.body, v...)
	f.mark()
}
func vbEncode(n uint64) []byte {
	var out []byte
	for {
		b := byte(n % 128)
		n /= 128
		if n > 0 {
			out = append(out, b|0x80)
		} else {
			out = append(out, b)
			return out
		}
	}
}
func (f *sframe) vb(n uint64) {
	e := vbEncode(n)
	f.vbPos = append(f.vbPos, [2]int{len(f.body), len(e)})
	for k := 1; k < len(e); k++ {
		f.interior = append(f.interior, len(f.body)+k)
	}
	f.body = append(f.body, e...)
	f.mark()
}

func (f *sframe) frame() []byte {
	out := []byte{f.first}
	out = append(out, vbEncode(uint64(len(f.body)))...)
	return append(out, f.body...)
}

func reframe(first byte, body []byte) []byte {
	out := []byte{first}
	out = append(out, vbEncode(uint64(len(body)))...)
	return append(out, body...)
}

// ---- view formatting

type vfield struct {
	name string
	typ  byte // n number, b bool, s bytes, u user properties, l list ([]), i int
}

var publishView = []vfield{{"ContentType", 's'}, {"CorrelationData", 's'}, {"Duplicate", 'b'},
	{"MessageExpiryInterval", 'n'}, {"PacketID", 'n'}, {"Payload", 's'}, {"PayloadFormat", 'b'}, {"QoS", 'n'},
	{"ResponseTopic", 's'}, {"Retain", 'b'}, {"SubscriptionIDs", 'l'}, {"TopicAlias", 'n'}, {"TopicName", 's'},
	{"UserProperties", 'u'}}
var ackView = []vfield{{"PacketID", 'n'}, {"ReasonCode", 'n'}, {"ReasonString", 's'}, {"UserProperties", 'u'}}
var subAckView = []vfield{{"PacketID", 'n'}, {"ReasonCodes", 's'}, {"ReasonString", 's'}, {"UserProperties", 'u'}}

var viewOrder = map[string][]vfield{
	"Connect": {{"AuthData", 's'}, {"AuthMethod", 's'}, {"CleanStart", 'b'}, {"ClientID", 's'}, {"Flags", 'n'},
		{"KeepAlive", 'n'}, {"MaxPacketSize", 'n'}, {"Password", 's'}, {"ProtocolName", 's'}, {"ProtocolVersion", 'n'},
		{"ReceiveMax", 'n'}, {"RequestProblemInfo", 'b'}, {"RequestResponseInfo", 'b'}, {"SessionExpiryInterval", 'n'},
		{"TopicAliasMax", 'n'}, {"UserProperties", 'u'}, {"Username", 's'}, {"Will", 'b'}, {"WillDelayInterval", 'n'}},
	"ConnAck": {{"AssignedClientID", 's'}, {"AuthData", 's'}, {"AuthMethod", 's'}, {"Flags", 'n'}, {"MaxPacketSize", 'n'},
		{"MaxQoS", 'n'}, {"ReasonCode", 'n'}, {"ReasonString", 's'}, {"ReceiveMax", 'n'}, {"ResponseInformation", 's'},
		{"RetainAvailable", 'b'}, {"ServerKeepAlive", 'n'}, {"ServerReference", 's'}, {"SessionExpiryInterval", 'n'},
		{"SessionPresent", 'b'}, {"SharedSubAvailable", 'b'}, {"SubIdentifiersAvailable", 'b'}, {"TopicAliasMax", 'n'},
		{"UserProperties", 'u'}, {"WildcardSubAvailable", 'b'}},
	"Publish": publishView,
	"PubAck":  ackView, "PubRec": ackView, "PubRel": ackView, "PubComp": ackView,
	"Subscribe":   {{"Filters", 'l'}, {"PacketID", 'n'}, {"SubscriptionID", 'i'}, {"UserProperties", 'u'}},
	"SubAck":      subAckView,
	"UnsubAck":    subAckView,
	"Unsubscribe": {{"Filters", 'l'}, {"PacketID", 'n'}, {"UserProperties", 'u'}},
	"PingReq":     {}, "PingResp": {},
	"Disconnect": {{"ReasonCode", 'n'}, {"ReasonString", 's'}, {"ServerReference", 's'},
		{"SessionExpiryInterval", 'n'}, {"UserProperties", 'u'}},
	"Auth": {{"AuthData", 's'}, {"AuthMethod", 's'}, {"ReasonCode", 'n'}, {"ReasonString", 's'}, {"UserProperties", 'u'}},
	"Undefined": {{"Data", 's'}},
}

func defaultOf(t byte) string {
	switch t {
	case 'n':
		return "0"
	case 'b':
		return "false"
	case 's':
		return "x"
	case 'i':
		return "-1"
	}
	return "[]"
}

func renderView(kind string, vals map[string]string) string {
	var parts []string
	add := func(pre string, fs []vfield) {
		for _, f := range fs {
			v, ok := vals[pre+f.name]
			if !ok {
				v = defaultOf(f.typ)
			}
			parts = append(parts, pre+f.name+"="+v)
		}
	}
	add("", viewOrder[kind])
	if kind == "Connect" && vals["Will"] == "true" {
		add("Will.", publishView)
	}
	return strings.Join(parts, ";")
}

func (f *sframe) expect() string { return f.kind + " " + renderView(f.kind, f.view) }

// ---- properties

type pdef struct {
	id   byte
	name string // view field
	typ  byte   // B byte, b boolean byte, 2, 4, s string/binary, v variable byte integer
}

var propsOf = map[string][]pdef{
	"Connect": {{0x11, "SessionExpiryInterval", '4'}, {0x15, "AuthMethod", 's'}, {0x16, "AuthData", 's'},
		{0x17, "RequestProblemInfo", 'b'}, {0x19, "RequestResponseInfo", 'b'}, {0x21, "ReceiveMax", '2'},
		{0x22, "TopicAliasMax", '2'}, {0x27, "MaxPacketSize", '4'}},
	"Will": {{0x18, "WillDelayInterval", '4'}, {0x01, "Will.PayloadFormat", 'b'}, {0x02, "Will.MessageExpiryInterval", '4'},
		{0x03, "Will.ContentType", 's'}, {0x08, "Will.ResponseTopic", 's'}, {0x09, "Will.CorrelationData", 's'}},
	"ConnAck": {{0x11, "SessionExpiryInterval", '4'}, {0x12, "AssignedClientID", 's'}, {0x13, "ServerKeepAlive", '2'},
		{0x15, "AuthMethod", 's'}, {0x16, "AuthData", 's'}, {0x1a, "ResponseInformation", 's'},
		{0x1c, "ServerReference", 's'}, {0x1f, "ReasonString", 's'}, {0x21, "ReceiveMax", '2'},
		{0x22, "TopicAliasMax", '2'}, {0x24, "MaxQoS", 'B'}, {0x25, "RetainAvailable", 'b'},
		{0x27, "MaxPacketSize", '4'}, {0x28, "WildcardSubAvailable", 'b'}, {0x29, "SubIdentifiersAvailable", 'b'},
		{0x2a, "SharedSubAvailable", 'b'}},
	"Publish": {{0x01, "PayloadFormat", 'b'}, {0x02, "MessageExpiryInterval", '4'}, {0x03, "ContentType", 's'},
		{0x08, "ResponseTopic", 's'}, {0x09, "CorrelationData", 's'}, {0x23, "TopicAlias", '2'}},
	"PubAck": {{0x1f, "ReasonString", 's'}}, "PubRec": {{0x1f, "ReasonString", 's'}},
	"PubRel": {{0x1f, "ReasonString", 's'}}, "PubComp": {{0x1f, "ReasonString", 's'}},
	"Subscribe": {}, "Unsubscribe": {},
	"SubAck": {{0x1f, "ReasonString", 's'}}, "UnsubAck": {{0x1f, "ReasonString", 's'}},
	"Disconnect": {{0x11, "SessionExpiryInterval", '4'}, {0x1c, "ServerReference", 's'}, {0x1f, "ReasonString", 's'}},
	"Auth":       {{0x15, "AuthMethod", 's'}, {0x16, "AuthData", 's'}, {0x1f, "ReasonString", 's'}},
}

// the 27 identifiers MQTT v5.0 defines
var definedIDs = map[byte]bool{0x01: true, 0x02: true, 0x03: true, 0x08: true, 0x09: true, 0x0b: true, 0x11: true,
	0x12: true, 0x13: true, 0x15: true, 0x16: true, 0x17: true, 0x18: true, 0x19: true, 0x1a: true, 0x1c: true,
	0x1f: true, 0x21: true, 0x22: true, 0x23: true, 0x24: true, 0x25: true, 0x26: true, 0x27: true, 0x28: true,
	0x29: true, 0x2a: true}

type sprop struct {
	id      byte
	enc     []byte // value bytes
	boolVal bool   // value is a boolean byte
	vb      bool   // value is a variable byte integer
	pairMid int    // for user properties: offset inside enc between key and value strings (interior), else -1
}

func encStr(v []byte) []byte {
	out := []byte{byte(len(v) >> 8), byte(len(v))}
	return append(out, v...)
}

func ups(pairs [][2][]byte) string {
	parts := make([]string, len(pairs))
	for i, kv := range pairs {
		parts[i] = hx(kv[0]) + ":" + hx(kv[1])
	}
	return "[" + strings.Join(parts, ",") + "]"
}

// random properties for a packet kind (table key tk, view prefix for user properties upName);
// subIDs: 0 none allowed, 1 at most one (SUBSCRIBE), 2 repeatable (PUBLISH)
func (g *gen) specProps(f *sframe, tk string, upName string, subIDs int, subName string) []sprop {
	var ps []sprop
	density := []float64{0.1, 0.5, 1.0}[g.r.Intn(3)]
	for _, d := range propsOf[tk] {
		if !g.chance(density) {
			continue
		}
		zero := g.chance(0.15) // explicitly transmitted zero value
		p := sprop{id: d.id, pairMid: -1}
		switch d.typ {
		case 'B':
			v := g.u8()
			if zero {
				v = 0
			}
			p.enc = []byte{byte(v)}
			f.view[d.name] = fmt.Sprint(v)
		case 'b':
			v := g.chance(0.5) && !zero
			p.boolVal = true
			if v {
				p.enc = []byte{1}
			} else {
				p.enc = []byte{0}
			}
			f.view[d.name] = fmt.Sprint(v)
		case '2':
			v := g.u16()
			if zero {
				v = 0
			}
			p.enc = []byte{byte(v >> 8), byte(v)}
			f.view[d.name] = fmt.Sprint(v)
		case '4':
			v := g.u32()
			if zero {
				v = 0
			}
			p.enc = []byte{byte(v >> 24), byte(v >> 16), byte(v >> 8), byte(v)}
			f.view[d.name] = fmt.Sprint(v)
		case 's':
			v := g.bytes()
			if zero {
				v = nil
			}
			p.enc = encStr(v)
			f.view[d.name] = "x" + hx(v)
		}
		ps = append(ps, p)
	}
	// user properties (repeatable, order significant, empty keys and values are legal strings)
	var pairs [][2][]byte
	for n := g.r.Intn(4); n > 0 && g.chance(0.6); n-- {
		k, v := g.bytes(), g.bytes()
		if g.chance(0.8) && len(k) == 0 {
			k = g.nonEmpty()
		}
		pairs = append(pairs, [2][]byte{k, v})
		ps = append(ps, sprop{id: 0x26, enc: append(encStr(k), encStr(v)...), pairMid: 2 + len(k)})
	}
	// now and then pad the section with a user property so that the property length is a multiple
	// of 128 (its encoding then starts with value-free continuation bytes: 80 01, 80 02, 80 80 01)
	if g.chance(0.12) {
		total := 0
		for _, p := range ps {
			total += 1 + len(p.enc)
		}
		target := []int{128, 256, 384, 16384}[g.r.Intn(4)]
		if !g.big && target == 16384 {
			target = 128
		}
		for target < total+6 {
			target += 128
		}
		pad := target - total - 1 - 4 // id + two length prefixes
		if pad >= 1 && pad < 60000 {
			k := g.nonEmpty()
			if len(k) > pad {
				k = k[:pad]
			}
			v := g.bytesN(pad - len(k))
			pairs = append(pairs, [2][]byte{k, v})
			ps = append(ps, sprop{id: 0x26, enc: append(encStr(k), encStr(v)...), pairMid: 2 + len(k)})
		}
	}
	if len(pairs) > 0 {
		f.view[upName] = ups(pairs)
	}
	// subscription identifiers
	var ids []string
	switch subIDs {
	case 1:
		if g.chance(0.5) {
			v := g.subID()
			ps = append(ps, sprop{id: 0x0b, enc: vbEncode(v), vb: true, pairMid: -1})
			f.view[subName] = fmt.Sprint(v)
		}
	case 2:
		for n := g.r.Intn(3); n > 0 && g.chance(0.5); n-- {
			v := g.subID()
			ps = append(ps, sprop{id: 0x0b, enc: vbEncode(v), vb: true, pairMid: -1})
			ids = append(ids, fmt.Sprint(v))
		}
		if len(ids) > 0 {
			f.view[subName] = "[" + strings.Join(ids, ",") + "]"
		}
	}
	// any order; the relative order of the repeatable ones is what the view lists, so shuffle
	// only in a way that keeps user properties (and subscription identifiers) in their own order
	return g.shuffleProps(ps)
}

func (g *gen) shuffleProps(ps []sprop) []sprop {
	n := len(ps)
	if n < 2 || g.chance(0.2) {
		return ps
	}
	// random interleaving: choose a random permutation, then restore the relative order within
	// the user-property group and within the subscription-identifier group
	perm := g.r.Perm(n)
	out := make([]sprop, n)
	for i, j := range perm {
		out[i] = ps[j]
	}
	fix := func(id byte) {
		var idx []int
		var vals []sprop
		for i, p := range out {
			if p.id == id {
				idx = append(idx, i)
			}
		}
		for _, p := range ps {
			if p.id == id {
				vals = append(vals, p)
			}
		}
		for k, i := range idx {
			out[i] = vals[k]
		}
	}
	fix(0x26)
	fix(0x0b)
	return out
}

// property length + properties, with the field map
func (f *sframe) putProps(ps []sprop) {
	total := 0
	for _, p := range ps {
		total += 1 + len(p.enc)
	}
	f.vb(uint64(total))
	for _, p := range ps {
		f.propIDs = append(f.propIDs, len(f.body))
		start := len(f.body)
		f.body = append(f.body, p.id)
		// between the identifier and its value, inside the value, and (pairs) between key and value
		f.interior = append(f.interior, start+1)
		if len(p.enc) > 1 {
			f.interior = append(f.interior, start+2, start+len(p.enc))
		}
		if p.pairMid > 0 {
			f.interior = append(f.interior, start+1+p.pairMid)
		}
		if p.boolVal {
			f.boolPos = append(f.boolPos, len(f.body))
		}
		if p.vb {
			f.vbPos = append(f.vbPos, [2]int{len(f.body), len(p.enc)})
		}
		f.body = append(f.body, p.enc...)
		f.mark()
	}
}

func newFrame(kind string, first byte) *sframe {
	f := &sframe{kind: kind, first: first, view: map[string]string{}, bounds: map[int]bool{0: true}, payload: -1}
	return f
}

var firstOf = map[string]byte{"Connect": 0x10, "ConnAck": 0x20, "Publish": 0x30, "PubAck": 0x40, "PubRec": 0x50,
	"PubRel": 0x62, "PubComp": 0x70, "Subscribe": 0x82, "SubAck": 0x90, "Unsubscribe": 0xa2, "UnsubAck": 0xb0,
	"PingReq": 0xc0, "PingResp": 0xd0, "Disconnect": 0xe0, "Auth": 0xf0}

// one valid frame of the given kind
func (g *gen) specFrame(kind string) *sframe {
	f := newFrame(kind, firstOf[kind])
	switch kind {
	case "Connect":
		f.str([]byte("MQTT"))
		f.view["ProtocolName"] = "x" + hx([]byte("MQTT"))
		f.u8(5)
		f.view["ProtocolVersion"] = "5"
		hasWill, hasUser, hasPass := g.chance(0.5), g.chance(0.5), g.chance(0.5)
		clean := g.chance(0.5)
		willQoS, willRetain := uint64(0), false
		var flags uint64
		if clean {
			flags |= 2
		}
		if hasWill {
			willQoS = uint64(g.r.Intn(3))
			willRetain = g.chance(0.5)
			flags |= 4 | willQoS<<3
			if willRetain {
				flags |= 32
			}
		}
		if hasPass {
			flags |= 64
		}
		if hasUser {
			flags |= 128
		}
		f.u8(byte(flags))
		f.view["Flags"] = fmt.Sprint(flags)
		f.view["CleanStart"] = fmt.Sprint(clean)
		ka := g.u16()
		f.u16(ka)
		f.view["KeepAlive"] = fmt.Sprint(ka)
		f.putProps(g.specProps(f, "Connect", "UserProperties", 0, ""))
		cid := g.bytes()
		f.str(cid)
		f.view["ClientID"] = "x" + hx(cid)
		if hasWill {
			f.view["Will"] = "true"
			f.view["Will.QoS"] = fmt.Sprint(willQoS)
			f.view["Will.Retain"] = fmt.Sprint(willRetain)
			f.putProps(g.specProps(f, "Will", "Will.UserProperties", 0, ""))
			topic, payload := g.bytes(), g.bytes()
			f.str(topic)
			f.str(payload)
			f.view["Will.TopicName"] = "x" + hx(topic)
			f.view["Will.Payload"] = "x" + hx(payload)
		}
		if hasUser {
			// a user name field may be present and empty
			u := g.bytes()
			f.str(u)
			f.view["Username"] = "x" + hx(u)
		}
		if hasPass {
			p := g.bytes()
			f.str(p)
			f.view["Password"] = "x" + hx(p)
		}
	case "ConnAck":
		sp := g.chance(0.5)
		if sp {
			f.u8(1)
			f.view["Flags"] = "1"
		} else {
			f.u8(0)
		}
		f.view["SessionPresent"] = fmt.Sprint(sp)
		rc := g.u8()
		f.u8(byte(rc))
		f.view["ReasonCode"] = fmt.Sprint(rc)
		f.putProps(g.specProps(f, "ConnAck", "UserProperties", 0, ""))
	case "Publish":
		qos := uint64(g.r.Intn(3))
		dup, retain := g.chance(0.3), g.chance(0.3)
		f.first = 0x30 | byte(qos<<1)
		if dup {
			f.first |= 8
		}
		if retain {
			f.first |= 1
		}
		f.view["QoS"] = fmt.Sprint(qos)
		f.view["Duplicate"] = fmt.Sprint(dup)
		f.view["Retain"] = fmt.Sprint(retain)
		topic := g.bytes()
		f.str(topic)
		f.view["TopicName"] = "x" + hx(topic)
		if qos > 0 {
			pid := g.u16()
			f.u16(pid)
			f.view["PacketID"] = fmt.Sprint(pid)
		}
		f.putProps(g.specProps(f, "Publish", "UserProperties", 2, "SubscriptionIDs"))
		if g.chance(0.7) {
			pl := g.bytes()
			if g.big && g.chance(0.02) {
				pl = g.bytesN(2097152 + g.r.Intn(100))
			}
			if len(pl) > 0 {
				f.payload = len(f.body)
				f.body = append(f.body, pl...)
				f.mark()
				f.view["Payload"] = "x" + hx(pl)
			}
		}
	case "PubAck", "PubRec", "PubRel", "PubComp":
		pid := g.u16()
		f.u16(pid)
		f.view["PacketID"] = fmt.Sprint(pid)
		switch g.r.Intn(4) {
		case 0: // remaining length 2: reason 0, no properties
		case 1: // remaining length 3
			rc := g.u8()
			f.u8(byte(rc))
			f.view["ReasonCode"] = fmt.Sprint(rc)
		default:
			rc := g.u8()
			f.u8(byte(rc))
			f.view["ReasonCode"] = fmt.Sprint(rc)
			f.putProps(g.specProps(f, kind, "UserProperties", 0, ""))
		}
	case "Subscribe":
		pid := g.u16()
		f.u16(pid)
		f.view["PacketID"] = fmt.Sprint(pid)
		f.putProps(g.specProps(f, "Subscribe", "UserProperties", 1, "SubscriptionID"))
		n := 1 + g.r.Intn(3)
		var fs []string
		for i := 0; i < n; i++ {
			flt := g.nonEmpty()
			opt := byte(g.r.Intn(3)) | byte(g.r.Intn(4))<<2 | byte(g.r.Intn(3))<<4
			f.str(flt)
			f.u8(opt)
			fs = append(fs, fmt.Sprintf("x%s/%d", hx(flt), opt))
		}
		f.view["Filters"] = "[" + strings.Join(fs, ",") + "]"
	case "Unsubscribe":
		pid := g.u16()
		f.u16(pid)
		f.view["PacketID"] = fmt.Sprint(pid)
		f.putProps(g.specProps(f, "Unsubscribe", "UserProperties", 0, ""))
		n := 1 + g.r.Intn(3)
		var fs []string
		for i := 0; i < n; i++ {
			flt := g.nonEmpty()
			f.str(flt)
			fs = append(fs, "x"+hx(flt))
		}
		f.view["Filters"] = "[" + strings.Join(fs, ",") + "]"
	case "SubAck", "UnsubAck":
		pid := g.u16()
		f.u16(pid)
		f.view["PacketID"] = fmt.Sprint(pid)
		f.putProps(g.specProps(f, kind, "UserProperties", 0, ""))
		n := 1 + g.r.Intn(4)
		codes := g.bytesN(n)
		for _, c := range codes {
			f.u8(c)
		}
		f.view["ReasonCodes"] = "x" + hx(codes)
	case "PingReq", "PingResp":
	case "Disconnect":
		switch g.r.Intn(4) {
		case 0: // remaining length 0
		case 1: // remaining length 1
			rc := g.u8()
			f.u8(byte(rc))
			f.view["ReasonCode"] = fmt.Sprint(rc)
		default:
			rc := g.u8()
			f.u8(byte(rc))
			f.view["ReasonCode"] = fmt.Sprint(rc)
			f.putProps(g.specProps(f, "Disconnect", "UserProperties", 0, ""))
		}
	case "Auth":
		if g.chance(0.75) {
			rc := g.u8()
			f.u8(byte(rc))
			f.view["ReasonCode"] = fmt.Sprint(rc)
			f.putProps(g.specProps(f, "Auth", "UserProperties", 0, ""))
		}
	}
	return f
}

func (g *gen) anyKind() string {
	k := apiKinds[g.r.Intn(len(apiKinds))]
	if g.chance(0.3) {
		k = []string{"Connect", "Publish", "ConnAck", "Subscribe", "Disconnect"}[g.r.Intn(5)]
	}
	return k
}

// ---------------------------------------------------------------- classes over frames

func schedStr(s []int) string {
	if len(s) == 0 {
		return "-"
	}
	parts := make([]string, len(s))
	for i, x := range s {
		parts[i] = fmt.Sprint(x)
	}
	return strings.Join(parts, ",")
}

// a random delivery schedule for n bytes (chunk sizes, with zero-length reads in between)
func (g *gen) schedule(n int) []int {
	var s []int
	left := n
	mode := g.r.Intn(4)
	for left > 0 && len(s) < 4000 {
		if g.chance(0.1) {
			s = append(s, 0)
			continue
		}
		c := 1
		switch mode {
		case 0:
			c = 1
		case 1:
			c = 1 + g.r.Intn(3)
		case 2:
			c = 1 + g.r.Intn(left)
		case 3:
			c = 1 + g.r.Intn(16)
		}
		s = append(s, c)
		left -= c
	}
	return s
}

func (g *gen) genFrames(n int) {
	for c := 0; c < n; c++ {
		f := g.specFrame(g.anyKind())
		fr := f.frame()
		g.emit("RESET")
		g.emit("NOTE case=frames expect %s", f.expect())
		g.emit("RD x %s sched=- eofwd=0 fail=eof calls=1", hx(fr))
		g.emit("VIEW x")
		g.emit("STR x")
		g.emit("DUMP x")
		// fragmentation (C07): the same frame under several schedules
		if len(fr) <= 20000 {
			k := 2
			for i := 0; i < k; i++ {
				g.emit("NOTE case=sched")
				g.emit("RD x %s sched=%s eofwd=%d fail=eof calls=1", hx(fr), schedStr(g.schedule(len(fr))), g.r.Intn(2))
			}
		}
	}
}

// all compositions of short frames (C07 exhaustive part): n = number of frames
func (g *gen) genCompositions(n int) {
	for c := 0; c < n; c++ {
		f := g.specFrame(g.anyKind())
		fr := f.frame()
		if len(fr) > 11 || len(fr) < 3 {
			c--
			continue
		}
		g.emit("RESET")
		g.emit("NOTE case=comp base")
		g.emit("RD x %s sched=- eofwd=0 fail=eof calls=1", hx(fr))
		L := len(fr)
		for mask := 0; mask < 1<<(L-1); mask++ {
			var s []int
			run := 1
			for i := 0; i < L-1; i++ {
				if mask&(1<<i) != 0 {
					s = append(s, run)
					run = 1
				} else {
					run++
				}
			}
			s = append(s, run)
			g.emit("NOTE case=sched")
			g.emit("RD x %s sched=%s eofwd=%d fail=eof calls=1", hx(fr), schedStr(s), mask&1)
		}
	}
}

// sizes around which an implementation may switch strategy (a pooled buffer, a window instead of a copy, a chunked
// read): powers of two from 1 KiB, bufio's 4096, the 16-bit limit
func (g *gen) thresholdSize() int {
	base := []int{1024, 2048, 4096, 8192, 16384, 32768, 65535}[g.r.Intn(7)]
	n := base + g.r.Intn(5) - 2
	if n > 65535 {
		n = 65535
	}
	return n
}

// a valid body of `kind` whose only large field is one length-prefixed string or binary value of n bytes; nil for
// kinds that have none
func (g *gen) bigStringBody(kind string, n int) []byte {
	v := g.bytesN(n)
	for i := range v {
		if v[i] == 0 || v[i] == '#' || v[i] == '+' {
			v[i] = 'x'
		}
	}
	str := append([]byte{byte(n >> 8), byte(n)}, v...)
	prop := func(id byte) []byte {
		sect := append([]byte{id}, str...)
		return append(vbEncode(uint64(len(sect))), sect...)
	}
	pid := []byte{0, byte(1 + g.r.Intn(255))}
	switch kind {
	case "Auth":
		return append([]byte{0x18}, prop(0x16)...)
	case "Disconnect":
		return append([]byte{0}, prop([]byte{0x1f, 0x1c}[g.r.Intn(2)])...)
	case "ConnAck":
		return append([]byte{0, 0}, prop([]byte{0x1f, 0x12, 0x1a, 0x16}[g.r.Intn(4)])...)
	case "PubAck", "PubRec", "PubRel", "PubComp":
		return append(append(pid, 0), prop(0x1f)...)
	case "SubAck", "UnsubAck":
		return append(append(pid, prop(0x1f)...), 0)
	case "Unsubscribe":
		return append(append(pid, 0), str...)
	case "Subscribe":
		return append(append(append(pid, 0), str...), 1)
	case "Publish": // QoS 0
		if g.chance(0.5) {
			return append(append(str, 0), 'p')
		}
		return append(append([]byte{0, 1, 't'}, prop([]byte{0x08, 0x09, 0x03}[g.r.Intn(3)])...), 'p')
	case "Connect":
		hd := []byte{0, 4, 'M', 'Q', 'T', 'T', 5}
		switch g.r.Intn(3) {
		case 0: // client id
			return append(append(hd, 0, 0, 0, 0), str...)
		case 1: // password
			return append(append(append(hd, 0x40, 0, 0, 0), 0, 0), str...)
		default: // user name
			return append(append(append(hd, 0x80, 0, 0, 0), 0, 0), str...)
		}
	}
	return nil
}

var firstOfKind = map[string]byte{"Connect": 0x10, "ConnAck": 0x20, "Publish": 0x30, "PubAck": 0x40, "PubRec": 0x50, "PubRel": 0x62,
	"PubComp": 0x70, "Subscribe": 0x82, "SubAck": 0x90, "Unsubscribe": 0xa2, "UnsubAck": 0xb0, "PingReq": 0xc0,
	"PingResp": 0xd0, "Disconnect": 0xe0, "Auth": 0xf0}

// a valid frame larger than the usual read and pool sizes: a long list, a long string, or a long payload
func (g *gen) bigFrame() []byte {
	switch g.r.Intn(4) {
	case 0: // SUBACK / UNSUBACK with thousands of reason codes
		n := 30000 + g.r.Intn(40000)
		body := append([]byte{0, 1, 0}, bytesRepeat(0, n)...)
		return reframe([]byte{0x90, 0xb0}[g.r.Intn(2)], body)
	case 1: // UNSUBSCRIBE with many filters
		var body = []byte{0, 1, 0}
		for n := 8000 + g.r.Intn(8000); n > 0; n-- {
			body = append(body, 0, 2, 'a', 'b')
		}
		return reframe(0xa2, body)
	case 2:
		kinds := []string{"Auth", "Disconnect", "ConnAck", "PubAck", "Unsubscribe", "Subscribe", "Publish", "Connect"}
		k := kinds[g.r.Intn(len(kinds))]
		return reframe(firstOfKind[k], g.bigStringBody(k, []int{32768, 40000, 65535}[g.r.Intn(3)]))
	}
	sz := []int{32764, 32769, 40000, 65531, 65537, 70000}[g.r.Intn(6)]
	return reframe(0x30, append([]byte{0, 1, 't', 0}, g.bytesN(sz)...))
}

func (g *gen) genCuts(n int) {
	for c := 0; c < n; c++ {
		if g.chance(0.12) {
			// a frame beyond the usual buffer sizes, cut at a few places inside the body and just before its end
			fr := g.bigFrame()
			g.emit("RESET")
			g.emit("NOTE case=cuts len=%d big=1", len(fr))
			ks := []int{len(fr) - 1, len(fr) - 2, len(fr) / 2, 5 + g.r.Intn(len(fr)-6), 32768 + g.r.Intn(8), 4096 + g.r.Intn(8)}
			for _, k := range ks {
				if k <= 0 || k >= len(fr) {
					continue
				}
				fail := "eof"
				if g.chance(0.3) {
					fail = fmt.Sprintf("E%d", 1+g.r.Intn(9))
				}
				var sched []int
				if g.chance(0.3) {
					sched = []int{1, 1, 1, 1, 1, 4096}
				}
				g.emit("NOTE case=cut k=%d fail=%s", k, fail)
				g.emit("RD x %s sched=%s eofwd=%d fail=%s calls=1", hxd(fr[:k]), schedStr(sched), g.r.Intn(2), fail)
			}
			continue
		}
		f := g.specFrame(g.anyKind())
		fr := f.frame()
		if len(fr) > 600 {
			c--
			continue
		}
		g.emit("RESET")
		g.emit("NOTE case=cuts len=%d", len(fr))
		for k := 0; k < len(fr); k++ {
			if len(fr) > 60 && !g.chance(60.0/float64(len(fr))) && k > 6 {
				continue
			}
			fail := "eof"
			if g.chance(0.5) {
				fail = fmt.Sprintf("E%d", 1+g.r.Intn(9))
			}
			var sched []int
			if g.chance(0.5) {
				sched = g.schedule(k)
			}
			g.emit("NOTE case=cut k=%d fail=%s", k, fail)
			g.emit("RD x %s sched=%s eofwd=%d fail=%s calls=1", hxd(fr[:k]), schedStr(sched), g.r.Intn(2), fail)
		}
	}
}

func (g *gen) genReject(n int) {
	for c := 0; c < n; c++ {
		f := g.specFrame(g.anyKind())
		if len(f.body) > 3000 {
			c--
			continue
		}
		g.emit("RESET")
		g.emit("NOTE case=rejectbase")
		// (a) cut strictly inside a field: the boundary-adjacent interior positions of every field
		// always, the other interior positions sampled
		always := map[int]bool{}
		for _, k := range f.interior {
			always[k] = true
		}
		for k := 1; k < len(f.body); k++ {
			if f.bounds[k] || (f.payload >= 0 && k >= f.payload) {
				continue
			}
			if !always[k] && len(f.body) > 80 && !g.chance(80.0/float64(len(f.body))) {
				continue
			}
			g.emit("NOTE case=reject why=cut k=%d", k)
			g.emit("RD x %s sched=- eofwd=0 fail=eof calls=1", hx(reframe(f.first, f.body[:k])))
		}
		// (b) variable byte integer with a fifth byte
		long5 := func() []byte {
			// four continuation bytes and a fifth byte; half of the time with empty 7-bit groups
			if g.chance(0.5) {
				return []byte{0x80, 0x80, 0x80, 0x80, []byte{0x00, 0x01, 0x80, 0x7f}[g.r.Intn(4)]}
			}
			return []byte{0x80 | byte(g.r.Intn(128)), 0x80 | byte(g.r.Intn(128)), 0x80 | byte(g.r.Intn(128)), 0x80 | byte(g.r.Intn(128)), byte(g.r.Intn(256))}
		}
		for _, vp := range f.vbPos {
			body := append([]byte(nil), f.body[:vp[0]]...)
			body = append(body, long5()...)
			body = append(body, f.body[vp[0]+vp[1]:]...)
			g.emit("NOTE case=reject why=vb5 at=%d", vp[0])
			g.emit("RD x %s sched=- eofwd=0 fail=eof calls=1", hx(reframe(f.first, body)))
		}
		{
			// the remaining length itself (followed by enough bytes for any reading of it)
			fr := append([]byte{f.first}, long5()...)
			if g.chance(0.3) {
				fr = append(fr, 0x80, 0x80, 0x00)
			}
			fr = append(fr, f.body...)
			g.emit("NOTE case=reject why=vb5 at=remlen")
			g.emit("RD x %s sched=- eofwd=0 fail=eof calls=1", hx(fr))
		}
		// (c) boolean property with a value other than 0/1
		for _, bp := range f.boolPos {
			body := append([]byte(nil), f.body...)
			body[bp] = byte(2 + g.r.Intn(254))
			g.emit("NOTE case=reject why=bool at=%d", bp)
			g.emit("RD x %s sched=- eofwd=0 fail=eof calls=1", hx(reframe(f.first, body)))
		}
		// (d) undefined property identifier
		for _, pp := range f.propIDs {
			ids := []byte{}
			if g.big {
				for id := 0; id < 256; id++ {
					if !definedIDs[byte(id)] {
						ids = append(ids, byte(id))
					}
				}
			} else {
				for len(ids) < 3 {
					id := byte(g.r.Intn(256))
					if !definedIDs[id] {
						ids = append(ids, id)
					}
				}
			}
			for _, id := range ids {
				body := append([]byte(nil), f.body...)
				body[pp] = id
				g.emit("NOTE case=reject why=unknownid id=%d at=%d", id, pp)
				g.emit("RD x %s sched=- eofwd=0 fail=eof calls=1", hx(reframe(f.first, body)))
			}
		}
	}
}

// content-malformed frame: valid header, body that the decoder rejects
func (g *gen) badContentFrame() []byte {
	f := g.specFrame([]string{"ConnAck", "Publish", "Connect", "Subscribe", "Auth"}[g.r.Intn(5)])
	body := append([]byte(nil), f.body...)
	if len(f.propIDs) > 0 {
		body[f.propIDs[0]] = 0x7f
	} else {
		body = append([]byte{0xff, 0xff, 0x01}, body...)
	}
	return reframe(f.first, body)
}

func (g *gen) genSeq(n int) {
	for c := 0; c < n; c++ {
		k := 1 + g.r.Intn(5)
		var stream []byte
		var lens []string
		for i := 0; i < k; i++ {
			var fr []byte
			big := false
			switch g.r.Intn(8) {
			case 0:
				fr = g.badContentFrame()
			case 4:
				if g.chance(0.16) {
					// a body beyond 64 KiB (chunked or pooled reads show there), followed by whatever comes next
					sz := []int{65531, 65536, 65537, 70000, 131072, 131073, 140001}[g.r.Intn(7)]
					body := append([]byte{0, 1, 't', 0}, g.bytesN(sz-4)...)
					fr = reframe(0x30, body)
					big = true
				} else {
					fr = g.specFrame(g.anyKind()).frame()
				}
			case 1:
				fr = []byte{[]byte{0xc0, 0xd0, 0xe0, 0xf0, 0x00, 0x30}[g.r.Intn(6)], 0}
			case 2, 3:
				// any type nibble over an arbitrary short body (a frame is a frame whatever its content)
				fr = reframe(byte(g.r.Intn(16))<<4|byte(g.r.Intn(16)), g.bytesN(g.r.Intn(12)))
			default:
				f := g.specFrame(g.anyKind())
				fr = f.frame()
			}
			if len(fr) > 3000 && !big {
				i--
				continue
			}
			stream = append(stream, fr...)
			lens = append(lens, fmt.Sprint(len(fr)))
		}
		tail := 0
		if g.chance(0.5) {
			t := g.bytesN(1 + g.r.Intn(4))
			tail = len(t)
			stream = append(stream, t...)
		}
		g.emit("RESET")
		g.emit("NOTE case=seq lens=%s tail=%d", strings.Join(lens, ","), tail)
		calls := k
		if tail == 0 {
			calls = k + 1 // the call after the last frame must report io.EOF
		}
		sched, eofwd := "-", 0
		if len(stream) < 4000 && g.chance(0.4) {
			// the same stream handed over in pieces, with empty reads, the last bytes together with io.EOF
			sched, eofwd = schedStr(g.schedule(len(stream))), g.r.Intn(2)
		}
		g.emit("RD x %s sched=%s eofwd=%d fail=eof calls=%d", hx(stream), sched, eofwd, calls)
	}
}

// a body of the kind whose property section carries one of its string properties twice, the second time with
// length 0; nil for kinds without string properties
func (g *gen) repeatedStringBody(kind string) []byte {
	ids := map[string][]byte{"SubAck": {0x1f}, "UnsubAck": {0x1f}, "Disconnect": {0x1f, 0x1c}, "Auth": {0x15, 0x16, 0x1f},
		"ConnAck": {0x12, 0x1f, 0x1a, 0x1c, 0x15, 0x16}, "PubAck": {0x1f}, "PubRec": {0x1f}, "PubRel": {0x1f}, "PubComp": {0x1f},
		"Publish": {0x08, 0x09, 0x03}}[kind]
	if ids == nil {
		return nil
	}
	id := ids[g.r.Intn(len(ids))]
	val := g.bytesN(1 + g.r.Intn(40))
	props := append([]byte{id, 0, byte(len(val))}, val...)
	if g.chance(0.3) {
		props = append(props, 0x26, 0, 1, 'k', 0, 1, 'v')
	}
	props = append(props, id, 0, 0)
	plen := len(props)
	if g.chance(0.25) {
		plen += 1 + g.r.Intn(len(val)) // claims more than is there
	}
	sect := append(vbEncode(uint64(plen)), props...)
	pid := []byte{byte(g.r.Intn(256)), byte(1 + g.r.Intn(255))}
	var tail []byte
	if g.chance(0.5) {
		tail = g.bytesN(g.r.Intn(3))
	}
	switch kind {
	case "SubAck", "UnsubAck":
		return append(append(pid, sect...), tail...)
	case "Disconnect", "Auth":
		return append([]byte{0}, sect...)
	case "ConnAck":
		return append([]byte{0, 0}, sect...)
	case "PubAck", "PubRec", "PubRel", "PubComp":
		return append(append(pid, 0), sect...)
	case "Publish":
		return append(append([]byte{0, 1, 't'}, sect...), tail...)
	}
	return nil
}

func (g *gen) mutate(b []byte) []byte {
	out := append([]byte(nil), b...)
	if len(out) == 0 {
		return []byte{byte(g.r.Intn(256))}
	}
	switch g.r.Intn(7) {
	case 0: // truncate
		out = out[:g.r.Intn(len(out))]
	case 1: // flip a byte
		out[g.r.Intn(len(out))] = byte(g.r.Intn(256))
	case 2: // raise/lower a byte
		i := g.r.Intn(len(out))
		out[i] += byte(g.r.Intn(5)) - 2
	case 3: // insert
		i := g.r.Intn(len(out) + 1)
		out = append(out[:i], append([]byte{byte(g.r.Intn(256))}, out[i:]...)...)
	case 4: // delete
		i := g.r.Intn(len(out))
		out = append(out[:i], out[i+1:]...)
	case 5: // set high bit somewhere (vbint continuation)
		out[g.r.Intn(len(out))] |= 0x80
	case 6: // duplicate a slice
		i := g.r.Intn(len(out))
		j := i + g.r.Intn(len(out)-i)
		out = append(out[:j], append(append([]byte(nil), out[i:j]...), out[j:]...)...)
	}
	return out
}

func (g *gen) genMalformed(n int) {
	for c := 0; c < n; c++ {
		g.emit("RESET")
		kind := g.anyKind()
		f := g.specFrame(kind)
		if len(f.body) > 2000 {
			c--
			continue
		}
		var body []byte
		if rb := g.repeatedStringBody(kind); rb != nil && g.chance(0.12) {
			// a string property given twice, the second time empty (what the destination held before must not
			// leak into how far the cursor moves), optionally under a property length that claims more
			g.emit("NOTE case=malformed why=repeated-string")
			dkk := kind
			if g.chance(0.5) {
				g.emit("NEW p %s", dkk)
			} else {
				g.emit("ZERO p %s", dkk)
			}
			g.emit("DEC p %s", hxd(rb))
			g.emit("STR p")
			g.emit("RD x %s sched=- eofwd=0 fail=eof calls=1", hxd(reframe(f.first, rb)))
			g.emit("STR x")
			continue
		}
		switch g.r.Intn(5) {
		case 0:
			body = g.bytesN(g.r.Intn(12))
			for i := range body {
				if g.chance(0.5) {
					body[i] = byte(g.r.Intn(256))
				}
			}
		case 1:
			body = f.body[:g.r.Intn(len(f.body)+1)]
		default:
			body = g.mutate(f.body)
			if g.chance(0.3) {
				body = g.mutate(body)
			}
		}
		// UnmarshalBinary of a (possibly different) type on these bytes
		dk := kind
		if g.chance(0.3) {
			dk = kindNames[g.r.Intn(len(kindNames))]
		}
		g.emit("NOTE case=malformed")
		if g.chance(0.5) {
			g.emit("NEW p %s", dk)
		} else {
			g.emit("ZERO p %s", dk)
		}
		g.emit("DEC p %s", hxd(body))
		g.emit("STR p")
		g.emit("DUMP p")
		// ReadPacket on a frame around them (first byte of f, or any)
		first := f.first
		if g.chance(0.3) {
			first = byte(g.r.Intn(256))
		}
		fr := reframe(first, body)
		if g.chance(0.2) {
			fr = g.mutate(fr)
		}
		g.emit("RD x %s sched=- eofwd=0 fail=eof calls=1", hxd(fr))
		g.emit("STR x")
		g.emit("DUMP x")
	}
}

// long repeated sections (C05: work and memory proportional to the frame): thousands of user properties,
// subscription identifiers, filters or reason codes in one frame, whole and cut short, through UnmarshalBinary and
// ReadPacket. The executor meters the bytes allocated during each decode (exec.go, allocLimit).
func (g *gen) genBigList(n int) {
	type shape struct {
		kind   string
		first  byte
		head   []byte // variable header before the property section
		tail   []byte // after it
		filter []byte // one element of the payload list, nil if none
	}
	shapes := []shape{
		{"Connect", 0x10, []byte{0, 4, 'M', 'Q', 'T', 'T', 5, 0, 0, 0}, []byte{0, 0}, nil},
		{"ConnAck", 0x20, []byte{0, 0}, nil, nil},
		{"Publish", 0x30, []byte{0, 1, 'a'}, []byte("payload"), nil},
		{"PubAck", 0x40, []byte{0, 1, 0}, nil, nil},
		{"PubRec", 0x50, []byte{0, 1, 0}, nil, nil},
		{"PubRel", 0x62, []byte{0, 1, 0}, nil, nil},
		{"PubComp", 0x70, []byte{0, 1, 0}, nil, nil},
		{"Subscribe", 0x82, []byte{0, 1}, nil, []byte{0, 1, 'a', 1}},
		{"SubAck", 0x90, []byte{0, 1}, nil, []byte{0}},
		{"Unsubscribe", 0xa2, []byte{0, 1}, nil, []byte{0, 1, 'a'}},
		{"UnsubAck", 0xb0, []byte{0, 1}, nil, []byte{0}},
		{"Disconnect", 0xe0, []byte{0}, nil, nil},
		{"Auth", 0xf0, []byte{0}, nil, nil},
	}
	for c := 0; c < n; c++ {
		sh := shapes[g.r.Intn(len(shapes))]
		if c%8 == 0 {
			// one element as wide as a length-prefixed value can be: 65533..65535 bytes, i.e. a width of 65535..65537
			// (a cursor that keeps widths in 16 bits stops advancing exactly there). Enumerated, the list types first.
			type wide struct {
				kind string
				ln   int
			}
			var seq []wide
			for _, pair := range [][]string{{"Unsubscribe", "Subscribe"}, {"Publish", "Connect"}, {"Disconnect", "Auth"}, {"ConnAck", "PubAck"},
				{"PubRec", "PubRel"}, {"PubComp", "SubAck"}, {"UnsubAck"}} {
				for _, ln := range []int{65534, 65535, 65533} {
					for _, kind := range pair {
						seq = append(seq, wide{kind, ln})
					}
				}
			}
			kind, ln := seq[(c/8)%len(seq)].kind, seq[(c/8)%len(seq)].ln
			if body := g.bigStringBody(kind, ln); body != nil {
				g.emit("RESET")
				g.emit("NOTE case=biglist kind=%s list=wide-element count=%d cut=0", kind, ln)
				g.emit("NEW p %s", kind)
				g.emit("DEC p %s", hxd(body))
				g.emit("RD x %s sched=- eofwd=0 fail=eof calls=1", hxd(reframe(firstOfKind[kind], body)))
				continue
			}
		}
		count := 600 + g.r.Intn(1000)
		if g.chance(0.08) {
			count = 3000 + g.r.Intn(1500)
		}
		var elem []byte
		what := "userprop"
		switch k := g.r.Intn(4); {
		case k == 0:
			elem = []byte{0x26, 0, 0, 0, 0}
			what = "userprop-empty"
		case k == 1 && sh.kind == "Publish":
			elem = []byte{0x0b, byte(1 + g.r.Intn(127))}
			what = "subid"
		case k == 2 && sh.filter != nil:
			what = "payload-list"
		default:
			elem = []byte{0x26, 0, 1, 'k', 0, 1, 'v'}
		}
		var props, tail []byte
		tail = append(tail, sh.tail...)
		if what == "payload-list" {
			for i := 0; i < count; i++ {
				tail = append(tail, sh.filter...)
			}
		} else {
			for i := 0; i < count; i++ {
				props = append(props, elem...)
			}
			if sh.filter != nil {
				tail = append(tail, sh.filter...)
			}
		}
		body := append([]byte(nil), sh.head...)
		body = append(body, vbEncode(uint64(len(props)))...)
		body = append(body, props...)
		body = append(body, tail...)
		cut := 0
		if g.chance(0.3) {
			cut = 1 + g.r.Intn(6)
			body = body[:len(body)-cut]
		}
		g.emit("RESET")
		g.emit("NOTE case=biglist kind=%s list=%s count=%d cut=%d", sh.kind, what, count, cut)
		g.emit("NEW p %s", sh.kind)
		g.emit("DEC p %s", hxd(body))
		g.emit("RD x %s sched=- eofwd=0 fail=eof calls=1", hxd(reframe(sh.first, body)))
	}
}

// all byte strings of length <= L after every type nibble (C04 exhaustive part): seed = L
func (g *gen) genShort(L int) {
	var rec func(prefix []byte, left int, f func([]byte))
	rec = func(prefix []byte, left int, f func([]byte)) {
		f(prefix)
		if left == 0 {
			return
		}
		for b := 0; b < 256; b++ {
			rec(append(prefix[:len(prefix):len(prefix)], byte(b)), left-1, f)
		}
	}
	for t := 0; t < 16; t++ {
		g.emit("RESET")
		g.emit("NOTE case=short type=%d", t)
		rec(nil, L, func(body []byte) {
			g.emit("RD x %s sched=- eofwd=0 fail=eof calls=1", hx(reframe(byte(t<<4|g.r.Intn(16)), body)))
			if len(body) <= 1 || g.chance(0.02) {
				g.emit("ZERO p %s", kindNames[t])
				g.emit("DEC p %s", hxd(body))
			}
		})
	}
}

func (g *gen) genFirst(n int) {
	// bodies valid for each type (several each), tried under all 16 low nibbles
	for rep := 0; rep < n; rep++ {
		for t := 0; t < 16; t++ {
			var body []byte
			var kind string
			if t == 0 {
				kind = "Undefined"
				body = g.bytesN(g.r.Intn(6))
			} else {
				kind = kindNames[t]
				f := g.specFrame(kind)
				body = f.body
				if kind == "Publish" {
					// the packet identifier is present iff QoS is 1 or 2, so use a body per QoS class below
					body = nil
				}
				if g.chance(0.2) && (kind == "PingReq" || kind == "PingResp" || kind == "Disconnect" || kind == "Auth") {
					body = nil
				}
			}
			for low := 0; low < 16; low++ {
				b0 := byte(t<<4 | low)
				bd := body
				if kind == "Publish" {
					qos := (low >> 1) & 3
					pf := newFrame("Publish", b0)
					pf.str(g.nonEmpty())
					if qos == 1 || qos == 2 {
						pf.u16(uint64(1 + g.r.Intn(65535)))
					}
					pf.putProps(nil)
					pf.body = append(pf.body, g.smallBytes()...)
					bd = pf.body
				}
				g.emit("RESET")
				g.emit("NOTE case=first b0=%d kind=%s", b0, kind)
				g.emit("RD x %s sched=- eofwd=0 fail=eof calls=1", hx(reframe(b0, bd)))
				g.emit("VIEW x")
				g.emit("ENC x")
				g.emit("STR x")
				// every legal short form of the type under the same first byte (an implementation may treat the common
				// short frames on a path of their own)
				var shorts [][]byte
				pid := []byte{byte(g.r.Intn(256)), byte(1 + g.r.Intn(255))}
				switch kind {
				case "PubAck", "PubRec", "PubRel", "PubComp":
					shorts = [][]byte{pid, append(append([]byte(nil), pid...), byte(g.r.Intn(2)*0x10)), append(append([]byte(nil), pid...), 0, 0)}
				case "Disconnect":
					shorts = [][]byte{nil, {byte(g.r.Intn(2) * 4)}, {0, 0}}
				case "Auth":
					shorts = [][]byte{nil, {0x18, 0}}
				case "PingReq", "PingResp":
					shorts = [][]byte{nil}
				case "ConnAck":
					shorts = [][]byte{{0, 0, 0}, {1, 0, 0}}
				case "SubAck", "UnsubAck":
					shorts = [][]byte{append(append([]byte(nil), pid...), 0, 0)}
				}
				for _, sb := range shorts {
					g.emit("NOTE case=first b0=%d kind=%s short=%d", b0, kind, len(sb))
					g.emit("RD x %s sched=- eofwd=0 fail=eof calls=1", hx(reframe(b0, sb)))
					g.emit("VIEW x")
					g.emit("ENC x")
					g.emit("STR x")
				}
			}
		}
		// all 256 first bytes decoded first and kept, written back only afterwards, in a shuffled order
		// (a packet handed out by the dispatch must keep its header whatever is decoded after it)
		g.emit("RESET")
		g.emit("NOTE case=firstkeep")
		order := g.r.Perm(256)
		for _, b0 := range order {
			g.emit("RD k%d %s sched=- eofwd=0 fail=eof calls=1", b0, hx([]byte{byte(b0), 0}))
		}
		for _, b0 := range g.r.Perm(256) {
			g.emit("ENC k%d", b0)
		}
	}
}

func (g *gen) genPool(n int) {
	for c := 0; c < n; c++ {
		g.emit("RESET")
		g.emit("NOTE case=pool")
		m := 2 + g.r.Intn(4)
		var wills []string
		kinds := make([]string, m)
		for i := 0; i < m; i++ {
			kinds[i] = kindNames[g.r.Intn(len(kindNames))]
			if g.chance(0.3) {
				kinds[i] = "Connect"
			}
			if g.chance(0.1) {
				kinds[i] = "Undefined"
			}
			if g.chance(0.08) {
				kinds[i] = "Subscribe"
			}
			g.emit("NEW s%d %s", i, kinds[i])
			if kinds[i] == "Connect" && g.chance(0.5) {
				// a will message the caller keeps a pointer to: decoding into the CONNECT afterwards must not write through it
				wills = append(wills, fmt.Sprintf("w%d", i))
				g.emit("NEW w%d Publish", i)
				g.emit("SET w%d SetTopicName %s", i, hxd(g.nonEmpty()))
				g.emit("SET w%d SetPayload %s", i, hxd(g.smallBytes()))
				g.emit("SET s%d SetWill w%d", i, i)
			}
		}
		steps := 3 + g.r.Intn(10)
		for s := 0; s < steps; s++ {
			i := g.r.Intn(m)
			slot := fmt.Sprintf("s%d", i)
			switch g.r.Intn(5) {
			case 0, 1: // decode a valid frame body of that kind into a fresh packet, then scribble
				var body []byte
				if kinds[i] == "Undefined" {
					body = g.bytesN(1 + g.r.Intn(8))
				} else {
					f := g.specFrame(kinds[i])
					if kinds[i] == "Publish" {
						// UnmarshalBinary decides on the packet identifier from the packet's own first byte
						g.emit("NEW %s Publish", slot)
						qos := 0
						if strings.Contains(f.view["QoS"], "1") {
							qos = 1
						} else if strings.Contains(f.view["QoS"], "2") {
							qos = 2
						}
						g.emit("SET %s SetQoS %d", slot, qos)
					} else if kinds[i] == "Connect" && g.chance(0.5) {
						// into the value as it is (it may hold a will the caller still has a pointer to)
					} else {
						g.emit("NEW %s %s", slot, kinds[i])
					}
					body = f.body
					// a subscription identifier where the packet has none to receive it: accepted and dropped
					// (it must not land in some other packet either)
					if sb := g.strayBody(kinds[i]); sb != nil && g.chance(0.2) {
						body = sb
					}
				}
				big := false
				if kinds[i] == "Publish" && g.chance(0.15) {
					// a payload of some kilobytes (a decoder might keep a window into the caller's slice for those)
					sz := []int{4095, 4096, 4097, 5000, 20000}[g.r.Intn(5)]
					g.emit("NEW %s Publish", slot)
					g.emit("SET %s SetQoS 0", slot)
					body = append([]byte{0, 1, 't', 0}, g.bytesN(sz)...)
					big = true
				}
				if kinds[i] != "Undefined" && g.chance(0.15) {
					// one string or binary value of a kilobyte and more (a decoder might copy only the small ones)
					if bb := g.bigStringBody(kinds[i], g.thresholdSize()); bb != nil {
						g.emit("NEW %s %s", slot, kinds[i])
						body = bb
						big = true
					}
				}
				if len(body) > 2000 && !big {
					continue
				}
				if kinds[i] != "Undefined" && kinds[i] != "Publish" && !big && g.chance(0.3) {
					// through ReadPacket instead: the packet the dispatch hands out (any header flags for the pings)
					first := map[string]byte{"Connect": 0x10, "ConnAck": 0x20, "PubAck": 0x40, "PubRec": 0x50, "PubRel": 0x62,
						"PubComp": 0x70, "Subscribe": 0x82, "SubAck": 0x90, "Unsubscribe": 0xa2, "UnsubAck": 0xb0, "PingReq": 0xc0,
						"PingResp": 0xd0, "Disconnect": 0xe0, "Auth": 0xf0}[kinds[i]]
					if kinds[i] == "PingReq" || kinds[i] == "PingResp" {
						first |= byte(g.r.Intn(16))
						body = nil
					}
					g.emit("RD %s %s sched=- eofwd=0 fail=eof calls=1", slot, hx(reframe(first, body)))
					for j := 0; j < m; j++ {
						g.emit("VIEW s%d", j)
						g.emit("ENC s%d", j)
					}
					continue
				}
				g.emit("DEC %s %s", slot, hxd(body))
				if g.chance(0.7) {
					g.emit("SCRIBBLE %s", slot)
				}
				if kinds[i] == "Subscribe" && g.chance(0.6) {
					g.emit("FCOPY %s %d %s %d", slot, g.r.Intn(2), hxd(g.bytesN(g.r.Intn(6))), g.r.Intn(256))
				}
			case 2: // setters
				if len(setters[kinds[i]]) > 0 {
					ss := setters[kinds[i]]
					st := ss[g.r.Intn(len(ss))]
					g.emit("SET %s %s %s", slot, st.name, st.args(g))
				}
			case 3:
				g.emit("ENC %s", slot)
			case 4:
				g.emit("STR %s", slot)
				if kinds[i] == "Subscribe" {
					// a filter taken out of the packet by value and changed (shorter, equally long, longer)
					g.emit("FCOPY %s %d %s %d", slot, g.r.Intn(3), hxd(g.bytesN(g.r.Intn(12))), g.r.Intn(256))
				}
			}
			for j := 0; j < m; j++ {
				g.emit("VIEW s%d", j)
				g.emit("ENC s%d", j)
			}
			for _, w := range wills {
				g.emit("VIEW %s", w)
				g.emit("ENC %s", w)
			}
		}
	}
}

// a short valid-looking body of the kind whose property section carries a stray Subscription Identifier (0x0b)
func (g *gen) strayBody(kind string) []byte {
	id := vbEncode(uint64(1 + g.r.Intn(300)))
	prop := append([]byte{0x0b}, id...)
	if g.chance(0.3) {
		prop = append(prop, append([]byte{0x0b}, vbEncode(uint64(1+g.r.Intn(300)))...)...)
	}
	sect := append([]byte{byte(len(prop))}, prop...)
	pid := []byte{byte(g.r.Intn(256)), byte(1 + g.r.Intn(255))}
	switch kind {
	case "PubAck", "PubRec", "PubRel", "PubComp":
		return append(append(pid, 0), sect...)
	case "Disconnect", "Auth":
		return append([]byte{0}, sect...)
	case "ConnAck":
		return append([]byte{0, 0}, sect...)
	case "SubAck", "UnsubAck":
		return append(append(pid, sect...), 0)
	case "Unsubscribe":
		return append(append(pid, sect...), 0, 1, 'a')
	}
	return nil
}

func (g *gen) genCred(n int) {
	for c := 0; c < n; c++ {
		g.emit("RESET")
		ul, pl := 1+g.r.Intn(12), 1+g.r.Intn(12)
		if g.chance(0.1) {
			ul = g.strLen() + 1
		}
		if g.chance(0.1) {
			pl = g.strLen() + 1
		}
		// the surrounding packet, built twice from the same recorded ops
		ops := g.recordConnectOps()
		surround := func(slot string) {
			for _, o := range ops {
				g.emit("%s", strings.ReplaceAll(o, "$", slot))
			}
		}
		u1, u2 := g.bytesN(ul), g.bytesN(ul)
		p1, p2 := g.bytesN(pl), g.bytesN(pl)
		if g.chance(0.2) {
			// a secret that coincides with another field's content
			ops = append(ops, "SET $ SetClientID "+hxd(u1))
		}
		g.emit("NOTE case=cred")
		g.emit("NEW a Connect")
		surround("a")
		g.emit("SET a SetUsername %s", hx(u1))
		g.emit("SET a SetPassword %s", hx(p1))
		g.emit("NEW b Connect")
		surround("b")
		g.emit("SET b SetUsername %s", hx(u2))
		g.emit("SET b SetPassword %s", hx(p2))
		g.emit("STR a")
		g.emit("STR b")
		g.emit("DUMP a")
		g.emit("DUMP b")
		// and the decoded form: both packets through the wire, then rendered again
		g.emit("RT a")
		g.emit("RDP a da")
		g.emit("RDP b db")
		g.emit("STR da")
		g.emit("STR db")
		g.emit("DUMP da")
		g.emit("DUMP db")
		if g.chance(0.5) {
			// the same two values re-used as decode targets for a CONNECT without credentials: what they still hold
			// of the old credentials is all they differ in, so they must render alike
			body := []byte{0, 4, 'M', 'Q', 'T', 'T', 5, byte(2 * g.r.Intn(2)), 0, byte(g.r.Intn(60)), 0, 0, 1, 'c'}
			g.emit("DEC a %s", hx(body))
			g.emit("DEC b %s", hx(body))
			g.emit("STR a")
			g.emit("STR b")
			g.emit("DUMP a")
			g.emit("DUMP b")
		}
	}
}

// ops (with $ for the slot) building the non-credential part of a CONNECT
func (g *gen) recordConnectOps() []string {
	var ops []string
	if g.chance(0.4) {
		// will message in slot $w
		ops = append(ops, "NEW $w Publish", fmt.Sprintf("SET $w SetQoS %d", g.r.Intn(3)),
			"SET $w SetTopicName "+hxd(g.bytes()), "SET $w SetPayload "+hxd(g.bytes()))
		if g.chance(0.5) {
			ops = append(ops, "SET $w AddUserProp "+hxd(g.nonEmpty())+" "+hxd(g.bytes()))
		}
		ops = append(ops, "SET $ SetWill $w")
	}
	for _, s := range setters["Connect"] {
		if s.name == "SetUsername" || s.name == "SetPassword" {
			continue
		}
		if g.chance(0.4) {
			ops = append(ops, "SET $ "+s.name+" "+s.args(g))
		}
	}
	return ops
}

// a remaining length in more bytes than needed (`81 00`, `81 80 00`, `81 80 80 00`): not valid MQTT, but a frame all the
// same — whatever ReadPacket makes of it must not depend on how the bytes arrive (C07); five bytes must be rejected
func vbPadded(n uint64, width int) []byte {
	out := make([]byte, width)
	for i := 0; i < width; i++ {
		out[i] = byte(n & 127)
		n >>= 7
		if i < width-1 {
			out[i] |= 128
		}
	}
	return out
}

func (g *gen) genNonMin(n int) {
	for c := 0; c < n; c++ {
		f := g.specFrame(g.anyKind())
		if len(f.body) > 2000 {
			c--
			continue
		}
		min := len(vbEncode(uint64(len(f.body))))
		w := min + g.r.Intn(6-min) // up to five bytes
		fr := append([]byte{f.first}, vbPadded(uint64(len(f.body)), w)...)
		fr = append(fr, f.body...)
		g.emit("RESET")
		g.emit("NOTE case=comp base nonmin=%d/%d", w, min)
		g.emit("RD x %s sched=- eofwd=0 fail=eof calls=1", hx(fr))
		scheds := [][]int{{1, len(fr)}, {2, len(fr)}, {1, 1, len(fr)}, {3, len(fr)}, {1, 0, 1, len(fr)}, g.schedule(len(fr)), g.schedule(len(fr))}
		for _, sc := range scheds {
			g.emit("NOTE case=sched")
			g.emit("RD x %s sched=%s eofwd=%d fail=eof calls=1", hx(fr), schedStr(sc), g.r.Intn(2))
		}
	}
}

// property lengths at the boundaries of the variable byte integer (C15: "property length … written in the unique minimal
// form"): every packet type that has a property section, with one user property sized so that the section is exactly
// 126..129 or 16382..16385 bytes long; the frame is read by the strict specification parser (judge: js_c02's oracle)
func (g *gen) genPropLen(n int) {
	kinds := []string{"Connect", "ConnAck", "Publish", "PubAck", "PubRec", "PubRel", "PubComp", "Subscribe", "SubAck", "Unsubscribe", "UnsubAck", "Disconnect", "Auth"}
	targets := []int{126, 127, 128, 129, 16382, 16383, 16384, 16385}
	for c := 0; c < n; c++ {
		kind := kinds[c%len(kinds)]
		t := targets[(c/len(kinds))%len(targets)]
		g.emit("RESET")
		g.emit("NOTE case=proplen wf=1 kind=%s target=%d", kind, t)
		g.emit("NEW p %s", kind)
		switch kind {
		case "Publish":
			g.emit("SET p SetTopicName 74")
		case "Subscribe":
			g.emit("SET p SetPacketID 1")
			g.emit("SET p AddFilters 61 1")
		case "Unsubscribe":
			g.emit("SET p SetPacketID 1")
			g.emit("SET p AddFilter 61")
		case "SubAck", "UnsubAck":
			g.emit("SET p SetPacketID 1")
			g.emit("SET p AddReasonCode 0")
		case "PubAck", "PubRec", "PubRel", "PubComp":
			g.emit("SET p SetPacketID 1")
		}
		// identifier (1) + key length (2) + key (1) + value length (2) + value
		g.emit("SET p AddUserProp 6b %s", hxd(bytesRepeat('v', t-6)))
		g.emit("VIEW p")
		g.emit("ENC p")
	}
}

// remaining lengths at the boundaries of the variable byte integer, decoded from a real stream by ReadPacket under
// delivery schedules that split the fixed header (C15: the streaming decoder returns exactly that value and advances by
// exactly those bytes): PUBLISH frames of remaining length v, and a second frame behind to see where the first ended
func (g *gen) genVBFrame(n int) {
	vals := []int{4, 5, 126, 127, 128, 129, 255, 256, 16382, 16383, 16384, 16385}
	for c := 0; c < n; c++ {
		v := vals[c%len(vals)]
		if c >= len(vals) {
			v = 4 + g.r.Intn(20000)
		}
		if n >= 1000 && c%400 == 399 {
			v = []int{2097151, 2097152, 2097153}[g.r.Intn(3)] // four-byte form (thorough tier)
		}
		body := append([]byte{0, 1, 't', 0}, g.bytesN(v-4)...)
		fr := reframe(0x30, body)
		stream := append(append([]byte(nil), fr...), 0xc0, 0x00)
		w := len(vbEncode(uint64(v)))
		var sc []int
		switch g.r.Intn(5) {
		case 0:
			sc = []int{1, len(stream)}
		case 1:
			sc = []int{1, 1, len(stream)}
		case 2:
			sc = []int{2, len(stream)}
		case 3:
			sc = []int{1, 0, 1, 1, 1, len(stream)}
		default:
			sc = nil
		}
		if v < 3000 && g.chance(0.3) {
			sc = g.schedule(len(stream))
		}
		g.emit("RESET")
		g.emit("NOTE case=vbframe v=%d w=%d", v, w)
		g.emit("RD x %s sched=%s eofwd=%d fail=eof calls=2", hx(stream), schedStr(sc), g.r.Intn(2))
	}
}

func (g *gen) genVB(n int) {
	g.emit("RESET")
	for _, v := range vbEdges {
		for d := int64(-2); d <= 2; d++ {
			x := int64(v) + d
			if x < 0 {
				continue
			}
			g.emit("VB enc %d", x)
			g.emit("VB width %d", x)
			e := vbEncode(uint64(x))
			if x <= 268435455 {
				g.emit("VB mem %s", hx(append(e, g.smallBytes()...)))
				g.emit("VB stream %s", hx(append(e, g.smallBytes()...)))
			}
		}
	}
	g.emit("VB enc 0")
	for k := 1; k <= 9; k++ {
		for _, last := range []byte{0x00, 0x01, 0x7f, 0x80} {
			b := append(bytesRepeat(0x80, k), last)
			g.emit("VB mem %s", hx(b))
			g.emit("VB stream %s", hx(b))
			g.emit("VB mem %s", hx(b[:k]))
			g.emit("VB stream %s", hx(b[:k]))
		}
	}
	for i := 0; i < n; i++ {
		x := uint64(g.r.Int63n(268435456))
		if g.chance(0.3) {
			x = uint64(g.r.Int63n(1 << uint(1+g.r.Intn(28))))
		}
		g.emit("VB enc %d", x)
		g.emit("VB width %d", x)
		e := vbEncode(x)
		g.emit("VB mem %s", hx(append(e, g.smallBytes()...)))
		g.emit("VB stream %s", hx(append(e, g.smallBytes()...)))
		// arbitrary byte sequences, biased to continuation bytes
		l := 1 + g.r.Intn(7)
		b := make([]byte, l)
		for j := range b {
			b[j] = byte(g.r.Intn(256))
			if g.chance(0.5) {
				b[j] |= 0x80
			}
		}
		g.emit("VB mem %s", hx(b))
		g.emit("VB stream %s", hx(b))
	}
}

func bytesRepeat(b byte, n int) []byte {
	out := make([]byte, n)
	for i := range out {
		out[i] = b
	}
	return out
}

func (g *gen) genWF(n int) {
	for c := 0; c < n; c++ {
		g.emit("RESET")
		g.emit("NOTE case=wf")
		if g.chance(0.5) {
			g.lastKind = "Publish"
			g.emit("NEW p Publish")
			if g.chance(0.5) {
				g.emit("SET p SetTopicName %s", hxd(g.nonEmpty()))
			}
			if g.chance(0.5) {
				g.emit("SET p SetTopicAlias %d", 1+g.r.Intn(65535))
			}
			g.emit("SET p SetQoS %d", g.r.Intn(4))
			if g.chance(0.5) {
				g.emit("SET p SetPacketID %d", 1+g.r.Intn(65535))
			}
			g.scalarSetters("p", "Publish", 0.2, false)
		} else {
			g.lastKind = "Subscribe"
			g.emit("NEW p Subscribe")
			nf := g.r.Intn(4)
			for i := 0; i < nf; i++ {
				flt := g.nonEmpty()
				if g.chance(0.35) {
					// filters that mean something to MQTT (shared subscriptions, system topics, wildcards): the documented
					// rule looks at emptiness and the QoS bits only, whatever the string says
					flt = []byte(topicDict[g.r.Intn(len(topicDict))])
				}
				if g.chance(0.2) {
					flt = nil
				}
				g.emit("SET p AddFilters %s %d", hxd(flt), g.r.Intn(256))
			}
			if g.chance(0.6) {
				g.emit("SET p SetSubscriptionID %d", []uint64{0, 1, 268435454, 268435455, 268435456, 268435457, 4294967295}[g.r.Intn(7)])
			}
			g.scalarSetters("p", "Subscribe", 0.3, false)
		}
		g.emit("WF p")
		g.emit("STR p")
		// the same packet decoded from the wire
		g.emit("ENC p")
		g.emit("RDP p q")
		g.emit("WF q")
		g.emit("STR q")
		// the verdict is a function of the current values: change them after the packet has been judged once, and again
		for k := g.r.Intn(3); k > 0; k-- {
			if kind := g.lastKind; kind == "Publish" {
				switch g.r.Intn(4) {
				case 0:
					g.emit("SET p SetTopicName %s", hxd(g.smallBytes()))
				case 1:
					g.emit("SET p SetTopicAlias %d", g.r.Intn(2)*(1+g.r.Intn(65535)))
				case 2:
					g.emit("SET p SetQoS %d", g.r.Intn(4))
				case 3:
					g.emit("SET p SetPacketID %d", g.r.Intn(2)*(1+g.r.Intn(65535)))
				}
			} else {
				if g.chance(0.6) {
					g.emit("SET p SetSubscriptionID %d", []uint64{0, 1, 268435455, 268435456, 4294967295}[g.r.Intn(5)])
				} else {
					flt := []byte(topicDict[g.r.Intn(len(topicDict))])
					if g.chance(0.3) {
						flt = nil
					}
					g.emit("SET p AddFilters %s %d", hxd(flt), g.r.Intn(256))
				}
			}
			g.emit("WF p")
			g.emit("STR p")
			if g.chance(0.5) {
				g.emit("RDP p q")
				g.emit("WF q")
				g.emit("STR q")
			}
		}
	}
}

var topicDict = []string{"$share/g/t", "$share/workers/jobs/#", "$share/", "$share", "$SYS/#", "$SYS/broker/load", "#", "+", "a/+/b",
	"/", "a/b", "sport/tennis/player1/#", "+/+", "$shared/x"}

// frames that decode but are not well formed by MQTT's rules (SUBSCRIBE with an empty filter or QoS 3 in the options,
// PUBLISH with no topic and no alias, with QoS 3, with packet identifier 0), and their well-formed neighbours, through
// ReadPacket: decodable is decodable — one of packet and error, whatever WellFormed says (C04)
func (g *gen) genWFRD(n int) {
	for c := 0; c < n; c++ {
		var fr []byte
		if g.chance(0.5) {
			body := []byte{byte(g.r.Intn(256)), byte(g.r.Intn(256)), 0}
			for k := 1 + g.r.Intn(3); k > 0; k-- {
				flt := g.bytesN(g.r.Intn(5))
				if g.chance(0.4) {
					flt = nil
				}
				body = append(body, encStr(flt)...)
				body = append(body, byte(g.r.Intn(8))|byte(g.r.Intn(2))<<5)
			}
			fr = reframe(0x82, body)
		} else {
			qos := g.r.Intn(4)
			var body []byte
			if g.chance(0.5) {
				body = encStr(nil)
			} else {
				body = encStr(g.nonEmpty())
			}
			if qos > 0 {
				pid := g.r.Intn(3)
				body = append(body, 0, byte(pid))
			}
			if g.chance(0.5) {
				body = append(body, 3, 0x23, 0, byte(g.r.Intn(3)))
			} else {
				body = append(body, 0)
			}
			body = append(body, g.smallBytes()...)
			fr = reframe(0x30|byte(qos<<1)|byte(g.r.Intn(2))|byte(g.r.Intn(2)<<3), body)
		}
		g.emit("RESET")
		g.emit("NOTE case=wfrd")
		g.emit("RD x %s sched=- eofwd=0 fail=eof calls=1", hx(fr))
		g.emit("WF x")
		g.emit("STR x")
	}
}

func (g *gen) genRender(n int) {
	for b := 0; b < 256; b++ {
		g.emit("RESET")
		g.emit("NOTE case=render b=%d", b)
		// reason code through every type that renders it
		for _, k := range []string{"ConnAck", "PubAck", "PubRec", "PubRel", "PubComp", "Disconnect", "Auth"} {
			g.emit("NEW p %s", k)
			g.emit("SET p SetReasonCode %d", b)
			if g.chance(0.5) {
				g.emit("SET p SetReasonString %s", hxd(g.smallBytes()))
			}
			g.emit("STR p")
			g.emit("DUMP p")
		}
		// first byte: a decoded packet with first byte b (remaining length 0)
		g.emit("RD x %s sched=- eofwd=0 fail=eof calls=1", hx([]byte{byte(b), 0}))
		g.emit("STR x")
		g.emit("DUMP x")
		// CONNECT flags byte b, decoded (body: name, version, flags, keep alive, no properties, client id, will?, user?, pass?)
		body := []byte{0, 4, 'M', 'Q', 'T', 'T', 5, byte(b), 0, 10, 0, 0, 1, 'c'}
		if b&4 != 0 {
			body = append(body, 0, 0, 1, 't', 0, 1, 'p')
		}
		if b&128 != 0 {
			body = append(body, 0, 1, 'u')
		}
		if b&64 != 0 {
			body = append(body, 0, 1, 'w')
		}
		g.emit("RD x %s sched=- eofwd=0 fail=eof calls=1", hx(reframe(0x10, body)))
		g.emit("STR x")
		g.emit("DUMP x")
		// CONNACK flags byte b
		g.emit("RD x %s sched=- eofwd=0 fail=eof calls=1", hx([]byte{0x20, 3, byte(b), 0, 0}))
		g.emit("STR x")
		g.emit("DUMP x")
		// subscription options byte b
		g.emit("NEW s Subscribe")
		g.emit("SET s AddFilters 61 %d", b)
		g.emit("STR s")
		g.emit("DUMP s")
		g.emit("WF s")
	}
	// subscription identifiers far outside the MQTT range: every value an `int` argument can take is a packet value
	// a program can hold (a negative argument is stored as a 64-bit unsigned number with the top bit set)
	for _, v := range []string{"-1", "-2", "-128", "-4611686018427387904", "-9223372036854775808", "4611686018427387904",
		"9223372036854775807", "268435456", "4294967296"} {
		g.emit("RESET")
		g.emit("NOTE case=render subid=%s", v)
		g.emit("NEW s Subscribe")
		g.emit("SET s AddFilters 61 1")
		g.emit("SET s SetSubscriptionID %s", v)
		g.emit("STR s")
		g.emit("DUMP s")
		g.emit("WF s")
		g.emit("ENC s")
	}
}
