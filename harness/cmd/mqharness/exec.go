package main

// exec.go — executes op lines (DESIGN.md §9) against the real library, in-process.
// One result line per op line. Panics are recovered per op; the parent process (see main.go)
// supplies the watchdog for ops that do not return.

import (
	"bufio"
	"bytes"
	"encoding/hex"
	"errors"
	"fmt"
	"io"
	"os"
	"runtime"
	"reflect"
	"strconv"
	"strings"

	"github.com/gregoryv/mq"
)

type slotT struct {
	p       mq.ControlPacket
	lastDec []byte // the slice last handed to UnmarshalBinary (for SCRIBBLE)
	// tainted: the packet was the target of a failed UnmarshalBinary, which leaves it partly
	// modified in a way the model does not track; only "returns normally" is reported then.
	tainted bool
}

type executor struct {
	slots map[string]*slotT
}

func newExecutor() *executor { return &executor{slots: map[string]*slotT{}} }

var kindNames = []string{"Undefined", "Connect", "ConnAck", "Publish", "PubAck", "PubRec", "PubRel",
	"PubComp", "Subscribe", "SubAck", "Unsubscribe", "UnsubAck", "PingReq", "PingResp", "Disconnect", "Auth"}

func newPacket(kind string) mq.ControlPacket {
	switch kind {
	case "Connect":
		return mq.NewConnect()
	case "ConnAck":
		return mq.NewConnAck()
	case "Publish":
		return mq.NewPublish()
	case "PubAck":
		return mq.NewPubAck()
	case "PubRec":
		return mq.NewPubRec()
	case "PubRel":
		return mq.NewPubRel()
	case "PubComp":
		return mq.NewPubComp()
	case "Subscribe":
		return mq.NewSubscribe()
	case "SubAck":
		return mq.NewSubAck()
	case "Unsubscribe":
		return mq.NewUnsubscribe()
	case "UnsubAck":
		return mq.NewUnsubAck()
	case "PingReq":
		return mq.NewPingReq()
	case "PingResp":
		return mq.NewPingResp()
	case "Disconnect":
		return mq.NewDisconnect()
	case "Auth":
		return mq.NewAuth()
	case "Undefined":
		return &mq.Undefined{}
	}
	return nil
}

func zeroPacket(kind string) mq.ControlPacket {
	switch kind {
	case "Connect":
		return &mq.Connect{}
	case "ConnAck":
		return &mq.ConnAck{}
	case "Publish":
		return &mq.Publish{}
	case "PubAck":
		return &mq.PubAck{}
	case "PubRec":
		return &mq.PubRec{}
	case "PubRel":
		return &mq.PubRel{}
	case "PubComp":
		return &mq.PubComp{}
	case "Subscribe":
		return &mq.Subscribe{}
	case "SubAck":
		return &mq.SubAck{}
	case "Unsubscribe":
		return &mq.Unsubscribe{}
	case "UnsubAck":
		return &mq.UnsubAck{}
	case "PingReq":
		return &mq.PingReq{}
	case "PingResp":
		return &mq.PingResp{}
	case "Disconnect":
		return &mq.Disconnect{}
	case "Auth":
		return &mq.Auth{}
	case "Undefined":
		return &mq.Undefined{}
	}
	return nil
}

func kindOf(p mq.ControlPacket) string {
	t := reflect.TypeOf(p)
	if t.Kind() == reflect.Ptr {
		t = t.Elem()
	}
	return t.Name()
}

func unhex(s string) ([]byte, bool) {
	if s == "-" {
		return nil, true
	}
	b, err := hex.DecodeString(s)
	return b, err == nil
}

func hx(b []byte) string { return hex.EncodeToString(b) }
func hxd(b []byte) string {
	if len(b) == 0 {
		return "-"
	}
	return hex.EncodeToString(b)
}

// ---------------------------------------------------------------- view

type vw struct{ sb strings.Builder }

func (v *vw) sep() {
	if v.sb.Len() > 0 {
		v.sb.WriteByte(';')
	}
}
func (v *vw) n(name string, x uint64)  { v.sep(); fmt.Fprintf(&v.sb, "%s=%d", name, x) }
func (v *vw) i(name string, x int)     { v.sep(); fmt.Fprintf(&v.sb, "%s=%d", name, x) }
func (v *vw) b(name string, x bool)    { v.sep(); fmt.Fprintf(&v.sb, "%s=%v", name, x) }
func (v *vw) s(name string, x []byte)  { v.sep(); fmt.Fprintf(&v.sb, "%s=x%s", name, hx(x)) }
func (v *vw) str(name string, x string) { v.s(name, []byte(x)) }
func (v *vw) ups(name string, x mq.UserProperties) {
	v.sep()
	parts := make([]string, len(x))
	for i, kv := range x {
		parts[i] = hx([]byte(kv[0])) + ":" + hx([]byte(kv[1]))
	}
	fmt.Fprintf(&v.sb, "%s=[%s]", name, strings.Join(parts, ","))
}
func (v *vw) nats(name string, x []uint32) {
	v.sep()
	parts := make([]string, len(x))
	for i, n := range x {
		parts[i] = strconv.FormatUint(uint64(n), 10)
	}
	fmt.Fprintf(&v.sb, "%s=[%s]", name, strings.Join(parts, ","))
}

func flagsOf(has func(byte) bool) uint64 {
	var f uint64
	for i := 0; i < 8; i++ {
		if has(1 << i) {
			f |= 1 << i
		}
	}
	return f
}

func viewPublish(v *vw, pre string, p *mq.Publish) {
	v.str(pre+"ContentType", p.ContentType())
	v.s(pre+"CorrelationData", p.CorrelationData())
	v.b(pre+"Duplicate", p.Duplicate())
	v.n(pre+"MessageExpiryInterval", uint64(p.MessageExpiryInterval()))
	v.n(pre+"PacketID", uint64(p.PacketID()))
	v.s(pre+"Payload", p.Payload())
	v.b(pre+"PayloadFormat", p.PayloadFormat())
	v.n(pre+"QoS", uint64(p.QoS()))
	v.str(pre+"ResponseTopic", p.ResponseTopic())
	v.b(pre+"Retain", p.Retain())
	v.nats(pre+"SubscriptionIDs", p.SubscriptionIDs())
	v.n(pre+"TopicAlias", uint64(p.TopicAlias()))
	v.str(pre+"TopicName", p.TopicName())
	v.ups(pre+"UserProperties", p.UserProperties)
}

type ackLike interface {
	PacketID() uint16
	ReasonCode() mq.ReasonCode
	ReasonString() string
}

// optional accessors (added by a repair; absent at the pinned commit)
func optString(p interface{}, name string) string {
	m := reflect.ValueOf(p).MethodByName(name)
	if !m.IsValid() {
		return ""
	}
	return m.Call(nil)[0].String()
}
func optUint(p interface{}, name string) uint64 {
	m := reflect.ValueOf(p).MethodByName(name)
	if !m.IsValid() {
		return 0
	}
	return m.Call(nil)[0].Uint()
}

func viewOf(p mq.ControlPacket) string {
	v := &vw{}
	switch p := p.(type) {
	case *mq.Connect:
		v.s("AuthData", p.AuthData())
		v.str("AuthMethod", p.AuthMethod())
		v.b("CleanStart", p.CleanStart())
		v.str("ClientID", p.ClientID())
		v.n("Flags", flagsOf(p.HasFlag))
		v.n("KeepAlive", uint64(p.KeepAlive()))
		v.n("MaxPacketSize", uint64(p.MaxPacketSize()))
		v.s("Password", p.Password())
		v.str("ProtocolName", p.ProtocolName())
		v.n("ProtocolVersion", uint64(p.ProtocolVersion()))
		v.n("ReceiveMax", uint64(p.ReceiveMax()))
		v.b("RequestProblemInfo", p.RequestProblemInfo())
		v.b("RequestResponseInfo", p.RequestResponseInfo())
		v.n("SessionExpiryInterval", uint64(p.SessionExpiryInterval()))
		v.n("TopicAliasMax", uint64(p.TopicAliasMax()))
		v.ups("UserProperties", p.UserProperties)
		v.str("Username", p.Username())
		v.b("Will", p.Will() != nil)
		v.n("WillDelayInterval", uint64(p.WillDelayInterval()))
		if w := p.Will(); w != nil {
			viewPublish(v, "Will.", w)
		}
	case *mq.ConnAck:
		v.str("AssignedClientID", p.AssignedClientID())
		v.s("AuthData", p.AuthData())
		v.str("AuthMethod", p.AuthMethod())
		v.n("Flags", flagsOf(p.HasFlag))
		v.n("MaxPacketSize", uint64(p.MaxPacketSize()))
		v.n("MaxQoS", uint64(p.MaxQoS()))
		v.n("ReasonCode", uint64(p.ReasonCode()))
		v.str("ReasonString", p.ReasonString())
		v.n("ReceiveMax", uint64(p.ReceiveMax()))
		v.str("ResponseInformation", p.ResponseInformation())
		v.b("RetainAvailable", p.RetainAvailable())
		v.n("ServerKeepAlive", uint64(p.ServerKeepAlive()))
		v.str("ServerReference", p.ServerReference())
		v.n("SessionExpiryInterval", uint64(p.SessionExpiryInterval()))
		v.b("SessionPresent", p.SessionPresent())
		v.b("SharedSubAvailable", p.SharedSubAvailable())
		v.b("SubIdentifiersAvailable", p.SubIdentifiersAvailable())
		v.n("TopicAliasMax", uint64(p.TopicAliasMax()))
		v.ups("UserProperties", p.UserProperties)
		v.b("WildcardSubAvailable", p.WildcardSubAvailable())
	case *mq.Publish:
		viewPublish(v, "", p)
	case *mq.PubAck:
		viewAck(v, p, p.UserProperties)
	case *mq.PubRec:
		viewAck(v, p, p.UserProperties)
	case *mq.PubRel:
		viewAck(v, p, p.UserProperties)
	case *mq.PubComp:
		viewAck(v, p, p.UserProperties)
	case *mq.Subscribe:
		v.sep()
		fs := p.Filters()
		parts := make([]string, len(fs))
		for i := range fs {
			parts[i] = fmt.Sprintf("x%s/%d", hx([]byte(fs[i].Filter())), byte(fs[i].Options()))
		}
		fmt.Fprintf(&v.sb, "Filters=[%s]", strings.Join(parts, ","))
		v.n("PacketID", uint64(p.PacketID()))
		v.i("SubscriptionID", p.SubscriptionID())
		v.ups("UserProperties", p.UserProperties)
	case *mq.SubAck:
		v.n("PacketID", uint64(p.PacketID()))
		v.s("ReasonCodes", p.ReasonCodes())
		v.str("ReasonString", p.ReasonString())
		v.ups("UserProperties", p.UserProperties)
	case *mq.UnsubAck:
		v.n("PacketID", uint64(p.PacketID()))
		v.s("ReasonCodes", p.ReasonCodes())
		v.str("ReasonString", p.ReasonString())
		v.ups("UserProperties", p.UserProperties)
	case *mq.Unsubscribe:
		v.sep()
		fs := p.Filters()
		parts := make([]string, len(fs))
		for i := range fs {
			parts[i] = "x" + hx([]byte(fs[i]))
		}
		fmt.Fprintf(&v.sb, "Filters=[%s]", strings.Join(parts, ","))
		v.n("PacketID", uint64(p.PacketID()))
		v.ups("UserProperties", p.UserProperties)
	case *mq.Disconnect:
		v.n("ReasonCode", uint64(p.ReasonCode()))
		v.str("ReasonString", optString(p, "ReasonString"))
		v.str("ServerReference", optString(p, "ServerReference"))
		v.n("SessionExpiryInterval", optUint(p, "SessionExpiryInterval"))
		v.ups("UserProperties", p.UserProperties)
	case *mq.Auth:
		v.s("AuthData", p.AuthData())
		v.str("AuthMethod", p.AuthMethod())
		v.n("ReasonCode", uint64(p.ReasonCode()))
		v.str("ReasonString", p.ReasonString())
		v.ups("UserProperties", p.UserProperties)
	case *mq.Undefined:
		v.s("Data", p.Data())
	case *mq.PingReq, *mq.PingResp:
	}
	return v.sb.String()
}

func viewAck(v *vw, p ackLike, ups mq.UserProperties) {
	v.n("PacketID", uint64(p.PacketID()))
	v.n("ReasonCode", uint64(p.ReasonCode()))
	v.str("ReasonString", p.ReasonString())
	v.ups("UserProperties", ups)
}

func viewLine(p mq.ControlPacket) string { return kindOf(p) + " " + viewOf(p) }

// a writer that is nothing but an io.Writer
type plainWriter struct{ b []byte }

func (w *plainWriter) Write(p []byte) (int, error) {
	w.b = append(w.b, p...)
	return len(p), nil
}

func trunc(s string, n int) string {
	if len(s) > n {
		return s[:n] + "…"
	}
	return s
}

// one ReadPacket through a reader of the standard library, rendered like the RD op renders it
func readThrough(kind string, d []byte, _ bool) (out string) {
	defer func() {
		if rec := recover(); rec != nil {
			out = "panic c=0"
		}
	}()
	var r io.Reader
	left := func() int { return 0 }
	switch kind {
	case "bytes.Reader":
		br := bytes.NewReader(append([]byte(nil), d...))
		r, left = br, br.Len
	case "bytes.Buffer":
		bb := bytes.NewBuffer(append([]byte(nil), d...))
		r, left = bb, bb.Len
	case "strings.Reader":
		sr := strings.NewReader(string(d))
		r, left = sr, sr.Len
	default:
		r = bufio.NewReaderSize(bytes.NewReader(append([]byte(nil), d...)), 16)
	}
	p, err := mq.ReadPacket(r)
	c := len(d) - left()
	switch {
	case p != nil && err == nil:
		return fmt.Sprintf("pkt %s c=%d", viewLine(p), c)
	case p == nil && err != nil:
		return fmt.Sprintf("err eof=%s ueof=%s fail=0 c=%d", b01(errors.Is(err, io.EOF)), b01(errors.Is(err, io.ErrUnexpectedEOF)), c)
	}
	return fmt.Sprintf("FAIL xor p=%v err=%v c=%d", p != nil, err != nil, c)
}

// bytes allocated so far (C05: "bytes allocated during the call")
func allocated() uint64 {
	var m runtime.MemStats
	runtime.ReadMemStats(&m)
	return m.TotalAlloc
}

// allocLimit is what a decode of `input` bytes declaring `declared` bytes may allocate before it is reported as not
// proportional: the unchanged decoder needs at most about 40 bytes per input byte (a user property of five bytes
// becomes a 32-byte element of a slice grown by doubling) plus the frame buffer of the declared size.
func allocLimit(input, declared int) uint64 {
	return 1<<20 + 512*uint64(input) + 2*uint64(declared)
}

// the remaining length a frame declares, 0 if its fixed header is incomplete or malformed
func declaredLen(d []byte) int {
	v, m := 0, 1
	for i := 1; i < len(d) && i <= 4; i++ {
		v += int(d[i]&127) * m
		if d[i]&128 == 0 {
			return v
		}
		m *= 128
	}
	return 0
}

// number of list elements a packet holds (C05)
func listElements(p mq.ControlPacket) int {
	switch p := p.(type) {
	case *mq.Connect:
		n := len(p.UserProperties)
		if w := p.Will(); w != nil {
			n += len(w.UserProperties) + len(w.SubscriptionIDs())
		}
		return n
	case *mq.ConnAck:
		return len(p.UserProperties)
	case *mq.Publish:
		return len(p.UserProperties) + len(p.SubscriptionIDs())
	case *mq.PubAck:
		return len(p.UserProperties)
	case *mq.PubRec:
		return len(p.UserProperties)
	case *mq.PubRel:
		return len(p.UserProperties)
	case *mq.PubComp:
		return len(p.UserProperties)
	case *mq.Subscribe:
		return len(p.UserProperties) + len(p.Filters())
	case *mq.SubAck:
		return len(p.UserProperties) + len(p.ReasonCodes())
	case *mq.UnsubAck:
		return len(p.UserProperties) + len(p.ReasonCodes())
	case *mq.Unsubscribe:
		return len(p.UserProperties) + len(p.Filters())
	case *mq.Disconnect:
		return len(p.UserProperties)
	case *mq.Auth:
		return len(p.UserProperties)
	}
	return 0
}

// ---------------------------------------------------------------- setters through reflection

func (e *executor) callSetter(p mq.ControlPacket, name string, args []string) (res string) {
	m := reflect.ValueOf(p).MethodByName(name)
	if !m.IsValid() {
		return "bad-op"
	}
	t := m.Type()
	var in []reflect.Value
	conv := func(pt reflect.Type, a string) (reflect.Value, bool) {
		switch pt.Kind() {
		case reflect.String:
			b, ok := unhex(a)
			return reflect.ValueOf(string(b)).Convert(pt), ok
		case reflect.Slice: // []byte
			b, ok := unhex(a)
			if b == nil {
				b = []byte{}
			}
			return reflect.ValueOf(b).Convert(pt), ok
		case reflect.Bool:
			return reflect.ValueOf(a == "true").Convert(pt), a == "true" || a == "false"
		case reflect.Uint8, reflect.Uint16, reflect.Uint32, reflect.Uint64, reflect.Uint:
			n, err := strconv.ParseUint(a, 10, 64)
			return reflect.ValueOf(n).Convert(pt), err == nil
		case reflect.Int, reflect.Int64, reflect.Int32:
			n, err := strconv.ParseInt(a, 10, 64)
			return reflect.ValueOf(n).Convert(pt), err == nil
		case reflect.Ptr: // *Publish by slot
			s, ok := e.slots[a]
			if !ok {
				return reflect.Value{}, false
			}
			pub, ok := s.p.(*mq.Publish)
			return reflect.ValueOf(pub), ok
		}
		return reflect.Value{}, false
	}
	if t.IsVariadic() {
		fixed := t.NumIn() - 1
		if len(args) < fixed {
			return "bad-op"
		}
		for i := 0; i < fixed; i++ {
			v, ok := conv(t.In(i), args[i])
			if !ok {
				return "bad-op"
			}
			in = append(in, v)
		}
		et := t.In(fixed).Elem()
		rest := args[fixed:]
		if et == reflect.TypeOf(mq.TopicFilter{}) {
			if len(rest)%2 != 0 {
				return "bad-op"
			}
			for i := 0; i < len(rest); i += 2 {
				f, ok := unhex(rest[i])
				o, err := strconv.ParseUint(rest[i+1], 10, 8)
				if !ok || err != nil {
					return "bad-op"
				}
				in = append(in, reflect.ValueOf(mq.NewTopicFilter(string(f), mq.Opt(o))))
			}
		} else {
			if name == "AddUserProp" && (len(rest) < 2 || len(rest)%2 != 0) {
				return "bad-op" // one variadic call with one or more key/value pairs
			}
			for _, a := range rest {
				v, ok := conv(et, a)
				if !ok {
					return "bad-op"
				}
				in = append(in, v)
			}
		}
	} else {
		if len(args) != t.NumIn() {
			return "bad-op"
		}
		for i := 0; i < t.NumIn(); i++ {
			v, ok := conv(t.In(i), args[i])
			if !ok {
				return "bad-op"
			}
			in = append(in, v)
		}
	}
	m.Call(in)
	return "ok"
}

// ---------------------------------------------------------------- scripted reader / writer

var errInjected = errors.New("injected transport failure")

type scriptReader struct {
	data     []byte
	sched    []int
	eofwd    bool
	fail     error
	consumed int
}

func (r *scriptReader) Read(p []byte) (int, error) {
	if len(p) == 0 {
		return 0, nil
	}
	if len(r.data) == 0 {
		return 0, r.fail
	}
	c := len(p)
	if len(r.sched) > 0 {
		if r.sched[0] < c {
			c = r.sched[0]
		}
		r.sched = r.sched[1:]
	}
	if c > len(r.data) {
		c = len(r.data)
	}
	copy(p, r.data[:c])
	r.data = r.data[c:]
	r.consumed += c
	if len(r.data) == 0 && r.eofwd && c > 0 {
		return c, r.fail
	}
	return c, nil
}

type scriptWriter struct {
	accept int // -1 = all
	err    error
	calls  [][]byte
}

func (w *scriptWriter) Write(p []byte) (int, error) {
	w.calls = append(w.calls, append([]byte(nil), p...))
	n := len(p)
	if w.accept >= 0 && w.accept < n {
		n = w.accept
	}
	return n, w.err
}

func kvArg(key string, toks []string) (string, bool) {
	for _, t := range toks {
		if strings.HasPrefix(t, key+"=") {
			return t[len(key)+1:], true
		}
	}
	return "", false
}

func b01(b bool) string {
	if b {
		return "1"
	}
	return "0"
}

// ---------------------------------------------------------------- ops

func (e *executor) roundTrip(p mq.ControlPacket) string {
	var buf bytes.Buffer
	if _, err := p.WriteTo(&buf); err != nil {
		return "rt FAIL refuse"
	}
	first := append([]byte(nil), buf.Bytes()...)
	q, err := mq.ReadPacket(&buf)
	if err != nil {
		return "rt FAIL err"
	}
	if kindOf(q) != kindOf(p) {
		return "rt FAIL kind"
	}
	if viewOf(q) != viewOf(p) {
		return "rt FAIL view"
	}
	var buf2 bytes.Buffer
	if _, err := q.WriteTo(&buf2); err != nil || !bytes.Equal(buf2.Bytes(), first) {
		return "rt FAIL reencode"
	}
	if buf.Len() != 0 {
		return "rt FAIL leftover"
	}
	// the same bytes handed over the way a connection may hand them over: everything, together with io.EOF, in
	// the last Read; and one byte at a time
	for _, r := range []io.Reader{&allAtOnceEOF{data: first}, &oneByte{data: first}} {
		q2, err := mq.ReadPacket(r)
		if err != nil || q2 == nil {
			return "rt FAIL err (other reader)"
		}
		if kindOf(q2) != kindOf(p) || viewOf(q2) != viewOf(p) {
			return "rt FAIL view (other reader)"
		}
	}
	return "rt ok"
}

// allAtOnceEOF returns as much as fits and, with the last bytes, io.EOF in the same call
type allAtOnceEOF struct{ data []byte }

func (r *allAtOnceEOF) Read(p []byte) (int, error) {
	n := copy(p, r.data)
	r.data = r.data[n:]
	if len(r.data) == 0 {
		return n, io.EOF
	}
	return n, nil
}

type oneByte struct{ data []byte }

func (r *oneByte) Read(p []byte) (int, error) {
	if len(r.data) == 0 {
		return 0, io.EOF
	}
	if len(p) == 0 {
		return 0, nil
	}
	p[0] = r.data[0]
	r.data = r.data[1:]
	return 1, nil
}

func (e *executor) exec(line string) (res string) {
	toks := strings.Fields(line)
	if len(toks) == 0 {
		return ""
	}
	tag := strings.ToLower(toks[0])
	defer func() {
		if r := recover(); r != nil {
			res = tag + " panic"
		}
	}()
	switch toks[0] {
	case "RESET":
		e.slots = map[string]*slotT{}
		return "ok"
	case "NOTE":
		return "note"
	case "NEW", "ZERO":
		if len(toks) != 3 {
			return "bad-op"
		}
		var p mq.ControlPacket
		if toks[0] == "NEW" {
			p = newPacket(toks[2])
		} else {
			p = zeroPacket(toks[2])
		}
		if p == nil {
			return "bad-op"
		}
		e.slots[toks[1]] = &slotT{p: p}
		return "ok"
	}
	if toks[0] == "VB" {
		return execVB(toks)
	}
	if len(toks) < 2 {
		return "bad-op"
	}
	s, ok := e.slots[toks[1]]
	if !ok && toks[0] != "RD" {
		return "bad-op"
	}
	switch toks[0] {
	case "SET":
		if len(toks) < 3 {
			return "bad-op"
		}
		return e.callSetter(s.p, toks[2], toks[3:])
	case "VIEW":
		if s.tainted {
			viewLine(s.p)
			return "view ok"
		}
		return "view " + viewLine(s.p)
	case "ENC":
		var buf bytes.Buffer
		n, err := s.p.WriteTo(&buf)
		if s.tainted {
			return "enc ok"
		}
		// the same packet into writers that offer less, or more, than *bytes.Buffer does (only Write; a bufio.Writer
		// with its ReadFrom/WriteString/WriteByte): the frame and the count must not depend on the kind of writer
		var plain plainWriter
		n2, err2 := s.p.WriteTo(&plain)
		var under bytes.Buffer
		bw := bufio.NewWriterSize(&under, 64)
		n3, err3 := s.p.WriteTo(bw)
		bw.Flush()
		if !bytes.Equal(plain.b, buf.Bytes()) || n2 != n || (err2 != nil) != (err != nil) {
			return fmt.Sprintf("enc FAIL writer=plain wrote %s n=%d err=%v where *bytes.Buffer got %s n=%d", trunc(hxd(plain.b), 120), n2, err2 != nil, trunc(hxd(buf.Bytes()), 120), n)
		}
		if !bytes.Equal(under.Bytes(), buf.Bytes()) || n3 != n || (err3 != nil) != (err != nil) {
			return fmt.Sprintf("enc FAIL writer=bufio.Writer wrote %s n=%d err=%v where *bytes.Buffer got %s n=%d", trunc(hxd(under.Bytes()), 120), n3, err3 != nil, trunc(hxd(buf.Bytes()), 120), n)
		}
		return fmt.Sprintf("enc %s n=%d err=%s", hxd(buf.Bytes()), n, b01(err != nil))
	case "DEC":
		if len(toks) != 3 {
			return "bad-op"
		}
		d, ok := unhex(toks[2])
		if !ok {
			return "bad-op"
		}
		if d == nil {
			d = []byte{}
		}
		s.lastDec = d
		wasTainted := s.tainted
		before := listElements(s.p)
		s.tainted = true // stays set if the call below panics
		a0 := allocated()
		err := s.p.UnmarshalBinary(d)
		if a := allocated() - a0; a > allocLimit(len(d), 0) {
			return fmt.Sprintf("dec FAIL alloc=%d input=%d", a, len(d))
		}
		if err != nil {
			return "dec err"
		}
		s.tainted = wasTainted
		if listElements(s.p)-before > len(d) {
			return "dec FAIL elems"
		}
		if s.tainted {
			return "dec ok"
		}
		return "dec ok " + viewLine(s.p)
	case "RD":
		if len(toks) < 3 {
			return "bad-op"
		}
		d, ok := unhex(toks[2])
		schedS, ok1 := kvArg("sched", toks[3:])
		ew, ok2 := kvArg("eofwd", toks[3:])
		fl, ok3 := kvArg("fail", toks[3:])
		callsS, ok4 := kvArg("calls", toks[3:])
		if !ok || !ok1 || !ok2 || !ok3 || !ok4 {
			return "bad-op"
		}
		r := &scriptReader{data: append([]byte(nil), d...), eofwd: ew == "1", fail: io.EOF}
		if schedS != "-" {
			for _, x := range strings.Split(schedS, ",") {
				n, err := strconv.Atoi(x)
				if err != nil {
					return "bad-op"
				}
				r.sched = append(r.sched, n)
			}
		}
		custom := false
		if strings.HasPrefix(fl, "E") {
			r.fail = fmt.Errorf("transport %s: %w", fl, errInjected)
			custom = true
		} else if fl != "eof" {
			return "bad-op"
		}
		calls, err := strconv.Atoi(callsS)
		if err != nil {
			return "bad-op"
		}
		var outs []string
		for i := 0; i < calls; i++ {
			before := r.consumed
			out, stop := func() (out string, stop bool) {
				defer func() {
					if rec := recover(); rec != nil {
						out, stop = "panic", true
					}
				}()
				left := len(d) - before // what the stream still holds when the call starts
				declared := 0
				if left > 0 {
					declared = declaredLen(d[before:])
				}
				a0 := allocated()
				p, err := mq.ReadPacket(r)
				a := allocated() - a0
				c := r.consumed - before
				if a > allocLimit(left, declared) {
					return fmt.Sprintf("FAIL alloc=%d input=%d declared=%d", a, left, declared), true
				}
				switch {
				case p != nil && err == nil:
					if s == nil {
						s = &slotT{}
						e.slots[toks[1]] = s
					}
					s.p = p
					s.tainted = false
					return fmt.Sprintf("pkt %s c=%d", viewLine(p), c), false
				case p == nil && err != nil:
					return fmt.Sprintf("err eof=%s ueof=%s fail=%s c=%d", b01(errors.Is(err, io.EOF)),
						b01(errors.Is(err, io.ErrUnexpectedEOF)), b01(custom && errors.Is(err, errInjected)), c), false
				default:
					return fmt.Sprintf("FAIL xor p=%v err=%v c=%d", p != nil, err != nil, c), false
				}
			}()
			outs = append(outs, out)
			if stop {
				break
			}
		}
		if calls == 1 && schedS == "-" && !custom && len(outs) == 1 && !strings.HasPrefix(outs[0], "FAIL") && outs[0] != "panic" {
			// "through any reader": the same bytes through the standard library's readers, which offer more than Read
			// (io.ByteReader, io.WriterTo, io.Seeker, ReadAt, a look-ahead buffer) — what ReadPacket returns and how far it
			// reads must not depend on what else the reader can do
			want := outs[0]
			for _, kind := range []string{"bytes.Reader", "bytes.Buffer", "bufio.Reader", "strings.Reader"} {
				got := readThrough(kind, d, ew == "1")
				w := want
				if kind == "bufio.Reader" { // reads ahead: the count is not observable
					w = w[:strings.LastIndex(w, " c=")]
					got = got[:strings.LastIndex(got, " c=")]
				}
				if got != w {
					return fmt.Sprintf("rd FAIL reader=%s gives `%s` where a plain io.Reader gives `%s`", kind, trunc(got, 160), trunc(want, 160))
				}
			}
		}
		return "rd " + strings.Join(outs, " || ")
	case "WR":
		acc, ok1 := kvArg("accept", toks[2:])
		es, ok2 := kvArg("err", toks[2:])
		if !ok1 || !ok2 {
			return "bad-op"
		}
		w := &scriptWriter{accept: -1}
		if acc != "all" {
			n, err := strconv.Atoi(acc)
			if err != nil {
				return "bad-op"
			}
			w.accept = n
		}
		if es != "0" {
			w.err = fmt.Errorf("writer %s: %w", es, errInjected)
		}
		n, err := s.p.WriteTo(w)
		if s.tainted {
			return "wr ok"
		}
		offs := make([]string, len(w.calls))
		for i, c := range w.calls {
			offs[i] = hx(c)
		}
		errS := "none"
		if err != nil {
			if w.err != nil && errors.Is(err, errInjected) {
				errS = "w"
			} else {
				errS = "other"
			}
		}
		return fmt.Sprintf("wr calls=%d off=%s n=%d err=%s", len(w.calls), strings.Join(offs, ","), n, errS)
	case "STR":
		str := s.p.String()
		if s.tainted {
			return "str ok"
		}
		return "str " + hxd([]byte(str))
	case "DUMP":
		var buf bytes.Buffer
		mq.Dump(&buf, s.p)
		if s.tainted {
			return "dump ok"
		}
		return "dump " + hxd(buf.Bytes())
	case "WF":
		wf, ok := s.p.(mq.HasWellFormed)
		if s.tainted {
			if ok {
				wf.WellFormed()
			}
			return "wf ok"
		}
		if !ok {
			return "wf n/a"
		}
		m := wf.WellFormed()
		if m == nil {
			return "wf nil"
		}
		// *Malformed has no accessors for ref/reason; Error() is "malformed <type>: <ref> <reason>"
		msg := m.Error()
		if i := strings.Index(msg, ":"); i >= 0 {
			msg = strings.TrimSpace(msg[i+1:])
		}
		return "wf " + strings.ReplaceAll(msg, " ", "_")
	case "FCOPY":
		// FCOPY <slot> <i> <hex> <opt>: a TopicFilter value copied out of a SUBSCRIBE (`f := p.Filters()[i]`, or the
		// copy AddFilters makes into a second packet) and modified through its setters — the packet it came from
		// must not notice
		if len(toks) != 5 {
			return "bad-op"
		}
		sub, ok := s.p.(*mq.Subscribe)
		idx, err1 := strconv.Atoi(toks[2])
		v, ok2 := unhex(toks[3])
		opt, err2 := strconv.Atoi(toks[4])
		if !ok || err1 != nil || !ok2 || err2 != nil {
			return "bad-op"
		}
		if fs := sub.Filters(); idx < len(fs) {
			f := fs[idx]
			f.SetFilter(string(v))
			f.SetOptions(mq.Opt(opt))
			other := mq.NewSubscribe()
			other.AddFilters(fs...)
			if of := other.Filters(); idx < len(of) {
				of[idx].SetFilter(string(v))
				of[idx].SetOptions(mq.Opt(opt))
			}
		}
		return "ok"
	case "SCRIBBLE":
		for i := range s.lastDec {
			s.lastDec[i] ^= 0xff
		}
		return "ok"
	case "RT":
		if s.tainted {
			return "rt ok"
		}
		return e.roundTrip(s.p)
	case "RDP":
		// RDP <src> <dst>: dst := ReadPacket(WriteTo(src)) — the wire-decoded form of src
		if len(toks) != 3 || s.tainted {
			return "bad-op"
		}
		var buf bytes.Buffer
		if _, err := s.p.WriteTo(&buf); err != nil {
			return "rdp err"
		}
		q, err := mq.ReadPacket(&buf)
		if err != nil || q == nil {
			return "rdp err"
		}
		e.slots[toks[2]] = &slotT{p: q}
		return "rdp " + viewLine(q)
	}
	return "bad-op"
}

func runWorker(in io.Reader, out io.Writer) {
	e := newExecutor()
	sc := bufio.NewScanner(in)
	sc.Buffer(make([]byte, 1<<20), 1<<30)
	w := bufio.NewWriter(out)
	for sc.Scan() {
		res := e.exec(sc.Text())
		w.WriteString(res)
		w.WriteByte('\n')
		w.Flush()
	}
	if err := sc.Err(); err != nil {
		fmt.Fprintln(os.Stderr, "worker: scan:", err)
		os.Exit(3)
	}
}
