package main

// fuzzops — turns corpus files of Go's native fuzzing (harness/fuzz, `go test fuzz v1` format) into operation lines,
// so that an input found by coverage-guided search is executed by implementation and model and judged like any
// generated case:  mqharness fuzzops FuzzReadPacket|FuzzUnmarshal <file-or-dir>...

import (
	"bufio"
	"fmt"
	"os"
	"path/filepath"
	"sort"
	"strconv"
	"strings"
)

var fuzzKinds = []string{"Connect", "ConnAck", "Publish", "PubAck", "PubRec", "PubRel", "PubComp", "Subscribe", "SubAck",
	"Unsubscribe", "UnsubAck", "PingReq", "PingResp", "Disconnect", "Auth"}

// values of one corpus file: []byte as []byte, uint8 as uint8
func readCorpusFile(path string) ([]interface{}, bool) {
	raw, err := os.ReadFile(path)
	if err != nil {
		return nil, false
	}
	lines := strings.Split(strings.TrimRight(string(raw), "\n"), "\n")
	if len(lines) < 2 || !strings.HasPrefix(lines[0], "go test fuzz v1") {
		return nil, false
	}
	var vals []interface{}
	for _, l := range lines[1:] {
		l = strings.TrimSpace(l)
		switch {
		case strings.HasPrefix(l, "[]byte(") && strings.HasSuffix(l, ")"):
			s, err := strconv.Unquote(l[7 : len(l)-1])
			if err != nil {
				return nil, false
			}
			vals = append(vals, []byte(s))
		case strings.HasPrefix(l, "uint8(") || strings.HasPrefix(l, "byte("):
			arg := l[strings.Index(l, "(")+1 : len(l)-1]
			if strings.HasPrefix(arg, "'") {
				r, _, _, err := strconv.UnquoteChar(arg[1:len(arg)-1], '\'')
				if err != nil {
					return nil, false
				}
				vals = append(vals, uint8(r))
			} else {
				n, err := strconv.ParseUint(arg, 0, 8)
				if err != nil {
					return nil, false
				}
				vals = append(vals, uint8(n))
			}
		default:
			return nil, false
		}
	}
	return vals, true
}

func runFuzzOps(args []string) {
	if len(args) < 2 {
		fmt.Fprintln(os.Stderr, "usage: mqharness fuzzops <target> <file-or-dir>...")
		os.Exit(2)
	}
	target := args[0]
	var files []string
	for _, a := range args[1:] {
		st, err := os.Stat(a)
		if err != nil {
			continue
		}
		if st.IsDir() {
			es, _ := os.ReadDir(a)
			for _, e := range es {
				if !e.IsDir() {
					files = append(files, filepath.Join(a, e.Name()))
				}
			}
		} else {
			files = append(files, a)
		}
	}
	sort.Strings(files)
	w := bufio.NewWriterSize(os.Stdout, 1<<20)
	defer w.Flush()
	for _, f := range files {
		vals, ok := readCorpusFile(f)
		if !ok {
			continue
		}
		switch target {
		case "FuzzReadPacket":
			if len(vals) != 1 {
				continue
			}
			d, ok := vals[0].([]byte)
			if !ok || len(d) > 1<<16 {
				continue
			}
			fmt.Fprintf(w, "RESET\nNOTE case=fuzz file=%s\nRD x %s sched=- eofwd=0 fail=eof calls=1\nSTR x\nDUMP x\n", filepath.Base(f), hxd(d))
		case "FuzzUnmarshal":
			if len(vals) != 3 {
				continue
			}
			k, ok1 := vals[0].(uint8)
			first, ok2 := vals[1].([]byte)
			body, ok3 := vals[2].([]byte)
			if !ok1 || !ok2 || !ok3 || len(first) > 1<<16 || len(body) > 1<<16 {
				continue
			}
			fmt.Fprintf(w, "RESET\nNOTE case=fuzz file=%s\nNEW p %s\n", filepath.Base(f), fuzzKinds[int(k)%len(fuzzKinds)])
			if len(first) > 0 {
				fmt.Fprintf(w, "DEC p %s\n", hxd(first))
			}
			fmt.Fprintf(w, "DEC p %s\nSTR p\nDUMP p\n", hxd(body))
		}
	}
}
