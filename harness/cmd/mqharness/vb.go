//go:build verif

package main

import (
	"strconv"

	"github.com/gregoryv/mq"
)

// VB ops go through the exported wrappers that exist only with the build tag verif.
func execVB(toks []string) string {
	if len(toks) != 3 {
		return "bad-op"
	}
	switch toks[1] {
	case "enc":
		n, err := strconv.ParseUint(toks[2], 10, 64)
		if err != nil {
			return "bad-op"
		}
		w := mq.VerifVbintFill(uint(n), nil, 0)
		buf := make([]byte, w)
		mq.VerifVbintFill(uint(n), buf, 0)
		return "vb " + hx(buf)
	case "width":
		n, err := strconv.ParseUint(toks[2], 10, 64)
		if err != nil {
			return "bad-op"
		}
		return "vb " + strconv.Itoa(mq.VerifVbintWidth(uint(n)))
	case "mem":
		d, ok := unhex(toks[2])
		if !ok {
			return "bad-op"
		}
		v, err := mq.VerifVbintUnmarshal(d)
		if err != nil {
			return "vb err"
		}
		return "vb ok " + strconv.FormatUint(uint64(v), 10) + " " + strconv.Itoa(mq.VerifVbintWidth(v))
	case "stream":
		d, ok := unhex(toks[2])
		if !ok {
			return "bad-op"
		}
		r := &scriptReader{data: append([]byte(nil), d...), fail: eofErr}
		v, _, err := mq.VerifVbintReadFrom(r)
		if err != nil {
			return "vb err " + strconv.Itoa(r.consumed)
		}
		return "vb ok " + strconv.FormatUint(uint64(v), 10) + " " + strconv.Itoa(r.consumed)
	}
	return "bad-op"
}
