package main

// gen.go — seeded generators of op files. Every random choice comes from one math/rand source.
//
// Classes (one "case" = the lines between two RESET lines; NOTE lines carry metadata for the
// judges in /verif/check and are echoed as "note" by both executors):
//
//   pkt      in-domain packets built through the API: VIEW, ENC x2, RT, STR, DUMP, WF, WR
//   hist     setter histories with a VIEW after every step, then ENC/STR/DUMP/WF (C12, C19)
//   odd      constructible-but-malformed packets and zero values: ENC/STR/DUMP/WF/WR (C10, C17, C19)
//   frames   specification-style valid frames: RD + expected view (C03), schedules (C07)
//   cuts     valid frames cut at every offset with EOF / transport error (C08)
//   reject   frames that must be rejected (C09)
//   seq      concatenated frames + trailing bytes read by successive calls (C06)
//   malformed arbitrary and mutated bytes through DEC and RD (C04, C05)
//   first    all 256 first bytes x bodies (C16)
//   pool     several packets, decode / scribble / set, VIEW of all (C14)
//   cred     pairs of CONNECT packets differing only in credentials (C18)
//   vb       the variable byte integer codec through the hooks (C15)
//   wf       WellFormed cross product (C17)
//   render   all 256 values of every rendered byte (C19)

import (
	"bufio"
	"fmt"
	"math/rand"
	"sort"
	"strings"
)

type gen struct {
	r *rand.Rand
	w *bufio.Writer
	// thorough tier: allow the big sizes more often
	big bool
	// kind of the packet the case under generation is about
	lastKind string
}

func (g *gen) emit(format string, a ...interface{}) {
	fmt.Fprintf(g.w, format, a...)
	g.w.WriteByte('\n')
}

func (g *gen) chance(p float64) bool { return g.r.Float64() < p }

var smallLens = []int{0, 1, 2, 3, 5, 8, 16, 31}
var edgeLens = []int{127, 128, 129, 255, 256, 300}
var hugeLens = []int{16383, 16384, 65534, 65535}

// lengths around which an implementation may change strategy (a cache, a pooled buffer, a window instead of a copy)
var thresholdLens = []int{1023, 1024, 1025, 2048, 4095, 4096, 4097, 8192, 32767, 32768, 32769}

// strings that mean something to MQTT or to a renderer (inside the ASCII subset the modelled renderer covers)
var wordDict = []string{"$share/g/t", "$share/", "$SYS/#", "#", "+", "a/+/b", "/", "MQTT", "MQIsdp", "mqtt", "password", "user",
	"%s", "%d%n", "\"quoted\"", "a b", "k", "=", ":", ";", ",", "[]", "nil", "true", "0"}

func (g *gen) strLen() int {
	x := g.r.Float64()
	switch {
	case x < 0.80:
		return smallLens[g.r.Intn(len(smallLens))]
	case x < 0.96:
		return edgeLens[g.r.Intn(len(edgeLens))]
	default:
		if g.chance(0.35) {
			return thresholdLens[g.r.Intn(len(thresholdLens))]
		}
		if g.big || g.chance(0.6) {
			return hugeLens[g.r.Intn(len(hugeLens))]
		}
		return edgeLens[g.r.Intn(len(edgeLens))]
	}
}

// random bytes; mostly printable ASCII so that renderers are inside the modelled %q subset
func (g *gen) bytesN(n int) []byte {
	b := make([]byte, n)
	mode := g.r.Intn(10)
	for i := range b {
		switch {
		case mode < 6:
			b[i] = byte(0x20 + g.r.Intn(0x5f))
		case mode < 8:
			b[i] = byte(g.r.Intn(0x80))
		default:
			b[i] = byte(g.r.Intn(256))
		}
	}
	return b
}
func (g *gen) bytes() []byte {
	if g.chance(0.06) {
		return []byte(wordDict[g.r.Intn(len(wordDict))])
	}
	return g.bytesN(g.strLen())
}
func (g *gen) nonEmpty() []byte {
	if g.chance(0.06) {
		return []byte(wordDict[g.r.Intn(len(wordDict))])
	}
	n := g.strLen()
	if n == 0 {
		n = 1
	}
	return g.bytesN(n)
}
func (g *gen) smallBytes() []byte { return g.bytesN(g.r.Intn(6)) }

func (g *gen) u8() uint64 {
	switch g.r.Intn(4) {
	case 0:
		return uint64([]int{0, 1, 2, 127, 128, 254, 255}[g.r.Intn(7)])
	}
	return uint64(g.r.Intn(256))
}
func (g *gen) u16() uint64 {
	switch g.r.Intn(3) {
	case 0:
		return uint64([]int{0, 1, 255, 256, 65534, 65535}[g.r.Intn(6)])
	}
	return uint64(g.r.Intn(65536))
}
func (g *gen) u32() uint64 {
	switch g.r.Intn(3) {
	case 0:
		return []uint64{0, 1, 255, 256, 65535, 65536, 16777215, 16777216, 4294967294, 4294967295}[g.r.Intn(10)]
	}
	return uint64(g.r.Uint32())
}

var vbEdges = []uint64{1, 2, 126, 127, 128, 129, 16382, 16383, 16384, 16385, 2097150, 2097151, 2097152, 2097153, 268435454, 268435455}

func (g *gen) subID() uint64 {
	if g.chance(0.2) {
		// multi-byte encodings whose leading bytes carry no value bits (80 01, 80 80 01, …)
		return []uint64{128, 256, 16384, 32768, 2097152}[g.r.Intn(5)]
	}
	if g.chance(0.5) {
		return vbEdges[g.r.Intn(len(vbEdges))]
	}
	return 1 + uint64(g.r.Intn(268435455))
}
func (g *gen) boolS() string {
	if g.chance(0.5) {
		return "true"
	}
	return "false"
}

// ---------------------------------------------------------------- API-built packets

type setter struct {
	name string
	typ  byte // 'h' hex bytes/string, '1' uint8, '2' uint16, '4' uint32, 'b' bool, 'p' user property pair
}

func (s setter) args(g *gen) string { return g.arg(s.typ, false) }

func (g *gen) arg(t byte, zero bool) string {
	switch t {
	case 'h':
		if zero {
			return "-"
		}
		return hxd(g.bytes())
	case '1':
		if zero {
			return "0"
		}
		return fmt.Sprint(g.u8())
	case '2':
		if zero {
			return "0"
		}
		return fmt.Sprint(g.u16())
	case '4':
		if zero {
			return "0"
		}
		return fmt.Sprint(g.u32())
	case 'b':
		if zero {
			return "false"
		}
		return g.boolS()
	case 'p':
		out := hxd(g.nonEmpty()) + " " + hxd(g.bytes())
		for g.chance(0.2) {
			// AddUserProp is variadic: several pairs in one call
			out += " " + hxd(g.nonEmpty()) + " " + hxd(g.bytes())
		}
		return out
	}
	panic("arg type")
}

func filtersArg(g *gen) string {
	n := 1 + g.r.Intn(3)
	parts := make([]string, 0, n)
	for i := 0; i < n; i++ {
		parts = append(parts, hxd(g.bytes())+" "+fmt.Sprint(g.u8()))
	}
	return strings.Join(parts, " ")
}

var ackSetters = []setter{{"SetPacketID", '2'}, {"SetReasonCode", '1'}, {"SetReasonString", 'h'}, {"AddUserProp", 'p'}}
var subAckSetters = []setter{{"SetPacketID", '2'}, {"SetReasonString", 'h'}, {"AddReasonCode", '1'}, {"AddUserProp", 'p'}}

// the scalar setters of every type (SetWill, SetQoS/SetPacketID of Publish and the other adders
// are handled by the callers, which know the domain)
var setters = map[string][]setter{
	"Connect": {
		{"SetCleanStart", 'b'}, {"SetProtocolVersion", '1'}, {"SetProtocolName", 'h'},
		{"SetClientID", 'h'}, {"SetKeepAlive", '2'}, {"SetSessionExpiryInterval", '4'},
		{"SetReceiveMax", '2'}, {"SetMaxPacketSize", '4'}, {"SetTopicAliasMax", '2'},
		{"SetRequestResponseInfo", 'b'}, {"SetRequestProblemInfo", 'b'},
		{"SetAuthMethod", 'h'}, {"SetAuthData", 'h'}, {"SetUsername", 'h'},
		{"SetPassword", 'h'}, {"AddUserProp", 'p'},
	},
	"ConnAck": {
		{"SetSessionPresent", 'b'}, {"SetSessionExpiryInterval", '4'}, {"SetReceiveMax", '2'},
		{"SetMaxQoS", '1'}, {"SetRetainAvailable", 'b'}, {"SetMaxPacketSize", '4'},
		{"SetAssignedClientID", 'h'}, {"SetTopicAliasMax", '2'}, {"SetReasonCode", '1'},
		{"SetReasonString", 'h'}, {"SetWildcardSubAvailable", 'b'},
		{"SetSubIdentifiersAvailable", 'b'}, {"SetSharedSubAvailable", 'b'},
		{"SetServerKeepAlive", '2'}, {"SetResponseInformation", 'h'},
		{"SetServerReference", 'h'}, {"SetAuthMethod", 'h'}, {"SetAuthData", 'h'},
		{"AddUserProp", 'p'},
	},
	"Publish": {
		{"SetDuplicate", 'b'}, {"SetRetain", 'b'}, {"SetTopicName", 'h'},
		{"SetPayloadFormat", 'b'}, {"SetMessageExpiryInterval", '4'}, {"SetTopicAlias", '2'},
		{"SetResponseTopic", 'h'}, {"SetCorrelationData", 'h'}, {"SetContentType", 'h'},
		{"SetPayload", 'h'}, {"AddUserProp", 'p'},
	},
	"PubAck": ackSetters, "PubRec": ackSetters, "PubRel": ackSetters, "PubComp": ackSetters,
	"Subscribe":   {{"SetPacketID", '2'}, {"AddUserProp", 'p'}},
	"SubAck":      subAckSetters,
	"UnsubAck":    subAckSetters,
	"Unsubscribe": {{"SetPacketID", '2'}, {"AddFilter", 'h'}, {"AddUserProp", 'p'}},
	"Disconnect": {
		{"SetReasonCode", '1'}, {"SetReasonString", 'h'}, {"SetSessionExpiryInterval", '4'},
		{"SetServerReference", 'h'}, {"AddUserProp", 'p'},
	},
	"Auth": {
		{"SetReasonCode", '1'}, {"SetAuthMethod", 'h'}, {"SetAuthData", 'h'},
		{"SetReasonString", 'h'}, {"AddUserProp", 'p'},
	},
	"PingReq": {}, "PingResp": {},
}

var apiKinds = kindNames[1:]

// emit a random subset of the scalar setters of kind on slot (each at most `reps` times),
// with a VIEW after every call when trace is set
func (g *gen) scalarSetters(slot, kind string, density float64, trace bool) {
	ss := setters[kind]
	order := g.r.Perm(len(ss))
	for _, i := range order {
		if !g.chance(density) {
			continue
		}
		reps := 1
		if strings.HasPrefix(ss[i].name, "Add") && g.chance(0.4) {
			reps = 1 + g.r.Intn(3)
		}
		for k := 0; k < reps; k++ {
			g.emit("SET %s %s %s", slot, ss[i].name, ss[i].args(g))
			if trace {
				g.emit("VIEW %s", slot)
			}
		}
	}
}

// a will message inside the C01 domain, in slot
func (g *gen) willMessage(slot string) {
	g.emit("NEW %s Publish", slot)
	g.emit("SET %s SetQoS %d", slot, g.r.Intn(3))
	for _, s := range setters["Publish"] {
		if s.name == "SetDuplicate" || s.name == "SetTopicAlias" {
			continue
		}
		if g.chance(0.5) {
			g.emit("SET %s %s %s", slot, s.name, s.args(g))
		}
	}
}

// an in-domain packet of the given kind in slot p (C01 domain); wf: also MQTT-well-formed (C02)
func (g *gen) domainPacket(slot, kind string, wf bool) {
	g.emit("NEW %s %s", slot, kind)
	density := []float64{0.15, 0.5, 0.9}[g.r.Intn(3)]
	switch kind {
	case "Connect":
		if g.chance(0.5) {
			g.willMessage(slot + "w")
			g.emit("SET %s SetWill %sw", slot, slot)
			if g.chance(0.5) {
				g.emit("SET %s SetWillDelayInterval %d", slot, g.u32())
			}
		}
		if wf {
			// keep the default protocol name and version
			ss := setters[kind]
			for _, i := range g.r.Perm(len(ss)) {
				if ss[i].name == "SetProtocolName" || ss[i].name == "SetProtocolVersion" || !g.chance(density) {
					continue
				}
				g.emit("SET %s %s %s", slot, ss[i].name, ss[i].args(g))
			}
		} else {
			g.scalarSetters(slot, kind, density, false)
		}
	case "Publish":
		qos := g.r.Intn(3)
		g.emit("SET %s SetQoS %d", slot, qos)
		if qos > 0 {
			if wf {
				g.emit("SET %s SetPacketID %d", slot, 1+g.r.Intn(65535))
			} else if g.chance(0.8) {
				g.emit("SET %s SetPacketID %d", slot, g.u16())
			}
		}
		g.scalarSetters(slot, kind, density, false)
		if wf && g.chance(0.7) {
			// a topic name or a topic alias
			if g.chance(0.7) {
				g.emit("SET %s SetTopicName %s", slot, hxd(g.nonEmpty()))
			} else {
				g.emit("SET %s SetTopicAlias %d", slot, 1+g.r.Intn(65535))
			}
		} else if wf {
			g.emit("SET %s SetTopicName %s", slot, hxd(g.nonEmpty()))
		}
		for n := g.r.Intn(3); n > 0 && g.chance(0.4); n-- {
			g.emit("SET %s AddSubscriptionID %d", slot, g.subID())
		}
	case "Subscribe":
		g.scalarSetters(slot, kind, density, false)
		if g.chance(0.5) {
			g.emit("SET %s SetSubscriptionID %d", slot, g.subID())
		}
		n := 1 + g.r.Intn(3)
		for i := 0; i < n; i++ {
			opt := g.u8()
			f := g.bytes()
			if wf {
				opt = uint64(g.r.Intn(3)) | uint64(g.r.Intn(4))<<2 | uint64(g.r.Intn(3))<<4
				f = g.nonEmpty()
			}
			g.emit("SET %s AddFilters %s %d", slot, hxd(f), opt)
		}
	case "Unsubscribe":
		g.scalarSetters(slot, kind, density, false)
		g.emit("SET %s AddFilter %s", slot, hxd(g.bytes()))
	case "SubAck", "UnsubAck":
		g.scalarSetters(slot, kind, density, false)
		if wf {
			g.emit("SET %s AddReasonCode %d", slot, g.u8())
		}
	default:
		g.scalarSetters(slot, kind, density, false)
	}
}

// genRewrite: a packet that is written (and printed), then modified through the API, then written
// again — what a bridge or a retransmitting client does. Size caches and anything else computed at
// the first write must not survive the modification.
func (g *gen) genRewrite(n int) {
	for c := 0; c < n; c++ {
		kind := apiKinds[g.r.Intn(len(apiKinds))]
		if g.chance(0.4) {
			kind = []string{"Connect", "Publish", "Subscribe", "ConnAck", "Disconnect"}[g.r.Intn(5)]
		}
		g.emit("RESET")
		g.emit("NOTE case=rewrite kind=%s wf=1", kind)
		g.domainPacket("p", kind, true)
		g.emit("VIEW p")
		g.emit("ENC p")
		if g.chance(0.7) {
			g.emit("STR p")
		}
		// the modification: a user property (the adder every type with properties inherits), or any setter
		steps := 1 + g.r.Intn(2)
		for k := 0; k < steps; k++ {
			ss := setters[kind]
			if len(ss) == 0 {
				break
			}
			if g.chance(0.6) {
				g.emit("SET p AddUserProp %s %s", hxd(g.nonEmpty()), hxd(g.bytes()))
			} else {
				var cand []setter
				for _, x := range ss {
					if x.name == "SetProtocolName" || x.name == "SetProtocolVersion" {
						continue
					}
					cand = append(cand, x)
				}
				x := cand[g.r.Intn(len(cand))]
				g.emit("SET p %s %s", x.name, x.args(g))
			}
		}
		g.emit("VIEW p")
		g.emit("ENC p")
		g.emit("RT p")
		g.emit("STR p")
		g.emit("WR p accept=all err=0")
		g.emit("WR p accept=%d err=E1", g.wrAccept())
		g.emit("VIEW p")
	}
}

// genShared: packets for the concurrency stress, including a will message that is modified after
// SetWill and then used both through its CONNECT and directly
func (g *gen) genShared(n int) {
	for c := 0; c < n; c++ {
		g.emit("RESET")
		if g.chance(0.5) {
			g.emit("NOTE case=shared kind=Connect wf=0")
			g.emit("NEW p Connect")
			g.willMessage("pw")
			g.emit("SET p SetWill pw")
			g.scalarSetters("p", "Connect", 0.3, false)
			for _, s := range setters["Publish"] {
				if g.chance(0.3) {
					g.emit("SET pw %s %s", s.name, s.args(g))
				}
			}
		} else {
			kind := apiKinds[g.r.Intn(len(apiKinds))]
			g.emit("NOTE case=shared kind=%s wf=0", kind)
			g.domainPacket("p", kind, false)
		}
		g.emit("ENC p")
	}
}

func (g *gen) readOnlyOps(slot string) {
	ops := []string{"STR", "DUMP", "WF", "VIEW", "ENC"}
	for i := 0; i < 3; i++ {
		g.emit("%s %s", ops[g.r.Intn(len(ops))], slot)
	}
}

// how many bytes a faulty writer accepts: mostly a few, sometimes up to and beyond every size boundary
func (g *gen) wrAccept() int {
	switch x := g.r.Float64(); {
	case x < 0.5:
		return g.r.Intn(12)
	case x < 0.75:
		b := []int{127, 128, 129, 130, 16383, 16384, 16385, 16386, 16500, 65535, 65540}[g.r.Intn(11)]
		return b + g.r.Intn(5) - 2
	default:
		return g.r.Intn(70000)
	}
}

func (g *gen) genPkt(n int) {
	for c := 0; c < n; c++ {
		kind := apiKinds[g.r.Intn(len(apiKinds))]
		if g.chance(0.25) {
			kind = []string{"Connect", "Publish", "ConnAck", "Subscribe"}[g.r.Intn(4)]
		}
		wf := g.chance(0.6)
		g.emit("RESET")
		g.emit("NOTE case=pkt kind=%s wf=%s", kind, b01(wf))
		g.domainPacket("p", kind, wf)
		if kind == "Publish" && g.chance(0.12) {
			// a large payload: 16 KiB and the sizes around it, up to beyond the two-byte limits of other fields
			sz := []int{16383, 16384, 16385, 20000, 65535, 65536, 70000}[g.r.Intn(7)]
			g.emit("SET p SetPayload %s", hxd(g.bytesN(sz)))
		}
		g.emit("VIEW p")
		g.emit("ENC p")
		g.readOnlyOps("p")
		g.emit("ENC p")
		g.emit("VIEW p")
		g.emit("RT p")
		g.emit("STR p")
		g.emit("DUMP p")
		g.emit("WR p accept=all err=0")
		if g.chance(0.7) {
			g.emit("WR p accept=%d err=E1", g.wrAccept())
		} else {
			g.emit("WR p accept=0 err=E2")
		}
	}
}

// CONNECTs whose will message carries fields a will cannot transmit (topic alias, subscription
// identifiers, packet identifier, DUP): constructible through the API, outside the round-trip
// domain; what is written must still be a valid frame (`wf=s`: structure only, the untransmitted
// will fields are not compared)
func (g *gen) genWillX(n int) {
	for c := 0; c < n; c++ {
		g.emit("RESET")
		g.emit("NOTE case=willx kind=Connect wf=s")
		g.emit("NEW p Connect")
		g.willMessage("pw")
		k := 0
		for k == 0 {
			if g.chance(0.5) {
				g.emit("SET pw SetTopicAlias %d", 1+g.r.Intn(65535))
				k++
			}
			if g.chance(0.4) {
				for j := 1 + g.r.Intn(3); j > 0; j-- {
					g.emit("SET pw AddSubscriptionID %d", g.subID())
				}
				k++
			}
			if g.chance(0.2) {
				g.emit("SET pw SetPacketID %d", 1+g.r.Intn(65535))
				k++
			}
			if g.chance(0.2) {
				g.emit("SET pw SetDuplicate true")
				k++
			}
		}
		g.emit("SET p SetWill pw")
		if g.chance(0.5) {
			g.emit("SET p SetWillDelayInterval %d", g.u32())
		}
		density := []float64{0.15, 0.5, 0.9}[g.r.Intn(3)]
		ss := setters["Connect"]
		for _, i := range g.r.Perm(len(ss)) {
			if ss[i].name == "SetProtocolName" || ss[i].name == "SetProtocolVersion" || !g.chance(density) {
				continue
			}
			g.emit("SET p %s %s", ss[i].name, ss[i].args(g))
		}
		g.emit("VIEW p")
		g.emit("ENC p")
		g.emit("STR p")
		g.emit("WR p accept=all err=0")
	}
}

// a string whose last bytes are not ASCII: a multi-byte rune, a rune cut short, stray continuation bytes — placed so that it
// ends at, just before or just after a length a renderer might cut at (16, 32, 64, 128, 256), or anywhere
func (g *gen) utf8Tail() []byte {
	n := 0
	if g.chance(0.6) {
		n = []int{16, 32, 64, 128, 256}[g.r.Intn(5)] + g.r.Intn(5) - 2
	} else {
		n = 1 + g.r.Intn(300)
	}
	tails := [][]byte{{0xc3, 0xa9}, {0xe2, 0x82, 0xac}, {0xf0, 0x9f, 0x98, 0x80}, {0x80}, {0x80, 0xbf, 0x80}, {0xe2, 0x82}, {0xc3}, {0xff}, {0xf0, 0x9f},
		{0xef, 0xbf, 0xbd}, {0xed, 0xa0, 0x80}, {0xc0, 0x80}}
	t := tails[g.r.Intn(len(tails))]
	if g.chance(0.3) {
		// nothing but continuation bytes from some point on
		t = bytesRepeat(byte(0x80+g.r.Intn(0x40)), 1+g.r.Intn(8))
	}
	if n < len(t) {
		n = len(t)
	}
	out := make([]byte, 0, n)
	for i := 0; i < n-len(t); i++ {
		out = append(out, byte('a'+g.r.Intn(26)))
	}
	return append(out, t...)
}

// packets of every type whose string and binary fields end in non-ASCII bytes (C19: String and Dump are total), built
// through the API and decoded from their own frame
func (g *gen) genUTF8(n int) {
	for c := 0; c < n; c++ {
		kind := apiKinds[g.r.Intn(len(apiKinds))]
		g.emit("RESET")
		g.emit("NOTE case=utf8 kind=%s", kind)
		g.emit("NEW p %s", kind)
		did := 0
		for _, st := range setters[kind] {
			switch {
			case st.typ == 'h' && g.chance(0.6):
				g.emit("SET p %s %s", st.name, hxd(g.utf8Tail()))
				did++
			case st.typ == 'p' && g.chance(0.6):
				g.emit("SET p %s %s %s", st.name, hxd(g.utf8Tail()), hxd(g.utf8Tail()))
				did++
			}
		}
		if kind == "Subscribe" {
			g.emit("SET p AddFilters %s %d", hxd(g.utf8Tail()), g.r.Intn(3))
			did++
		}
		if kind == "Connect" && g.chance(0.5) {
			g.emit("NEW w Publish")
			g.emit("SET w SetTopicName %s", hxd(g.utf8Tail()))
			g.emit("SET w SetPayload %s", hxd(g.utf8Tail()))
			g.emit("SET p SetWill w")
			did++
		}
		if did == 0 {
			c--
			continue
		}
		g.emit("STR p")
		g.emit("DUMP p")
		g.emit("ENC p")
		g.emit("RDP p q")
		g.emit("STR q")
		g.emit("DUMP q")
	}
}

// a will that is changed after it was attached (outside C01's domain, inside C10's "every packet", C11's and C19's):
// SetWill keeps the pointer, so the CONNECT is written from whatever the PUBLISH holds at that moment — still one
// complete frame with a truthful size, the same bytes every time until the next change
func (g *gen) genWillMod(n int) {
	for c := 0; c < n; c++ {
		g.emit("RESET")
		g.emit("NOTE case=willmod kind=Connect")
		g.willMessage("w")
		g.emit("NEW p Connect")
		g.scalarSetters("p", "Connect", 0.3, false)
		g.emit("SET p SetWill w")
		g.emit("VIEW p")
		g.emit("ENC p")
		g.emit("STR p")
		for k := 1 + g.r.Intn(4); k > 0; k-- {
			ss := setters["Publish"]
			st := ss[g.r.Intn(len(ss))]
			switch g.r.Intn(6) {
			case 0:
				g.emit("SET w SetQoS %d", g.r.Intn(3))
			default:
				g.emit("SET w %s %s", st.name, g.arg(st.typ, g.chance(0.2)))
			}
			g.emit("VIEW p")
			g.emit("ENC p")
			g.emit("STR p")
			if g.chance(0.5) {
				g.emit("DUMP p")
				g.emit("ENC p")
			}
			if g.chance(0.4) {
				g.emit("WR p accept=%d err=E%d", g.wrAccept(), 1+g.r.Intn(9))
			}
		}
	}
}

func (g *gen) genHist(n int) {
	for c := 0; c < n; c++ {
		kind := apiKinds[g.r.Intn(len(apiKinds))]
		g.emit("RESET")
		g.emit("NOTE case=hist kind=%s", kind)
		g.emit("NEW p %s", kind)
		g.emit("VIEW p")
		steps := 1 + g.r.Intn(25)
		ss := setters[kind]
		willN := 0
		for s := 0; s < steps; s++ {
			switch {
			case kind == "Connect" && g.chance(0.15):
				willN++
				w := fmt.Sprintf("w%d", willN)
				g.willMessage(w)
				if g.chance(0.3) {
					g.emit("SET %s SetRetain %s", w, g.boolS())
				}
				g.emit("SET p SetWill %s", w)
			case kind == "Connect" && g.chance(0.1):
				g.emit("SET p SetWillDelayInterval %d", g.u32())
			case kind == "Publish" && g.chance(0.25):
				switch g.r.Intn(3) {
				case 0:
					g.emit("SET p SetQoS %d", g.r.Intn(4))
				case 1:
					g.emit("SET p SetPacketID %d", g.u16())
				case 2:
					g.emit("SET p AddSubscriptionID %d", g.subID())
				}
			case kind == "Subscribe" && g.chance(0.4):
				if g.chance(0.5) {
					g.emit("SET p SetSubscriptionID %d", g.subID())
				} else {
					g.emit("SET p AddFilters %s", filtersArg(g))
				}
			case len(ss) > 0:
				s := ss[g.r.Intn(len(ss))]
				// resets to zero / empty / false happen often
				a := g.arg(s.typ, g.chance(0.25))
				g.emit("SET p %s %s", s.name, a)
			}
			g.emit("VIEW p")
			if g.chance(0.15) {
				g.emit("STR p")
				g.emit("DUMP p")
			}
			if g.chance(0.12) {
				// encoded in the middle of the history (whatever an encoder remembers must not outlive the next setter)
				g.emit("ENC p")
			}
		}
		g.emit("ENC p")
		g.emit("STR p")
		g.emit("DUMP p")
		g.emit("WF p")
		// "the encoded frame reflects the same final state": what the library reads back from its own frame
		g.emit("VIEW p")
		g.emit("RDP p q")
	}
}

// constructible but malformed packets, zero values
func (g *gen) genOdd(n int) {
	for c := 0; c < n; c++ {
		kind := kindNames[g.r.Intn(len(kindNames))]
		g.emit("RESET")
		g.emit("NOTE case=odd kind=%s", kind)
		if g.chance(0.3) {
			g.emit("ZERO p %s", kind)
		} else {
			g.emit("NEW p %s", kind)
		}
		switch kind {
		case "Publish":
			if g.chance(0.7) {
				g.emit("SET p SetQoS %d", g.r.Intn(5))
			}
			if g.chance(0.5) {
				g.emit("SET p SetPacketID %d", g.u16())
			}
			g.scalarSetters("p", kind, 0.4, false)
		case "Subscribe":
			if g.chance(0.5) {
				g.emit("SET p AddFilters %s", filtersArg(g))
			}
			if g.chance(0.5) {
				g.emit("SET p SetSubscriptionID %d", []uint64{0, 1, 268435455, 268435456, 4294967296}[g.r.Intn(5)])
			}
			g.scalarSetters("p", kind, 0.4, false)
		case "Undefined":
		default:
			g.scalarSetters("p", kind, 0.4, false)
		}
		g.emit("VIEW p")
		g.emit("STR p")
		g.emit("DUMP p")
		g.emit("WF p")
		g.emit("ENC p")
		g.emit("WR p accept=all err=0")
		g.emit("WR p accept=%d err=E3", g.r.Intn(5))
	}
}

func runGen(class string, seed int64, n int, w *bufio.Writer) {
	g := &gen{r: rand.New(rand.NewSource(seed)), w: w}
	if strings.HasSuffix(class, "+") {
		g.big = true
		class = strings.TrimSuffix(class, "+")
	}
	switch class {
	case "pkt":
		g.genPkt(n)
	case "rewrite":
		g.genRewrite(n)
	case "shared":
		g.genShared(n)
	case "willx":
		g.genWillX(n)
	case "hist":
		g.genHist(n)
	case "odd":
		g.genOdd(n)
	case "frames":
		g.genFrames(n)
	case "cuts":
		g.genCuts(n)
	case "reject":
		g.genReject(n)
	case "seq":
		g.genSeq(n)
	case "malformed":
		g.genMalformed(n)
	case "biglist":
		g.genBigList(n)
	case "willmod":
		g.genWillMod(n)
	case "utf8":
		g.genUTF8(n)
	case "nonmin":
		g.genNonMin(n)
	case "wfrd":
		g.genWFRD(n)
	case "vbframe":
		g.genVBFrame(n)
	case "proplen":
		g.genPropLen(n)
	case "first":
		g.genFirst(n)
	case "pool":
		g.genPool(n)
	case "cred":
		g.genCred(n)
	case "vb":
		g.genVB(n)
	case "wf":
		g.genWF(n)
	case "render":
		g.genRender(n)
	case "short":
		g.genShort(n)
	case "comps":
		g.genCompositions(n)
	default:
		panic("unknown class " + class)
	}
}

func sortedKeys(m map[string]string) []string {
	ks := make([]string, 0, len(m))
	for k := range m {
		ks = append(ks, k)
	}
	sort.Strings(ks)
	return ks
}

func runSweep(args []string) {}
