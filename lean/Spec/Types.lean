import Mq.Packet.Common
/-!
# Spec.Types — an independent formal reading of MQTT Version 5.0 (OASIS Standard): abstract
packets, which of them are legal, and how they are written (`unparse`) and read (`view`)

Written from §1.5 (data representation), §2 (control packet format), §3.1–§3.15; see DESIGN.md
Appendix A for the tables in prose. Shared with the model of the library are only *data types*
(`Bytes`, `WVal`, `PropOcc`, `View`) and the §1.5 primitive encoders (`encU16`, `encBin`, `encVb`,
`encV`); every identifier, table, layout and rule below is this file's own.

An abstract packet records its properties in **wire order** and, where MQTT offers a choice of
form (PUBACK family, DISCONNECT, AUTH), the form used — so the set `{ unparse sp | sp.Legal }` is the
valid-frame language: any property order, explicit zero values, every short form.
-/
namespace Spec
open Mq (Bytes WVal WKind PropOcc VV View UserProps encU16 encBin encVb encV)

/-! ## A.3 the property table -/

/-- packet kinds by their MQTT number; 16 stands for the will properties of CONNECT -/
abbrev Kind := Nat
def willK : Nat := 16

structure PropDef where
  id : UInt8
  ty : WKind
  /-- kinds the property may appear in -/
  allowed : List Nat
  /-- may appear more than once -/
  repeatable : List Nat := []

def propDefs : List PropDef := [
  { id := 0x01, ty := .bool, allowed := [3, willK] },                          -- Payload Format Indicator
  { id := 0x02, ty := .u32, allowed := [3, willK] },                           -- Message Expiry Interval
  { id := 0x03, ty := .bin, allowed := [3, willK] },                           -- Content Type
  { id := 0x08, ty := .bin, allowed := [3, willK] },                           -- Response Topic
  { id := 0x09, ty := .bin, allowed := [3, willK] },                           -- Correlation Data
  { id := 0x0b, ty := .vb, allowed := [3, 8], repeatable := [3] },             -- Subscription Identifier
  { id := 0x11, ty := .u32, allowed := [1, 2, 14] },                           -- Session Expiry Interval
  { id := 0x12, ty := .bin, allowed := [2] },                                  -- Assigned Client Identifier
  { id := 0x13, ty := .u16, allowed := [2] },                                  -- Server Keep Alive
  { id := 0x15, ty := .bin, allowed := [1, 2, 15] },                           -- Authentication Method
  { id := 0x16, ty := .bin, allowed := [1, 2, 15] },                           -- Authentication Data
  { id := 0x17, ty := .bool, allowed := [1] },                                 -- Request Problem Information
  { id := 0x18, ty := .u32, allowed := [willK] },                              -- Will Delay Interval
  { id := 0x19, ty := .bool, allowed := [1] },                                 -- Request Response Information
  { id := 0x1a, ty := .bin, allowed := [2] },                                  -- Response Information
  { id := 0x1c, ty := .bin, allowed := [2, 14] },                              -- Server Reference
  { id := 0x1f, ty := .bin, allowed := [2, 4, 5, 6, 7, 9, 11, 14, 15] },       -- Reason String
  { id := 0x21, ty := .u16, allowed := [1, 2] },                               -- Receive Maximum
  { id := 0x22, ty := .u16, allowed := [1, 2] },                               -- Topic Alias Maximum
  { id := 0x23, ty := .u16, allowed := [3] },                                  -- Topic Alias
  { id := 0x24, ty := .u8, allowed := [2] },                                   -- Maximum QoS
  { id := 0x25, ty := .bool, allowed := [2] },                                 -- Retain Available
  { id := 0x26, ty := .pair, allowed := [1, 2, 3, 4, 5, 6, 7, 8, 9, 10, 11, 14, 15, willK],
    repeatable := [1, 2, 3, 4, 5, 6, 7, 8, 9, 10, 11, 14, 15, willK] },        -- User Property
  { id := 0x27, ty := .u32, allowed := [1, 2] },                               -- Maximum Packet Size
  { id := 0x28, ty := .bool, allowed := [2] },                                 -- Wildcard Subscription Available
  { id := 0x29, ty := .bool, allowed := [2] },                                 -- Subscription Identifiers Available
  { id := 0x2a, ty := .bool, allowed := [2] } ]                                -- Shared Subscription Available

def propDef? (id : UInt8) : Option PropDef := propDefs.find? (·.id == id)

/-- value inside the limits of its wire type (§1.5) -/
def valInRange : WVal → Bool
  | .bin v => v.length < 65536
  | .pair k v => k.length < 65536 && v.length < 65536
  | .vb n => n < 268435456
  | _ => true

/-- one occurrence is legal in packet kind `k`: a defined identifier, allowed there, of its wire type -/
def occLegal (k : Nat) (o : PropOcc) : Bool :=
  match propDef? o.id with
  | some d => d.allowed.contains k && d.ty == o.val.kind && valInRange o.val
  | none => false

/-- at most once unless repeatable -/
def occOnce (k : Nat) (ps : List PropOcc) : Bool :=
  ps.all fun o =>
    match propDef? o.id with
    | some d => d.repeatable.contains k || (ps.filter (·.id == o.id)).length ≤ 1
    | none => false

def propsLegal (k : Nat) (ps : List PropOcc) : Bool := ps.all (occLegal k) && occOnce k ps

/-! ## §2.2.2 the property section on the wire -/

def encOccS (o : PropOcc) : Bytes := o.id :: encV o.val
def propBytes (ps : List PropOcc) : Bytes := ps.flatMap encOccS
def propSection (ps : List PropOcc) : Bytes := encVb (propBytes ps).length ++ propBytes ps

/-- §2.1 fixed header + body -/
def mkFrame (first : UInt8) (body : Bytes) : Bytes := first :: (encVb body.length ++ body)

/-! ## reading the properties back: "absent counts as the zero value" -/

def vvOf : WVal → VV
  | .u8 v => .n v.toNat | .u16 v => .n v.toNat | .u32 v => .n v.toNat | .bool v => .b v
  | .bin v => .s v | .vb n => .n n | .pair _ _ => .n 0

/-- value of the (last) occurrence of `id`, `dflt` when absent -/
def propVal (ps : List PropOcc) (id : UInt8) (dflt : VV) : VV :=
  ps.foldl (fun cur o => if o.id = id then vvOf o.val else cur) dflt

def userPropsOf (ps : List PropOcc) : UserProps :=
  ps.filterMap fun o => match o.val with
    | .pair k v => if o.id = 0x26 then some (k, v) else none
    | _ => none

def subIDsOf (ps : List PropOcc) : List Nat :=
  ps.filterMap fun o => match o.val with
    | .vb n => if o.id = 0x0b then some n else none
    | _ => none

/-- the subscription identifier of a SUBSCRIBE (at most one is legal): value of the last occurrence -/
def subIDLast (ps : List PropOcc) : Option Nat :=
  ps.foldl (fun cur o => match o.val with
    | .vb n => if o.id = 0x0b then some n else cur
    | _ => cur) none

/-! ## §3 the fifteen packets -/

/-- PUBACK family / DISCONNECT / AUTH short forms -/
inductive Form
  | bare      -- nothing after the mandatory part (reason 0x00, no properties)
  | reason    -- reason code only (no properties)
  | full      -- reason code, property length, properties
deriving Repr, DecidableEq

structure SWill where
  qos : UInt8
  retain : Bool
  props : List PropOcc
  topic : Bytes
  payload : Bytes
deriving Repr, DecidableEq

inductive SPacket
  | connect (cleanStart : Bool) (keepAlive : UInt16) (props : List PropOcc) (clientID : Bytes)
      (will : Option SWill) (username : Option Bytes) (password : Option Bytes)
  | connack (sessionPresent : Bool) (reason : UInt8) (props : List PropOcc)
  | publish (dup : Bool) (qos : UInt8) (retain : Bool) (topic : Bytes) (pid : UInt16)
      (props : List PropOcc) (payload : Bytes)
  /-- `k` = 4 PUBACK, 5 PUBREC, 6 PUBREL, 7 PUBCOMP -/
  | ack (k : Nat) (pid : UInt16) (form : Form) (reason : UInt8) (props : List PropOcc)
  | subscribe (pid : UInt16) (props : List PropOcc) (filters : List (Bytes × UInt8))
  /-- `k` = 9 SUBACK, 11 UNSUBACK -/
  | suback (k : Nat) (pid : UInt16) (props : List PropOcc) (codes : Bytes)
  | unsubscribe (pid : UInt16) (props : List PropOcc) (filters : List Bytes)
  /-- `k` = 12 PINGREQ, 13 PINGRESP -/
  | ping (k : Nat)
  | disconnect (form : Form) (reason : UInt8) (props : List PropOcc)
  | auth (form : Form) (reason : UInt8) (props : List PropOcc)
deriving Repr, DecidableEq

namespace SPacket

def kind : SPacket → Nat
  | connect .. => 1 | connack .. => 2 | publish .. => 3 | ack k .. => k | subscribe .. => 8
  | suback k .. => k | unsubscribe .. => 10 | ping k => k | disconnect .. => 14 | auth .. => 15

/-- §2.1.3 first byte: type and flags -/
def firstByte : SPacket → UInt8
  | connect .. => 0x10
  | connack .. => 0x20
  | publish dup qos retain .. => (0x30 : UInt8) ||| (if dup then (8 : UInt8) else 0) ||| (qos <<< 1) ||| (if retain then (1 : UInt8) else 0)
  | ack k .. => if k = 6 then 0x62 else UInt8.ofNat (k * 16)
  | subscribe .. => 0x82
  | suback k .. => UInt8.ofNat (k * 16)
  | unsubscribe .. => 0xa2
  | ping k => UInt8.ofNat (k * 16)
  | disconnect .. => 0xe0
  | auth .. => 0xf0

def strOK (s : Bytes) : Bool := s.length < 65536

/-- CONNECT flags byte (§3.1.2.3) -/
def connectFlags (cleanStart : Bool) (will : Option SWill) (username password : Option Bytes) : UInt8 :=
  (if username.isSome then (0x80 : UInt8) else 0) ||| (if password.isSome then (0x40 : UInt8) else 0)
  ||| (match will with
       | some w => (if w.retain then (0x20 : UInt8) else 0) ||| (w.qos <<< 3) ||| 0x04
       | none => 0)
  ||| (if cleanStart then (0x02 : UInt8) else 0)

/-- body = variable header + payload -/
def body : SPacket → Bytes
  | connect cleanStart keepAlive props clientID will username password =>
    encBin [0x4d, 0x51, 0x54, 0x54] ++ [5, connectFlags cleanStart will username password] ++ encU16 keepAlive
    ++ propSection props ++ encBin clientID
    ++ (match will with
        | some w => propSection w.props ++ encBin w.topic ++ encBin w.payload
        | none => [])
    ++ (match username with | some u => encBin u | none => [])
    ++ (match password with | some p => encBin p | none => [])
  | connack sp reason props => [if sp then 1 else 0, reason] ++ propSection props
  | publish _ qos _ topic pid props payload =>
    encBin topic ++ (if qos = 0 then [] else encU16 pid) ++ propSection props ++ payload
  | ack _ pid form reason props =>
    encU16 pid ++ (match form with
      | .bare => []
      | .reason => [reason]
      | .full => [reason] ++ propSection props)
  | subscribe pid props filters =>
    encU16 pid ++ propSection props ++ filters.flatMap (fun f => encBin f.1 ++ [f.2])
  | suback _ pid props codes => encU16 pid ++ propSection props ++ codes
  | unsubscribe pid props filters => encU16 pid ++ propSection props ++ filters.flatMap encBin
  | ping _ => []
  | disconnect form reason props | auth form reason props =>
    match form with
    | .bare => []
    | .reason => [reason]
    | .full => [reason] ++ propSection props

def unparse (sp : SPacket) : Bytes := mkFrame sp.firstByte sp.body

def formLegal (form : Form) (reason : UInt8) (props : List PropOcc) : Bool :=
  match form with
  | .bare => reason == 0 && props.isEmpty
  | .reason => props.isEmpty
  | .full => true

/-- structural validity (what a conforming decoder is entitled to enforce; DESIGN.md §5) -/
def legal : SPacket → Bool
  | connect _ _ props clientID will username password =>
    propsLegal 1 props && strOK clientID
    && (match will with
        | some w => w.qos ≤ 2 && propsLegal willK w.props && strOK w.topic && strOK w.payload
        | none => true)
    && (match username with | some u => strOK u | none => true)
    && (match password with | some p => strOK p | none => true)
  | connack _ _ props => propsLegal 2 props
  | publish _ qos _ topic _ props _ => qos ≤ 2 && strOK topic && propsLegal 3 props
  | ack k _ form reason props => (4 ≤ k && k ≤ 7) && propsLegal k props && formLegal form reason props
  | subscribe _ props filters =>
    propsLegal 8 props && !filters.isEmpty
    && filters.all fun f => strOK f.1 && f.2 &&& 0xc0 == 0 && f.2 &&& 3 != 3 && f.2 &&& 0x30 != 0x30
  | suback k _ props codes => (k == 9 || k == 11) && propsLegal k props && !codes.isEmpty
  | unsubscribe _ props filters => propsLegal 10 props && !filters.isEmpty && filters.all strOK
  | ping k => k == 12 || k == 13
  | disconnect form reason props => propsLegal 14 props && formLegal form reason props
  | auth form reason props => propsLegal 15 props && formLegal form reason props && form != .reason

/-- a frame is legal when the packet is and its remaining length fits the four-byte limit -/
def Legal (sp : SPacket) : Prop := sp.legal = true ∧ sp.body.length < 268435456

/-- *lenient* legality: the structure is that of MQTT, but two value-level rules are dropped that a
sender may break while the frame stays perfectly readable — any subscription option byte, and a
SUBACK/UNSUBACK without reason codes. (Used for C01, whose domain includes such packets: the API lets a
caller build them and the round trip must still be the identity.) -/
def legalL : SPacket → Bool
  | subscribe _ props filters => propsLegal 8 props && !filters.isEmpty && filters.all fun f => strOK f.1
  | suback k _ props _ => (k == 9 || k == 11) && propsLegal k props
  | sp => sp.legal

def LegalL (sp : SPacket) : Prop := sp.legalL = true ∧ sp.body.length < 268435456

/-! ### the values a specification-faithful reading gives, in the canonical accessor form -/

def publishView (pre : String) (dup : Bool) (qos : UInt8) (retain : Bool) (topic : Bytes) (pid : UInt16)
    (ps : List PropOcc) (payload : Bytes) : View :=
  [(pre ++ "ContentType", propVal ps 0x03 (.s [])), (pre ++ "CorrelationData", propVal ps 0x09 (.s [])),
   (pre ++ "Duplicate", .b dup), (pre ++ "MessageExpiryInterval", propVal ps 0x02 (.n 0)),
   (pre ++ "PacketID", .n (if qos = 0 then 0 else pid.toNat)), (pre ++ "Payload", .s payload),
   (pre ++ "PayloadFormat", propVal ps 0x01 (.b false)), (pre ++ "QoS", .n qos.toNat),
   (pre ++ "ResponseTopic", propVal ps 0x08 (.s [])), (pre ++ "Retain", .b retain),
   (pre ++ "SubscriptionIDs", .nats (subIDsOf ps)), (pre ++ "TopicAlias", propVal ps 0x23 (.n 0)),
   (pre ++ "TopicName", .s topic), (pre ++ "UserProperties", .ups (userPropsOf ps))]

def view : SPacket → View
  | connect cleanStart keepAlive ps clientID will username password =>
    [("AuthData", propVal ps 0x16 (.s [])), ("AuthMethod", propVal ps 0x15 (.s [])),
     ("CleanStart", .b cleanStart), ("ClientID", .s clientID),
     ("Flags", .n (connectFlags cleanStart will username password).toNat), ("KeepAlive", .n keepAlive.toNat),
     ("MaxPacketSize", propVal ps 0x27 (.n 0)), ("Password", .s (password.getD [])),
     ("ProtocolName", .s [0x4d, 0x51, 0x54, 0x54]), ("ProtocolVersion", .n 5),
     ("ReceiveMax", propVal ps 0x21 (.n 0)), ("RequestProblemInfo", propVal ps 0x17 (.b false)),
     ("RequestResponseInfo", propVal ps 0x19 (.b false)), ("SessionExpiryInterval", propVal ps 0x11 (.n 0)),
     ("TopicAliasMax", propVal ps 0x22 (.n 0)), ("UserProperties", .ups (userPropsOf ps)),
     ("Username", .s (username.getD [])), ("Will", .b will.isSome),
     ("WillDelayInterval", match will with | some w => propVal w.props 0x18 (.n 0) | none => .n 0)]
    ++ (match will with
        | some w => publishView "Will." false w.qos w.retain w.topic 0 w.props w.payload
        | none => [])
  | connack sp reason ps =>
    [("AssignedClientID", propVal ps 0x12 (.s [])), ("AuthData", propVal ps 0x16 (.s [])),
     ("AuthMethod", propVal ps 0x15 (.s [])), ("Flags", .n (if sp then 1 else 0)),
     ("MaxPacketSize", propVal ps 0x27 (.n 0)), ("MaxQoS", propVal ps 0x24 (.n 0)),
     ("ReasonCode", .n reason.toNat), ("ReasonString", propVal ps 0x1f (.s [])),
     ("ReceiveMax", propVal ps 0x21 (.n 0)), ("ResponseInformation", propVal ps 0x1a (.s [])),
     ("RetainAvailable", propVal ps 0x25 (.b false)), ("ServerKeepAlive", propVal ps 0x13 (.n 0)),
     ("ServerReference", propVal ps 0x1c (.s [])), ("SessionExpiryInterval", propVal ps 0x11 (.n 0)),
     ("SessionPresent", .b sp), ("SharedSubAvailable", propVal ps 0x2a (.b false)),
     ("SubIdentifiersAvailable", propVal ps 0x29 (.b false)), ("TopicAliasMax", propVal ps 0x22 (.n 0)),
     ("UserProperties", .ups (userPropsOf ps)), ("WildcardSubAvailable", propVal ps 0x28 (.b false))]
  | publish dup qos retain topic pid ps payload => publishView "" dup qos retain topic pid ps payload
  | ack _ pid form reason ps =>
    [("PacketID", .n pid.toNat), ("ReasonCode", .n (if form = .bare then 0 else reason.toNat)),
     ("ReasonString", propVal (if form = .full then ps else []) 0x1f (.s [])),
     ("UserProperties", .ups (userPropsOf (if form = .full then ps else [])))]
  | subscribe pid ps filters =>
    [("Filters", .filters filters), ("PacketID", .n pid.toNat),
     ("SubscriptionID", match subIDLast ps with | none => .i (-1) | some n => .i n),
     ("UserProperties", .ups (userPropsOf ps))]
  | suback _ pid ps codes =>
    [("PacketID", .n pid.toNat), ("ReasonCodes", .s codes), ("ReasonString", propVal ps 0x1f (.s [])),
     ("UserProperties", .ups (userPropsOf ps))]
  | unsubscribe pid ps filters =>
    [("Filters", .strs filters), ("PacketID", .n pid.toNat), ("UserProperties", .ups (userPropsOf ps))]
  | ping _ => []
  | disconnect form reason ps =>
    let ps := if form = .full then ps else []
    [("ReasonCode", .n (if form = .bare then 0 else reason.toNat)), ("ReasonString", propVal ps 0x1f (.s [])),
     ("ServerReference", propVal ps 0x1c (.s [])), ("SessionExpiryInterval", propVal ps 0x11 (.n 0)),
     ("UserProperties", .ups (userPropsOf ps))]
  | auth form reason ps =>
    let ps := if form = .full then ps else []
    [("AuthData", propVal ps 0x16 (.s [])), ("AuthMethod", propVal ps 0x15 (.s [])),
     ("ReasonCode", .n (if form = .bare then 0 else reason.toNat)), ("ReasonString", propVal ps 0x1f (.s [])),
     ("UserProperties", .ups (userPropsOf ps))]

end SPacket
end Spec

namespace Spec
open Mq (Bytes PropOcc encU16 encBin encVb)

/-! ### the field map of a frame body (C09): the atomic fields in wire order with their lengths.
A property section (property length and all properties) is listed as one field: every position
strictly inside it — inside the length, between an identifier and its value, inside a value, but also
between two properties — is an interior position. `false` marks the raw PUBLISH payload, which has
no internal structure. -/
def optLens (o : Option Bytes) : List (Nat × Bool) :=
  match o with
  | some u => [((encBin u).length, true)]
  | none => []

def willLens (will : Option SWill) : List (Nat × Bool) :=
  match will with
  | some w => [((propSection w.props).length, true), ((encBin w.topic).length, true), ((encBin w.payload).length, true)]
  | none => []

def SPacket.fieldLens : SPacket → List (Nat × Bool)
  | .connect _ _ props clientID will username password =>
    [((encBin [0x4d, 0x51, 0x54, 0x54]).length, true), (1, true), (1, true), (2, true),
     ((propSection props).length, true), ((encBin clientID).length, true)]
    ++ willLens will ++ optLens username ++ optLens password
  | .connack _ _ props => [(1, true), (1, true), ((propSection props).length, true)]
  | .publish _ qos _ topic _ props payload =>
    [((encBin topic).length, true)] ++ (if qos = 0 then [] else [(2, true)])
    ++ [((propSection props).length, true), (payload.length, false)]
  | .ack _ _ form _ props =>
    [(2, true)] ++ (match form with
      | .bare => []
      | .reason => [(1, true)]
      | .full => [(1, true), ((propSection props).length, true)])
  | .subscribe _ props filters =>
    [(2, true), ((propSection props).length, true)] ++ filters.flatMap (fun f => [((encBin f.1).length, true), (1, true)])
  | .suback _ _ props codes => [(2, true), ((propSection props).length, true)] ++ codes.map (fun _ => (1, true))
  | .unsubscribe _ props filters =>
    [(2, true), ((propSection props).length, true)] ++ filters.map (fun f => ((encBin f).length, true))
  | .ping _ => []
  | .disconnect form _ props | .auth form _ props =>
    match form with
    | .bare => []
    | .reason => [(1, true)]
    | .full => [(1, true), ((propSection props).length, true)]

/-- `k` falls strictly inside a (non-exempt) field of the map -/
def StrictlyInside (lens : List (Nat × Bool)) (k : Nat) : Prop :=
  ∃ pre f post, lens = pre ++ f :: post ∧ f.2 = true
    ∧ (pre.map (·.1)).sum < k ∧ k < (pre.map (·.1)).sum + f.1

end Spec
