import Spec.Types
/-!
# Spec.Parse — a strict reader of MQTT v5.0 frames, written from the specification

Own primitive readers (no decoder of the library model is used). Strict: minimal variable byte
integers, remaining length equal to the bytes that follow, nothing after the frame, reserved
flag bits as prescribed, booleans 0/1, properties allowed for the packet, of their wire type,
at most once unless repeatable, every list that must be non-empty non-empty.
-/
namespace Spec
open Mq (Bytes WVal WKind PropOcc)

abbrev P := StateT Bytes Option

def rdU8 : P UInt8 := fun s => match s with
  | b :: r => some (b, r)
  | [] => none

def rdU16 : P UInt16 := do
  let a ← rdU8
  let b ← rdU8
  pure (UInt16.ofNat (a.toNat * 256 + b.toNat))

def rdU32 : P UInt32 := do
  let a ← rdU16
  let b ← rdU16
  pure (UInt32.ofNat (a.toNat * 65536 + b.toNat))

def rdBytes (n : Nat) : P Bytes := fun s => if n ≤ s.length then some (s.take n, s.drop n) else none

def rdStr : P Bytes := do
  let n ← rdU16
  rdBytes n.toNat

/-- variable byte integer: at most four bytes, minimal form -/
def rdVbiAux : Nat → Nat → Nat → P Nat
  | 0, _, _ => fun _ => none
  | fuel + 1, mult, acc => do
    let b ← rdU8
    let acc' := acc + (b.toNat % 128) * mult
    if b.toNat < 128 then
      -- minimal: a multi-byte encoding must not end in a zero byte
      if mult > 1 ∧ b = 0 then failure else pure acc'
    else rdVbiAux fuel (mult * 128) acc'

def rdVbi : P Nat := rdVbiAux 4 1 0

def rdBool : P Bool := do
  let b ← rdU8
  if b = 0 then pure false else if b = 1 then pure true else failure

def rdVal : WKind → P WVal
  | .u8 => do pure (.u8 (← rdU8))
  | .u16 => do pure (.u16 (← rdU16))
  | .u32 => do pure (.u32 (← rdU32))
  | .bool => do pure (.bool (← rdBool))
  | .bin => do pure (.bin (← rdStr))
  | .pair => do
    let k ← rdStr
    let v ← rdStr
    pure (.pair k v)
  | .vb => do pure (.vb (← rdVbi))

/-- the occurrences inside a property section of exactly these bytes -/
def rdOccs : Nat → Bytes → Option (List PropOcc)
  | 0, _ => none
  | fuel + 1, s =>
    match s with
    | [] => some []
    | id :: r =>
      match propDef? id with
      | none => none
      | some d =>
        match (rdVal d.ty).run r with
        | none => none
        | some (v, r') => (rdOccs fuel r').map fun rest => ⟨id, v⟩ :: rest

/-- property length + properties, checked against the rules of packet kind `k` -/
def rdProps (k : Nat) : P (List PropOcc) := do
  let n ← rdVbi
  let sect ← rdBytes n
  match rdOccs (sect.length + 1) sect with
  | some ps => if propsLegal k ps then pure ps else failure
  | none => failure

def atEnd : P Bool := fun s => some (s.isEmpty, s)
def rest : P Bytes := fun s => some (s, [])
def guardP (c : Bool) : P Unit := if c then pure () else failure

def rdFilters : Nat → P (List (Bytes × UInt8))
  | 0 => failure
  | fuel + 1 => do
    if (← atEnd) then pure [] else
    let f ← rdStr
    let o ← rdU8
    let more ← rdFilters fuel
    pure ((f, o) :: more)

def rdTopics : Nat → P (List Bytes)
  | 0 => failure
  | fuel + 1 => do
    if (← atEnd) then pure [] else
    let f ← rdStr
    let more ← rdTopics fuel
    pure (f :: more)

/-- reason code / properties with the short forms of §3.4.2.1, §3.14.2.1, §3.15.2.1 -/
def rdFormed (k : Nat) : P (Form × UInt8 × List PropOcc) := do
  if (← atEnd) then pure (.bare, 0, []) else
  let reason ← rdU8
  if (← atEnd) then pure (.reason, reason, []) else
  let ps ← rdProps k
  pure (.full, reason, ps)

def parseBody (first : UInt8) : P SPacket := do
  let ty := (first >>> 4).toNat
  let fl := first &&& 0x0f
  match ty with
  | 1 => do
    guardP (fl == 0)
    let name ← rdStr
    guardP (name == [0x4d, 0x51, 0x54, 0x54])
    let ver ← rdU8
    guardP (ver == 5)
    let cf ← rdU8
    guardP (cf &&& 1 == 0)
    let hasWill := cf &&& 4 != 0
    let wq := (cf >>> 3) &&& 3
    let wr := cf &&& 0x20 != 0
    guardP (wq ≤ 2 && (hasWill || (wq == 0 && !wr)))
    let ka ← rdU16
    let ps ← rdProps 1
    let cid ← rdStr
    let will ← if hasWill then do
        let wps ← rdProps willK
        let topic ← rdStr
        let payload ← rdStr
        pure (some { qos := wq, retain := wr, props := wps, topic := topic, payload := payload : SWill })
      else pure none
    let user ← if cf &&& 0x80 != 0 then do pure (some (← rdStr)) else pure none
    let pass ← if cf &&& 0x40 != 0 then do pure (some (← rdStr)) else pure none
    guardP (← atEnd)
    pure (.connect (cf &&& 2 != 0) ka ps cid will user pass)
  | 2 => do
    guardP (fl == 0)
    let af ← rdU8
    guardP (af ≤ 1)
    let reason ← rdU8
    let ps ← rdProps 2
    guardP (← atEnd)
    pure (.connack (af == 1) reason ps)
  | 3 => do
    let qos := (fl >>> 1) &&& 3
    guardP (qos ≤ 2)
    let topic ← rdStr
    let pid ← if qos = 0 then pure 0 else rdU16
    let ps ← rdProps 3
    let payload ← rest
    pure (.publish (fl &&& 8 != 0) qos (fl &&& 1 != 0) topic pid ps payload)
  | 4 | 5 | 6 | 7 => do
    guardP (fl == (if ty = 6 then 2 else 0))
    let pid ← rdU16
    let (form, reason, ps) ← rdFormed ty
    guardP (← atEnd)
    pure (.ack ty pid form reason ps)
  | 8 => do
    guardP (fl == 2)
    let pid ← rdU16
    let ps ← rdProps 8
    let fs ← rdFilters ((← get).length + 1)
    guardP (!fs.isEmpty && fs.all fun f => f.2 &&& 0xc0 == 0 && f.2 &&& 3 != 3 && f.2 &&& 0x30 != 0x30)
    pure (.subscribe pid ps fs)
  | 9 | 11 => do
    guardP (fl == 0)
    let pid ← rdU16
    let ps ← rdProps ty
    let codes ← rest
    guardP (!codes.isEmpty)
    pure (.suback ty pid ps codes)
  | 10 => do
    guardP (fl == 2)
    let pid ← rdU16
    let ps ← rdProps 10
    let fs ← rdTopics ((← get).length + 1)
    guardP (!fs.isEmpty)
    pure (.unsubscribe pid ps fs)
  | 12 | 13 => do
    guardP (fl == 0)
    guardP (← atEnd)
    pure (.ping ty)
  | 14 => do
    guardP (fl == 0)
    let (form, reason, ps) ← rdFormed 14
    guardP (← atEnd)
    pure (.disconnect form reason ps)
  | 15 => do
    guardP (fl == 0)
    let (form, reason, ps) ← rdFormed 15
    guardP (← atEnd)
    guardP (form != .reason)
    pure (.auth form reason ps)
  | _ => failure

/-- exactly one frame: first byte, minimal remaining length equal to what follows, the body -/
def parse (frame : Bytes) : Option SPacket :=
  match frame with
  | [] => none
  | first :: r =>
    match rdVbi.run r with
    | none => none
    | some (n, body) =>
      if n ≠ body.length then none
      else match (parseBody first).run body with
        | some (sp, []) => some sp
        | _ => none

def kindName : Nat → String
  | 1 => "Connect" | 2 => "ConnAck" | 3 => "Publish" | 4 => "PubAck" | 5 => "PubRec" | 6 => "PubRel"
  | 7 => "PubComp" | 8 => "Subscribe" | 9 => "SubAck" | 10 => "Unsubscribe" | 11 => "UnsubAck"
  | 12 => "PingReq" | 13 => "PingResp" | 14 => "Disconnect" | _ => "Auth"

end Spec
