import Proofs.DPublish
/-!
# Proofs.DConnect — CONNECT: the model's decoder on every legal frame
-/
namespace Mq
open Spec (SPacket SWill propVal userPropsOf vvOf propsLegal subIDsOf willK occLegal propDefs propDef?)

theorem Connect.agree : tablesAgree 1 Connect.table = true := by decide
theorem Connect.agreeWill : tablesAgree willK Connect.willTable = true := by decide

/-! ## the flags byte the specification writes, read by the model's accessors -/

/-- `connectFlags` over finite data: clean start, will (QoS 0..2, retain), user name present, password present -/
def cfFin (cs : Bool) (w : Option (Fin 3 × Bool)) (u p : Bool) : UInt8 :=
  (if u then (0x80 : UInt8) else 0) ||| (if p then (0x40 : UInt8) else 0)
  ||| (match w with
       | some (q, r) => (if r then (0x20 : UInt8) else 0) ||| (UInt8.ofNat q.val <<< 3) ||| 0x04
       | none => 0)
  ||| (if cs then (0x02 : UInt8) else 0)

theorem cfFin_none : ∀ (cs u p : Bool),
    let f := cfFin cs none u p
    has f 2 = cs ∧ has f 128 = u ∧ has f 64 = p ∧ has f 4 = false ∧ has f 1 = false := by
  decide

theorem cfFin_some : ∀ (cs u p : Bool) (q : Fin 3) (r : Bool),
    let f := cfFin cs (some (q, r)) u p
    has f 2 = cs ∧ has f 128 = u ∧ has f 64 = p ∧ has f 4 = true ∧ has f 1 = false
      ∧ has f 32 = r ∧ (f &&& (16 ||| 8)) >>> 3 = UInt8.ofNat q.val := by
  decide

theorem connectFlags_eq (cs : Bool) (will : Option SWill) (hq : ∀ w, will = some w → w.qos ≤ 2)
    (u p : Option Bytes) :
    SPacket.connectFlags cs will u p
      = cfFin cs (will.map fun w => (⟨w.qos.toNat % 3, Nat.mod_lt _ (by decide)⟩, w.retain)) u.isSome p.isSome := by
  unfold SPacket.connectFlags cfFin
  cases will with
  | none => rfl
  | some w =>
    have hw : w.qos ≤ 2 := hq w rfl
    have hlt : w.qos.toNat < 3 := by
      have : w.qos.toNat ≤ 2 := hw
      omega
    simp only [Option.map_some, Nat.mod_eq_of_lt hlt, UInt8.ofNat_toNat]

/-- the will message `UnmarshalBinary` starts from: `NewPublish()` with the will QoS and retain bits -/
theorem will_base_table : ∀ (q : Fin 3) (r : Bool),
    let w := (Publish.new.setQoS (UInt8.ofNat q.val)).setRetain r
    w.qos = UInt8.ofNat q.val ∧ w.retain = r ∧ w.duplicate = false := by
  decide

/-! ## properties that cannot occur -/

theorem propVal_absent (id : UInt8) (d : VV) : ∀ (ps : List PropOcc), (∀ o ∈ ps, o.id ≠ id) → propVal ps id d = d := by
  intro ps
  unfold propVal
  induction ps generalizing d with
  | nil => intro _; rfl
  | cons o t ih =>
    intro h
    simp only [List.foldl_cons]
    have : ¬ (o.id = id) := h o (by simp)
    simp only [this, if_false]
    exact ih d (fun x hx => h x (by simp [hx]))

theorem subIDsOf_absent : ∀ (ps : List PropOcc), (∀ o ∈ ps, o.id ≠ 0x0b) → subIDsOf ps = [] := by
  intro ps
  induction ps with
  | nil => intro _; rfl
  | cons o t ih =>
    intro h
    have h1 : ¬ (o.id = 0x0b) := h o (by simp)
    simp only [subIDsOf, List.filterMap_cons]
    have := ih (fun x hx => h x (by simp [hx]))
    simp only [subIDsOf] at this
    cases o.val <;> simp [h1, this]

theorem will_ids : ∀ d ∈ propDefs, d.allowed.contains willK = true → d.id ≠ 0x23 ∧ d.id ≠ 0x0b := by decide

theorem will_no_alias_subid (ps : List PropOcc) (hl : propsLegal willK ps = true) :
    (∀ o ∈ ps, o.id ≠ 0x23) ∧ (∀ o ∈ ps, o.id ≠ 0x0b) := by
  have key : ∀ o ∈ ps, o.id ≠ 0x23 ∧ o.id ≠ 0x0b := by
    intro o ho
    have := legal_all willK ps hl o ho
    unfold occLegal at this
    split at this
    · rename_i d hd
      obtain ⟨hm, hid⟩ := propDef?_some _ _ hd
      simp only [Bool.and_eq_true] at this
      have := will_ids d hm this.1.1
      rw [hid] at this; exact this
    · simp at this
  exact ⟨fun o ho => (key o ho).1, fun o ho => (key o ho).2⟩

end Mq

namespace Mq
open Spec (SPacket SWill propVal userPropsOf vvOf propsLegal subIDsOf willK occLegal propDefs propDef?)

/-- what the fold over the CONNECT properties leaves alone -/
theorem Connect.fold_frame (ps : List PropOcc) (p : Connect) :
    let q := ps.foldl Connect.applyOcc p
    q.flags = p.flags ∧ q.fixed = p.fixed ∧ q.protocolName = p.protocolName ∧ q.protocolVersion = p.protocolVersion
      ∧ q.keepAlive = p.keepAlive ∧ q.clientID = p.clientID ∧ q.username = p.username ∧ q.password = p.password
      ∧ q.will = p.will ∧ q.willPayload = p.willPayload ∧ q.willDelayInterval = p.willDelayInterval :=
  ⟨Connect.fold_same0 ps p, Connect.fold_same1 ps p, Connect.fold_same2 ps p, Connect.fold_same3 ps p,
   Connect.fold_same4 ps p, Connect.fold_same5 ps p, Connect.fold_same6 ps p, Connect.fold_same7 ps p,
   Connect.fold_same8 ps p, Connect.fold_same9 ps p, Connect.fold_same10 ps p⟩

/-- what the fold over the will properties leaves alone -/
theorem Will.fold_frame (ps : List PropOcc) (s : UInt32 × Publish) :
    let t := ps.foldl Connect.applyWillOcc s
    t.2.fixed = s.2.fixed ∧ t.2.packetID = s.2.packetID ∧ t.2.topicAlias = s.2.topicAlias
      ∧ t.2.topicName = s.2.topicName ∧ t.2.payload = s.2.payload ∧ t.2.subscriptionIDs = s.2.subscriptionIDs :=
  ⟨Will.fold_same0 ps s, Will.fold_same1 ps s, Will.fold_same2 ps s, Will.fold_same3 ps s, Will.fold_same4 ps s,
   Will.fold_same5 ps s⟩

/-- the optional string fields at the end of the CONNECT payload -/
def optField (o : Option Bytes) : Bytes := match o with | some u => encBin u | none => []

theorem readUsername_enc (p : Connect) (hu : p.username = []) (u : Option Bytes) (hflag : has p.flags Connect.fUsername = u.isSome)
    (hok : ∀ x, u = some x → x.length < 65536) (suf : Bytes) :
    p.readUsername { rest := optField u ++ suf, st := .ok } = ({ rest := suf, st := .ok }, { p with username := u.getD [] }) := by
  unfold Connect.readUsername
  cases u with
  | none =>
    simp only [Option.isSome_none] at hflag
    have he : ({ p with username := [] } : Connect) = p := by rw [← hu]
    simp only [hflag, optField, List.nil_append, Option.getD_none, he]
    rfl
  | some x =>
    simp only [Option.isSome_some] at hflag
    simp only [hflag, if_true, optField, hu, get_bin x (hok x rfl)]
    rfl

theorem readPassword_enc (p : Connect) (hu : p.password = []) (u : Option Bytes) (hflag : has p.flags Connect.fPassword = u.isSome)
    (hok : ∀ x, u = some x → x.length < 65536) (suf : Bytes) :
    p.readPassword { rest := optField u ++ suf, st := .ok } = ({ rest := suf, st := .ok }, { p with password := u.getD [] }) := by
  unfold Connect.readPassword
  cases u with
  | none =>
    simp only [Option.isSome_none] at hflag
    have he : ({ p with password := [] } : Connect) = p := by rw [← hu]
    simp only [hflag, optField, List.nil_append, Option.getD_none, he]
    rfl
  | some x =>
    simp only [Option.isSome_some] at hflag
    simp only [hflag, if_true, optField, hu, get_bin x (hok x rfl)]
    rfl

end Mq

namespace Mq
open Spec (SPacket SWill propVal userPropsOf vvOf propsLegal subIDsOf willK occLegal propDefs propDef?)

theorem readWill_none (p : Connect) (hflag : has p.flags Connect.fWillFlag = false) (b : Buf) :
    p.readWill b = (b, p) := by
  unfold Connect.readWill; simp [hflag]

theorem readWill_some (p : Connect) (w : SWill) (hflag : has p.flags Connect.fWillFlag = true)
    (hq : p.willQoS = w.qos) (hr : has p.flags Connect.fWillRetain = w.retain) (hwp : p.willPayload = [])
    (hl : propsLegal willK w.props = true) (ht : w.topic.length < 65536) (hp : w.payload.length < 65536)
    (suf : Bytes) (hlen : (w.props.flatMap encOcc).length < 268435456) :
    p.readWill { rest := Spec.propSection w.props ++ (encBin w.topic ++ (encBin w.payload ++ suf)), st := .ok }
      = ({ rest := suf, st := .ok },
         { p with
            willDelayInterval := (w.props.foldl Connect.applyWillOcc
              (p.willDelayInterval, (Publish.new.setQoS w.qos).setRetain w.retain)).1,
            willPayload := w.payload,
            will := some { (w.props.foldl Connect.applyWillOcc
              (p.willDelayInterval, (Publish.new.setQoS w.qos).setRetain w.retain)).2 with
                topicName := w.topic, payload := w.payload } }) := by
  unfold Connect.readWill
  simp only [hflag, if_true, hq, hr, hwp]
  rw [getAny_spec willK Connect.willTable Connect.agreeWill w.props hl (fun _ => []) (fun _ => rfl) _ hlen]
  simp only [get_bin w.topic ht, get_bin w.payload hp]

end Mq

namespace Mq
open Spec (SPacket SWill propVal userPropsOf vvOf propsLegal subIDsOf willK occLegal propDefs propDef?)

/-- the will part of the CONNECT payload -/
def willBytes (will : Option SWill) : Bytes :=
  match will with
  | some w => Spec.propSection w.props ++ encBin w.topic ++ encBin w.payload
  | none => []

theorem connect_body_eq (cs : Bool) (ka : UInt16) (ps : List PropOcc) (cid : Bytes) (will : Option SWill)
    (user pass : Option Bytes) :
    (SPacket.connect cs ka ps cid will user pass).body
      = encBin Connect.mqtt5 ++ (5 :: SPacket.connectFlags cs will user pass :: (encU16 ka ++ (Spec.propSection ps
          ++ (encBin cid ++ (willBytes will ++ (optField user ++ (optField pass ++ []))))))) := by
  simp only [SPacket.body, willBytes, optField, Connect.mqtt5, List.append_assoc, List.cons_append, List.nil_append,
    List.append_nil]
  cases will <;> cases user <;> cases pass <;> simp

/-- the decoder on a legal CONNECT; the remaining-length bound is used only for the two property
sections, so four bytes of slack are harmless (used by the C01 substitution argument, where the
`MQTT`/5 twin of a packet with a shorter protocol name is up to four bytes longer) -/
theorem D_connect_core (cs : Bool) (ka : UInt16) (ps : List PropOcc) (cid : Bytes) (will : Option SWill)
    (user pass : Option Bytes) (hleg : (SPacket.connect cs ka ps cid will user pass).legal = true)
    (hlen : (SPacket.connect cs ka ps cid will user pass).body.length < 268435456 + 4) :
    ∃ q, frameOutcome 0x10 (SPacket.connect cs ka ps cid will user pass).body = .pkt (.connect q)
      ∧ (Packet.connect q).view = (SPacket.connect cs ka ps cid will user pass).view := by
  have hm5 : (encBin Connect.mqtt5).length = 6 := rfl
  simp only [SPacket.legal, Bool.and_eq_true, SPacket.strOK, decide_eq_true_eq] at hleg
  obtain ⟨⟨⟨⟨hps, hcid⟩, hwill⟩, huser⟩, hpass⟩ := hleg
  have hwq : ∀ w, will = some w → w.qos ≤ 2 := by
    intro w hw; subst hw; simp only [Bool.and_eq_true, decide_eq_true_eq] at hwill; exact hwill.1.1.1
  have hfl := connectFlags_eq cs will hwq user pass
  generalize hflv : SPacket.connectFlags cs will user pass = fl at hfl
  have hdisp : Packet.dispatch 0x10 = .connect { fixed := 0x10 } := by decide
  have hbody := connect_body_eq cs ka ps cid will user pass
  rw [hflv] at hbody
  rw [hbody] at hlen ⊢
  have hbne : (encBin Connect.mqtt5 ++ (5 :: fl :: (encU16 ka ++ (Spec.propSection ps
          ++ (encBin cid ++ (willBytes will ++ (optField user ++ (optField pass ++ [])))))))).length ≠ 0 := by simp
  have hsl : (ps.flatMap encOcc).length < 268435456 := by
    have := section_len_le ps
    simp only [List.length_append, List.length_cons] at hlen
    omega
  have hok : ∀ o ∈ ps, PropOk Connect.table o :=
    fun o ho => propOk_of_legal 1 Connect.table Connect.agree o (legal_all 1 ps hps o ho)
  unfold frameOutcome
  rw [if_neg hbne, hdisp]
  simp only [Packet.unmarshal, Connect.unmarshal]
  -- stage 1: protocol name, version, flags, keep alive
  have s1 : Connect.readHead { fixed := 0x10 } { rest := encBin Connect.mqtt5 ++ (5 :: fl :: (encU16 ka ++ (Spec.propSection ps
          ++ (encBin cid ++ (willBytes will ++ (optField user ++ (optField pass ++ []))))))), st := .ok }
      = ({ rest := Spec.propSection ps ++ (encBin cid ++ (willBytes will ++ (optField user ++ (optField pass ++ [])))), st := .ok },
         { fixed := 0x10, protocolName := Connect.mqtt5, protocolVersion := 5, flags := fl, keepAlive := ka }) := by
    simp only [Connect.readHead, get_bin Connect.mqtt5 (by decide), get_u8, get_u16]
  rw [s1]
  -- stage 2: properties
  generalize hP1 : ({ fixed := 0x10, protocolName := Connect.mqtt5, protocolVersion := 5, flags := fl, keepAlive := ka } : Connect) = P1
  have hP1u : P1.username = [] ∧ P1.password = [] ∧ P1.clientID = [] ∧ P1.will = none ∧ P1.willPayload = []
      ∧ P1.willDelayInterval = 0 ∧ P1.flags = fl ∧ P1.authData = [] ∧ P1.authMethod = [] ∧ P1.userProps = [] := by
    subst hP1; exact ⟨rfl, rfl, rfl, rfl, rfl, rfl, rfl, rfl, rfl, rfl⟩
  simp only [Connect.readProps]
  rw [getAny_spec 1 Connect.table Connect.agree ps hps (Connect.binInit P1)
    (by intro id; simp only [Connect.binInit, hP1u.2.2.2.2.2.2.2.1, hP1u.2.2.2.2.2.2.2.2.1]; split <;> (try split) <;> rfl) _ hsl]
  simp only []
  obtain ⟨ff, _, fpn, fpv, fka, fcid, fun_, fpw, fwill, fwp, fwd⟩ := Connect.fold_frame ps P1
  generalize hP2 : ps.foldl Connect.applyOcc P1 = P2 at *
  -- stage 3: client identifier
  have s3 : P2.readClientID { rest := encBin cid ++ (willBytes will ++ (optField user ++ (optField pass ++ []))), st := .ok }
      = ({ rest := willBytes will ++ (optField user ++ (optField pass ++ [])), st := .ok }, { P2 with clientID := cid }) := by
    simp only [Connect.readClientID, fcid, hP1u.2.2.1, get_bin cid hcid]
  rw [s3]
  -- flags as the model reads them
  cases will with
  | none =>
    obtain ⟨c2, c128, c64, c4, _⟩ := cfFin_none cs user.isSome pass.isSome
    simp only [Option.map_none] at hfl
    rw [← hfl] at c2 c128 c64 c4
    simp only [willBytes, List.nil_append]
    rw [readWill_none _ (by simp only [ff, hP1u.2.2.2.2.2.2.1]; exact c4)]
    simp only []
    rw [readUsername_enc _ (by simp only [fun_, hP1u.1]) user (by simp only [ff, hP1u.2.2.2.2.2.2.1]; exact c128)
      (fun x hx => by subst hx; simpa using huser)]
    simp only []
    rw [readPassword_enc _ (by simp only [fpw, hP1u.2.1]) pass (by simp only [ff, hP1u.2.2.2.2.2.2.1]; exact c64)
      (fun x hx => by subst hx; simpa using hpass)]
    refine ⟨_, rfl, ?_⟩
    simp only [Packet.view, Connect.view, SPacket.view, ff, fpn, fpv, fka, fwill, fwd, hP1u.2.2.2.1, hP1u.2.2.2.2.2.1,
      hP1u.2.2.2.2.2.2.1, hflv, List.append_nil]
    rw [← hP2]
    simp only [Connect.fold_authData ps hok, Connect.fold_authMethod ps hok, Connect.fold_maxPacketSize ps hok,
      Connect.fold_receiveMax ps hok, Connect.fold_requestProblemInfo ps hok, Connect.fold_requestResponseInfo ps hok,
      Connect.fold_sessionExpiryInterval ps hok, Connect.fold_topicAliasMax ps hok, Connect.fold_ups ps hok]
    subst hP1
    simp [c2, Connect.fCleanStart, Connect.mqtt5]
  | some w =>
    simp only [Bool.and_eq_true, decide_eq_true_eq] at hwill
    obtain ⟨⟨⟨hwqos, hwps⟩, hwt⟩, hwpl⟩ := hwill
    have hlt : w.qos.toNat < 3 := by
      have : w.qos.toNat ≤ 2 := hwqos
      omega
    obtain ⟨c2, c128, c64, c4, _, c32, cq⟩ := cfFin_some cs user.isSome pass.isSome ⟨w.qos.toNat % 3, Nat.mod_lt _ (by decide)⟩ w.retain
    simp only [Option.map_some] at hfl
    rw [← hfl] at c2 c128 c64 c4 c32 cq
    simp only [Nat.mod_eq_of_lt hlt, UInt8.ofNat_toNat] at cq
    have hokw : ∀ o ∈ w.props, PropOk Connect.willTable o :=
      fun o ho => propOk_of_legal willK Connect.willTable Connect.agreeWill o (legal_all willK w.props hwps o ho)
    have hslw : (w.props.flatMap encOcc).length < 268435456 := by
      have := section_len_le w.props
      simp only [willBytes, List.length_append, List.length_cons] at hlen
      omega
    have hwb : willBytes (some w) ++ (optField user ++ (optField pass ++ []))
        = Spec.propSection w.props ++ (encBin w.topic ++ (encBin w.payload ++ (optField user ++ (optField pass ++ [])))) := by
      simp only [willBytes, List.append_assoc]
    rw [hwb]
    rw [readWill_some _ w (by simp only [ff, hP1u.2.2.2.2.2.2.1]; exact c4)
      (by simp only [Connect.willQoS, ff, hP1u.2.2.2.2.2.2.1, Connect.fWillQoS1, Connect.fWillQoS2]; exact cq)
      (by simp only [ff, hP1u.2.2.2.2.2.2.1]; exact c32) (by simp only [fwp, hP1u.2.2.2.2.1]) hwps hwt hwpl _ hslw]
    simp only []
    rw [readUsername_enc _ (by simp only [fun_, hP1u.1]) user (by simp only [ff, hP1u.2.2.2.2.2.2.1]; exact c128)
      (fun x hx => by subst hx; simpa using huser)]
    simp only []
    rw [readPassword_enc _ (by simp only [fpw, hP1u.2.1]) pass (by simp only [ff, hP1u.2.2.2.2.2.2.1]; exact c64)
      (fun x hx => by subst hx; simpa using hpass)]
    refine ⟨_, rfl, ?_⟩
    -- the will message the decoder built
    obtain ⟨b1, b2, b3⟩ := will_base_table ⟨w.qos.toNat % 3, Nat.mod_lt _ (by decide)⟩ w.retain
    simp only [Nat.mod_eq_of_lt hlt, UInt8.ofNat_toNat] at b1 b2 b3
    generalize hbase : (Publish.new.setQoS w.qos).setRetain w.retain = base at *
    have hbz : base.contentType = [] ∧ base.correlationData = [] ∧ base.responseTopic = [] ∧ base.payloadFormat = false
        ∧ base.messageExpiryInterval = 0 ∧ base.userProps = [] ∧ base.packetID = 0 ∧ base.topicAlias = 0
        ∧ base.subscriptionIDs = [] := by
      subst hbase; simp [Publish.setRetain, Publish.setQoS, Publish.new]
    obtain ⟨wf, wpid, walias, _, _, wsubs⟩ := Will.fold_frame w.props (P2.willDelayInterval, base)
    obtain ⟨noalias, nosub⟩ := will_no_alias_subid w.props hwps
    have hqos : ∀ (x : Publish), x.fixed = base.fixed → x.qos = w.qos ∧ x.retain = w.retain ∧ x.duplicate = false := by
      intro x hx
      have h1 : x.qos = base.qos := by simp [Publish.qos, hx]
      have h2 : x.retain = base.retain := by simp [Publish.retain, hx]
      have h3 : x.duplicate = base.duplicate := by simp [Publish.duplicate, hx]
      rw [h1, h2, h3]; exact ⟨b1, b2, b3⟩
    obtain ⟨q1, q2, q3⟩ := hqos { (w.props.foldl Connect.applyWillOcc (P2.willDelayInterval, base)).2 with
      topicName := w.topic, payload := w.payload } wf
    simp only [Publish.qos, Publish.retain, Publish.duplicate] at q1 q2 q3
    simp only [Packet.view, Connect.view, SPacket.view, SPacket.publishView, Publish.view, Publish.qos, Publish.retain,
      Publish.duplicate, q1, q2, q3, ff, fpn, fpv, fka, hP1u.2.2.2.2.2.2.1, hflv, List.map_cons, List.map_nil,
      Will.fold_willDelayInterval w.props hokw, Will.fold_payloadFormat w.props hokw,
      Will.fold_messageExpiryInterval w.props hokw, Will.fold_contentType w.props hokw,
      Will.fold_responseTopic w.props hokw, Will.fold_correlationData w.props hokw, Will.fold_ups w.props hokw,
      wpid, walias, wsubs, fwd, hP1u.2.2.2.2.2.1, hbz.1, hbz.2.1, hbz.2.2.1, hbz.2.2.2.1, hbz.2.2.2.2.1, hbz.2.2.2.2.2.1,
      hbz.2.2.2.2.2.2.1, hbz.2.2.2.2.2.2.2.1, hbz.2.2.2.2.2.2.2.2,
      propVal_absent 0x23 (.n 0) w.props noalias, subIDsOf_absent w.props nosub]
    rw [← hP2]
    simp only [Connect.fold_authData ps hok, Connect.fold_authMethod ps hok, Connect.fold_maxPacketSize ps hok,
      Connect.fold_receiveMax ps hok, Connect.fold_requestProblemInfo ps hok, Connect.fold_requestResponseInfo ps hok,
      Connect.fold_sessionExpiryInterval ps hok, Connect.fold_topicAliasMax ps hok, Connect.fold_ups ps hok]
    subst hP1
    simp [c2, Connect.fCleanStart, Connect.mqtt5]
    obtain ⟨wf0, wpid0, walias0, _, _, wsubs0⟩ := Will.fold_frame w.props ((0 : UInt32), base)
    simp only [] at wf0 wpid0 walias0 wsubs0
    have hb := hqos (w.props.foldl Connect.applyWillOcc ((0 : UInt32), base)).2 wf0
    simp only [Publish.qos, Publish.retain, Publish.duplicate] at hb
    refine ⟨hb.2.2, ?_, ?_, hb.2.1, ?_, ?_⟩
    · rw [wpid0, hbz.2.2.2.2.2.2.1]; rfl
    · rw [hb.1]
    · rw [wsubs0, hbz.2.2.2.2.2.2.2.2]
    · rw [walias0, hbz.2.2.2.2.2.2.2.1]; rfl

end Mq

namespace Mq
open Spec (SPacket SWill)
theorem D_connect (cs : Bool) (ka : UInt16) (ps : List PropOcc) (cid : Bytes) (will : Option SWill)
    (user pass : Option Bytes) (hl : (SPacket.connect cs ka ps cid will user pass).Legal) :
    ∃ q, frameOutcome 0x10 (SPacket.connect cs ka ps cid will user pass).body = .pkt (.connect q)
      ∧ (Packet.connect q).view = (SPacket.connect cs ka ps cid will user pass).view :=
  D_connect_core cs ka ps cid will user pass hl.1 (by have := hl.2; omega)
end Mq
