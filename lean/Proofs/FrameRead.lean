import Proofs.PacketSafe
/-!
# Proofs.FrameRead — ReadPacket on a complete frame, on a sequence of frames, on a cut frame
-/
namespace Mq

/-- a frame as the fixed header describes it: first byte, minimal remaining length, that many bytes -/
def frameBytes (b0 : UInt8) (body : Bytes) : Bytes := b0 :: (encVb body.length ++ body)

/-- what ReadPacket makes of one complete frame — a function of the frame alone -/
def frameOutcome (b0 : UInt8) (body : Bytes) : RP :=
  if body.length = 0 then .pkt (Packet.dispatch b0)
  else match (Packet.dispatch b0).unmarshal body with
    | (q, .ok) => .pkt q
    | (_, .err e) => .err e
    | (_, .panic) => .panic
    | (_, .hang) => .hang

theorem purePacket_frame (b0 : UInt8) (body rest : Bytes) (hn : body.length < 268435456) (fail : IOErr) :
    purePacket (frameBytes b0 body ++ rest) fail = (frameOutcome b0 body, rest) := by
  unfold purePacket frameBytes frameOutcome
  simp only [List.cons_append, List.append_assoc, pureVb_enc _ hn]
  by_cases h0 : body.length = 0
  · have : body = [] := List.eq_nil_of_length_eq_zero h0
    subst this
    simp
  · have hle : body.length ≤ (body ++ rest).length := by simp
    simp only [h0, if_false, hle, if_true, List.take_left, List.drop_left]
    rcases (Packet.dispatch b0).unmarshal body with ⟨q, st⟩
    cases st <;> rfl

theorem frameBytes_length (b0 : UInt8) (body : Bytes) :
    (frameBytes b0 body).length = 1 + (encVb body.length).length + body.length := by
  simp [frameBytes]; omega

/-- a proper prefix of a frame is answered with an error that wraps the way the stream ended -/
theorem purePacket_cut (b0 : UInt8) (body : Bytes) (hn : body.length < 268435456) (fail : IOErr) (k : Nat)
    (hk : k < (frameBytes b0 body).length) :
    ∃ got, (purePacket ((frameBytes b0 body).take k) fail).1 = .err (.io (shortErr fail got)) := by
  unfold frameBytes at hk ⊢
  cases k with
  | zero => exact ⟨[], by simp [purePacket]⟩
  | succ j =>
    simp only [List.take_succ_cons, purePacket]
    by_cases hj : j < (encVb body.length).length
    · have : (encVb body.length ++ body).take j = (encVb body.length).take j := by
        rw [List.take_append_of_le_length (by omega)]
      rw [this, pureVb_prefix _ hn fail j hj]
      exact ⟨[], rfl⟩
    · have hsplit : (encVb body.length ++ body).take j = encVb body.length ++ body.take (j - (encVb body.length).length) := by
        rw [List.take_append]
        congr 1
        exact List.take_of_length_le (by omega)
      rw [hsplit, pureVb_enc _ hn]
      simp only [List.length_cons, List.length_append] at hk
      have hm : j - (encVb body.length).length < body.length := by omega
      have h0 : body.length ≠ 0 := by omega
      have hshort : ¬ (body.length ≤ (body.take (j - (encVb body.length).length)).length) := by
        rw [List.length_take]; omega
      simp only [h0, if_false, hshort]
      exact ⟨_, rfl⟩

theorem shortErr_is (fail : IOErr) (got : Bytes) (h : fail ≠ .eof) : (Err.io (shortErr fail got)).is fail = true := by
  cases fail with
  | eof => exact absurd rfl h
  | unexpectedEOF => simp [shortErr, Err.is]
  | custom t => simp [shortErr, Err.is]

/-- successive ReadPacket calls -/
def readAll : Nat → Reader → List RP × Reader
  | 0, r => ([], r)
  | k + 1, r =>
    let x := readPacket r
    let rest := readAll k x.2
    (x.1 :: rest.1, rest.2)

/-- a concatenation of frames followed by anything is returned frame by frame, in order; the
bytes after the frames are left untouched -/
theorem readAll_frames : ∀ (fs : List (UInt8 × Bytes)) (r : Reader) (tail : Bytes),
    (∀ f ∈ fs, f.2.length < 268435456) →
    r.data = fs.flatMap (fun f => frameBytes f.1 f.2) ++ tail →
    (readAll fs.length r).1 = fs.map (fun f => frameOutcome f.1 f.2)
      ∧ (readAll fs.length r).2.data = tail ∧ (readAll fs.length r).2.fail = r.fail := by
  intro fs
  induction fs with
  | nil => intro r tail _ hd; simp [readAll, hd]
  | cons f fs ih =>
    intro r tail hall hd
    simp only [List.length_cons, readAll, List.map_cons]
    obtain ⟨p1, p2, _⟩ := readPacket_pure r
    have hd' : r.data = frameBytes f.1 f.2 ++ (fs.flatMap (fun f => frameBytes f.1 f.2) ++ tail) := by
      rw [hd]; simp
    rw [hd', purePacket_frame _ _ _ (hall f (by simp))] at p1
    simp only [Prod.mk.injEq] at p1
    have := ih (readPacket r).2 tail (fun g hg => hall g (by simp [hg])) p1.2
    exact ⟨by rw [p1.1, this.1], this.2.1, by rw [this.2.2, p2]⟩

end Mq
