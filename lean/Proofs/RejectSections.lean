import Proofs.RejectProps
import Proofs.RejectConnect
/-!
# Proofs.RejectSections — a frame whose property section contains a malformed property is rejected,
per packet type (C09 b, c, d at property positions)
-/
namespace Mq
open Spec (propsLegal)

/-- the malformed-property lemma for a prefix `pre` that is legal by the specification -/
theorem getAny_bad_legal (k : Nat) (tbl : PropTable) (hagree : tablesAgree k tbl = true) (pre : List PropOcc)
    (hl : propsLegal k pre = true) (init : UInt8 → Bytes) (hinit : ∀ id, init id = [])
    (bad suf : Bytes) (L : Nat) (hL : L < 268435456) (hreach : (pre.flatMap encOcc).length < L) (hbad : BadProp tbl bad) :
    (({ rest := encVb L ++ (pre.flatMap encOcc ++ (bad ++ suf)), st := .ok } : Buf).getAny tbl (lastBin init)).1.Failed :=
  getAny_bad tbl (lastBin init) pre bad suf L hL
    (fun o ho => propOk_of_legal k tbl hagree o (legal_all k pre hl o ho))
    (binFresh_of_legal k pre hl init hinit) hreach hbad

theorem getAny_bad_noOld (k : Nat) (tbl : PropTable) (hagree : tablesAgree k tbl = true) (pre : List PropOcc)
    (hl : propsLegal k pre = true) (bad suf : Bytes) (L : Nat) (hL : L < 268435456)
    (hreach : (pre.flatMap encOcc).length < L) (hbad : BadProp tbl bad) :
    (({ rest := encVb L ++ (pre.flatMap encOcc ++ (bad ++ suf)), st := .ok } : Buf).getAny tbl noOld).1.Failed :=
  getAny_bad tbl noOld pre bad suf L hL
    (fun o ho => propOk_of_legal k tbl hagree o (legal_all k pre hl o ho))
    (fun _ _ _ _ _ => rfl) hreach hbad

/-- the bytes of a property section that declares length `L`, starts with the well-formed
properties `pre` and continues with the malformed `bad` (then anything) -/
def badSection (L : Nat) (pre : List PropOcc) (bad suf : Bytes) : Bytes :=
  encVb L ++ (pre.flatMap encOcc ++ (bad ++ suf))

/-! Each theorem: the fixed fields in front of the section are arbitrary legal values; `suf` stands
for whatever follows the malformed property (more properties, payload). -/

theorem bad_connack (fl rc : UInt8) (L : Nat) (pre : List PropOcc) (bad suf : Bytes) (hl : propsLegal 2 pre = true)
    (hL : L < 268435456) (hreach : (pre.flatMap encOcc).length < L) (hbad : BadProp ConnAck.table bad) :
    ∃ e, frameOutcome 0x20 (fl :: rc :: badSection L pre bad suf) = .err e := by
  apply frameOutcome_failed _ _ (by simp)
  have hdisp : Packet.dispatch 0x20 = .connack { fixed := 0x20 } := by decide
  rw [hdisp]
  simp only [Packet.unmarshal, ConnAck.unmarshal, get_u8, badSection]
  obtain ⟨e, he⟩ := getAny_bad_legal 2 ConnAck.table ConnAck.agree pre hl
    (ConnAck.binInit { fixed := 0x20, flags := fl, reasonCode := rc })
    (by intro id; simp [ConnAck.binInit]; repeat' split <;> rfl) bad suf L hL hreach hbad
  exact ⟨e, he⟩

theorem bad_disconnect (rc : UInt8) (L : Nat) (pre : List PropOcc) (bad suf : Bytes) (hl : propsLegal 14 pre = true)
    (hL : L < 268435456) (hreach : (pre.flatMap encOcc).length < L) (hbad : BadProp Disconnect.table bad) :
    ∃ e, frameOutcome 0xe0 (rc :: badSection L pre bad suf) = .err e := by
  apply frameOutcome_failed _ _ (by simp)
  have hdisp : Packet.dispatch 0xe0 = .disconnect { fixed := 0xe0 } := by decide
  rw [hdisp]
  simp only [Packet.unmarshal, Disconnect.unmarshal, get_u8, badSection]
  obtain ⟨e, he⟩ := getAny_bad_legal 14 Disconnect.table Disconnect.agree pre hl
    (Disconnect.binInit { fixed := 0xe0, reasonCode := rc })
    (by intro id; simp [Disconnect.binInit]; repeat' split <;> rfl) bad suf L hL hreach hbad
  exact ⟨e, he⟩

theorem bad_auth (rc : UInt8) (L : Nat) (pre : List PropOcc) (bad suf : Bytes) (hl : propsLegal 15 pre = true)
    (hL : L < 268435456) (hreach : (pre.flatMap encOcc).length < L) (hbad : BadProp Auth.table bad) :
    ∃ e, frameOutcome 0xf0 (rc :: badSection L pre bad suf) = .err e := by
  apply frameOutcome_failed _ _ (by simp)
  have hdisp : Packet.dispatch 0xf0 = .auth { fixed := 0xf0 } := by decide
  rw [hdisp]
  simp only [Packet.unmarshal, Auth.unmarshal, get_u8, badSection]
  obtain ⟨e, he⟩ := getAny_bad_legal 15 Auth.table Auth.agree pre hl
    (Auth.binInit { fixed := 0xf0, reasonCode := rc })
    (by intro id; simp [Auth.binInit]; repeat' split <;> rfl) bad suf L hL hreach hbad
  exact ⟨e, he⟩

/-- PUBACK, PUBREC, PUBREL, PUBCOMP (first byte `b0` one of 0x40, 0x50, 0x62, 0x70) -/
theorem bad_ack (b0 : UInt8) (k : Nat) (hk : (b0 = 0x40 ∧ k = 4) ∨ (b0 = 0x50 ∧ k = 5) ∨ (b0 = 0x62 ∧ k = 6) ∨ (b0 = 0x70 ∧ k = 7))
    (pid : UInt16) (rc : UInt8) (L : Nat) (pre : List PropOcc) (bad suf : Bytes) (hl : propsLegal k pre = true)
    (hL : L < 268435456) (hreach : (pre.flatMap encOcc).length < L) (hbad : BadProp Ack.table bad) :
    ∃ e, frameOutcome b0 (encU16 pid ++ (rc :: badSection L pre bad suf)) = .err e := by
  apply frameOutcome_failed _ _ (by simp [encU16])
  have h2 : (encU16 pid ++ (rc :: badSection L pre bad suf)).length > 2 := by simp [encU16]
  have core : ∀ (fx : UInt8) (hagree : tablesAgree k Ack.table = true),
      ∃ e, (({ fixed := fx } : Ack).unmarshal (encU16 pid ++ (rc :: badSection L pre bad suf))).2 = .err e := by
    intro fx hagree
    simp only [Ack.unmarshal, h2, if_true, get_u16, get_u8, badSection]
    obtain ⟨e, he⟩ := getAny_bad_legal k Ack.table hagree pre hl (fun _ => ([] : Bytes)) (fun _ => rfl) bad suf L hL hreach hbad
    exact ⟨e, he⟩
  rcases hk with ⟨rfl, rfl⟩ | ⟨rfl, rfl⟩ | ⟨rfl, rfl⟩ | ⟨rfl, rfl⟩
  · have hd : Packet.dispatch 0x40 = .puback { fixed := 0x40 } := by decide
    rw [hd]; simp only [Packet.unmarshal]; exact core _ Ack.agree4
  · have hd : Packet.dispatch 0x50 = .pubrec { fixed := 0x50 } := by decide
    rw [hd]; simp only [Packet.unmarshal]; exact core _ Ack.agree5
  · have hd : Packet.dispatch 0x62 = .pubrel { fixed := 0x62 } := by decide
    rw [hd]; simp only [Packet.unmarshal]; exact core _ Ack.agree6
  · have hd : Packet.dispatch 0x70 = .pubcomp { fixed := 0x70 } := by decide
    rw [hd]; simp only [Packet.unmarshal]; exact core _ Ack.agree7

/-- SUBACK (0x90), UNSUBACK (0xb0) -/
theorem bad_suback (b0 : UInt8) (k : Nat) (hk : (b0 = 0x90 ∧ k = 9) ∨ (b0 = 0xb0 ∧ k = 11))
    (pid : UInt16) (L : Nat) (pre : List PropOcc) (bad suf : Bytes) (hl : propsLegal k pre = true)
    (hL : L < 268435456) (hreach : (pre.flatMap encOcc).length < L) (hbad : BadProp SubAck.table bad) :
    ∃ e, frameOutcome b0 (encU16 pid ++ badSection L pre bad suf) = .err e := by
  apply frameOutcome_failed _ _ (by simp [encU16])
  have core : ∀ (fx : UInt8) (hagree : tablesAgree k SubAck.table = true),
      ∃ e, (({ fixed := fx } : SubAck).unmarshal (encU16 pid ++ badSection L pre bad suf)).2 = .err e := by
    intro fx hagree
    simp only [SubAck.unmarshal, get_u16, badSection]
    obtain ⟨e, he⟩ := getAny_bad_legal k SubAck.table hagree pre hl (fun _ => ([] : Bytes)) (fun _ => rfl) bad suf L hL hreach hbad
    exact ⟨e, he⟩
  rcases hk with ⟨rfl, rfl⟩ | ⟨rfl, rfl⟩
  · have hd : Packet.dispatch 0x90 = .suback { fixed := 0x90 } := by decide
    rw [hd]; simp only [Packet.unmarshal]; exact core _ SubAck.agree9
  · have hd : Packet.dispatch 0xb0 = .unsuback { fixed := 0xb0 } := by decide
    rw [hd]; simp only [Packet.unmarshal]; exact core _ SubAck.agree11

theorem bad_subscribe (pid : UInt16) (L : Nat) (pre : List PropOcc) (bad suf : Bytes) (hl : propsLegal 8 pre = true)
    (hL : L < 268435456) (hreach : (pre.flatMap encOcc).length < L) (hbad : BadProp Subscribe.table bad) :
    ∃ e, frameOutcome 0x82 (encU16 pid ++ badSection L pre bad suf) = .err e := by
  apply frameOutcome_failed _ _ (by simp [encU16])
  have hd : Packet.dispatch 0x82 = .subscribe { fixed := 0x82 } := by decide
  rw [hd]
  simp only [Packet.unmarshal, Subscribe.unmarshal, get_u16, badSection]
  have h1 := getAny_bad_noOld 8 Subscribe.table Subscribe.agree pre hl bad suf L hL hreach hbad
  exact Subscribe.filterLoop_failed _ _ _ h1 (by omega)

theorem bad_unsubscribe (pid : UInt16) (L : Nat) (pre : List PropOcc) (bad suf : Bytes) (hl : propsLegal 10 pre = true)
    (hL : L < 268435456) (hreach : (pre.flatMap encOcc).length < L) (hbad : BadProp ([] : PropTable) bad) :
    ∃ e, frameOutcome 0xa2 (encU16 pid ++ badSection L pre bad suf) = .err e := by
  apply frameOutcome_failed _ _ (by simp [encU16])
  have hd : Packet.dispatch 0xa2 = .unsubscribe { fixed := 0xa2 } := by decide
  rw [hd]
  simp only [Packet.unmarshal, Unsubscribe.unmarshal, get_u16, badSection]
  have h1 := getAny_bad_noOld 10 [] Unsubscribe.agree pre hl bad suf L hL hreach hbad
  exact Unsubscribe.filterLoop_failed _ _ _ h1 (by omega)

/-- PUBLISH: first byte of a legal PUBLISH (`dup`, `qos ≤ 2`, `retain`), topic, packet identifier iff QoS > 0 -/
theorem bad_publish (dup retain : Bool) (qos : UInt8) (hq : qos ≤ 2) (topic : Bytes) (ht : topic.length < 65536) (pid : UInt16)
    (L : Nat) (pre : List PropOcc) (bad suf : Bytes) (hl : propsLegal 3 pre = true)
    (hL : L < 268435456) (hreach : (pre.flatMap encOcc).length < L) (hbad : BadProp Publish.table bad) :
    ∃ e, frameOutcome (Spec.SPacket.publish dup qos retain topic pid [] []).firstByte
      (encBin topic ++ ((if qos = 0 then [] else encU16 pid) ++ badSection L pre bad suf)) = .err e := by
  obtain ⟨hdisp, _, _, _, hpid⟩ := publish_first dup retain qos hq topic pid [] []
  apply frameOutcome_failed _ _ (by simp [encBin])
  generalize (Spec.SPacket.publish dup qos retain topic pid [] []).firstByte = fb at *
  rw [hdisp]
  simp only [Packet.unmarshal]
  apply Publish.unmarshal_failed_props
  have hpid' : ∀ t : Bytes, ({ fixed := fb, topicName := t } : Publish).hasPacketID = decide (qos ≠ 0) := fun _ => hpid
  have hh : ({ fixed := fb } : Publish).readHead
        { rest := encBin topic ++ ((if qos = 0 then [] else encU16 pid) ++ badSection L pre bad suf) }
      = ({ rest := badSection L pre bad suf, st := .ok },
          { fixed := fb, topicName := topic, packetID := if qos = 0 then 0 else pid }) := by
    simp only [Publish.readHead, get_bin topic ht, hpid']
    by_cases h0 : qos = 0
    · simp [h0]
    · simp [h0, get_u16]
  rw [hh]
  simp only [Publish.readProps, badSection]
  exact getAny_bad_legal 3 Publish.table Publish.agree pre hl _
    (by intro id; simp [Publish.binInit]; repeat' split <;> rfl) bad suf L hL hreach hbad

/-- CONNECT, in the CONNECT properties -/
theorem bad_connect (fl : UInt8) (ka : UInt16) (L : Nat) (pre : List PropOcc) (bad suf : Bytes) (hl : propsLegal 1 pre = true)
    (hL : L < 268435456) (hreach : (pre.flatMap encOcc).length < L) (hbad : BadProp Connect.table bad) :
    ∃ e, frameOutcome 0x10 (encBin Connect.mqtt5 ++ (5 :: fl :: (encU16 ka ++ badSection L pre bad suf))) = .err e := by
  apply frameOutcome_failed _ _ (by simp [encBin])
  have hd : Packet.dispatch 0x10 = .connect { fixed := 0x10 } := by decide
  rw [hd]
  simp only [Packet.unmarshal]
  apply Connect.fail2
  simp only [Connect.run2, Connect.run1, Connect.readHead_run, Connect.readProps, badSection]
  exact getAny_bad_legal 1 Connect.table Connect.agree pre hl _
    (by intro id; simp only [Connect.binInit, Connect.P1]; split <;> (try split) <;> rfl) bad suf L hL hreach hbad

/-- the stages of CONNECT up to the client identifier, on their encoded input followed by anything -/
theorem Connect.run3_full (fl : UInt8) (ka : UInt16) (ps : List PropOcc) (hps : propsLegal 1 ps = true)
    (hsl : (ps.flatMap encOcc).length < 268435456) (cid : Bytes) (hcid : cid.length < 65536) (rest : Bytes) :
    ∃ P3 : Connect, Connect.run3 { fixed := 0x10 }
        (encBin Connect.mqtt5 ++ (5 :: fl :: (encU16 ka ++ (Spec.propSection ps ++ (encBin cid ++ rest)))))
        = ({ rest := rest, st := .ok }, P3) ∧ P3.flags = fl ∧ P3.willPayload = [] := by
  obtain ⟨f2, f2cid, _, _, f2wp⟩ := Connect.P2_facts fl ka ps
  refine ⟨{ (ps.foldl Connect.applyOcc (Connect.P1 fl ka)) with clientID := cid }, ?_, f2, f2wp⟩
  simp only [Connect.run3, Connect.run2, Connect.run1, Connect.readHead_run]
  rw [Connect.readProps_run fl ka ps hps _ hsl]
  simp only [Connect.readClientID, f2cid, get_bin cid hcid]

/-- CONNECT, in the will properties (will flag set in the flags byte `fl`) -/
theorem bad_connect_will (fl : UInt8) (hfl : has fl Connect.fWillFlag = true) (ka : UInt16) (ps : List PropOcc)
    (hps : propsLegal 1 ps = true) (hsl : (ps.flatMap encOcc).length < 268435456) (cid : Bytes) (hcid : cid.length < 65536)
    (L : Nat) (pre : List PropOcc) (bad suf : Bytes) (hl : propsLegal Spec.willK pre = true)
    (hL : L < 268435456) (hreach : (pre.flatMap encOcc).length < L) (hbad : BadProp Connect.willTable bad) :
    ∃ e, frameOutcome 0x10 (encBin Connect.mqtt5 ++ (5 :: fl :: (encU16 ka ++ (Spec.propSection ps ++ (encBin cid
      ++ badSection L pre bad suf))))) = .err e := by
  apply frameOutcome_failed _ _ (by simp [encBin])
  have hd : Packet.dispatch 0x10 = .connect { fixed := 0x10 } := by decide
  rw [hd]
  simp only [Packet.unmarshal]
  apply Connect.fail4
  obtain ⟨P3, hrun, hf, hwp⟩ := Connect.run3_full fl ka ps hps hsl cid hcid (badSection L pre bad suf)
  simp only [Connect.run4, hrun]
  unfold Connect.readWill
  simp only [hf, hfl, if_true, hwp, badSection]
  exact get_failed _ _ _ (get_failed _ _ _
    (getAny_bad_legal Spec.willK Connect.willTable Connect.agreeWill pre hl (fun _ => []) (fun _ => rfl) bad suf L hL hreach hbad))

end Mq
