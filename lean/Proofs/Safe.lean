import Mq.Stream
import Proofs.Buf
/-!
# Proofs.Safe — every decoder returns normally (no panic, no hang) with bounded list growth

`elems` counts the list elements a packet holds (user properties, subscription identifiers,
filters, reason codes) — the quantity C05 bounds by the number of input bytes.
-/
namespace Mq

theorem foldl_elems_le {P : Type} (elems : P → Nat) (f : P → PropOcc → P)
    (hstep : ∀ p o, elems (f p o) ≤ elems p + 1) :
    ∀ (occs : List PropOcc) (p : P), elems (occs.foldl f p) ≤ elems p + occs.length := by
  intro occs
  induction occs with
  | nil => intro p; simp
  | cons o t ih =>
    intro p
    simp only [List.foldl_cons, List.length_cons]
    have := ih (f p o)
    have := hstep p o
    omega

theorem safe_init (data : Bytes) : ({ rest := data } : Buf).Safe := by simp [Buf.Safe]

/-! ## Ack -/

def Ack.elems (p : Ack) : Nat := p.userProps.length

theorem Ack.applyOcc_elems (p : Ack) (o : PropOcc) : (p.applyOcc o).elems ≤ p.elems + 1 := by
  unfold Ack.applyOcc Ack.elems
  split <;> (try split) <;> simp

theorem Ack.unmarshal_safe (p : Ack) (data : Bytes) :
    (p.unmarshal data).2 ≠ .panic ∧ (p.unmarshal data).2 ≠ .hang
      ∧ (p.unmarshal data).1.elems ≤ p.elems + data.length := by
  unfold Ack.unmarshal
  simp only []
  have h1 := get_safe _ decU16 p.packetID (safe_init data) noPanic_u16
  have l1 := get_rest_le ({ rest := data } : Buf) decU16 p.packetID
  split
  · have h2 := get_safe _ decU8 p.reasonCode h1 noPanic_u8
    have l2 := get_rest_le (({ rest := data } : Buf).get decU16 p.packetID).1 decU8 p.reasonCode
    have h3 := getAny_safe _ Ack.table (lastBin fun _ => p.reason) h2
    refine ⟨h3.1.1, h3.1.2, ?_⟩
    have := foldl_elems_le Ack.elems Ack.applyOcc Ack.applyOcc_elems
      (((({ rest := data } : Buf).get decU16 p.packetID).1.get decU8 p.reasonCode).1.getAny Ack.table
        (lastBin fun _ => p.reason)).2
      { p with packetID := (({ rest := data } : Buf).get decU16 p.packetID).2,
               reasonCode := ((({ rest := data } : Buf).get decU16 p.packetID).1.get decU8 p.reasonCode).2 }
    have h32 := h3.2
    simp only [Ack.elems] at this ⊢
    simp only [] at l1 l2
    omega
  · exact ⟨h1.1, h1.2, by simp [Ack.elems]⟩

/-! ## Ping, Undefined -/

theorem Ping.unmarshal_safe (p : Ping) (data : Bytes) :
    (p.unmarshal data).2 ≠ .panic ∧ (p.unmarshal data).2 ≠ .hang := by
  simp [Ping.unmarshal]

theorem Undefined.unmarshal_safe (p : Undefined) (data : Bytes) :
    (p.unmarshal data).2 ≠ .panic ∧ (p.unmarshal data).2 ≠ .hang := by
  simp [Undefined.unmarshal]

/-! ## Disconnect, Auth, ConnAck -/

def Disconnect.elems (p : Disconnect) : Nat := p.userProps.length
def Auth.elems (p : Auth) : Nat := p.userProps.length
def ConnAck.elems (p : ConnAck) : Nat := p.userProps.length

theorem Disconnect.applyOcc_elems (p : Disconnect) (o : PropOcc) : (p.applyOcc o).elems ≤ p.elems + 1 := by
  unfold Disconnect.applyOcc Disconnect.elems
  split <;> (try split) <;> (try split) <;> simp

theorem Auth.applyOcc_elems (p : Auth) (o : PropOcc) : (p.applyOcc o).elems ≤ p.elems + 1 := by
  unfold Auth.applyOcc Auth.elems
  split <;> (try split) <;> (try split) <;> (try split) <;> simp

theorem ConnAck.applyOcc_elems (p : ConnAck) (o : PropOcc) : (p.applyOcc o).elems ≤ p.elems + 1 := by
  unfold ConnAck.applyOcc ConnAck.elems
  split <;> (try split) <;> (try split) <;> (try split) <;> (try split) <;> (try split) <;> (try split) <;> simp

theorem Disconnect.unmarshal_safe (p : Disconnect) (data : Bytes) :
    (p.unmarshal data).2 ≠ .panic ∧ (p.unmarshal data).2 ≠ .hang
      ∧ (p.unmarshal data).1.elems ≤ p.elems + data.length := by
  unfold Disconnect.unmarshal
  simp only []
  have h1 := get_safe _ decU8 p.reasonCode (safe_init data) noPanic_u8
  have l1 := get_rest_le ({ rest := data } : Buf) decU8 p.reasonCode
  have h3 := getAny_safe (({ rest := data } : Buf).get decU8 p.reasonCode).1 Disconnect.table
    (lastBin (Disconnect.binInit { p with reasonCode := (({ rest := data } : Buf).get decU8 p.reasonCode).2 })) h1
  refine ⟨h3.1.1, h3.1.2, ?_⟩
  have := foldl_elems_le Disconnect.elems Disconnect.applyOcc Disconnect.applyOcc_elems
    ((({ rest := data } : Buf).get decU8 p.reasonCode).1.getAny Disconnect.table
      (lastBin (Disconnect.binInit { p with reasonCode := (({ rest := data } : Buf).get decU8 p.reasonCode).2 }))).2
    { p with reasonCode := (({ rest := data } : Buf).get decU8 p.reasonCode).2 }
  have h32 := h3.2
  simp only [Disconnect.elems] at this ⊢
  simp only [] at l1
  omega

theorem Auth.unmarshal_safe (p : Auth) (data : Bytes) :
    (p.unmarshal data).2 ≠ .panic ∧ (p.unmarshal data).2 ≠ .hang
      ∧ (p.unmarshal data).1.elems ≤ p.elems + data.length := by
  unfold Auth.unmarshal
  simp only []
  have h1 := get_safe _ decU8 p.reasonCode (safe_init data) noPanic_u8
  have l1 := get_rest_le ({ rest := data } : Buf) decU8 p.reasonCode
  have h3 := getAny_safe (({ rest := data } : Buf).get decU8 p.reasonCode).1 Auth.table
    (lastBin (Auth.binInit { p with reasonCode := (({ rest := data } : Buf).get decU8 p.reasonCode).2 })) h1
  refine ⟨h3.1.1, h3.1.2, ?_⟩
  have := foldl_elems_le Auth.elems Auth.applyOcc Auth.applyOcc_elems
    ((({ rest := data } : Buf).get decU8 p.reasonCode).1.getAny Auth.table
      (lastBin (Auth.binInit { p with reasonCode := (({ rest := data } : Buf).get decU8 p.reasonCode).2 }))).2
    { p with reasonCode := (({ rest := data } : Buf).get decU8 p.reasonCode).2 }
  have h32 := h3.2
  simp only [Auth.elems] at this ⊢
  simp only [] at l1
  omega

theorem ConnAck.unmarshal_safe (p : ConnAck) (data : Bytes) :
    (p.unmarshal data).2 ≠ .panic ∧ (p.unmarshal data).2 ≠ .hang
      ∧ (p.unmarshal data).1.elems ≤ p.elems + data.length := by
  unfold ConnAck.unmarshal
  simp only []
  generalize hb1 : ({ rest := data } : Buf).get decU8 p.flags = r1
  have h1 : r1.1.Safe := by rw [← hb1]; exact get_safe _ decU8 p.flags (safe_init data) noPanic_u8
  have l1 : r1.1.rest.length ≤ data.length := by rw [← hb1]; exact get_rest_le _ _ _
  generalize hb2 : r1.1.get decU8 p.reasonCode = r2
  have h2 : r2.1.Safe := by rw [← hb2]; exact get_safe _ decU8 p.reasonCode h1 noPanic_u8
  have l2 : r2.1.rest.length ≤ r1.1.rest.length := by rw [← hb2]; exact get_rest_le _ _ _
  generalize hq : ({ p with flags := r1.2, reasonCode := r2.2 } : ConnAck) = q
  have h3 := getAny_safe r2.1 ConnAck.table (lastBin q.binInit) h2
  refine ⟨h3.1.1, h3.1.2, ?_⟩
  have := foldl_elems_le ConnAck.elems ConnAck.applyOcc ConnAck.applyOcc_elems
    (r2.1.getAny ConnAck.table (lastBin q.binInit)).2 q
  have h32 := h3.2
  have hqe : q.elems = p.elems := by subst hq; rfl
  simp only [ConnAck.elems] at this hqe ⊢
  omega

/-! ## SubAck -/

def SubAck.elems (p : SubAck) : Nat := p.userProps.length + p.reasonCodes.length

theorem SubAck.applyOcc_ups (p : SubAck) (o : PropOcc) :
    (p.applyOcc o).userProps.length ≤ p.userProps.length + 1 := by
  unfold SubAck.applyOcc
  split <;> (try split) <;> simp

/-- the reason codes are replaced (not appended), so only user properties accumulate -/
theorem SubAck.unmarshal_safe (p : SubAck) (data : Bytes) :
    (p.unmarshal data).2 ≠ .panic ∧ (p.unmarshal data).2 ≠ .hang
      ∧ (p.unmarshal data).1.elems ≤ p.userProps.length + data.length := by
  unfold SubAck.unmarshal
  simp only []
  generalize hb1 : ({ rest := data } : Buf).get decU16 p.packetID = r1
  have h1 : r1.1.Safe := by rw [← hb1]; exact get_safe _ decU16 p.packetID (safe_init data) noPanic_u16
  have l1 : r1.1.rest.length ≤ data.length := by rw [← hb1]; exact get_rest_le _ _ _
  have h3 := getAny_safe r1.1 SubAck.table (lastBin fun _ => p.reasonString) h1
  refine ⟨h3.1.1, h3.1.2, ?_⟩
  have := foldl_elems_le (fun (x : SubAck) => x.userProps.length) SubAck.applyOcc SubAck.applyOcc_ups
    (r1.1.getAny SubAck.table (lastBin fun _ => p.reasonString)).2 { p with packetID := r1.2 }
  have h32 := h3.2
  simp only [SubAck.elems] at this ⊢
  split <;> simp <;> omega

/-! ## Subscribe / Unsubscribe: the filter loops -/

theorem decBin_ok_w (old d v : Bytes) (w : Nat) (h : decBin old d = .ok v w) : 2 ≤ w := by
  unfold decBin at h
  generalize binLen d = n at h
  simp only at h
  split at h
  · simp at h
  · split at h <;> (simp at h; omega)

theorem Subscribe.filterLoop_safe :
    ∀ (fuel : Nat) (b : Buf) (acc : List TopicFilter), b.Safe → b.rest.length < fuel →
      (Subscribe.filterLoop fuel b acc).1.Safe
        ∧ (Subscribe.filterLoop fuel b acc).2.length ≤ acc.length + b.rest.length + 1 := by
  intro fuel
  induction fuel with
  | zero => intro b acc _ h; omega
  | succ fuel ih =>
    intro b acc hs hf
    unfold Subscribe.filterLoop
    simp only []
    generalize hb1 : b.get (decBin []) [] = r1
    have h1 : r1.1.Safe := by rw [← hb1]; exact get_safe _ _ _ hs (noPanic_bin [])
    have l1 : r1.1.rest.length ≤ b.rest.length := by rw [← hb1]; exact get_rest_le _ _ _
    generalize hb2 : r1.1.get decU8 0 = r2
    have h2 : r2.1.Safe := by rw [← hb2]; exact get_safe _ _ _ h1 noPanic_u8
    have l2 : r2.1.rest.length ≤ r1.1.rest.length := by rw [← hb2]; exact get_rest_le _ _ _
    split
    · exact ⟨h2, by simp⟩
    · rename_i hok
      have hok2 : r2.1.st = .ok := by simpa using hok
      split
      · exact ⟨h2, by simp⟩
      · -- both gets succeeded: the first consumed at least two bytes
        have hok1 : r1.1.st = .ok := by rw [← hb2] at hok2; exact get_st_ok _ _ _ hok2
        have hb : b.st = .ok := by rw [← hb1] at hok1; exact get_st_ok _ _ _ hok1
        have hinv : b.rest ≠ [] ∧ ∃ v w, decBin [] b.rest = .ok v w ∧ r1.1.rest = b.rest.drop w ∧ r1.2 = v := by
          have := get_ok_inv b (decBin []) [] (by rw [hb1]; exact hok1) hb
          rw [hb1] at this
          obtain ⟨a1, a2, a3, a4, _, a5, a6⟩ := this
          exact ⟨a1, a2, a3, a4, a5, a6⟩
        obtain ⟨hne, v, w, hdec, hrest, _⟩ := hinv
        have hw := decBin_ok_w _ _ _ _ hdec
        have hpos : 0 < b.rest.length := List.length_pos_iff.mpr hne
        have hlt : r1.1.rest.length < b.rest.length := by rw [hrest, List.length_drop]; omega
        have := ih r2.1 (acc ++ [⟨r1.2, r2.2⟩]) h2 (by omega)
        refine ⟨this.1, ?_⟩
        have := this.2
        simp at this
        omega

def Subscribe.elems (p : Subscribe) : Nat := p.userProps.length + p.filters.length

theorem Subscribe.applyOcc_inv (p : Subscribe) (o : PropOcc) :
    (p.applyOcc o).userProps.length ≤ p.userProps.length + 1 ∧ (p.applyOcc o).filters = p.filters := by
  unfold Subscribe.applyOcc
  split <;> (try split) <;> simp

theorem Subscribe.foldl_inv : ∀ (occs : List PropOcc) (p : Subscribe),
    (occs.foldl Subscribe.applyOcc p).userProps.length ≤ p.userProps.length + occs.length
      ∧ (occs.foldl Subscribe.applyOcc p).filters = p.filters := by
  intro occs
  induction occs with
  | nil => intro p; simp
  | cons o t ih =>
    intro p
    simp only [List.foldl_cons, List.length_cons]
    have a := ih (p.applyOcc o)
    have b := Subscribe.applyOcc_inv p o
    exact ⟨by omega, by rw [a.2, b.2]⟩

theorem Subscribe.unmarshal_safe (p : Subscribe) (data : Bytes) :
    (p.unmarshal data).2 ≠ .panic ∧ (p.unmarshal data).2 ≠ .hang
      ∧ (p.unmarshal data).1.elems ≤ p.elems + data.length + 1 := by
  unfold Subscribe.unmarshal
  simp only []
  generalize hb1 : ({ rest := data } : Buf).get decU16 p.packetID = r1
  have h1 : r1.1.Safe := by rw [← hb1]; exact get_safe _ decU16 p.packetID (safe_init data) noPanic_u16
  have l1 : r1.1.rest.length ≤ data.length := by rw [← hb1]; exact get_rest_le _ _ _
  generalize hq : ({ p with packetID := r1.2 } : Subscribe) = q
  have h3 := getAny_safe r1.1 Subscribe.table noOld h1
  generalize hr3 : r1.1.getAny Subscribe.table noOld = r3 at h3
  have hf := Subscribe.foldl_inv r3.2 q
  have h4 := Subscribe.filterLoop_safe (data.length + 1) r3.1 (r3.2.foldl Subscribe.applyOcc q).filters h3.1
    (by have := h3.2; omega)
  refine ⟨h4.1.1, h4.1.2, ?_⟩
  have hqu : q.userProps = p.userProps := by subst hq; rfl
  have hqf : q.filters = p.filters := by subst hq; rfl
  have h42 := h4.2
  have h32 := h3.2
  have hfl : (r3.2.foldl Subscribe.applyOcc q).filters.length = p.filters.length := by rw [hf.2, hqf]
  simp only [Subscribe.elems]
  have hf1 := hf.1
  rw [hqu] at hf1
  omega

theorem Unsubscribe.filterLoop_safe :
    ∀ (fuel : Nat) (b : Buf) (acc : List Bytes), b.Safe → b.rest.length < fuel →
      (Unsubscribe.filterLoop fuel b acc).1.Safe
        ∧ (Unsubscribe.filterLoop fuel b acc).2.length ≤ acc.length + b.rest.length + 1 := by
  intro fuel
  induction fuel with
  | zero => intro b acc _ h; omega
  | succ fuel ih =>
    intro b acc hs hf
    unfold Unsubscribe.filterLoop
    simp only []
    generalize hb1 : b.get (decBin []) [] = r1
    have h1 : r1.1.Safe := by rw [← hb1]; exact get_safe _ _ _ hs (noPanic_bin [])
    have l1 : r1.1.rest.length ≤ b.rest.length := by rw [← hb1]; exact get_rest_le _ _ _
    split
    · exact ⟨h1, by simp⟩
    · rename_i hok
      have hok1 : r1.1.st = .ok := by simpa using hok
      split
      · exact ⟨h1, by simp⟩
      · have hb : b.st = .ok := by rw [← hb1] at hok1; exact get_st_ok _ _ _ hok1
        have hinv : b.rest ≠ [] ∧ ∃ v w, decBin [] b.rest = .ok v w ∧ r1.1.rest = b.rest.drop w ∧ r1.2 = v := by
          have := get_ok_inv b (decBin []) [] (by rw [hb1]; exact hok1) hb
          rw [hb1] at this
          obtain ⟨a1, a2, a3, a4, _, a5, a6⟩ := this
          exact ⟨a1, a2, a3, a4, a5, a6⟩
        obtain ⟨hne, v, w, hdec, hrest, _⟩ := hinv
        have hw := decBin_ok_w _ _ _ _ hdec
        have hpos : 0 < b.rest.length := List.length_pos_iff.mpr hne
        have hlt : r1.1.rest.length < b.rest.length := by rw [hrest, List.length_drop]; omega
        have := ih r1.1 (acc ++ [r1.2]) h1 (by omega)
        refine ⟨this.1, ?_⟩
        have := this.2
        simp at this
        omega

def Unsubscribe.elems (p : Unsubscribe) : Nat := p.userProps.length + p.filters.length

theorem Unsubscribe.applyOcc_inv (p : Unsubscribe) (o : PropOcc) :
    (p.applyOcc o).userProps.length ≤ p.userProps.length + 1 ∧ (p.applyOcc o).filters = p.filters := by
  unfold Unsubscribe.applyOcc
  split <;> (try split) <;> simp

theorem Unsubscribe.foldl_inv : ∀ (occs : List PropOcc) (p : Unsubscribe),
    (occs.foldl Unsubscribe.applyOcc p).userProps.length ≤ p.userProps.length + occs.length
      ∧ (occs.foldl Unsubscribe.applyOcc p).filters = p.filters := by
  intro occs
  induction occs with
  | nil => intro p; simp
  | cons o t ih =>
    intro p
    simp only [List.foldl_cons, List.length_cons]
    have a := ih (p.applyOcc o)
    have b := Unsubscribe.applyOcc_inv p o
    exact ⟨by omega, by rw [a.2, b.2]⟩

theorem Unsubscribe.unmarshal_safe (p : Unsubscribe) (data : Bytes) :
    (p.unmarshal data).2 ≠ .panic ∧ (p.unmarshal data).2 ≠ .hang
      ∧ (p.unmarshal data).1.elems ≤ p.elems + data.length + 1 := by
  unfold Unsubscribe.unmarshal
  simp only []
  generalize hb1 : ({ rest := data } : Buf).get decU16 p.packetID = r1
  have h1 : r1.1.Safe := by rw [← hb1]; exact get_safe _ decU16 p.packetID (safe_init data) noPanic_u16
  have l1 : r1.1.rest.length ≤ data.length := by rw [← hb1]; exact get_rest_le _ _ _
  generalize hq : ({ p with packetID := r1.2 } : Unsubscribe) = q
  have h3 := getAny_safe r1.1 [] noOld h1
  generalize hr3 : r1.1.getAny [] noOld = r3 at h3
  have hf := Unsubscribe.foldl_inv r3.2 q
  have h4 := Unsubscribe.filterLoop_safe (data.length + 1) r3.1 (r3.2.foldl Unsubscribe.applyOcc q).filters h3.1
    (by have := h3.2; omega)
  refine ⟨h4.1.1, h4.1.2, ?_⟩
  have hqu : q.userProps = p.userProps := by subst hq; rfl
  have hqf : q.filters = p.filters := by subst hq; rfl
  have h42 := h4.2
  have h32 := h3.2
  have hfl : (r3.2.foldl Unsubscribe.applyOcc q).filters.length = p.filters.length := by rw [hf.2, hqf]
  simp only [Unsubscribe.elems]
  have hf1 := hf.1
  rw [hqu] at hf1
  omega

end Mq
