import Proofs.SpecBridge
/-!
# Proofs.DConnAck — the model's CONNACK decoder on every legal CONNACK frame
-/
namespace Mq
open Spec (SPacket propVal userPropsOf vvOf)

/-- per-field reading of a fold of `applyOcc` over well-typed occurrences -/
theorem fold_field {P : Type} (f : P → PropOcc → P) (g : P → VV) (id : UInt8) (ps : List PropOcc)
    (hstep : ∀ o ∈ ps, ∀ p, g (f p o) = if o.id = id then vvOf o.val else g p) :
    ∀ p, g (ps.foldl f p) = propVal ps id (g p) := by
  induction ps with
  | nil => intro p; rfl
  | cons o t ih =>
    intro p
    simp only [List.foldl_cons, propVal]
    rw [ih (fun x hx => hstep x (by simp [hx])) (f p o), hstep o (by simp) p]
    rfl

theorem fold_ups {P : Type} (f : P → PropOcc → P) (g : P → UserProps) (ps : List PropOcc)
    (hstep : ∀ o ∈ ps, ∀ p, g (f p o) = g p ++ userPropsOf [o]) :
    ∀ p, g (ps.foldl f p) = g p ++ userPropsOf ps := by
  induction ps with
  | nil => intro p; simp [userPropsOf]
  | cons o t ih =>
    intro p
    simp only [List.foldl_cons]
    rw [ih (fun x hx => hstep x (by simp [hx])) (f p o), hstep o (by simp) p]
    simp [userPropsOf, List.filterMap_cons]
    cases o.val <;> simp
    split <;> simp

/-- an occurrence that is `PropOk` for the table has the kind the table (or the inline cases) says -/
theorem ConnAck.agree : tablesAgree 2 ConnAck.table = true := by decide

end Mq
