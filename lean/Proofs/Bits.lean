import Mq.Ops
/-!
# Proofs.Bits — flag-byte facts, each a complete enumeration of a finite table
(`decide +kernel` over `Fin 256 × …`, lifted to `UInt8`; see DESIGN.md §7 C16)
-/
namespace Mq

theorem u8_of_fin (b : UInt8) : UInt8.ofNat (⟨b.toNat, b.toNat_lt⟩ : Fin 256).val = b := by simp

/-! ## a single flag toggled: that flag takes the value, every other flag keeps its own -/

def flagMasks : List UInt8 := [1, 2, 4, 8, 16, 32, 64, 128]

theorem toggle_table : ∀ n : Fin 256, ∀ v : Bool,
    flagMasks.all (fun m => flagMasks.all (fun m' =>
      has (toggle (UInt8.ofNat n.val) m v) m' == (if m = m' then v else has (UInt8.ofNat n.val) m'))) = true := by
  decide +kernel

theorem has_toggle (f : UInt8) (v : Bool) (m m' : UInt8) (hm : m ∈ flagMasks) (hm' : m' ∈ flagMasks) :
    has (toggle f m v) m' = if m = m' then v else has f m' := by
  have := toggle_table ⟨f.toNat, f.toNat_lt⟩ v
  rw [u8_of_fin] at this
  rw [List.all_eq_true] at this
  have := this m hm
  rw [List.all_eq_true] at this
  have := this m' hm'
  simpa using this

/-- the will-QoS field (bits 4–3) is not disturbed by toggling another flag -/
theorem willQoS_toggle_table : ∀ n : Fin 256, ∀ v : Bool,
    [(1 : UInt8), 2, 4, 32, 64, 128].all (fun m =>
      (toggle (UInt8.ofNat n.val) m v &&& 24) >>> 3 == ((UInt8.ofNat n.val) &&& 24) >>> 3) = true := by
  decide +kernel

theorem willQoS_toggle (f : UInt8) (v : Bool) (m : UInt8) (hm : m ∈ [(1 : UInt8), 2, 4, 32, 64, 128]) :
    (toggle f m v &&& 24) >>> 3 = (f &&& 24) >>> 3 := by
  have := willQoS_toggle_table ⟨f.toNat, f.toNat_lt⟩ v
  rw [u8_of_fin, List.all_eq_true] at this
  simpa using this m hm

/-! ## SetWill: will flag set, retain and QoS mirror the message, nothing else moves -/

/-- the flag byte after `SetWill` of a message with retain `r` and QoS `q` -/
def willFlags (f : UInt8) (r : Bool) (q : UInt8) : UInt8 :=
  toggle ((toggle (toggle f 4 true) 32 r) &&& ~~~((16 : UInt8) ||| 8)) (q <<< 3) (q < 3)

theorem willFlags_table : ∀ n : Fin 256, ∀ r : Bool, ∀ q : Fin 4,
    let f := UInt8.ofNat n.val
    let g := willFlags f r (UInt8.ofNat q.val)
    has g 4 = true ∧ has g 32 = r ∧ (g &&& 24) >>> 3 = (if q.val < 3 then UInt8.ofNat q.val else 0)
      ∧ has g 1 = has f 1 ∧ has g 2 = has f 2 ∧ has g 64 = has f 64 ∧ has g 128 = has f 128 := by
  decide +kernel

theorem willFlags_spec (f : UInt8) (r : Bool) (q : UInt8) (hq : q.toNat < 4) :
    let g := willFlags f r q
    has g 4 = true ∧ has g 32 = r ∧ (g &&& 24) >>> 3 = (if q.toNat < 3 then q else 0)
      ∧ has g 1 = has f 1 ∧ has g 2 = has f 2 ∧ has g 64 = has f 64 ∧ has g 128 = has f 128 := by
  have := willFlags_table ⟨f.toNat, f.toNat_lt⟩ r ⟨q.toNat, hq⟩
  simpa using this

/-! ## PUBLISH first byte: QoS, DUP, RETAIN never disturb one another -/

theorem publish_bits_table : ∀ n : Fin 256, ∀ v : Bool,
    let p : Publish := { fixed := UInt8.ofNat n.val }
    (p.setDuplicate v).duplicate = v ∧ (p.setDuplicate v).retain = p.retain ∧ (p.setDuplicate v).qos = p.qos
    ∧ (p.setRetain v).retain = v ∧ (p.setRetain v).duplicate = p.duplicate ∧ (p.setRetain v).qos = p.qos
    ∧ (p.setDuplicate v).fixed &&& 0xf0 = p.fixed &&& 0xf0 ∧ (p.setRetain v).fixed &&& 0xf0 = p.fixed &&& 0xf0 := by
  decide +kernel

theorem publish_qos_table : ∀ n : Fin 256, ∀ q : Fin 5,
    let p : Publish := { fixed := UInt8.ofNat n.val }
    (p.setQoS (UInt8.ofNat q.val)).qos = (if q.val ≤ 3 then UInt8.ofNat q.val else 0)
    ∧ (p.setQoS (UInt8.ofNat q.val)).duplicate = p.duplicate ∧ (p.setQoS (UInt8.ofNat q.val)).retain = p.retain
    ∧ (p.setQoS (UInt8.ofNat q.val)).fixed &&& 0xf0 = p.fixed &&& 0xf0 := by
  decide +kernel

/-- `SetQoS` looks at its argument only through `v = 1`, `v = 2`, `v = 3` -/
theorem setQoS_other (p : Publish) (v : UInt8) (h1 : v ≠ 1) (h2 : v ≠ 2) (h3 : v ≠ 3) :
    p.setQoS v = p.setQoS 4 := by
  simp [Publish.setQoS, h1, h2, h3]

end Mq
