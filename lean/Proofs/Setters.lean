import Proofs.Bits
/-!
# Proofs.Setters — CONNECT's flag byte follows the values, over every setter history
-/
namespace Mq

theorem Publish.qos_lt4 (p : Publish) : p.qos.toNat < 4 := by
  unfold Publish.qos
  split
  · decide
  · split
    · decide
    · split <;> decide

/-- the relation between CONNECT's flag byte and the values the setters received -/
structure Connect.FlagsInv (p : Connect) : Prop where
  user : has p.flags 128 = decide (p.username ≠ [])
  pass : has p.flags 64 = decide (p.password ≠ [])
  will : has p.flags 4 = p.will.isSome
  reserved : has p.flags 1 = false
  mirror : ∀ w, p.will = some w →
    has p.flags 32 = w.retain ∧ p.willQoS = (if w.qos.toNat < 3 then w.qos else 0)

theorem Connect.new_inv : Connect.new.FlagsInv := by
  constructor <;> simp [Connect.new, has, Connect.mqtt5]

theorem mem_masks_1 : (1 : UInt8) ∈ flagMasks := by decide
theorem mem_masks_2 : (2 : UInt8) ∈ flagMasks := by decide
theorem mem_masks_4 : (4 : UInt8) ∈ flagMasks := by decide
theorem mem_masks_32 : (32 : UInt8) ∈ flagMasks := by decide
theorem mem_masks_64 : (64 : UInt8) ∈ flagMasks := by decide
theorem mem_masks_128 : (128 : UInt8) ∈ flagMasks := by decide

theorem Connect.setWill_flags (p : Connect) (w : Publish) : (p.setWill w).flags = willFlags p.flags w.retain w.qos := by
  simp [Connect.setWill, Connect.setWillQoS, willFlags, Connect.fWillFlag, Connect.fWillRetain,
    Connect.fWillQoS1, Connect.fWillQoS2]

theorem Connect.willQoS_eq (p : Connect) : p.willQoS = (p.flags &&& 24) >>> 3 := by
  have : ((16 : UInt8) ||| 8) = 24 := by decide
  simp [Connect.willQoS, Connect.fWillQoS1, Connect.fWillQoS2, this]

theorem Connect.setWill_inv (p : Connect) (w : Publish) (h : p.FlagsInv) : (p.setWill w).FlagsInv := by
  have hs := willFlags_spec p.flags w.retain w.qos w.qos_lt4
  simp only [] at hs
  obtain ⟨s4, s32, sq, s1, s2, s64, s128⟩ := hs
  have hf := Connect.setWill_flags p w
  have hu : (p.setWill w).username = p.username := by simp [Connect.setWill, Connect.setWillQoS]
  have hp : (p.setWill w).password = p.password := by simp [Connect.setWill, Connect.setWillQoS]
  have hw : (p.setWill w).will = some w := by simp [Connect.setWill, Connect.setWillQoS]
  constructor
  · rw [hf, s128, hu]; exact h.user
  · rw [hf, s64, hp]; exact h.pass
  · rw [hf, s4, hw]; rfl
  · rw [hf, s1]; exact h.reserved
  · intro w' hw'
    rw [hw] at hw'
    cases hw'
    refine ⟨by rw [hf, s32], ?_⟩
    rw [Connect.willQoS_eq, hf, sq]

theorem Connect.setCleanStart_inv (p : Connect) (v : Bool) (h : p.FlagsInv) : (p.setCleanStart v).FlagsInv := by
  have t := fun m' hm' => has_toggle p.flags v 2 m' mem_masks_2 hm'
  have hq := willQoS_toggle p.flags v 2 (by decide)
  constructor
  · simp only [Connect.setCleanStart, Connect.fCleanStart]; rw [t 128 mem_masks_128]; exact h.user
  · simp only [Connect.setCleanStart, Connect.fCleanStart]; rw [t 64 mem_masks_64]; exact h.pass
  · simp only [Connect.setCleanStart, Connect.fCleanStart]; rw [t 4 mem_masks_4]; exact h.will
  · simp only [Connect.setCleanStart, Connect.fCleanStart]; rw [t 1 mem_masks_1]; exact h.reserved
  · intro w hw
    have := h.mirror w hw
    simp only [Connect.setCleanStart, Connect.fCleanStart, Connect.willQoS_eq] at *
    rw [t 32 mem_masks_32, hq]
    simpa using this

theorem Connect.setUsername_inv (p : Connect) (v : Bytes) (h : p.FlagsInv) : (p.setUsername v).FlagsInv := by
  have t := fun m' hm' => has_toggle p.flags (decide (v.length > 0)) 128 m' mem_masks_128 hm'
  have hq := willQoS_toggle p.flags (decide (v.length > 0)) 128 (by decide)
  constructor
  · simp only [Connect.setUsername, Connect.fUsername]; rw [t 128 mem_masks_128]
    cases v <;> simp
  · simp only [Connect.setUsername, Connect.fUsername]; rw [t 64 mem_masks_64]; exact h.pass
  · simp only [Connect.setUsername, Connect.fUsername]; rw [t 4 mem_masks_4]; exact h.will
  · simp only [Connect.setUsername, Connect.fUsername]; rw [t 1 mem_masks_1]; exact h.reserved
  · intro w hw
    have := h.mirror w hw
    simp only [Connect.setUsername, Connect.fUsername, Connect.willQoS_eq] at *
    rw [t 32 mem_masks_32, hq]
    simpa using this

theorem Connect.setPassword_inv (p : Connect) (v : Bytes) (h : p.FlagsInv) : (p.setPassword v).FlagsInv := by
  have t := fun m' hm' => has_toggle p.flags (decide (v.length > 0)) 64 m' mem_masks_64 hm'
  have hq := willQoS_toggle p.flags (decide (v.length > 0)) 64 (by decide)
  constructor
  · simp only [Connect.setPassword, Connect.fPassword]; rw [t 128 mem_masks_128]; exact h.user
  · simp only [Connect.setPassword, Connect.fPassword]; rw [t 64 mem_masks_64]
    cases v <;> simp
  · simp only [Connect.setPassword, Connect.fPassword]; rw [t 4 mem_masks_4]; exact h.will
  · simp only [Connect.setPassword, Connect.fPassword]; rw [t 1 mem_masks_1]; exact h.reserved
  · intro w hw
    have := h.mirror w hw
    simp only [Connect.setPassword, Connect.fPassword, Connect.willQoS_eq] at *
    rw [t 32 mem_masks_32, hq]
    simpa using this

/-- every other setter leaves the flag byte and the values it depends on alone -/
theorem Connect.apply_plain (p q : Connect) (op : SetOp) (h : p.apply op = some q)
    (h1 : ∀ w, op ≠ .setWill w) (h2 : ∀ v, op ≠ .setCleanStart v) (h3 : ∀ v, op ≠ .setUsername v)
    (h4 : ∀ v, op ≠ .setPassword v) :
    q.flags = p.flags ∧ q.username = p.username ∧ q.password = p.password ∧ q.will = p.will := by
  cases op <;> simp [Connect.apply] at h <;> (try subst h) <;> (try exact ⟨rfl, rfl, rfl, rfl⟩)
  · exact absurd rfl (h1 _)
  · exact absurd rfl (h2 _)
  · exact absurd rfl (h3 _)
  · exact absurd rfl (h4 _)

theorem Connect.apply_inv (p q : Connect) (op : SetOp) (h : p.apply op = some q) (hi : p.FlagsInv) : q.FlagsInv := by
  by_cases c1 : ∃ w, op = .setWill w
  · obtain ⟨w, rfl⟩ := c1; simp [Connect.apply] at h; subst h; exact Connect.setWill_inv p w hi
  by_cases c2 : ∃ v, op = .setCleanStart v
  · obtain ⟨v, rfl⟩ := c2; simp [Connect.apply] at h; subst h; exact Connect.setCleanStart_inv p v hi
  by_cases c3 : ∃ v, op = .setUsername v
  · obtain ⟨v, rfl⟩ := c3; simp [Connect.apply] at h; subst h; exact Connect.setUsername_inv p v hi
  by_cases c4 : ∃ v, op = .setPassword v
  · obtain ⟨v, rfl⟩ := c4; simp [Connect.apply] at h; subst h; exact Connect.setPassword_inv p v hi
  have := Connect.apply_plain p q op h (fun w hw => c1 ⟨w, hw⟩) (fun v hv => c2 ⟨v, hv⟩)
    (fun v hv => c3 ⟨v, hv⟩) (fun v hv => c4 ⟨v, hv⟩)
  obtain ⟨e1, e2, e3, e4⟩ := this
  constructor
  · rw [e1, e2]; exact hi.user
  · rw [e1, e3]; exact hi.pass
  · rw [e1, e4]; exact hi.will
  · rw [e1]; exact hi.reserved
  · intro w hw; rw [e4] at hw
    have := hi.mirror w hw
    simp only [Connect.willQoS_eq] at *
    rw [e1]; exact this

/-- a setter history: apply each op in turn; `none` as soon as an op is not a method of the type -/
def Packet.applyAll (p : Packet) : List SetOp → Option Packet
  | [] => some p
  | op :: ops => (p.apply op).bind fun q => q.applyAll ops

def Connect.applyAll (p : Connect) : List SetOp → Option Connect
  | [] => some p
  | op :: ops => (p.apply op).bind fun q => q.applyAll ops

theorem Connect.applyAll_inv : ∀ (ops : List SetOp) (p q : Connect), p.applyAll ops = some q → p.FlagsInv → q.FlagsInv := by
  intro ops
  induction ops with
  | nil => intro p q h hi; simp [Connect.applyAll] at h; subst h; exact hi
  | cons op ops ih =>
    intro p q h hi
    simp only [Connect.applyAll] at h
    cases h1 : p.apply op with
    | none => simp [h1] at h
    | some p1 =>
      simp [h1] at h
      exact ih p1 q h (Connect.apply_inv p p1 op h1 hi)

end Mq
