import Proofs.EConnect
import Proofs.Fixed
/-!
# Proofs.Inject — the accessor view (with the first byte) determines the packet value

`view` lists every public accessor. Together with the first byte it determines every field of every
packet type, given the two relations a CONNECT keeps between its will message and itself
(`Connect.Canon`); both the packets of the domain and everything the decoder returns satisfy them.
-/
namespace Mq

theorem Ack.eq_of_view (p q : Ack) (hf : p.fixed = q.fixed) (hv : p.view = q.view) : p = q := by
  simp only [Ack.view, List.cons.injEq, Prod.mk.injEq, true_and, and_true, VV.n.injEq, VV.s.injEq, VV.ups.injEq] at hv
  obtain ⟨h1, h2, h3, h4⟩ := hv
  cases p; cases q
  simp only [Ack.mk.injEq] at *
  exact ⟨hf, UInt16.toNat_inj.mp h1, UInt8.toNat_inj.mp h2, h3, h4⟩

theorem SubAck.eq_of_view (p q : SubAck) (hf : p.fixed = q.fixed) (hv : p.view = q.view) : p = q := by
  simp only [SubAck.view, List.cons.injEq, Prod.mk.injEq, true_and, and_true, VV.n.injEq, VV.s.injEq, VV.ups.injEq] at hv
  obtain ⟨h1, h2, h3, h4⟩ := hv
  cases p; cases q
  simp only [SubAck.mk.injEq] at *
  exact ⟨hf, UInt16.toNat_inj.mp h1, h3, h4, h2⟩

theorem Disconnect.eq_of_view (p q : Disconnect) (hf : p.fixed = q.fixed) (hv : p.view = q.view) : p = q := by
  simp only [Disconnect.view, List.cons.injEq, Prod.mk.injEq, true_and, and_true, VV.n.injEq, VV.s.injEq, VV.ups.injEq] at hv
  obtain ⟨h1, h2, h3, h4, h5⟩ := hv
  cases p; cases q
  simp only [Disconnect.mk.injEq] at *
  exact ⟨hf, UInt8.toNat_inj.mp h1, UInt32.toNat_inj.mp h4, h2, h3, h5⟩

theorem Auth.eq_of_view (p q : Auth) (hf : p.fixed = q.fixed) (hv : p.view = q.view) : p = q := by
  simp only [Auth.view, List.cons.injEq, Prod.mk.injEq, true_and, and_true, VV.n.injEq, VV.s.injEq, VV.ups.injEq] at hv
  obtain ⟨h1, h2, h3, h4, h5⟩ := hv
  cases p; cases q
  simp only [Auth.mk.injEq] at *
  exact ⟨hf, UInt8.toNat_inj.mp h3, h4, h2, h1, h5⟩

theorem Ping.eq_of_fixed (p q : Ping) (hf : p.fixed = q.fixed) : p = q := by
  cases p; cases q; simp_all

theorem map_filters_inj (a b : List TopicFilter)
    (h : a.map (fun f => (f.filter, f.options)) = b.map (fun f => (f.filter, f.options))) : a = b := by
  induction a generalizing b with
  | nil => cases b <;> simp_all
  | cons x xs ih =>
    cases b with
    | nil => simp at h
    | cons y ys =>
      simp only [List.map_cons, List.cons.injEq, Prod.mk.injEq] at h
      obtain ⟨⟨h1, h2⟩, h3⟩ := h
      have : x = y := by cases x; cases y; simp_all
      rw [this, ih ys h3]

theorem Subscribe.eq_of_view (p q : Subscribe) (hf : p.fixed = q.fixed) (hv : p.view = q.view) : p = q := by
  simp only [Subscribe.view, List.cons.injEq, Prod.mk.injEq, true_and, and_true, VV.n.injEq, VV.i.injEq, VV.filters.injEq,
    VV.ups.injEq] at hv
  obtain ⟨h1, h2, h3, h4⟩ := hv
  have hs : p.subscriptionID = q.subscriptionID := by
    unfold Subscribe.subscriptionIDInt at h3
    cases hp : p.subscriptionID <;> cases hq : q.subscriptionID <;> simp only [hp, hq] at h3 <;> first | rfl | omega | (congr 1; omega)
  cases p; cases q
  simp only [Subscribe.mk.injEq] at *
  exact ⟨hf, UInt16.toNat_inj.mp h2, hs, h4, map_filters_inj _ _ h1⟩

theorem Unsubscribe.eq_of_view (p q : Unsubscribe) (hf : p.fixed = q.fixed) (hv : p.view = q.view) : p = q := by
  simp only [Unsubscribe.view, List.cons.injEq, Prod.mk.injEq, true_and, and_true, VV.n.injEq, VV.strs.injEq, VV.ups.injEq] at hv
  obtain ⟨h1, h2, h3⟩ := hv
  cases p; cases q
  simp only [Unsubscribe.mk.injEq] at *
  exact ⟨hf, UInt16.toNat_inj.mp h2, h3, h1⟩

theorem ConnAck.eq_of_view (p q : ConnAck) (hf : p.fixed = q.fixed) (hv : p.view = q.view) : p = q := by
  simp only [ConnAck.view, List.cons.injEq, Prod.mk.injEq, true_and, and_true, VV.n.injEq, VV.s.injEq, VV.b.injEq,
    VV.ups.injEq] at hv
  obtain ⟨a1, a2, a3, a4, a5, a6, a7, a8, a9, a10, a11, a12, a13, a14, a15, a16, a17, a18, a19, a20⟩ := hv
  cases p; cases q
  simp only [ConnAck.mk.injEq] at *
  exact ⟨hf, UInt8.toNat_inj.mp a4, UInt8.toNat_inj.mp a7, UInt32.toNat_inj.mp a14, UInt16.toNat_inj.mp a9,
    UInt8.toNat_inj.mp a6, a11, UInt32.toNat_inj.mp a5, a1, UInt16.toNat_inj.mp a18, a8, a19, a20, a17, a16,
    UInt16.toNat_inj.mp a12, a10, a13, a3, a2⟩

theorem map_toNat_inj (a b : List UInt32) (h : a.map UInt32.toNat = b.map UInt32.toNat) : a = b := by
  induction a generalizing b with
  | nil => cases b <;> simp_all
  | cons x xs ih =>
    cases b with
    | nil => simp at h
    | cons y ys =>
      simp only [List.map_cons, List.cons.injEq] at h
      rw [UInt32.toNat_inj.mp h.1, ih ys h.2]

/-- all fields of a PUBLISH other than the first byte -/
theorem Publish.fields_of_view (p q : Publish) (hv : p.view = q.view) :
    p.contentType = q.contentType ∧ p.correlationData = q.correlationData ∧ p.duplicate = q.duplicate
    ∧ p.messageExpiryInterval = q.messageExpiryInterval ∧ p.packetID = q.packetID ∧ p.payload = q.payload
    ∧ p.payloadFormat = q.payloadFormat ∧ p.qos = q.qos ∧ p.responseTopic = q.responseTopic ∧ p.retain = q.retain
    ∧ p.subscriptionIDs = q.subscriptionIDs ∧ p.topicAlias = q.topicAlias ∧ p.topicName = q.topicName
    ∧ p.userProps = q.userProps := by
  simp only [Publish.view, List.cons.injEq, Prod.mk.injEq, true_and, and_true, VV.n.injEq, VV.s.injEq, VV.b.injEq,
    VV.ups.injEq, VV.nats.injEq] at hv
  obtain ⟨a1, a2, a3, a4, a5, a6, a7, a8, a9, a10, a11, a12, a13, a14⟩ := hv
  exact ⟨a1, a2, a3, UInt32.toNat_inj.mp a4, UInt16.toNat_inj.mp a5, a6, a7, UInt8.toNat_inj.mp a8, a9, a10,
    map_toNat_inj _ _ a11, UInt16.toNat_inj.mp a12, a13, a14⟩

theorem Publish.eq_of_view (p q : Publish) (hf : p.fixed = q.fixed) (hv : p.view = q.view) : p = q := by
  obtain ⟨a1, a2, _, a4, a5, a6, a7, _, a9, _, a11, a12, a13, a14⟩ := Publish.fields_of_view p q hv
  cases p; cases q
  simp only [Publish.mk.injEq] at *
  exact ⟨hf, a5, a12, a7, a4, a13, a9, a2, a1, a6, a14, a11⟩

/-- the first byte of a PUBLISH with type nibble 3 is determined by DUP, QoS and RETAIN -/
theorem Publish.fixed_of_bits (p q : Publish) (hp : p.fixed &&& 0xf0 = 0x30) (hq : q.fixed &&& 0xf0 = 0x30)
    (h1 : p.duplicate = q.duplicate) (h2 : p.qos = q.qos) (h3 : p.retain = q.retain) : p.fixed = q.fixed := by
  have tp := publish_fixed_table ⟨p.fixed.toNat, p.fixed.toNat_lt⟩
  have tq := publish_fixed_table ⟨q.fixed.toNat, q.fixed.toNat_lt⟩
  simp only [UInt8.ofNat_toNat] at tp tq
  have ep := tp hp
  have eq := tq hq
  simp only [Publish.duplicate, Publish.qos, Publish.retain] at h1 h2 h3
  rw [← ep, ← eq, h1, h2, h3]

/-- the relations between a CONNECT and its will message that the view does not show -/
def Connect.Canon (p : Connect) : Prop :=
  (∀ w, p.will = some w → p.willPayload = w.payload ∧ w.fixed &&& 0xf0 = 0x30) ∧ (p.will = none → p.willPayload = [])

theorem Connect.eq_of_view (p q : Connect) (hf : p.fixed = q.fixed) (hv : p.view = q.view) (hp : p.Canon) (hq : q.Canon) :
    p = q := by
  simp only [Connect.view, List.cons_append, List.nil_append, List.cons.injEq, Prod.mk.injEq, true_and, and_true,
    VV.n.injEq, VV.s.injEq, VV.b.injEq, VV.ups.injEq] at hv
  obtain ⟨a1, a2, _, a4, a5, a6, a7, a8, a9, a10, a11, a12, a13, a14, a15, a16, a17, a18, a19, aw⟩ := hv
  have hwill : p.will = q.will ∧ p.willPayload = q.willPayload := by
    cases hpw : p.will with
    | none =>
      cases hqw : q.will with
      | none => exact ⟨rfl, by rw [hp.2 hpw, hq.2 hqw]⟩
      | some w => simp [hpw, hqw] at a18
    | some w =>
      cases hqw : q.will with
      | none => simp [hpw, hqw] at a18
      | some w' =>
        simp only [hpw, hqw] at aw
        have hvw : w.view = w'.view := by
          have hinj : ∀ (a b : View), a.map (fun kv => ("Will." ++ kv.1, kv.2)) = b.map (fun kv => ("Will." ++ kv.1, kv.2)) → a = b := by
            intro a
            induction a with
            | nil => intro b h; cases b <;> simp_all
            | cons x xs ih =>
              intro b h
              cases b with
              | nil => simp at h
              | cons y ys =>
                simp only [List.map_cons, List.cons.injEq, Prod.mk.injEq, String.append_right_inj] at h
                obtain ⟨⟨h1, h2⟩, h3⟩ := h
                have : x = y := Prod.ext h1 h2
                rw [this, ih ys h3]
          exact hinj _ _ aw
        obtain ⟨b1, b2, b3, b4, b5, b6, b7, b8, b9, b10, b11, b12, b13, b14⟩ := Publish.fields_of_view w w' hvw
        have hfx := Publish.fixed_of_bits w w' (hp.1 w hpw).2 (hq.1 w' hqw).2 b3 b8 b10
        have : w = w' := Publish.eq_of_view w w' hfx hvw
        subst this
        exact ⟨rfl, by rw [(hp.1 w hpw).1, (hq.1 w hqw).1]⟩
  cases p; cases q
  simp only [Connect.mk.injEq] at *
  exact ⟨hf, UInt8.toNat_inj.mp a5, UInt8.toNat_inj.mp a10, UInt16.toNat_inj.mp a6, UInt16.toNat_inj.mp a11,
    UInt32.toNat_inj.mp a14, UInt32.toNat_inj.mp a7, UInt32.toNat_inj.mp a19, UInt16.toNat_inj.mp a15, a13, a12,
    a9, a4, a16, a2, a1, a17, a8, hwill.1, hwill.2⟩

/-! ## the canonical form: packets of the domain, and everything the decoder returns -/

def Packet.Canon : Packet → Prop
  | .connect p => p.Canon
  | _ => True

theorem Packet.eq_of_view (p q : Packet) (hk : p.kind = q.kind) (hf : p.fixed = q.fixed) (hv : p.view = q.view)
    (hp : p.Canon) (hq : q.Canon) (hu : p.kind ≠ 0) : p = q := by
  cases p <;> cases q <;> simp only [Packet.kind] at hk hu <;> (try omega) <;>
    simp only [Packet.fixed, Packet.view, Packet.Canon] at hf hv hp hq
  · rw [Connect.eq_of_view _ _ hf hv hp hq]
  · rw [ConnAck.eq_of_view _ _ hf hv]
  · rw [Publish.eq_of_view _ _ hf hv]
  · rw [Ack.eq_of_view _ _ hf hv]
  · rw [Ack.eq_of_view _ _ hf hv]
  · rw [Ack.eq_of_view _ _ hf hv]
  · rw [Ack.eq_of_view _ _ hf hv]
  · rw [Subscribe.eq_of_view _ _ hf hv]
  · rw [SubAck.eq_of_view _ _ hf hv]
  · rw [Unsubscribe.eq_of_view _ _ hf hv]
  · rw [SubAck.eq_of_view _ _ hf hv]
  · rw [Ping.eq_of_fixed _ _ hf]
  · rw [Ping.eq_of_fixed _ _ hf]
  · rw [Disconnect.eq_of_view _ _ hf hv]
  · rw [Auth.eq_of_view _ _ hf hv]

theorem Packet.canon_of_domain (p : Packet) (h : p.InDomain) : p.Canon := by
  cases p <;> simp only [Packet.Canon]
  rename_i c
  obtain ⟨_, _, _, _, hwok, hnone, _⟩ := h
  exact ⟨fun w hw => ⟨(hwok w hw).2.2.2.2.2.2.1, (hwok w hw).1⟩, fun hw => (hnone hw).2.1⟩

theorem will0_nibble_table : ∀ n : Fin 256, ∀ r : Bool,
    ((Publish.new.setQoS (UInt8.ofNat n.val)).setRetain r).fixed &&& 0xf0 = 0x30 := by decide +kernel

theorem will0_nibble (q : UInt8) (r : Bool) : ((Publish.new.setQoS q).setRetain r).fixed &&& 0xf0 = 0x30 := by
  have := will0_nibble_table ⟨q.toNat, q.toNat_lt⟩ r
  simpa using this

theorem applyWillOcc_fixed (s : UInt32 × Publish) (o : PropOcc) : (Connect.applyWillOcc s o).2.fixed = s.2.fixed := by
  unfold Connect.applyWillOcc
  cases o.val <;> simp only [] <;> (repeat' split) <;> rfl

theorem foldl_applyWillOcc_fixed (l : List PropOcc) (s : UInt32 × Publish) :
    (l.foldl Connect.applyWillOcc s).2.fixed = s.2.fixed := by
  induction l generalizing s with
  | nil => rfl
  | cons o l ih => simp only [List.foldl_cons]; rw [ih, applyWillOcc_fixed]

theorem Connect.readWill_canon (p : Connect) (b : Buf) (hp : p.Canon) : (p.readWill b).2.Canon := by
  unfold Connect.readWill
  by_cases hf : has p.flags Connect.fWillFlag = true
  · simp only [hf, if_true]
    constructor
    · intro w hw
      simp only [Option.some.injEq] at hw
      subst hw
      refine ⟨rfl, ?_⟩
      simp only []
      rw [foldl_applyWillOcc_fixed]
      exact will0_nibble _ _
    · intro hw; simp at hw
  · simp only [hf]; exact hp

theorem Connect.stage_canon (p q : Connect) (h1 : q.will = p.will) (h2 : q.willPayload = p.willPayload) (hp : p.Canon) :
    q.Canon := by
  unfold Connect.Canon at *
  rw [h1, h2]; exact hp

theorem Connect.unmarshal_canon (p : Connect) (d : Bytes) (hp : p.Canon) : (p.unmarshal d).1.Canon := by
  simp only [Connect.unmarshal]
  have s1 : (p.readHead { rest := d }).2.Canon := Connect.stage_canon p _ rfl rfl hp
  have s2 : ((p.readHead { rest := d }).2.readProps (p.readHead { rest := d }).1).2.Canon := by
    apply Connect.stage_canon _ _ _ _ s1
    · exact Connect.fold_same8 _ _
    · exact Connect.fold_same9 _ _
  generalize (p.readHead { rest := d }).2.readProps (p.readHead { rest := d }).1 = r2 at s2
  have s3 : (r2.2.readClientID r2.1).2.Canon := Connect.stage_canon _ _ rfl rfl s2
  generalize r2.2.readClientID r2.1 = r3 at s3
  have s4 := Connect.readWill_canon r3.2 r3.1 s3
  generalize r3.2.readWill r3.1 = r4 at s4
  have s5 : (r4.2.readUsername r4.1).2.Canon := by
    unfold Connect.readUsername; split
    · exact Connect.stage_canon _ _ rfl rfl s4
    · exact s4
  generalize r4.2.readUsername r4.1 = r5 at s5
  unfold Connect.readPassword; split
  · exact Connect.stage_canon _ _ rfl rfl s5
  · exact s5

theorem Packet.unmarshal_canon (p : Packet) (d : Bytes) (hp : p.Canon) : (p.unmarshal d).1.Canon := by
  cases p <;> simp only [Packet.unmarshal, Packet.Canon]
  exact Connect.unmarshal_canon _ _ hp

theorem Packet.dispatch_canon (b0 : UInt8) : (Packet.dispatch b0).Canon := by
  unfold Packet.dispatch
  split <;> simp [Packet.Canon, Connect.Canon]

/-- everything a complete frame decodes to is in canonical form -/
theorem frameOutcome_canon (b0 : UInt8) (body : Bytes) (q : Packet) (h : frameOutcome b0 body = .pkt q) : q.Canon := by
  unfold frameOutcome at h
  split at h
  · simp only [RP.pkt.injEq] at h; subst h; exact Packet.dispatch_canon b0
  · have := Packet.unmarshal_canon (Packet.dispatch b0) body (Packet.dispatch_canon b0)
    rcases hu : (Packet.dispatch b0).unmarshal body with ⟨q', st⟩
    rw [hu] at h this
    cases st <;> simp at h
    subst h; exact this

end Mq
