import Proofs.Stream
/-!
# Proofs.ReadPacket — ReadPacket as a function of the remaining bytes and of how the stream ends
-/
namespace Mq

/-- the remaining-length loop over plain bytes (what `readVb` computes, without the reader) -/
def pureVb : Nat → Bytes → IOErr → Nat → Nat → (Option Nat × Option Err) × Bytes
  | 0, d, _, _, _ => ((none, none), d)
  | fuel + 1, d, fail, mult, acc =>
    match d with
    | [] => ((none, some (.io (shortErr fail []))), [])
    | b :: rest =>
      let acc' := acc + (b.toNat % 128) * mult
      if mult > 128 * 128 * 128 then ((none, some .sizeExceeded), rest)
      else if b.toNat < 128 then ((some acc', none), rest)
      else pureVb fuel rest fail (mult * 128) acc'

/-- ReadPacket over plain bytes: outcome and the bytes left in the stream -/
def purePacket (d : Bytes) (fail : IOErr) : RP × Bytes :=
  match d with
  | [] => (.err (.io (shortErr fail [])), [])
  | b0 :: d1 =>
    match pureVb 5 d1 fail 1 0 with
    | ((_, some e), d2) => (.err e, d2)
    | ((none, none), d2) => (.hang, d2)
    | ((some n, none), d2) =>
      if n = 0 then (.pkt (Packet.dispatch b0), d2)
      else if n ≤ d2.length then
        match (Packet.dispatch b0).unmarshal (d2.take n) with
        | (q, .ok) => (.pkt q, d2.drop n)
        | (_, .err e) => (.err e, d2.drop n)
        | (_, .panic) => (.panic, d2.drop n)
        | (_, .hang) => (.hang, d2.drop n)
      else (.err (.io (shortErr fail d2)), [])

/-- one-byte `ReadFull` in terms of the bytes -/
theorem readFull_one (r : Reader) :
    (∃ b rest r', r.data = b :: rest ∧ readFull r 1 = ([b], none, r') ∧ r'.data = rest ∧ r'.fail = r.fail
        ∧ r'.eofWithData = r.eofWithData)
    ∨ (r.data = [] ∧ ∃ r', readFull r 1 = ([], some (shortErr r.fail []), r') ∧ r'.data = [] ∧ r'.fail = r.fail
        ∧ r'.eofWithData = r.eofWithData) := by
  obtain ⟨h1, h2, h3⟩ := readFull_pure r 1
  unfold pureFull at h1
  rcases hx : readFull r 1 with ⟨bs, e, r'⟩
  rw [hx] at h1 h2 h3
  simp only at h1 h2 h3
  cases hd : r.data with
  | nil =>
    right
    rw [hd] at h1
    simp at h1
    obtain ⟨rfl, rfl, h1c⟩ := h1
    exact ⟨rfl, r', rfl, h1c, h2, h3⟩
  | cons b rest =>
    left
    rw [hd] at h1
    simp at h1
    obtain ⟨rfl, rfl, h1c⟩ := h1
    exact ⟨b, rest, r', rfl, rfl, h1c, h2, h3⟩

theorem readVb_pure : ∀ (fuel : Nat) (r : Reader) (mult acc : Nat),
    ((readVb fuel r mult acc).1, (readVb fuel r mult acc).2.data) = pureVb fuel r.data r.fail mult acc
    ∧ (readVb fuel r mult acc).2.fail = r.fail ∧ (readVb fuel r mult acc).2.eofWithData = r.eofWithData := by
  intro fuel
  induction fuel with
  | zero => intro r mult acc; simp [readVb, pureVb]
  | succ fuel ih =>
    intro r mult acc
    unfold readVb pureVb
    rcases readFull_one r with ⟨b, rest, r', hd, hx, h1, h2, h3⟩ | ⟨hd, r', hx, h1, h2, h3⟩
    · rw [hx, hd]
      simp only []
      split
      · exact ⟨by simp [h1], h2, h3⟩
      · split
        · exact ⟨by simp [h1], h2, h3⟩
        · have := ih r' (mult * 128) (acc + b.toNat % 128 * mult)
          rw [h1, h2] at this
          exact ⟨this.1, by rw [this.2.1], by rw [this.2.2, h3]⟩
    · rw [hx, hd]
      simp only []
      exact ⟨by simp [h1], h2, h3⟩

/-- **schedule irrelevance of ReadPacket**: outcome and remaining bytes are functions of the
bytes still in the stream and of how it ends, whatever the delivery schedule -/
theorem readPacket_pure (r : Reader) :
    ((readPacket r).1, (readPacket r).2.data) = purePacket r.data r.fail
    ∧ (readPacket r).2.fail = r.fail ∧ (readPacket r).2.eofWithData = r.eofWithData := by
  unfold readPacket purePacket
  rcases readFull_one r with ⟨b0, rest, r1, hd, hx, h1, h2, h3⟩ | ⟨hd, r1, hx, h1, h2, h3⟩
  · rw [hx, hd]
    simp only []
    obtain ⟨v1, v2, v3⟩ := readVb_pure 5 r1 1 0
    rw [h1, h2] at v1
    rcases hv : readVb 5 r1 1 0 with ⟨⟨on, oe⟩, r2⟩
    rw [hv] at v1 v2 v3
    simp only at v1 v2 v3
    rw [← v1]
    cases oe with
    | some e => simp only []; exact ⟨by simp, by rw [v2, h2], by rw [v3, h3]⟩
    | none =>
      cases on with
      | none => simp only []; exact ⟨by simp, by rw [v2, h2], by rw [v3, h3]⟩
      | some n =>
        simp only []
        by_cases hn : n = 0
        · simp only [hn, if_true]; exact ⟨by simp, by rw [v2, h2], by rw [v3, h3]⟩
        · simp only [hn, if_false]
          obtain ⟨w1, w2, w3⟩ := readFull_pure r2 n
          unfold pureFull at w1
          rcases hw : readFull r2 n with ⟨body, e, r3⟩
          rw [hw] at w1 w2 w3
          simp only at w1 w2 w3
          by_cases hle : n ≤ r2.data.length
          · simp only [hle, if_true] at w1 ⊢
            simp at w1
            obtain ⟨rfl, rfl, w1c⟩ := w1
            simp only []
            rcases hu : (Packet.dispatch b0).unmarshal (List.take n r2.data) with ⟨q, st⟩
            cases st <;> simp only [] <;> exact ⟨by simp [w1c], by rw [w2, v2, h2], by rw [w3, v3, h3]⟩
          · simp only [hle, if_false] at w1 ⊢
            simp at w1
            obtain ⟨rfl, rfl, w1c⟩ := w1
            simp only []
            exact ⟨by simp [w1c, v2, h2], by rw [w2, v2, h2], by rw [w3, v3, h3]⟩
  · rw [hx, hd]
    simp only []
    exact ⟨by simp [h1], h2, h3⟩

end Mq
