import Spec
import Proofs.Vbint
import Proofs.DConnect
/-!
# Proofs.SpecParse — the strict specification parser reads back what the specification writer wrote (S)

`Spec.parse (sp.unparse) = some sp` for every legal abstract packet: the two halves of the
specification layer — the generator that defines the valid-frame language and the strict parser
used as the dynamic oracle of C02/C03 — agree. Spec-internal: no definition of the library model is
involved beyond the §1.5 primitive encoders both sides share.
-/
namespace Spec
open Mq (Bytes WVal WKind PropOcc encU16 encU32 encBin encVb encV encBool encPair)

theorem rdU8_cons (b : UInt8) (r : Bytes) : rdU8.run (b :: r) = some (b, r) := rfl

theorem rdU16_enc (v : UInt16) (r : Bytes) : rdU16.run (encU16 v ++ r) = some (v, r) := by
  simp only [rdU16, encU16, bind, StateT.bind, StateT.run, List.cons_append, List.nil_append, rdU8, pure, StateT.pure]
  simp only [Option.bind, Mq.encU16]
  congr 1
  apply Prod.ext
  · simp only
    apply UInt16.toNat_inj.mp
    simp [UInt8.toNat_ofNat', UInt16.toNat_ofNat']
    have := v.toNat_lt
    omega
  · rfl

theorem rdU32_enc (v : UInt32) (r : Bytes) : rdU32.run (encU32 v ++ r) = some (v, r) := by
  have h1 : encU32 v ++ r = encU16 (UInt16.ofNat (v.toNat / 65536)) ++ (encU16 (UInt16.ofNat (v.toNat % 65536)) ++ r) := by
    simp only [encU32, encU16, UInt16.toNat_ofNat', List.cons_append, List.nil_append]
    have := v.toNat_lt
    congr 1
    · congr 1; omega
    congr 1
    · congr 1; omega
    congr 1
    · congr 1; omega
    congr 1
    · congr 1; omega
  have h16 := fun (x : UInt16) (rr : Bytes) => rdU16_enc x rr
  simp only [StateT.run] at h16
  simp only [rdU32, bind, StateT.bind, StateT.run, h1, h16, pure, StateT.pure, Option.bind]
  congr 1
  apply Prod.ext
  · simp only
    apply UInt32.toNat_inj.mp
    simp [UInt16.toNat_ofNat', UInt32.toNat_ofNat']
    have := v.toNat_lt
    omega
  · rfl

theorem rdBytes_append (v r : Bytes) : (rdBytes v.length).run (v ++ r) = some (v, r) := by
  simp [rdBytes, StateT.run]

theorem rdStr_enc (v : Bytes) (h : v.length < 65536) (r : Bytes) : rdStr.run (encBin v ++ r) = some (v, r) := by
  have e : encBin v ++ r = encU16 (UInt16.ofNat v.length) ++ (v ++ r) := by
    simp only [encBin, encU16, UInt16.toNat_ofNat', List.cons_append, List.nil_append]
    congr 1
    · congr 1; omega
    congr 1
    congr 1; omega
  have h16 := rdU16_enc (UInt16.ofNat v.length) (v ++ r)
  simp only [StateT.run] at h16
  have hb := rdBytes_append v r
  simp only [StateT.run] at hb
  simp only [rdStr, bind, StateT.bind, StateT.run, e, h16, Option.bind]
  have : (UInt16.ofNat v.length).toNat = v.length := by simp [UInt16.toNat_ofNat']; omega
  rw [this, hb]

theorem rdVbiAux_enc : ∀ (x fuel mult acc : Nat) (r : Bytes), (mult = 1 ∨ 1 ≤ x) → (encVb x).length ≤ fuel →
    (rdVbiAux fuel mult acc).run (encVb x ++ r) = some (acc + x * mult, r) := by
  intro x
  induction x using Nat.strongRecOn with
  | _ x ih =>
    intro fuel mult acc r hm hf
    rw [Mq.encVb_eq] at hf ⊢
    cases fuel with
    | zero => split at hf <;> simp at hf
    | succ fuel =>
      by_cases hx : x < 128
      · simp only [hx, if_true, List.cons_append, List.nil_append]
        simp only [rdVbiAux, bind, StateT.bind, StateT.run, rdU8, Option.bind]
        have hb : (UInt8.ofNat x).toNat = x := by simp [UInt8.toNat_ofNat']; omega
        simp only [hb, hx, if_true, Nat.mod_eq_of_lt hx]
        have hz : ¬ (mult > 1 ∧ UInt8.ofNat x = 0) := by
          rintro ⟨h1, h2⟩
          have : (UInt8.ofNat x).toNat = 0 := by rw [h2]; rfl
          rw [hb] at this
          rcases hm with h | h <;> omega
        simp only [hz, if_false, pure, StateT.pure]
      · simp only [hx, if_false, List.cons_append] at hf ⊢
        simp only [rdVbiAux, bind, StateT.bind, StateT.run, rdU8, Option.bind]
        have hb : (UInt8.ofNat (x % 128 + 128)).toNat = x % 128 + 128 := by simp [UInt8.toNat_ofNat']; omega
        have hnl : ¬ (x % 128 + 128 < 128) := by omega
        simp only [hb, hnl, if_false]
        have := ih (x / 128) (by omega) fuel (mult * 128) (acc + (x % 128 + 128) % 128 * mult) r (Or.inr (by omega))
          (by simp only [List.length_cons] at hf; omega)
        simp only [StateT.run] at this
        rw [this]
        congr 2
        have h1 : (x % 128 + 128) % 128 = x % 128 := by omega
        rw [h1]
        have h2 : x = x % 128 + x / 128 * 128 := by omega
        calc acc + x % 128 * mult + x / 128 * (mult * 128) = acc + (x % 128 + x / 128 * 128) * mult := by
              rw [Nat.add_mul, Nat.mul_comm mult 128, ← Nat.mul_assoc]; omega
          _ = acc + x * mult := by rw [← h2]

theorem rdVbi_enc (n : Nat) (hn : n < 268435456) (r : Bytes) : rdVbi.run (encVb n ++ r) = some (n, r) := by
  have hl := Mq.encVb_length n hn
  have := rdVbiAux_enc n 4 1 0 r (Or.inl rfl) (by rw [hl]; (repeat' split) <;> omega)
  simp only [Nat.zero_add, Nat.mul_one] at this
  exact this

theorem rdBool_enc (v : Bool) (r : Bytes) : rdBool.run (encBool v ++ r) = some (v, r) := by
  cases v <;> simp [rdBool, encBool, bind, StateT.bind, StateT.run, rdU8, pure, StateT.pure]

theorem rdVal_enc (v : WVal) (h : valInRange v = true) (r : Bytes) : (rdVal v.kind).run (encV v ++ r) = some (v, r) := by
  cases v with
  | u8 x => simp [rdVal, WVal.kind, encV, bind, StateT.bind, StateT.run, rdU8, pure, StateT.pure]
  | u16 x =>
    have := rdU16_enc x r
    simp only [StateT.run] at this
    simp [rdVal, WVal.kind, encV, bind, StateT.bind, StateT.run, this, pure, StateT.pure]
  | u32 x =>
    have := rdU32_enc x r
    simp only [StateT.run] at this
    simp [rdVal, WVal.kind, encV, bind, StateT.bind, StateT.run, this, pure, StateT.pure]
  | bool x =>
    have := rdBool_enc x r
    simp only [StateT.run] at this
    simp [rdVal, WVal.kind, encV, bind, StateT.bind, StateT.run, this, pure, StateT.pure]
  | bin x =>
    simp only [valInRange, decide_eq_true_eq] at h
    have := rdStr_enc x h r
    simp only [StateT.run] at this
    simp [rdVal, WVal.kind, encV, bind, StateT.bind, StateT.run, this, pure, StateT.pure]
  | pair k x =>
    simp only [valInRange, Bool.and_eq_true, decide_eq_true_eq] at h
    have h1 := rdStr_enc k h.1 (encBin x ++ r)
    have h2 := rdStr_enc x h.2 r
    simp only [StateT.run] at h1 h2
    simp [rdVal, WVal.kind, encV, encPair, bind, StateT.bind, StateT.run, h1, h2, pure, StateT.pure, List.append_assoc]
  | vb n =>
    simp only [valInRange, decide_eq_true_eq] at h
    have := rdVbi_enc n h r
    simp only [StateT.run] at this
    simp [rdVal, WVal.kind, encV, bind, StateT.bind, StateT.run, this, pure, StateT.pure]

theorem occLegal_def (k : Nat) (o : PropOcc) (h : occLegal k o = true) :
    ∃ d, propDef? o.id = some d ∧ d.ty = o.val.kind ∧ valInRange o.val = true := by
  unfold occLegal at h
  split at h
  · rename_i d hd
    simp only [Bool.and_eq_true, beq_iff_eq] at h
    exact ⟨d, hd, h.1.2, h.2⟩
  · simp at h

theorem rdOccs_enc (k : Nat) : ∀ (ps : List PropOcc) (fuel : Nat), (∀ o ∈ ps, occLegal k o = true) → ps.length < fuel →
    rdOccs fuel (propBytes ps) = some ps := by
  intro ps
  induction ps with
  | nil => intro fuel _ hf; cases fuel with
    | zero => omega
    | succ fuel => rfl
  | cons o ps ih =>
    intro fuel hl hf
    cases fuel with
    | zero => simp at hf
    | succ fuel =>
      obtain ⟨d, hd, hty, hr⟩ := occLegal_def k o (hl o (by simp))
      have hv := rdVal_enc o.val hr (propBytes ps)
      have hpb : propBytes (o :: ps) = o.id :: (encV o.val ++ propBytes ps) := by simp [propBytes, encOccS]
      rw [hpb]
      simp only [rdOccs, hd, hty, hv]
      rw [ih fuel (fun x hx => hl x (by simp [hx])) (by simp at hf; omega)]
      rfl

theorem propBytes_length_ge (ps : List PropOcc) : ps.length ≤ (propBytes ps).length := by
  induction ps with
  | nil => simp [propBytes]
  | cons o ps ih => simp only [propBytes, List.flatMap_cons, List.length_append, encOccS, List.length_cons] at ih ⊢; omega

theorem rdProps_enc (k : Nat) (ps : List PropOcc) (hl : propsLegal k ps = true) (hlen : (propBytes ps).length < 268435456)
    (r : Bytes) : (rdProps k).run (propSection ps ++ r) = some (ps, r) := by
  have hall : ∀ o ∈ ps, occLegal k o = true := by
    simp only [propsLegal, Bool.and_eq_true] at hl
    exact fun o ho => (List.all_eq_true.mp hl.1) o ho
  have h1 := rdVbi_enc (propBytes ps).length hlen (propBytes ps ++ r)
  have h2 := rdBytes_append (propBytes ps) r
  simp only [StateT.run] at h1 h2
  have h3 := rdOccs_enc k ps ((propBytes ps).length + 1) hall (by have := propBytes_length_ge ps; omega)
  simp only [rdProps, propSection, List.append_assoc, bind, StateT.bind, StateT.run, h1, h2, Option.bind, h3, hl, if_true,
    pure, StateT.pure]

theorem guardP_true : (guardP true).run = fun s => some ((), s) := rfl

theorem atEnd_run (s : Bytes) : atEnd.run s = some (s.isEmpty, s) := rfl

/-- what `parse` needs from `parseBody`, for a frame whose remaining length is `body.length` -/
theorem parse_of_body (first : UInt8) (body : Bytes) (sp : SPacket) (hlen : body.length < 268435456)
    (h : (parseBody first).run body = some (sp, [])) : parse (mkFrame first body) = some sp := by
  have hv := rdVbi_enc body.length hlen body
  simp only [StateT.run] at hv h
  simp only [parse, mkFrame, StateT.run, hv, ne_eq, not_true_eq_false, if_false, h]

theorem S_connack (sess : Bool) (reason : UInt8) (ps : List PropOcc) (hl : (SPacket.connack sess reason ps).Legal) :
    parse (SPacket.connack sess reason ps).unparse = some (SPacket.connack sess reason ps) := by
  obtain ⟨hleg, hlen⟩ := hl
  simp only [SPacket.legal] at hleg
  apply parse_of_body _ _ _ hlen
  simp only [SPacket.body, SPacket.firstByte] at hlen ⊢
  have hpl : (propBytes ps).length < 268435456 := by
    simp only [propSection, List.length_append, List.length_cons] at hlen; omega
  have hp := rdProps_enc 2 ps hleg hpl []
  simp only [StateT.run, List.append_nil] at hp
  have hty : ((0x20 : UInt8) >>> 4).toNat = 2 := by decide
  have hfl : ((0x20 : UInt8) &&& 0x0f == 0) = true := by decide
  cases sess <;>
    simp [parseBody, hty, hfl, bind, StateT.bind, StateT.run, guardP, pure, StateT.pure, rdU8, hp, atEnd]

theorem propSection_ne_nil (ps : List PropOcc) : propSection ps ≠ [] := by
  have := Mq.encVb_ne_nil (propBytes ps).length
  intro h; exact this (List.append_eq_nil_iff.mp h).1

theorem propSection_isEmpty (ps : List PropOcc) (r : Bytes) : (propSection ps ++ r).isEmpty = false := by
  cases h : propSection ps ++ r with
  | nil => exact absurd (List.append_eq_nil_iff.mp h).1 (propSection_ne_nil ps)
  | cons _ _ => rfl

def formBytes (form : Form) (reason : UInt8) (ps : List PropOcc) : Bytes :=
  match form with
  | .bare => []
  | .reason => [reason]
  | .full => [reason] ++ propSection ps

/-- reason code / properties with the short forms -/
theorem rdFormed_enc (k : Nat) (form : Form) (reason : UInt8) (ps : List PropOcc) (hl : propsLegal k ps = true)
    (hf : SPacket.formLegal form reason ps = true) (hpl : (propBytes ps).length < 268435456) :
    (rdFormed k).run (formBytes form reason ps) = some ((form, reason, ps), []) := by
  cases form with
  | bare =>
    simp only [SPacket.formLegal, Bool.and_eq_true, beq_iff_eq, List.isEmpty_iff] at hf
    obtain ⟨rfl, rfl⟩ := hf
    simp [formBytes, rdFormed, bind, StateT.bind, StateT.run, atEnd, pure, StateT.pure]
  | reason =>
    simp only [SPacket.formLegal, List.isEmpty_iff] at hf
    subst hf
    simp [formBytes, rdFormed, bind, StateT.bind, StateT.run, atEnd, pure, StateT.pure, rdU8]
  | full =>
    have hp := rdProps_enc k ps hl hpl []
    simp only [StateT.run, List.append_nil] at hp
    have hne := propSection_ne_nil ps
    simp [formBytes, rdFormed, bind, StateT.bind, StateT.run, atEnd, pure, StateT.pure, rdU8, hp, hne]

theorem formed_pl (form : Form) (reason : UInt8) (ps : List PropOcc) (hf : SPacket.formLegal form reason ps = true)
    (h : (formBytes form reason ps).length < 268435456) : (propBytes ps).length < 268435456 := by
  cases form with
  | full => simp only [formBytes, propSection, List.length_append, List.length_cons] at h; omega
  | bare => simp only [SPacket.formLegal, Bool.and_eq_true, List.isEmpty_iff] at hf; rw [hf.2]; decide
  | reason => simp only [SPacket.formLegal, List.isEmpty_iff] at hf; rw [hf]; decide

theorem S_disconnect (form : Form) (reason : UInt8) (ps : List PropOcc) (hl : (SPacket.disconnect form reason ps).Legal) :
    parse (SPacket.disconnect form reason ps).unparse = some (SPacket.disconnect form reason ps) := by
  obtain ⟨hleg, hlen⟩ := hl
  simp only [SPacket.legal, Bool.and_eq_true] at hleg
  apply parse_of_body _ _ _ hlen
  have hb : (SPacket.disconnect form reason ps).body = formBytes form reason ps := by cases form <;> rfl
  rw [hb] at hlen ⊢
  have hf := rdFormed_enc 14 form reason ps hleg.1 hleg.2 (formed_pl form reason ps hleg.2 hlen)
  simp only [StateT.run] at hf
  have hty : ((SPacket.disconnect form reason ps).firstByte >>> 4).toNat = 14 := by show ((0xe0 : UInt8) >>> 4).toNat = 14; decide
  have hfl : ((SPacket.disconnect form reason ps).firstByte &&& 0x0f == 0) = true := by show ((0xe0 : UInt8) &&& 0x0f == 0) = true; decide
  simp [parseBody, hty, hfl, bind, StateT.bind, StateT.run, guardP, pure, StateT.pure, hf, atEnd]

theorem S_auth (form : Form) (reason : UInt8) (ps : List PropOcc) (hl : (SPacket.auth form reason ps).Legal) :
    parse (SPacket.auth form reason ps).unparse = some (SPacket.auth form reason ps) := by
  obtain ⟨hleg, hlen⟩ := hl
  simp only [SPacket.legal, Bool.and_eq_true] at hleg
  apply parse_of_body _ _ _ hlen
  have hb : (SPacket.auth form reason ps).body = formBytes form reason ps := by cases form <;> rfl
  rw [hb] at hlen ⊢
  have hf := rdFormed_enc 15 form reason ps hleg.1.1 hleg.1.2 (formed_pl form reason ps hleg.1.2 hlen)
  simp only [StateT.run] at hf
  have hty : ((SPacket.auth form reason ps).firstByte >>> 4).toNat = 15 := by show ((0xf0 : UInt8) >>> 4).toNat = 15; decide
  have hfl : ((SPacket.auth form reason ps).firstByte &&& 0x0f == 0) = true := by show ((0xf0 : UInt8) &&& 0x0f == 0) = true; decide
  have hnr : ¬ (form = Form.reason) := by simpa using hleg.2
  simp [parseBody, hty, hfl, bind, StateT.bind, StateT.run, guardP, pure, StateT.pure, hf, atEnd, hnr]

theorem S_ping (k : Nat) (hl : (SPacket.ping k).Legal) : parse (SPacket.ping k).unparse = some (SPacket.ping k) := by
  obtain ⟨hleg, hlen⟩ := hl
  simp only [SPacket.legal, Bool.or_eq_true, beq_iff_eq] at hleg
  apply parse_of_body _ _ _ hlen
  rcases hleg with rfl | rfl
  · have hty : ((SPacket.ping 12).firstByte >>> 4).toNat = 12 := by decide
    have hfl : ((SPacket.ping 12).firstByte &&& 0x0f == 0) = true := by decide
    simp [parseBody, hty, hfl, bind, StateT.bind, StateT.run, guardP, pure, StateT.pure, atEnd, SPacket.body]
  · have hty : ((SPacket.ping 13).firstByte >>> 4).toNat = 13 := by decide
    have hfl : ((SPacket.ping 13).firstByte &&& 0x0f == 0) = true := by decide
    simp [parseBody, hty, hfl, bind, StateT.bind, StateT.run, guardP, pure, StateT.pure, atEnd, SPacket.body]

theorem S_ack (k : Nat) (pid : UInt16) (form : Form) (reason : UInt8) (ps : List PropOcc)
    (hl : (SPacket.ack k pid form reason ps).Legal) :
    parse (SPacket.ack k pid form reason ps).unparse = some (SPacket.ack k pid form reason ps) := by
  obtain ⟨hleg, hlen⟩ := hl
  simp only [SPacket.legal, Bool.and_eq_true, decide_eq_true_eq] at hleg
  obtain ⟨⟨⟨hk1, hk2⟩, hps⟩, hform⟩ := hleg
  apply parse_of_body _ _ _ hlen
  have hb : (SPacket.ack k pid form reason ps).body = encU16 pid ++ formBytes form reason ps := by cases form <;> rfl
  rw [hb] at hlen ⊢
  have hf := rdFormed_enc k form reason ps hps hform
    (formed_pl form reason ps hform (by simp only [List.length_append] at hlen; omega))
  have h16 := rdU16_enc pid (formBytes form reason ps)
  simp only [StateT.run] at hf h16
  have hk : k = 4 ∨ k = 5 ∨ k = 6 ∨ k = 7 := by omega
  rcases hk with rfl | rfl | rfl | rfl
  · have hty : ((SPacket.ack 4 pid form reason ps).firstByte >>> 4).toNat = 4 := by show ((0x40 : UInt8) >>> 4).toNat = 4; decide
    have hfl : ((SPacket.ack 4 pid form reason ps).firstByte &&& 0x0f == 0) = true := by show ((0x40 : UInt8) &&& 0x0f == 0) = true; decide
    simp [parseBody, hty, hfl, bind, StateT.bind, StateT.run, guardP, pure, StateT.pure, hf, h16, atEnd]
  · have hty : ((SPacket.ack 5 pid form reason ps).firstByte >>> 4).toNat = 5 := by show ((0x50 : UInt8) >>> 4).toNat = 5; decide
    have hfl : ((SPacket.ack 5 pid form reason ps).firstByte &&& 0x0f == 0) = true := by show ((0x50 : UInt8) &&& 0x0f == 0) = true; decide
    simp [parseBody, hty, hfl, bind, StateT.bind, StateT.run, guardP, pure, StateT.pure, hf, h16, atEnd]
  · have hty : ((SPacket.ack 6 pid form reason ps).firstByte >>> 4).toNat = 6 := by show ((0x62 : UInt8) >>> 4).toNat = 6; decide
    have hfl : ((SPacket.ack 6 pid form reason ps).firstByte &&& 0x0f == 2) = true := by show ((0x62 : UInt8) &&& 0x0f == 2) = true; decide
    simp [parseBody, hty, hfl, bind, StateT.bind, StateT.run, guardP, pure, StateT.pure, hf, h16, atEnd]
  · have hty : ((SPacket.ack 7 pid form reason ps).firstByte >>> 4).toNat = 7 := by show ((0x70 : UInt8) >>> 4).toNat = 7; decide
    have hfl : ((SPacket.ack 7 pid form reason ps).firstByte &&& 0x0f == 0) = true := by show ((0x70 : UInt8) &&& 0x0f == 0) = true; decide
    simp [parseBody, hty, hfl, bind, StateT.bind, StateT.run, guardP, pure, StateT.pure, hf, h16, atEnd]

theorem S_suback (k : Nat) (pid : UInt16) (ps : List PropOcc) (codes : Bytes) (hl : (SPacket.suback k pid ps codes).Legal) :
    parse (SPacket.suback k pid ps codes).unparse = some (SPacket.suback k pid ps codes) := by
  obtain ⟨hleg, hlen⟩ := hl
  simp only [SPacket.legal, Bool.and_eq_true, Bool.or_eq_true, beq_iff_eq] at hleg
  obtain ⟨⟨hk, hps⟩, hcodes⟩ := hleg
  apply parse_of_body _ _ _ hlen
  simp only [SPacket.body, List.append_assoc] at hlen ⊢
  have hpl : (propBytes ps).length < 268435456 := by
    simp only [propSection, List.length_append] at hlen; omega
  have hp := rdProps_enc k ps hps hpl codes
  have h16 := rdU16_enc pid (propSection ps ++ codes)
  simp only [StateT.run] at hp h16
  have hce : ¬ codes = [] := by cases codes <;> simp_all
  rcases hk with rfl | rfl
  · have hty : ((SPacket.suback 9 pid ps codes).firstByte >>> 4).toNat = 9 := by show ((0x90 : UInt8) >>> 4).toNat = 9; decide
    have hfl : ((SPacket.suback 9 pid ps codes).firstByte &&& 0x0f == 0) = true := by show ((0x90 : UInt8) &&& 0x0f == 0) = true; decide
    simp [parseBody, hty, hfl, bind, StateT.bind, StateT.run, guardP, pure, StateT.pure, hp, h16, rest, hce]
  · have hty : ((SPacket.suback 11 pid ps codes).firstByte >>> 4).toNat = 11 := by show ((0xb0 : UInt8) >>> 4).toNat = 11; decide
    have hfl : ((SPacket.suback 11 pid ps codes).firstByte &&& 0x0f == 0) = true := by show ((0xb0 : UInt8) &&& 0x0f == 0) = true; decide
    simp [parseBody, hty, hfl, bind, StateT.bind, StateT.run, guardP, pure, StateT.pure, hp, h16, rest, hce]

theorem rdFilters_enc : ∀ (fs : List (Bytes × UInt8)) (fuel : Nat), (∀ f ∈ fs, f.1.length < 65536) → fs.length < fuel →
    (rdFilters fuel).run (fs.flatMap fun f => encBin f.1 ++ [f.2]) = some (fs, []) := by
  intro fs
  induction fs with
  | nil =>
    intro fuel _ hf
    cases fuel with
    | zero => omega
    | succ fuel => simp [rdFilters, bind, StateT.bind, StateT.run, atEnd, pure, StateT.pure]
  | cons f fs ih =>
    intro fuel hs hf
    cases fuel with
    | zero => simp at hf
    | succ fuel =>
      have hstr := rdStr_enc f.1 (hs f (by simp)) (f.2 :: fs.flatMap fun f => encBin f.1 ++ [f.2])
      have hrec := ih fuel (fun x hx => hs x (by simp [hx])) (by simp at hf; omega)
      simp only [StateT.run] at hstr hrec
      have hne : ¬ (encBin f.1 = []) := by simp [encBin]
      simp only [List.flatMap_cons, List.append_assoc, List.cons_append, List.nil_append]
      simp [rdFilters, bind, StateT.bind, StateT.run, atEnd, pure, StateT.pure, hne, hstr, rdU8, hrec]

theorem rdTopics_enc : ∀ (fs : List Bytes) (fuel : Nat), (∀ f ∈ fs, f.length < 65536) → fs.length < fuel →
    (rdTopics fuel).run (fs.flatMap encBin) = some (fs, []) := by
  intro fs
  induction fs with
  | nil =>
    intro fuel _ hf
    cases fuel with
    | zero => omega
    | succ fuel => simp [rdTopics, bind, StateT.bind, StateT.run, atEnd, pure, StateT.pure]
  | cons f fs ih =>
    intro fuel hs hf
    cases fuel with
    | zero => simp at hf
    | succ fuel =>
      have hstr := rdStr_enc f (hs f (by simp)) (fs.flatMap encBin)
      have hrec := ih fuel (fun x hx => hs x (by simp [hx])) (by simp at hf; omega)
      simp only [StateT.run] at hstr hrec
      have hne : ¬ (encBin f = []) := by simp [encBin]
      simp only [List.flatMap_cons]
      simp [rdTopics, bind, StateT.bind, StateT.run, atEnd, pure, StateT.pure, hne, hstr, hrec]

theorem flatMap_length_ge {α} (l : List α) (f : α → Bytes) (h : ∀ x, 0 < (f x).length) : l.length ≤ (l.flatMap f).length := by
  induction l with
  | nil => simp
  | cons a t ih => simp only [List.flatMap_cons, List.length_append, List.length_cons]; have := h a; omega

theorem length_lt_sum_succ {α} (l : List α) (g : α → Nat) (h : ∀ x, 1 ≤ g x) : l.length < (l.map g).sum + 1 := by
  induction l with
  | nil => simp
  | cons a t ih => simp only [List.map_cons, List.sum_cons, List.length_cons]; have := h a; omega

theorem S_subscribe (pid : UInt16) (ps : List PropOcc) (filters : List (Bytes × UInt8))
    (hl : (SPacket.subscribe pid ps filters).Legal) :
    parse (SPacket.subscribe pid ps filters).unparse = some (SPacket.subscribe pid ps filters) := by
  obtain ⟨hleg, hlen⟩ := hl
  simp only [SPacket.legal, Bool.and_eq_true] at hleg
  obtain ⟨⟨hps, hne⟩, hfs⟩ := hleg
  apply parse_of_body _ _ _ hlen
  simp only [SPacket.body, List.append_assoc] at hlen ⊢
  have hpl : (propBytes ps).length < 268435456 := by
    simp only [propSection, List.length_append] at hlen; omega
  have hstr : ∀ f ∈ filters, f.1.length < 65536 := by
    intro f hf
    have := (List.all_eq_true.mp hfs) f hf
    simp only [Bool.and_eq_true, SPacket.strOK, decide_eq_true_eq] at this
    exact this.1.1.1
  have hp := rdProps_enc 8 ps hps hpl (filters.flatMap fun f => encBin f.1 ++ [f.2])
  have h16 := rdU16_enc pid (propSection ps ++ filters.flatMap fun f => encBin f.1 ++ [f.2])
  have hfl' := rdFilters_enc filters ((filters.flatMap fun f => encBin f.1 ++ [f.2]).length + 1) hstr
    (by have := flatMap_length_ge filters (fun f => encBin f.1 ++ [f.2]) (by intro x; simp); omega)
  simp only [StateT.run] at hp h16 hfl'
  have hty : ((SPacket.subscribe pid ps filters).firstByte >>> 4).toNat = 8 := by show ((0x82 : UInt8) >>> 4).toNat = 8; decide
  have hfl : ((SPacket.subscribe pid ps filters).firstByte &&& 0x0f == 2) = true := by show ((0x82 : UInt8) &&& 0x0f == 2) = true; decide
  have hg : (!filters.isEmpty && filters.all fun f => f.2 &&& 0xc0 == 0 && f.2 &&& 3 != 3 && f.2 &&& 0x30 != 0x30) = true := by
    simp only [Bool.and_eq_true, List.all_eq_true]
    refine ⟨hne, ?_⟩
    intro f hf
    have := (List.all_eq_true.mp hfs) f hf
    simp only [Bool.and_eq_true] at this ⊢
    exact ⟨⟨this.1.1.2, this.1.2⟩, this.2⟩
  have key : ∀ n, filters.length < n → rdFilters n (filters.flatMap fun f => encBin f.1 ++ [f.2]) = some (filters, []) := by
    intro n hn; have := rdFilters_enc filters n hstr hn; simpa [StateT.run] using this
  simp [parseBody, hty, hfl, bind, StateT.bind, StateT.run, guardP, pure, StateT.pure, hp, h16, get, getThe, MonadStateOf.get,
    StateT.get]
  rw [key _ (length_lt_sum_succ filters _ (by intro x; omega))]
  simp [hg, pure, StateT.pure]

theorem S_unsubscribe (pid : UInt16) (ps : List PropOcc) (filters : List Bytes)
    (hl : (SPacket.unsubscribe pid ps filters).Legal) :
    parse (SPacket.unsubscribe pid ps filters).unparse = some (SPacket.unsubscribe pid ps filters) := by
  obtain ⟨hleg, hlen⟩ := hl
  simp only [SPacket.legal, Bool.and_eq_true] at hleg
  obtain ⟨⟨hps, hne⟩, hfs⟩ := hleg
  apply parse_of_body _ _ _ hlen
  simp only [SPacket.body, List.append_assoc] at hlen ⊢
  have hpl : (propBytes ps).length < 268435456 := by
    simp only [propSection, List.length_append] at hlen; omega
  have hstr : ∀ f ∈ filters, f.length < 65536 := by
    intro f hf
    have := (List.all_eq_true.mp hfs) f hf
    simpa [SPacket.strOK] using this
  have hp := rdProps_enc 10 ps hps hpl (filters.flatMap encBin)
  have h16 := rdU16_enc pid (propSection ps ++ filters.flatMap encBin)
  have hfl' := rdTopics_enc filters ((filters.flatMap encBin).length + 1) hstr
    (by have := flatMap_length_ge filters encBin (by intro x; simp [encBin]); omega)
  simp only [StateT.run] at hp h16 hfl'
  have hty : ((SPacket.unsubscribe pid ps filters).firstByte >>> 4).toNat = 10 := by show ((0xa2 : UInt8) >>> 4).toNat = 10; decide
  have hfl : ((SPacket.unsubscribe pid ps filters).firstByte &&& 0x0f == 2) = true := by show ((0xa2 : UInt8) &&& 0x0f == 2) = true; decide
  have key : ∀ n, filters.length < n → rdTopics n (filters.flatMap encBin) = some (filters, []) := by
    intro n hn; have := rdTopics_enc filters n hstr hn; simpa [StateT.run] using this
  have hne' : ¬ filters = [] := by cases filters <;> simp_all
  simp [parseBody, hty, hfl, bind, StateT.bind, StateT.run, guardP, pure, StateT.pure, hp, h16, get, getThe, MonadStateOf.get,
    StateT.get]
  rw [key _ (length_lt_sum_succ filters _ (by intro x; omega))]
  simp [hne', pure, StateT.pure]

theorem publish_flags_parse : ∀ (dup retain : Bool) (q : Fin 3),
    let fb := (SPacket.publish dup (UInt8.ofNat q.val) retain [] 0 [] []).firstByte
    (fb >>> 4).toNat = 3 ∧ ((fb &&& 0x0f) >>> 1) &&& 3 = UInt8.ofNat q.val
      ∧ ((fb &&& 0x0f) &&& 8 != 0) = dup ∧ ((fb &&& 0x0f) &&& 1 != 0) = retain := by
  decide

/-- PUBLISH; at QoS 0 there is no packet identifier on the wire, so the abstract packet is read back
with identifier 0 -/
theorem S_publish (dup : Bool) (qos : UInt8) (retain : Bool) (topic : Bytes) (pid : UInt16) (ps : List PropOcc)
    (payload : Bytes) (hl : (SPacket.publish dup qos retain topic pid ps payload).Legal) (hpid : qos = 0 → pid = 0) :
    parse (SPacket.publish dup qos retain topic pid ps payload).unparse
      = some (SPacket.publish dup qos retain topic pid ps payload) := by
  obtain ⟨hleg, hlen⟩ := hl
  simp only [SPacket.legal, Bool.and_eq_true, decide_eq_true_eq, SPacket.strOK] at hleg
  obtain ⟨⟨hq, htopic⟩, hps⟩ := hleg
  apply parse_of_body _ _ _ hlen
  have hlt : qos.toNat < 3 := by have : qos.toNat ≤ 2 := hq; omega
  have ht := publish_flags_parse dup retain ⟨qos.toNat, hlt⟩
  simp only [UInt8.ofNat_toNat] at ht
  have hfb : (SPacket.publish dup qos retain topic pid ps payload).firstByte
      = (SPacket.publish dup qos retain [] 0 [] []).firstByte := rfl
  rw [hfb]
  generalize (SPacket.publish dup qos retain [] 0 [] []).firstByte = fb at ht
  obtain ⟨hty, hqq, hdd, hrr⟩ := ht
  simp only [SPacket.body, List.append_assoc] at hlen ⊢
  have hpl : (propBytes ps).length < 268435456 := by
    simp only [propSection, List.length_append] at hlen; omega
  have hstr := rdStr_enc topic htopic ((if qos = 0 then [] else encU16 pid) ++ (propSection ps ++ payload))
  have hp := rdProps_enc 3 ps hps hpl payload
  have h16 := rdU16_enc pid (propSection ps ++ payload)
  simp only [StateT.run] at hstr hp h16
  by_cases h0 : qos = 0
  · have hp0 := hpid h0
    subst hp0
    simp [parseBody, hty, hqq, hdd, hrr, bind, StateT.bind, StateT.run, guardP, pure, StateT.pure, hstr, hp, rest, h0, hq]
    simp [h0] at hstr
    simp [hstr, hp, h0]
  · simp [parseBody, hty, hqq, hdd, hrr, bind, StateT.bind, StateT.run, guardP, pure, StateT.pure, hstr, hp, rest, h0, hq]
    simp [h0] at hstr
    simp [hstr, h16, hp, h0]

open Mq (cfFin) in
theorem cfFin_parse_none : ∀ (cs u p : Bool),
    let cf := cfFin cs none u p
    (cf &&& 1 == 0) = true ∧ (cf &&& 4 != 0) = false ∧ (cf &&& 2 != 0) = cs
      ∧ (cf &&& 0x80 != 0) = u ∧ (cf &&& 0x40 != 0) = p ∧ (cf >>> 3) &&& 3 = 0 ∧ (cf &&& 0x20 != 0) = false := by
  decide

open Mq (cfFin) in
theorem cfFin_parse_some : ∀ (cs u p : Bool) (q : Fin 3) (r : Bool),
    let cf := cfFin cs (some (q, r)) u p
    (cf &&& 1 == 0) = true ∧ (cf &&& 4 != 0) = true ∧ (cf &&& 2 != 0) = cs
      ∧ (cf &&& 0x80 != 0) = u ∧ (cf &&& 0x40 != 0) = p ∧ (cf >>> 3) &&& 3 = UInt8.ofNat q.val ∧ (cf &&& 0x20 != 0) = r := by
  decide

theorem S_connect (cs : Bool) (ka : UInt16) (ps : List PropOcc) (cid : Bytes) (will : Option SWill)
    (user pass : Option Bytes) (hl : (SPacket.connect cs ka ps cid will user pass).Legal) :
    parse (SPacket.connect cs ka ps cid will user pass).unparse = some (SPacket.connect cs ka ps cid will user pass) := by
  obtain ⟨hleg, hlen⟩ := hl
  simp only [SPacket.legal, Bool.and_eq_true, SPacket.strOK, decide_eq_true_eq] at hleg
  obtain ⟨⟨⟨⟨hps, hcid⟩, hwill⟩, huser⟩, hpass⟩ := hleg
  have hwq : ∀ w, will = some w → w.qos ≤ 2 := by
    intro w hw; subst hw; simp only [Bool.and_eq_true, decide_eq_true_eq] at hwill; exact hwill.1.1.1
  have hfl := Mq.connectFlags_eq cs will hwq user pass
  apply parse_of_body _ _ _ hlen
  have hty : ((SPacket.connect cs ka ps cid will user pass).firstByte >>> 4).toNat = 1 := by show ((0x10 : UInt8) >>> 4).toNat = 1; decide
  have hf0 : ((SPacket.connect cs ka ps cid will user pass).firstByte &&& 0x0f == 0) = true := by show ((0x10 : UInt8) &&& 0x0f == 0) = true; decide
  have hbody := Mq.connect_body_eq cs ka ps cid will user pass
  rw [hbody] at hlen ⊢
  generalize hcf : SPacket.connectFlags cs will user pass = cf at *
  have hpl : (propBytes ps).length < 268435456 := by
    simp only [propSection, List.length_append, List.length_cons] at hlen; omega
  have hname := rdStr_enc Mq.Connect.mqtt5 (by decide) (5 :: cf :: (encU16 ka ++ (propSection ps ++ (encBin cid
    ++ (Mq.willBytes will ++ (Mq.optField user ++ (Mq.optField pass ++ [])))))))
  have hka := rdU16_enc ka (propSection ps ++ (encBin cid ++ (Mq.willBytes will ++ (Mq.optField user ++ (Mq.optField pass ++ [])))))
  have hpr := rdProps_enc 1 ps hps hpl (encBin cid ++ (Mq.willBytes will ++ (Mq.optField user ++ (Mq.optField pass ++ []))))
  have hci := rdStr_enc cid hcid (Mq.willBytes will ++ (Mq.optField user ++ (Mq.optField pass ++ [])))
  simp only [StateT.run] at hname hka hpr hci
  have hmq : Mq.Connect.mqtt5 = [0x4d, 0x51, 0x54, 0x54] := rfl
  rw [hmq] at hlen ⊢
  -- the tail: user name and password
  have htail : ∀ (s0 : SPacket → SPacket),
      True := fun _ => trivial
  cases will with
  | none =>
    obtain ⟨t1, t4, t2, t80, t40, tq, tr⟩ := cfFin_parse_none cs user.isSome pass.isSome
    simp only [Option.map_none] at hfl
    rw [← hfl] at t1 t4 t2 t80 t40 tq tr
    simp only [beq_iff_eq, bne_eq_false_iff_eq] at t1 t4 tr
    have hguard : (cf >>> 3) &&& 3 ≤ 2 ∧ (¬ cf &&& 4 = 0 ∨ ((cf >>> 3) &&& 3 = 0 ∧ cf &&& 32 = 0)) := by
      rw [tq]; exact ⟨by decide, Or.inr ⟨rfl, tr⟩⟩
    cases user with
    | none =>
      cases pass with
      | none =>
        simp only [Option.isSome_none, bne_eq_false_iff_eq] at t80 t40
        simp only [Mq.willBytes, Mq.optField, List.append_nil, List.nil_append, List.append_assoc, Mq.Connect.mqtt5] at hname hka hpr hci
        simp [parseBody, hty, hf0, bind, StateT.bind, StateT.run, guardP, pure, StateT.pure, hname, hmq, rdU8, t1, t4, t2,
          t80, t40, hguard, tq, tr, hka, hpr, hci, Mq.willBytes, Mq.optField, atEnd]
      | some pw =>
        simp only [Option.isSome_none, Option.isSome_some, bne_eq_false_iff_eq, bne_iff_ne, ne_eq] at t80 t40
        have hpw := rdStr_enc pw (by simpa using hpass) []
        simp only [StateT.run, List.append_nil] at hpw
        simp only [Mq.willBytes, Mq.optField, List.append_nil, List.nil_append, List.append_assoc, Mq.Connect.mqtt5] at hname hka hpr hci
        simp [parseBody, hty, hf0, bind, StateT.bind, StateT.run, guardP, pure, StateT.pure, hname, hmq, rdU8, t1, t4, t2,
          t80, t40, hguard, tq, tr, hka, hpr, hci, Mq.willBytes, Mq.optField, atEnd, hpw]
    | some un =>
      cases pass with
      | none =>
        simp only [Option.isSome_none, Option.isSome_some, bne_eq_false_iff_eq, bne_iff_ne, ne_eq] at t80 t40
        have hun := rdStr_enc un (by simpa using huser) []
        simp only [StateT.run, List.append_nil] at hun
        simp only [Mq.willBytes, Mq.optField, List.append_nil, List.nil_append, List.append_assoc, Mq.Connect.mqtt5] at hname hka hpr hci
        simp [parseBody, hty, hf0, bind, StateT.bind, StateT.run, guardP, pure, StateT.pure, hname, hmq, rdU8, t1, t4, t2,
          t80, t40, hguard, tq, tr, hka, hpr, hci, Mq.willBytes, Mq.optField, atEnd, hun]
      | some pw =>
        simp only [Option.isSome_some, bne_iff_ne, ne_eq] at t80 t40
        have hun := rdStr_enc un (by simpa using huser) (encBin pw)
        have hpw := rdStr_enc pw (by simpa using hpass) []
        simp only [StateT.run, List.append_nil] at hun hpw
        simp only [Mq.willBytes, Mq.optField, List.append_nil, List.nil_append, List.append_assoc, Mq.Connect.mqtt5] at hname hka hpr hci
        simp [parseBody, hty, hf0, bind, StateT.bind, StateT.run, guardP, pure, StateT.pure, hname, hmq, rdU8, t1, t4, t2,
          t80, t40, hguard, tq, tr, hka, hpr, hci, Mq.willBytes, Mq.optField, atEnd, hun, hpw]
  | some w =>
    simp only [Bool.and_eq_true, decide_eq_true_eq] at hwill
    obtain ⟨⟨⟨hwqos, hwps⟩, hwt⟩, hwpl⟩ := hwill
    have hlt : w.qos.toNat < 3 := by have : w.qos.toNat ≤ 2 := hwqos; omega
    obtain ⟨t1, t4, t2, t80, t40, tq, tr⟩ := cfFin_parse_some cs user.isSome pass.isSome
      ⟨w.qos.toNat % 3, Nat.mod_lt _ (by decide)⟩ w.retain
    simp only [Option.map_some] at hfl
    rw [← hfl] at t1 t4 t2 t80 t40 tq tr
    simp only [Nat.mod_eq_of_lt hlt, UInt8.ofNat_toNat] at tq
    simp only [beq_iff_eq, bne_iff_ne, ne_eq] at t1 t4
    have hguard : (cf >>> 3) &&& 3 ≤ 2 ∧ (¬ cf &&& 4 = 0 ∨ ((cf >>> 3) &&& 3 = 0 ∧ cf &&& 32 = 0)) := by
      rw [tq]; exact ⟨hwqos, Or.inl t4⟩
    have hwpl' : (propBytes w.props).length < 268435456 := by
      simp only [Mq.willBytes, propSection, List.length_append, List.length_cons] at hlen; omega
    have hwb : ∀ tl : Bytes, Mq.willBytes (some w) ++ tl = propSection w.props ++ (encBin w.topic ++ (encBin w.payload ++ tl)) := by
      intro tl; simp [Mq.willBytes]
    have hwe : (⟨w.qos, w.retain, w.props, w.topic, w.payload⟩ : SWill) = w := rfl
    cases user with
    | none =>
      cases pass with
      | none =>
        simp only [Option.isSome_none, bne_eq_false_iff_eq] at t80 t40
        have hwp := rdProps_enc willK w.props hwps hwpl' (encBin w.topic ++ (encBin w.payload ++ []))
        have hwt' := rdStr_enc w.topic hwt (encBin w.payload ++ [])
        have hwy := rdStr_enc w.payload hwpl []
        simp only [StateT.run, List.append_nil] at hwp hwt' hwy
        simp only [Mq.willBytes, Mq.optField, List.append_nil, List.nil_append, List.append_assoc, Mq.Connect.mqtt5] at hname hka hpr hci
        simp [parseBody, hty, hf0, bind, StateT.bind, StateT.run, guardP, pure, StateT.pure, hname, hmq, rdU8, t1, t4, t2,
          t80, t40, hguard, hka, hpr, hci, Mq.willBytes, Mq.optField, atEnd, hwp, hwt', hwy, tq, tr, hwe, hwqos]
      | some pw =>
        simp only [Option.isSome_none, Option.isSome_some, bne_eq_false_iff_eq, bne_iff_ne, ne_eq] at t80 t40
        have hpw := rdStr_enc pw (by simpa using hpass) []
        have hwp := rdProps_enc willK w.props hwps hwpl' (encBin w.topic ++ (encBin w.payload ++ encBin pw))
        have hwt' := rdStr_enc w.topic hwt (encBin w.payload ++ encBin pw)
        have hwy := rdStr_enc w.payload hwpl (encBin pw)
        simp only [StateT.run, List.append_nil] at hwp hwt' hwy hpw
        simp only [Mq.willBytes, Mq.optField, List.append_nil, List.nil_append, List.append_assoc, Mq.Connect.mqtt5] at hname hka hpr hci
        simp [parseBody, hty, hf0, bind, StateT.bind, StateT.run, guardP, pure, StateT.pure, hname, hmq, rdU8, t1, t4, t2,
          t80, t40, hguard, hka, hpr, hci, Mq.willBytes, Mq.optField, atEnd, hwp, hwt', hwy, tq, tr, hwe, hwqos, hpw]
    | some un =>
      cases pass with
      | none =>
        simp only [Option.isSome_none, Option.isSome_some, bne_eq_false_iff_eq, bne_iff_ne, ne_eq] at t80 t40
        have hun := rdStr_enc un (by simpa using huser) []
        have hwp := rdProps_enc willK w.props hwps hwpl' (encBin w.topic ++ (encBin w.payload ++ encBin un))
        have hwt' := rdStr_enc w.topic hwt (encBin w.payload ++ encBin un)
        have hwy := rdStr_enc w.payload hwpl (encBin un)
        simp only [StateT.run, List.append_nil] at hwp hwt' hwy hun
        simp only [Mq.willBytes, Mq.optField, List.append_nil, List.nil_append, List.append_assoc, Mq.Connect.mqtt5] at hname hka hpr hci
        simp [parseBody, hty, hf0, bind, StateT.bind, StateT.run, guardP, pure, StateT.pure, hname, hmq, rdU8, t1, t4, t2,
          t80, t40, hguard, hka, hpr, hci, Mq.willBytes, Mq.optField, atEnd, hwp, hwt', hwy, tq, tr, hwe, hwqos, hun]
      | some pw =>
        simp only [Option.isSome_some, bne_iff_ne, ne_eq] at t80 t40
        have hun := rdStr_enc un (by simpa using huser) (encBin pw)
        have hpw := rdStr_enc pw (by simpa using hpass) []
        have hwp := rdProps_enc willK w.props hwps hwpl' (encBin w.topic ++ (encBin w.payload ++ (encBin un ++ encBin pw)))
        have hwt' := rdStr_enc w.topic hwt (encBin w.payload ++ (encBin un ++ encBin pw))
        have hwy := rdStr_enc w.payload hwpl (encBin un ++ encBin pw)
        simp only [StateT.run, List.append_nil] at hwp hwt' hwy hun hpw
        simp only [Mq.willBytes, Mq.optField, List.append_nil, List.nil_append, List.append_assoc, Mq.Connect.mqtt5] at hname hka hpr hci
        simp [parseBody, hty, hf0, bind, StateT.bind, StateT.run, guardP, pure, StateT.pure, hname, hmq, rdU8, t1, t4, t2,
          t80, t40, hguard, hka, hpr, hci, Mq.willBytes, Mq.optField, atEnd, hwp, hwt', hwy, tq, tr, hwe, hwqos, hun, hpw]

/-- a QoS 0 PUBLISH has no packet identifier on the wire; its abstract packet carries identifier 0 -/
def SPacket.Canonical : SPacket → Prop
  | .publish _ qos _ _ pid _ _ => qos = 0 → pid = 0
  | _ => True

/-- **S**: the strict parser reads back every legal abstract packet from its writing -/
theorem parse_unparse (sp : SPacket) (hl : sp.Legal) (hc : sp.Canonical) : parse sp.unparse = some sp := by
  cases sp with
  | connect cs ka ps cid will user pass => exact S_connect cs ka ps cid will user pass hl
  | connack s r ps => exact S_connack s r ps hl
  | publish d q r t pid ps pl => exact S_publish d q r t pid ps pl hl hc
  | ack k pid f r ps => exact S_ack k pid f r ps hl
  | subscribe pid ps fs => exact S_subscribe pid ps fs hl
  | suback k pid ps cs => exact S_suback k pid ps cs hl
  | unsubscribe pid ps fs => exact S_unsubscribe pid ps fs hl
  | ping k => exact S_ping k hl
  | disconnect f r ps => exact S_disconnect f r ps hl
  | auth f r ps => exact S_auth f r ps hl

end Spec
