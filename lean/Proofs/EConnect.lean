import Proofs.EPublish
import Proofs.DConnect
/-!
# Proofs.EConnect — E for CONNECT
-/
namespace Mq
open Spec (SPacket SWill propsLegal propBytes propSection propVal userPropsOf subIDsOf vvOf)
open Tie (encFields kinds connectFields willFields)

def Connect.fkinds : List (UInt8 × WKind) :=
  [(0x21, .u16), (0x11, .u32), (0x27, .u32), (0x22, .u16), (0x19, .bool), (0x17, .bool), (0x15, .bin), (0x16, .bin)]
def Connect.wkinds : List (UInt8 × WKind) :=
  [(0x18, .u32), (0x01, .bool), (0x02, .u32), (0x03, .bin), (0x08, .bin), (0x09, .bin)]

def Connect.occs (p : Connect) : List PropOcc := occsOf (connectFields p) ++ upOccs p.userProps
def Connect.willOccs (p : Connect) (w : Publish) : List PropOcc := occsOf (willFields p w) ++ upOccs w.userProps

def Connect.absWill (p : Connect) (w : Publish) : SWill :=
  { qos := p.willQoS, retain := has p.flags 32, props := p.willOccs w, topic := w.topicName, payload := p.willPayload }

def Connect.abs (p : Connect) : SPacket :=
  .connect (has p.flags 2) p.keepAlive p.occs p.clientID (p.will.map p.absWill)
    (if has p.flags 128 then some p.username else none) (if has p.flags 64 then some p.password else none)

theorem flags_some_table : ∀ n : Fin 256,
    let f := UInt8.ofNat n.val
    has f 1 = false → has f 4 = true →
      (if has f 128 then (0x80 : UInt8) else 0) ||| (if has f 64 then (0x40 : UInt8) else 0)
        ||| ((if has f 32 then (0x20 : UInt8) else 0) ||| (((f &&& 24) >>> 3) <<< 3) ||| 0x04)
        ||| (if has f 2 then (0x02 : UInt8) else 0) = f := by
  decide +kernel

theorem flags_none_table : ∀ n : Fin 256,
    let f := UInt8.ofNat n.val
    has f 1 = false → f &&& 0x3c = 0 →
      (if has f 128 then (0x80 : UInt8) else 0) ||| (if has f 64 then (0x40 : UInt8) else 0) ||| 0
        ||| (if has f 2 then (0x02 : UInt8) else 0) = f := by
  decide +kernel

theorem Connect.abs_flags (p : Connect) (hi : p.FlagsInv) (hn : p.will = none → p.flags &&& 0x3c = 0) :
    Spec.SPacket.connectFlags (has p.flags 2) (p.will.map p.absWill)
      (if has p.flags 128 then some p.username else none) (if has p.flags 64 then some p.password else none) = p.flags := by
  have hu : (if has p.flags 128 = true then some p.username else none).isSome = has p.flags 128 := by
    cases has p.flags 128 <;> rfl
  have hp : (if has p.flags 64 = true then some p.password else none).isSome = has p.flags 64 := by
    cases has p.flags 64 <;> rfl
  unfold Spec.SPacket.connectFlags
  rw [hu, hp]
  cases hw : p.will with
  | none =>
    have := flags_none_table ⟨p.flags.toNat, p.flags.toNat_lt⟩
    simp only [UInt8.ofNat_toNat] at this
    simpa using this hi.reserved (hn hw)
  | some w =>
    have h4 : has p.flags 4 = true := by rw [hi.will, hw]; rfl
    have := flags_some_table ⟨p.flags.toNat, p.flags.toNat_lt⟩
    simp only [UInt8.ofNat_toNat] at this
    simpa [Connect.absWill, Connect.willQoS_eq] using this hi.reserved h4

theorem Connect.props_eq (p : Connect) (h : UpsInRange p.userProps) : p.props = propBytes p.occs := by
  rw [(Tie.M2_connect p), encFields_eq, encUserProps_eq _ (ups_keys _ h), ← propBytes_append]; rfl

theorem Connect.willProps_eq (p : Connect) (w : Publish) (h : UpsInRange w.userProps) :
    p.willProps w = propBytes (p.willOccs w) := by
  rw [(Tie.M2_will p w), encFields_eq, encUserProps_eq _ (ups_keys _ h), ← propBytes_append]; rfl

theorem Connect.occs_legal (p : Connect) (r1 : strOK p.authMethod) (r2 : strOK p.authData) (hu : UpsInRange p.userProps) :
    propsLegal 1 p.occs = true := by
  apply occs_legalK 1 (connectFields p) p.userProps Connect.fkinds rfl (by decide) (by decide) (by decide) (by decide)
  · intro f hf
    simp only [connectFields, List.mem_cons, List.mem_nil_iff, or_false] at hf
    rcases hf with rfl | rfl | rfl | rfl | rfl | rfl | rfl | rfl <;>
      first | rfl | exact strOK_range _ r1 | exact strOK_range _ r2
  · exact hu

theorem Connect.willOccs_legal (p : Connect) (w : Publish) (hw : p.WillOK w) : propsLegal Spec.willK (p.willOccs w) = true := by
  obtain ⟨_, _, _, _, _, _, _, _, _, r2, r3, r4, hu⟩ := hw
  apply occs_legalK Spec.willK (willFields p w) w.userProps Connect.wkinds rfl (by decide) (by decide) (by decide) (by decide)
  · intro f hf
    simp only [willFields, List.mem_cons, List.mem_nil_iff, or_false] at hf
    rcases hf with rfl | rfl | rfl | rfl | rfl | rfl <;>
      first | rfl | exact strOK_range _ r2 | exact strOK_range _ r3 | exact strOK_range _ r4
  · exact hu

theorem UInt8.le2_cases (q : UInt8) (h : q ≤ 2) : q = 0 ∨ q = 1 ∨ q = 2 := by
  have : q.toNat ≤ 2 := by simpa using UInt8.le_iff_toNat_le.mp h
  rcases (by omega : q.toNat = 0 ∨ q.toNat = 1 ∨ q.toNat = 2) with h | h | h
  · exact Or.inl (UInt8.toNat_inj.mp h)
  · exact Or.inr (Or.inl (UInt8.toNat_inj.mp h))
  · exact Or.inr (Or.inr (UInt8.toNat_inj.mp h))

/-- what `SetWill` mirrored into the flag byte, for a will in the domain -/
theorem Connect.will_mirror (p : Connect) (w : Publish) (hi : p.FlagsInv) (hwill : p.will = some w) (hw : p.WillOK w) :
    has p.flags 32 = w.retain ∧ p.willQoS = w.qos := by
  obtain ⟨h1, h2⟩ := hi.mirror w hwill
  refine ⟨h1, ?_⟩
  rw [h2]
  rcases UInt8.le2_cases _ hw.2.2.1 with h | h | h <;> simp [h]

/-- the will section of the view -/
theorem Connect.will_view (p : Connect) (w : Publish) (hi : p.FlagsInv) (hwill : p.will = some w) (hw : p.WillOK w) :
    Spec.SPacket.publishView "Will." false (p.absWill w).qos (p.absWill w).retain (p.absWill w).topic 0
        (p.absWill w).props (p.absWill w).payload
      = w.view.map (fun kv => ("Will." ++ kv.1, kv.2))
    ∧ propVal (p.absWill w).props 0x18 (.n 0) = .n p.willDelayInterval.toNat := by
  obtain ⟨hm1, hm2⟩ := p.will_mirror w hi hwill hw
  obtain ⟨_, hdup, hq, hpid, halias, hsubs, hpay, _, _, _, _, _, hu⟩ := hw
  have hk : kinds (willFields p w) = Connect.wkinds := rfl
  have hnd : (Connect.wkinds.map (·.1)).Nodup := by decide
  have pv := fun (id : UInt8) (dflt : VV) (hid : id ≠ 0x26) (v : WVal) (hm : (id, v) ∈ willFields p w)
      (hz : v.isZero = true → vvOf v = dflt) =>
    propVal_fieldsK (willFields p w) w.userProps Connect.wkinds hk id dflt hnd hid v hm hz
  have v03 := pv 0x03 (.s []) (by decide) (.bin w.contentType) (by simp [willFields]) (bin_zero _)
  have v09 := pv 0x09 (.s []) (by decide) (.bin w.correlationData) (by simp [willFields]) (bin_zero _)
  have v02 := pv 0x02 (.n 0) (by decide) (.u32 w.messageExpiryInterval) (by simp [willFields]) (u32_zero _)
  have v01 := pv 0x01 (.b false) (by decide) (.bool w.payloadFormat) (by simp [willFields]) (bool_zero _)
  have v08 := pv 0x08 (.s []) (by decide) (.bin w.responseTopic) (by simp [willFields]) (bin_zero _)
  have v18 := pv 0x18 (.n 0) (by decide) (.u32 p.willDelayInterval) (by simp [willFields]) (u32_zero _)
  have hups := userPropsOf_occsK (willFields p w) w.userProps Connect.wkinds hk (by decide)
  have hids : ∀ o ∈ p.willOccs w, o.id ∈ Connect.wkinds.map (·.1) ∨ o.id = 0x26 := by
    intro o ho
    rcases List.mem_append.mp ho with h1 | h2
    · left
      have := mem_occsOf _ o h1
      have h3 : o.id ∈ (willFields p w).map (·.1) := by simp only [List.mem_map]; exact ⟨_, this, rfl⟩
      rw [← kinds_fst, hk] at h3; exact h3
    · exact Or.inr (upOccs_ids _ o h2)
  have hno23 : ∀ o ∈ p.willOccs w, o.id ≠ 0x23 := by
    intro o ho e
    rcases hids o ho with h | h
    · rw [e] at h; revert h; decide
    · rw [e] at h; revert h; decide
  have hno0b : ∀ o ∈ p.willOccs w, o.id ≠ 0x0b := by
    intro o ho e
    rcases hids o ho with h | h
    · rw [e] at h; revert h; decide
    · rw [e] at h; revert h; decide
  have v23 := propVal_absent 0x23 (.n 0) (p.willOccs w) hno23
  have vsub := subIDsOf_absent (p.willOccs w) hno0b
  constructor
  · simp only [Spec.SPacket.publishView, Connect.absWill, Publish.view, List.map_cons, List.map_nil]
    simp only [Connect.willOccs] at v03 v09 v02 v01 v08 v23 vsub hups ⊢
    simp only [v03, v09, v02, v01, v08, v23, vsub, hups, hm1, hm2, hdup, hpid, halias, hsubs, hpay]
    simp [vvOf]
  · simp only [Connect.absWill]
    simp only [Connect.willOccs] at v18 ⊢
    rw [v18]; rfl

theorem E_connect_core (k : Nat) (p : Connect) (h : p.InDomainW k) (b : Bytes) (hb : p.encode? = some b) :
    (p.abs.legal = true ∧ p.abs.body.length < 268435456 + k) ∧ p.abs.unparse = b
      ∧ p.abs.view = (Packet.connect p).view ∧ p.body? = some p.abs.body := by
  obtain ⟨hfix, hname, hver, hi, hwok, hnone, rc, r1, r2, ru, rp, hu, hlen⟩ := h
  have hprops := p.props_eq hu
  have hflags := p.abs_flags hi (fun hw => (hnone hw).2.2)
  have huser : (if has p.flags 128 = true then some p.username else none : Option Bytes)
      = if has p.flags Connect.fUsername = true then some p.username else none := rfl
  -- the body, by cases on the will
  have hbody : p.body? = some p.abs.body := by
    simp only [Connect.body?, Connect.payload?, Connect.abs, SPacket.body, hflags, Connect.varHeader, hname, hver,
      Connect.mqtt5, hprops, Connect.fWillFlag, Connect.fUsername, Connect.fPassword]
    cases hw : p.will with
    | none =>
      have h4 : has p.flags 4 = false := by rw [hi.will, hw]; rfl
      simp only [h4, Option.map_none, Bool.false_eq_true, if_false, Option.map_some, Option.some.injEq]
      by_cases h128 : has p.flags 128 = true <;> by_cases h64 : has p.flags 64 = true <;> simp [h128, h64, propSection]
    | some w =>
      have h4 : has p.flags 4 = true := by rw [hi.will, hw]; rfl
      have hwp := p.willProps_eq w (hwok w hw).2.2.2.2.2.2.2.2.2.2.2.2
      simp only [h4, if_true, Option.map_some, Option.some.injEq, hwp, Connect.absWill]
      by_cases h128 : has p.flags 128 = true <;> by_cases h64 : has p.flags 64 = true <;> simp [h128, h64, propSection]
  have henc : p.encode? = some p.abs.unparse := by
    simp only [Connect.encode?, hbody, Option.map_some, SPacket.unparse, Spec.mkFrame, frame]
    simp [Connect.abs, SPacket.firstByte, hfix]
  rw [henc] at hb
  simp only [Option.some.injEq] at hb
  refine ⟨⟨?_, hlen _ hbody⟩, hb, ?_, hbody⟩
  · simp only [Connect.abs, SPacket.legal, p.occs_legal r1 r2 hu, Bool.true_and, Bool.and_eq_true]
    refine ⟨⟨⟨?_, ?_⟩, ?_⟩, ?_⟩
    · simpa [Spec.SPacket.strOK, strOK] using rc
    · cases hw : p.will with
      | none => simp
      | some w =>
        have hW := hwok w hw
        obtain ⟨_, hm2⟩ := p.will_mirror w hi hw hW
        simp only [Option.map_some, Connect.absWill, p.willOccs_legal w hW, Bool.and_eq_true, decide_eq_true_eq, Bool.true_and, Bool.and_true]
        refine ⟨⟨?_, ?_⟩, ?_⟩
        · rw [hm2]; exact hW.2.2.1
        · simpa [Spec.SPacket.strOK, strOK] using hW.2.2.2.2.2.2.2.1
        · rw [hW.2.2.2.2.2.2.1]; simpa [Spec.SPacket.strOK, strOK] using hW.2.2.2.2.2.2.2.2.1
    · by_cases h128 : has p.flags 128 = true
      · simp only [h128, if_true]; simpa [Spec.SPacket.strOK, strOK] using ru
      · simp [h128]
    · by_cases h64 : has p.flags 64 = true
      · simp only [h64, if_true]; simpa [Spec.SPacket.strOK, strOK] using rp
      · simp [h64]
  · simp only [Connect.abs, SPacket.view, Packet.view, Connect.view, hflags]
    have hk : kinds (connectFields p) = Connect.fkinds := rfl
    have hnd : (Connect.fkinds.map (·.1)).Nodup := by decide
    have pv := fun (id : UInt8) (dflt : VV) (hid : id ≠ 0x26) (v : WVal) (hm : (id, v) ∈ connectFields p)
        (hz : v.isZero = true → vvOf v = dflt) =>
      propVal_fieldsK (connectFields p) p.userProps Connect.fkinds hk id dflt hnd hid v hm hz
    have v16 := pv 0x16 (.s []) (by decide) (.bin p.authData) (by simp [connectFields]) (bin_zero _)
    have v15 := pv 0x15 (.s []) (by decide) (.bin p.authMethod) (by simp [connectFields]) (bin_zero _)
    have v27 := pv 0x27 (.n 0) (by decide) (.u32 p.maxPacketSize) (by simp [connectFields]) (u32_zero _)
    have v21 := pv 0x21 (.n 0) (by decide) (.u16 p.receiveMax) (by simp [connectFields]) (u16_zero _)
    have v17 := pv 0x17 (.b false) (by decide) (.bool p.requestProblemInfo) (by simp [connectFields]) (bool_zero _)
    have v19 := pv 0x19 (.b false) (by decide) (.bool p.requestResponseInfo) (by simp [connectFields]) (bool_zero _)
    have v11 := pv 0x11 (.n 0) (by decide) (.u32 p.sessionExpiryInterval) (by simp [connectFields]) (u32_zero _)
    have v22 := pv 0x22 (.n 0) (by decide) (.u16 p.topicAliasMax) (by simp [connectFields]) (u16_zero _)
    have hups := userPropsOf_occsK (connectFields p) p.userProps Connect.fkinds hk (by decide)
    have hpw : (if has p.flags 64 = true then some p.password else none : Option Bytes).getD [] = p.password := by
      have := hi.pass
      cases h64 : has p.flags 64
      · rw [h64] at this; simp only [Bool.false_eq_true, if_false, Option.getD_none]
        have : ¬ (p.password ≠ []) := by simpa using this.symm
        exact (Decidable.not_not.mp this).symm
      · simp
    have hun : (if has p.flags 128 = true then some p.username else none : Option Bytes).getD [] = p.username := by
      have := hi.user
      cases h128 : has p.flags 128
      · rw [h128] at this; simp only [Bool.false_eq_true, if_false, Option.getD_none]
        have : ¬ (p.username ≠ []) := by simpa using this.symm
        exact (Decidable.not_not.mp this).symm
      · simp
    simp only [Connect.occs] at v16 v15 v27 v21 v17 v19 v11 v22 hups ⊢
    rw [v16, v15, v27, v21, v17, v19, v11, v22, hups, hpw, hun]
    cases hw : p.will with
    | none =>
      obtain ⟨hd0, _, _⟩ := hnone hw
      simp [vvOf, Connect.fCleanStart, Connect.mqtt5, hname, hver, hd0]
    | some w =>
      obtain ⟨wv1, wv2⟩ := p.will_view w hi hw (hwok w hw)
      simp only [Option.map_some, Option.isSome_some]
      rw [wv1, wv2]
      simp [vvOf, Connect.fCleanStart, Connect.mqtt5, hname, hver]

theorem E_connect (p : Connect) (h : p.InDomain) (b : Bytes) (hb : p.encode? = some b) :
    p.abs.Legal ∧ p.abs.unparse = b ∧ p.abs.view = (Packet.connect p).view := by
  obtain ⟨h1, h2, h3, _⟩ := E_connect_core 0 p h b hb
  exact ⟨h1, h2, h3⟩

end Mq
