import Proofs.EConnAck
/-!
# Proofs.EPublish — E for PUBLISH
-/
namespace Mq
open Spec (SPacket propsLegal propBytes propSection propVal userPropsOf subIDsOf vvOf occLegal propDef?)
open Tie (encFields kinds publishFields)

def Publish.fkinds : List (UInt8 × WKind) :=
  [(0x01, .bool), (0x02, .u32), (0x23, .u16), (0x08, .bin), (0x09, .bin), (0x03, .bin)]

def subOccs (ids : List UInt32) : List PropOcc := ids.map fun v => ⟨0x0b, .vb v.toNat⟩

def Publish.rep (p : Publish) : List PropOcc := upOccs p.userProps ++ subOccs p.subscriptionIDs
def Publish.occs (p : Publish) : List PropOcc := occsOf (publishFields p) ++ p.rep
def Publish.abs (p : Publish) : SPacket :=
  .publish p.duplicate p.qos p.retain p.topicName p.packetID p.occs p.payload

theorem subIDs_enc (ids : List UInt32) (h : ∀ v ∈ ids, 1 ≤ v.toNat ∧ v.toNat < 268435456) :
    ids.flatMap (fun v => encPropOpt 0x0b (.vb v.toNat)) = propBytes (subOccs ids) := by
  induction ids with
  | nil => rfl
  | cons v ids ih =>
    have hv : v.toNat ≠ 0 := by have := (h v (by simp)).1; omega
    simp only [List.flatMap_cons, subOccs, List.map_cons, propBytes] at ih ⊢
    rw [ih (fun x hx => h x (by simp [hx]))]
    simp [encPropOpt, WVal.isZero, hv, Spec.encOccS]

theorem Publish.props_eq (p : Publish) (hu : UpsInRange p.userProps)
    (hs : ∀ v ∈ p.subscriptionIDs, 1 ≤ v.toNat ∧ v.toNat < 268435456) : p.props = propBytes p.occs := by
  rw [(Tie.M2_publish p), encFields_eq, encUserProps_eq _ (ups_keys _ hu), subIDs_enc _ hs]
  simp only [Publish.occs, Publish.rep, propBytes_append, List.append_assoc]

theorem propDef?_sub : propDef? 0x0b = some { id := 0x0b, ty := .vb, allowed := [3, 8], repeatable := [3] } := rfl

theorem publish_fixed_table : ∀ n : Fin 256,
    let f := UInt8.ofNat n.val
    f &&& 0xf0 = 0x30 →
      (0x30 : UInt8) ||| (if has f 8 then (8 : UInt8) else 0)
        ||| ((if has f 6 then 3 else if has f 2 then 1 else if has f 4 then 2 else (0 : UInt8)) <<< 1)
        ||| (if has f 1 then (1 : UInt8) else 0) = f := by
  decide +kernel

theorem Publish.firstByte_eq (p : Publish) (h : p.fixed &&& 0xf0 = 0x30) : p.abs.firstByte = p.fixed := by
  have := publish_fixed_table ⟨p.fixed.toNat, p.fixed.toNat_lt⟩
  simp only [UInt8.ofNat_toNat] at this
  simpa [Publish.abs, SPacket.firstByte, Publish.duplicate, Publish.qos, Publish.retain] using this h

theorem subIDsOf_append (a b : List PropOcc) : subIDsOf (a ++ b) = subIDsOf a ++ subIDsOf b := by
  simp [subIDsOf, List.filterMap_append]

theorem subIDsOf_nil_of_ids (ps : List PropOcc) (h : ∀ o ∈ ps, o.id ≠ 0x0b) : subIDsOf ps = [] := by
  unfold subIDsOf
  apply List.filterMap_eq_nil_iff.mpr
  intro o ho
  have := h o ho
  cases hv : o.val <;> simp [this]

theorem subIDsOf_subOccs (ids : List UInt32) : subIDsOf (subOccs ids) = ids.map UInt32.toNat := by
  induction ids with
  | nil => rfl
  | cons v ids ih =>
    simp only [subIDsOf, subOccs, List.map_cons, List.filterMap_cons] at ih ⊢
    simp [ih]

theorem userPropsOf_subOccs (ids : List UInt32) : userPropsOf (subOccs ids) = [] := by
  apply userPropsOf_nil_of_ids
  intro o ho; simp only [subOccs, List.mem_map] at ho; obtain ⟨v, _, rfl⟩ := ho
  show (0x0b : UInt8) ≠ 0x26; decide

theorem E_publish (p : Publish) (h : p.InDomain) :
    p.abs.Legal ∧ p.abs.unparse = p.encode ∧ p.abs.view = (Packet.publish p).view ∧ p.abs.firstByte = p.fixed := by
  obtain ⟨hfix, hq, hpid, r1, r2, r3, r4, hu, hs, hlen⟩ := h
  have hprops := p.props_eq hu hs
  have hk : kinds (publishFields p) = Publish.fkinds := rfl
  have hfst : (publishFields p).map (·.1) = Publish.fkinds.map (·.1) := by rw [← hk, kinds_fst]
  have hrepids : ∀ o ∈ p.rep, o.id = 0x26 ∨ o.id = 0x0b := by
    intro o ho
    rcases List.mem_append.mp ho with h1 | h2
    · exact Or.inl (upOccs_ids _ o h1)
    · simp only [subOccs, List.mem_map] at h2; obtain ⟨v, _, rfl⟩ := h2; exact Or.inr rfl
  have hleg : propsLegal 3 p.occs = true := by
    apply occs_legal' 3 (publishFields p) p.rep (by rw [hk]; decide) (by rw [hfst]; decide)
    · intro f hf
      simp only [publishFields, List.mem_cons, List.mem_nil_iff, or_false] at hf
      rcases hf with rfl | rfl | rfl | rfl | rfl | rfl <;>
        first | rfl | exact strOK_range _ r2 | exact strOK_range _ r3 | exact strOK_range _ r4
    · intro o ho
      rcases List.mem_append.mp ho with h1 | h2
      · exact upOccs_repOK 3 (by decide) (publishFields p) p.userProps hu (by rw [hfst]; decide) o h1
      · simp only [subOccs, List.mem_map] at h2
        obtain ⟨v, hv, rfl⟩ := h2
        refine ⟨?_, ⟨_, propDef?_sub, by decide⟩, by rw [hfst]; show (0x0b : UInt8) ∉ _; decide⟩
        have := (hs v hv).2
        simp [occLegal, propDef?_sub, WVal.kind, Spec.valInRange, this]
  have hq0 : (p.qos = 0) ↔ p.hasPacketID = false := by
    have : p.qos = 0 ∨ p.qos = 1 ∨ p.qos = 2 := by
      have h3 := p.qos_lt4
      have : p.qos.toNat ≤ 2 := by simpa using UInt8.le_iff_toNat_le.mp hq
      rcases (by omega : p.qos.toNat = 0 ∨ p.qos.toNat = 1 ∨ p.qos.toNat = 2) with h | h | h
      · exact Or.inl (UInt8.toNat_inj.mp h)
      · exact Or.inr (Or.inl (UInt8.toNat_inj.mp h))
      · exact Or.inr (Or.inr (UInt8.toNat_inj.mp h))
    rcases this with h | h | h <;> simp [Publish.hasPacketID, h]
  have hbody : p.abs.body = p.body := by
    simp only [Publish.abs, SPacket.body, Publish.body, Publish.varHeader, hprops, propSection]
    by_cases h0 : p.qos = 0
    · simp [h0, hq0.mp h0]
    · have : p.hasPacketID = true := by
        cases hh : p.hasPacketID with
        | true => rfl
        | false => exact absurd (hq0.mpr hh) h0
      simp [h0, this]
  have hfb := p.firstByte_eq hfix
  refine ⟨⟨?_, by rw [hbody]; exact hlen⟩, ?_, ?_, hfb⟩
  · simp only [Publish.abs, SPacket.legal, hleg, Bool.and_true, Bool.and_eq_true, decide_eq_true_eq]
    exact ⟨hq, by simpa [Spec.SPacket.strOK, strOK] using r1⟩
  · simp only [SPacket.unparse, Spec.mkFrame, hbody, Publish.encode, frame, hfb]
  · simp only [Publish.abs, SPacket.view, Spec.SPacket.publishView, Packet.view, Publish.view]
    have hnd : (Publish.fkinds.map (·.1)).Nodup := by decide
    have pv := fun (id : UInt8) (dflt : VV) (hid1 : id ≠ 0x26) (hid2 : id ≠ 0x0b) (v : WVal)
        (hm : (id, v) ∈ publishFields p) (hz : v.isZero = true → vvOf v = dflt) =>
      propVal_fields (publishFields p) p.rep id dflt (by rw [hfst]; exact hnd)
        (fun o ho e => by
          rcases hrepids o ho with h | h
          · rw [h] at e; exact hid1 e.symm
          · rw [h] at e; exact hid2 e.symm) v hm hz
    have v03 := pv 0x03 (.s []) (by decide) (by decide) (.bin p.contentType) (by simp [publishFields]) (bin_zero _)
    have v09 := pv 0x09 (.s []) (by decide) (by decide) (.bin p.correlationData) (by simp [publishFields]) (bin_zero _)
    have v02 := pv 0x02 (.n 0) (by decide) (by decide) (.u32 p.messageExpiryInterval) (by simp [publishFields]) (u32_zero _)
    have v01 := pv 0x01 (.b false) (by decide) (by decide) (.bool p.payloadFormat) (by simp [publishFields]) (bool_zero _)
    have v08 := pv 0x08 (.s []) (by decide) (by decide) (.bin p.responseTopic) (by simp [publishFields]) (bin_zero _)
    have v23 := pv 0x23 (.n 0) (by decide) (by decide) (.u16 p.topicAlias) (by simp [publishFields]) (u16_zero _)
    have hfno26 : ∀ o ∈ occsOf (publishFields p), o.id ≠ 0x26 := by
      intro o ho e
      have := mem_occsOf _ o ho
      have : o.id ∈ (publishFields p).map (·.1) := by simp only [List.mem_map]; exact ⟨_, this, rfl⟩
      rw [hfst, e] at this; revert this; decide
    have hfno0b : ∀ o ∈ occsOf (publishFields p), o.id ≠ 0x0b := by
      intro o ho e
      have := mem_occsOf _ o ho
      have : o.id ∈ (publishFields p).map (·.1) := by simp only [List.mem_map]; exact ⟨_, this, rfl⟩
      rw [hfst, e] at this; revert this; decide
    have hups : userPropsOf p.occs = p.userProps := by
      simp only [Publish.occs, Publish.rep, userPropsOf_append, userPropsOf_nil_of_ids _ hfno26, userPropsOf_upOccs,
        userPropsOf_subOccs, List.nil_append, List.append_nil]
    have hsub : subIDsOf p.occs = p.subscriptionIDs.map UInt32.toNat := by
      simp only [Publish.occs, Publish.rep, subIDsOf_append, subIDsOf_nil_of_ids _ hfno0b, subIDsOf_subOccs, List.nil_append]
      rw [subIDsOf_nil_of_ids _ (fun o ho => by rw [upOccs_ids _ o ho]; decide), List.nil_append]
    simp only [Publish.occs] at hups hsub ⊢
    rw [v03, v09, v02, v01, v08, v23, hups, hsub]
    have hp : (if p.qos = 0 then 0 else p.packetID.toNat) = p.packetID.toNat := by
      by_cases h0 : p.qos = 0
      · simp [h0, hpid h0]
      · simp [h0]
    simp [vvOf, hp]

end Mq
