import Proofs.FrameRead
/-!
# Proofs.Fixed — decoding never touches the first byte; encoding starts with it
-/
namespace Mq

theorem foldl_preserves {P α : Type} (f : P → PropOcc → P) (g : P → α) (h : ∀ p o, g (f p o) = g p) :
    ∀ (occs : List PropOcc) (p : P), g (occs.foldl f p) = g p := by
  intro occs
  induction occs with
  | nil => intro p; rfl
  | cons o t ih => intro p; simp only [List.foldl_cons]; rw [ih, h]

theorem Ack.applyOcc_fixed (p : Ack) (o : PropOcc) : (p.applyOcc o).fixed = p.fixed := by
  unfold Ack.applyOcc; split <;> (try split) <;> rfl
theorem Disconnect.applyOcc_fixed (p : Disconnect) (o : PropOcc) : (p.applyOcc o).fixed = p.fixed := by
  unfold Disconnect.applyOcc; split <;> (try split) <;> (try split) <;> rfl
theorem Auth.applyOcc_fixed (p : Auth) (o : PropOcc) : (p.applyOcc o).fixed = p.fixed := by
  unfold Auth.applyOcc; split <;> (try split) <;> (try split) <;> (try split) <;> rfl
theorem ConnAck.applyOcc_fixed (p : ConnAck) (o : PropOcc) : (p.applyOcc o).fixed = p.fixed := by
  unfold ConnAck.applyOcc
  split <;> (try split) <;> (try split) <;> (try split) <;> (try split) <;> (try split) <;> (try split) <;> rfl
theorem SubAck.applyOcc_fixed (p : SubAck) (o : PropOcc) : (p.applyOcc o).fixed = p.fixed := by
  unfold SubAck.applyOcc; split <;> (try split) <;> rfl
theorem Subscribe.applyOcc_fixed (p : Subscribe) (o : PropOcc) : (p.applyOcc o).fixed = p.fixed := by
  unfold Subscribe.applyOcc; split <;> (try split) <;> rfl
theorem Unsubscribe.applyOcc_fixed (p : Unsubscribe) (o : PropOcc) : (p.applyOcc o).fixed = p.fixed := by
  unfold Unsubscribe.applyOcc; split <;> (try split) <;> rfl
theorem Publish.applyOcc_fixed (p : Publish) (o : PropOcc) : (p.applyOcc o).fixed = p.fixed := by
  unfold Publish.applyOcc; split <;> (try split) <;> (try split) <;> (try split) <;> rfl
theorem Connect.applyOcc_fixed (p : Connect) (o : PropOcc) : (p.applyOcc o).fixed = p.fixed := by
  unfold Connect.applyOcc; split <;> (try split) <;> (try split) <;> rfl

theorem Ack.unmarshal_fixed (p : Ack) (d : Bytes) : (p.unmarshal d).1.fixed = p.fixed := by
  unfold Ack.unmarshal; simp only []
  split
  · rw [foldl_preserves Ack.applyOcc Ack.fixed Ack.applyOcc_fixed]
  · rfl
theorem Disconnect.unmarshal_fixed (p : Disconnect) (d : Bytes) : (p.unmarshal d).1.fixed = p.fixed := by
  unfold Disconnect.unmarshal; simp only []
  rw [foldl_preserves Disconnect.applyOcc Disconnect.fixed Disconnect.applyOcc_fixed]
theorem Auth.unmarshal_fixed (p : Auth) (d : Bytes) : (p.unmarshal d).1.fixed = p.fixed := by
  unfold Auth.unmarshal; simp only []
  rw [foldl_preserves Auth.applyOcc Auth.fixed Auth.applyOcc_fixed]
theorem ConnAck.unmarshal_fixed (p : ConnAck) (d : Bytes) : (p.unmarshal d).1.fixed = p.fixed := by
  unfold ConnAck.unmarshal; simp only []
  rw [foldl_preserves ConnAck.applyOcc ConnAck.fixed ConnAck.applyOcc_fixed]
theorem SubAck.unmarshal_fixed (p : SubAck) (d : Bytes) : (p.unmarshal d).1.fixed = p.fixed := by
  unfold SubAck.unmarshal; simp only []
  rw [foldl_preserves SubAck.applyOcc SubAck.fixed SubAck.applyOcc_fixed]
theorem Subscribe.unmarshal_fixed (p : Subscribe) (d : Bytes) : (p.unmarshal d).1.fixed = p.fixed := by
  unfold Subscribe.unmarshal; simp only []
  rw [foldl_preserves Subscribe.applyOcc Subscribe.fixed Subscribe.applyOcc_fixed]
theorem Unsubscribe.unmarshal_fixed (p : Unsubscribe) (d : Bytes) : (p.unmarshal d).1.fixed = p.fixed := by
  unfold Unsubscribe.unmarshal; simp only []
  rw [foldl_preserves Unsubscribe.applyOcc Unsubscribe.fixed Unsubscribe.applyOcc_fixed]

theorem Publish.unmarshal_fixed (p : Publish) (d : Bytes) : (p.unmarshal d).1.fixed = p.fixed := by
  unfold Publish.unmarshal; simp only []
  have h1 : ∀ (q : Publish) (b : Buf), (q.readHead b).2.fixed = q.fixed := by
    intro q b; unfold Publish.readHead; simp only []; split <;> rfl
  have h2 : ∀ (q : Publish) (b : Buf), (q.readProps b).2.fixed = q.fixed := by
    intro q b; unfold Publish.readProps; simp only []
    rw [foldl_preserves Publish.applyOcc Publish.fixed Publish.applyOcc_fixed]
  have h3 : ∀ (q : Publish) (b : Buf), (q.readPayload b).2.fixed = q.fixed := by
    intro q b; unfold Publish.readPayload; split <;> rfl
  rw [h3, h2, h1]

theorem Connect.unmarshal_fixed (p : Connect) (d : Bytes) : (p.unmarshal d).1.fixed = p.fixed := by
  unfold Connect.unmarshal; simp only []
  have h1 : ∀ (q : Connect) (b : Buf), (q.readHead b).2.fixed = q.fixed := by
    intro q b; rfl
  have h2 : ∀ (q : Connect) (b : Buf), (q.readProps b).2.fixed = q.fixed := by
    intro q b; unfold Connect.readProps; simp only []
    rw [foldl_preserves Connect.applyOcc Connect.fixed Connect.applyOcc_fixed]
  have h3 : ∀ (q : Connect) (b : Buf), (q.readClientID b).2.fixed = q.fixed := by intro q b; rfl
  have h4 : ∀ (q : Connect) (b : Buf), (q.readWill b).2.fixed = q.fixed := by
    intro q b; unfold Connect.readWill; split <;> rfl
  have h5 : ∀ (q : Connect) (b : Buf), (q.readUsername b).2.fixed = q.fixed := by
    intro q b; unfold Connect.readUsername; split <;> rfl
  have h6 : ∀ (q : Connect) (b : Buf), (q.readPassword b).2.fixed = q.fixed := by
    intro q b; unfold Connect.readPassword; split <;> rfl
  rw [h6, h5, h4, h3, h2, h1]

/-- decoding keeps the dynamic type and the first byte -/
theorem Packet.unmarshal_kind_fixed (p : Packet) (d : Bytes) :
    (p.unmarshal d).1.kind = p.kind ∧ (p.unmarshal d).1.fixed = p.fixed := by
  cases p with
  | undefined q => exact ⟨rfl, rfl⟩
  | connect q => exact ⟨rfl, Connect.unmarshal_fixed q d⟩
  | connack q => exact ⟨rfl, ConnAck.unmarshal_fixed q d⟩
  | publish q => exact ⟨rfl, Publish.unmarshal_fixed q d⟩
  | puback q => exact ⟨rfl, Ack.unmarshal_fixed q d⟩
  | pubrec q => exact ⟨rfl, Ack.unmarshal_fixed q d⟩
  | pubrel q => exact ⟨rfl, Ack.unmarshal_fixed q d⟩
  | pubcomp q => exact ⟨rfl, Ack.unmarshal_fixed q d⟩
  | subscribe q => exact ⟨rfl, Subscribe.unmarshal_fixed q d⟩
  | suback q => exact ⟨rfl, SubAck.unmarshal_fixed q d⟩
  | unsubscribe q => exact ⟨rfl, Unsubscribe.unmarshal_fixed q d⟩
  | unsuback q => exact ⟨rfl, SubAck.unmarshal_fixed q d⟩
  | pingreq q => exact ⟨rfl, rfl⟩
  | pingresp q => exact ⟨rfl, rfl⟩
  | disconnect q => exact ⟨rfl, Disconnect.unmarshal_fixed q d⟩
  | auth q => exact ⟨rfl, Auth.unmarshal_fixed q d⟩

/-- every frame WriteTo emits starts with the packet's first byte -/
theorem Packet.encode_head (p : Packet) (bs : Bytes) (h : p.encode = .bytes bs) : bs.head? = some p.fixed := by
  cases p with
  | undefined q => simp [Packet.encode] at h
  | connect q =>
    simp only [Packet.encode] at h
    split at h
    · rename_i b hb
      simp at h; subst h
      simp only [Connect.encode?, Connect.body?] at hb
      cases hp : q.payload? with
      | none => simp [hp] at hb
      | some pl => simp [hp] at hb; subst hb; simp [frame, Packet.fixed]
    · simp at h
  | connack q => simp [Packet.encode] at h; subst h; simp [ConnAck.encode, frame, Packet.fixed]
  | publish q => simp [Packet.encode] at h; subst h; simp [Publish.encode, frame, Packet.fixed]
  | puback q => simp [Packet.encode] at h; subst h; simp [Ack.encode, frame, Packet.fixed]
  | pubrec q => simp [Packet.encode] at h; subst h; simp [Ack.encode, frame, Packet.fixed]
  | pubrel q => simp [Packet.encode] at h; subst h; simp [Ack.encode, frame, Packet.fixed]
  | pubcomp q => simp [Packet.encode] at h; subst h; simp [Ack.encode, frame, Packet.fixed]
  | subscribe q => simp [Packet.encode] at h; subst h; simp [Subscribe.encode, frame, Packet.fixed]
  | suback q => simp [Packet.encode] at h; subst h; simp [SubAck.encode, frame, Packet.fixed]
  | unsubscribe q => simp [Packet.encode] at h; subst h; simp [Unsubscribe.encode, frame, Packet.fixed]
  | unsuback q => simp [Packet.encode] at h; subst h; simp [SubAck.encode, frame, Packet.fixed]
  | pingreq q => simp [Packet.encode] at h; subst h; simp [Ping.encode, Packet.fixed]
  | pingresp q => simp [Packet.encode] at h; subst h; simp [Ping.encode, Packet.fixed]
  | disconnect q => simp [Packet.encode] at h; subst h; simp [Disconnect.encode, frame, Packet.fixed]
  | auth q => simp [Packet.encode] at h; subst h; simp [Auth.encode, frame, Packet.fixed]

end Mq
