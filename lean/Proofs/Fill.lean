import Mq.Fill
import Proofs.Wire
/-!
# Proofs.Fill — the Go-shaped fillers refine list append; dry run and real pass agree
-/
namespace Mq

/-- overwrite `bs` at offset `i` (meaningful when there is room) -/
def splice (b : Bytes) (i : Nat) (bs : Bytes) : Bytes := b.take i ++ bs ++ b.drop (i + bs.length)

/-- `f` is the Go `fill` of the byte string `bs`: it always returns `|bs|`, never changes the
buffer's length, and when the buffer has room for `bs` at `i` it writes exactly `bs` there and
touches nothing else. (With less room the Go code may write nothing or, for `vbint`, a part.) -/
structure Sound (f : Filler) (bs : Bytes) : Prop where
  width : ∀ b i, (f b i).2 = bs.length
  len : ∀ b i, (f b i).1.length = b.length
  write : ∀ b i, i + bs.length ≤ b.length → (f b i).1 = splice b i bs

theorem splice_length (b : Bytes) (i : Nat) (bs : Bytes) (h : i + bs.length ≤ b.length) :
    (splice b i bs).length = b.length := by
  simp [splice]; omega

theorem splice_nil (b : Bytes) (i : Nat) : splice b i [] = b := by simp [splice]

theorem splice_splice (b : Bytes) (i : Nat) (xs ys : Bytes) (h : i + xs.length + ys.length ≤ b.length) :
    splice (splice b i xs) (i + xs.length) ys = splice b i (xs ++ ys) := by
  unfold splice
  have hl : (b.take i ++ xs).length = i + xs.length := by
    simp [List.length_take]; omega
  have h1 : (b.take i ++ xs ++ b.drop (i + xs.length)).take (i + xs.length) = b.take i ++ xs := by
    rw [← hl, List.take_left]
  have h2 : (b.take i ++ xs ++ b.drop (i + xs.length)).drop (i + xs.length + ys.length)
      = b.drop (i + (xs ++ ys).length) := by
    have e : i + xs.length + ys.length = (b.take i ++ xs).length + ys.length := by rw [hl]
    rw [e, List.drop_append, List.drop_drop, hl]
    have d0 : List.drop (i + xs.length + ys.length) (b.take i ++ xs) = [] :=
      List.drop_of_length_le (by omega)
    rw [d0, List.nil_append]
    congr 1
    simp only [List.length_append]; omega
  rw [h1, h2]; simp

theorem Sound.cast {f : Filler} {xs ys : Bytes} (h : Sound f xs) (e : xs = ys) : Sound f ys := e ▸ h

theorem Sound.nop : Sound Filler.nop [] :=
  ⟨fun _ _ => rfl, fun _ _ => rfl, fun b i _ => by simp [Filler.nop, splice_nil]⟩

theorem Sound.seq {f g : Filler} {xs ys : Bytes} (hf : Sound f xs) (hg : Sound g ys) :
    Sound (Filler.seq f g) (xs ++ ys) := by
  refine ⟨?_, ?_, ?_⟩
  · intro b i; simp [Filler.seq, hf.width, hg.width]
  · intro b i; simp [Filler.seq, hg.len, hf.len]
  · intro b i h
    simp only [Filler.seq, hf.width]
    have h' : i + xs.length + ys.length ≤ b.length := by simp at h; omega
    rw [hg.write _ _ (by rw [hf.len]; omega), hf.write _ _ (by omega)]
    exact splice_splice b i xs ys h'

/-- pointwise soundness of a list of fillers -/
inductive Sounds : List Filler → List Bytes → Prop
  | nil : Sounds [] []
  | cons {f : Filler} {bs : Bytes} {fs : List Filler} {bss : List Bytes} : Sound f bs → Sounds fs bss → Sounds (f :: fs) (bs :: bss)

/-- a run of `i += fₖ(b, i)` statements -/
theorem Sound.seqs {fs : List Filler} {bss : List Bytes} (h : Sounds fs bss) : Sound (Filler.seqs fs) bss.flatten := by
  induction h with
  | nil => simpa [Filler.seqs] using Sound.nop
  | cons h _ ih => simpa [Filler.seqs] using Sound.seq h ih

theorem Sound.dry {f : Filler} {bs : Bytes} (h : Sound f bs) : f.dry = bs.length := h.width _ _

/-- a loop `for _, x := range xs { i += fill x }` -/
theorem Sound.map {α} (xs : List α) (f : α → Filler) (enc : α → Bytes) (h : ∀ x, Sound (f x) (enc x)) :
    Sound (Filler.seqs (xs.map f)) (xs.flatMap enc) := by
  have : Sounds (xs.map f) (xs.map enc) := by
    induction xs with
    | nil => exact .nil
    | cons x xs ih => exact .cons (h x) ih
  simpa [List.flatMap] using Sound.seqs this

/-- branches of an `if` in the Go code -/
theorem Sound.ite {c : Prop} [Decidable c] {f g : Filler} {xs ys : Bytes} (hf : Sound f xs) (hg : Sound g ys) :
    Sound (if c then f else g) (if c then xs else ys) := by
  split <;> assumption

/-! ## wire types -/

theorem set_eq_splice (b : Bytes) (i : Nat) (v : UInt8) (h : i + 1 ≤ b.length) : b.set i v = splice b i [v] := by
  simp [splice, List.set_eq_take_append_cons_drop, show i < b.length by omega]

theorem fillByte_sound (v : UInt8) : Sound (fillByte v) [v] := by
  refine ⟨fun _ _ => rfl, ?_, ?_⟩
  · intro b i; simp only [fillByte]; split <;> simp
  · intro b i h
    simp only [List.length_singleton] at h
    simp only [fillByte, ge_iff_le, h, if_true]
    exact set_eq_splice b i v h

theorem fillBool_sound (v : Bool) : Sound (fillBool v) (encBool v) := fillByte_sound _

theorem fillU16_sound (v : UInt16) : Sound (fillU16 v) (encU16 v) := by
  have := Sound.seq (fillByte_sound (UInt8.ofNat (v.toNat / 256))) (fillByte_sound (UInt8.ofNat (v.toNat % 256)))
  refine ⟨fun _ _ => rfl, ?_, ?_⟩
  · intro b i; simp only [fillU16]; split <;> simp
  · intro b i h
    simp only [encU16, List.length_cons, List.length_nil] at h
    have e := this.write b i (by simpa using h)
    simp only [Filler.seq, fillByte, ge_iff_le, List.length_set, show i + 1 ≤ b.length by omega,
      show i + 1 + 1 ≤ b.length by omega, if_true] at e
    simp only [fillU16, ge_iff_le, h, if_true, encU16]
    exact e

theorem fillU32_sound (v : UInt32) : Sound (fillU32 v) (encU32 v) := by
  have := Sound.seq (fillByte_sound (UInt8.ofNat (v.toNat / 16777216)))
    (Sound.seq (fillByte_sound (UInt8.ofNat (v.toNat / 65536 % 256)))
      (Sound.seq (fillByte_sound (UInt8.ofNat (v.toNat / 256 % 256))) (fillByte_sound (UInt8.ofNat (v.toNat % 256)))))
  refine ⟨fun _ _ => rfl, ?_, ?_⟩
  · intro b i; simp only [fillU32]; split <;> simp
  · intro b i h
    simp only [encU32, List.length_cons, List.length_nil] at h
    have e := this.write b i (by simpa using h)
    simp only [Filler.seq, fillByte, ge_iff_le, List.length_set, show i + 1 ≤ b.length by omega,
      show i + 1 + 1 ≤ b.length by omega, show i + 1 + 1 + 1 ≤ b.length by omega,
      show i + 1 + 1 + 1 + 1 ≤ b.length by omega, if_true] at e
    simp only [fillU32, ge_iff_le, h, if_true, encU32]
    simpa [Nat.add_assoc] using e

theorem copyAt_eq_splice (b : Bytes) (i : Nat) (src : Bytes) (h : i + src.length ≤ b.length) :
    copyAt b i src = splice b i src := by
  have h1 : src.length ≤ b.length - i := by omega
  simp [copyAt, splice, List.take_of_length_le h1, Nat.min_eq_left h1]

theorem copyAt_length (b : Bytes) (i : Nat) (src : Bytes) (h : i ≤ b.length) : (copyAt b i src).length = b.length := by
  simp only [copyAt, List.length_append, List.length_take, List.length_drop]
  omega

theorem encBin_eq (v : Bytes) : encBin v = encU16 (UInt16.ofNat v.length) ++ v := by
  simp only [encBin, encU16, UInt16.toNat_ofNat']
  have h1 : UInt8.ofNat (v.length % 2 ^ 16 / 256) = UInt8.ofNat (v.length / 256) := by
    apply UInt8.toNat_inj.mp
    simp only [UInt8.toNat_ofNat']; omega
  have h2 : UInt8.ofNat (v.length % 2 ^ 16 % 256) = UInt8.ofNat (v.length % 256) := by
    congr 1; omega
  simp [h1, h2]

theorem fillBin_sound (v : Bytes) : Sound (fillBin v) (encBin v) := by
  have hl : (encBin v).length = 2 + v.length := by simp [encBin]; omega
  refine ⟨?_, ?_, ?_⟩
  · intro b i; simp only [fillBin]; split <;> simp [hl]
  · intro b i; simp only [fillBin]; split
    · rename_i h
      rw [copyAt_length _ _ _ (by rw [(fillU16_sound _).len]; simp [fillU16]; omega)]
      exact (fillU16_sound _).len _ _
    · rfl
  · intro b i h
    rw [hl] at h
    simp only [fillBin, ge_iff_le, h, if_true]
    have hw : (fillU16 (UInt16.ofNat v.length) b i).2 = 2 := rfl
    rw [hw, copyAt_eq_splice _ _ _ (by rw [(fillU16_sound _).len]; omega),
      (fillU16_sound _).write _ _ (by simp [encU16]; omega)]
    have := splice_splice b i (encU16 (UInt16.ofNat v.length)) v (by simp [encU16]; omega)
    simp only [encU16, List.length_cons, List.length_nil] at this
    rw [encBin_eq]
    simpa [encU16] using this

theorem fillRaw_sound (v : Bytes) : Sound (fillRaw v) v := by
  refine ⟨?_, ?_, ?_⟩
  · intro b i; simp only [fillRaw]; split
    · rename_i h; simp only []; omega
    · rfl
  · intro b i; simp only [fillRaw]; split
    · rename_i h; exact copyAt_length _ _ _ (by omega)
    · rfl
  · intro b i h
    simp only [fillRaw, ge_iff_le, h, if_true]
    exact copyAt_eq_splice _ _ _ h

theorem fillPair_sound (k v : Bytes) : Sound (fillPair k v) (encPair (k, v)) := by
  have := Sound.seq (fillBin_sound k) (fillBin_sound v)
  have hw : ∀ b i, (fillBin k b i).2 = 2 + k.length := by
    intro b i; simp only [fillBin]; split <;> rfl
  refine ⟨?_, ?_, ?_⟩
  · intro b i; simp [fillPair, encPair, encBin]; omega
  · intro b i; have := this.len b i; simpa [Filler.seq, fillPair] using this
  · intro b i h
    have e := this.write b i (by simpa [encPair] using h)
    simpa [Filler.seq, fillPair, encPair] using e

/-- the `vbint.fill` loop -/
theorem fillVbAux_sound : ∀ (fuel x : Nat), x ≤ fuel →
    (∀ b i, (fillVbAux fuel x b i).2 = (encVbAux fuel x).length)
    ∧ (∀ b i, (fillVbAux fuel x b i).1.length = b.length)
    ∧ (∀ b i, i + (encVbAux fuel x).length ≤ b.length → (fillVbAux fuel x b i).1 = splice b i (encVbAux fuel x)) := by
  intro fuel
  induction fuel with
  | zero =>
    intro x hx
    refine ⟨fun _ _ => rfl, ?_, ?_⟩
    · intro b i; simp only [fillVbAux]; split <;> simp
    · intro b i h
      simp only [encVbAux, List.length_singleton] at h
      simp only [fillVbAux, show i < b.length by omega, if_true, encVbAux]
      exact set_eq_splice b i _ h
  | succ fuel ih =>
    intro x hx
    by_cases hlt : x < 128
    · have hz : x / 128 = 0 := by omega
      have he : encVbAux (fuel + 1) x = [UInt8.ofNat x] := by simp [encVbAux, hlt]
      refine ⟨?_, ?_, ?_⟩
      · intro b i; simp [fillVbAux, hz, he]
      · intro b i; simp only [fillVbAux, hz]; simp; split <;> simp
      · intro b i h
        rw [he] at h ⊢
        simp only [List.length_singleton] at h
        simp only [fillVbAux, hz, show i < b.length by omega]
        simp only [Nat.lt_irrefl, if_false, if_true, Nat.mod_eq_of_lt hlt]
        exact set_eq_splice b i _ h
    · have hz : ¬ x / 128 = 0 := by omega
      have hz' : x / 128 > 0 := by omega
      have he : encVbAux (fuel + 1) x = UInt8.ofNat (x % 128 + 128) :: encVbAux fuel (x / 128) := by
        simp [encVbAux, hlt]
      obtain ⟨i1, i2, i3⟩ := ih (x / 128) (by omega)
      refine ⟨?_, ?_, ?_⟩
      · intro b i; simp [fillVbAux, hz, he, i1]
      · intro b i; simp only [fillVbAux, hz, if_false]; rw [i2]; split <;> simp
      · intro b i h
        rw [he] at h ⊢
        simp only [List.length_cons] at h
        simp only [fillVbAux, hz, hz', if_false, if_true, show i < b.length by omega]
        rw [i3 _ _ (by simp; omega), set_eq_splice b i _ (by omega)]
        have := splice_splice b i [UInt8.ofNat (x % 128 + 128)] (encVbAux fuel (x / 128)) (by simp; omega)
        simpa using this

theorem fillVb_sound (x : Nat) : Sound (fillVb x) (encVb x) := by
  obtain ⟨h1, h2, h3⟩ := fillVbAux_sound x x (Nat.le_refl _)
  exact ⟨h1, h2, h3⟩

theorem fillV_sound : ∀ v : WVal, Sound (fillV v) (encV v)
  | .u8 v => fillByte_sound v
  | .u16 v => fillU16_sound v
  | .u32 v => fillU32_sound v
  | .bool v => fillBool_sound v
  | .bin v => fillBin_sound v
  | .pair k v => fillPair_sound k v
  | .vb n => fillVb_sound n

theorem fillProp_sound (id : UInt8) (v : WVal) : Sound (fillProp id v) (encPropOpt id v) := by
  unfold fillProp encPropOpt
  by_cases hz : v.isZero = true
  · simp only [hz, if_true]; exact Sound.nop
  · simp only [hz]
    exact Sound.seq (fillByte_sound id) (fillV_sound v)

theorem fillUserProps_sound (ups : UserProps) : Sound (fillUserProps ups) (encUserProps ups) :=
  Sound.map ups _ _ fun kv => fillProp_sound 0x26 (.pair kv.1 kv.2)

/-- the frame shape: first byte, remaining length from the dry run, the rest -/
theorem fillFrame_sound (fixed : UInt8) {rest : Filler} {body : Bytes} (h : Sound rest body) :
    Sound (fillFrame fixed rest) (frame fixed body) := by
  unfold fillFrame
  rw [h.dry]
  exact (Sound.seqs (.cons (fillByte_sound fixed) (.cons (fillVb_sound body.length) (.cons h .nil)))).cast
    (by simp [frame])

/-- **dry run and real pass agree**: the dry run returns the size; the real run on a zeroed buffer
of exactly that size returns the bytes -/
theorem two_pass {f : Filler} {bs : Bytes} (hf : Sound f bs) :
    f.dry = bs.length ∧ (f (List.replicate f.dry 0) 0).1 = bs ∧ (f (List.replicate f.dry 0) 0).2 = bs.length := by
  refine ⟨hf.dry, ?_, hf.width _ _⟩
  rw [hf.dry, hf.write _ _ (by simp)]
  simp [splice]

end Mq
