import Proofs.Reject
import Proofs.DSimple
import Proofs.DSub
import Proofs.DPublish
import Proofs.DConnect
/-!
# Proofs.RejectPackets — a legal frame cut strictly inside a field is rejected (C09 a), per packet type
-/
namespace Mq
open Spec (SPacket Form propSection StrictlyInside)

theorem strictlyInside_nil (k : Nat) : ¬ StrictlyInside [] k := by
  rintro ⟨pre, f, post, h, _⟩
  cases pre <;> simp at h

theorem strictlyInside_cons (f : Nat × Bool) (rest : List (Nat × Bool)) (k : Nat) (h : StrictlyInside (f :: rest) k) :
    (f.2 = true ∧ 0 < k ∧ k < f.1) ∨ (f.1 < k ∧ StrictlyInside rest (k - f.1)) := by
  obtain ⟨pre, g, post, hl, hg, h1, h2⟩ := h
  cases pre with
  | nil =>
    simp only [List.nil_append, List.cons.injEq] at hl
    obtain ⟨rfl, _⟩ := hl
    left; simp only [List.map_nil, List.sum_nil, Nat.zero_add] at h1 h2; exact ⟨hg, h1, h2⟩
  | cons p pre =>
    simp only [List.cons_append, List.cons.injEq] at hl
    obtain ⟨rfl, rfl⟩ := hl
    simp only [List.map_cons, List.sum_cons] at h1 h2
    right
    exact ⟨by omega, pre, g, post, rfl, hg, by omega, by omega⟩

/-- additive form: either inside the first field, or past it by `k'` -/
theorem strictlyInside_cons_add (f : Nat × Bool) (rest : List (Nat × Bool)) (k : Nat) (h : StrictlyInside (f :: rest) k) :
    (f.2 = true ∧ 0 < k ∧ k < f.1) ∨ (∃ k', k = f.1 + k' ∧ StrictlyInside rest k') := by
  rcases strictlyInside_cons f rest k h with h1 | ⟨h1, h2⟩
  · exact Or.inl h1
  · exact Or.inr ⟨k - f.1, by omega, h2⟩

/-- a body `pre ++ f` cut at `k` inside `f` -/
theorem take_inside (pre f : Bytes) (k : Nat) (h1 : pre.length < k) :
    (pre ++ f).take k = pre ++ f.take (k - pre.length) := by
  rw [List.take_append, List.take_of_length_le (by omega)]

/-- a body `pre ++ f ++ post` cut `j` bytes into `f` -/
theorem take_pre_add (pre f post : Bytes) (j : Nat) (hj : j ≤ f.length) :
    (pre ++ (f ++ post)).take (pre.length + j) = pre ++ f.take j := by
  rw [List.take_append, List.take_of_length_le (by omega)]
  congr 1
  rw [show pre.length + j - pre.length = j by omega, List.take_append_of_le_length hj]

theorem take_pre_add0 (pre f : Bytes) (j : Nat) : (pre ++ f).take (pre.length + j) = pre ++ f.take j := by
  rw [List.take_append, List.take_of_length_le (by omega), show pre.length + j - pre.length = j by omega]

theorem strictlyInside_ones {α} (l : List α) (c : Nat) : ¬ StrictlyInside (l.map fun _ => ((1 : Nat), true)) c := by
  induction l generalizing c with
  | nil => exact strictlyInside_nil _
  | cons a t ih =>
    intro h
    simp only [List.map_cons] at h
    rcases strictlyInside_cons _ _ _ h with ⟨_, h5, h6⟩ | ⟨_, hc⟩
    · simp only [] at h5 h6; omega
    · exact ih _ hc

/-- the decoder's verdict on a non-empty body whose `UnmarshalBinary` fails -/
theorem frameOutcome_failed (b0 : UInt8) (body : Bytes) (hne : body ≠ [])
    (h : ∃ e, ((Packet.dispatch b0).unmarshal body).2 = .err e) : ∃ e, frameOutcome b0 body = .err e := by
  obtain ⟨e, he⟩ := h
  unfold frameOutcome
  have : body.length ≠ 0 := fun h0 => hne (List.eq_nil_of_length_eq_zero h0)
  simp only [this, if_false]
  rcases hu : (Packet.dispatch b0).unmarshal body with ⟨q, st⟩
  rw [hu] at he; simp only at he; subst he
  exact ⟨e, rfl⟩

theorem take_ne_nil (l : Bytes) (j : Nat) (hj : 0 < j) (hl : l ≠ []) : l.take j ≠ [] := by
  cases l with
  | nil => exact absurd rfl hl
  | cons a t => cases j with
    | zero => omega
    | succ j => simp

theorem encU16_take_short (v : UInt16) (j : Nat) (hj : j < 2) : ((encU16 v).take j).length < 2 := by
  simp [encU16, List.length_take]; omega

/-- a two-byte integer cut after its first byte -/
theorem get_u16_cut (v old : UInt16) (j : Nat) (hj0 : 0 < j) (hj : j < 2) :
    ({ rest := (encU16 v).take j, st := .ok } : Buf).get decU16 old = ({ rest := (encU16 v).take j, st := .err .missing }, old) :=
  get_err_val decU16 old _ _ (take_ne_nil _ j hj0 (by simp [encU16])) (decU16_short _ (encU16_take_short v j hj))

/-- a string or binary field cut inside its length prefix or its body -/
theorem get_bin_cut (v old oldv : Bytes) (hv : v.length < 65536) (j : Nat) (hj0 : 0 < j) (hj : j < (encBin v).length) :
    ({ rest := (encBin v).take j, st := .ok } : Buf).get (decBin old) oldv
      = ({ rest := (encBin v).take j, st := .err .missing }, oldv) :=
  get_err_val (decBin old) oldv _ _ (take_ne_nil _ j hj0 (by simp [encBin])) (decBin_prefix old v hv j hj)

/-! ## CONNACK -/

theorem C09a_connack (sess : Bool) (reason : UInt8) (ps : List PropOcc) (hl : (SPacket.connack sess reason ps).Legal)
    (k : Nat) (hk : StrictlyInside (SPacket.connack sess reason ps).fieldLens k) :
    ∃ e, frameOutcome 0x20 ((SPacket.connack sess reason ps).body.take k) = .err e := by
  obtain ⟨_, hlen⟩ := hl
  simp only [SPacket.fieldLens] at hk
  rcases strictlyInside_cons _ _ _ hk with ⟨_, h1, h2⟩ | ⟨h1, hk⟩
  · omega
  rcases strictlyInside_cons _ _ _ hk with ⟨_, h2, h3⟩ | ⟨h2, hk⟩
  · omega
  rcases strictlyInside_cons _ _ _ hk with ⟨_, h3, h4⟩ | ⟨_, hk⟩
  · simp only [] at h1 h2 h3 h4
    simp only [SPacket.body] at hlen ⊢
    have hdisp : Packet.dispatch 0x20 = .connack { fixed := 0x20 } := by decide
    have hb : ([if sess = true then (1 : UInt8) else 0, reason] ++ propSection ps).take k
        = [if sess = true then (1 : UInt8) else 0, reason] ++ (propSection ps).take (k - 2) := by
      rw [take_inside _ _ _ (by simp; omega)]; rfl
    rw [hb]
    apply frameOutcome_failed _ _ (by simp)
    rw [hdisp]
    simp only [Packet.unmarshal, ConnAck.unmarshal, List.cons_append, List.nil_append, get_u8]
    have hsec : propSection ps = encVb (Spec.propBytes ps).length ++ Spec.propBytes ps := rfl
    have hL : (Spec.propBytes ps).length < 268435456 := by
      have : (propSection ps).length < 268435456 := by simp at hlen; omega
      rw [hsec] at this; simp at this; omega
    have := getAny_truncated ConnAck.table (lastBin (ConnAck.binInit { fixed := 0x20, flags := if sess = true then 1 else 0, reasonCode := reason }))
      (Spec.propBytes ps) hL (k - 2) (by omega) (by rw [← hsec]; omega)
    rw [← hsec] at this
    obtain ⟨e, he⟩ := this
    exact ⟨e, he⟩
  · exact absurd hk (strictlyInside_nil _)

/-- a property section cut at any interior position -/
theorem getAny_section_cut (tbl : PropTable) (oldOf : UInt8 → List PropOcc → Bytes) (ps : List PropOcc)
    (hlen : (propSection ps).length < 268435456) (j : Nat) (h0 : 0 < j) (hj : j < (propSection ps).length) :
    (({ rest := (propSection ps).take j, st := .ok } : Buf).getAny tbl oldOf).1.Failed := by
  have hsec : propSection ps = encVb (Spec.propBytes ps).length ++ Spec.propBytes ps := rfl
  have hL : (Spec.propBytes ps).length < 268435456 := by
    rw [hsec] at hlen; simp at hlen; omega
  have := getAny_truncated tbl oldOf (Spec.propBytes ps) hL j h0 (by rw [← hsec]; exact hj)
  rw [← hsec] at this
  exact this

/-! ## DISCONNECT, AUTH -/

theorem C09a_disconnect (form : Form) (reason : UInt8) (ps : List PropOcc) (hl : (SPacket.disconnect form reason ps).Legal)
    (k : Nat) (hk : StrictlyInside (SPacket.disconnect form reason ps).fieldLens k) :
    ∃ e, frameOutcome 0xe0 ((SPacket.disconnect form reason ps).body.take k) = .err e := by
  obtain ⟨_, hlen⟩ := hl
  cases form with
  | bare => simp only [SPacket.fieldLens] at hk; exact absurd hk (strictlyInside_nil _)
  | reason =>
    simp only [SPacket.fieldLens] at hk
    rcases strictlyInside_cons _ _ _ hk with ⟨_, h1, h2⟩ | ⟨_, hk⟩
    · omega
    · exact absurd hk (strictlyInside_nil _)
  | full =>
    simp only [SPacket.fieldLens] at hk
    rcases strictlyInside_cons _ _ _ hk with ⟨_, h1, h2⟩ | ⟨h1, hk⟩
    · omega
    rcases strictlyInside_cons _ _ _ hk with ⟨_, h3, h4⟩ | ⟨_, hk⟩
    · simp only [] at h1 h3 h4
      simp only [SPacket.body] at hlen ⊢
      have hdisp : Packet.dispatch 0xe0 = .disconnect { fixed := 0xe0 } := by decide
      have hb : ([reason] ++ propSection ps).take k = [reason] ++ (propSection ps).take (k - 1) := by
        rw [take_inside _ _ _ (by simp; omega)]; rfl
      rw [hb]
      apply frameOutcome_failed _ _ (by simp)
      rw [hdisp]
      simp only [Packet.unmarshal, Disconnect.unmarshal, List.cons_append, List.nil_append, get_u8]
      obtain ⟨e, he⟩ := getAny_section_cut Disconnect.table
        (lastBin (Disconnect.binInit { fixed := 0xe0, reasonCode := reason })) ps (by simp at hlen; omega) (k - 1) h3 h4
      exact ⟨e, he⟩
    · exact absurd hk (strictlyInside_nil _)

theorem C09a_auth (form : Form) (reason : UInt8) (ps : List PropOcc) (hl : (SPacket.auth form reason ps).Legal)
    (k : Nat) (hk : StrictlyInside (SPacket.auth form reason ps).fieldLens k) :
    ∃ e, frameOutcome 0xf0 ((SPacket.auth form reason ps).body.take k) = .err e := by
  obtain ⟨_, hlen⟩ := hl
  cases form with
  | bare => simp only [SPacket.fieldLens] at hk; exact absurd hk (strictlyInside_nil _)
  | reason =>
    simp only [SPacket.fieldLens] at hk
    rcases strictlyInside_cons _ _ _ hk with ⟨_, h1, h2⟩ | ⟨_, hk⟩
    · omega
    · exact absurd hk (strictlyInside_nil _)
  | full =>
    simp only [SPacket.fieldLens] at hk
    rcases strictlyInside_cons _ _ _ hk with ⟨_, h1, h2⟩ | ⟨h1, hk⟩
    · omega
    rcases strictlyInside_cons _ _ _ hk with ⟨_, h3, h4⟩ | ⟨_, hk⟩
    · simp only [] at h1 h3 h4
      simp only [SPacket.body] at hlen ⊢
      have hdisp : Packet.dispatch 0xf0 = .auth { fixed := 0xf0 } := by decide
      have hb : ([reason] ++ propSection ps).take k = [reason] ++ (propSection ps).take (k - 1) := by
        rw [take_inside _ _ _ (by simp; omega)]; rfl
      rw [hb]
      apply frameOutcome_failed _ _ (by simp)
      rw [hdisp]
      simp only [Packet.unmarshal, Auth.unmarshal, List.cons_append, List.nil_append, get_u8]
      obtain ⟨e, he⟩ := getAny_section_cut Auth.table
        (lastBin (Auth.binInit { fixed := 0xf0, reasonCode := reason })) ps (by simp at hlen; omega) (k - 1) h3 h4
      exact ⟨e, he⟩
    · exact absurd hk (strictlyInside_nil _)

/-! ## PUBACK, PUBREC, PUBREL, PUBCOMP -/

theorem Ack.cut (fx : UInt8) (k : Nat) (pid : UInt16) (form : Form) (reason : UInt8) (ps : List PropOcc)
    (hlen : (SPacket.ack k pid form reason ps).body.length < 268435456)
    (c : Nat) (hc : StrictlyInside (SPacket.ack k pid form reason ps).fieldLens c) :
    ∃ e, (({ fixed := fx } : Ack).unmarshal ((SPacket.ack k pid form reason ps).body.take c)).2 = .err e := by
  have pidcut : c = 1 → ∃ e, (({ fixed := fx } : Ack).unmarshal ((SPacket.ack k pid form reason ps).body.take c)).2 = .err e := by
    intro hc1
    subst hc1
    have hb : (SPacket.ack k pid form reason ps).body.take 1 = (encU16 pid).take 1 := by
      simp only [SPacket.body, encU16]; rfl
    rw [hb]
    have h2' : ¬ (((encU16 pid).take 1).length > 2) := by simp [encU16]
    simp only [Ack.unmarshal, h2', if_false, get_u16_cut pid 0 1 (by omega) (by omega)]
    exact ⟨_, rfl⟩
  cases form with
  | bare =>
    simp only [SPacket.fieldLens, List.append_nil] at hc
    rcases strictlyInside_cons _ _ _ hc with ⟨_, h1, h2⟩ | ⟨_, hc⟩
    · exact pidcut (by simp only [] at h1 h2; omega)
    · exact absurd hc (strictlyInside_nil _)
  | reason =>
    simp only [SPacket.fieldLens, List.cons_append, List.nil_append] at hc
    rcases strictlyInside_cons _ _ _ hc with ⟨_, h1, h2⟩ | ⟨_, hc⟩
    · exact pidcut (by simp only [] at h1 h2; omega)
    rcases strictlyInside_cons _ _ _ hc with ⟨_, h3, h4⟩ | ⟨_, hc⟩
    · omega
    · exact absurd hc (strictlyInside_nil _)
  | full =>
    simp only [SPacket.fieldLens, List.cons_append, List.nil_append] at hc
    rcases strictlyInside_cons _ _ _ hc with ⟨_, h1, h2⟩ | ⟨h1, hc⟩
    · exact pidcut (by simp only [] at h1 h2; omega)
    rcases strictlyInside_cons _ _ _ hc with ⟨_, h3, h4⟩ | ⟨h3, hc⟩
    · omega
    rcases strictlyInside_cons _ _ _ hc with ⟨_, h5, h6⟩ | ⟨_, hc⟩
    · simp only [] at h1 h3 h5 h6
      simp only [SPacket.body] at hlen ⊢
      have hb : (encU16 pid ++ ([reason] ++ propSection ps)).take c
          = encU16 pid ++ ([reason] ++ (propSection ps).take (c - 3)) := by
        rw [← List.append_assoc, take_inside _ _ _ (by simp [encU16]; omega)]
        simp [encU16]
      rw [hb]
      have h2' : (encU16 pid ++ ([reason] ++ (propSection ps).take (c - 3))).length > 2 := by simp [encU16]
      simp only [Ack.unmarshal, h2', if_true, get_u16, List.cons_append, List.nil_append, get_u8]
      obtain ⟨e, he⟩ := getAny_section_cut Ack.table (lastBin fun _ => ([] : Bytes)) ps
        (by simp [encU16] at hlen; omega) (c - 3) (by omega) (by omega)
      exact ⟨e, he⟩
    · exact absurd hc (strictlyInside_nil _)

theorem take_ne_nil_of_inside (lens : List (Nat × Bool)) (body : Bytes) (c : Nat) (h : StrictlyInside lens c)
    (hb : body ≠ []) : body.take c ≠ [] := by
  obtain ⟨pre, f, post, _, _, h1, _⟩ := h
  exact take_ne_nil body c (by omega) hb

theorem C09a_ack (k : Nat) (pid : UInt16) (form : Form) (reason : UInt8) (ps : List PropOcc)
    (hl : (SPacket.ack k pid form reason ps).Legal) (c : Nat) (hc : StrictlyInside (SPacket.ack k pid form reason ps).fieldLens c) :
    ∃ e, frameOutcome (SPacket.ack k pid form reason ps).firstByte ((SPacket.ack k pid form reason ps).body.take c) = .err e := by
  obtain ⟨hleg, hlen⟩ := hl
  simp only [SPacket.legal, Bool.and_eq_true, decide_eq_true_eq] at hleg
  obtain ⟨⟨⟨hk1, hk2⟩, _⟩, _⟩ := hleg
  have hk : k = 4 ∨ k = 5 ∨ k = 6 ∨ k = 7 := by omega
  apply frameOutcome_failed _ _ (take_ne_nil_of_inside _ _ c hc (by
    intro h; have := ack_body_ne k pid form reason ps; rw [h] at this; simp at this))
  rcases hk with rfl | rfl | rfl | rfl
  · have hd : Packet.dispatch (SPacket.ack 4 pid form reason ps).firstByte = .puback { fixed := 0x40 } := by
      have : (SPacket.ack 4 pid form reason ps).firstByte = 0x40 := by simp [SPacket.firstByte]
      rw [this]; decide
    rw [hd]; obtain ⟨e, he⟩ := Ack.cut 0x40 4 pid form reason ps hlen c hc
    exact ⟨e, by simp only [Packet.unmarshal]; exact he⟩
  · have hd : Packet.dispatch (SPacket.ack 5 pid form reason ps).firstByte = .pubrec { fixed := 0x50 } := by
      have : (SPacket.ack 5 pid form reason ps).firstByte = 0x50 := by simp [SPacket.firstByte]
      rw [this]; decide
    rw [hd]; obtain ⟨e, he⟩ := Ack.cut 0x50 5 pid form reason ps hlen c hc
    exact ⟨e, by simp only [Packet.unmarshal]; exact he⟩
  · have hd : Packet.dispatch (SPacket.ack 6 pid form reason ps).firstByte = .pubrel { fixed := 0x62 } := by
      have : (SPacket.ack 6 pid form reason ps).firstByte = 0x62 := by simp [SPacket.firstByte]
      rw [this]; decide
    rw [hd]; obtain ⟨e, he⟩ := Ack.cut 0x62 6 pid form reason ps hlen c hc
    exact ⟨e, by simp only [Packet.unmarshal]; exact he⟩
  · have hd : Packet.dispatch (SPacket.ack 7 pid form reason ps).firstByte = .pubcomp { fixed := 0x70 } := by
      have : (SPacket.ack 7 pid form reason ps).firstByte = 0x70 := by simp [SPacket.firstByte]
      rw [this]; decide
    rw [hd]; obtain ⟨e, he⟩ := Ack.cut 0x70 7 pid form reason ps hlen c hc
    exact ⟨e, by simp only [Packet.unmarshal]; exact he⟩

/-! ## SUBACK, UNSUBACK -/

theorem SubAck.cut (fx : UInt8) (k : Nat) (pid : UInt16) (ps : List PropOcc) (codes : Bytes)
    (hlen : (SPacket.suback k pid ps codes).body.length < 268435456)
    (c : Nat) (hc : StrictlyInside (SPacket.suback k pid ps codes).fieldLens c) :
    ∃ e, (({ fixed := fx } : SubAck).unmarshal ((SPacket.suback k pid ps codes).body.take c)).2 = .err e := by
  simp only [SPacket.fieldLens, List.cons_append, List.nil_append] at hc
  simp only [SPacket.body] at hlen ⊢
  rcases strictlyInside_cons _ _ _ hc with ⟨_, h1, h2⟩ | ⟨h1, hc⟩
  · simp only [] at h1 h2
    have hc1 : c = 1 := by omega
    subst hc1
    have hb : (encU16 pid ++ propSection ps ++ codes).take 1 = (encU16 pid).take 1 := by simp [encU16]
    rw [hb]
    simp only [SubAck.unmarshal, get_u16_cut pid 0 1 (by omega) (by omega)]
    obtain ⟨e, he⟩ := getAny_failed { rest := (encU16 pid).take 1, st := .err .missing } SubAck.table
      (lastBin fun _ => ([] : Bytes)) ⟨_, rfl⟩
    exact ⟨e, he⟩
  rcases strictlyInside_cons _ _ _ hc with ⟨_, h3, h4⟩ | ⟨h3, hc⟩
  · simp only [] at h1 h3 h4
    have hb : (encU16 pid ++ propSection ps ++ codes).take c = encU16 pid ++ (propSection ps).take (c - 2) := by
      rw [List.append_assoc, take_inside _ _ _ (by simp [encU16]; omega)]
      simp only [encU16, List.length_cons, List.length_nil]
      rw [List.take_append_of_le_length (by omega)]
    rw [hb]
    simp only [SubAck.unmarshal, get_u16]
    obtain ⟨e, he⟩ := getAny_section_cut SubAck.table (lastBin fun _ => ([] : Bytes)) ps
      (by simp [encU16] at hlen; omega) (c - 2) h3 h4
    exact ⟨e, he⟩
  · -- the reason codes are single bytes: no interior position
    exact absurd hc (strictlyInside_ones codes _)

theorem suback_body_ne (k : Nat) (pid : UInt16) (ps : List PropOcc) (codes : Bytes) :
    (SPacket.suback k pid ps codes).body ≠ [] := by simp [SPacket.body, encU16]

theorem C09a_suback (k : Nat) (pid : UInt16) (ps : List PropOcc) (codes : Bytes)
    (hl : (SPacket.suback k pid ps codes).Legal) (c : Nat) (hc : StrictlyInside (SPacket.suback k pid ps codes).fieldLens c) :
    ∃ e, frameOutcome (SPacket.suback k pid ps codes).firstByte ((SPacket.suback k pid ps codes).body.take c) = .err e := by
  obtain ⟨hleg, hlen⟩ := hl
  simp only [SPacket.legal, Bool.and_eq_true, Bool.or_eq_true, beq_iff_eq] at hleg
  obtain ⟨⟨hk, _⟩, _⟩ := hleg
  apply frameOutcome_failed _ _ (take_ne_nil_of_inside _ _ c hc (suback_body_ne k pid ps codes))
  rcases hk with rfl | rfl
  · have hd : Packet.dispatch (SPacket.suback 9 pid ps codes).firstByte = .suback { fixed := 0x90 } := by
      have : (SPacket.suback 9 pid ps codes).firstByte = 0x90 := by simp [SPacket.firstByte]
      rw [this]; decide
    rw [hd]; obtain ⟨e, he⟩ := SubAck.cut 0x90 9 pid ps codes hlen c hc
    exact ⟨e, by simp only [Packet.unmarshal]; exact he⟩
  · have hd : Packet.dispatch (SPacket.suback 11 pid ps codes).firstByte = .unsuback { fixed := 0xb0 } := by
      have : (SPacket.suback 11 pid ps codes).firstByte = 0xb0 := by simp [SPacket.firstByte]
      rw [this]; decide
    rw [hd]; obtain ⟨e, he⟩ := SubAck.cut 0xb0 11 pid ps codes hlen c hc
    exact ⟨e, by simp only [Packet.unmarshal]; exact he⟩

/-! ## PUBLISH -/

theorem Publish.readProps_failed (p : Publish) (b : Buf) (h : b.Failed) : (p.readProps b).1.Failed := by
  simp only [Publish.readProps]; exact getAny_failed _ _ _ h

theorem Publish.readPayload_failed (p : Publish) (b : Buf) (h : b.Failed) : (p.readPayload b).1.Failed := by
  unfold Publish.readPayload
  split
  · exact get_failed _ _ _ h
  · exact h

theorem Publish.unmarshal_failed (p : Publish) (d : Bytes) (h : (p.readHead { rest := d }).1.Failed) :
    ∃ e, (p.unmarshal d).2 = .err e := by
  simp only [Publish.unmarshal]
  exact Publish.readPayload_failed _ _ (Publish.readProps_failed _ _ h)

theorem Publish.unmarshal_failed_props (p : Publish) (d : Bytes)
    (h : ((p.readHead { rest := d }).2.readProps (p.readHead { rest := d }).1).1.Failed) :
    ∃ e, (p.unmarshal d).2 = .err e := by
  simp only [Publish.unmarshal]
  exact Publish.readPayload_failed _ _ h

theorem C09a_publish (dup : Bool) (qos : UInt8) (retain : Bool) (topic : Bytes) (pid : UInt16)
    (ps : List PropOcc) (payload : Bytes) (hl : (SPacket.publish dup qos retain topic pid ps payload).Legal)
    (c : Nat) (hc : StrictlyInside (SPacket.publish dup qos retain topic pid ps payload).fieldLens c) :
    ∃ e, frameOutcome (SPacket.publish dup qos retain topic pid ps payload).firstByte
      ((SPacket.publish dup qos retain topic pid ps payload).body.take c) = .err e := by
  obtain ⟨hleg, hlen⟩ := hl
  simp only [SPacket.legal, Bool.and_eq_true, decide_eq_true_eq, SPacket.strOK] at hleg
  obtain ⟨⟨hq, htopic⟩, hps⟩ := hleg
  obtain ⟨hdisp, hqos, hdup, hret, hpid⟩ := publish_first dup retain qos hq topic pid ps payload
  have hbne : (SPacket.publish dup qos retain topic pid ps payload).body ≠ [] := by simp [SPacket.body, encBin]
  apply frameOutcome_failed _ _ (take_ne_nil_of_inside _ _ c hc hbne)
  generalize (SPacket.publish dup qos retain topic pid ps payload).firstByte = fb at *
  rw [hdisp]
  simp only [Packet.unmarshal]
  simp only [SPacket.body] at hlen ⊢
  simp only [SPacket.fieldLens, List.cons_append, List.nil_append] at hc
  have hpid' : ∀ t : Bytes, ({ fixed := fb, topicName := t } : Publish).hasPacketID = decide (qos ≠ 0) := fun _ => hpid
  rcases strictlyInside_cons _ _ _ hc with ⟨_, h1, h2⟩ | ⟨h1, hc⟩
  · -- inside the topic name
    simp only [] at h1 h2
    have hb : (encBin topic ++ (if qos = 0 then [] else encU16 pid) ++ propSection ps ++ payload).take c
        = (encBin topic).take c := by
      rw [List.append_assoc, List.append_assoc, List.take_append_of_le_length (by omega)]
    rw [hb]
    apply Publish.unmarshal_failed
    simp only [Publish.readHead, get_bin_cut topic [] [] htopic c h1 h2]
    split
    · exact get_failed _ _ _ ⟨_, rfl⟩
    · exact ⟨_, rfl⟩
  simp only [] at h1
  obtain ⟨c1, rfl⟩ : ∃ c1, c = (encBin topic).length + c1 := ⟨c - (encBin topic).length, by omega⟩
  rw [Nat.add_sub_cancel_left] at hc
  by_cases h0 : qos = 0
  · simp only [h0, if_true, List.nil_append, List.append_nil] at hc hlen ⊢
    rcases strictlyInside_cons _ _ _ hc with ⟨_, h3, h4⟩ | ⟨h3, hc⟩
    · -- inside the property section (QoS 0: no packet identifier)
      simp only [] at h3 h4
      have hb : (encBin topic ++ propSection ps ++ payload).take ((encBin topic).length + c1)
          = encBin topic ++ (propSection ps).take c1 := by
        rw [List.append_assoc, take_pre_add _ _ _ _ (by omega)]
      rw [hb]
      apply Publish.unmarshal_failed_props
      have hh : ({ fixed := fb } : Publish).readHead { rest := encBin topic ++ (propSection ps).take c1 }
          = ({ rest := (propSection ps).take c1, st := .ok }, { fixed := fb, topicName := topic }) := by
        simp only [Publish.readHead, get_bin topic htopic, hpid', h0]
        simp
      rw [hh]
      simp only [Publish.readProps]
      exact getAny_section_cut _ _ ps (by simp at hlen; omega) _ h3 h4
    · rcases strictlyInside_cons _ _ _ hc with ⟨hex, _, _⟩ | ⟨_, hc⟩
      · simp at hex
      · exact absurd hc (strictlyInside_nil _)
  · have hd : decide (qos ≠ 0) = true := by simp [h0]
    simp only [h0, if_false, List.cons_append, List.nil_append] at hc hlen ⊢
    rcases strictlyInside_cons _ _ _ hc with ⟨_, h3, h4⟩ | ⟨h3, hc⟩
    · -- inside the packet identifier
      simp only [] at h3 h4
      have hc1 : c1 = 1 := by omega
      subst hc1
      have hb : (encBin topic ++ encU16 pid ++ propSection ps ++ payload).take ((encBin topic).length + 1)
          = encBin topic ++ (encU16 pid).take 1 := by
        rw [List.append_assoc, List.append_assoc, take_pre_add _ _ _ _ (by simp [encU16])]
      rw [hb]
      apply Publish.unmarshal_failed
      simp only [Publish.readHead, get_bin topic htopic, hpid', hd, if_true, get_u16_cut pid 0 1 (by omega) (by omega)]
      exact ⟨_, rfl⟩
    simp only [] at h3
    obtain ⟨c2, rfl⟩ : ∃ c2, c1 = 2 + c2 := ⟨c1 - 2, by omega⟩
    rw [Nat.add_sub_cancel_left] at hc
    rcases strictlyInside_cons _ _ _ hc with ⟨_, h5, h6⟩ | ⟨h5, hc⟩
    · -- inside the property section
      simp only [] at h5 h6
      have hb : (encBin topic ++ encU16 pid ++ propSection ps ++ payload).take ((encBin topic).length + (2 + c2))
          = encBin topic ++ (encU16 pid ++ (propSection ps).take c2) := by
        have e1 : encBin topic ++ encU16 pid ++ propSection ps ++ payload
            = (encBin topic ++ encU16 pid) ++ (propSection ps ++ payload) := by simp
        have e2 : (encBin topic).length + (2 + c2) = (encBin topic ++ encU16 pid).length + c2 := by simp [encU16]; omega
        rw [e1, e2, take_pre_add _ _ _ _ (by omega)]; simp
      rw [hb]
      apply Publish.unmarshal_failed_props
      have hh : ({ fixed := fb } : Publish).readHead
            { rest := encBin topic ++ (encU16 pid ++ (propSection ps).take c2) }
          = ({ rest := (propSection ps).take c2, st := .ok },
              { fixed := fb, topicName := topic, packetID := pid }) := by
        simp only [Publish.readHead, get_bin topic htopic, hpid', hd, if_true, get_u16]
      rw [hh]
      simp only [Publish.readProps]
      exact getAny_section_cut _ _ ps (by simp [encU16] at hlen; omega) _ h5 h6
    · rcases strictlyInside_cons _ _ _ hc with ⟨hex, _, _⟩ | ⟨_, hc⟩
      · simp at hex
      · exact absurd hc (strictlyInside_nil _)

/-! ## SUBSCRIBE, UNSUBSCRIBE -/

theorem Subscribe.filterLoop_failed (fuel : Nat) (b : Buf) (acc : List TopicFilter) (h : b.Failed) (hf : 0 < fuel) :
    (Subscribe.filterLoop fuel b acc).1.Failed := by
  cases fuel with
  | zero => omega
  | succ fuel =>
    simp only [Subscribe.filterLoop, get_of_not_ok b _ _ h.not_ok, ne_eq, h.not_ok, not_false_eq_true, if_true]
    exact h

theorem Unsubscribe.filterLoop_failed (fuel : Nat) (b : Buf) (acc : List Bytes) (h : b.Failed) (hf : 0 < fuel) :
    (Unsubscribe.filterLoop fuel b acc).1.Failed := by
  cases fuel with
  | zero => omega
  | succ fuel =>
    simp only [Unsubscribe.filterLoop, get_of_not_ok b _ _ h.not_ok, ne_eq, h.not_ok, not_false_eq_true, if_true]
    exact h

/-- the SUBSCRIBE filter loop on complete filters followed by a filter string cut short -/
theorem Subscribe.filterLoop_cut : ∀ (pre : List (Bytes × UInt8)) (f : Bytes) (j : Nat) (acc : List TopicFilter) (fuel : Nat),
    (∀ g ∈ pre, g.1.length < 65536) → f.length < 65536 → 0 < j → j < (encBin f).length → pre.length < fuel →
    (Subscribe.filterLoop fuel { rest := pre.flatMap encFilter ++ (encBin f).take j, st := .ok } acc).1.Failed := by
  intro pre
  induction pre with
  | nil =>
    intro f j acc fuel _ hf h0 hj hfu
    cases fuel with
    | zero => omega
    | succ fuel =>
      simp only [List.flatMap_nil, List.nil_append, Subscribe.filterLoop, get_bin_cut f [] [] hf j h0 hj]
      rw [get_of_not_ok _ _ _ (by simp)]
      simp only [ne_eq, reduceCtorEq, not_false_eq_true, if_true]
      exact ⟨_, rfl⟩
  | cons g pre ih =>
    intro f j acc fuel hs hf h0 hj hfu
    cases fuel with
    | zero => simp at hfu
    | succ fuel =>
      have hne : ¬ (pre.flatMap encFilter ++ (encBin f).take j = []) := by
        intro h
        have := take_ne_nil (encBin f) j h0 (by simp [encBin])
        exact this (List.append_eq_nil_iff.mp h).2
      simp only [List.flatMap_cons, encFilter, List.append_assoc, Subscribe.filterLoop,
        get_bin g.1 (hs g (by simp)) _, List.cons_append, List.nil_append, get_u8]
      simp only [ne_eq, not_true_eq_false, if_false, hne]
      exact ih f j _ fuel (fun x hx => hs x (by simp [hx])) hf h0 hj (by simp at hfu; omega)

theorem Unsubscribe.filterLoop_cut : ∀ (pre : List Bytes) (f : Bytes) (j : Nat) (acc : List Bytes) (fuel : Nat),
    (∀ g ∈ pre, g.length < 65536) → f.length < 65536 → 0 < j → j < (encBin f).length → pre.length < fuel →
    (Unsubscribe.filterLoop fuel { rest := pre.flatMap encBin ++ (encBin f).take j, st := .ok } acc).1.Failed := by
  intro pre
  induction pre with
  | nil =>
    intro f j acc fuel _ hf h0 hj hfu
    cases fuel with
    | zero => omega
    | succ fuel =>
      simp only [List.flatMap_nil, List.nil_append, Unsubscribe.filterLoop, get_bin_cut f [] [] hf j h0 hj]
      split <;> first | exact ⟨_, rfl⟩ | simp_all
  | cons g pre ih =>
    intro f j acc fuel hs hf h0 hj hfu
    cases fuel with
    | zero => simp at hfu
    | succ fuel =>
      have hne : ¬ (pre.flatMap encBin ++ (encBin f).take j = []) := by
        intro h
        have := take_ne_nil (encBin f) j h0 (by simp [encBin])
        exact this (List.append_eq_nil_iff.mp h).2
      simp only [List.flatMap_cons, List.append_assoc, Unsubscribe.filterLoop, get_bin g (hs g (by simp)) _]
      simp only [ne_eq, not_true_eq_false, if_false, hne]
      exact ih f j _ fuel (fun x hx => hs x (by simp [hx])) hf h0 hj (by simp at hfu; omega)

theorem length_le_flatMap_encFilter (l : List (Bytes × UInt8)) : l.length ≤ (l.flatMap encFilter).length := by
  induction l with
  | nil => simp
  | cons a t ih => simp only [List.flatMap_cons, List.length_append, List.length_cons, encFilter]; omega

theorem length_le_flatMap_encBin (l : List Bytes) : l.length ≤ (l.flatMap encBin).length := by
  induction l with
  | nil => simp
  | cons a t ih => simp only [List.flatMap_cons, List.length_append, List.length_cons, encBin]; omega

/-- an interior position of the SUBSCRIBE filter list is inside one filter string -/
theorem inside_sub_filters : ∀ (fs : List (Bytes × UInt8)) (c : Nat),
    StrictlyInside (fs.flatMap fun f => [((encBin f.1).length, true), (1, true)]) c →
    ∃ pre f post j, fs = pre ++ f :: post ∧ c = (pre.flatMap encFilter).length + j ∧ 0 < j ∧ j < (encBin f.1).length := by
  intro fs
  induction fs with
  | nil => intro c h; exact absurd h (strictlyInside_nil _)
  | cons f fs ih =>
    intro c h
    simp only [List.flatMap_cons, List.cons_append, List.nil_append] at h
    rcases strictlyInside_cons _ _ _ h with ⟨_, h1, h2⟩ | ⟨h1, h⟩
    · exact ⟨[], f, fs, c, rfl, by simp, h1, h2⟩
    rcases strictlyInside_cons _ _ _ h with ⟨_, h3, h4⟩ | ⟨h3, h⟩
    · simp only [] at h1 h3 h4; omega
    simp only [] at h1 h3
    obtain ⟨pre, g, post, j, hfs, hc, h0, hj⟩ := ih _ h
    refine ⟨f :: pre, g, post, j, by rw [hfs]; rfl, ?_, h0, hj⟩
    simp only [List.flatMap_cons, List.length_append, encFilter, List.length_cons, List.length_nil]
    simp only [encFilter] at hc
    omega

theorem inside_unsub_filters : ∀ (fs : List Bytes) (c : Nat),
    StrictlyInside (fs.map fun f => ((encBin f).length, true)) c →
    ∃ pre f post j, fs = pre ++ f :: post ∧ c = (pre.flatMap encBin).length + j ∧ 0 < j ∧ j < (encBin f).length := by
  intro fs
  induction fs with
  | nil => intro c h; exact absurd h (strictlyInside_nil _)
  | cons f fs ih =>
    intro c h
    simp only [List.map_cons] at h
    rcases strictlyInside_cons _ _ _ h with ⟨_, h1, h2⟩ | ⟨h1, h⟩
    · exact ⟨[], f, fs, c, rfl, by simp, h1, h2⟩
    simp only [] at h1
    obtain ⟨pre, g, post, j, hfs, hc, h0, hj⟩ := ih _ h
    refine ⟨f :: pre, g, post, j, by rw [hfs]; rfl, ?_, h0, hj⟩
    simp only [List.flatMap_cons, List.length_append]
    omega

theorem C09a_subscribe (pid : UInt16) (ps : List PropOcc) (filters : List (Bytes × UInt8))
    (hl : (SPacket.subscribe pid ps filters).Legal) (c : Nat) (hc : StrictlyInside (SPacket.subscribe pid ps filters).fieldLens c) :
    ∃ e, frameOutcome 0x82 ((SPacket.subscribe pid ps filters).body.take c) = .err e := by
  obtain ⟨hleg, hlen⟩ := hl
  simp only [SPacket.legal, Bool.and_eq_true] at hleg
  obtain ⟨⟨hps, _⟩, hfs⟩ := hleg
  have hstr : ∀ g ∈ filters, g.1.length < 65536 := by
    intro g hg
    have := (List.all_eq_true.mp hfs) g hg
    simp only [Bool.and_eq_true, SPacket.strOK, decide_eq_true_eq] at this
    exact this.1.1.1
  have hdisp : Packet.dispatch 0x82 = .subscribe { fixed := 0x82 } := by decide
  have hbne : (SPacket.subscribe pid ps filters).body ≠ [] := by simp [SPacket.body, encU16]
  apply frameOutcome_failed _ _ (take_ne_nil_of_inside _ _ c hc hbne)
  rw [hdisp]
  simp only [Packet.unmarshal]
  simp only [SPacket.body] at hlen ⊢
  simp only [SPacket.fieldLens, List.cons_append, List.nil_append] at hc
  have henc : (filters.flatMap fun f => encBin f.1 ++ [f.2]) = filters.flatMap encFilter := rfl
  rw [henc] at hlen ⊢
  rcases strictlyInside_cons _ _ _ hc with ⟨_, h1, h2⟩ | ⟨h1, hc⟩
  · -- inside the packet identifier
    simp only [] at h1 h2
    have hc1 : c = 1 := by omega
    subst hc1
    have hb : (encU16 pid ++ propSection ps ++ filters.flatMap encFilter).take 1 = (encU16 pid).take 1 := by simp [encU16]
    rw [hb]
    simp only [Subscribe.unmarshal, get_u16_cut pid 0 1 (by omega) (by omega)]
    have h1 := getAny_failed { rest := (encU16 pid).take 1, st := .err .missing } Subscribe.table noOld ⟨_, rfl⟩
    exact Subscribe.filterLoop_failed _ _ _ h1 (by omega)
  simp only [] at h1
  obtain ⟨c1, rfl⟩ : ∃ c1, c = 2 + c1 := ⟨c - 2, by omega⟩
  rw [Nat.add_sub_cancel_left] at hc
  rcases strictlyInside_cons _ _ _ hc with ⟨_, h3, h4⟩ | ⟨h3, hc⟩
  · -- inside the property section
    simp only [] at h3 h4
    have hb : (encU16 pid ++ propSection ps ++ filters.flatMap encFilter).take (2 + c1)
        = encU16 pid ++ (propSection ps).take c1 := by
      have : (2 : Nat) = (encU16 pid).length := by simp [encU16]
      rw [List.append_assoc, this, take_pre_add _ _ _ _ (by omega)]
    rw [hb]
    simp only [Subscribe.unmarshal, get_u16]
    have h1 := getAny_section_cut Subscribe.table noOld ps (by simp [encU16] at hlen; omega) c1 h3 h4
    exact Subscribe.filterLoop_failed _ _ _ h1 (by omega)
  · -- inside a topic filter
    simp only [] at h3
    obtain ⟨pre, f, post, j, hfs, hcj, h0, hj⟩ := inside_sub_filters filters _ hc
    have hsl := sectLen ps (filters.flatMap encFilter) (encU16 pid) (by simpa using hlen)
    have hc1 : c1 = (propSection ps).length + ((pre.flatMap encFilter).length + j) := by omega
    subst hc1
    have hb : (encU16 pid ++ propSection ps ++ filters.flatMap encFilter).take (2 + ((propSection ps).length + ((pre.flatMap encFilter).length + j)))
        = encU16 pid ++ (propSection ps ++ (pre.flatMap encFilter ++ (encBin f.1).take j)) := by
      have e1 : encU16 pid ++ propSection ps ++ filters.flatMap encFilter
          = (encU16 pid ++ propSection ps ++ pre.flatMap encFilter) ++ (encBin f.1 ++ ([f.2] ++ post.flatMap encFilter)) := by
        rw [hfs]; simp [List.flatMap_append, encFilter]
      have e2 : 2 + ((propSection ps).length + ((pre.flatMap encFilter).length + j))
          = (encU16 pid ++ propSection ps ++ pre.flatMap encFilter).length + j := by simp [encU16]; omega
      rw [e1, e2, take_pre_add _ _ _ _ (by omega)]; simp
    rw [hb]
    simp only [Subscribe.unmarshal, get_u16]
    rw [getAny_spec_noOld 8 Subscribe.table Subscribe.agree ps hps _ hsl]
    simp only []
    apply Subscribe.filterLoop_cut pre f.1 j _ _ (fun g hg => hstr g (by rw [hfs]; simp [hg]))
      (hstr f (by rw [hfs]; simp)) h0 hj
    have := length_le_flatMap_encFilter pre
    simp only [List.length_append]; omega

theorem C09a_unsubscribe (pid : UInt16) (ps : List PropOcc) (filters : List Bytes)
    (hl : (SPacket.unsubscribe pid ps filters).Legal) (c : Nat) (hc : StrictlyInside (SPacket.unsubscribe pid ps filters).fieldLens c) :
    ∃ e, frameOutcome 0xa2 ((SPacket.unsubscribe pid ps filters).body.take c) = .err e := by
  obtain ⟨hleg, hlen⟩ := hl
  simp only [SPacket.legal, Bool.and_eq_true] at hleg
  obtain ⟨⟨hps, _⟩, hfs⟩ := hleg
  have hstr : ∀ g ∈ filters, g.length < 65536 := by
    intro g hg
    have := (List.all_eq_true.mp hfs) g hg
    simpa [SPacket.strOK] using this
  have hdisp : Packet.dispatch 0xa2 = .unsubscribe { fixed := 0xa2 } := by decide
  have hbne : (SPacket.unsubscribe pid ps filters).body ≠ [] := by simp [SPacket.body, encU16]
  apply frameOutcome_failed _ _ (take_ne_nil_of_inside _ _ c hc hbne)
  rw [hdisp]
  simp only [Packet.unmarshal]
  simp only [SPacket.body] at hlen ⊢
  simp only [SPacket.fieldLens, List.cons_append, List.nil_append] at hc
  rcases strictlyInside_cons _ _ _ hc with ⟨_, h1, h2⟩ | ⟨h1, hc⟩
  · simp only [] at h1 h2
    have hc1 : c = 1 := by omega
    subst hc1
    have hb : (encU16 pid ++ propSection ps ++ filters.flatMap encBin).take 1 = (encU16 pid).take 1 := by simp [encU16]
    rw [hb]
    simp only [Unsubscribe.unmarshal, get_u16_cut pid 0 1 (by omega) (by omega)]
    have h1 := getAny_failed { rest := (encU16 pid).take 1, st := .err .missing } ([] : PropTable) noOld ⟨_, rfl⟩
    exact Unsubscribe.filterLoop_failed _ _ _ h1 (by omega)
  simp only [] at h1
  obtain ⟨c1, rfl⟩ : ∃ c1, c = 2 + c1 := ⟨c - 2, by omega⟩
  rw [Nat.add_sub_cancel_left] at hc
  rcases strictlyInside_cons _ _ _ hc with ⟨_, h3, h4⟩ | ⟨h3, hc⟩
  · simp only [] at h3 h4
    have hb : (encU16 pid ++ propSection ps ++ filters.flatMap encBin).take (2 + c1)
        = encU16 pid ++ (propSection ps).take c1 := by
      have : (2 : Nat) = (encU16 pid).length := by simp [encU16]
      rw [List.append_assoc, this, take_pre_add _ _ _ _ (by omega)]
    rw [hb]
    simp only [Unsubscribe.unmarshal, get_u16]
    have h1 := getAny_section_cut ([] : PropTable) noOld ps (by simp [encU16] at hlen; omega) c1 h3 h4
    exact Unsubscribe.filterLoop_failed _ _ _ h1 (by omega)
  · simp only [] at h3
    obtain ⟨pre, f, post, j, hfs', hcj, h0, hj⟩ := inside_unsub_filters filters _ hc
    have hsl := sectLen ps (filters.flatMap encBin) (encU16 pid) (by simpa using hlen)
    have hc1 : c1 = (propSection ps).length + ((pre.flatMap encBin).length + j) := by omega
    subst hc1
    have hb : (encU16 pid ++ propSection ps ++ filters.flatMap encBin).take (2 + ((propSection ps).length + ((pre.flatMap encBin).length + j)))
        = encU16 pid ++ (propSection ps ++ (pre.flatMap encBin ++ (encBin f).take j)) := by
      have e1 : encU16 pid ++ propSection ps ++ filters.flatMap encBin
          = (encU16 pid ++ propSection ps ++ pre.flatMap encBin) ++ (encBin f ++ post.flatMap encBin) := by
        rw [hfs']; simp [List.flatMap_append]
      have e2 : 2 + ((propSection ps).length + ((pre.flatMap encBin).length + j))
          = (encU16 pid ++ propSection ps ++ pre.flatMap encBin).length + j := by simp [encU16]; omega
      rw [e1, e2, take_pre_add _ _ _ _ (by omega)]; simp
    rw [hb]
    simp only [Unsubscribe.unmarshal, get_u16]
    rw [getAny_spec_noOld 10 [] Unsubscribe.agree ps hps _ hsl]
    simp only []
    apply Unsubscribe.filterLoop_cut pre f j _ _ (fun g hg => hstr g (by rw [hfs']; simp [hg]))
      (hstr f (by rw [hfs']; simp)) h0 hj
    have := length_le_flatMap_encBin pre
    simp only [List.length_append]; omega

end Mq
