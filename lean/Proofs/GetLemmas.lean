import Proofs.Fields
/-!
# Proofs.GetLemmas — `buffer.get` on the encoding of a value, for each wire type
-/
namespace Mq

theorem get_u8 (a : UInt8) (rest : Bytes) (old : UInt8) :
    ({ rest := a :: rest, st := .ok } : Buf).get decU8 old = ({ rest := rest, st := .ok }, a) := by
  simp [Buf.get, decU8]

theorem get_u16 (v : UInt16) (rest : Bytes) (old : UInt16) :
    ({ rest := encU16 v ++ rest, st := .ok } : Buf).get decU16 old = ({ rest := rest, st := .ok }, v) :=
  get_enc decU16 old v (encU16 v) rest (by simp [encU16]) (by rw [decU16_enc]; rfl)

theorem get_bin (v : Bytes) (h : v.length < 65536) (rest : Bytes) :
    ({ rest := encBin v ++ rest, st := .ok } : Buf).get (decBin []) [] = ({ rest := rest, st := .ok }, v) :=
  get_enc (decBin []) [] v (encBin v) rest (by simp [encBin]) (by rw [decBin_enc v rest h]; simp; omega)

/-- into a destination holding `old`, for a non-empty value -/
theorem get_bin_old (old v : Bytes) (h : v.length < 65536) (hne : v ≠ []) (rest : Bytes) :
    ({ rest := encBin v ++ rest, st := .ok } : Buf).get (decBin old) old = ({ rest := rest, st := .ok }, v) :=
  get_enc (decBin old) old v (encBin v) rest (by simp [encBin]) (by rw [decBin_enc_old old v rest h hne]; simp; omega)

theorem get_raw (d : Bytes) (hne : d ≠ []) (old : Bytes) :
    ({ rest := d, st := .ok } : Buf).get decRaw old = ({ rest := [], st := .ok }, d) := by
  simp [Buf.get, decRaw, hne]

end Mq
