import Proofs.DSimple
/-!
# Proofs.DSub — SUBSCRIBE and UNSUBSCRIBE: the filter loops on encoded filter lists
-/
namespace Mq
open Spec (SPacket propVal userPropsOf vvOf propsLegal Form subIDLast)

theorem Subscribe.agree : tablesAgree 8 Subscribe.table = true := by decide
theorem Unsubscribe.agree : tablesAgree 10 ([] : PropTable) = true := by decide

/-- `getAny` with a decoder table that has no string/binary destinations -/
theorem getAny_spec_noOld (k : Nat) (tbl : PropTable) (hagree : tablesAgree k tbl = true) (ps : List PropOcc)
    (hl : propsLegal k ps = true) (suf : Bytes) (hlen : (ps.flatMap encOcc).length < 268435456) :
    ({ rest := Spec.propSection ps ++ suf, st := .ok } : Buf).getAny tbl noOld = ({ rest := suf, st := .ok }, ps) := by
  rw [propSection_eq]
  exact getAny_enc tbl noOld ps suf
    (fun o ho => propOk_of_legal k tbl hagree o (legal_all k ps hl o ho))
    (fun _ _ _ _ _ => rfl) hlen

def encFilter (f : Bytes × UInt8) : Bytes := encBin f.1 ++ [f.2]

theorem Subscribe.filterLoop_enc : ∀ (t : List (Bytes × UInt8)) (f : Bytes × UInt8) (acc : List TopicFilter) (fuel : Nat),
    (∀ g ∈ f :: t, g.1.length < 65536) → t.length < fuel →
    Subscribe.filterLoop fuel { rest := (f :: t).flatMap encFilter, st := .ok } acc
      = ({ rest := [], st := .ok }, acc ++ (f :: t).map fun g => ⟨g.1, g.2⟩) := by
  intro t
  induction t with
  | nil =>
    intro f acc fuel hs hf
    cases fuel with
    | zero => omega
    | succ fuel =>
      simp only [List.flatMap_cons, List.flatMap_nil, List.append_nil, encFilter, Subscribe.filterLoop,
        get_bin f.1 (hs f (by simp)) [f.2], get_u8]
      simp
  | cons g t ih =>
    intro f acc fuel hs hf
    cases fuel with
    | zero => simp at hf
    | succ fuel =>
      have hne : ¬ ((g :: t).flatMap encFilter = []) := by simp [List.flatMap_cons, encFilter, encBin]
      simp only [List.flatMap_cons, encFilter, List.append_assoc, Subscribe.filterLoop,
        get_bin f.1 (hs f (by simp)) _, List.cons_append, List.nil_append, get_u8]
      have hrec := ih g (acc ++ [⟨f.1, f.2⟩]) fuel (fun x hx => hs x (by simp [hx])) (by simp at hf; omega)
      simp only [List.flatMap_cons, encFilter, List.append_assoc, List.cons_append, List.nil_append] at hrec hne
      simp only [ne_eq, not_true_eq_false, if_false, hne]
      rw [hrec]
      simp

theorem Subscribe.fold_subID : ∀ (ps : List PropOcc) (p : Subscribe),
    (ps.foldl Subscribe.applyOcc p).subscriptionID
      = ps.foldl (fun cur o => match o.val with
          | .vb n => if o.id = 0x0b then some n else cur
          | _ => cur) p.subscriptionID := by
  intro ps
  induction ps with
  | nil => intro p; rfl
  | cons o t ih =>
    intro p
    simp only [List.foldl_cons]
    rw [ih]
    congr 1
    unfold Subscribe.applyOcc
    cases o.val <;> simp only [] <;> (repeat' split) <;> rfl

theorem D_subscribe_L (pid : UInt16) (ps : List PropOcc) (filters : List (Bytes × UInt8))
    (hl : (SPacket.subscribe pid ps filters).LegalL) :
    ∃ q, frameOutcome 0x82 (SPacket.subscribe pid ps filters).body = .pkt (.subscribe q)
      ∧ (Packet.subscribe q).view = (SPacket.subscribe pid ps filters).view := by
  obtain ⟨hleg, hlen⟩ := hl
  simp only [SPacket.legalL, Bool.and_eq_true] at hleg
  obtain ⟨⟨hps, hne⟩, hfs⟩ := hleg
  have hdisp : Packet.dispatch 0x82 = .subscribe { fixed := 0x82 } := by decide
  simp only [SPacket.body] at hlen ⊢
  have hsl := sectLen ps (filters.flatMap fun f => encBin f.1 ++ [f.2]) (encU16 pid) (by simpa using hlen)
  have hbne : (encU16 pid ++ Spec.propSection ps ++ filters.flatMap fun f => encBin f.1 ++ [f.2]).length ≠ 0 := by simp
  unfold frameOutcome
  rw [if_neg hbne, hdisp]
  simp only [Packet.unmarshal, Subscribe.unmarshal, List.append_assoc, get_u16]
  rw [getAny_spec_noOld 8 Subscribe.table Subscribe.agree ps hps _ hsl]
  cases filters with
  | nil => simp at hne
  | cons f t =>
    have hstr : ∀ g ∈ f :: t, g.1.length < 65536 := by
      intro g hg
      have := (List.all_eq_true.mp hfs) g hg
      simpa [SPacket.strOK] using this
    have hfl := Subscribe.filterLoop_enc t f (ps.foldl Subscribe.applyOcc { fixed := 0x82, packetID := pid }).filters
      ((encU16 pid ++ (Spec.propSection ps ++ (f :: t).flatMap fun f => encBin f.1 ++ [f.2])).length + 1) hstr
      (by
        have : t.length ≤ ((f :: t).flatMap fun f => encBin f.1 ++ [f.2]).length := by
          clear hlen hsl hbne hfs hstr hne
          induction t with
          | nil => simp
          | cons a t ih => simp [List.flatMap_cons] at ih ⊢; omega
        simp only [List.length_append]; omega)
    have henc : ((f :: t).flatMap fun f => encBin f.1 ++ [f.2]) = (f :: t).flatMap encFilter := rfl
    rw [henc] at hfl ⊢
    simp only []
    rw [hfl]
    refine ⟨_, rfl, ?_⟩
    have hok : ∀ o ∈ ps, PropOk Subscribe.table o :=
      fun o ho => propOk_of_legal 8 Subscribe.table Subscribe.agree o (legal_all 8 ps hps o ho)
    have e := fun (p : Subscribe) => And.intro (Subscribe.fold_same1 ps p) (And.intro (Subscribe.fold_same2 ps p) (Subscribe.fold_ups ps hok p))
    simp only [] at e
    simp only [Packet.view, Subscribe.view, SPacket.view, Subscribe.subscriptionIDInt, Subscribe.fold_subID,
      (e _).1, (e _).2.1, (e _).2.2, subIDLast]
    simp
    have hmap : ∀ (l : List (Bytes × UInt8)),
        List.map ((fun (f : TopicFilter) => (f.filter, f.options)) ∘ fun g => { filter := g.fst, options := g.snd }) l = l := by
      intro l; induction l with
      | nil => rfl
      | cons a l ih => simp [ih]
    cases (ps.foldl (fun cur o => match o.val with
          | .vb n => if o.id = 0x0b then some n else cur
          | _ => cur) (none : Option Nat)) <;> simp [hmap]

theorem D_subscribe (pid : UInt16) (ps : List PropOcc) (filters : List (Bytes × UInt8))
    (hl : (SPacket.subscribe pid ps filters).Legal) :
    ∃ q, frameOutcome 0x82 (SPacket.subscribe pid ps filters).body = .pkt (.subscribe q)
      ∧ (Packet.subscribe q).view = (SPacket.subscribe pid ps filters).view := by
  apply D_subscribe_L pid ps filters
  obtain ⟨hleg, hlen⟩ := hl
  refine ⟨?_, hlen⟩
  simp only [SPacket.legal, SPacket.legalL, Bool.and_eq_true, List.all_eq_true] at hleg ⊢
  exact ⟨hleg.1, fun f hf => (hleg.2 f hf).1.1.1⟩

theorem Unsubscribe.filterLoop_enc : ∀ (t : List Bytes) (f : Bytes) (acc : List Bytes) (fuel : Nat),
    (∀ g ∈ f :: t, g.length < 65536) → t.length < fuel →
    Unsubscribe.filterLoop fuel { rest := (f :: t).flatMap encBin, st := .ok } acc
      = ({ rest := [], st := .ok }, acc ++ (f :: t)) := by
  intro t
  induction t with
  | nil =>
    intro f acc fuel hs hf
    cases fuel with
    | zero => omega
    | succ fuel =>
      have := get_bin f (hs f (by simp)) []
      simp only [List.append_nil] at this
      simp only [List.flatMap_cons, List.flatMap_nil, List.append_nil, Unsubscribe.filterLoop, this]
      simp
  | cons g t ih =>
    intro f acc fuel hs hf
    cases fuel with
    | zero => simp at hf
    | succ fuel =>
      have hne : ¬ ((g :: t).flatMap encBin = []) := by simp [List.flatMap_cons, encBin]
      simp only [List.flatMap_cons, Unsubscribe.filterLoop, get_bin f (hs f (by simp)) _]
      have hrec := ih g (acc ++ [f]) fuel (fun x hx => hs x (by simp [hx])) (by simp at hf; omega)
      simp only [List.flatMap_cons] at hrec hne
      simp only [ne_eq, not_true_eq_false, if_false, hne]
      rw [hrec]
      simp

theorem D_unsubscribe (pid : UInt16) (ps : List PropOcc) (filters : List Bytes)
    (hl : (SPacket.unsubscribe pid ps filters).Legal) :
    ∃ q, frameOutcome 0xa2 (SPacket.unsubscribe pid ps filters).body = .pkt (.unsubscribe q)
      ∧ (Packet.unsubscribe q).view = (SPacket.unsubscribe pid ps filters).view := by
  obtain ⟨hleg, hlen⟩ := hl
  simp only [SPacket.legal, Bool.and_eq_true] at hleg
  obtain ⟨⟨hps, hne⟩, hfs⟩ := hleg
  have hdisp : Packet.dispatch 0xa2 = .unsubscribe { fixed := 0xa2 } := by decide
  simp only [SPacket.body] at hlen ⊢
  have hsl := sectLen ps (filters.flatMap encBin) (encU16 pid) (by simpa using hlen)
  have hbne : (encU16 pid ++ Spec.propSection ps ++ filters.flatMap encBin).length ≠ 0 := by simp
  unfold frameOutcome
  rw [if_neg hbne, hdisp]
  simp only [Packet.unmarshal, Unsubscribe.unmarshal, List.append_assoc, get_u16]
  rw [getAny_spec_noOld 10 [] Unsubscribe.agree ps hps _ hsl]
  cases filters with
  | nil => simp at hne
  | cons f t =>
    have hstr : ∀ g ∈ f :: t, g.length < 65536 := by
      intro g hg
      have := (List.all_eq_true.mp hfs) g hg
      simpa [SPacket.strOK] using this
    have hfl := Unsubscribe.filterLoop_enc t f (ps.foldl Unsubscribe.applyOcc { fixed := 0xa2, packetID := pid }).filters
      ((encU16 pid ++ (Spec.propSection ps ++ (f :: t).flatMap encBin)).length + 1) hstr
      (by
        have : t.length ≤ ((f :: t).flatMap encBin).length := by
          clear hlen hsl hbne hfs hstr hne
          induction t with
          | nil => simp
          | cons a t ih => simp [List.flatMap_cons] at ih ⊢; omega
        simp only [List.length_append]; omega)
    simp only []
    rw [hfl]
    refine ⟨_, rfl, ?_⟩
    have hok : ∀ o ∈ ps, PropOk ([] : PropTable) o :=
      fun o ho => propOk_of_legal 10 [] Unsubscribe.agree o (legal_all 10 ps hps o ho)
    have e := fun (p : Unsubscribe) => And.intro (Unsubscribe.fold_same1 ps p) (And.intro (Unsubscribe.fold_same2 ps p) (Unsubscribe.fold_ups ps hok p))
    simp only [] at e
    simp only [Packet.view, Unsubscribe.view, SPacket.view, (e _).1, (e _).2.1, (e _).2.2]
    simp

end Mq
