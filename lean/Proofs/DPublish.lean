import Proofs.DSub
/-!
# Proofs.DPublish — PUBLISH: the model's decoder on every legal frame
-/
namespace Mq
open Spec (SPacket propVal userPropsOf vvOf propsLegal subIDsOf)

theorem Publish.agree : tablesAgree 3 Publish.table = true := by decide

/-- the first byte the specification writes for (dup, qos, retain), read back by the model -/
theorem publish_first_table : ∀ (dup retain : Bool) (q : Fin 3),
    let fb := (SPacket.publish dup (UInt8.ofNat q.val) retain [] 0 [] []).firstByte
    Packet.dispatch fb = .publish { fixed := fb }
      ∧ ({ fixed := fb } : Publish).qos = UInt8.ofNat q.val ∧ ({ fixed := fb } : Publish).duplicate = dup
      ∧ ({ fixed := fb } : Publish).retain = retain
      ∧ ({ fixed := fb } : Publish).hasPacketID = decide (q.val ≠ 0) := by
  decide

theorem publish_first (dup retain : Bool) (qos : UInt8) (hq : qos ≤ 2) (topic : Bytes) (pid : UInt16)
    (ps : List PropOcc) (payload : Bytes) :
    let fb := (SPacket.publish dup qos retain topic pid ps payload).firstByte
    Packet.dispatch fb = .publish { fixed := fb }
      ∧ ({ fixed := fb } : Publish).qos = qos ∧ ({ fixed := fb } : Publish).duplicate = dup
      ∧ ({ fixed := fb } : Publish).retain = retain
      ∧ ({ fixed := fb } : Publish).hasPacketID = decide (qos ≠ 0) := by
  have hlt : qos.toNat < 3 := by
    have : qos.toNat ≤ 2 := hq
    omega
  have := publish_first_table dup retain ⟨qos.toNat, hlt⟩
  simp only [UInt8.ofNat_toNat] at this
  have hz : (qos.toNat ≠ 0) ↔ (qos ≠ 0) := by
    constructor
    · intro h e; subst e; simp at h
    · intro h e; apply h; exact UInt8.toNat_inj.mp (by simpa using e)
  simpa [SPacket.firstByte, hz] using this

theorem Publish.fold_subIDs : ∀ (ps : List PropOcc) (hok : ∀ o ∈ ps, PropOk Publish.table o) (p : Publish),
    (ps.foldl Publish.applyOcc p).subscriptionIDs.map UInt32.toNat = p.subscriptionIDs.map UInt32.toNat ++ subIDsOf ps := by
  intro ps
  induction ps with
  | nil => intro _ p; simp [subIDsOf]
  | cons o t ih =>
    intro hok p
    simp only [List.foldl_cons]
    rw [ih (fun x hx => hok x (by simp [hx]))]
    have ho := hok o (by simp)
    obtain ⟨id, val⟩ := o
    obtain ⟨hr, _⟩ := ho
    unfold Publish.applyOcc
    cases val <;> simp only [subIDsOf, List.filterMap_cons] <;> (repeat' split) <;> simp_all [WVal.InRange]
    omega

theorem D_publish (dup : Bool) (qos : UInt8) (retain : Bool) (topic : Bytes) (pid : UInt16)
    (ps : List PropOcc) (payload : Bytes) (hl : (SPacket.publish dup qos retain topic pid ps payload).Legal) :
    ∃ q, frameOutcome (SPacket.publish dup qos retain topic pid ps payload).firstByte
        (SPacket.publish dup qos retain topic pid ps payload).body = .pkt (.publish q)
      ∧ (Packet.publish q).view = (SPacket.publish dup qos retain topic pid ps payload).view := by
  obtain ⟨hleg, hlen⟩ := hl
  simp only [SPacket.legal, Bool.and_eq_true, decide_eq_true_eq, SPacket.strOK] at hleg
  obtain ⟨⟨hq, htopic⟩, hps⟩ := hleg
  obtain ⟨hdisp, hqos, hdup, hret, hpid⟩ := publish_first dup retain qos hq topic pid ps payload
  generalize (SPacket.publish dup qos retain topic pid ps payload).firstByte = fb at *
  simp only [SPacket.body] at hlen ⊢
  have hsl := sectLen ps payload (encBin topic ++ if qos = 0 then [] else encU16 pid) (by simpa using hlen)
  have hbne : (encBin topic ++ (if qos = 0 then [] else encU16 pid) ++ Spec.propSection ps ++ payload).length ≠ 0 := by simp
  have hok : ∀ o ∈ ps, PropOk Publish.table o :=
    fun o ho => propOk_of_legal 3 Publish.table Publish.agree o (legal_all 3 ps hps o ho)
  unfold frameOutcome
  rw [if_neg hbne, hdisp]
  simp only [Packet.unmarshal, Publish.unmarshal, Publish.readHead, List.append_assoc, get_bin topic htopic]
  have hpid' : ({ fixed := fb, topicName := topic } : Publish).hasPacketID = decide (qos ≠ 0) := hpid
  -- head: packet identifier iff QoS > 0
  have hhead : ∀ (suf : Bytes),
      (if ({ fixed := fb, topicName := topic } : Publish).hasPacketID = true then
          ((({ rest := (if qos = 0 then [] else encU16 pid) ++ suf, st := .ok } : Buf).get decU16 0).1,
            ({ fixed := fb, topicName := topic, packetID :=
                (({ rest := (if qos = 0 then [] else encU16 pid) ++ suf, st := .ok } : Buf).get decU16 0).2 } : Publish))
        else (({ rest := (if qos = 0 then [] else encU16 pid) ++ suf, st := .ok } : Buf),
              ({ fixed := fb, topicName := topic } : Publish)))
      = (({ rest := suf, st := .ok } : Buf),
          ({ fixed := fb, topicName := topic, packetID := if qos = 0 then 0 else pid } : Publish)) := by
    intro suf
    rw [hpid']
    by_cases h0 : qos = 0
    · simp [h0]
    · simp [h0, get_u16]
  rw [hhead]
  simp only [Publish.readProps]
  rw [getAny_spec 3 Publish.table Publish.agree ps hps
    (Publish.binInit { fixed := fb, topicName := topic, packetID := if qos = 0 then 0 else pid })
    (by intro id; simp [Publish.binInit]; repeat' split <;> rfl) payload hsl]
  simp only [Publish.readPayload]
  have e := fun (p : Publish) => And.intro (Publish.fold_same0 ps p) (And.intro (Publish.fold_same1 ps p)
    (And.intro (Publish.fold_same2 ps p) (And.intro (Publish.fold_same3 ps p) (Publish.fold_ups ps hok p))))
  simp only [] at e
  have hfx : ∀ (p : Publish), p.fixed = fb → p.qos = qos ∧ p.duplicate = dup ∧ p.retain = retain := by
    intro p hp
    have h1 : p.qos = ({ fixed := fb } : Publish).qos := by simp [Publish.qos, hp]
    have h2 : p.duplicate = ({ fixed := fb } : Publish).duplicate := by simp [Publish.duplicate, hp]
    have h3 : p.retain = ({ fixed := fb } : Publish).retain := by simp [Publish.retain, hp]
    rw [h1, h2, h3]; exact ⟨hqos, hdup, hret⟩
  have hsub := Publish.fold_subIDs ps hok { fixed := fb, topicName := topic, packetID := if qos = 0 then 0 else pid }
  by_cases hp : payload = []
  · subst hp
    simp only [ne_eq, not_true_eq_false, if_false]
    refine ⟨_, rfl, ?_⟩
    obtain ⟨f1, f2, f3⟩ := hfx (ps.foldl Publish.applyOcc { fixed := fb, topicName := topic, packetID := if qos = 0 then 0 else pid }) (e _).1
    simp only [Packet.view, Publish.view, SPacket.view, SPacket.publishView, Publish.fold_payloadFormat ps hok,
      Publish.fold_messageExpiryInterval ps hok, Publish.fold_topicAlias ps hok, Publish.fold_responseTopic ps hok,
      Publish.fold_correlationData ps hok, Publish.fold_contentType ps hok, (e _).2.1, (e _).2.2.1, (e _).2.2.2.1,
      (e _).2.2.2.2, f1, f2, f3, hsub]
    by_cases h0 : qos = 0 <;> simp [h0]
  · simp only [ne_eq, hp, not_false_eq_true, if_true, get_raw payload hp]
    refine ⟨_, rfl, ?_⟩
    obtain ⟨f1, f2, f3⟩ := hfx { (ps.foldl Publish.applyOcc { fixed := fb, topicName := topic, packetID := if qos = 0 then 0 else pid }) with payload := payload } (e _).1
    simp only [Publish.qos, Publish.duplicate, Publish.retain] at f1 f2 f3
    simp only [Packet.view, Publish.view, SPacket.view, SPacket.publishView, Publish.fold_payloadFormat ps hok,
      Publish.fold_messageExpiryInterval ps hok, Publish.fold_topicAlias ps hok, Publish.fold_responseTopic ps hok,
      Publish.fold_correlationData ps hok, Publish.fold_contentType ps hok, (e _).2.1, (e _).2.2.1,
      (e _).2.2.2.2, Publish.qos, Publish.duplicate, Publish.retain, f1, f2, f3, hsub]
    by_cases h0 : qos = 0 <;> simp [h0]

end Mq
