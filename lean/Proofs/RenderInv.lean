import Proofs.Setters
import Proofs.ReadPacket
import Mq.Render
/-!
# Proofs.RenderInv — "will flag set ⇒ will attached" is preserved by every setter, by every
`UnmarshalBinary` (whatever its outcome) and holds for everything `ReadPacket` returns
-/
namespace Mq

def Connect.WillInv (p : Connect) : Prop := has p.flags Connect.fWillFlag = true → p.will.isSome = true

theorem Connect.apply_will_inv (p q : Connect) (op : SetOp) (h : p.apply op = some q) (hi : p.WillInv) : q.WillInv := by
  unfold Connect.WillInv at *
  simp only [Connect.fWillFlag] at *
  by_cases c1 : ∃ w, op = .setWill w
  · obtain ⟨w, rfl⟩ := c1; simp [Connect.apply] at h; subst h
    intro _; simp [Connect.setWill, Connect.setWillQoS]
  by_cases c2 : ∃ v, op = .setCleanStart v
  · obtain ⟨v, rfl⟩ := c2; simp [Connect.apply] at h; subst h
    simp only [Connect.setCleanStart, Connect.fCleanStart]
    rw [has_toggle p.flags v 2 4 mem_masks_2 mem_masks_4]; simpa using hi
  by_cases c3 : ∃ v, op = .setUsername v
  · obtain ⟨v, rfl⟩ := c3; simp [Connect.apply] at h; subst h
    simp only [Connect.setUsername, Connect.fUsername]
    rw [has_toggle p.flags _ 128 4 mem_masks_128 mem_masks_4]; simpa using hi
  by_cases c4 : ∃ v, op = .setPassword v
  · obtain ⟨v, rfl⟩ := c4; simp [Connect.apply] at h; subst h
    simp only [Connect.setPassword, Connect.fPassword]
    rw [has_toggle p.flags _ 64 4 mem_masks_64 mem_masks_4]; simpa using hi
  obtain ⟨e1, _, _, e4⟩ := Connect.apply_plain p q op h (fun w hw => c1 ⟨w, hw⟩) (fun v hv => c2 ⟨v, hv⟩)
    (fun v hv => c3 ⟨v, hv⟩) (fun v hv => c4 ⟨v, hv⟩)
  rw [e1, e4]; exact hi

theorem Connect.readWill_inv (p : Connect) (b : Buf) : (p.readWill b).2.WillInv := by
  unfold Connect.WillInv Connect.readWill
  by_cases hf : has p.flags Connect.fWillFlag = true
  · simp only [hf, if_true]; intro _; rfl
  · simp only [hf]; intro h; exact absurd h hf

theorem Connect.readUsername_keeps (p : Connect) (b : Buf) (h : p.WillInv) : (p.readUsername b).2.WillInv := by
  unfold Connect.WillInv Connect.readUsername at *
  split <;> exact h

theorem Connect.readPassword_keeps (p : Connect) (b : Buf) (h : p.WillInv) : (p.readPassword b).2.WillInv := by
  unfold Connect.WillInv Connect.readPassword at *
  split <;> exact h

/-- whatever the bytes and whatever the outcome: after `UnmarshalBinary` a set will flag comes with
an allocated will (no hypothesis on the packet before) -/
theorem Connect.unmarshal_will_inv (p : Connect) (d : Bytes) : (p.unmarshal d).1.WillInv := by
  simp only [Connect.unmarshal]
  exact Connect.readPassword_keeps _ _ (Connect.readUsername_keeps _ _ (Connect.readWill_inv _ _))

def Packet.RenderInv : Packet → Prop
  | .connect q => q.WillInv
  | _ => True

theorem Packet.unmarshal_renderInv (p : Packet) (d : Bytes) : (p.unmarshal d).1.RenderInv := by
  cases p <;> simp only [Packet.unmarshal, Packet.RenderInv]
  exact Connect.unmarshal_will_inv _ _

theorem Packet.dispatch_renderInv (b0 : UInt8) : (Packet.dispatch b0).RenderInv := by
  unfold Packet.dispatch
  split <;> simp [Packet.RenderInv, Connect.WillInv, has, Connect.fWillFlag]

theorem purePacket_renderInv (d : Bytes) (fail : IOErr) (q : Packet) (h : (purePacket d fail).1 = .pkt q) : q.RenderInv := by
  cases d with
  | nil => simp [purePacket] at h
  | cons b0 d1 =>
    simp only [purePacket] at h
    rcases hv : pureVb 5 d1 fail 1 0 with ⟨⟨on, oe⟩, d2⟩
    rw [hv] at h
    cases oe with
    | some e => simp at h
    | none =>
      cases on with
      | none => simp at h
      | some n =>
        simp only [] at h
        by_cases hn : n = 0
        · simp only [hn, if_true, RP.pkt.injEq] at h; subst h; exact Packet.dispatch_renderInv b0
        · simp only [hn, if_false] at h
          by_cases hle : n ≤ d2.length
          · simp only [hle, if_true] at h
            have := Packet.unmarshal_renderInv (Packet.dispatch b0) (d2.take n)
            rcases hu : (Packet.dispatch b0).unmarshal (d2.take n) with ⟨q', st⟩
            rw [hu] at h this
            cases st <;> simp at h
            subst h; exact this
          · simp [hle] at h

/-- everything `ReadPacket` returns satisfies the invariant -/
theorem readPacket_renderInv (r : Reader) (q : Packet) (h : (readPacket r).1 = .pkt q) : q.RenderInv := by
  have hp := congrArg Prod.fst (readPacket_pure r).1
  simp only [] at hp
  rw [h] at hp
  exact purePacket_renderInv _ _ q hp.symm

end Mq
