import Proofs.Fill
import Mq.Render
/-!
# Proofs.FillPackets — every packet's Go-shaped `fill` refines `Packet.encode`
-/
namespace Mq

theorem length_pos_iff_ne_nil (l : Bytes) : l.length > 0 ↔ l ≠ [] := by
  cases l <;> simp

/-! ## PUBACK family -/

theorem Ack.propertiesG_sound (p : Ack) : Sound p.propertiesG p.props :=
  (Sound.seqs (.cons (fillProp_sound _ _) (.cons (fillUserProps_sound _) .nil))).cast (by simp [Ack.props])

theorem Ack.variableHeaderG_sound (p : Ack) : Sound p.variableHeaderG p.body := by
  have hp := p.propertiesG_sound
  have hd := hp.dry
  unfold Ack.variableHeaderG Ack.body
  simp only [hd, length_pos_iff_ne_nil]
  exact (Sound.seqs (.cons (fillU16_sound _)
    (.cons (Sound.ite (fillByte_sound _) Sound.nop)
      (.cons (Sound.ite (Sound.seq (fillVb_sound _) hp) Sound.nop) .nil)))).cast (by simp)

theorem Ack.fillG_sound (p : Ack) : Sound p.fillG p.encode := fillFrame_sound _ p.variableHeaderG_sound

/-! ## pings -/

theorem Ping.fillG_sound (p : Ping) : Sound p.fillG p.encode :=
  (Sound.seqs (.cons (fillByte_sound _) (.cons (fillVb_sound 0) .nil))).cast (by simp [Ping.encode])

/-! ## DISCONNECT, AUTH -/

theorem Disconnect.propertiesG_sound (p : Disconnect) : Sound p.propertiesG p.props :=
  (Sound.seqs (.cons (fillProp_sound _ _) (.cons (fillProp_sound _ _) (.cons (fillProp_sound _ _)
    (.cons (fillUserProps_sound _) .nil))))).cast (by simp [Disconnect.props])

theorem Disconnect.variableHeaderG_sound (p : Disconnect) : Sound p.variableHeaderG p.body := by
  have hp := p.propertiesG_sound
  have hd := hp.dry
  by_cases hc : p.reasonCode = 0 ∧ p.props = []
  · have hc' : p.reasonCode = 0 ∧ p.propertiesG.dry = 0 := ⟨hc.1, by rw [hd, hc.2]; rfl⟩
    have e1 : p.variableHeaderG = Filler.nop := by
      funext b i; simp [Disconnect.variableHeaderG, hc', Filler.nop]
    have e2 : p.body = [] := by simp [Disconnect.body, hc]
    rw [e1, e2]; exact Sound.nop
  · have hc' : ¬ (p.reasonCode = 0 ∧ p.propertiesG.dry = 0) := by
      rw [hd]; intro h; exact hc ⟨h.1, List.eq_nil_of_length_eq_zero h.2⟩
    have e1 : p.variableHeaderG = Filler.seqs [fillByte p.reasonCode, fillVb p.propertiesG.dry, p.propertiesG] := by
      funext b i; simp [Disconnect.variableHeaderG, hc']
    have e2 : p.body = [p.reasonCode] ++ encVb p.props.length ++ p.props := by simp [Disconnect.body, hc]
    rw [e1, e2, hd]
    exact (Sound.seqs (.cons (fillByte_sound _) (.cons (fillVb_sound _) (.cons hp .nil)))).cast (by simp)

theorem Disconnect.fillG_sound (p : Disconnect) : Sound p.fillG p.encode := fillFrame_sound _ p.variableHeaderG_sound

theorem Auth.propertiesG_sound (p : Auth) : Sound p.propertiesG p.props :=
  (Sound.seqs (.cons (fillProp_sound _ _) (.cons (fillProp_sound _ _) (.cons (fillProp_sound _ _)
    (.cons (fillUserProps_sound _) .nil))))).cast (by simp [Auth.props])

theorem Auth.variableHeaderG_sound (p : Auth) : Sound p.variableHeaderG p.body := by
  have hp := p.propertiesG_sound
  have hd := hp.dry
  by_cases hc : p.reasonCode = 0 ∧ p.props = []
  · have hc' : p.reasonCode = 0 ∧ p.propertiesG.dry = 0 := ⟨hc.1, by rw [hd, hc.2]; rfl⟩
    have e1 : p.variableHeaderG = Filler.nop := by
      funext b i; simp [Auth.variableHeaderG, hc', Filler.nop]
    have e2 : p.body = [] := by simp [Auth.body, hc]
    rw [e1, e2]; exact Sound.nop
  · have hc' : ¬ (p.reasonCode = 0 ∧ p.propertiesG.dry = 0) := by
      rw [hd]; intro h; exact hc ⟨h.1, List.eq_nil_of_length_eq_zero h.2⟩
    have e1 : p.variableHeaderG = Filler.seqs [fillByte p.reasonCode, fillVb p.propertiesG.dry, p.propertiesG] := by
      funext b i; simp [Auth.variableHeaderG, hc']
    have e2 : p.body = [p.reasonCode] ++ encVb p.props.length ++ p.props := by simp [Auth.body, hc]
    rw [e1, e2, hd]
    exact (Sound.seqs (.cons (fillByte_sound _) (.cons (fillVb_sound _) (.cons hp .nil)))).cast (by simp)

theorem Auth.fillG_sound (p : Auth) : Sound p.fillG p.encode := fillFrame_sound _ p.variableHeaderG_sound

/-! ## SUBACK / UNSUBACK -/

theorem SubAck.propertiesG_sound (p : SubAck) : Sound p.propertiesG p.props :=
  (Sound.seqs (.cons (fillProp_sound _ _) (.cons (fillUserProps_sound _) .nil))).cast (by simp [SubAck.props])

theorem SubAck.variableHeaderG_sound (p : SubAck) :
    Sound p.variableHeaderG (encU16 p.packetID ++ encVb p.props.length ++ p.props) := by
  have hp := p.propertiesG_sound
  unfold SubAck.variableHeaderG
  rw [hp.dry]
  exact (Sound.seqs (.cons (fillU16_sound _) (.cons (fillVb_sound _) (.cons hp .nil)))).cast (by simp)

theorem SubAck.payloadG_sound (p : SubAck) : Sound p.payloadG p.reasonCodes := by
  have := Sound.map p.reasonCodes fillByte (fun c => [c]) fillByte_sound
  exact this.cast (by induction p.reasonCodes <;> simp_all [List.flatMap])

theorem SubAck.fillG_sound (p : SubAck) : Sound p.fillG p.encode := by
  have hv := p.variableHeaderG_sound
  have hl := p.payloadG_sound
  unfold SubAck.fillG
  rw [hv.dry, hl.dry]
  exact (Sound.seqs (.cons (fillByte_sound _) (.cons (fillVb_sound _) (.cons hv (.cons hl .nil))))).cast
    (by simp [SubAck.encode, SubAck.body, frame, Nat.add_assoc])

/-! ## SUBSCRIBE / UNSUBSCRIBE -/

theorem TopicFilter.fillG_sound (f : TopicFilter) : Sound f.fillG f.enc :=
  (Sound.seqs (.cons (fillBin_sound _) (.cons (fillByte_sound _) .nil))).cast (by simp [TopicFilter.enc])

theorem Subscribe.propertiesG_sound (p : Subscribe) : Sound p.propertiesG p.props := by
  unfold Subscribe.propertiesG Subscribe.props
  cases p.subscriptionID with
  | none => exact (Sound.seqs (.cons Sound.nop (.cons (fillUserProps_sound _) .nil))).cast (by simp)
  | some v => exact (Sound.seqs (.cons (fillProp_sound _ _) (.cons (fillUserProps_sound _) .nil))).cast (by simp)

theorem Subscribe.variableHeaderG_sound (p : Subscribe) :
    Sound p.variableHeaderG (encU16 p.packetID ++ encVb p.props.length ++ p.props) := by
  have hp := p.propertiesG_sound
  unfold Subscribe.variableHeaderG
  rw [hp.dry]
  exact (Sound.seqs (.cons (fillU16_sound _) (.cons (fillVb_sound _) (.cons hp .nil)))).cast (by simp)

theorem Subscribe.payloadG_sound (p : Subscribe) : Sound p.payloadG p.payload :=
  Sound.map p.filters _ _ TopicFilter.fillG_sound

theorem Subscribe.fillG_sound (p : Subscribe) : Sound p.fillG p.encode := by
  have hv := p.variableHeaderG_sound
  have hl := p.payloadG_sound
  unfold Subscribe.fillG
  rw [hv.dry, hl.dry]
  exact (Sound.seqs (.cons (fillByte_sound _) (.cons (fillVb_sound _) (.cons hv (.cons hl .nil))))).cast
    (by simp [Subscribe.encode, Subscribe.body, frame, Nat.add_assoc])

theorem Unsubscribe.variableHeaderG_sound (p : Unsubscribe) :
    Sound p.variableHeaderG (encU16 p.packetID ++ encVb p.props.length ++ p.props) := by
  have hp : Sound p.propertiesG p.props := fillUserProps_sound _
  unfold Unsubscribe.variableHeaderG
  rw [hp.dry]
  exact (Sound.seqs (.cons (fillU16_sound _) (.cons (fillVb_sound _) (.cons hp .nil)))).cast (by simp)

theorem Unsubscribe.payloadG_sound (p : Unsubscribe) : Sound p.payloadG p.payload :=
  Sound.map p.filters _ _ fillBin_sound

theorem Unsubscribe.fillG_sound (p : Unsubscribe) : Sound p.fillG p.encode := by
  have hv := p.variableHeaderG_sound
  have hl := p.payloadG_sound
  unfold Unsubscribe.fillG
  rw [hv.dry, hl.dry]
  exact (Sound.seqs (.cons (fillByte_sound _) (.cons (fillVb_sound _) (.cons hv (.cons hl .nil))))).cast
    (by simp [Unsubscribe.encode, Unsubscribe.body, frame, Nat.add_assoc])

/-! ## PUBLISH -/

theorem Publish.propertiesG_sound (p : Publish) : Sound p.propertiesG p.props :=
  (Sound.seqs (.cons (fillProp_sound _ _) (.cons (fillProp_sound _ _) (.cons (fillProp_sound _ _)
    (.cons (fillProp_sound _ _) (.cons (fillProp_sound _ _) (.cons (fillProp_sound _ _)
    (.cons (fillUserProps_sound _)
    (.cons (Sound.map p.subscriptionIDs _ _ fun v => fillProp_sound 0x0b (.vb v.toNat)) .nil))))))))).cast
    (by simp [Publish.props])

theorem Publish.variableHeaderG_sound (p : Publish) : Sound p.variableHeaderG p.varHeader := by
  have hp := p.propertiesG_sound
  unfold Publish.variableHeaderG Publish.varHeader
  rw [hp.dry]
  exact (Sound.seqs (.cons (fillBin_sound _) (.cons (Sound.ite (fillU16_sound _) Sound.nop)
    (.cons (fillVb_sound _) (.cons hp .nil))))).cast (by simp)

theorem Publish.fillG_sound (p : Publish) : Sound p.fillG p.encode := by
  have hv := p.variableHeaderG_sound
  have hr : Sound (if p.payload.length > 0 then fillRaw p.payload else Filler.nop) p.payload := by
    by_cases h : p.payload.length > 0
    · simp only [h, if_true]; exact fillRaw_sound _
    · have : p.payload = [] := by cases hp : p.payload <;> simp_all
      simp only [h, if_false, this]; exact Sound.nop
  have hlen : (if p.payload.length > 0 then (fillRaw p.payload).dry else 0) = p.payload.length := by
    by_cases h : p.payload.length > 0
    · simp only [h, if_true]; exact (fillRaw_sound _).dry
    · simp only [h, if_false]; omega
  have e : p.fillG = Filler.seqs [fillByte p.fixed, fillVb (p.varHeader.length + p.payload.length), p.variableHeaderG,
      (if p.payload.length > 0 then fillRaw p.payload else Filler.nop)] := by
    funext b i; simp only [Publish.fillG, hv.dry, hlen]
  rw [e]
  exact (Sound.seqs (.cons (fillByte_sound _) (.cons (fillVb_sound _) (.cons hv (.cons hr .nil))))).cast
    (by simp [Publish.encode, Publish.body, frame])

/-! ## CONNACK -/

theorem ConnAck.propertiesG_sound (p : ConnAck) : Sound p.propertiesG p.props :=
  (Sound.seqs (.cons (fillProp_sound _ _) (.cons (fillProp_sound _ _) (.cons (fillProp_sound _ _)
    (.cons (fillProp_sound _ _) (.cons (fillProp_sound _ _) (.cons (fillProp_sound _ _)
    (.cons (fillProp_sound _ _) (.cons (fillProp_sound _ _) (.cons (fillProp_sound _ _)
    (.cons (fillProp_sound _ _) (.cons (fillProp_sound _ _) (.cons (fillProp_sound _ _)
    (.cons (fillProp_sound _ _) (.cons (fillProp_sound _ _) (.cons (fillProp_sound _ _)
    (.cons (fillProp_sound _ _) (.cons (fillUserProps_sound _) .nil)))))))))))))))))).cast
    (by simp [ConnAck.props])

theorem ConnAck.variableHeaderG_sound (p : ConnAck) : Sound p.variableHeaderG p.body := by
  have hp := p.propertiesG_sound
  unfold ConnAck.variableHeaderG
  rw [hp.dry]
  exact (Sound.seqs (.cons (fillByte_sound _) (.cons (fillByte_sound _) (.cons (fillVb_sound _) (.cons hp .nil))))).cast
    (by simp [ConnAck.body])

theorem ConnAck.fillG_sound (p : ConnAck) : Sound p.fillG p.encode := fillFrame_sound _ p.variableHeaderG_sound

/-! ## CONNECT -/

theorem Connect.propertiesG_sound (p : Connect) : Sound p.propertiesG p.props :=
  (Sound.seqs (.cons (fillProp_sound _ _) (.cons (fillProp_sound _ _) (.cons (fillProp_sound _ _)
    (.cons (fillProp_sound _ _) (.cons (fillProp_sound _ _) (.cons (fillProp_sound _ _)
    (.cons (fillProp_sound _ _) (.cons (fillProp_sound _ _) (.cons (fillUserProps_sound _) .nil)))))))))).cast
    (by simp [Connect.props])

theorem Connect.variableHeaderG_sound (p : Connect) : Sound p.variableHeaderG p.varHeader := by
  have hp := p.propertiesG_sound
  unfold Connect.variableHeaderG Connect.varHeader
  rw [hp.dry]
  exact (Sound.seqs (.cons (fillBin_sound _) (.cons (fillByte_sound _) (.cons (fillByte_sound _)
    (.cons (fillU16_sound _) (.cons (fillVb_sound _) (.cons hp .nil))))))).cast (by simp)

theorem Connect.willPropertiesG_sound (p : Connect) (w : Publish) : Sound (p.willPropertiesG w) (p.willProps w) :=
  (Sound.seqs (.cons (fillProp_sound _ _) (.cons (fillProp_sound _ _) (.cons (fillProp_sound _ _)
    (.cons (fillProp_sound _ _) (.cons (fillProp_sound _ _) (.cons (fillProp_sound _ _)
    (.cons (fillUserProps_sound _) .nil)))))))).cast (by simp [Connect.willProps])

/-- `payload`: the same nil-will panic condition in both models, and sound when defined -/
theorem Connect.payloadG_sound (p : Connect) :
    (p.payloadG? = none ↔ p.payload? = none)
    ∧ ∀ f, p.payloadG? = some f → ∃ bs, p.payload? = some bs ∧ Sound f bs := by
  have hu : Sound (if has p.flags fUsername = true then fillBin p.username else Filler.nop)
      (if has p.flags fUsername = true then encBin p.username else []) := Sound.ite (fillBin_sound _) Sound.nop
  have hpw : Sound (if has p.flags fPassword = true then fillBin p.password else Filler.nop)
      (if has p.flags fPassword = true then encBin p.password else []) := Sound.ite (fillBin_sound _) Sound.nop
  by_cases hf : has p.flags fWillFlag = true
  · cases hw : p.will with
    | none => simp [Connect.payloadG?, Connect.payload?, hf, hw]
    | some w =>
      have e1 : p.payloadG? = some (Filler.seqs [fillBin p.clientID,
          Filler.seqs [fillVb (p.willPropertiesG w).dry, p.willPropertiesG w, fillBin w.topicName, fillBin p.willPayload],
          (if has p.flags fUsername = true then fillBin p.username else Filler.nop),
          (if has p.flags fPassword = true then fillBin p.password else Filler.nop)]) := by
        simp [Connect.payloadG?, hf, hw]
      have e2 : p.payload? = some (encBin p.clientID
          ++ (encVb (p.willProps w).length ++ p.willProps w ++ encBin w.topicName ++ encBin p.willPayload)
          ++ (if has p.flags fUsername = true then encBin p.username else [])
          ++ (if has p.flags fPassword = true then encBin p.password else [])) := by
        simp [Connect.payload?, hf, hw]
      rw [e1, e2]
      refine ⟨by simp, ?_⟩
      intro f hfe
      simp only [Option.some.injEq] at hfe
      subst hfe
      refine ⟨_, rfl, ?_⟩
      have hwp := p.willPropertiesG_sound w
      rw [hwp.dry]
      have hwill := (Sound.seqs (.cons (fillVb_sound (p.willProps w).length) (.cons hwp
        (.cons (fillBin_sound w.topicName) (.cons (fillBin_sound p.willPayload) .nil)))))
      exact (Sound.seqs (.cons (fillBin_sound _) (.cons hwill (.cons hu (.cons hpw .nil))))).cast (by simp)
  · have e1 : p.payloadG? = some (Filler.seqs [fillBin p.clientID, Filler.nop,
          (if has p.flags fUsername = true then fillBin p.username else Filler.nop),
          (if has p.flags fPassword = true then fillBin p.password else Filler.nop)]) := by
      simp [Connect.payloadG?, hf]
    have e2 : p.payload? = some (encBin p.clientID ++ []
          ++ (if has p.flags fUsername = true then encBin p.username else [])
          ++ (if has p.flags fPassword = true then encBin p.password else [])) := by
      simp [Connect.payload?, hf]
    rw [e1, e2]
    refine ⟨by simp, ?_⟩
    intro f hfe
    simp only [Option.some.injEq] at hfe
    subst hfe
    refine ⟨_, rfl, ?_⟩
    exact (Sound.seqs (.cons (fillBin_sound _) (.cons Sound.nop (.cons hu (.cons hpw .nil))))).cast (by simp)

theorem Connect.fillG_sound (p : Connect) :
    (p.fillG? = none ↔ p.encode? = none)
    ∧ ∀ f, p.fillG? = some f → ∃ bs, p.encode? = some bs ∧ Sound f bs := by
  obtain ⟨h1, h2⟩ := p.payloadG_sound
  unfold Connect.fillG? Connect.encode? Connect.body?
  constructor
  · simp [h1]
  · intro f hf
    cases hp : p.payloadG? with
    | none => simp [hp] at hf
    | some pl =>
      obtain ⟨bs, hbs, hs⟩ := h2 pl hp
      simp only [hp, Option.map_some, Option.some.injEq] at hf
      subst hf
      refine ⟨frame p.fixed (p.varHeader ++ bs), by simp [hbs], ?_⟩
      have hv := p.variableHeaderG_sound
      rw [hv.dry, hs.dry]
      exact (Sound.seqs (.cons (fillByte_sound _) (.cons (fillVb_sound _) (.cons hv (.cons hs .nil))))).cast
        (by simp [frame])

/-- the width CONNECT's `String()` prints, in terms of the encoding -/
theorem Connect.fillG_dry (p : Connect) : p.fillG?.map Filler.dry = p.encode?.map List.length := by
  obtain ⟨h1, h2⟩ := p.fillG_sound
  cases hf : p.fillG? with
  | none => rw [h1.mp hf]; rfl
  | some f =>
    obtain ⟨bs, hbs, hs⟩ := h2 f hf
    rw [hbs]; simp [hs.dry]

/-! ## all packets -/

/-- the Go-shaped two-pass encoder computes exactly `Packet.encode` — including which packets
refuse or panic -/
theorem Packet.encodeG_eq (p : Packet) : p.encodeG = p.encode := by
  have key : ∀ (f : Filler) (bs : Bytes), Sound f bs → Packet.Enc.bytes (f (List.replicate f.dry 0) 0).1 = .bytes bs :=
    fun f bs h => by rw [(two_pass h).2.1]
  cases p with
  | undefined q => rfl
  | connect q =>
    obtain ⟨h1, h2⟩ := q.fillG_sound
    simp only [Packet.encodeG, Packet.fillG, Packet.encode]
    cases hf : q.fillG? with
    | none => rw [h1.mp hf]
    | some f =>
      obtain ⟨bs, hbs, hs⟩ := h2 f hf
      rw [hbs]; exact key f bs hs
  | connack q => exact key _ _ q.fillG_sound
  | publish q => exact key _ _ q.fillG_sound
  | puback q | pubrec q | pubrel q | pubcomp q => exact key _ _ q.fillG_sound
  | subscribe q => exact key _ _ q.fillG_sound
  | suback q | unsuback q => exact key _ _ q.fillG_sound
  | unsubscribe q => exact key _ _ q.fillG_sound
  | pingreq q | pingresp q => exact key _ _ q.fillG_sound
  | disconnect q => exact key _ _ q.fillG_sound
  | auth q => exact key _ _ q.fillG_sound

/-- `width()` is the length of the frame -/
theorem Packet.widthG_eq (p : Packet) : p.widthG = sizeOf? p.encode := by
  have key : ∀ (f : Filler) (bs : Bytes), Sound f bs → some f.dry = some bs.length :=
    fun f bs h => by rw [h.dry]
  cases p with
  | undefined q => rfl
  | connect q =>
    obtain ⟨h1, h2⟩ := q.fillG_sound
    simp only [Packet.widthG, Packet.fillG, Packet.encode]
    cases hf : q.fillG? with
    | none => rw [h1.mp hf]; rfl
    | some f =>
      obtain ⟨bs, hbs, hs⟩ := h2 f hf
      rw [hbs]; exact key f bs hs
  | connack q => exact key _ _ q.fillG_sound
  | publish q => exact key _ _ q.fillG_sound
  | puback q | pubrec q | pubrel q | pubcomp q => exact key _ _ q.fillG_sound
  | subscribe q => exact key _ _ q.fillG_sound
  | suback q | unsuback q => exact key _ _ q.fillG_sound
  | unsubscribe q => exact key _ _ q.fillG_sound
  | pingreq q | pingresp q => exact key _ _ q.fillG_sound
  | disconnect q => exact key _ _ q.fillG_sound
  | auth q => exact key _ _ q.fillG_sound

/-! ## shape of the `String()` wrappers -/

theorem withReason_shape (c : UInt8) (r : Option Bytes) (v t : Bytes) (h : withReason c r v = .ok t) : ∃ suf, t = v ++ suf := by
  unfold withReason at h
  split at h
  · cases hc : reasonCodeStr c with
    | ok cs =>
      simp only [hc, Rend.bind] at h
      cases r with
      | none => simp only [Rend.ok.injEq] at h; exact ⟨[32] ++ cs ++ [33], by rw [← h]; simp⟩
      | some r =>
        simp only [] at h
        split at h <;> simp only [Rend.ok.injEq] at h
        · exact ⟨[32] ++ cs ++ [33, 32] ++ r, by rw [← h]; simp⟩
        · exact ⟨[32] ++ cs ++ [33], by rw [← h]; simp⟩
    | unmodelled => simp [hc, Rend.bind] at h
    | panic => simp [hc, Rend.bind] at h
  · simp only [Rend.ok.injEq] at h; exact ⟨[], by simp [h]⟩

theorem withForm_shape (wf : WF) (v t : Bytes) (h : withForm wf v = t) : ∃ suf, t = v ++ suf := by
  subst h
  unfold withForm
  split
  · rename_i ref reason
    exact ⟨b!", malformed! " ++ sb reason ++ b!" " ++ sb ref, by simp⟩
  · exact ⟨[], by simp⟩

end Mq
