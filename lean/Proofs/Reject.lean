import Proofs.Vbint
import Proofs.Buf
/-!
# Proofs.Reject — why malformed input ends in an error: prefix rejection of every wire decoder,
the sticky status, and a property section shorter than its declared length
-/
namespace Mq

def DecRes.isErr {α} : DecRes α → Prop
  | .err _ => True
  | _ => False

/-! ## a frame that ends inside a field: every wire decoder reports an error on a strict prefix -/

theorem decU16_short (d : Bytes) (h : d.length < 2) : decU16 d = .err .missing := by simp [decU16, h]
theorem decU32_short (d : Bytes) (h : d.length < 4) : decU32 d = .err .missing := by simp [decU32, h]

theorem decBin_prefix (old v : Bytes) (hv : v.length < 65536) (j : Nat) (hj : j < (encBin v).length) :
    decBin old ((encBin v).take j) = .err .missing := by
  have hl : (encBin v).length = v.length + 2 := by simp [encBin]
  unfold decBin
  by_cases h2 : j < 2
  · have : binLen ((encBin v).take j) = 0 := by
      unfold binLen; rw [decU16_short _ (by simp [List.length_take]; omega)]
    simp only [this, List.length_take]
    have : min j (encBin v).length < 0 + 2 := by omega
    simp only [this, if_true]
  · have hb : binLen ((encBin v).take j) = v.length := by
      have e : (encBin v).take j = [UInt8.ofNat (v.length / 256), UInt8.ofNat (v.length % 256)] ++ v.take (j - 2) := by
        simp only [encBin]
        obtain ⟨m, rfl⟩ : ∃ m, j = m + 2 := ⟨j - 2, by omega⟩
        simp
      rw [e]
      unfold binLen
      simp only [List.cons_append, List.nil_append, decU16, List.length_cons]
      have : ¬ ((v.take (j - 2)).length + 1 + 1 < 2) := by omega
      simp only [this, if_false]
      exact be16_ofNat _ hv
    simp only [hb, List.length_take]
    have : min j (encBin v).length < v.length + 2 := by omega
    simp only [this, if_true]

theorem vbShape_take (l : Bytes) (h : VbShape l) : ∀ j, j < l.length → ∀ b ∈ l.take j, 128 ≤ b.toNat := by
  induction l with
  | nil => intro j hj; simp at hj
  | cons a t ih =>
    intro j hj b hb
    cases j with
    | zero => simp at hb
    | succ j =>
      cases t with
      | nil => simp at hj
      | cons c rest =>
        simp only [VbShape] at h
        simp only [List.take_succ_cons, List.mem_cons] at hb
        rcases hb with rfl | hb
        · exact h.1
        · exact ih h.2 j (by simpa using hj) b hb

theorem decVbLoop_all_cont (d : Bytes) (hall : ∀ b ∈ d, 128 ≤ b.toNat) : ∀ (m a : Nat), ∃ e, decVbLoop d m a = .err e := by
  induction d with
  | nil => intro m a; exact ⟨_, rfl⟩
  | cons b t ih =>
    intro m a
    simp only [decVbLoop]
    split
    · exact ⟨_, rfl⟩
    · have : ¬ b.toNat < 128 := by have := hall b (by simp); omega
      simp only [this, if_false]
      exact ih (fun c hc => hall c (by simp [hc])) _ _

theorem decVb_prefix (x : Nat) (j : Nat) (hj : j < (encVb x).length) : ∃ e, decVb ((encVb x).take j) = .err e :=
  decVbLoop_all_cont _ (vbShape_take _ (encVb_shape x) j hj) 1 0

/-- `buffer.get` on a non-empty input its decoder rejects: the cursor's status is that error -/
theorem get_err {α} (dec : Dec α) (old : α) (d : Bytes) (e : Err) (hne : d ≠ []) (h : dec d = .err e) :
    (({ rest := d, st := .ok } : Buf).get dec old).1.st = .err e := by
  simp [Buf.get, hne, h]

theorem get_err_val {α} (dec : Dec α) (old : α) (d : Bytes) (e : Err) (hne : d ≠ []) (h : dec d = .err e) :
    ({ rest := d, st := .ok } : Buf).get dec old = ({ rest := d, st := .err e }, old) := by
  simp [Buf.get, hne, h]

/-- … and on no input at all: "missing data" -/
theorem get_nil {α} (dec : Dec α) (old : α) : (({ rest := [], st := .ok } : Buf).get dec old).1.st = .err .missing := by
  simp [Buf.get]

/-! ## the sticky status: once an error is set every later step keeps it -/

def Buf.Failed (b : Buf) : Prop := ∃ e, b.st = .err e

theorem Buf.Failed.not_ok {b : Buf} (h : b.Failed) : b.st ≠ .ok := by
  obtain ⟨e, he⟩ := h; rw [he]; simp

theorem get_failed {α} (b : Buf) (dec : Dec α) (old : α) (h : b.Failed) : (b.get dec old).1.Failed := by
  rw [get_of_not_ok b dec old h.not_ok]; exact h

theorem getAnyLoop_failed (tbl : PropTable) (oldOf : UInt8 → List PropOcc → Bytes) (n0 plen fuel : Nat) (b : Buf)
    (acc : List PropOcc) (h : b.Failed) (hf : 0 < fuel) : (getAnyLoop tbl oldOf n0 plen fuel b acc).1.Failed := by
  cases fuel with
  | zero => omega
  | succ fuel =>
    unfold getAnyLoop
    split
    · simp only [get_of_not_ok b decU8 0 h.not_ok, ne_eq, h.not_ok, not_false_eq_true, if_true]; exact h
    · exact h

theorem getAny_failed (b : Buf) (tbl : PropTable) (oldOf : UInt8 → List PropOcc → Bytes) (h : b.Failed) :
    (b.getAny tbl oldOf).1.Failed := by
  unfold Buf.getAny
  split
  · exact h
  · simp only [get_of_not_ok b decVb 0 h.not_ok]
    exact getAnyLoop_failed _ _ _ _ _ _ _ h (by omega)

/-! ## the property loop on fewer bytes than the property length declares -/

/-- if the bytes that are left can never add up to the declared property length, the loop cannot
end in the `ok` status: it runs until a `get` finds nothing (or something malformed) -/
theorem getAnyLoop_short (tbl : PropTable) (oldOf : UInt8 → List PropOcc → Bytes) (n0 plen : Nat) (hshort : n0 < plen) :
    ∀ (fuel : Nat) (b : Buf) (acc : List PropOcc), b.st = .ok → b.rest.length < fuel →
      (getAnyLoop tbl oldOf n0 plen fuel b acc).1.st ≠ .ok := by
  intro fuel
  induction fuel with
  | zero => intro b acc _ h; omega
  | succ fuel ih =>
    intro b acc hb hf
    unfold getAnyLoop
    have hc : n0 - b.rest.length < plen := by omega
    simp only [hc, if_true]
    by_cases hok : (b.get decU8 0).1.st = .ok
    · obtain ⟨hne, v, w, hdec, _, hrest, _⟩ := get_ok_inv b decU8 0 hok hb
      have hw := decU8_ok_w _ _ _ hdec
      have hlen : (b.get decU8 0).1.rest.length + 1 = b.rest.length := by
        rw [hrest, hw, List.length_drop]
        have : 0 < b.rest.length := List.length_pos_iff.mpr hne
        omega
      have hle := fun {α} (dec : Dec α) (old : α) => get_rest_le (b.get decU8 0).1 dec old
      -- after the identifier: whichever branch, either the status is already not ok (and stays so) or the
      -- induction hypothesis applies to a strictly shorter buffer
      have key : ∀ (b' : Buf) (acc' : List PropOcc), b'.rest.length ≤ (b.get decU8 0).1.rest.length →
          (getAnyLoop tbl oldOf n0 plen fuel b' acc').1.st ≠ .ok := by
        intro b' acc' hl
        by_cases hb' : b'.st = .ok
        · exact ih b' acc' hb' (by omega)
        · cases fuel with
          | zero => omega
          | succ fuel =>
            unfold getAnyLoop
            have hc' : n0 - b'.rest.length < plen := by omega
            simp only [hc', if_true, get_of_not_ok b' decU8 0 hb', ne_eq, hb', not_false_eq_true]
      simp only [ne_eq, hok, not_true_eq_false, if_false]
      split
      · split <;> exact key _ _ (hle _ _)
      · split
        · split <;> exact key _ _ (hle _ _)
        · split
          · split <;> exact key _ _ (hle _ _)
          · exact key _ _ (by simp)
    · simp only [ne_eq, hok, not_false_eq_true, if_true]

/-- no panic, no hang and not ok: an error -/
theorem failed_of_safe_not_ok (b : Buf) (hs : b.Safe) (h : b.st ≠ .ok) : b.Failed := by
  obtain ⟨h1, h2⟩ := hs
  cases hst : b.st with
  | ok => exact absurd hst h
  | err e => exact ⟨e, hst⟩
  | panic => exact absurd hst h1
  | hang => exact absurd hst h2

/-- **a property section cut anywhere** — inside its length, between two properties, between an
identifier and its value, inside a value — is rejected: `getAny` on a non-empty strict prefix of
`encVb L ++ bytes` with `|bytes| = L`, nothing following, fails -/
theorem getAny_truncated (tbl : PropTable) (oldOf : UInt8 → List PropOcc → Bytes) (bytes : Bytes)
    (hL : bytes.length < 268435456) (j : Nat) (hj0 : 0 < j) (hj : j < (encVb bytes.length ++ bytes).length) :
    (({ rest := (encVb bytes.length ++ bytes).take j, st := .ok } : Buf).getAny tbl oldOf).1.Failed := by
  have hsafe := (getAny_safe { rest := (encVb bytes.length ++ bytes).take j, st := .ok } tbl oldOf (by simp [Buf.Safe])).1
  apply failed_of_safe_not_ok _ hsafe
  unfold Buf.getAny
  have hne : (encVb bytes.length ++ bytes).take j ≠ [] := by
    have := encVb_length_pos bytes.length
    intro h
    have : ((encVb bytes.length ++ bytes).take j).length = 0 := by rw [h]; rfl
    simp only [List.length_take, List.length_append] at this
    omega
  simp only [hne, if_false]
  by_cases hin : j < (encVb bytes.length).length
  · -- cut inside the property length
    have e : (encVb bytes.length ++ bytes).take j = (encVb bytes.length).take j := by
      rw [List.take_append_of_le_length (by omega)]
    obtain ⟨err, herr⟩ := decVb_prefix bytes.length j hin
    rw [e]
    have hne' : (encVb bytes.length).take j ≠ [] := by rw [← e]; exact hne
    have hg : ({ rest := (encVb bytes.length).take j, st := .ok } : Buf).get decVb 0
        = ({ rest := (encVb bytes.length).take j, st := .err err }, 0) := by simp [Buf.get, hne', herr]
    rw [hg]
    have := getAnyLoop_failed tbl oldOf ((encVb bytes.length).take j).length 0
      (((encVb bytes.length).take j).length + 1) { rest := (encVb bytes.length).take j, st := .err err } []
      ⟨err, rfl⟩ (by omega)
    exact this.not_ok
  · -- the property length is read; fewer bytes follow than it declares
    have e : (encVb bytes.length ++ bytes).take j = encVb bytes.length ++ bytes.take (j - (encVb bytes.length).length) := by
      rw [List.take_append, List.take_of_length_le (by omega)]
    rw [e]
    have hg := get_enc decVb (0 : Nat) bytes.length (encVb bytes.length) (bytes.take (j - (encVb bytes.length).length))
      (encVb_ne_nil _) (by rw [decVb_enc _ hL]; rfl)
    rw [hg]
    simp only []
    apply getAnyLoop_short
    · simp only [List.length_take, List.length_append] at hj ⊢; omega
    · rfl
    · simp only [List.length_take]; omega

end Mq
