import Props.Domain
/-!
# Proofs.ESimple — E for the acknowledgements, pings, DISCONNECT, AUTH, SUBSCRIBE, UNSUBSCRIBE:
the encoder's output is `unparse` of a legal abstract packet with the same accessor view
-/
namespace Mq
open Spec (SPacket Form propsLegal propBytes propSection propVal userPropsOf vvOf)
open Tie (encFields kinds)

theorem propBytes_eq_nil (ps : List PropOcc) : propBytes ps = [] ↔ ps = [] := by
  cases ps with
  | nil => simp [propBytes]
  | cons o ps => simp [propBytes, Spec.encOccS]

theorem upOccs_eq_nil (ups : UserProps) : upOccs ups = [] ↔ ups = [] := by
  cases ups <;> simp [upOccs]

theorem occsOf_bin1_nil (id : UInt8) (v : Bytes) : occsOf [(id, .bin v)] = [] ↔ v = [] := by
  cases v <;> simp [occsOf, WVal.isZero]

theorem strOK_range (v : Bytes) (h : strOK v) : Spec.valInRange (.bin v) = true := by
  simpa [Spec.valInRange, strOK] using h

theorem ups_keys (ups : UserProps) (h : UpsInRange ups) : ∀ kv ∈ ups, kv.1 ≠ [] := fun kv hkv => (h kv hkv).1

/-! ## PUBACK, PUBREC, PUBREL, PUBCOMP -/

def Ack.fields (p : Ack) : List (UInt8 × WVal) := [(0x1f, .bin p.reason)]
def Ack.occs (p : Ack) : List PropOcc := occsOf p.fields ++ upOccs p.userProps

def Ack.abs (k : Nat) (p : Ack) : SPacket :=
  .ack k p.packetID (if p.occs = [] then (if p.reasonCode = 0 then .bare else .reason) else .full) p.reasonCode p.occs

theorem Ack.props_eq (p : Ack) (h : UpsInRange p.userProps) : p.props = propBytes p.occs := by
  have := (Tie.M2_acks p)
  rw [this, encFields_eq, encUserProps_eq _ (ups_keys _ h), ← propBytes_append]; rfl

theorem Ack.occs_legal (k : Nat) (p : Ack) (h : p.InDomain k) : propsLegal k p.occs = true := by
  obtain ⟨⟨h4, h7⟩, _, hr, hu, _⟩ := h
  have hk : k = 4 ∨ k = 5 ∨ k = 6 ∨ k = 7 := by omega
  apply occs_legalK k p.fields p.userProps [(0x1f, .bin)] rfl
  · rcases hk with rfl | rfl | rfl | rfl <;> decide
  · decide
  · decide
  · rcases hk with rfl | rfl | rfl | rfl <;> decide
  · intro f hf; simp only [Ack.fields, List.mem_singleton] at hf; subst hf; exact strOK_range _ hr
  · exact hu

theorem E_ack (k : Nat) (p : Ack) (h : p.InDomain k) :
    (Ack.abs k p).Legal ∧ (Ack.abs k p).unparse = p.encode ∧ (Ack.abs k p).kind = k
    ∧ (Ack.abs k p).view = p.view ∧ (Ack.abs k p).firstByte = p.fixed := by
  have hprops := p.props_eq h.2.2.2.1
  have hleg := Ack.occs_legal k p h
  obtain ⟨⟨h4, h7⟩, hfix, hr, hu, hlen⟩ := h
  have hnil : p.props = [] ↔ p.occs = [] := by rw [hprops]; exact propBytes_eq_nil _
  have hbody : (Ack.abs k p).body = p.body := by
    simp only [Ack.abs, SPacket.body, Ack.body]
    by_cases ho : p.occs = []
    · have hp : p.props = [] := hnil.mpr ho
      by_cases hrc : p.reasonCode = 0 <;> simp [ho, hp, hrc]
    · have hp : p.props ≠ [] := fun e => ho (hnil.mp e)
      simp only [ho, if_false, hp, ne_eq, not_false_eq_true, or_true, if_true]
      rw [hprops]; simp [propSection]
  refine ⟨⟨?_, by rw [hbody]; exact hlen⟩, ?_, rfl, ?_, by simp [Ack.abs, SPacket.firstByte, hfix]⟩
  · simp only [Ack.abs, SPacket.legal, hleg, Bool.and_eq_true, decide_eq_true_eq, Bool.true_and]
    refine ⟨⟨⟨h4, h7⟩, trivial⟩, ?_⟩
    by_cases ho : p.occs = []
    · by_cases hrc : p.reasonCode = 0 <;> simp [ho, hrc, Spec.SPacket.formLegal]
    · simp [ho, Spec.SPacket.formLegal]
  · simp only [SPacket.unparse, Spec.mkFrame, hbody, Ack.encode, frame]
    simp [Ack.abs, SPacket.firstByte, hfix]
  · simp only [Ack.abs, SPacket.view, Ack.view]
    by_cases ho : p.occs = []
    · have h1 : p.reason = [] := by
        have : occsOf p.fields = [] := (List.append_eq_nil_iff.mp ho).1
        exact (occsOf_bin1_nil _ _).mp this
      have h2 : p.userProps = [] := (upOccs_eq_nil _).mp (List.append_eq_nil_iff.mp ho).2
      by_cases hrc : p.reasonCode = 0 <;> simp [ho, hrc, h1, h2, propVal, userPropsOf]
    · simp only [ho, if_false, reduceCtorEq, if_true]
      have hv := propVal_fieldsK p.fields p.userProps [(0x1f, .bin)] rfl 0x1f (.s []) (by decide) (by decide)
        (.bin p.reason) (by simp [Ack.fields]) (bin_zero _)
      have hups := userPropsOf_occsK p.fields p.userProps [(0x1f, .bin)] rfl (by decide)
      simp only [Ack.occs] at ho ⊢
      rw [hv, hups]; rfl

/-! ## SUBACK, UNSUBACK -/

def SubAck.fields (p : SubAck) : List (UInt8 × WVal) := [(0x1f, .bin p.reasonString)]
def SubAck.occs (p : SubAck) : List PropOcc := occsOf p.fields ++ upOccs p.userProps
def SubAck.abs (k : Nat) (p : SubAck) : SPacket := .suback k p.packetID p.occs p.reasonCodes

theorem SubAck.props_eq (p : SubAck) (h : UpsInRange p.userProps) : p.props = propBytes p.occs := by
  have : p.props = encFields p.fields ++ encUserProps p.userProps := by
    simp [SubAck.props, encFields, SubAck.fields]
  rw [this, encFields_eq, encUserProps_eq _ (ups_keys _ h), ← propBytes_append]; rfl

theorem E_suback_L (k : Nat) (p : SubAck) (h : p.InDomainL k) :
    (SubAck.abs k p).LegalL ∧ (SubAck.abs k p).unparse = p.encode ∧ (SubAck.abs k p).kind = k
    ∧ (SubAck.abs k p).view = p.view ∧ (SubAck.abs k p).firstByte = p.fixed := by
  obtain ⟨hk, hfix, hr, hu, hlen⟩ := h
  have hprops := p.props_eq hu
  have hleg : propsLegal k p.occs = true := by
    apply occs_legalK k p.fields p.userProps [(0x1f, .bin)] rfl
    · rcases hk with rfl | rfl <;> decide
    · decide
    · decide
    · rcases hk with rfl | rfl <;> decide
    · intro f hf; simp only [SubAck.fields, List.mem_singleton] at hf; subst hf; exact strOK_range _ hr
    · exact hu
  have hbody : (SubAck.abs k p).body = p.body := by
    simp only [SubAck.abs, SPacket.body, SubAck.body, hprops, propSection]
    simp
  refine ⟨⟨?_, by rw [hbody]; exact hlen⟩, ?_, rfl, ?_, by simp [SubAck.abs, SPacket.firstByte, hfix]⟩
  · simp only [SubAck.abs, SPacket.legalL, hleg, Bool.and_eq_true, Bool.or_eq_true, beq_iff_eq, Bool.and_true]
    exact hk
  · simp only [SPacket.unparse, Spec.mkFrame, hbody, SubAck.encode, frame]
    simp [SubAck.abs, SPacket.firstByte, hfix]
  · simp only [SubAck.abs, SPacket.view, SubAck.view]
    have hv := propVal_fieldsK p.fields p.userProps [(0x1f, .bin)] rfl 0x1f (.s []) (by decide) (by decide)
      (.bin p.reasonString) (by simp [SubAck.fields]) (bin_zero _)
    have hups := userPropsOf_occsK p.fields p.userProps [(0x1f, .bin)] rfl (by decide)
    simp only [SubAck.occs]
    rw [hv, hups]; rfl

theorem E_suback (k : Nat) (p : SubAck) (h : p.InDomain k) :
    (SubAck.abs k p).Legal ∧ (SubAck.abs k p).unparse = p.encode ∧ (SubAck.abs k p).kind = k
    ∧ (SubAck.abs k p).view = p.view ∧ (SubAck.abs k p).firstByte = p.fixed := by
  obtain ⟨hk, hfix, hr, hu, hne, hlen⟩ := h
  obtain ⟨⟨hl, hbl⟩, h2, h3, h4, h5⟩ := E_suback_L k p ⟨hk, hfix, hr, hu, hlen⟩
  refine ⟨⟨?_, hbl⟩, h2, h3, h4, h5⟩
  simp only [SubAck.abs, SPacket.legal, SPacket.legalL, Bool.and_eq_true] at hl ⊢
  refine ⟨hl, ?_⟩
  cases hc : p.reasonCodes <;> simp_all

/-! ## PINGREQ, PINGRESP -/

theorem E_ping (k : Nat) (p : Ping) (h : p.InDomain k) :
    (SPacket.ping k).Legal ∧ (SPacket.ping k).unparse = p.encode ∧ (SPacket.ping k).view = p.view
    ∧ (SPacket.ping k).firstByte = p.fixed := by
  obtain ⟨hk, hfix⟩ := h
  refine ⟨⟨?_, by simp [SPacket.body]⟩, ?_, rfl, by simp [SPacket.firstByte, hfix]⟩
  · rcases hk with rfl | rfl <;> decide
  · simp [SPacket.unparse, Spec.mkFrame, SPacket.body, SPacket.firstByte, Ping.encode, hfix]

/-! ## DISCONNECT -/

def Disconnect.fields (p : Disconnect) : List (UInt8 × WVal) :=
  [(0x11, .u32 p.sessionExpiryInterval), (0x1f, .bin p.reasonString), (0x1c, .bin p.serverReference)]
def Disconnect.occs (p : Disconnect) : List PropOcc := occsOf p.fields ++ upOccs p.userProps
def Disconnect.abs (p : Disconnect) : SPacket :=
  .disconnect (if p.reasonCode = 0 ∧ p.occs = [] then .bare else .full) p.reasonCode p.occs

theorem Disconnect.props_eq (p : Disconnect) (h : UpsInRange p.userProps) : p.props = propBytes p.occs := by
  rw [(Tie.M2_disconnect p), encFields_eq, encUserProps_eq _ (ups_keys _ h), ← propBytes_append]; rfl

theorem occsOf_nil_iff (fs : List (UInt8 × WVal)) : occsOf fs = [] ↔ ∀ f ∈ fs, f.2.isZero = true := by
  simp [occsOf, List.filter_eq_nil_iff]

theorem E_disconnect (p : Disconnect) (h : p.InDomain) :
    p.abs.Legal ∧ p.abs.unparse = p.encode ∧ p.abs.view = (Packet.disconnect p).view := by
  obtain ⟨hfix, hr1, hr2, hu, hlen⟩ := h
  have hprops := p.props_eq hu
  have hleg : propsLegal 14 p.occs = true := by
    apply occs_legalK 14 p.fields p.userProps [(0x11, .u32), (0x1f, .bin), (0x1c, .bin)] rfl (by decide) (by decide) (by decide) (by decide)
    · intro f hf
      simp only [Disconnect.fields, List.mem_cons, List.mem_nil_iff, or_false] at hf
      rcases hf with rfl | rfl | rfl
      · rfl
      · exact strOK_range _ hr1
      · exact strOK_range _ hr2
    · exact hu
  have hnil : p.props = [] ↔ p.occs = [] := by rw [hprops]; exact propBytes_eq_nil _
  have hbody : p.abs.body = p.body := by
    simp only [Disconnect.abs, SPacket.body, Disconnect.body]
    by_cases hc : p.reasonCode = 0 ∧ p.occs = []
    · have : p.reasonCode = 0 ∧ p.props = [] := ⟨hc.1, hnil.mpr hc.2⟩
      simp [hc, this]
    · have : ¬ (p.reasonCode = 0 ∧ p.props = []) := fun e => hc ⟨e.1, hnil.mp e.2⟩
      simp only [hc, this, if_false]
      rw [hprops]; simp [propSection]
  refine ⟨⟨?_, by rw [hbody]; exact hlen⟩, ?_, ?_⟩
  · simp only [Disconnect.abs, SPacket.legal, hleg, Bool.true_and]
    by_cases hc : p.reasonCode = 0 ∧ p.occs = []
    · simp [hc, Spec.SPacket.formLegal]
    · simp [hc, Spec.SPacket.formLegal]
  · simp only [SPacket.unparse, Spec.mkFrame, hbody, Disconnect.encode, frame]
    simp [Disconnect.abs, SPacket.firstByte, hfix]
  · simp only [Disconnect.abs, SPacket.view, Packet.view, Disconnect.view]
    have v1 := propVal_fieldsK p.fields p.userProps [(0x11, .u32), (0x1f, .bin), (0x1c, .bin)] rfl 0x1f (.s []) (by decide) (by decide)
      (.bin p.reasonString) (by simp [Disconnect.fields]) (bin_zero _)
    have v2 := propVal_fieldsK p.fields p.userProps [(0x11, .u32), (0x1f, .bin), (0x1c, .bin)] rfl 0x1c (.s []) (by decide) (by decide)
      (.bin p.serverReference) (by simp [Disconnect.fields]) (bin_zero _)
    have v3 := propVal_fieldsK p.fields p.userProps [(0x11, .u32), (0x1f, .bin), (0x1c, .bin)] rfl 0x11 (.n 0) (by decide) (by decide)
      (.u32 p.sessionExpiryInterval) (by simp [Disconnect.fields]) (u32_zero _)
    have hups := userPropsOf_occsK p.fields p.userProps [(0x11, .u32), (0x1f, .bin), (0x1c, .bin)] rfl (by decide)
    by_cases hc : p.reasonCode = 0 ∧ p.occs = []
    · have hz := (occsOf_nil_iff _).mp (List.append_eq_nil_iff.mp hc.2).1
      have hu0 : p.userProps = [] := (upOccs_eq_nil _).mp (List.append_eq_nil_iff.mp hc.2).2
      have z1 := hz (0x11, .u32 p.sessionExpiryInterval) (by simp [Disconnect.fields])
      have z2 := hz (0x1f, .bin p.reasonString) (by simp [Disconnect.fields])
      have z3 := hz (0x1c, .bin p.serverReference) (by simp [Disconnect.fields])
      simp only [WVal.isZero, beq_iff_eq, List.isEmpty_iff] at z1 z2 z3
      simp [hc, z1, z2, z3, hu0, propVal, userPropsOf]
    · simp only [hc, if_false, reduceCtorEq, if_true]
      simp only [Disconnect.occs] at v1 v2 v3 hups ⊢
      rw [v1, v2, v3, hups]; rfl

/-! ## AUTH -/

def Auth.fields (p : Auth) : List (UInt8 × WVal) :=
  [(0x15, .bin p.authMethod), (0x16, .bin p.authData), (0x1f, .bin p.reasonString)]
def Auth.occs (p : Auth) : List PropOcc := occsOf p.fields ++ upOccs p.userProps
def Auth.abs (p : Auth) : SPacket :=
  .auth (if p.reasonCode = 0 ∧ p.occs = [] then .bare else .full) p.reasonCode p.occs

theorem Auth.props_eq (p : Auth) (h : UpsInRange p.userProps) : p.props = propBytes p.occs := by
  rw [(Tie.M2_auth p), encFields_eq, encUserProps_eq _ (ups_keys _ h), ← propBytes_append]; rfl

theorem E_auth (p : Auth) (h : p.InDomain) :
    p.abs.Legal ∧ p.abs.unparse = p.encode ∧ p.abs.view = (Packet.auth p).view := by
  obtain ⟨hfix, hr1, hr2, hr3, hu, hlen⟩ := h
  have hprops := p.props_eq hu
  have hleg : propsLegal 15 p.occs = true := by
    apply occs_legalK 15 p.fields p.userProps [(0x15, .bin), (0x16, .bin), (0x1f, .bin)] rfl (by decide) (by decide) (by decide) (by decide)
    · intro f hf
      simp only [Auth.fields, List.mem_cons, List.mem_nil_iff, or_false] at hf
      rcases hf with rfl | rfl | rfl
      · exact strOK_range _ hr2
      · exact strOK_range _ hr3
      · exact strOK_range _ hr1
    · exact hu
  have hnil : p.props = [] ↔ p.occs = [] := by rw [hprops]; exact propBytes_eq_nil _
  have hbody : p.abs.body = p.body := by
    simp only [Auth.abs, SPacket.body, Auth.body]
    by_cases hc : p.reasonCode = 0 ∧ p.occs = []
    · have : p.reasonCode = 0 ∧ p.props = [] := ⟨hc.1, hnil.mpr hc.2⟩
      simp [hc, this]
    · have : ¬ (p.reasonCode = 0 ∧ p.props = []) := fun e => hc ⟨e.1, hnil.mp e.2⟩
      simp only [hc, this, if_false]
      rw [hprops]; simp [propSection]
  refine ⟨⟨?_, by rw [hbody]; exact hlen⟩, ?_, ?_⟩
  · simp only [Auth.abs, SPacket.legal, hleg, Bool.true_and]
    by_cases hc : p.reasonCode = 0 ∧ p.occs = []
    · simp [hc, Spec.SPacket.formLegal]
    · simp [hc, Spec.SPacket.formLegal]
  · simp only [SPacket.unparse, Spec.mkFrame, hbody, Auth.encode, frame]
    simp [Auth.abs, SPacket.firstByte, hfix]
  · simp only [Auth.abs, SPacket.view, Packet.view, Auth.view]
    have v1 := propVal_fieldsK p.fields p.userProps [(0x15, .bin), (0x16, .bin), (0x1f, .bin)] rfl 0x16 (.s []) (by decide) (by decide)
      (.bin p.authData) (by simp [Auth.fields]) (bin_zero _)
    have v2 := propVal_fieldsK p.fields p.userProps [(0x15, .bin), (0x16, .bin), (0x1f, .bin)] rfl 0x15 (.s []) (by decide) (by decide)
      (.bin p.authMethod) (by simp [Auth.fields]) (bin_zero _)
    have v3 := propVal_fieldsK p.fields p.userProps [(0x15, .bin), (0x16, .bin), (0x1f, .bin)] rfl 0x1f (.s []) (by decide) (by decide)
      (.bin p.reasonString) (by simp [Auth.fields]) (bin_zero _)
    have hups := userPropsOf_occsK p.fields p.userProps [(0x15, .bin), (0x16, .bin), (0x1f, .bin)] rfl (by decide)
    by_cases hc : p.reasonCode = 0 ∧ p.occs = []
    · have hz := (occsOf_nil_iff _).mp (List.append_eq_nil_iff.mp hc.2).1
      have hu0 : p.userProps = [] := (upOccs_eq_nil _).mp (List.append_eq_nil_iff.mp hc.2).2
      have z1 := hz (0x15, .bin p.authMethod) (by simp [Auth.fields])
      have z2 := hz (0x16, .bin p.authData) (by simp [Auth.fields])
      have z3 := hz (0x1f, .bin p.reasonString) (by simp [Auth.fields])
      simp only [WVal.isZero, List.isEmpty_iff] at z1 z2 z3
      simp [hc, z1, z2, z3, hu0, propVal, userPropsOf]
    · simp only [hc, if_false, reduceCtorEq, if_true]
      simp only [Auth.occs] at v1 v2 v3 hups ⊢
      rw [v1, v2, v3, hups]; rfl

/-! ## SUBSCRIBE -/

def Subscribe.fields (p : Subscribe) : List (UInt8 × WVal) :=
  match p.subscriptionID with
  | some v => [(0x0b, .vb v)]
  | none => []
def Subscribe.occs (p : Subscribe) : List PropOcc := occsOf p.fields ++ upOccs p.userProps
def Subscribe.abs (p : Subscribe) : SPacket :=
  .subscribe p.packetID p.occs (p.filters.map fun f => (f.filter, f.options))

theorem Subscribe.props_eq (p : Subscribe) (h : UpsInRange p.userProps) : p.props = propBytes p.occs := by
  have : p.props = encFields p.fields ++ encUserProps p.userProps := by
    unfold Subscribe.props Subscribe.fields
    cases p.subscriptionID <;> simp [encFields]
  rw [this, encFields_eq, encUserProps_eq _ (ups_keys _ h), ← propBytes_append]; rfl

theorem subIDLast_ups (ps : List PropOcc) (ups : UserProps) : Spec.subIDLast (ps ++ upOccs ups) = Spec.subIDLast ps := by
  unfold Spec.subIDLast
  rw [List.foldl_append]
  generalize List.foldl _ none ps = cur
  induction ups generalizing cur with
  | nil => rfl
  | cons kv ups ih => simp only [upOccs, List.map_cons, List.foldl_cons] at ih ⊢; exact ih cur

theorem E_subscribe_L (p : Subscribe) (h : p.InDomainL) :
    p.abs.LegalL ∧ p.abs.unparse = p.encode ∧ p.abs.view = (Packet.subscribe p).view := by
  obtain ⟨hfix, hsub, hu, hne, hfs, hlen⟩ := h
  have hprops := p.props_eq hu
  have hleg : propsLegal 8 p.occs = true := by
    unfold Subscribe.occs Subscribe.fields
    cases hs : p.subscriptionID with
    | none => exact occs_legalK 8 [] p.userProps [] rfl (by decide) (by decide) (by decide) (by decide) (by intro f hf; simp at hf) hu
    | some v =>
      apply occs_legalK 8 [(0x0b, .vb v)] p.userProps [(0x0b, .vb)] rfl (by decide) (by decide) (by decide) (by decide)
      · intro f hf; simp only [List.mem_singleton] at hf; subst hf
        have := (hsub v hs).2
        simpa [Spec.valInRange] using this
      · exact hu
  have hpay : (p.filters.map fun f => (f.filter, f.options)).flatMap (fun f => encBin f.1 ++ [f.2]) = p.payload := by
    simp only [Subscribe.payload, List.flatMap_map]; rfl
  have hbody : p.abs.body = p.body := by
    simp only [Subscribe.abs, SPacket.body, Subscribe.body, hprops, propSection, hpay]
    simp
  refine ⟨⟨?_, by rw [hbody]; exact hlen⟩, ?_, ?_⟩
  · simp only [Subscribe.abs, SPacket.legalL, hleg, Bool.true_and, Bool.and_eq_true, List.all_eq_true]
    constructor
    · cases hf : p.filters <;> simp_all
    · intro f hf
      simp only [List.mem_map] at hf
      obtain ⟨g, hg, rfl⟩ := hf
      simpa [Spec.SPacket.strOK, strOK] using hfs g hg
  · simp only [SPacket.unparse, Spec.mkFrame, hbody, Subscribe.encode, frame]
    simp [Subscribe.abs, SPacket.firstByte, hfix]
  · simp only [Subscribe.abs, SPacket.view, Packet.view, Subscribe.view]
    have hups : userPropsOf p.occs = p.userProps := by
      unfold Subscribe.occs Subscribe.fields
      cases p.subscriptionID with
      | none => exact userPropsOf_occsK [] p.userProps [] rfl (by decide)
      | some v => exact userPropsOf_occsK [(0x0b, .vb v)] p.userProps [(0x0b, .vb)] rfl (by decide)
    have hsid : Spec.subIDLast p.occs = p.subscriptionID := by
      unfold Subscribe.occs Subscribe.fields
      rw [subIDLast_ups]
      cases hs : p.subscriptionID with
      | none => rfl
      | some v =>
        have hv : v ≠ 0 := by have := (hsub v hs).1; omega
        have : occsOf [((0x0b : UInt8), WVal.vb v)] = [⟨0x0b, .vb v⟩] := by simp [occsOf, WVal.isZero, hv]
        simp only [this, Spec.subIDLast, List.foldl_cons, List.foldl_nil, if_true]
    rw [hups, hsid]
    cases hs : p.subscriptionID <;> simp [Subscribe.subscriptionIDInt, hs]

theorem E_subscribe (p : Subscribe) (h : p.InDomain) :
    p.abs.Legal ∧ p.abs.unparse = p.encode ∧ p.abs.view = (Packet.subscribe p).view := by
  obtain ⟨hfix, hsub, hu, hne, hfs, hlen⟩ := h
  obtain ⟨⟨hl, hbl⟩, h2, h3⟩ := E_subscribe_L p ⟨hfix, hsub, hu, hne, fun f hf => (hfs f hf).1, hlen⟩
  refine ⟨⟨?_, hbl⟩, h2, h3⟩
  simp only [Subscribe.abs, SPacket.legal, SPacket.legalL, Bool.and_eq_true, List.all_eq_true] at hl ⊢
  refine ⟨hl.1, ?_⟩
  intro f hf
  have hs := hl.2 f hf
  simp only [List.mem_map] at hf
  obtain ⟨g, hg, rfl⟩ := hf
  obtain ⟨_, b2, b3, b4⟩ := hfs g hg
  simp only [Bool.and_eq_true, beq_iff_eq, bne_iff_ne, ne_eq]
  exact ⟨⟨⟨hs, b2⟩, b3⟩, b4⟩

/-! ## UNSUBSCRIBE -/

def Unsubscribe.abs (p : Unsubscribe) : SPacket := .unsubscribe p.packetID (upOccs p.userProps) p.filters

theorem E_unsubscribe (p : Unsubscribe) (h : p.InDomain) :
    p.abs.Legal ∧ p.abs.unparse = p.encode ∧ p.abs.view = (Packet.unsubscribe p).view := by
  obtain ⟨hfix, hu, hne, hfs, hlen⟩ := h
  have hprops : p.props = propBytes (upOccs p.userProps) := encUserProps_eq _ (ups_keys _ hu)
  have hleg : propsLegal 10 (upOccs p.userProps) = true := by
    have := occs_legalK 10 [] p.userProps [] rfl (by decide) (by decide) (by decide) (by decide) (by intro f hf; simp at hf) hu
    simpa [occsOf] using this
  have hbody : p.abs.body = p.body := by
    simp only [Unsubscribe.abs, SPacket.body, Unsubscribe.body, hprops, propSection, Unsubscribe.payload]
    simp
  refine ⟨⟨?_, by rw [hbody]; exact hlen⟩, ?_, ?_⟩
  · simp only [Unsubscribe.abs, SPacket.legal, hleg, Bool.true_and, Bool.and_eq_true, List.all_eq_true]
    constructor
    · cases hf : p.filters <;> simp_all
    · intro f hf; simpa [Spec.SPacket.strOK, strOK] using hfs f hf
  · simp only [SPacket.unparse, Spec.mkFrame, hbody, Unsubscribe.encode, frame]
    simp [Unsubscribe.abs, SPacket.firstByte, hfix]
  · simp only [Unsubscribe.abs, SPacket.view, Packet.view, Unsubscribe.view, userPropsOf_upOccs]

end Mq
