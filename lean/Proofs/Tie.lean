import Proofs.Tie.Decode
import Proofs.Tie.Encode
import Proofs.Tie.Consts
import Proofs.Tie.Render
import Proofs.Tie.ReadOnly
import Proofs.Tie.Retain
import Proofs.Tie.MapRanges
