import Mq.Packet
/-!
# Proofs.EncodeFields — each `props` of the model as a field list (no source facts involved)
-/
namespace Mq.Tie
open Mq

def encFields (fs : List (UInt8 × WVal)) : Bytes := fs.flatMap fun f => encPropOpt f.1 f.2
def kinds (fs : List (UInt8 × WVal)) : List (UInt8 × WKind) := fs.map fun f => (f.1, f.2.kind)
def up : List (UInt8 × WKind) := [(38, .pair)]

def connectFields (p : Connect) : List (UInt8 × WVal) :=
  [(0x21, .u16 p.receiveMax), (0x11, .u32 p.sessionExpiryInterval), (0x27, .u32 p.maxPacketSize),
   (0x22, .u16 p.topicAliasMax), (0x19, .bool p.requestResponseInfo), (0x17, .bool p.requestProblemInfo),
   (0x15, .bin p.authMethod), (0x16, .bin p.authData)]
theorem M2_connect (p : Connect) : p.props = encFields (connectFields p) ++ encUserProps p.userProps := by
  simp [Connect.props, encFields, connectFields]

def willFields (p : Connect) (w : Publish) : List (UInt8 × WVal) :=
  [(0x18, .u32 p.willDelayInterval), (0x01, .bool w.payloadFormat), (0x02, .u32 w.messageExpiryInterval),
   (0x03, .bin w.contentType), (0x08, .bin w.responseTopic), (0x09, .bin w.correlationData)]
theorem M2_will (p : Connect) (w : Publish) : p.willProps w = encFields (willFields p w) ++ encUserProps w.userProps := by
  simp [Connect.willProps, encFields, willFields]

def connackFields (p : ConnAck) : List (UInt8 × WVal) :=
  [(0x21, .u16 p.receiveMax), (0x11, .u32 p.sessionExpiryInterval), (0x24, .u8 p.maxQoS),
   (0x25, .bool p.retainAvailable), (0x27, .u32 p.maxPacketSize), (0x12, .bin p.assignedClientID),
   (0x22, .u16 p.topicAliasMax), (0x1f, .bin p.reasonString), (0x28, .bool p.wildcardSubAvailable),
   (0x29, .bool p.subIdentifiersAvailable), (0x2a, .bool p.sharedSubAvailable), (0x13, .u16 p.serverKeepAlive),
   (0x1a, .bin p.responseInformation), (0x1c, .bin p.serverReference), (0x15, .bin p.authMethod),
   (0x16, .bin p.authData)]
theorem M2_connack (p : ConnAck) : p.props = encFields (connackFields p) ++ encUserProps p.userProps := by
  simp [ConnAck.props, encFields, connackFields]

def publishFields (p : Publish) : List (UInt8 × WVal) :=
  [(0x01, .bool p.payloadFormat), (0x02, .u32 p.messageExpiryInterval), (0x23, .u16 p.topicAlias),
   (0x08, .bin p.responseTopic), (0x09, .bin p.correlationData), (0x03, .bin p.contentType)]
theorem M2_publish (p : Publish) :
    p.props = encFields (publishFields p) ++ encUserProps p.userProps
      ++ p.subscriptionIDs.flatMap (fun v => encPropOpt 0x0b (.vb v.toNat)) := by
  simp [Publish.props, encFields, publishFields]

theorem M2_acks (p : Ack) : p.props = encFields [(0x1f, .bin p.reason)] ++ encUserProps p.userProps := by
  simp [Ack.props, encFields]

theorem M2_disconnect (p : Disconnect) :
    p.props = encFields [(0x11, .u32 p.sessionExpiryInterval), (0x1f, .bin p.reasonString), (0x1c, .bin p.serverReference)]
      ++ encUserProps p.userProps := by
  simp [Disconnect.props, encFields]

theorem M2_auth (p : Auth) :
    p.props = encFields [(0x15, .bin p.authMethod), (0x16, .bin p.authData), (0x1f, .bin p.reasonString)]
      ++ encUserProps p.userProps := by
  simp [Auth.props, encFields]

end Mq.Tie
