import Props.Domain
/-!
# Proofs.Reach — what the constructors and setters maintain

The C01/C02 domains (`Props/Domain.lean`) are predicates over packet *values*. The properties
quantify over packets "built with the public constructors and setters using values inside MQTT's
limits". This file connects the two: `SetOp.OK` says an API call's argument is within the limits,
`X.Reach` is the invariant the API maintains for packet type `X`, and `reach_*` show that every
history `New…(); op₁; …; opₙ` of in-limit calls ends in a packet satisfying it. `Props/Reach.lean`
then derives the domain predicates from `Reach` plus the conditions on the *final* packet that no
single call can guarantee (total size, at least one filter, …).
-/
namespace Mq

/-- the message handed to `SetWill`: a PUBLISH within the limits that carries only what a will
message can carry (no DUP, no packet identifier, no topic alias, no subscription identifiers) and
whose payload fits the will payload's two-byte length -/
def WillArgOK (w : Publish) : Prop :=
  w.fixed &&& 0xf0 = 0x30 ∧ w.duplicate = false ∧ w.qos ≤ 2 ∧ w.packetID = 0 ∧ w.topicAlias = 0 ∧ w.subscriptionIDs = []
  ∧ strOK w.topicName ∧ strOK w.payload ∧ strOK w.responseTopic ∧ strOK w.correlationData ∧ strOK w.contentType
  ∧ UpsInRange w.userProps

/-- the argument of one API call is inside MQTT's limits -/
def SetOp.OK : SetOp → Prop
  | .setWill w => WillArgOK w
  | .setProtocolName v | .setClientID v | .setAuthMethod v | .setAuthData v | .setUsername v | .setPassword v
  | .setAssignedClientID v | .setReasonString v | .setResponseInformation v | .setServerReference v
  | .setTopicName v | .setResponseTopic v | .setCorrelationData v | .setContentType v | .addFilter v => strOK v
  | .addUserProp k v => k ≠ [] ∧ strOK k ∧ strOK v
  | .setQoS v => v ≤ 2
  | .addSubscriptionID v => 1 ≤ v.toNat ∧ v.toNat < 268435456
  | .setSubscriptionID v => 1 ≤ v ∧ v < 268435456
  | .addFilters fs => ∀ f ∈ fs, strOK f.filter
  | _ => True

theorem ups_snoc (ups : UserProps) (k v : Bytes) (h : UpsInRange ups) (hk : k ≠ [] ∧ strOK k ∧ strOK v) :
    UpsInRange (ups ++ [(k, v)]) := by
  intro kv hkv
  rcases List.mem_append.mp hkv with h1 | h1
  · exact h kv h1
  · simp only [List.mem_singleton] at h1; subst h1; exact hk

theorem ups_nil : UpsInRange [] := fun _ h => by cases h

theorem all_append {α} (P : α → Prop) (a b : List α) (ha : ∀ x ∈ a, P x) (hb : ∀ x ∈ b, P x) : ∀ x ∈ a ++ b, P x :=
  fun x hx => (List.mem_append.mp hx).elim (ha x) (hb x)

theorem all_snoc {α} (P : α → Prop) (a : List α) (y : α) (ha : ∀ x ∈ a, P x) (hy : P y) : ∀ x ∈ a ++ [y], P x :=
  all_append P a [y] ha (fun x hx => by simp only [List.mem_singleton] at hx; subst hx; exact hy)

theorem toggle_01 (f : UInt8) (v : Bool) (h : f = 0 ∨ f = 1) : toggle f 1 v = 0 ∨ toggle f 1 v = 1 := by
  rcases h with rfl | rfl <;> cases v <;> decide

/-! ## PUBLISH -/

def Publish.Reach (p : Publish) : Prop :=
  p.fixed &&& 0xf0 = 0x30 ∧ p.qos ≤ 2
  ∧ strOK p.topicName ∧ strOK p.responseTopic ∧ strOK p.correlationData ∧ strOK p.contentType
  ∧ UpsInRange p.userProps ∧ (∀ v ∈ p.subscriptionIDs, 1 ≤ v.toNat ∧ v.toNat < 268435456)

theorem publish_fixed_setters : ∀ n : Fin 256, ∀ v : Bool,
    let f := UInt8.ofNat n.val
    let q := fun (g : UInt8) => (if has g 6 then 3 else if has g 2 then 1 else if has g 4 then 2 else 0 : UInt8)
    f &&& 0xf0 = 0x30 → q f ≤ 2 →
      (toggle f 8 v &&& 0xf0 = 0x30 ∧ q (toggle f 8 v) ≤ 2) ∧ (toggle f 1 v &&& 0xf0 = 0x30 ∧ q (toggle f 1 v) ≤ 2)
      ∧ ((f &&& ~~~(6 : UInt8)) &&& 0xf0 = 0x30 ∧ q (f &&& ~~~(6 : UInt8)) ≤ 2)
      ∧ (((f &&& ~~~(6 : UInt8)) ||| 2) &&& 0xf0 = 0x30 ∧ q ((f &&& ~~~(6 : UInt8)) ||| 2) ≤ 2)
      ∧ (((f &&& ~~~(6 : UInt8)) ||| 4) &&& 0xf0 = 0x30 ∧ q ((f &&& ~~~(6 : UInt8)) ||| 4) ≤ 2) := by
  decide +kernel

theorem Publish.new_reach : Publish.new.Reach := by
  refine ⟨by decide, by decide, by unfold strOK; decide, by unfold strOK; decide, by unfold strOK; decide,
    by unfold strOK; decide, ups_nil, fun v hv => by cases hv⟩

theorem Publish.apply_reach (p q : Publish) (op : SetOp) (h : p.apply op = some q) (hok : op.OK) (hr : p.Reach) :
    q.Reach := by
  obtain ⟨r1, r2, r3, r4, r5, r6, r7, r8⟩ := hr
  have tb := fun v => publish_fixed_setters ⟨p.fixed.toNat, p.fixed.toNat_lt⟩ v
  simp only [UInt8.ofNat_toNat] at tb
  cases op <;> simp only [Publish.apply, Option.some.injEq, reduceCtorEq] at h <;> subst h
  case setDuplicate v => exact ⟨((tb v) r1 r2).1.1, ((tb v) r1 r2).1.2, r3, r4, r5, r6, r7, r8⟩
  case setRetain v => exact ⟨((tb v) r1 r2).2.1.1, ((tb v) r1 r2).2.1.2, r3, r4, r5, r6, r7, r8⟩
  case setQoS v =>
    obtain ⟨_, _, t0, t1, t2⟩ := (tb true) r1 r2
    have hv : v = 0 ∨ v = 1 ∨ v = 2 := by
      have : v.toNat ≤ 2 := by simpa using UInt8.le_iff_toNat_le.mp hok
      rcases (by omega : v.toNat = 0 ∨ v.toNat = 1 ∨ v.toNat = 2) with h | h | h
      · exact Or.inl (UInt8.toNat_inj.mp h)
      · exact Or.inr (Or.inl (UInt8.toNat_inj.mp h))
      · exact Or.inr (Or.inr (UInt8.toNat_inj.mp h))
    refine ⟨?_, ?_, r3, r4, r5, r6, r7, r8⟩
    · rcases hv with rfl | rfl | rfl
      · exact t0.1
      · exact t1.1
      · exact t2.1
    · rcases hv with rfl | rfl | rfl
      · exact t0.2
      · exact t1.2
      · exact t2.2
  case setTopicName v => exact ⟨r1, r2, hok, r4, r5, r6, r7, r8⟩
  case setPacketID v => exact ⟨r1, r2, r3, r4, r5, r6, r7, r8⟩
  case setPayloadFormat v => exact ⟨r1, r2, r3, r4, r5, r6, r7, r8⟩
  case setMessageExpiryInterval v => exact ⟨r1, r2, r3, r4, r5, r6, r7, r8⟩
  case setTopicAlias v => exact ⟨r1, r2, r3, r4, r5, r6, r7, r8⟩
  case setResponseTopic v => exact ⟨r1, r2, r3, hok, r5, r6, r7, r8⟩
  case setCorrelationData v => exact ⟨r1, r2, r3, r4, hok, r6, r7, r8⟩
  case setContentType v => exact ⟨r1, r2, r3, r4, r5, hok, r7, r8⟩
  case setPayload v => exact ⟨r1, r2, r3, r4, r5, r6, r7, r8⟩
  case addUserProp k v => exact ⟨r1, r2, r3, r4, r5, r6, ups_snoc _ k v r7 hok, r8⟩
  case addSubscriptionID v =>
    refine ⟨r1, r2, r3, r4, r5, r6, r7, ?_⟩
    intro x hx
    rcases List.mem_append.mp hx with h1 | h1
    · exact r8 x h1
    · simp only [List.mem_singleton] at h1; subst h1; exact hok

/-! ## ConnAck -/

def ConnAck.Reach (p : ConnAck) : Prop :=
  p.fixed = 0x20 ∧ (p.flags = 0 ∨ p.flags = 1) ∧ strOK p.assignedClientID ∧ strOK p.reasonString ∧ strOK p.responseInformation ∧ strOK p.serverReference ∧ strOK p.authMethod ∧ strOK p.authData ∧ UpsInRange p.userProps

theorem ConnAck.apply_reach (p q : ConnAck) (op : SetOp) (h : p.apply op = some q) (hok : op.OK) (hr : p.Reach) :
    q.Reach := by
  obtain ⟨r1, r2, r3, r4, r5, r6, r7, r8, r9⟩ := hr
  cases op <;> simp only [ConnAck.apply, Option.some.injEq, reduceCtorEq] at h <;> subst h <;>
    (refine ⟨?_, ?_, ?_, ?_, ?_, ?_, ?_, ?_, ?_⟩ <;> first | assumption | exact hok | exact ups_snoc _ _ _ (by assumption) hok | exact toggle_01 _ _ (by assumption) | exact all_append _ _ _ (by assumption) hok | exact all_snoc _ _ _ (by assumption) hok | (intro x hx; cases hx; exact hok))

/-! ## Ack -/

def Ack.Reach (f : UInt8) (p : Ack) : Prop :=
  p.fixed = f ∧ strOK p.reason ∧ UpsInRange p.userProps

theorem Ack.apply_reach (f : UInt8) (p q : Ack) (op : SetOp) (h : p.apply op = some q) (hok : op.OK)
    (hr : p.Reach f) : q.Reach f := by
  obtain ⟨r1, r2, r3⟩ := hr
  cases op <;> simp only [Ack.apply, Option.some.injEq, reduceCtorEq] at h <;> subst h <;>
    (refine ⟨?_, ?_, ?_⟩ <;> first | assumption | exact hok | exact ups_snoc _ _ _ (by assumption) hok | exact toggle_01 _ _ (by assumption) | exact all_append _ _ _ (by assumption) hok | exact all_snoc _ _ _ (by assumption) hok | (intro x hx; cases hx; exact hok))

/-! ## Subscribe -/

def Subscribe.Reach (p : Subscribe) : Prop :=
  p.fixed = 0x82 ∧ (∀ v, p.subscriptionID = some v → 1 ≤ v ∧ v < 268435456) ∧ UpsInRange p.userProps ∧ (∀ f ∈ p.filters, strOK f.filter)

theorem Subscribe.apply_reach (p q : Subscribe) (op : SetOp) (h : p.apply op = some q) (hok : op.OK) (hr : p.Reach) :
    q.Reach := by
  obtain ⟨r1, r2, r3, r4⟩ := hr
  cases op <;> simp only [Subscribe.apply, Option.some.injEq, reduceCtorEq] at h <;> subst h <;>
    (refine ⟨?_, ?_, ?_, ?_⟩ <;> first | assumption | exact hok | exact ups_snoc _ _ _ (by assumption) hok | exact toggle_01 _ _ (by assumption) | exact all_append _ _ _ (by assumption) hok | exact all_snoc _ _ _ (by assumption) hok | (intro x hx; cases hx; exact hok))

/-! ## SubAck -/

def SubAck.Reach (f : UInt8) (p : SubAck) : Prop :=
  p.fixed = f ∧ strOK p.reasonString ∧ UpsInRange p.userProps

theorem SubAck.apply_reach (f : UInt8) (p q : SubAck) (op : SetOp) (h : p.apply op = some q) (hok : op.OK)
    (hr : p.Reach f) : q.Reach f := by
  obtain ⟨r1, r2, r3⟩ := hr
  cases op <;> simp only [SubAck.apply, Option.some.injEq, reduceCtorEq] at h <;> subst h <;>
    (refine ⟨?_, ?_, ?_⟩ <;> first | assumption | exact hok | exact ups_snoc _ _ _ (by assumption) hok | exact toggle_01 _ _ (by assumption) | exact all_append _ _ _ (by assumption) hok | exact all_snoc _ _ _ (by assumption) hok | (intro x hx; cases hx; exact hok))

/-! ## Unsubscribe -/

def Unsubscribe.Reach (p : Unsubscribe) : Prop :=
  p.fixed = 0xa2 ∧ UpsInRange p.userProps ∧ (∀ f ∈ p.filters, strOK f)

theorem Unsubscribe.apply_reach (p q : Unsubscribe) (op : SetOp) (h : p.apply op = some q) (hok : op.OK) (hr : p.Reach) :
    q.Reach := by
  obtain ⟨r1, r2, r3⟩ := hr
  cases op <;> simp only [Unsubscribe.apply, Option.some.injEq, reduceCtorEq] at h <;> subst h <;>
    (refine ⟨?_, ?_, ?_⟩ <;> first | assumption | exact hok | exact ups_snoc _ _ _ (by assumption) hok | exact toggle_01 _ _ (by assumption) | exact all_append _ _ _ (by assumption) hok | exact all_snoc _ _ _ (by assumption) hok | (intro x hx; cases hx; exact hok))

/-! ## Disconnect -/

def Disconnect.Reach (p : Disconnect) : Prop :=
  p.fixed = 0xe0 ∧ strOK p.reasonString ∧ strOK p.serverReference ∧ UpsInRange p.userProps

theorem Disconnect.apply_reach (p q : Disconnect) (op : SetOp) (h : p.apply op = some q) (hok : op.OK) (hr : p.Reach) :
    q.Reach := by
  obtain ⟨r1, r2, r3, r4⟩ := hr
  cases op <;> simp only [Disconnect.apply, Option.some.injEq, reduceCtorEq] at h <;> subst h <;>
    (refine ⟨?_, ?_, ?_, ?_⟩ <;> first | assumption | exact hok | exact ups_snoc _ _ _ (by assumption) hok | exact toggle_01 _ _ (by assumption) | exact all_append _ _ _ (by assumption) hok | exact all_snoc _ _ _ (by assumption) hok | (intro x hx; cases hx; exact hok))

/-! ## Auth -/

def Auth.Reach (p : Auth) : Prop :=
  p.fixed = 0xf0 ∧ strOK p.reasonString ∧ strOK p.authMethod ∧ strOK p.authData ∧ UpsInRange p.userProps

theorem Auth.apply_reach (p q : Auth) (op : SetOp) (h : p.apply op = some q) (hok : op.OK) (hr : p.Reach) :
    q.Reach := by
  obtain ⟨r1, r2, r3, r4, r5⟩ := hr
  cases op <;> simp only [Auth.apply, Option.some.injEq, reduceCtorEq] at h <;> subst h <;>
    (refine ⟨?_, ?_, ?_, ?_, ?_⟩ <;> first | assumption | exact hok | exact ups_snoc _ _ _ (by assumption) hok | exact toggle_01 _ _ (by assumption) | exact all_append _ _ _ (by assumption) hok | exact all_snoc _ _ _ (by assumption) hok | (intro x hx; cases hx; exact hok))

/-! ## CONNECT -/

def Connect.Reach (p : Connect) : Prop :=
  p.fixed = 0x10 ∧ p.FlagsInv
  ∧ (∀ w, p.will = some w → p.WillOK w)
  ∧ (p.will = none → p.willPayload = [] ∧ p.flags &&& 0x3c = 0)
  ∧ strOK p.protocolName ∧ strOK p.clientID ∧ strOK p.authMethod ∧ strOK p.authData ∧ strOK p.username ∧ strOK p.password
  ∧ UpsInRange p.userProps

theorem toggle_keeps_will_bits : ∀ n : Fin 256, ∀ v : Bool,
    let f := UInt8.ofNat n.val
    toggle f 2 v &&& 0x3c = f &&& 0x3c ∧ toggle f 64 v &&& 0x3c = f &&& 0x3c ∧ toggle f 128 v &&& 0x3c = f &&& 0x3c := by
  decide +kernel

theorem toggle_will_bits (f : UInt8) (v : Bool) :
    toggle f 2 v &&& 0x3c = f &&& 0x3c ∧ toggle f 64 v &&& 0x3c = f &&& 0x3c ∧ toggle f 128 v &&& 0x3c = f &&& 0x3c := by
  have := toggle_keeps_will_bits ⟨f.toNat, f.toNat_lt⟩ v
  simpa using this

theorem Connect.setWill_will (p : Connect) (w : Publish) : (p.setWill w).will = some w := rfl
theorem Connect.setWill_willPayload (p : Connect) (w : Publish) : (p.setWill w).willPayload = w.payload := rfl

theorem Connect.new_reach : Connect.new.Reach := by
  have hs : ∀ b : Bytes, b.length < 65536 → strOK b := fun _ h => h
  refine ⟨?_, ?_, ?_, ?_, hs _ (by decide), hs _ (by decide), hs _ (by decide), hs _ (by decide), hs _ (by decide),
    hs _ (by decide), ups_nil⟩
  · rfl
  · exact Connect.new_inv
  · intro w hw; cases hw
  · intro _; exact ⟨rfl, by decide⟩

theorem Connect.apply_reach (p q : Connect) (op : SetOp) (h : p.apply op = some q) (hok : op.OK) (hr : p.Reach) :
    q.Reach := by
  obtain ⟨r1, r2, r3, r4, r5, r6, r7, r8, r9, r10, r11⟩ := hr
  have hfi : q.FlagsInv := Connect.apply_inv p q op h r2
  cases op <;> simp only [Connect.apply, Option.some.injEq, reduceCtorEq] at h <;> subst h
  case setWill w =>
    obtain ⟨a1, a2, a3, a4, a5, a6, a7, a8, a9, a10, a11, a12⟩ := hok
    refine ⟨r1, hfi, ?_, ?_, r5, r6, r7, r8, r9, r10, r11⟩
    · intro w' hw'
      rw [Connect.setWill_will] at hw'
      cases hw'
      exact ⟨a1, a2, a3, a4, a5, a6, rfl, a7, a8, a9, a10, a11, a12⟩
    · intro hx; rw [Connect.setWill_will] at hx; cases hx
  case setCleanStart v =>
    exact ⟨r1, hfi, r3, fun hn => ⟨(r4 hn).1, by
      show toggle p.flags 2 v &&& 0x3c = 0
      rw [(toggle_will_bits p.flags v).1]; exact (r4 hn).2⟩, r5, r6, r7, r8, r9, r10, r11⟩
  case setUsername v =>
    exact ⟨r1, hfi, r3, fun hn => ⟨(r4 hn).1, by
      show toggle p.flags 128 _ &&& 0x3c = 0
      rw [(toggle_will_bits p.flags _).2.2]; exact (r4 hn).2⟩, r5, r6, r7, r8, hok, r10, r11⟩
  case setPassword v =>
    exact ⟨r1, hfi, r3, fun hn => ⟨(r4 hn).1, by
      show toggle p.flags 64 _ &&& 0x3c = 0
      rw [(toggle_will_bits p.flags _).2.1]; exact (r4 hn).2⟩, r5, r6, r7, r8, r9, hok, r11⟩
  all_goals
    (refine ⟨?_, ?_, ?_, ?_, ?_, ?_, ?_, ?_, ?_, ?_, ?_⟩ <;>
      first | assumption | exact hok | exact ups_snoc _ _ _ (by assumption) hok)

/-! ## any packet -/

def Packet.Reach : Packet → Prop
  | .undefined _ => False
  | .connect p => p.Reach | .connack p => p.Reach | .publish p => p.Reach
  | .puback p => p.Reach 0x40 | .pubrec p => p.Reach 0x50 | .pubrel p => p.Reach 0x62 | .pubcomp p => p.Reach 0x70
  | .subscribe p => p.Reach | .suback p => p.Reach 0x90 | .unsuback p => p.Reach 0xb0
  | .unsubscribe p => p.Reach
  | .pingreq p => p.fixed = 0xc0 | .pingresp p => p.fixed = 0xd0
  | .disconnect p => p.Reach | .auth p => p.Reach

theorem Packet.new_reach (k : Nat) (h1 : 1 ≤ k) (h15 : k ≤ 15) : (Packet.new k).Reach := by
  have hs : ∀ b : Bytes, b.length < 65536 → strOK b := fun _ h => h
  have : k = 1 ∨ k = 2 ∨ k = 3 ∨ k = 4 ∨ k = 5 ∨ k = 6 ∨ k = 7 ∨ k = 8 ∨ k = 9 ∨ k = 10 ∨ k = 11 ∨ k = 12 ∨ k = 13
      ∨ k = 14 ∨ k = 15 := by omega
  rcases this with rfl | rfl | rfl | rfl | rfl | rfl | rfl | rfl | rfl | rfl | rfl | rfl | rfl | rfl | rfl
  · exact Connect.new_reach
  · exact ⟨rfl, Or.inl rfl, hs _ (by decide), hs _ (by decide), hs _ (by decide), hs _ (by decide), hs _ (by decide),
      hs _ (by decide), ups_nil⟩
  · exact Publish.new_reach
  · exact ⟨rfl, hs _ (by decide), ups_nil⟩
  · exact ⟨rfl, hs _ (by decide), ups_nil⟩
  · exact ⟨rfl, hs _ (by decide), ups_nil⟩
  · exact ⟨rfl, hs _ (by decide), ups_nil⟩
  · exact ⟨rfl, fun v hv => (by cases hv), ups_nil, fun f hf => (by cases hf)⟩
  · exact ⟨rfl, hs _ (by decide), ups_nil⟩
  · exact ⟨rfl, ups_nil, fun f hf => (by cases hf)⟩
  · exact ⟨rfl, hs _ (by decide), ups_nil⟩
  · exact rfl
  · exact rfl
  · exact ⟨rfl, hs _ (by decide), hs _ (by decide), ups_nil⟩
  · exact ⟨rfl, hs _ (by decide), hs _ (by decide), hs _ (by decide), ups_nil⟩

theorem Packet.apply_reach (p q : Packet) (op : SetOp) (h : p.apply op = some q) (hok : op.OK) (hr : p.Reach) :
    q.Reach := by
  cases p <;> simp only [Packet.apply, Option.map_eq_some_iff, reduceCtorEq] at h <;> obtain ⟨x, hx, rfl⟩ := h
  · exact Connect.apply_reach _ _ op hx hok hr
  · exact ConnAck.apply_reach _ _ op hx hok hr
  · exact Publish.apply_reach _ _ op hx hok hr
  · exact Ack.apply_reach _ _ _ op hx hok hr
  · exact Ack.apply_reach _ _ _ op hx hok hr
  · exact Ack.apply_reach _ _ _ op hx hok hr
  · exact Ack.apply_reach _ _ _ op hx hok hr
  · exact Subscribe.apply_reach _ _ op hx hok hr
  · exact SubAck.apply_reach _ _ _ op hx hok hr
  · exact Unsubscribe.apply_reach _ _ op hx hok hr
  · exact SubAck.apply_reach _ _ _ op hx hok hr
  · exact Disconnect.apply_reach _ _ op hx hok hr
  · exact Auth.apply_reach _ _ op hx hok hr

/-- **every history of in-limit API calls on a freshly constructed packet ends in `Reach`** -/
theorem Packet.applyAll_reach : ∀ (ops : List SetOp) (p q : Packet), p.applyAll ops = some q →
    (∀ op ∈ ops, op.OK) → p.Reach → q.Reach := by
  intro ops
  induction ops with
  | nil => intro p q h _ hr; simp only [Packet.applyAll, Option.some.injEq] at h; subst h; exact hr
  | cons op ops ih =>
    intro p q h hok hr
    simp only [Packet.applyAll] at h
    cases h1 : p.apply op with
    | none => simp [h1] at h
    | some p1 =>
      simp only [h1, Option.bind_some] at h
      exact ih p1 q h (fun o ho => hok o (by simp [ho])) (Packet.apply_reach p p1 op h1 (hok op (by simp)) hr)

end Mq
