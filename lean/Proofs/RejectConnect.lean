import Proofs.RejectPackets
/-!
# Proofs.RejectConnect — a legal CONNECT frame cut strictly inside a field is rejected
-/
namespace Mq
open Spec (SPacket SWill propsLegal propSection StrictlyInside willK)

/-! ## an error set in one stage survives all later stages -/

theorem Connect.readProps_failed (p : Connect) (b : Buf) (h : b.Failed) : (p.readProps b).1.Failed := by
  simp only [Connect.readProps]; exact getAny_failed _ _ _ h

theorem Connect.readClientID_failed (p : Connect) (b : Buf) (h : b.Failed) : (p.readClientID b).1.Failed := by
  simp only [Connect.readClientID]; exact get_failed _ _ _ h

theorem Connect.readWill_failed (p : Connect) (b : Buf) (h : b.Failed) : (p.readWill b).1.Failed := by
  unfold Connect.readWill
  split
  · exact get_failed _ _ _ (get_failed _ _ _ (getAny_failed _ _ _ h))
  · exact h

theorem Connect.readUsername_failed (p : Connect) (b : Buf) (h : b.Failed) : (p.readUsername b).1.Failed := by
  unfold Connect.readUsername
  split
  · exact get_failed _ _ _ h
  · exact h

theorem Connect.readPassword_failed (p : Connect) (b : Buf) (h : b.Failed) : (p.readPassword b).1.Failed := by
  unfold Connect.readPassword
  split
  · exact get_failed _ _ _ h
  · exact h

def Connect.run1 (p : Connect) (d : Bytes) : Buf × Connect := p.readHead { rest := d }
def Connect.run2 (p : Connect) (d : Bytes) : Buf × Connect := (p.run1 d).2.readProps (p.run1 d).1
def Connect.run3 (p : Connect) (d : Bytes) : Buf × Connect := (p.run2 d).2.readClientID (p.run2 d).1
def Connect.run4 (p : Connect) (d : Bytes) : Buf × Connect := (p.run3 d).2.readWill (p.run3 d).1
def Connect.run5 (p : Connect) (d : Bytes) : Buf × Connect := (p.run4 d).2.readUsername (p.run4 d).1
def Connect.run6 (p : Connect) (d : Bytes) : Buf × Connect := (p.run5 d).2.readPassword (p.run5 d).1

theorem Connect.unmarshal_run (p : Connect) (d : Bytes) : (p.unmarshal d).2 = (p.run6 d).1.st := rfl

theorem Connect.fail5 (p : Connect) (d : Bytes) (h : (p.run5 d).1.Failed) : ∃ e, (p.unmarshal d).2 = .err e := by
  rw [Connect.unmarshal_run]; exact Connect.readPassword_failed _ _ h
theorem Connect.fail4 (p : Connect) (d : Bytes) (h : (p.run4 d).1.Failed) : ∃ e, (p.unmarshal d).2 = .err e :=
  Connect.fail5 p d (Connect.readUsername_failed _ _ h)
theorem Connect.fail3 (p : Connect) (d : Bytes) (h : (p.run3 d).1.Failed) : ∃ e, (p.unmarshal d).2 = .err e :=
  Connect.fail4 p d (Connect.readWill_failed _ _ h)
theorem Connect.fail2 (p : Connect) (d : Bytes) (h : (p.run2 d).1.Failed) : ∃ e, (p.unmarshal d).2 = .err e :=
  Connect.fail3 p d (Connect.readClientID_failed _ _ h)
theorem Connect.fail1 (p : Connect) (d : Bytes) (h : (p.run1 d).1.Failed) : ∃ e, (p.unmarshal d).2 = .err e :=
  Connect.fail2 p d (Connect.readProps_failed _ _ h)

/-! ## the stages on their encoded input, followed by anything -/

def Connect.P1 (fl : UInt8) (ka : UInt16) : Connect :=
  { fixed := 0x10, protocolName := Connect.mqtt5, protocolVersion := 5, flags := fl, keepAlive := ka }

theorem Connect.readHead_run (fl : UInt8) (ka : UInt16) (suf : Bytes) :
    Connect.readHead { fixed := 0x10 } { rest := encBin Connect.mqtt5 ++ (5 :: fl :: (encU16 ka ++ suf)), st := .ok }
      = ({ rest := suf, st := .ok }, Connect.P1 fl ka) := by
  simp only [Connect.readHead, get_bin Connect.mqtt5 (by decide), get_u8, get_u16, Connect.P1]

theorem Connect.readProps_run (fl : UInt8) (ka : UInt16) (ps : List PropOcc) (hps : propsLegal 1 ps = true) (suf : Bytes)
    (hsl : (ps.flatMap encOcc).length < 268435456) :
    (Connect.P1 fl ka).readProps { rest := propSection ps ++ suf, st := .ok }
      = ({ rest := suf, st := .ok }, ps.foldl Connect.applyOcc (Connect.P1 fl ka)) := by
  simp only [Connect.readProps]
  rw [getAny_spec 1 Connect.table Connect.agree ps hps (Connect.binInit (Connect.P1 fl ka))
    (by intro id; simp only [Connect.binInit, Connect.P1]; split <;> (try split) <;> rfl) _ hsl]

/-- what is known of the packet after the property stage -/
theorem Connect.P2_facts (fl : UInt8) (ka : UInt16) (ps : List PropOcc) :
    let P2 := ps.foldl Connect.applyOcc (Connect.P1 fl ka)
    P2.flags = fl ∧ P2.clientID = [] ∧ P2.username = [] ∧ P2.password = [] ∧ P2.willPayload = [] := by
  obtain ⟨ff, _, _, _, _, fcid, fun_, fpw, _, fwp, _⟩ := Connect.fold_frame ps (Connect.P1 fl ka)
  exact ⟨ff, fcid, fun_, fpw, fwp⟩

/-- the optional user name / password at the end of the payload, cut inside one of them -/
theorem Connect.tail_cut (p : Connect) (user pass : Option Bytes)
    (hfu : has p.flags Connect.fUsername = user.isSome) (hfp : has p.flags Connect.fPassword = pass.isSome)
    (hu0 : p.username = []) (hp0 : p.password = [])
    (huok : ∀ x, user = some x → x.length < 65536) (hpok : ∀ x, pass = some x → x.length < 65536)
    (c : Nat)
    (hc : StrictlyInside (Spec.optLens user ++ Spec.optLens pass) c) :
    ((p.readUsername { rest := (optField user ++ (optField pass ++ [])).take c, st := .ok }).2.readPassword
      (p.readUsername { rest := (optField user ++ (optField pass ++ [])).take c, st := .ok }).1).1.Failed := by
  have ou : ∀ x : Bytes, optField (some x) = encBin x := fun _ => rfl
  have on : optField none = [] := rfl
  have lu : ∀ x : Bytes, Spec.optLens (some x) = [((encBin x).length, true)] := fun _ => rfl
  have ln : Spec.optLens none = [] := rfl
  cases user with
  | none =>
    simp only [Option.isSome_none] at hfu
    simp only [List.nil_append, on, ln] at hc ⊢
    have hru : ∀ b, p.readUsername b = (b, p) := by intro b; simp [Connect.readUsername, hfu]
    rw [hru]
    cases pass with
    | none => exact absurd hc (strictlyInside_nil _)
    | some x =>
      simp only [Option.isSome_some] at hfp
      simp only [lu] at hc
      rcases strictlyInside_cons _ _ _ hc with ⟨_, h1, h2⟩ | ⟨_, hc⟩
      · simp only [] at h1 h2
        simp only [ou, List.append_nil, Connect.readPassword, hfp, if_true,
          get_bin_cut x p.password p.password (hpok x rfl) c h1 h2]
        exact ⟨_, rfl⟩
      · exact absurd hc (strictlyInside_nil _)
  | some u =>
    simp only [Option.isSome_some] at hfu
    simp only [List.cons_append, List.nil_append, ou, lu] at hc ⊢
    rcases strictlyInside_cons _ _ _ hc with ⟨_, h1, h2⟩ | ⟨h1, hc⟩
    · -- inside the user name
      simp only [] at h1 h2
      have hb : (encBin u ++ (optField pass ++ [])).take c = (encBin u).take c := by
        rw [List.take_append_of_le_length (by omega)]
      rw [hb]
      apply Connect.readPassword_failed
      simp only [Connect.readUsername, hfu, if_true, get_bin_cut u p.username p.username (huok u rfl) c h1 h2]
      exact ⟨_, rfl⟩
    · simp only [] at h1
      obtain ⟨c1, rfl⟩ : ∃ c1, c = (encBin u).length + c1 := ⟨c - (encBin u).length, by omega⟩
      rw [Nat.add_sub_cancel_left] at hc
      cases pass with
      | none => exact absurd hc (strictlyInside_nil _)
      | some x =>
        simp only [Option.isSome_some] at hfp
        simp only [lu] at hc
        rcases strictlyInside_cons _ _ _ hc with ⟨_, h3, h4⟩ | ⟨_, hc⟩
        · simp only [] at h3 h4
          have hb : (encBin u ++ (optField (some x) ++ [])).take ((encBin u).length + c1) = encBin u ++ (encBin x).take c1 := by
            rw [ou, take_pre_add _ _ _ _ (by omega)]
          rw [hb]
          have hru : p.readUsername { rest := encBin u ++ (encBin x).take c1, st := .ok }
              = ({ rest := (encBin x).take c1, st := .ok }, { p with username := u }) := by
            simp only [Connect.readUsername, hfu, if_true, hu0, get_bin u (huok u rfl)]
          rw [hru]
          have hfp' : has ({ p with username := u } : Connect).flags Connect.fPassword = true := hfp
          simp only [Connect.readPassword, hfp', if_true,
            get_bin_cut x ({ p with username := u } : Connect).password ({ p with username := u } : Connect).password
              (hpok x rfl) c1 h3 h4]
          exact ⟨_, rfl⟩
        · exact absurd hc (strictlyInside_nil _)

/-- the will section of the payload, cut inside the will properties, the will topic or the will payload -/
theorem Connect.will_cut (p : Connect) (w : SWill) (hflag : has p.flags Connect.fWillFlag = true) (hwp : p.willPayload = [])
    (hl : propsLegal willK w.props = true) (ht : w.topic.length < 65536) (hp : w.payload.length < 65536)
    (hlen : (propSection w.props).length < 268435456) (c : Nat)
    (hc : StrictlyInside [((propSection w.props).length, true), ((encBin w.topic).length, true), ((encBin w.payload).length, true)] c) :
    (p.readWill { rest := (propSection w.props ++ (encBin w.topic ++ encBin w.payload)).take c, st := .ok }).1.Failed := by
  have hslw : (w.props.flatMap encOcc).length < 268435456 := by
    have := section_len_le w.props; omega
  unfold Connect.readWill
  simp only [hflag, if_true, hwp]
  rcases strictlyInside_cons _ _ _ hc with ⟨_, h1, h2⟩ | ⟨h1, hc⟩
  · simp only [] at h1 h2
    have hb : (propSection w.props ++ (encBin w.topic ++ encBin w.payload)).take c = (propSection w.props).take c := by
      rw [List.take_append_of_le_length (by omega)]
    rw [hb]
    exact get_failed _ _ _ (get_failed _ _ _ (getAny_section_cut _ _ w.props hlen c h1 h2))
  simp only [] at h1
  obtain ⟨c1, rfl⟩ : ∃ c1, c = (propSection w.props).length + c1 := ⟨c - (propSection w.props).length, by omega⟩
  rw [Nat.add_sub_cancel_left] at hc
  rcases strictlyInside_cons _ _ _ hc with ⟨_, h3, h4⟩ | ⟨h3, hc⟩
  · simp only [] at h3 h4
    have hb : (propSection w.props ++ (encBin w.topic ++ encBin w.payload)).take ((propSection w.props).length + c1)
        = propSection w.props ++ (encBin w.topic).take c1 := by
      rw [take_pre_add _ _ _ _ (by omega)]
    rw [hb, getAny_spec willK Connect.willTable Connect.agreeWill w.props hl (fun _ => []) (fun _ => rfl) _ hslw]
    simp only [get_bin_cut w.topic [] [] ht c1 h3 h4]
    exact get_failed _ _ _ ⟨_, rfl⟩
  simp only [] at h3
  obtain ⟨c2, rfl⟩ : ∃ c2, c1 = (encBin w.topic).length + c2 := ⟨c1 - (encBin w.topic).length, by omega⟩
  rw [Nat.add_sub_cancel_left] at hc
  rcases strictlyInside_cons _ _ _ hc with ⟨_, h5, h6⟩ | ⟨_, hc⟩
  · simp only [] at h5 h6
    have hb : (propSection w.props ++ (encBin w.topic ++ encBin w.payload)).take
          ((propSection w.props).length + ((encBin w.topic).length + c2))
        = propSection w.props ++ (encBin w.topic ++ (encBin w.payload).take c2) := by
      have e1 : propSection w.props ++ (encBin w.topic ++ encBin w.payload)
          = (propSection w.props ++ encBin w.topic) ++ (encBin w.payload ++ []) := by simp
      have e2 : (propSection w.props).length + ((encBin w.topic).length + c2)
          = (propSection w.props ++ encBin w.topic).length + c2 := by simp; omega
      rw [e1, e2, take_pre_add _ _ _ _ (by omega)]; simp
    rw [hb, getAny_spec willK Connect.willTable Connect.agreeWill w.props hl (fun _ => []) (fun _ => rfl) _ hslw]
    simp only [get_bin w.topic ht, get_bin_cut w.payload [] [] hp c2 h5 h6]
    exact ⟨_, rfl⟩
  · exact absurd hc (strictlyInside_nil _)

theorem C09a_connect (cs : Bool) (ka : UInt16) (ps : List PropOcc) (cid : Bytes) (will : Option SWill)
    (user pass : Option Bytes) (hl : (SPacket.connect cs ka ps cid will user pass).Legal)
    (c : Nat) (hc0 : StrictlyInside (SPacket.connect cs ka ps cid will user pass).fieldLens c) :
    ∃ e, frameOutcome 0x10 ((SPacket.connect cs ka ps cid will user pass).body.take c) = .err e := by
  obtain ⟨hleg, hlen⟩ := hl
  simp only [SPacket.legal, Bool.and_eq_true, SPacket.strOK, decide_eq_true_eq] at hleg
  obtain ⟨⟨⟨⟨hps, hcid⟩, hwill⟩, huser⟩, hpass⟩ := hleg
  have hwq : ∀ w, will = some w → w.qos ≤ 2 := by
    intro w hw; subst hw; simp only [Bool.and_eq_true, decide_eq_true_eq] at hwill; exact hwill.1.1.1
  have hfl := connectFlags_eq cs will hwq user pass
  generalize hflv : SPacket.connectFlags cs will user pass = fl at hfl
  have hdisp : Packet.dispatch 0x10 = .connect { fixed := 0x10 } := by decide
  have hbody := connect_body_eq cs ka ps cid will user pass
  rw [hflv] at hbody
  have hbne : (SPacket.connect cs ka ps cid will user pass).body ≠ [] := by rw [hbody]; simp [encBin]
  apply frameOutcome_failed _ _ (take_ne_nil_of_inside _ _ c hc0 hbne)
  rw [hdisp, hbody]
  rw [hbody] at hlen
  simp only [Packet.unmarshal]
  have hsl : (ps.flatMap encOcc).length < 268435456 := by
    have := section_len_le ps
    simp only [List.length_append, List.length_cons] at hlen
    omega
  have huok : ∀ x, user = some x → x.length < 65536 := fun x hx => by subst hx; simpa using huser
  have hpok : ∀ x, pass = some x → x.length < 65536 := fun x hx => by subst hx; simpa using hpass
  simp only [SPacket.fieldLens, List.cons_append, List.nil_append] at hc0
  have hcidlen : (encBin cid).length = cid.length + 2 := encBin_length cid
  have hname : (encBin Connect.mqtt5).length = 6 := by decide
  have hname' : (encBin [0x4d, 0x51, 0x54, 0x54]).length = 6 := by decide
  rw [hname'] at hc0
  -- protocol name
  rcases strictlyInside_cons_add _ _ _ hc0 with ⟨_, h1, h2⟩ | ⟨c1, hk1, hcA⟩
  · simp only [] at h1 h2
    apply Connect.fail1
    have hb : (encBin Connect.mqtt5 ++ (5 :: fl :: (encU16 ka ++ (propSection ps ++ (encBin cid ++ (willBytes will
        ++ (optField user ++ (optField pass ++ [])))))))).take c = (encBin Connect.mqtt5).take c := by
      rw [List.take_append_of_le_length (by omega)]
    simp only [Connect.run1, hb, Connect.readHead]
    exact get_failed _ _ _ (get_failed _ _ _ (get_failed _ _ _ (by
      rw [get_bin_cut Connect.mqtt5 [] [] (by decide) c h1 (by omega)]; exact ⟨_, rfl⟩)))
  -- version, flags: single bytes
  rcases strictlyInside_cons_add _ _ _ hcA with ⟨_, h3, h4⟩ | ⟨c1', hk2, hcB⟩
  · simp only [] at h3 h4; omega
  rcases strictlyInside_cons_add _ _ _ hcB with ⟨_, h5, h6⟩ | ⟨c2, hk3, hcC⟩
  · simp only [] at h5 h6; omega
  simp only [] at hk1 hk2 hk3
  -- keep alive
  rcases strictlyInside_cons_add _ _ _ hcC with ⟨_, h7, h8⟩ | ⟨c3, hk4, hcD⟩
  · simp only [] at h7 h8
    have hc2 : c = 6 + (1 + (1 + 1)) := by omega
    subst hc2
    apply Connect.fail1
    have hb : (encBin Connect.mqtt5 ++ (5 :: fl :: (encU16 ka ++ (propSection ps ++ (encBin cid ++ (willBytes will
        ++ (optField user ++ (optField pass ++ [])))))))).take (6 + (1 + (1 + 1)))
        = encBin Connect.mqtt5 ++ (5 :: fl :: (encU16 ka).take 1) := by
      have e1 : encBin Connect.mqtt5 ++ (5 :: fl :: (encU16 ka ++ (propSection ps ++ (encBin cid ++ (willBytes will
          ++ (optField user ++ (optField pass ++ []))))))) = (encBin Connect.mqtt5 ++ [5, fl]) ++ (encU16 ka ++
          (propSection ps ++ (encBin cid ++ (willBytes will ++ (optField user ++ (optField pass ++ [])))))) := by simp
      have e2 : 6 + (1 + (1 + 1)) = (encBin Connect.mqtt5 ++ [5, fl]).length + 1 := by simp [hname]
      rw [e1, e2, take_pre_add _ _ _ _ (by simp [encU16])]; simp
    simp only [Connect.run1, hb, Connect.readHead, get_bin Connect.mqtt5 (by decide), get_u8,
      get_u16_cut ka 0 1 (by omega) (by omega)]
    exact ⟨_, rfl⟩
  simp only [] at hk4
  -- from here on the head is read in full
  have hhead : ∀ (j : Nat) (rest : Bytes), j ≤ rest.length →
      (encBin Connect.mqtt5 ++ (5 :: fl :: (encU16 ka ++ rest))).take (6 + (1 + (1 + (2 + j))))
        = encBin Connect.mqtt5 ++ (5 :: fl :: (encU16 ka ++ rest.take j)) := by
    intro j rest hj
    have e1 : encBin Connect.mqtt5 ++ (5 :: fl :: (encU16 ka ++ rest)) = (encBin Connect.mqtt5 ++ [5, fl] ++ encU16 ka) ++ (rest ++ []) := by simp
    have e2 : 6 + (1 + (1 + (2 + j))) = (encBin Connect.mqtt5 ++ [5, fl] ++ encU16 ka).length + j := by simp [hname, encU16]; omega
    rw [e1, e2, take_pre_add _ _ _ _ hj]; simp
  -- properties
  rcases strictlyInside_cons_add _ _ _ hcD with ⟨_, h9, h10⟩ | ⟨c4, hk5, hcE⟩
  · simp only [] at h9 h10
    have hcc : c = 6 + (1 + (1 + (2 + c3))) := by omega
    subst hcc
    apply Connect.fail2
    rw [hhead c3 _ (by simp; omega)]
    simp only [Connect.run2, Connect.run1, Connect.readHead_run]
    rw [List.take_append_of_le_length (by omega)]
    simp only [Connect.readProps]
    exact getAny_section_cut _ _ ps (by simp [encU16] at hlen; omega) c3 h9 h10
  simp only [] at hk5
  obtain ⟨f2, f2cid, f2un, f2pw, f2wp⟩ := Connect.P2_facts fl ka ps
  generalize hP2 : ps.foldl Connect.applyOcc (Connect.P1 fl ka) = P2 at f2 f2cid f2un f2pw f2wp
  -- client identifier
  rcases strictlyInside_cons_add _ _ _ hcE with ⟨_, h11, h12⟩ | ⟨c5, hk6, hc⟩
  · simp only [] at h11 h12
    have hcc : c = 6 + (1 + (1 + (2 + ((propSection ps).length + c4)))) := by omega
    subst hcc
    apply Connect.fail3
    rw [hhead _ _ (by simp; omega)]
    simp only [Connect.run3, Connect.run2, Connect.run1, Connect.readHead_run]
    rw [take_pre_add _ _ _ _ (by omega), Connect.readProps_run fl ka ps hps _ hsl, hP2]
    simp only [Connect.readClientID, get_bin_cut cid P2.clientID P2.clientID hcid c4 h11 h12]
    exact ⟨_, rfl⟩
  simp only [] at hk6
  have hcc : c = 6 + (1 + (1 + (2 + ((propSection ps).length + ((encBin cid).length + c5))))) := by omega
  subst hcc
  clear hc0 hcA hcB hcC hcD hcE
  obtain ⟨P3, hP3, g2, g2un, g2pw, g2wp⟩ : ∃ P3 : Connect, P3 = { P2 with clientID := cid } ∧ P3.flags = fl
      ∧ P3.username = [] ∧ P3.password = [] ∧ P3.willPayload = [] := ⟨_, rfl, f2, f2un, f2pw, f2wp⟩
  -- the stages up to the client identifier on the full prefix, whatever follows
  have hrun3 : ∀ (j : Nat) (rest : Bytes), j ≤ rest.length →
      Connect.run3 { fixed := 0x10 } ((encBin Connect.mqtt5 ++ (5 :: fl :: (encU16 ka ++ (propSection ps ++ (encBin cid ++ rest))))).take
        (6 + (1 + (1 + (2 + ((propSection ps).length + ((encBin cid).length + j)))))))
        = ({ rest := rest.take j, st := .ok }, P3) := by
    intro j rest hj
    rw [hhead _ _ (by simp; omega)]
    have e1 : propSection ps ++ (encBin cid ++ rest) = (propSection ps ++ encBin cid) ++ (rest ++ []) := by simp
    have e2 : (propSection ps).length + ((encBin cid).length + j) = (propSection ps ++ encBin cid).length + j := by simp; omega
    rw [e1, e2, take_pre_add _ _ _ _ hj]
    simp only [Connect.run3, Connect.run2, Connect.run1, Connect.readHead_run, List.append_assoc]
    rw [Connect.readProps_run fl ka ps hps _ hsl, hP2]
    simp only [Connect.readClientID, f2cid, get_bin cid hcid, hP3]
  cases will with
  | none =>
    obtain ⟨_, c128, c64, c4f, _⟩ := cfFin_none cs user.isSome pass.isSome
    simp only [Option.map_none] at hfl
    rw [← hfl] at c128 c64 c4f
    simp only [List.nil_append, willBytes, Spec.willLens, List.append_assoc] at hc ⊢
    rw [Connect.unmarshal_run]
    show (Connect.run6 _ _).1.Failed
    simp only [Connect.run6]
    have hj : c5 ≤ (optField user ++ (optField pass ++ [])).length := by
      obtain ⟨pre, f, post, hl', _, h1', h2'⟩ := hc
      have : List.sum ((Spec.optLens user ++ Spec.optLens pass).map (fun x : Nat × Bool => x.1))
          = (optField user ++ (optField pass ++ [])).length := by
        cases user <;> cases pass <;> simp [optField, Spec.optLens] <;> omega
      rw [hl'] at this
      simp only [List.map_append, List.map_cons, List.sum_append, List.sum_cons] at this
      omega
    simp only [Connect.run5, Connect.run4]
    rw [hrun3 c5 _ hj]
    simp only []
    rw [readWill_none _ (by simp only [g2]; exact c4f)]
    simp only []
    exact Connect.tail_cut P3 user pass (by simp only [g2]; exact c128) (by simp only [g2]; exact c64)
      g2un g2pw huok hpok c5 hc
  | some w =>
    simp only [Bool.and_eq_true, decide_eq_true_eq] at hwill
    obtain ⟨⟨⟨hwqos, hwps⟩, hwt⟩, hwpl⟩ := hwill
    have hlt : w.qos.toNat < 3 := by
      have : w.qos.toNat ≤ 2 := hwqos
      omega
    obtain ⟨_, c128, c64, c4f, _, c32, cq⟩ := cfFin_some cs user.isSome pass.isSome ⟨w.qos.toNat % 3, Nat.mod_lt _ (by decide)⟩ w.retain
    simp only [Option.map_some] at hfl
    rw [← hfl] at c128 c64 c4f c32 cq
    simp only [Nat.mod_eq_of_lt hlt, UInt8.ofNat_toNat] at cq
    have hwsl : (propSection w.props).length < 268435456 := by
      simp only [willBytes, List.length_append, List.length_cons] at hlen; omega
    have hslw : (w.props.flatMap encOcc).length < 268435456 := by
      have := section_len_le w.props; omega
    simp only [List.cons_append, List.nil_append, willBytes, List.append_assoc, Spec.willLens] at hc ⊢
    -- is the cut inside the will part or after it?
    by_cases hin : c5 < (propSection w.props ++ (encBin w.topic ++ encBin w.payload)).length
    · apply Connect.fail4
      have hcw : StrictlyInside [((propSection w.props).length, true), ((encBin w.topic).length, true),
          ((encBin w.payload).length, true)] c5 := by
        rcases strictlyInside_cons_add _ _ _ hc with ⟨_, a1, a2⟩ | ⟨k1, e1, hc1⟩
        · exact ⟨[], _, _, rfl, rfl, by simpa using a1, by simpa using a2⟩
        rcases strictlyInside_cons_add _ _ _ hc1 with ⟨_, a3, a4⟩ | ⟨k2, e2, hc2⟩
        · dsimp only at e1 a3 a4
          exact ⟨[_], _, _, rfl, rfl,
            by simp only [List.map_cons, List.map_nil, List.sum_cons, List.sum_nil]; omega,
            by simp only [List.map_cons, List.map_nil, List.sum_cons, List.sum_nil]; omega⟩
        rcases strictlyInside_cons_add _ _ _ hc2 with ⟨_, a5, a6⟩ | ⟨k3, e3, hc3⟩
        · dsimp only at e1 e2 a5 a6
          exact ⟨[_, _], _, [], rfl, rfl,
            by simp only [List.map_cons, List.map_nil, List.sum_cons, List.sum_nil]; omega,
            by simp only [List.map_cons, List.map_nil, List.sum_cons, List.sum_nil]; omega⟩
        · exfalso
          dsimp only at e1 e2 e3
          simp only [List.length_append] at hin
          omega
      simp only [Connect.run4]
      have e1 : propSection w.props ++ (encBin w.topic ++ (encBin w.payload ++ (optField user ++ (optField pass ++ []))))
          = (propSection w.props ++ (encBin w.topic ++ encBin w.payload)) ++ (optField user ++ (optField pass ++ [])) := by simp
      rw [e1, hrun3 c5 _ (by simp only [List.length_append] at hin ⊢; omega)]
      rw [List.take_append_of_le_length (by omega)]
      simp only []
      exact Connect.will_cut P3 w (by simp only [g2]; exact c4f) g2wp hwps hwt hwpl hwsl c5 hcw
    · rw [Connect.unmarshal_run]
      show (Connect.run6 _ _).1.Failed
      simp only [Connect.run6]
      obtain ⟨c6, rfl⟩ : ∃ c6, c5 = (propSection w.props ++ (encBin w.topic ++ encBin w.payload)).length + c6 :=
        ⟨c5 - (propSection w.props ++ (encBin w.topic ++ encBin w.payload)).length, by omega⟩
      have hct : StrictlyInside (Spec.optLens user ++ Spec.optLens pass) c6 := by
        rcases strictlyInside_cons _ _ _ hc with ⟨_, a1, a2⟩ | ⟨a1, hc⟩
        · simp only [List.length_append] at a2 hin; omega
        rcases strictlyInside_cons _ _ _ hc with ⟨_, a3, a4⟩ | ⟨a3, hc⟩
        · simp only [List.length_append] at a1 a4 hin; omega
        rcases strictlyInside_cons _ _ _ hc with ⟨_, a5, a6⟩ | ⟨a5, hc⟩
        · simp only [List.length_append] at a1 a3 a6 hin; omega
        have : (propSection w.props ++ (encBin w.topic ++ encBin w.payload)).length + c6 - ((propSection w.props).length, true).1
            - ((encBin w.topic).length, true).1 - ((encBin w.payload).length, true).1 = c6 := by
          simp only [List.length_append]; omega
        rw [this] at hc; exact hc
      have hj : c6 ≤ (optField user ++ (optField pass ++ [])).length := by
        obtain ⟨pre, f, post, hl', _, h1', h2'⟩ := hct
        have : List.sum ((Spec.optLens user ++ Spec.optLens pass).map (fun x : Nat × Bool => x.1))
            = (optField user ++ (optField pass ++ [])).length := by
          cases user <;> cases pass <;> simp [optField, Spec.optLens] <;> omega <;> omega
        rw [hl'] at this
        simp only [List.map_append, List.map_cons, List.sum_append, List.sum_cons] at this
        omega
      simp only [Connect.run5, Connect.run4]
      have e1 : propSection w.props ++ (encBin w.topic ++ (encBin w.payload ++ (optField user ++ (optField pass ++ []))))
          = (propSection w.props ++ (encBin w.topic ++ encBin w.payload)) ++ (optField user ++ (optField pass ++ [])) := by simp
      rw [e1, hrun3 _ _ (by simp only [List.length_append] at hj ⊢; omega)]
      rw [take_pre_add0]
      have e3 : propSection w.props ++ (encBin w.topic ++ encBin w.payload) ++ (optField user ++ (optField pass ++ [])).take c6
          = propSection w.props ++ (encBin w.topic ++ (encBin w.payload ++ (optField user ++ (optField pass ++ [])).take c6)) := by simp
      simp only []
      rw [e3, readWill_some P3 w (by simp only [g2]; exact c4f)
        (by simp only [Connect.willQoS, g2, Connect.fWillQoS1, Connect.fWillQoS2]; exact cq)
        (by simp only [g2]; exact c32) g2wp hwps hwt hwpl _ hslw]
      simp only []
      refine Connect.tail_cut _ user pass ?_ ?_ ?_ ?_ huok hpok c6 hct
      · show has P3.flags Connect.fUsername = _; rw [g2]; exact c128
      · show has P3.flags Connect.fPassword = _; rw [g2]; exact c64
      · exact g2un
      · exact g2pw

end Mq
