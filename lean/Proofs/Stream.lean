import Mq.Stream
import Proofs.Safe2
/-!
# Proofs.Stream — `io.ReadFull` over delivery scripts, and ReadPacket as a function of the bytes

The central fact: whatever the schedule (chunk sizes, zero-length reads, error with or after the
last bytes), `readFull r n` returns the first `n` bytes and leaves the rest, or — when fewer than
`n` bytes remain — returns them all with an error that depends only on how the stream ends.
-/
namespace Mq

/-- the error `io.ReadFull` reports when the stream ends after `got` bytes of the request -/
def shortErr (fail : IOErr) (got : Bytes) : IOErr :=
  match fail with
  | .eof => if got = [] then .eof else .unexpectedEOF
  | x => x

theorem chunk_le_want (r : Reader) (w : Nat) : r.chunk w ≤ w := by unfold Reader.chunk; omega
theorem chunk_le_data (r : Reader) (w : Nat) : r.chunk w ≤ r.data.length := by unfold Reader.chunk; omega
theorem chunk_nosched (r : Reader) (w : Nat) (h : r.sched = []) : r.chunk w = min w r.data.length := by
  unfold Reader.chunk; simp [h]

theorem next_sched_len (r : Reader) (w : Nat) (h : r.sched ≠ []) : (r.next w).sched.length + 1 = r.sched.length := by
  simp only [Reader.next]
  cases hh : r.sched with
  | nil => exact absurd hh h
  | cons a t => simp

/-- enough data: exactly the first `want` bytes, no error, the rest left in the stream -/
theorem readFullAux_enough : ∀ (fuel : Nat) (r : Reader) (want : Nat) (acc : Bytes),
    want ≤ r.data.length → r.sched.length + want + 1 ≤ fuel →
    (readFullAux fuel r want acc).1 = acc ++ r.data.take want
    ∧ (readFullAux fuel r want acc).2.1 = none
    ∧ (readFullAux fuel r want acc).2.2.data = r.data.drop want
    ∧ (readFullAux fuel r want acc).2.2.fail = r.fail
    ∧ (readFullAux fuel r want acc).2.2.eofWithData = r.eofWithData := by
  intro fuel
  induction fuel with
  | zero => intro r want acc _ h; omega
  | succ fuel ih =>
    intro r want acc hw hf
    unfold readFullAux
    by_cases h0 : want = 0
    · simp [h0]
    · have hne : r.data ≠ [] := by intro h; rw [h] at hw; simp at hw; omega
      have hk1 := chunk_le_want r want
      have hk2 := chunk_le_data r want
      simp only [h0, if_false, Reader.read, hne, List.length_take, Nat.min_eq_left hk2]
      by_cases hge : want ≤ r.chunk want
      · have hk : r.chunk want = want := by omega
        simp [hge, hk, Reader.next]
      · simp only [hge, if_false]
        have hnoerr : ¬ (r.data.length ≤ r.chunk want ∧ r.eofWithData = true) := by
          intro h; omega
        simp only [hnoerr, if_false]
        have hs : r.sched ≠ [] := by
          intro h; have := chunk_nosched r want h; omega
        have hs' := next_sched_len r want hs
        have hd : (r.next want).data = r.data.drop (r.chunk want) := rfl
        have := ih (r.next want) (want - r.chunk want) (acc ++ r.data.take (r.chunk want))
          (by rw [hd]; simp; omega) (by omega)
        obtain ⟨a1, a2, a3, a4, a5⟩ := this
        refine ⟨?_, a2, ?_, a4, a5⟩
        · rw [a1, hd, List.append_assoc]
          congr 1
          have : want = r.chunk want + (want - r.chunk want) := by omega
          conv => rhs; rw [this, List.take_add]
        · rw [a3, hd, List.drop_drop]; congr 1; omega

/-- not enough data: everything that is there, and the end-of-stream error -/
theorem readFullAux_short : ∀ (fuel : Nat) (r : Reader) (want : Nat) (acc : Bytes),
    r.data.length < want → r.sched.length + want + 1 ≤ fuel →
    (readFullAux fuel r want acc).1 = acc ++ r.data
    ∧ (readFullAux fuel r want acc).2.1 = some (shortErr r.fail (acc ++ r.data))
    ∧ (readFullAux fuel r want acc).2.2.data = []
    ∧ (readFullAux fuel r want acc).2.2.fail = r.fail
    ∧ (readFullAux fuel r want acc).2.2.eofWithData = r.eofWithData := by
  intro fuel
  induction fuel with
  | zero => intro r want acc _ h; omega
  | succ fuel ih =>
    intro r want acc hw hf
    unfold readFullAux
    have h0 : want ≠ 0 := by omega
    simp only [h0, if_false]
    by_cases hne : r.data = []
    · -- nothing left: the read returns the failure
      simp only [Reader.read, hne, if_true, List.append_nil, List.length_nil]
      have hw0 : ¬ (want ≤ 0) := by omega
      simp only [hw0, if_false]
      cases hfail : r.fail <;> simp [shortErr, hne, hfail]
    · have hk1 := chunk_le_want r want
      have hk2 := chunk_le_data r want
      simp only [Reader.read, hne, if_false, List.length_take, Nat.min_eq_left hk2]
      have hge : ¬ (want ≤ r.chunk want) := by omega
      simp only [hge, if_false]
      by_cases herr : r.data.length ≤ r.chunk want ∧ r.eofWithData = true
      · -- the last bytes arrive together with the failure
        have hk : r.chunk want = r.data.length := by omega
        simp only [herr, and_self, if_true, hk, List.take_length]
        have hdn : (r.next want).data = [] := by simp [Reader.next, hk]
        cases hfail : r.fail <;> simp [shortErr, hdn, Reader.next, hne, hfail] <;> (try exact herr)
      · simp only [herr, if_false]
        have hd : (r.next want).data = r.data.drop (r.chunk want) := rfl
        have hfuel : (r.next want).sched.length + (want - r.chunk want) + 1 ≤ fuel := by
          by_cases hs : r.sched = []
          · have hc := chunk_nosched r want hs
            have hpos : 0 < r.data.length := List.length_pos_iff.mpr hne
            have : (r.next want).sched = [] := by simp [Reader.next, hs]
            rw [this]; simp only [List.length_nil]
            rw [hs] at hf; simp only [List.length_nil] at hf
            omega
          · have := next_sched_len r want hs
            omega
        have := ih (r.next want) (want - r.chunk want) (acc ++ r.data.take (r.chunk want))
          (by rw [hd]; simp; omega) hfuel
        obtain ⟨a1, a2, a3, a4, a5⟩ := this
        have hcat : acc ++ List.take (r.chunk want) r.data ++ (r.next want).data = acc ++ r.data := by
          rw [hd, List.append_assoc, List.take_append_drop]
        refine ⟨?_, ?_, a3, a4, a5⟩
        · rw [a1, hcat]
        · rw [a2, hcat]; rfl

/-- `io.ReadFull` as a function of the remaining bytes and of how the stream ends -/
def pureFull (data : Bytes) (fail : IOErr) (want : Nat) : Bytes × Option IOErr × Bytes :=
  if want ≤ data.length then (data.take want, none, data.drop want)
  else (data, some (shortErr fail data), [])

/-- schedule irrelevance of `io.ReadFull` -/
theorem readFull_pure (r : Reader) (want : Nat) :
    ((readFull r want).1, (readFull r want).2.1, (readFull r want).2.2.data) = pureFull r.data r.fail want
    ∧ (readFull r want).2.2.fail = r.fail ∧ (readFull r want).2.2.eofWithData = r.eofWithData := by
  unfold readFull pureFull
  by_cases h : want ≤ r.data.length
  · obtain ⟨a1, a2, a3, a4, a5⟩ := readFullAux_enough _ r want [] h (Nat.le_refl _)
    simp only [h, if_true]
    rw [a1, a2, a3]
    exact ⟨by simp, a4, a5⟩
  · obtain ⟨a1, a2, a3, a4, a5⟩ := readFullAux_short _ r want [] (by omega) (Nat.le_refl _)
    simp only [h, if_false]
    rw [a1, a2, a3]
    exact ⟨by simp, a4, a5⟩

end Mq
