import Proofs.Frame
/-!
# Proofs.PacketSafe — the per-type results lifted to the packet sum
-/
namespace Mq

/-- list elements a packet holds: user properties, subscription identifiers, filters, reason codes
(and those of a CONNECT's will message) -/
def Packet.elems : Packet → Nat
  | .undefined _ => 0
  | .connect p => p.elems
  | .connack p => p.elems
  | .publish p => p.elems
  | .puback p | .pubrec p | .pubrel p | .pubcomp p => p.elems
  | .subscribe p => p.elems
  | .suback p | .unsuback p => p.elems
  | .unsubscribe p => p.elems
  | .pingreq _ | .pingresp _ => 0
  | .disconnect p => p.elems
  | .auth p => p.elems

theorem Packet.unmarshal_safe (p : Packet) (data : Bytes) :
    (p.unmarshal data).2 ≠ .panic ∧ (p.unmarshal data).2 ≠ .hang := by
  cases p with
  | undefined q => exact Undefined.unmarshal_safe q data
  | connect q => have := Connect.unmarshal_safe q data; exact ⟨this.1, this.2.1⟩
  | connack q => have := ConnAck.unmarshal_safe q data; exact ⟨this.1, this.2.1⟩
  | publish q => have := Publish.unmarshal_safe q data; exact ⟨this.1, this.2.1⟩
  | puback q => have := Ack.unmarshal_safe q data; exact ⟨this.1, this.2.1⟩
  | pubrec q => have := Ack.unmarshal_safe q data; exact ⟨this.1, this.2.1⟩
  | pubrel q => have := Ack.unmarshal_safe q data; exact ⟨this.1, this.2.1⟩
  | pubcomp q => have := Ack.unmarshal_safe q data; exact ⟨this.1, this.2.1⟩
  | subscribe q => have := Subscribe.unmarshal_safe q data; exact ⟨this.1, this.2.1⟩
  | suback q => have := SubAck.unmarshal_safe q data; exact ⟨this.1, this.2.1⟩
  | unsubscribe q => have := Unsubscribe.unmarshal_safe q data; exact ⟨this.1, this.2.1⟩
  | unsuback q => have := SubAck.unmarshal_safe q data; exact ⟨this.1, this.2.1⟩
  | pingreq q => exact Ping.unmarshal_safe q data
  | pingresp q => exact Ping.unmarshal_safe q data
  | disconnect q => have := Disconnect.unmarshal_safe q data; exact ⟨this.1, this.2.1⟩
  | auth q => have := Auth.unmarshal_safe q data; exact ⟨this.1, this.2.1⟩

/-- growth of the lists is bounded by the number of input bytes (+1: the filter loops append
the element they were reading when they hit the error that makes them stop) -/
theorem Packet.unmarshal_elems (p : Packet) (data : Bytes) :
    (p.unmarshal data).1.elems ≤ p.elems + data.length + 1 := by
  cases p with
  | undefined q => simp [Packet.unmarshal, Packet.elems]
  | connect q => have := (Connect.unmarshal_safe q data).2.2; simp only [Packet.unmarshal, Packet.elems]; omega
  | connack q => have := (ConnAck.unmarshal_safe q data).2.2; simp only [Packet.unmarshal, Packet.elems]; omega
  | publish q => have := (Publish.unmarshal_safe q data).2.2; simp only [Packet.unmarshal, Packet.elems]; omega
  | puback q => have := (Ack.unmarshal_safe q data).2.2; simp only [Packet.unmarshal, Packet.elems]; omega
  | pubrec q => have := (Ack.unmarshal_safe q data).2.2; simp only [Packet.unmarshal, Packet.elems]; omega
  | pubrel q => have := (Ack.unmarshal_safe q data).2.2; simp only [Packet.unmarshal, Packet.elems]; omega
  | pubcomp q => have := (Ack.unmarshal_safe q data).2.2; simp only [Packet.unmarshal, Packet.elems]; omega
  | subscribe q => have := (Subscribe.unmarshal_safe q data).2.2; simp only [Packet.unmarshal, Packet.elems]; omega
  | suback q =>
    have := (SubAck.unmarshal_safe q data).2.2
    simp only [Packet.unmarshal, Packet.elems, SubAck.elems] at *; omega
  | unsubscribe q => have := (Unsubscribe.unmarshal_safe q data).2.2; simp only [Packet.unmarshal, Packet.elems]; omega
  | unsuback q =>
    have := (SubAck.unmarshal_safe q data).2.2
    simp only [Packet.unmarshal, Packet.elems, SubAck.elems] at *; omega
  | pingreq q => simp [Packet.unmarshal, Packet.elems]
  | pingresp q => simp [Packet.unmarshal, Packet.elems]
  | disconnect q => have := (Disconnect.unmarshal_safe q data).2.2; simp only [Packet.unmarshal, Packet.elems]; omega
  | auth q => have := (Auth.unmarshal_safe q data).2.2; simp only [Packet.unmarshal, Packet.elems]; omega

theorem Packet.dispatch_elems (b0 : UInt8) : (Packet.dispatch b0).elems = 0 := by
  unfold Packet.dispatch
  split <;> rfl

/-- ReadPacket over plain bytes returns a packet or an error, nothing else -/
theorem purePacket_xor (d : Bytes) (fail : IOErr) :
    (∃ q, (purePacket d fail).1 = .pkt q) ∨ (∃ e, (purePacket d fail).1 = .err e) := by
  unfold purePacket
  cases d with
  | nil => right; exact ⟨_, rfl⟩
  | cons b0 d1 =>
    simp only []
    have hdec := pureVb_decides 5 d1 fail 1 0 0 rfl (by omega) (by omega)
    rcases hv : pureVb 5 d1 fail 1 0 with ⟨⟨on, oe⟩, d2⟩
    rw [hv] at hdec
    cases oe with
    | some e => right; exact ⟨e, rfl⟩
    | none =>
      cases on with
      | none => exact absurd rfl hdec
      | some n =>
        simp only []
        split
        · left; exact ⟨_, rfl⟩
        · split
          · have hs := Packet.unmarshal_safe (Packet.dispatch b0) (List.take n d2)
            rcases hu : (Packet.dispatch b0).unmarshal (List.take n d2) with ⟨q, st⟩
            rw [hu] at hs
            cases st with
            | ok => left; exact ⟨q, rfl⟩
            | err e => right; exact ⟨e, rfl⟩
            | panic => exact absurd rfl hs.1
            | hang => exact absurd rfl hs.2
          · right; exact ⟨_, rfl⟩

end Mq
