import Proofs.RenderInv
import Proofs.FillPackets
/-!
# Proofs.RenderTotal — no renderer building block reaches a `.panic`
-/
namespace Mq

/-- `ReasonCode(b).String()` is defined for all 256 byte values — complete kernel-checked
enumeration (the table slicing never leaves its index or name arrays) -/
theorem reasonCode_table : ∀ n : Fin 256, reasonCodeStr (UInt8.ofNat n.val) ≠ .panic ∧ reasonCodeStr (UInt8.ofNat n.val) ≠ .unmodelled := by
  decide +kernel

theorem reasonCode_defined (c : UInt8) : ∃ text, reasonCodeStr c = .ok text := by
  have h := reasonCode_table ⟨c.toNat, c.toNat_lt⟩
  simp only [UInt8.ofNat_toNat] at h
  cases hc : reasonCodeStr c with
  | ok t => exact ⟨t, rfl⟩
  | unmodelled => exact absurd hc h.2
  | panic => exact absurd hc h.1

theorem withReason_ne_panic (c : UInt8) (r : Option Bytes) (v : Bytes) : withReason c r v ≠ .panic := by
  unfold withReason
  obtain ⟨t, ht⟩ := reasonCode_defined c
  split
  · rw [ht]; simp only [Rend.bind]
    cases r with
    | none => simp
    | some r => simp only []; split <;> simp
  · simp

theorem bind_ok_ne_panic {r : Rend} {f : Bytes → Bytes} (h : r ≠ .panic) : (r.bind fun b => .ok (f b)) ≠ .panic := by
  cases r <;> simp_all [Rend.bind]

theorem quote_ne_panic (b : Bytes) : quote b ≠ .panic := by unfold quote; split <;> simp

theorem lineQ_ne_panic (n v : Bytes) : lineQ n v ≠ .panic := bind_ok_ne_panic (quote_ne_panic v)

theorem dumpUserPropsAux_ne_panic : ∀ (ups : UserProps) (i : Nat), dumpUserPropsAux i ups ≠ .panic
  | [], _ => by simp [dumpUserPropsAux]
  | (k, v) :: rest, i => by
    simp only [dumpUserPropsAux]
    have h1 := quote_ne_panic v
    have h2 := dumpUserPropsAux_ne_panic rest (i + 1)
    cases hq : quote v <;> simp_all [Rend.bind]
    cases hr : dumpUserPropsAux (i + 1) rest <;> simp_all

theorem dumpUserProps_ne_panic (ups : UserProps) : dumpUserProps ups ≠ .panic := by
  unfold dumpUserProps
  split
  · simp
  · exact bind_ok_ne_panic (dumpUserPropsAux_ne_panic ups 0)

theorem append_ne_panic {a b : Rend} (ha : a ≠ .panic) (hb : b ≠ .panic) : a.append b ≠ .panic := by
  cases a <;> cases b <;> simp_all [Rend.append, Rend.bind]

theorem concat_ne_panic (l : List Rend) (h : ∀ r ∈ l, r ≠ .panic) : Rend.concat l ≠ .panic := by
  unfold Rend.concat
  suffices ∀ (l : List Rend) (acc : Rend), acc ≠ .panic → (∀ r ∈ l, r ≠ .panic) → l.foldl Rend.append acc ≠ .panic from
    this l _ (by simp) h
  intro l
  induction l with
  | nil => intro acc ha _; simpa
  | cons x xs ih =>
    intro acc ha hl
    simp only [List.foldl_cons]
    exact ih _ (append_ne_panic ha (hl x (by simp))) (fun r hr => hl r (by simp [hr]))

theorem reasonLine_ne_panic (c : UInt8) (n : Bytes) :
    ((reasonCodeStr c).bind fun cs => .ok (line n cs)) ≠ .panic := by
  obtain ⟨t, ht⟩ := reasonCode_defined c
  rw [ht]; simp [Rend.bind]

theorem Publish.dump_ne_panic (p : Publish) : p.dump ≠ .panic :=
  bind_ok_ne_panic (dumpUserProps_ne_panic _)

end Mq
