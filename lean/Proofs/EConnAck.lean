import Proofs.ESimple
/-!
# Proofs.EConnAck — E for CONNACK
-/
namespace Mq
open Spec (SPacket propsLegal propBytes propSection propVal userPropsOf vvOf)
open Tie (encFields kinds connackFields)

def ConnAck.fkinds : List (UInt8 × WKind) :=
  [(0x21, .u16), (0x11, .u32), (0x24, .u8), (0x25, .bool), (0x27, .u32), (0x12, .bin), (0x22, .u16), (0x1f, .bin),
   (0x28, .bool), (0x29, .bool), (0x2a, .bool), (0x13, .u16), (0x1a, .bin), (0x1c, .bin), (0x15, .bin), (0x16, .bin)]

def ConnAck.occs (p : ConnAck) : List PropOcc := occsOf (connackFields p) ++ upOccs p.userProps
def ConnAck.abs (p : ConnAck) : SPacket := .connack (p.flags == 1) p.reasonCode p.occs

theorem ConnAck.props_eq (p : ConnAck) (h : UpsInRange p.userProps) : p.props = propBytes p.occs := by
  rw [(Tie.M2_connack p), encFields_eq, encUserProps_eq _ (ups_keys _ h), ← propBytes_append]; rfl

theorem E_connack (p : ConnAck) (h : p.InDomain) :
    p.abs.Legal ∧ p.abs.unparse = p.encode ∧ p.abs.view = (Packet.connack p).view := by
  obtain ⟨hfix, hfl, r1, r2, r3, r4, r5, r6, hu, hlen⟩ := h
  have hprops := p.props_eq hu
  have hk : kinds (connackFields p) = ConnAck.fkinds := rfl
  have hleg : propsLegal 2 p.occs = true := by
    apply occs_legalK 2 (connackFields p) p.userProps ConnAck.fkinds hk (by decide) (by decide) (by decide) (by decide)
    · intro f hf
      simp only [connackFields, List.mem_cons, List.mem_nil_iff, or_false] at hf
      rcases hf with rfl | rfl | rfl | rfl | rfl | rfl | rfl | rfl | rfl | rfl | rfl | rfl | rfl | rfl | rfl | rfl <;>
        first | rfl | exact strOK_range _ r1 | exact strOK_range _ r2 | exact strOK_range _ r3
              | exact strOK_range _ r4 | exact strOK_range _ r5 | exact strOK_range _ r6
    · exact hu
  have hflag : (if (p.flags == 1) = true then (1 : UInt8) else 0) = p.flags := by
    rcases hfl with h0 | h1
    · rw [h0]; decide
    · rw [h1]; decide
  have hbody : p.abs.body = p.body := by
    simp only [ConnAck.abs, SPacket.body, ConnAck.body, hprops, propSection, hflag]
    simp
  refine ⟨⟨?_, by rw [hbody]; exact hlen⟩, ?_, ?_⟩
  · simp only [ConnAck.abs, SPacket.legal, hleg]
  · simp only [SPacket.unparse, Spec.mkFrame, hbody, ConnAck.encode, frame]
    simp [ConnAck.abs, SPacket.firstByte, hfix]
  · simp only [ConnAck.abs, SPacket.view, Packet.view, ConnAck.view]
    have hnd : (ConnAck.fkinds.map (·.1)).Nodup := by decide
    have pv := fun (id : UInt8) (dflt : VV) (hid : id ≠ 0x26) (v : WVal) (hm : (id, v) ∈ connackFields p)
        (hz : v.isZero = true → vvOf v = dflt) =>
      propVal_fieldsK (connackFields p) p.userProps ConnAck.fkinds hk id dflt hnd hid v hm hz
    have v12 := pv 0x12 (.s []) (by decide) (.bin p.assignedClientID) (by simp [connackFields]) (bin_zero _)
    have v16 := pv 0x16 (.s []) (by decide) (.bin p.authData) (by simp [connackFields]) (bin_zero _)
    have v15 := pv 0x15 (.s []) (by decide) (.bin p.authMethod) (by simp [connackFields]) (bin_zero _)
    have v27 := pv 0x27 (.n 0) (by decide) (.u32 p.maxPacketSize) (by simp [connackFields]) (u32_zero _)
    have v24 := pv 0x24 (.n 0) (by decide) (.u8 p.maxQoS) (by simp [connackFields]) (u8_zero _)
    have v1f := pv 0x1f (.s []) (by decide) (.bin p.reasonString) (by simp [connackFields]) (bin_zero _)
    have v21 := pv 0x21 (.n 0) (by decide) (.u16 p.receiveMax) (by simp [connackFields]) (u16_zero _)
    have v1a := pv 0x1a (.s []) (by decide) (.bin p.responseInformation) (by simp [connackFields]) (bin_zero _)
    have v25 := pv 0x25 (.b false) (by decide) (.bool p.retainAvailable) (by simp [connackFields]) (bool_zero _)
    have v13 := pv 0x13 (.n 0) (by decide) (.u16 p.serverKeepAlive) (by simp [connackFields]) (u16_zero _)
    have v1c := pv 0x1c (.s []) (by decide) (.bin p.serverReference) (by simp [connackFields]) (bin_zero _)
    have v11 := pv 0x11 (.n 0) (by decide) (.u32 p.sessionExpiryInterval) (by simp [connackFields]) (u32_zero _)
    have v2a := pv 0x2a (.b false) (by decide) (.bool p.sharedSubAvailable) (by simp [connackFields]) (bool_zero _)
    have v29 := pv 0x29 (.b false) (by decide) (.bool p.subIdentifiersAvailable) (by simp [connackFields]) (bool_zero _)
    have v22 := pv 0x22 (.n 0) (by decide) (.u16 p.topicAliasMax) (by simp [connackFields]) (u16_zero _)
    have v28 := pv 0x28 (.b false) (by decide) (.bool p.wildcardSubAvailable) (by simp [connackFields]) (bool_zero _)
    have hups := userPropsOf_occsK (connackFields p) p.userProps ConnAck.fkinds hk (by decide)
    simp only [ConnAck.occs]
    rw [v12, v16, v15, v27, v24, v1f, v21, v1a, v25, v13, v1c, v11, v2a, v29, v22, v28, hups]
    have hsp : (p.flags == 1) = p.sessionPresent := by
      rcases hfl with h0 | h1
      · simp [ConnAck.sessionPresent, h0, has]
      · simp [ConnAck.sessionPresent, h1, has]
    have hfn : (if (p.flags == 1) = true then 1 else 0 : Nat) = p.flags.toNat := by
      rcases hfl with h0 | h1
      · rw [h0]; decide
      · rw [h1]; decide
    have hfn2 : (if p.sessionPresent = true then 1 else 0 : Nat) = p.flags.toNat := by rw [← hsp]; exact hfn
    simp [vvOf, hsp, hfn2]

end Mq
