import Proofs.Frame
/-!
# Proofs.Vbint — shape of the encoding, agreement of the two decoders
-/
namespace Mq

/-- every byte of an encoding but the last carries the continuation bit; the last does not;
a multi-byte encoding does not end in a zero byte (minimality) -/
def VbShape : Bytes → Prop
  | [] => False
  | [b] => b.toNat < 128
  | b :: c :: rest => 128 ≤ b.toNat ∧ VbShape (c :: rest)

theorem encVb_shape (x : Nat) : VbShape (encVb x) := by
  induction x using Nat.strongRecOn with
  | _ x ih =>
    rw [encVb_eq]
    split
    · rename_i h
      simp only [VbShape, UInt8.toNat_ofNat']
      omega
    · rename_i h
      have := ih (x / 128) (by omega)
      have hne := encVb_ne_nil (x / 128)
      cases hc : encVb (x / 128) with
      | nil => exact absurd hc hne
      | cons c rest =>
        rw [hc] at this
        refine ⟨?_, this⟩
        simp [UInt8.toNat_ofNat']; omega

theorem encVb_length (x : Nat) (h : x < 268435456) :
    (encVb x).length = if x < 128 then 1 else if x < 16384 then 2 else if x < 2097152 then 3 else 4 := by
  rw [encVb_eq]
  split
  · simp
  · rw [encVb_eq]
    split
    · have : x < 16384 := by omega
      simp [this]
    · rw [encVb_eq]
      split
      · have h1 : ¬ x < 16384 := by omega
        have h2 : x < 2097152 := by omega
        simp [h1, h2]
      · rw [encVb_eq]
        have h3 : x / 128 / 128 / 128 < 128 := by omega
        have h1 : ¬ x < 16384 := by omega
        have h2 : ¬ x < 2097152 := by omega
        simp [h3, h1, h2]

/-- the last byte of a multi-byte encoding is non-zero: the encoding is the unique minimal one -/
theorem encVb_last_ne_zero (x : Nat) (h : 128 ≤ x) : (encVb x).getLast? ≠ some 0 := by
  induction x using Nat.strongRecOn with
  | _ x ih =>
    rw [encVb_eq]
    have hx : ¬ x < 128 := by omega
    simp only [hx, if_false]
    by_cases h2 : x / 128 < 128
    · rw [encVb_eq]
      simp only [h2, if_true]
      simp only [List.getLast?_cons_cons, List.getLast?_singleton]
      intro hc
      have := congrArg (fun o => o.map UInt8.toNat) hc
      simp [UInt8.toNat_ofNat'] at this
      omega
    · have := ih (x / 128) (by omega) (by omega)
      have hne := encVb_ne_nil (x / 128)
      cases hc : encVb (x / 128) with
      | nil => exact absurd hc hne
      | cons c rest =>
        rw [hc] at this
        simpa [List.getLast?_cons_cons] using this

/-- the in-memory loop and the streaming loop make the same decision on every byte string:
the same value, or both reject -/
theorem decoders_agree_gen : ∀ (d : Bytes) (fuel mult acc k : Nat) (fail : IOErr), mult = 128 ^ k → k ≤ 4 → 5 ≤ k + fuel →
    (∃ v w, decVbLoop d mult acc = .ok v w ∧ (pureVb fuel d fail mult acc).1 = (some v, none))
    ∨ ((∃ e, decVbLoop d mult acc = .err e) ∧ ∃ e, (pureVb fuel d fail mult acc).1 = (none, some e)) := by
  intro d
  induction d with
  | nil =>
    intro fuel mult acc k fail _ _ hf
    cases fuel with
    | zero => omega
    | succ fuel => right; exact ⟨⟨_, rfl⟩, ⟨_, rfl⟩⟩
  | cons b rest ih =>
    intro fuel mult acc k fail hm hk hf
    cases fuel with
    | zero => omega
    | succ fuel =>
      simp only [decVbLoop, pureVb]
      split
      · right; exact ⟨⟨_, rfl⟩, ⟨_, rfl⟩⟩
      · rename_i hgt
        split
        · left; exact ⟨_, _, rfl, rfl⟩
        · have hk4 : k < 4 := by
            rcases Nat.lt_or_ge k 4 with h | h
            · exact h
            · have : k = 4 := by omega
              subst this; subst hm; exact absurd (by decide) hgt
          exact ih fuel (mult * 128) _ (k + 1) fail (by subst hm; rw [Nat.pow_succ]) (by omega) (by omega)

/-- a decoded value is below 2^28 and every intermediate of the loops is below 2^35: the
64-bit `uint` arithmetic of the Go code cannot wrap -/
theorem decVbLoop_bound : ∀ (d : Bytes) (mult acc k : Nat), mult = 128 ^ k → k ≤ 4 → acc < mult →
    ∀ v w, decVbLoop d mult acc = .ok v w → v < 268435456 := by
  intro d
  induction d with
  | nil => intro mult acc k _ _ _ v w h; simp [decVbLoop] at h
  | cons b rest ih =>
    intro mult acc k hm hk hacc v w h
    simp only [decVbLoop] at h
    split at h
    · simp at h
    · rename_i hgt
      have hk4 : k < 4 := by
        rcases Nat.lt_or_ge k 4 with h' | h'
        · exact h'
        · have : k = 4 := by omega
          subst this; subst hm; exact absurd (by decide) hgt
      have hb : b.toNat % 128 < 128 := Nat.mod_lt _ (by decide)
      have hnew : acc + b.toNat % 128 * mult < mult * 128 := by
        have : b.toNat % 128 * mult ≤ 127 * mult := Nat.mul_le_mul_right _ (by omega)
        omega
      split at h
      · simp at h
        obtain ⟨rfl, _⟩ := h
        have : mult * 128 ≤ 268435456 := by
          subst hm
          have : k = 0 ∨ k = 1 ∨ k = 2 ∨ k = 3 := by omega
          rcases this with h | h | h | h <;> subst h <;> decide
        omega
      · exact ih (mult * 128) _ (k + 1) (by subst hm; rw [Nat.pow_succ]) (by omega) hnew v w h

end Mq
