import Proofs.Safe
/-!
# Proofs.Safe2 — PUBLISH, CONNECT, the packet sum and ReadPacket
-/
namespace Mq

/-- a stage keeps the cursor safe and does not create more list elements than bytes it consumed -/
structure StageOK {P : Type} (elems : P → Nat) (f : P → Buf → Buf × P) : Prop where
  safe : ∀ p b, b.Safe → (f p b).1.Safe
  bound : ∀ p b, b.Safe → elems (f p b).2 + (f p b).1.rest.length ≤ elems p + b.rest.length

/-! ## Publish -/

def Publish.elems (p : Publish) : Nat := p.userProps.length + p.subscriptionIDs.length

theorem Publish.applyOcc_elems (p : Publish) (o : PropOcc) : (p.applyOcc o).elems ≤ p.elems + 1 := by
  unfold Publish.applyOcc Publish.elems
  split <;> (try split) <;> (try split) <;> (try split) <;> simp <;> omega

theorem Publish.readHead_ok : StageOK Publish.elems Publish.readHead := by
  constructor
  · intro p b hs
    unfold Publish.readHead
    simp only []
    have h1 := get_safe b (decBin p.topicName) p.topicName hs (noPanic_bin _)
    split
    · exact get_safe _ _ _ h1 noPanic_u16
    · exact h1
  · intro p b _
    unfold Publish.readHead
    simp only []
    have l1 := get_rest_le b (decBin p.topicName) p.topicName
    split
    · have l2 := get_rest_le (b.get (decBin p.topicName) p.topicName).1 decU16 p.packetID
      simp only [Publish.elems] at *
      omega
    · simp only [Publish.elems] at *
      omega

theorem Publish.readProps_ok : StageOK Publish.elems Publish.readProps := by
  constructor
  · intro p b hs
    exact (getAny_safe b Publish.table (lastBin p.binInit) hs).1
  · intro p b hs
    unfold Publish.readProps
    simp only []
    have h := (getAny_safe b Publish.table (lastBin p.binInit) hs).2
    have hf := foldl_elems_le Publish.elems Publish.applyOcc Publish.applyOcc_elems
      (b.getAny Publish.table (lastBin p.binInit)).2 p
    omega

theorem Publish.readPayload_ok : StageOK Publish.elems Publish.readPayload := by
  constructor
  · intro p b hs
    unfold Publish.readPayload
    split
    · exact get_safe _ _ _ hs noPanic_raw
    · exact hs
  · intro p b _
    unfold Publish.readPayload
    split
    · have := get_rest_le b decRaw p.payload
      simp only [Publish.elems] at *
      omega
    · simp

theorem Publish.unmarshal_safe (p : Publish) (data : Bytes) :
    (p.unmarshal data).2 ≠ .panic ∧ (p.unmarshal data).2 ≠ .hang
      ∧ (p.unmarshal data).1.elems ≤ p.elems + data.length := by
  unfold Publish.unmarshal
  simp only []
  have s1 := Publish.readHead_ok.safe p _ (safe_init data)
  have b1 := Publish.readHead_ok.bound p _ (safe_init data)
  generalize p.readHead { rest := data } = r1 at s1 b1 ⊢
  have s2 := Publish.readProps_ok.safe r1.2 r1.1 s1
  have b2 := Publish.readProps_ok.bound r1.2 r1.1 s1
  generalize r1.2.readProps r1.1 = r2 at s2 b2 ⊢
  have s3 := Publish.readPayload_ok.safe r2.2 r2.1 s2
  have b3 := Publish.readPayload_ok.bound r2.2 r2.1 s2
  generalize r2.2.readPayload r2.1 = r3 at s3 b3 ⊢
  refine ⟨s3.1, s3.2, ?_⟩
  simp only [] at b1
  omega

/-! ## Connect -/

def Connect.elems (p : Connect) : Nat :=
  p.userProps.length + (match p.will with | some w => w.userProps.length | none => 0)

theorem Connect.applyOcc_inv (p : Connect) (o : PropOcc) :
    (p.applyOcc o).userProps.length ≤ p.userProps.length + 1 ∧ (p.applyOcc o).will = p.will := by
  unfold Connect.applyOcc
  split <;> (try split) <;> (try split) <;> simp

theorem Connect.applyOcc_elems (p : Connect) (o : PropOcc) : (p.applyOcc o).elems ≤ p.elems + 1 := by
  have := Connect.applyOcc_inv p o
  unfold Connect.elems
  rw [this.2]
  omega

theorem Connect.applyWillOcc_ups (s : UInt32 × Publish) (o : PropOcc) :
    (Connect.applyWillOcc s o).2.userProps.length ≤ s.2.userProps.length + 1 := by
  unfold Connect.applyWillOcc
  split <;> (try split) <;> (try split) <;> (try split) <;> simp

theorem Connect.readHead_ok : StageOK Connect.elems Connect.readHead := by
  constructor
  · intro p b hs
    unfold Connect.readHead
    simp only []
    exact get_safe _ _ _ (get_safe _ _ _ (get_safe _ _ _ (get_safe _ _ _ hs (noPanic_bin _)) noPanic_u8) noPanic_u8) noPanic_u16
  · intro p b _
    unfold Connect.readHead
    simp only []
    have l1 := get_rest_le b (decBin p.protocolName) p.protocolName
    have l2 := get_rest_le (b.get (decBin p.protocolName) p.protocolName).1 decU8 p.protocolVersion
    have l3 := get_rest_le ((b.get (decBin p.protocolName) p.protocolName).1.get decU8 p.protocolVersion).1 decU8 p.flags
    have l4 := get_rest_le (((b.get (decBin p.protocolName) p.protocolName).1.get decU8 p.protocolVersion).1.get decU8 p.flags).1 decU16 p.keepAlive
    simp only [Connect.elems] at *
    omega

theorem Connect.readProps_ok : StageOK Connect.elems Connect.readProps := by
  constructor
  · intro p b hs
    exact (getAny_safe b Connect.table (lastBin p.binInit) hs).1
  · intro p b hs
    unfold Connect.readProps
    simp only []
    have h := (getAny_safe b Connect.table (lastBin p.binInit) hs).2
    have hf := foldl_elems_le Connect.elems Connect.applyOcc Connect.applyOcc_elems
      (b.getAny Connect.table (lastBin p.binInit)).2 p
    omega

theorem Connect.readClientID_ok : StageOK Connect.elems Connect.readClientID := by
  constructor
  · intro p b hs
    exact get_safe _ _ _ hs (noPanic_bin _)
  · intro p b _
    unfold Connect.readClientID
    simp only []
    have := get_rest_le b (decBin p.clientID) p.clientID
    simp only [Connect.elems] at *
    omega

/-- the will section replaces the will; its user properties are bounded by the bytes consumed -/
structure WillStageOK (f : Connect → Buf → Buf × Connect) : Prop where
  safe : ∀ p b, b.Safe → (f p b).1.Safe
  bound : ∀ p b, b.Safe → (f p b).2.elems + (f p b).1.rest.length ≤ p.elems + b.rest.length

theorem Connect.readWill_ok : WillStageOK Connect.readWill := by
  constructor
  · intro p b hs
    unfold Connect.readWill
    split
    · simp only []
      exact get_safe _ _ _ (get_safe _ _ _ (getAny_safe b Connect.willTable (lastBin fun _ => []) hs).1 (noPanic_bin _)) (noPanic_bin _)
    · exact hs
  · intro p b hs
    unfold Connect.readWill
    split
    · simp only []
      have g1 := getAny_safe b Connect.willTable (lastBin fun _ => []) hs
      generalize b.getAny Connect.willTable (lastBin fun _ => []) = g at g1 ⊢
      have k2 := get_rest_le g.1 (decBin []) ([] : Bytes)
      have k3 := get_rest_le (g.1.get (decBin []) []).1 (decBin p.willPayload) p.willPayload
      have fw := foldl_elems_le (fun (s : UInt32 × Publish) => s.2.userProps.length) Connect.applyWillOcc
        Connect.applyWillOcc_ups g.2 (p.willDelayInterval, (Publish.new.setQoS p.willQoS).setRetain (has p.flags Connect.fWillRetain))
      have hnew : ((Publish.new.setQoS p.willQoS).setRetain (has p.flags Connect.fWillRetain)).userProps.length = 0 := by
        simp [Publish.setRetain, Publish.setQoS, Publish.new]
      have g12 := g1.2
      simp only [] at fw
      rw [hnew] at fw
      simp only [Connect.elems]
      omega
    · simp

theorem Connect.readUsername_ok : StageOK Connect.elems Connect.readUsername := by
  constructor
  · intro p b hs
    unfold Connect.readUsername
    split
    · exact get_safe _ _ _ hs (noPanic_bin _)
    · exact hs
  · intro p b _
    unfold Connect.readUsername
    split
    · have := get_rest_le b (decBin p.username) p.username
      simp only [Connect.elems] at *
      omega
    · simp

theorem Connect.readPassword_ok : StageOK Connect.elems Connect.readPassword := by
  constructor
  · intro p b hs
    unfold Connect.readPassword
    split
    · exact get_safe _ _ _ hs (noPanic_bin _)
    · exact hs
  · intro p b _
    unfold Connect.readPassword
    split
    · have := get_rest_le b (decBin p.password) p.password
      simp only [Connect.elems] at *
      omega
    · simp

theorem Connect.unmarshal_safe (p : Connect) (data : Bytes) :
    (p.unmarshal data).2 ≠ .panic ∧ (p.unmarshal data).2 ≠ .hang
      ∧ (p.unmarshal data).1.elems ≤ p.elems + data.length := by
  unfold Connect.unmarshal
  simp only []
  have s1 := Connect.readHead_ok.safe p _ (safe_init data)
  have b1 := Connect.readHead_ok.bound p _ (safe_init data)
  generalize p.readHead { rest := data } = r1 at s1 b1 ⊢
  have s2 := Connect.readProps_ok.safe r1.2 r1.1 s1
  have b2 := Connect.readProps_ok.bound r1.2 r1.1 s1
  generalize r1.2.readProps r1.1 = r2 at s2 b2 ⊢
  have s3 := Connect.readClientID_ok.safe r2.2 r2.1 s2
  have b3 := Connect.readClientID_ok.bound r2.2 r2.1 s2
  generalize r2.2.readClientID r2.1 = r3 at s3 b3 ⊢
  have s4 := Connect.readWill_ok.safe r3.2 r3.1 s3
  have b4 := Connect.readWill_ok.bound r3.2 r3.1 s3
  generalize r3.2.readWill r3.1 = r4 at s4 b4 ⊢
  have s5 := Connect.readUsername_ok.safe r4.2 r4.1 s4
  have b5 := Connect.readUsername_ok.bound r4.2 r4.1 s4
  generalize r4.2.readUsername r4.1 = r5 at s5 b5 ⊢
  have s6 := Connect.readPassword_ok.safe r5.2 r5.1 s5
  have b6 := Connect.readPassword_ok.bound r5.2 r5.1 s5
  generalize r5.2.readPassword r5.1 = r6 at s6 b6 ⊢
  refine ⟨s6.1, s6.2, ?_⟩
  simp only [] at b1
  omega

end Mq
