import Proofs.Tie.Basic
namespace Mq.Tie
open Mq

/-! ## T5 — ranges over maps -/

/-- every `range` over a map on an encoding/rendering path ranges over a map literal with at most
one entry -/
theorem T5_map_ranges : Facts.mapRanges.all (fun m => !m.encoderPath || (0 ≤ m.size && m.size ≤ 1)) = true := by decide


end Mq.Tie
