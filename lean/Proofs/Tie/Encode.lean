import Proofs.Tie.Basic
import Proofs.EncodeFields
namespace Mq.Tie
open Mq

/-! ## T2 — encoder property order = the `fillProp` sequence of each `properties` method (source facts) -/

theorem T2_connect (p : Connect) : kinds (connectFields p) ++ up = order "Connect.properties" := by
  simp only [kinds, connectFields, List.map_cons, List.map_nil, WVal.kind]; decide

theorem T2_will (p : Connect) (w : Publish) : kinds (willFields p w) ++ up = order "Connect.payload(will)" := by
  simp only [kinds, willFields, List.map_cons, List.map_nil, WVal.kind]; decide

theorem T2_connack (p : ConnAck) : kinds (connackFields p) ++ up = order "ConnAck.properties" := by
  simp only [kinds, connackFields, List.map_cons, List.map_nil, WVal.kind]; decide

theorem T2_publish (p : Publish) : kinds (publishFields p) ++ up ++ [(11, .vb)] = order "Publish.properties" := by
  simp only [kinds, publishFields, List.map_cons, List.map_nil, WVal.kind]; decide

theorem T2_acks : [(31, WKind.bin)] ++ up = order "PubAck.properties" ∧ order "PubRec.properties" = order "PubAck.properties"
    ∧ order "PubRel.properties" = order "PubAck.properties" ∧ order "PubComp.properties" = order "PubAck.properties" := by decide

theorem T2_disconnect : [(17, WKind.u32), (31, .bin), (28, .bin)] ++ up = order "Disconnect.properties" := by decide

theorem T2_auth : [(21, WKind.bin), (22, .bin), (31, .bin)] ++ up = order "Auth.properties" := by decide

/-- SUBSCRIBE, SUBACK, UNSUBACK write their single property by ranging over the one-entry map
(`T1_subscribe`, `T1_subacks`, `T5_map_ranges`), then the user properties -/
theorem T2_ranged : order "Subscribe.properties" = [(0, .u8), (38, .pair)]
    ∧ order "SubAck.properties" = [(0, .u8), (38, .pair)] ∧ order "UnsubAck.properties" = [(0, .u8), (38, .pair)] := by decide

end Mq.Tie
