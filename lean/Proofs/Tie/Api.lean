import Mq.Generated.Api
import Mq.Ops
/-!
# Proofs.Tie.Api — the API model is the source, translated

`Mq/Generated/Api.lean` is regenerated on every run from the exported `Set…`/`Add…` methods of
/repo (extract/apigen.go): which field each call stores into, which flag bit it toggles with which
condition, what it appends to. The theorems say that the hand-written `<Type>.apply` of `Mq/Ops.lean`
— the model of the public API that C12, `C01_api`/`C02_api` and the reachability invariants
(`Proofs/Reach.lean`) are about — is that translation, for every `SetOp`.
-/
namespace Mq.Tie.Api
open Mq

theorem auth_api (p : Auth) (op : SetOp) : Gen.Auth.api p op = p.apply op := by
  cases op <;> rfl

theorem connAck_api (p : ConnAck) (op : SetOp) : Gen.ConnAck.api p op = p.apply op := by
  cases op <;> rfl

theorem connect_api (p : Connect) (op : SetOp) : Gen.Connect.api p op = p.apply op := by
  cases op <;> first | rfl | (rename_i v; cases v <;> rfl)

theorem disconnect_api (p : Disconnect) (op : SetOp) : Gen.Disconnect.api p op = p.apply op := by
  cases op <;> rfl

theorem pubAck_api (p : Ack) (op : SetOp) : Gen.PubAck.api p op = p.apply op := by
  cases op <;> rfl

theorem pubComp_api (p : Ack) (op : SetOp) : Gen.PubComp.api p op = p.apply op := by
  cases op <;> rfl

theorem pubRec_api (p : Ack) (op : SetOp) : Gen.PubRec.api p op = p.apply op := by
  cases op <;> rfl

theorem pubRel_api (p : Ack) (op : SetOp) : Gen.PubRel.api p op = p.apply op := by
  cases op <;> rfl

theorem mask6 : (249 : UInt8) = ~~~(6 : UInt8) := by decide

theorem publish_api (p : Publish) (op : SetOp) : Gen.Publish.api p op = p.apply op := by
  cases op <;> first | rfl | skip
  case setQoS v =>
    simp only [Gen.Publish.api, Publish.apply, Publish.setQoS, Option.some.injEq, mask6]
    by_cases h1 : v = 1
    · simp [h1, toggle]
    · by_cases h2 : v = 2
      · simp [h1, h2, toggle]
      · by_cases h3 : v = 3
        · simp [h1, h2, h3, toggle]
        · simp [h1, h2, h3]

theorem subAck_api (p : SubAck) (op : SetOp) : Gen.SubAck.api p op = p.apply op := by
  cases op <;> rfl

theorem subscribe_api (p : Subscribe) (op : SetOp) : Gen.Subscribe.api p op = p.apply op := by
  cases op <;> rfl

theorem unsubAck_api (p : SubAck) (op : SetOp) : Gen.UnsubAck.api p op = p.apply op := by
  cases op <;> rfl

theorem unsubscribe_api (p : Unsubscribe) (op : SetOp) : Gen.Unsubscribe.api p op = p.apply op := by
  cases op <;> rfl

theorem pingReq_api (p : Ping) (op : SetOp) : Gen.PingReq.api p op = none := rfl
theorem pingResp_api (p : Ping) (op : SetOp) : Gen.PingResp.api p op = none := rfl

/-! ## accessors: every exported accessor's value is the entry of that name in the model's `view` -/

theorem auth_accessors (p : Auth) : ∀ kv ∈ Gen.Auth.accessors p, kv ∈ p.view := by
  simp [Gen.Auth.accessors, Auth.view]

theorem connAck_accessors (p : ConnAck) : ∀ kv ∈ Gen.ConnAck.accessors p, kv ∈ p.view := by
  simp [Gen.ConnAck.accessors, ConnAck.view, ConnAck.sessionPresent]

theorem connect_accessors (p : Connect) : ∀ kv ∈ Gen.Connect.accessors p, kv ∈ p.view := by
  simp [Gen.Connect.accessors, Connect.view, Connect.fCleanStart]

theorem disconnect_accessors (p : Disconnect) : ∀ kv ∈ Gen.Disconnect.accessors p, kv ∈ p.view := by
  simp [Gen.Disconnect.accessors, Disconnect.view]

theorem pubAck_accessors (p : Ack) : ∀ kv ∈ Gen.PubAck.accessors p, kv ∈ p.view := by
  simp [Gen.PubAck.accessors, Ack.view]

theorem pubComp_accessors (p : Ack) : ∀ kv ∈ Gen.PubComp.accessors p, kv ∈ p.view := by
  simp [Gen.PubComp.accessors, Ack.view]

theorem pubRec_accessors (p : Ack) : ∀ kv ∈ Gen.PubRec.accessors p, kv ∈ p.view := by
  simp [Gen.PubRec.accessors, Ack.view]

theorem pubRel_accessors (p : Ack) : ∀ kv ∈ Gen.PubRel.accessors p, kv ∈ p.view := by
  simp [Gen.PubRel.accessors, Ack.view]

theorem publish_accessors (p : Publish) : ∀ kv ∈ Gen.Publish.accessors p, kv ∈ p.view := by
  simp [Gen.Publish.accessors, Publish.view, Publish.duplicate, Publish.retain]

theorem subAck_accessors (p : SubAck) : ∀ kv ∈ Gen.SubAck.accessors p, kv ∈ p.view := by
  simp [Gen.SubAck.accessors, SubAck.view]

theorem subscribe_accessors (p : Subscribe) : ∀ kv ∈ Gen.Subscribe.accessors p, kv ∈ p.view := by
  simp [Gen.Subscribe.accessors, Subscribe.view]

theorem unsubAck_accessors (p : SubAck) : ∀ kv ∈ Gen.UnsubAck.accessors p, kv ∈ p.view := by
  simp [Gen.UnsubAck.accessors, SubAck.view]

theorem unsubscribe_accessors (p : Unsubscribe) : ∀ kv ∈ Gen.Unsubscribe.accessors p, kv ∈ p.view := by
  simp [Gen.Unsubscribe.accessors, Unsubscribe.view]

theorem undefined_accessors (p : Undefined) : ∀ kv ∈ Gen.Undefined.accessors p, kv ∈ p.view := by
  simp [Gen.Undefined.accessors, Undefined.view]

/-- every exported setter was translated and has a `SetOp` constructor -/
theorem complete : Gen.untranslatedSetters = [] ∧ Gen.unmodelledSetters = [] ∧ Gen.untranslatedAccessors = [] := by decide

end Mq.Tie.Api
