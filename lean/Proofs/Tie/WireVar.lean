import Proofs.Tie.Wire
/-!
# Proofs.Tie.WireVar — strings, binary data and user properties of the source are the model's

`bindata.UnmarshalBinary` and `UserProp.UnmarshalBinary`/`fill`, rendered from `wiretypes.go` on every run
(extract/wiregen.go). Rests on `Proofs.Tie.Wire` for the two-byte length prefix.
-/
set_option linter.unusedSimpArgs false   -- a test may be spelled `== 0` or `<= 0`; an argument is used under one spelling only
namespace Mq.Tie.WireVar
open Mq Mq.Tie.Wire

/-- `make([]byte, n)` followed by `copy` from a source of exactly `n` bytes is the source -/
theorem copy_fresh (src : Bytes) (n : Nat) (h : src.length = n) : copyAt (List.replicate n 0) 0 src = src := by
  subst h
  unfold copyAt
  simp

/-- **`bindata.UnmarshalBinary`** (every string and binary field): length prefix, the guard `len(data) < length+2`,
the zero-length case that leaves the destination alone, the copy — and the width the cursor then advances by -/
theorem bindata_len (data : Bytes) : Gen.bindata.len data = binLen data := by
  unfold Gen.bindata.len binLen; rw [wuint16_dec]; cases decU16 data <;> rfl

theorem bindata_dec (old : Bytes) : Gen.bindata.dec old = decBin old := by
  funext data
  simp only [Gen.bindata.dec, decBin, bindata_len, Gen.bindata.width]
  by_cases h1 : data.length < binLen data + 2
  · simp [h1]
  · by_cases h2 : binLen data = 0
    · simp [h2]
    · have h2' : ¬ binLen data ≤ 0 := by omega
      have hs : (data.take (binLen data + 2)).drop 2 = (data.drop 2).take (binLen data) := by
        rw [List.drop_take]; simp
      have hl : ((data.drop 2).take (binLen data)).length = binLen data := by
        simp; omega
      simp only [h1, h2, h2', if_false, hs, copy_fresh _ _ hl, hl]

/-- **`UserProp.UnmarshalBinary`**: key, the offset of the value, value, and the width -/
theorem userProp_dec : Gen.UserProp.dec = decPair := by
  funext data
  simp only [Gen.UserProp.dec, decPair, bindata_dec, Gen.UserProp.width, Gen.bindata.width]
  cases decBin [] data with
  | err e => rfl
  | panic => rfl
  | ok k w =>
    simp only []
    by_cases h : k.length + 2 > data.length
    · simp [h]
    · simp only [h, if_false]
      cases decBin [] (data.drop (k.length + 2)) <;> rfl

theorem userProp_fill (kv : Bytes × Bytes) : Gen.UserProp.fill kv = fillPair kv.1 kv.2 := by
  funext b i
  simp only [Gen.UserProp.fill, fillPair, bindata_fill, Gen.UserProp.width, Gen.bindata.width]

/-- **`rawdata.UnmarshalBinary`** (the PUBLISH payload): a copy of everything that is left -/
theorem rawdata_dec : Gen.rawdata.dec = decRaw := by
  funext data
  simp only [Gen.rawdata.dec, decRaw, Gen.rawdata.width, copy_fresh data data.length rfl]

/-- **`UserProperties.properties`** (the user properties of every packet type): every pair in order through
`UserProp.fillProp` — nothing for an empty key, else the identifier `UserProperty` and the pair -/
theorem userProps_fill (ups : UserProps) : Gen.UserProperties.properties ups = fillUserProps ups := by
  unfold Gen.UserProperties.properties fillUserProps
  have : ∀ kv : Bytes × Bytes, Gen.UserProp.fillProp 38 kv = fillProp 0x26 (.pair kv.1 kv.2) := by
    intro kv
    funext b i
    simp only [Gen.UserProp.fillProp, fillProp, WVal.isZero, fillV, ident_fill, userProp_fill]
    by_cases h : kv.1.isEmpty = true <;> simp [h]
  simp only [this]

/-- both error tests of `UserProp.UnmarshalBinary` read `err != nil` (the translator accepts the other spelling so that a
flip is refuted here) -/
theorem userProp_errTests : Gen.UserProp.errTests = true := by decide

theorem complete : Gen.untranslatedWireVar = [] := by decide

end Mq.Tie.WireVar
