import Mq.Generated.Wire
import Proofs.Fill
/-!
# Proofs.Tie.WireVb — the variable byte integer of the source is the model's

`vbint.UnmarshalBinary` (the in-memory decoder loop), `vbint.fill` (the encoder loop) and `vbint.width()`, rendered from
`wiretypes.go` on every run with their constants and comparison operators (extract/wiregen.go).
-/
namespace Mq.Tie.WireVb
open Mq

theorem vbint_width (n : Nat) : Gen.vbint.width n = vbWidth n := by
  show (fillVb n [] 0).2 = (encVb n).length
  exact (fillVbAux_sound n n (Nat.le_refl _)).1 [] 0

theorem mask127 : ∀ n, n < 256 → n &&& 127 = n % 128 := by decide +kernel
theorem cont128 : ∀ n, n < 256 → (n &&& 128 = 0 ↔ n < 128) := by decide +kernel

theorem vbint_decLoop : ∀ (d : Bytes) (m a : Nat), Gen.vbint.decLoop d m a = decVbLoop d m a := by
  intro d
  induction d with
  | nil => intro m a; rfl
  | cons b rest ih =>
    intro m a
    have hb : b.toNat < 256 := b.toNat_lt
    simp only [Gen.vbint.decLoop, decVbLoop, mask127 _ hb, vbint_width, ih]
    by_cases hm : m > 128 * 128 * 128
    · simp [hm]
    · by_cases hc : b.toNat < 128
      · simp [hm, hc, (cont128 _ hb).mpr hc]
      · have : ¬ (b.toNat &&& 128 = 0) := fun h => hc ((cont128 _ hb).mp h)
        simp [hm, hc, this]

/-- **`vbint.UnmarshalBinary`**: the multiplier test, the continuation bit, the end of data -/
theorem vbint_dec : Gen.vbint.dec = decVb := by
  funext data
  unfold Gen.vbint.dec decVb
  cases data with
  | nil => rfl
  | cons b rest => simp [vbint_decLoop]

theorem or128 : ∀ n, n < 128 → n ||| 128 = n + 128 := by decide +kernel

theorem vbint_fillAux : ∀ (fuel x : Nat) (b : Bytes) (i : Nat), Gen.vbint.fillAux fuel x b i = fillVbAux fuel x b i := by
  intro fuel
  induction fuel with
  | zero => intro x b i; rfl
  | succ fuel ih =>
    intro x b i
    simp only [Gen.vbint.fillAux, fillVbAux, or128 _ (Nat.mod_lt x (by decide : 128 > 0)), ih]

/-- **`vbint.fill`**: the encoder loop (seven bits per byte, continuation bit on all but the last) -/
theorem vbint_fill (v : Nat) : Gen.vbint.fill v = fillVb v := by
  funext b i; exact vbint_fillAux v v b i

theorem complete : Gen.untranslatedWireVb = [] := by decide

end Mq.Tie.WireVb
