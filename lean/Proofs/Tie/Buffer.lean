import Mq.Generated.Buffer
/-!
# Proofs.Tie.Buffer — the cursor of `buffer.go`, as the source keeps it, refines the model's cursor

`Mq/Generated/Buffer.lean` is regenerated on every run from `buffer.go` (extract/bufgen.go): `get`, `atEnd` and the
property loop `getAny` over the representation of the Go code — the whole data, the offset `i`, the first error — with
the comparison operators of every guard taken from the source. The model (`Mq/Buf.lean`) keeps only the unread rest.
Here: under the invariant `i ≤ len(data)` (true of a fresh buffer, preserved by every call) the abstraction
`rest = data[i:]` commutes with every operation — same status, same decoded values, same unread bytes.
-/
set_option linter.unusedSimpArgs false   -- the guards are spelled by the source; an argument is used under one spelling only
namespace Mq.Tie.Buffer
open Mq Mq.Gen

/-- what the model keeps of the Go buffer -/
def abs (b : IBuf) : Buf := { rest := b.data.drop b.i, st := b.st }

/-- the invariant of the Go buffer -/
def Inv (b : IBuf) : Prop := b.i ≤ b.data.length

theorem inv_fresh (data : Bytes) : Inv { data := data, i := 0 } := Nat.zero_le _
theorem abs_fresh (data : Bytes) : abs { data := data, i := 0 } = { rest := data } := by simp [abs]

theorem rest_length (b : IBuf) : (abs b).rest.length = b.data.length - b.i := by
  simp [abs]

theorem atEnd_eq (b : IBuf) (h : Inv b) : b.atEnd = decide ((abs b).rest = []) := by
  unfold Inv at h
  unfold IBuf.atEnd abs
  apply decide_eq_decide.mpr
  show _ ↔ b.data.drop b.i = []
  constructor <;> intro hh <;> simp only [List.drop_eq_nil_iff] at * <;> omega

/-- one `get`: the abstraction commutes, the invariant is kept, the data is not touched, the offset does not go back.
(The proof does not depend on how the source spells a guard: `b.i >= len(b.data)` and `b.i == len(b.data)` are the
same test under the invariant, and either is accepted.) -/
theorem get_refines {α} (b : IBuf) (h : Inv b) (dec : Dec α) (old : α) :
    abs (b.get dec old).1 = ((abs b).get dec old).1 ∧ (b.get dec old).2 = ((abs b).get dec old).2
    ∧ Inv (b.get dec old).1 ∧ (b.get dec old).1.data = b.data ∧ b.i ≤ (b.get dec old).1.i := by
  unfold Inv at *
  unfold IBuf.get Buf.get
  cases hs : b.st with
  | err e => simp [abs, hs, h]
  | panic => simp [abs, hs, h]
  | hang => simp [abs, hs, h]
  | ok =>
    have hst' : (abs b).st = .ok := hs
    have hrest : (abs b).rest = b.data.drop b.i := rfl
    simp only [hst', hrest, ne_eq, not_true_eq_false, if_false, List.drop_eq_nil_iff, List.length_drop]
    by_cases hi : b.data.length ≤ b.i
    · have e : b.i = b.data.length := by omega
      simp [abs, hi, e]
    · have h1 : ¬ b.i ≥ b.data.length := by omega
      have h2 : ¬ b.i = b.data.length := by omega
      have h3 : ¬ b.i > b.data.length := by omega
      simp only [hi, h1, h2, h3, h, if_false, if_true]
      cases hd : dec (b.data.drop b.i) with
      | err e => simp [abs, h]
      | panic => simp [abs, h]
      | ok v w =>
        by_cases hw : w ≤ b.data.length - b.i
        · have g1 : ¬ b.i + w > b.data.length := by omega
          simp only [hw, g1, if_true, if_false]
          simp [abs, List.drop_drop, Nat.add_comm]; omega
        · have g1 : b.i + w > b.data.length := by omega
          simp only [hw, g1, if_true, if_false]
          simp [abs, h]

/-- `get` as one fact about the pair it returns -/
theorem get_pair {α} (b : IBuf) (h : Inv b) (dec : Dec α) (old : α) (b1 : IBuf) (v : α)
    (hr : b.get dec old = (b1, v)) :
    (abs b).get dec old = (abs b1, v) ∧ Inv b1 ∧ b1.data = b.data ∧ b.i ≤ b1.i := by
  have := get_refines b h dec old
  rw [hr] at this
  obtain ⟨h1, h2, h3, h4, h5⟩ := this
  refine ⟨?_, h3, h4, h5⟩
  simp only at h1 h2
  rw [h1, h2]

/-- the property loop: the loop test `b.i < end` with `end = i0 + plen` is the model's test on the bytes consumed since
the loop was entered at offset `i0` -/
theorem loop_refines (tbl : PropTable) (oldOf : UInt8 → List PropOcc → Bytes) (len i0 plen : Nat) :
    ∀ (fuel : Nat) (b : IBuf) (acc : List PropOcc), Inv b → b.data.length = len → i0 ≤ b.i →
      abs (IBuf.getAnyLoop tbl oldOf (i0 + plen) fuel b acc).1 = (getAnyLoop tbl oldOf (len - i0) plen fuel (abs b) acc).1
      ∧ (IBuf.getAnyLoop tbl oldOf (i0 + plen) fuel b acc).2 = (getAnyLoop tbl oldOf (len - i0) plen fuel (abs b) acc).2
      ∧ Inv (IBuf.getAnyLoop tbl oldOf (i0 + plen) fuel b acc).1
      ∧ (IBuf.getAnyLoop tbl oldOf (i0 + plen) fuel b acc).1.data.length = len := by
  intro fuel
  induction fuel with
  | zero =>
    intro b acc h hl _
    simp only [IBuf.getAnyLoop, getAnyLoop]
    exact ⟨by simp [abs], trivial, h, hl⟩
  | succ fuel ih =>
    intro b acc h hl h0
    have hlen : (abs b).rest.length = len - b.i := by rw [rest_length, hl]
    have hI : b.i ≤ len := hl ▸ h
    simp only [IBuf.getAnyLoop, getAnyLoop, hlen]
    by_cases hc : b.i < i0 + plen
    · have hc' : len - i0 - (len - b.i) < plen := by omega
      simp only [hc, hc', if_true]
      rcases hr : b.get decU8 0 with ⟨b1, id⟩
      obtain ⟨e1, i1, d1, m1⟩ := get_pair b h decU8 0 b1 id hr
      simp only [e1]
      have hst : (abs b1).st = b1.st := rfl
      simp only [hst]
      have hl1 : b1.data.length = len := by rw [d1, hl]
      have h01 : i0 ≤ b1.i := Nat.le_trans h0 m1
      by_cases hs1 : b1.st = .ok
      · simp only [hs1, ne_eq, not_true_eq_false, if_false]
        cases hk : tbl.lookup id with
        | some k =>
          simp only []
          rcases hr2 : b1.get (decK (oldOf id acc) k) (.u8 0) with ⟨b2, v⟩
          obtain ⟨e2, i2, d2, m2⟩ := get_pair b1 i1 _ _ b2 v hr2
          simp only [e2, show (abs b2).st = b2.st from rfl]
          have hl2 : b2.data.length = len := by rw [d2, hl1]
          by_cases hs2 : b2.st = .ok
          · simp only [hs2, if_true]; exact ih b2 _ i2 hl2 (Nat.le_trans h01 m2)
          · simp only [hs2, if_false]; exact ih b2 _ i2 hl2 (Nat.le_trans h01 m2)
        | none =>
          simp only []
          split
          · rcases hr2 : b1.get (decK [] .pair) (.u8 0) with ⟨b2, v⟩
            obtain ⟨e2, i2, d2, m2⟩ := get_pair b1 i1 _ _ b2 v hr2
            simp only [e2, show (abs b2).st = b2.st from rfl]
            have hl2 : b2.data.length = len := by rw [d2, hl1]
            by_cases hs2 : b2.st = .ok
            · simp only [hs2, if_true]; exact ih b2 _ i2 hl2 (Nat.le_trans h01 m2)
            · simp only [hs2, if_false]; exact ih b2 _ i2 hl2 (Nat.le_trans h01 m2)
          · split
            · rcases hr2 : b1.get (decK [] .vb) (.u8 0) with ⟨b2, v⟩
              obtain ⟨e2, i2, d2, m2⟩ := get_pair b1 i1 _ _ b2 v hr2
              simp only [e2, show (abs b2).st = b2.st from rfl]
              have hl2 : b2.data.length = len := by rw [d2, hl1]
              by_cases hs2 : b2.st = .ok
              · simp only [hs2, if_true]; exact ih b2 _ i2 hl2 (Nat.le_trans h01 m2)
              · simp only [hs2, if_false]; exact ih b2 _ i2 hl2 (Nat.le_trans h01 m2)
            · exact ih { b1 with st := .err (.unknownProp id) } _ i1 hl1 h01
      · simp only [hs1, ne_eq, not_false_eq_true, if_true]
        exact ⟨trivial, trivial, i1, hl1⟩
    · have hc' : ¬ (len - i0 - (len - b.i) < plen) := by omega
      simp only [hc, hc', if_false]
      exact ⟨trivial, trivial, h, hl⟩

/-- **`getAny`** -/
theorem getAny_refines (b : IBuf) (h : Inv b) (tbl : PropTable) (oldOf : UInt8 → List PropOcc → Bytes) :
    abs (b.getAny tbl oldOf).1 = ((abs b).getAny tbl oldOf).1 ∧ (b.getAny tbl oldOf).2 = ((abs b).getAny tbl oldOf).2
    ∧ Inv (b.getAny tbl oldOf).1 ∧ (b.getAny tbl oldOf).1.data.length = b.data.length := by
  unfold IBuf.getAny Buf.getAny
  rw [atEnd_eq b h]
  by_cases hn : (abs b).rest = []
  · simp only [hn, decide_true, if_true]; exact ⟨trivial, trivial, h, trivial⟩
  · simp only [hn, decide_false, if_false, Bool.false_eq_true]
    rcases hr : b.get decVb 0 with ⟨b1, plen⟩
    obtain ⟨e1, i1, d1, m1⟩ := get_pair b h decVb 0 b1 plen hr
    simp only [e1]
    have := loop_refines tbl oldOf b1.data.length b1.i plen (b1.data.length - b1.i + 1) b1 [] i1 rfl (Nat.le_refl _)
    rw [rest_length]
    exact ⟨this.1, this.2.1, this.2.2.1, by rw [this.2.2.2, d1]⟩

end Mq.Tie.Buffer
