import Mq.Generated.Dec
import Mq.Stage
/-!
# Proofs.Tie.Dec — the decoder model is the source, translated

`Mq/Generated/Dec.lean` is regenerated on every run from /repo's `UnmarshalBinary` methods and the
`propertyMap`/`willPropertyMap` literals they pass to `getAny` (extract/decgen.go): every `get`,
every `getAny` with its map (which identifier decodes into which field, with which wire type),
every condition. The theorems below say that the hand-written decoders of `Mq/Packet/*.lean` — the
ones C03, C04, C05, C09, C14, C16 are about — *are* those translations.

Four idioms are matched on their exact source text and carried by hand-written stages
(`Mq/Stage.lean`): the CONNECT will block, the SUBSCRIBE and UNSUBSCRIBE filter loops, the
SUBACK/UNSUBACK reason-code loop (plus the copy in `Undefined`). For those the tie is: the source
still reads as it did when the stage was written.
-/
namespace Mq.Tie.Dec
open Mq

/-- the old content of string destinations only matters for identifiers the table maps to a string -/
theorem getAnyLoop_congr (tbl : PropTable) (o1 o2 : UInt8 → List PropOcc → Bytes)
    (h : ∀ id acc, tbl.lookup id = some .bin → o1 id acc = o2 id acc) (n0 plen : Nat) :
    ∀ fuel b acc, getAnyLoop tbl o1 n0 plen fuel b acc = getAnyLoop tbl o2 n0 plen fuel b acc := by
  intro fuel
  induction fuel with
  | zero => intro b acc; rfl
  | succ n ih =>
    intro b acc
    unfold getAnyLoop
    by_cases hc : n0 - b.rest.length < plen
    · simp only [hc, if_true]
      generalize b.get decU8 0 = r
      obtain ⟨b1, id⟩ := r
      by_cases hs : b1.st ≠ .ok
      · rw [if_pos hs, if_pos hs]
      · rw [if_neg hs, if_neg hs]
        cases hl : tbl.lookup id with
        | none => simp only [ih]
        | some k =>
          have hk : decK (o1 id acc) k = decK (o2 id acc) k := by
            cases k <;> first | rfl | (simp only [decK]; rw [h id acc hl])
          simp only [hk, ih]
    · simp only [hc, if_false]

theorem getAny_congr (b : Buf) (tbl : PropTable) (o1 o2 : UInt8 → List PropOcc → Bytes)
    (h : ∀ id acc, tbl.lookup id = some .bin → o1 id acc = o2 id acc) : b.getAny tbl o1 = b.getAny tbl o2 := by
  unfold Buf.getAny
  split
  · rfl
  · simp only [getAnyLoop_congr tbl o1 o2 h]

theorem lastBin_congr (i1 i2 : UInt8 → Bytes) (id : UInt8) (acc : List PropOcc) (h : i1 id = i2 id) :
    lastBin i1 id acc = lastBin i2 id acc := by
  simp only [lastBin, h]

/-! ## property maps -/

theorem connect_table : Gen.Connect.propertyMap.table = Connect.table := rfl
theorem connect_binInit (p : Connect) : Gen.Connect.propertyMap.binInit p = p.binInit := rfl
theorem connect_apply : Gen.Connect.propertyMap.apply = Connect.applyOcc := by
  funext p o; unfold Gen.Connect.propertyMap.apply Connect.applyOcc; cases o.val <;> rfl
theorem connect_willTable : Gen.Connect.willPropertyMap.table = Connect.willTable := rfl
theorem connect_willApply : Gen.Connect.willPropertyMap.apply = Connect.applyWillOcc := by
  funext s o; unfold Gen.Connect.willPropertyMap.apply Connect.applyWillOcc; cases o.val <;> rfl

theorem connack_table : Gen.ConnAck.propertyMap.table = ConnAck.table := rfl
theorem connack_binInit (p : ConnAck) : Gen.ConnAck.propertyMap.binInit p = p.binInit := rfl
theorem connack_apply : Gen.ConnAck.propertyMap.apply = ConnAck.applyOcc := by
  funext p o; unfold Gen.ConnAck.propertyMap.apply ConnAck.applyOcc; cases o.val <;> rfl

theorem publish_table : Gen.Publish.propertyMap.table = Publish.table := rfl
theorem publish_binInit (p : Publish) : Gen.Publish.propertyMap.binInit p = p.binInit := rfl
theorem publish_apply : Gen.Publish.propertyMap.apply = Publish.applyOcc := by
  funext p o; unfold Gen.Publish.propertyMap.apply Publish.applyOcc; cases o.val <;> rfl

theorem disconnect_table : Gen.Disconnect.propertyMap.table = Disconnect.table := rfl
theorem disconnect_binInit (p : Disconnect) : Gen.Disconnect.propertyMap.binInit p = p.binInit := rfl
theorem disconnect_apply : Gen.Disconnect.propertyMap.apply = Disconnect.applyOcc := by
  funext p o; unfold Gen.Disconnect.propertyMap.apply Disconnect.applyOcc; cases o.val <;> rfl

theorem auth_table : Gen.Auth.propertyMap.table = Auth.table := rfl
theorem auth_binInit (p : Auth) : Gen.Auth.propertyMap.binInit p = p.binInit := rfl
theorem auth_apply : Gen.Auth.propertyMap.apply = Auth.applyOcc := by
  funext p o; unfold Gen.Auth.propertyMap.apply Auth.applyOcc; cases o.val <;> rfl

/-! ## `UnmarshalBinary` -/

theorem connack_unmarshal (p : ConnAck) (data : Bytes) : Gen.ConnAck.unmarshal p data = p.unmarshal data := by
  simp only [Gen.ConnAck.unmarshal, connack_table, connack_apply]; rfl

theorem disconnect_unmarshal (p : Disconnect) (data : Bytes) : Gen.Disconnect.unmarshal p data = p.unmarshal data := by
  simp only [Gen.Disconnect.unmarshal, disconnect_table, disconnect_apply]; rfl

theorem auth_unmarshal (p : Auth) (data : Bytes) : Gen.Auth.unmarshal p data = p.unmarshal data := by
  simp only [Gen.Auth.unmarshal, auth_table, auth_apply]; rfl

theorem pingreq_unmarshal (p : Ping) (data : Bytes) : Gen.PingReq.unmarshal p data = p.unmarshal data := rfl
theorem pingresp_unmarshal (p : Ping) (data : Bytes) : Gen.PingResp.unmarshal p data = p.unmarshal data := rfl
theorem undefined_unmarshal (p : Undefined) (data : Bytes) : Gen.Undefined.unmarshal p data = p.unmarshal data := rfl

theorem publish_unmarshal (p : Publish) (data : Bytes) : Gen.Publish.unmarshal p data = p.unmarshal data := by
  simp only [Gen.Publish.unmarshal, publish_table, publish_apply]; rfl

theorem pubAck_table : Gen.PubAck.propertyMap.table = Ack.table := rfl
theorem pubAck_apply : Gen.PubAck.propertyMap.apply = Ack.applyOcc := by
  funext p o; unfold Gen.PubAck.propertyMap.apply Ack.applyOcc; cases o.val <;> rfl
theorem pubAck_old (p : Ack) (b : Buf) :
    b.getAny Ack.table (lastBin (Gen.PubAck.propertyMap.binInit p)) = b.getAny Ack.table (lastBin fun _ => p.reason) :=
  getAny_congr b _ _ _ (fun id acc h => lastBin_congr _ _ id acc (by
    have : id = 0x1f := by
      simp only [Ack.table, List.lookup] at h
      split at h <;> simp_all
    subst this; rfl))
theorem pubAck_unmarshal (p : Ack) (data : Bytes) : Gen.PubAck.unmarshal p data = p.unmarshal data := by
  simp only [Gen.PubAck.unmarshal, pubAck_table, pubAck_apply, Stage.run, Stage.seq, Stage.when, Stage.get, Stage.props, List.foldl,
    pubAck_old, Ack.unmarshal]
  split <;> rfl

theorem pubRec_table : Gen.PubRec.propertyMap.table = Ack.table := rfl
theorem pubRec_apply : Gen.PubRec.propertyMap.apply = Ack.applyOcc := by
  funext p o; unfold Gen.PubRec.propertyMap.apply Ack.applyOcc; cases o.val <;> rfl
theorem pubRec_old (p : Ack) (b : Buf) :
    b.getAny Ack.table (lastBin (Gen.PubRec.propertyMap.binInit p)) = b.getAny Ack.table (lastBin fun _ => p.reason) :=
  getAny_congr b _ _ _ (fun id acc h => lastBin_congr _ _ id acc (by
    have : id = 0x1f := by
      simp only [Ack.table, List.lookup] at h
      split at h <;> simp_all
    subst this; rfl))
theorem pubRec_unmarshal (p : Ack) (data : Bytes) : Gen.PubRec.unmarshal p data = p.unmarshal data := by
  simp only [Gen.PubRec.unmarshal, pubRec_table, pubRec_apply, Stage.run, Stage.seq, Stage.when, Stage.get, Stage.props, List.foldl,
    pubRec_old, Ack.unmarshal]
  split <;> rfl

theorem pubRel_table : Gen.PubRel.propertyMap.table = Ack.table := rfl
theorem pubRel_apply : Gen.PubRel.propertyMap.apply = Ack.applyOcc := by
  funext p o; unfold Gen.PubRel.propertyMap.apply Ack.applyOcc; cases o.val <;> rfl
theorem pubRel_old (p : Ack) (b : Buf) :
    b.getAny Ack.table (lastBin (Gen.PubRel.propertyMap.binInit p)) = b.getAny Ack.table (lastBin fun _ => p.reason) :=
  getAny_congr b _ _ _ (fun id acc h => lastBin_congr _ _ id acc (by
    have : id = 0x1f := by
      simp only [Ack.table, List.lookup] at h
      split at h <;> simp_all
    subst this; rfl))
theorem pubRel_unmarshal (p : Ack) (data : Bytes) : Gen.PubRel.unmarshal p data = p.unmarshal data := by
  simp only [Gen.PubRel.unmarshal, pubRel_table, pubRel_apply, Stage.run, Stage.seq, Stage.when, Stage.get, Stage.props, List.foldl,
    pubRel_old, Ack.unmarshal]
  split <;> rfl

theorem pubComp_table : Gen.PubComp.propertyMap.table = Ack.table := rfl
theorem pubComp_apply : Gen.PubComp.propertyMap.apply = Ack.applyOcc := by
  funext p o; unfold Gen.PubComp.propertyMap.apply Ack.applyOcc; cases o.val <;> rfl
theorem pubComp_old (p : Ack) (b : Buf) :
    b.getAny Ack.table (lastBin (Gen.PubComp.propertyMap.binInit p)) = b.getAny Ack.table (lastBin fun _ => p.reason) :=
  getAny_congr b _ _ _ (fun id acc h => lastBin_congr _ _ id acc (by
    have : id = 0x1f := by
      simp only [Ack.table, List.lookup] at h
      split at h <;> simp_all
    subst this; rfl))
theorem pubComp_unmarshal (p : Ack) (data : Bytes) : Gen.PubComp.unmarshal p data = p.unmarshal data := by
  simp only [Gen.PubComp.unmarshal, pubComp_table, pubComp_apply, Stage.run, Stage.seq, Stage.when, Stage.get, Stage.props, List.foldl,
    pubComp_old, Ack.unmarshal]
  split <;> rfl

theorem subAck_table : Gen.SubAck.propertyMap.table = SubAck.table := rfl
theorem subAck_apply : Gen.SubAck.propertyMap.apply = SubAck.applyOcc := by
  funext p o; unfold Gen.SubAck.propertyMap.apply SubAck.applyOcc; cases o.val <;> rfl
theorem subAck_old (p : SubAck) (b : Buf) :
    b.getAny SubAck.table (lastBin (Gen.SubAck.propertyMap.binInit p)) = b.getAny SubAck.table (lastBin fun _ => p.reasonString) :=
  getAny_congr b _ _ _ (fun id acc h => lastBin_congr _ _ id acc (by
    have : id = 0x1f := by
      simp only [SubAck.table, List.lookup] at h
      split at h <;> simp_all
    subst this; rfl))
theorem subAck_unmarshal (p : SubAck) (data : Bytes) : Gen.SubAck.unmarshal p data = p.unmarshal data := by
  simp only [Gen.SubAck.unmarshal, subAck_table, subAck_apply, Stage.run, Stage.seq, Stage.get, Stage.props, List.foldl,
    subAck_old, SubAck.unmarshal, SubAck.codesStage]

theorem unsubAck_table : Gen.UnsubAck.propertyMap.table = SubAck.table := rfl
theorem unsubAck_apply : Gen.UnsubAck.propertyMap.apply = SubAck.applyOcc := by
  funext p o; unfold Gen.UnsubAck.propertyMap.apply SubAck.applyOcc; cases o.val <;> rfl
theorem unsubAck_old (p : SubAck) (b : Buf) :
    b.getAny SubAck.table (lastBin (Gen.UnsubAck.propertyMap.binInit p)) = b.getAny SubAck.table (lastBin fun _ => p.reasonString) :=
  getAny_congr b _ _ _ (fun id acc h => lastBin_congr _ _ id acc (by
    have : id = 0x1f := by
      simp only [SubAck.table, List.lookup] at h
      split at h <;> simp_all
    subst this; rfl))
theorem unsubAck_unmarshal (p : SubAck) (data : Bytes) : Gen.UnsubAck.unmarshal p data = p.unmarshal data := by
  simp only [Gen.UnsubAck.unmarshal, unsubAck_table, unsubAck_apply, Stage.run, Stage.seq, Stage.get, Stage.props, List.foldl,
    unsubAck_old, SubAck.unmarshal, SubAck.codesStage]

theorem subscribe_table : Gen.Subscribe.propertyMap.table = Subscribe.table := rfl
theorem subscribe_apply : Gen.Subscribe.propertyMap.apply = Subscribe.applyOcc := by
  funext p o; unfold Gen.Subscribe.propertyMap.apply Subscribe.applyOcc; cases o.val <;> rfl
theorem subscribe_old (p : Subscribe) (b : Buf) :
    b.getAny Subscribe.table (lastBin (Gen.Subscribe.propertyMap.binInit p)) = b.getAny Subscribe.table noOld :=
  getAny_congr b _ _ _ (fun id acc h => by
    simp only [Subscribe.table, List.lookup] at h
    split at h <;> simp_all)
theorem subscribe_unmarshal (p : Subscribe) (data : Bytes) : Gen.Subscribe.unmarshal p data = p.unmarshal data := by
  simp only [Gen.Subscribe.unmarshal, subscribe_table, subscribe_apply, Stage.run, Stage.seq, Stage.get, Stage.props, List.foldl,
    subscribe_old, Subscribe.unmarshal, Subscribe.filterStage]

theorem unsubscribe_apply : Gen.Unsubscribe.nil.apply = Unsubscribe.applyOcc := by
  funext p o; unfold Gen.Unsubscribe.nil.apply Unsubscribe.applyOcc; cases o.val <;> rfl
theorem unsubscribe_old (p : Unsubscribe) (b : Buf) :
    b.getAny [] (lastBin (Gen.Unsubscribe.nil.binInit p)) = b.getAny [] noOld :=
  getAny_congr b _ _ _ (fun id acc h => by simp [List.lookup] at h)
theorem unsubscribe_unmarshal (p : Unsubscribe) (data : Bytes) : Gen.Unsubscribe.unmarshal p data = p.unmarshal data := by
  simp only [Gen.Unsubscribe.unmarshal, Gen.Unsubscribe.nil.table, unsubscribe_apply, Stage.run, Stage.seq, Stage.get, Stage.props,
    List.foldl, unsubscribe_old, Unsubscribe.unmarshal, Unsubscribe.filterStage]

theorem connect_head (s : Buf × Connect) :
    Stage.seq [Stage.get (fun p => decBin p.protocolName) (·.protocolName) (fun p v => { p with protocolName := v }),
      Stage.get (fun _ => decU8) (·.protocolVersion) (fun p v => { p with protocolVersion := v }),
      Stage.get (fun _ => decU8) (·.flags) (fun p v => { p with flags := v }),
      Stage.get (fun _ => decU16) (·.keepAlive) (fun p v => { p with keepAlive := v })] s = s.2.readHead s.1 := rfl

theorem connect_props (s : Buf × Connect) :
    Stage.props Connect.table (fun p => lastBin (Gen.Connect.propertyMap.binInit p)) Connect.applyOcc s = s.2.readProps s.1 := rfl

theorem connect_clientID (s : Buf × Connect) :
    Stage.get (fun p => decBin p.clientID) (·.clientID) (fun p v => { p with clientID := v }) s = s.2.readClientID s.1 := rfl

theorem connect_will (s : Buf × Connect) :
    Stage.when (fun s => has s.2.flags 4 = true) [Connect.willBlock Connect.willTable Connect.applyWillOcc] s = s.2.readWill s.1 := by
  unfold Stage.when Connect.readWill
  show (if has s.2.flags Connect.fWillFlag = true then _ else _) = _
  split <;> rfl

theorem connect_username (s : Buf × Connect) :
    Stage.when (fun s => has s.2.flags 128 = true)
      [Stage.get (fun p => decBin p.username) (·.username) (fun p v => { p with username := v })] s = s.2.readUsername s.1 := by
  unfold Stage.when Connect.readUsername
  show (if has s.2.flags Connect.fUsername = true then _ else _) = _
  split <;> rfl

theorem connect_password (s : Buf × Connect) :
    Stage.when (fun s => has s.2.flags 64 = true)
      [Stage.get (fun p => decBin p.password) (·.password) (fun p v => { p with password := v })] s = s.2.readPassword s.1 := by
  unfold Stage.when Connect.readPassword
  show (if has s.2.flags Connect.fPassword = true then _ else _) = _
  split <;> rfl

theorem seq_cons {α : Type} (f : Stage α) (fs : List (Stage α)) (s : Buf × α) : Stage.seq (f :: fs) s = Stage.seq fs (f s) := rfl
theorem seq_nil {α : Type} (s : Buf × α) : Stage.seq ([] : List (Stage α)) s = s := rfl

theorem connect_unmarshal (p : Connect) (data : Bytes) : Gen.Connect.unmarshal p data = p.unmarshal data := by
  simp only [Gen.Connect.unmarshal, connect_table, connect_apply, connect_willTable, connect_willApply, Stage.run]
  have h4 := connect_head ({ rest := data }, p)
  simp only [seq_cons, seq_nil] at h4
  simp only [seq_cons, seq_nil, h4, connect_props, connect_clientID, connect_will, connect_username, connect_password]
  rfl

/-- nothing was left untranslated -/
theorem all_translated : Gen.translatedDecoders.length = 16 := by decide

end Mq.Tie.Dec
