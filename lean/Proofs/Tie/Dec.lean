import Mq.Generated.Dec
import Mq.Stage
/-!
# Proofs.Tie.Dec — the decoder model is the source, translated

`Mq/Generated/Dec.lean` is regenerated on every run from /repo's `UnmarshalBinary` methods and the
`propertyMap`/`willPropertyMap` literals they pass to `getAny` (extract/decgen.go): every `get`,
every `getAny` with its map (which identifier decodes into which field, with which wire type),
every condition. The theorems below say that the hand-written decoders of `Mq/Packet/*.lean` — the
ones C03, C04, C05, C09, C14, C16 are about — *are* those translations.

The property maps are compared **as maps**: the generated table keeps the source order of the
literal, the proofs go through `lookup` (all 256 identifiers, `decide`), through the effect of one
occurrence by cases, and through congruence lemmas for the property loop — so reordering the entries
of a map literal, which means nothing in Go, breaks nothing here.

Four idioms are matched on their exact source text (up to the names of their local variables) and
carried by hand-written stages (`Mq/Stage.lean`): the CONNECT will block, the SUBSCRIBE and
UNSUBSCRIBE filter loops, the SUBACK/UNSUBACK reason-code loop (plus the copy in `Undefined`). For
those the tie is: the source still reads as it did when the stage was written.
-/
namespace Mq.Tie.Dec
open Mq

/-- the property loop depends on the table only through `lookup`, and on the old content of string
destinations only for identifiers the table maps to a string -/
theorem getAnyLoop_congr (t1 t2 : PropTable) (o1 o2 : UInt8 → List PropOcc → Bytes)
    (ht : ∀ id, t1.lookup id = t2.lookup id)
    (h : ∀ id acc, t1.lookup id = some .bin → o1 id acc = o2 id acc) (n0 plen : Nat) :
    ∀ fuel b acc, getAnyLoop t1 o1 n0 plen fuel b acc = getAnyLoop t2 o2 n0 plen fuel b acc := by
  intro fuel
  induction fuel with
  | zero => intro b acc; rfl
  | succ n ih =>
    intro b acc
    unfold getAnyLoop
    by_cases hc : n0 - b.rest.length < plen
    · simp only [hc, if_true]
      generalize b.get decU8 0 = r
      obtain ⟨b1, id⟩ := r
      by_cases hs : b1.st ≠ .ok
      · rw [if_pos hs, if_pos hs]
      · rw [if_neg hs, if_neg hs, ← ht id]
        cases hl : t1.lookup id with
        | none => simp only [ih]
        | some k =>
          have hk : decK (o1 id acc) k = decK (o2 id acc) k := by
            cases k <;> first | rfl | (simp only [decK]; rw [h id acc hl])
          simp only [hk, ih]
    · simp only [hc, if_false]

theorem getAny_congr (b : Buf) (t1 t2 : PropTable) (o1 o2 : UInt8 → List PropOcc → Bytes)
    (ht : ∀ id, t1.lookup id = t2.lookup id)
    (h : ∀ id acc, t1.lookup id = some .bin → o1 id acc = o2 id acc) : b.getAny t1 o1 = b.getAny t2 o2 := by
  unfold Buf.getAny
  split
  · rfl
  · simp only [getAnyLoop_congr t1 t2 o1 o2 ht h]

theorem lastBin_congr (i1 i2 : UInt8 → Bytes) (id : UInt8) (acc : List PropOcc) (h : i1 id = i2 id) :
    lastBin i1 id acc = lastBin i2 id acc := by
  simp only [lastBin, h]

/-- two tables agree as maps if they agree on all 256 identifiers -/
theorem lookup_all (t1 t2 : PropTable)
    (h : ∀ n : Fin 256, t1.lookup (UInt8.ofNat n.val) = t2.lookup (UInt8.ofNat n.val)) (id : UInt8) :
    t1.lookup id = t2.lookup id := by
  have := h ⟨id.toNat, id.toNat_lt⟩
  simpa using this

theorem props_congr {α : Type} (t1 t2 : PropTable) (o1 o2 : α → UInt8 → List PropOcc → Bytes) (a1 a2 : α → PropOcc → α)
    (ht : ∀ id, t1.lookup id = t2.lookup id)
    (ho : ∀ p id acc, t1.lookup id = some .bin → o1 p id acc = o2 p id acc) (ha : a1 = a2) :
    Stage.props t1 o1 a1 = Stage.props t2 o2 a2 := by
  funext s
  simp only [Stage.props, ha, getAny_congr s.1 t1 t2 (o1 s.2) (o2 s.2) ht (ho s.2)]

theorem willBlock_congr (t1 t2 : PropTable) (a1 a2 : UInt32 × Publish → PropOcc → UInt32 × Publish)
    (ht : ∀ id, t1.lookup id = t2.lookup id) (ha : a1 = a2) : Connect.willBlock t1 a1 = Connect.willBlock t2 a2 := by
  funext s
  simp only [Connect.willBlock, ha, getAny_congr s.1 t1 t2 _ _ ht (fun _ _ _ => rfl)]

/-! ## property maps, as maps -/

theorem connect_lookup : ∀ id, (Gen.Connect.propertyMap.table).lookup id = (Connect.table).lookup id :=
  lookup_all _ _ (by decide +kernel)
theorem connect_apply : Gen.Connect.propertyMap.apply = Connect.applyOcc := by
  funext p o; unfold Gen.Connect.propertyMap.apply Connect.applyOcc
  cases o.val <;> simp only [] <;> (repeat' split) <;> simp_all
theorem connect_binInit (p : Connect) (id : UInt8) : Gen.Connect.propertyMap.binInit p id = p.binInit id := by
  unfold Gen.Connect.propertyMap.binInit Connect.binInit
  (repeat' split) <;> simp_all
theorem connect_props :
    Stage.props Gen.Connect.propertyMap.table (fun p => lastBin (Gen.Connect.propertyMap.binInit p)) Gen.Connect.propertyMap.apply
      = Stage.props Connect.table (fun p => lastBin p.binInit) Connect.applyOcc :=
  props_congr _ _ _ _ _ _ connect_lookup (fun p id acc _ => lastBin_congr _ _ id acc (connect_binInit p id)) connect_apply

theorem connAck_lookup : ∀ id, (Gen.ConnAck.propertyMap.table).lookup id = (ConnAck.table).lookup id :=
  lookup_all _ _ (by decide +kernel)
theorem connAck_apply : Gen.ConnAck.propertyMap.apply = ConnAck.applyOcc := by
  funext p o; unfold Gen.ConnAck.propertyMap.apply ConnAck.applyOcc
  cases o.val <;> simp only [] <;> (repeat' split) <;> simp_all
theorem connAck_binInit (p : ConnAck) (id : UInt8) : Gen.ConnAck.propertyMap.binInit p id = p.binInit id := by
  unfold Gen.ConnAck.propertyMap.binInit ConnAck.binInit
  (repeat' split) <;> simp_all
theorem connAck_props :
    Stage.props Gen.ConnAck.propertyMap.table (fun p => lastBin (Gen.ConnAck.propertyMap.binInit p)) Gen.ConnAck.propertyMap.apply
      = Stage.props ConnAck.table (fun p => lastBin p.binInit) ConnAck.applyOcc :=
  props_congr _ _ _ _ _ _ connAck_lookup (fun p id acc _ => lastBin_congr _ _ id acc (connAck_binInit p id)) connAck_apply

theorem publish_lookup : ∀ id, (Gen.Publish.propertyMap.table).lookup id = (Publish.table).lookup id :=
  lookup_all _ _ (by decide +kernel)
theorem publish_apply : Gen.Publish.propertyMap.apply = Publish.applyOcc := by
  funext p o; unfold Gen.Publish.propertyMap.apply Publish.applyOcc
  cases o.val <;> simp only [] <;> (repeat' split) <;> simp_all
theorem publish_binInit (p : Publish) (id : UInt8) : Gen.Publish.propertyMap.binInit p id = p.binInit id := by
  unfold Gen.Publish.propertyMap.binInit Publish.binInit
  (repeat' split) <;> simp_all
theorem publish_props :
    Stage.props Gen.Publish.propertyMap.table (fun p => lastBin (Gen.Publish.propertyMap.binInit p)) Gen.Publish.propertyMap.apply
      = Stage.props Publish.table (fun p => lastBin p.binInit) Publish.applyOcc :=
  props_congr _ _ _ _ _ _ publish_lookup (fun p id acc _ => lastBin_congr _ _ id acc (publish_binInit p id)) publish_apply

theorem disconnect_lookup : ∀ id, (Gen.Disconnect.propertyMap.table).lookup id = (Disconnect.table).lookup id :=
  lookup_all _ _ (by decide +kernel)
theorem disconnect_apply : Gen.Disconnect.propertyMap.apply = Disconnect.applyOcc := by
  funext p o; unfold Gen.Disconnect.propertyMap.apply Disconnect.applyOcc
  cases o.val <;> simp only [] <;> (repeat' split) <;> simp_all
theorem disconnect_binInit (p : Disconnect) (id : UInt8) : Gen.Disconnect.propertyMap.binInit p id = p.binInit id := by
  unfold Gen.Disconnect.propertyMap.binInit Disconnect.binInit
  (repeat' split) <;> simp_all
theorem disconnect_props :
    Stage.props Gen.Disconnect.propertyMap.table (fun p => lastBin (Gen.Disconnect.propertyMap.binInit p)) Gen.Disconnect.propertyMap.apply
      = Stage.props Disconnect.table (fun p => lastBin p.binInit) Disconnect.applyOcc :=
  props_congr _ _ _ _ _ _ disconnect_lookup (fun p id acc _ => lastBin_congr _ _ id acc (disconnect_binInit p id)) disconnect_apply

theorem auth_lookup : ∀ id, (Gen.Auth.propertyMap.table).lookup id = (Auth.table).lookup id :=
  lookup_all _ _ (by decide +kernel)
theorem auth_apply : Gen.Auth.propertyMap.apply = Auth.applyOcc := by
  funext p o; unfold Gen.Auth.propertyMap.apply Auth.applyOcc
  cases o.val <;> simp only [] <;> (repeat' split) <;> simp_all
theorem auth_binInit (p : Auth) (id : UInt8) : Gen.Auth.propertyMap.binInit p id = p.binInit id := by
  unfold Gen.Auth.propertyMap.binInit Auth.binInit
  (repeat' split) <;> simp_all
theorem auth_props :
    Stage.props Gen.Auth.propertyMap.table (fun p => lastBin (Gen.Auth.propertyMap.binInit p)) Gen.Auth.propertyMap.apply
      = Stage.props Auth.table (fun p => lastBin p.binInit) Auth.applyOcc :=
  props_congr _ _ _ _ _ _ auth_lookup (fun p id acc _ => lastBin_congr _ _ id acc (auth_binInit p id)) auth_apply

theorem connect_willLookup : ∀ id, (Gen.Connect.willPropertyMap.table).lookup id = (Connect.willTable).lookup id :=
  lookup_all _ _ (by decide +kernel)
theorem connect_willApply : Gen.Connect.willPropertyMap.apply = Connect.applyWillOcc := by
  funext s o; unfold Gen.Connect.willPropertyMap.apply Connect.applyWillOcc
  cases o.val <;> simp only [] <;> (repeat' split) <;> simp_all
theorem connect_willBlock :
    Connect.willBlock Gen.Connect.willPropertyMap.table Gen.Connect.willPropertyMap.apply
      = Connect.willBlock Connect.willTable Connect.applyWillOcc :=
  willBlock_congr _ _ _ _ connect_willLookup connect_willApply

theorem pubAck_lookup : ∀ id, (Gen.PubAck.propertyMap.table).lookup id = (Ack.table).lookup id :=
  lookup_all _ _ (by decide +kernel)
theorem pubAck_apply : Gen.PubAck.propertyMap.apply = Ack.applyOcc := by
  funext p o; unfold Gen.PubAck.propertyMap.apply Ack.applyOcc
  cases o.val <;> simp only [] <;> (repeat' split) <;> simp_all
theorem pubAck_props :
    Stage.props Gen.PubAck.propertyMap.table (fun p => lastBin (Gen.PubAck.propertyMap.binInit p)) Gen.PubAck.propertyMap.apply
      = Stage.props Ack.table (fun p => lastBin fun _ => p.reason) Ack.applyOcc :=
  props_congr _ _ _ _ _ _ pubAck_lookup (fun p id acc h => lastBin_congr _ _ id acc (by
    have hid : id = 0x1f := by
      have h' := h
      rw [pubAck_lookup] at h'
      simp only [Ack.table, List.lookup] at h'
      split at h' <;> simp_all
    subst hid
    unfold Gen.PubAck.propertyMap.binInit
    (repeat' split) <;> simp_all)) pubAck_apply

theorem pubRec_lookup : ∀ id, (Gen.PubRec.propertyMap.table).lookup id = (Ack.table).lookup id :=
  lookup_all _ _ (by decide +kernel)
theorem pubRec_apply : Gen.PubRec.propertyMap.apply = Ack.applyOcc := by
  funext p o; unfold Gen.PubRec.propertyMap.apply Ack.applyOcc
  cases o.val <;> simp only [] <;> (repeat' split) <;> simp_all
theorem pubRec_props :
    Stage.props Gen.PubRec.propertyMap.table (fun p => lastBin (Gen.PubRec.propertyMap.binInit p)) Gen.PubRec.propertyMap.apply
      = Stage.props Ack.table (fun p => lastBin fun _ => p.reason) Ack.applyOcc :=
  props_congr _ _ _ _ _ _ pubRec_lookup (fun p id acc h => lastBin_congr _ _ id acc (by
    have hid : id = 0x1f := by
      have h' := h
      rw [pubRec_lookup] at h'
      simp only [Ack.table, List.lookup] at h'
      split at h' <;> simp_all
    subst hid
    unfold Gen.PubRec.propertyMap.binInit
    (repeat' split) <;> simp_all)) pubRec_apply

theorem pubRel_lookup : ∀ id, (Gen.PubRel.propertyMap.table).lookup id = (Ack.table).lookup id :=
  lookup_all _ _ (by decide +kernel)
theorem pubRel_apply : Gen.PubRel.propertyMap.apply = Ack.applyOcc := by
  funext p o; unfold Gen.PubRel.propertyMap.apply Ack.applyOcc
  cases o.val <;> simp only [] <;> (repeat' split) <;> simp_all
theorem pubRel_props :
    Stage.props Gen.PubRel.propertyMap.table (fun p => lastBin (Gen.PubRel.propertyMap.binInit p)) Gen.PubRel.propertyMap.apply
      = Stage.props Ack.table (fun p => lastBin fun _ => p.reason) Ack.applyOcc :=
  props_congr _ _ _ _ _ _ pubRel_lookup (fun p id acc h => lastBin_congr _ _ id acc (by
    have hid : id = 0x1f := by
      have h' := h
      rw [pubRel_lookup] at h'
      simp only [Ack.table, List.lookup] at h'
      split at h' <;> simp_all
    subst hid
    unfold Gen.PubRel.propertyMap.binInit
    (repeat' split) <;> simp_all)) pubRel_apply

theorem pubComp_lookup : ∀ id, (Gen.PubComp.propertyMap.table).lookup id = (Ack.table).lookup id :=
  lookup_all _ _ (by decide +kernel)
theorem pubComp_apply : Gen.PubComp.propertyMap.apply = Ack.applyOcc := by
  funext p o; unfold Gen.PubComp.propertyMap.apply Ack.applyOcc
  cases o.val <;> simp only [] <;> (repeat' split) <;> simp_all
theorem pubComp_props :
    Stage.props Gen.PubComp.propertyMap.table (fun p => lastBin (Gen.PubComp.propertyMap.binInit p)) Gen.PubComp.propertyMap.apply
      = Stage.props Ack.table (fun p => lastBin fun _ => p.reason) Ack.applyOcc :=
  props_congr _ _ _ _ _ _ pubComp_lookup (fun p id acc h => lastBin_congr _ _ id acc (by
    have hid : id = 0x1f := by
      have h' := h
      rw [pubComp_lookup] at h'
      simp only [Ack.table, List.lookup] at h'
      split at h' <;> simp_all
    subst hid
    unfold Gen.PubComp.propertyMap.binInit
    (repeat' split) <;> simp_all)) pubComp_apply

theorem subAck_lookup : ∀ id, (Gen.SubAck.propertyMap.table).lookup id = (SubAck.table).lookup id :=
  lookup_all _ _ (by decide +kernel)
theorem subAck_apply : Gen.SubAck.propertyMap.apply = SubAck.applyOcc := by
  funext p o; unfold Gen.SubAck.propertyMap.apply SubAck.applyOcc
  cases o.val <;> simp only [] <;> (repeat' split) <;> simp_all
theorem subAck_props :
    Stage.props Gen.SubAck.propertyMap.table (fun p => lastBin (Gen.SubAck.propertyMap.binInit p)) Gen.SubAck.propertyMap.apply
      = Stage.props SubAck.table (fun p => lastBin fun _ => p.reasonString) SubAck.applyOcc :=
  props_congr _ _ _ _ _ _ subAck_lookup (fun p id acc h => lastBin_congr _ _ id acc (by
    have hid : id = 0x1f := by
      have h' := h
      rw [subAck_lookup] at h'
      simp only [SubAck.table, List.lookup] at h'
      split at h' <;> simp_all
    subst hid
    unfold Gen.SubAck.propertyMap.binInit
    (repeat' split) <;> simp_all)) subAck_apply

theorem unsubAck_lookup : ∀ id, (Gen.UnsubAck.propertyMap.table).lookup id = (SubAck.table).lookup id :=
  lookup_all _ _ (by decide +kernel)
theorem unsubAck_apply : Gen.UnsubAck.propertyMap.apply = SubAck.applyOcc := by
  funext p o; unfold Gen.UnsubAck.propertyMap.apply SubAck.applyOcc
  cases o.val <;> simp only [] <;> (repeat' split) <;> simp_all
theorem unsubAck_props :
    Stage.props Gen.UnsubAck.propertyMap.table (fun p => lastBin (Gen.UnsubAck.propertyMap.binInit p)) Gen.UnsubAck.propertyMap.apply
      = Stage.props SubAck.table (fun p => lastBin fun _ => p.reasonString) SubAck.applyOcc :=
  props_congr _ _ _ _ _ _ unsubAck_lookup (fun p id acc h => lastBin_congr _ _ id acc (by
    have hid : id = 0x1f := by
      have h' := h
      rw [unsubAck_lookup] at h'
      simp only [SubAck.table, List.lookup] at h'
      split at h' <;> simp_all
    subst hid
    unfold Gen.UnsubAck.propertyMap.binInit
    (repeat' split) <;> simp_all)) unsubAck_apply

theorem subscribe_lookup : ∀ id, (Gen.Subscribe.propertyMap.table).lookup id = (Subscribe.table).lookup id :=
  lookup_all _ _ (by decide +kernel)
theorem subscribe_apply : Gen.Subscribe.propertyMap.apply = Subscribe.applyOcc := by
  funext p o; unfold Gen.Subscribe.propertyMap.apply Subscribe.applyOcc
  cases o.val <;> simp only [] <;> (repeat' split) <;> simp_all
theorem subscribe_props :
    Stage.props Gen.Subscribe.propertyMap.table (fun p => lastBin (Gen.Subscribe.propertyMap.binInit p)) Gen.Subscribe.propertyMap.apply
      = Stage.props Subscribe.table (fun _ => noOld) Subscribe.applyOcc :=
  props_congr _ _ _ _ _ _ subscribe_lookup (fun p id acc h => by
    rw [subscribe_lookup] at h
    simp only [Subscribe.table, List.lookup] at h
    split at h <;> simp_all) subscribe_apply

theorem unsubscribe_apply : Gen.Unsubscribe.nil.apply = Unsubscribe.applyOcc := by
  funext p o; unfold Gen.Unsubscribe.nil.apply Unsubscribe.applyOcc
  cases o.val <;> simp only [] <;> (repeat' split) <;> simp_all
theorem unsubscribe_props :
    Stage.props Gen.Unsubscribe.nil.table (fun p => lastBin (Gen.Unsubscribe.nil.binInit p)) Gen.Unsubscribe.nil.apply
      = Stage.props [] (fun _ => noOld) Unsubscribe.applyOcc :=
  props_congr _ _ _ _ _ _ (fun _ => rfl) (fun p id acc h => by simp [Gen.Unsubscribe.nil.table, List.lookup] at h) unsubscribe_apply

/-! ## `UnmarshalBinary` -/

theorem connack_unmarshal (p : ConnAck) (data : Bytes) : Gen.ConnAck.unmarshal p data = p.unmarshal data := by
  simp only [Gen.ConnAck.unmarshal, connAck_props]; rfl

theorem disconnect_unmarshal (p : Disconnect) (data : Bytes) : Gen.Disconnect.unmarshal p data = p.unmarshal data := by
  simp only [Gen.Disconnect.unmarshal, disconnect_props]; rfl

theorem auth_unmarshal (p : Auth) (data : Bytes) : Gen.Auth.unmarshal p data = p.unmarshal data := by
  simp only [Gen.Auth.unmarshal, auth_props]; rfl

theorem pingreq_unmarshal (p : Ping) (data : Bytes) : Gen.PingReq.unmarshal p data = p.unmarshal data := rfl
theorem pingresp_unmarshal (p : Ping) (data : Bytes) : Gen.PingResp.unmarshal p data = p.unmarshal data := rfl
theorem undefined_unmarshal (p : Undefined) (data : Bytes) : Gen.Undefined.unmarshal p data = p.unmarshal data := rfl

theorem publish_unmarshal (p : Publish) (data : Bytes) : Gen.Publish.unmarshal p data = p.unmarshal data := by
  simp only [Gen.Publish.unmarshal, publish_props]; rfl

theorem pubAck_unmarshal (p : Ack) (data : Bytes) : Gen.PubAck.unmarshal p data = p.unmarshal data := by
  simp only [Gen.PubAck.unmarshal, pubAck_props]
  simp only [Stage.run, Stage.seq, Stage.when, Stage.get, Stage.props, List.foldl, Ack.unmarshal]
  split <;> rfl

theorem pubRec_unmarshal (p : Ack) (data : Bytes) : Gen.PubRec.unmarshal p data = p.unmarshal data := by
  simp only [Gen.PubRec.unmarshal, pubRec_props]
  simp only [Stage.run, Stage.seq, Stage.when, Stage.get, Stage.props, List.foldl, Ack.unmarshal]
  split <;> rfl

theorem pubRel_unmarshal (p : Ack) (data : Bytes) : Gen.PubRel.unmarshal p data = p.unmarshal data := by
  simp only [Gen.PubRel.unmarshal, pubRel_props]
  simp only [Stage.run, Stage.seq, Stage.when, Stage.get, Stage.props, List.foldl, Ack.unmarshal]
  split <;> rfl

theorem pubComp_unmarshal (p : Ack) (data : Bytes) : Gen.PubComp.unmarshal p data = p.unmarshal data := by
  simp only [Gen.PubComp.unmarshal, pubComp_props]
  simp only [Stage.run, Stage.seq, Stage.when, Stage.get, Stage.props, List.foldl, Ack.unmarshal]
  split <;> rfl

theorem subAck_unmarshal (p : SubAck) (data : Bytes) : Gen.SubAck.unmarshal p data = p.unmarshal data := by
  simp only [Gen.SubAck.unmarshal, subAck_props]; rfl

theorem unsubAck_unmarshal (p : SubAck) (data : Bytes) : Gen.UnsubAck.unmarshal p data = p.unmarshal data := by
  simp only [Gen.UnsubAck.unmarshal, unsubAck_props]; rfl

theorem subscribe_unmarshal (p : Subscribe) (data : Bytes) : Gen.Subscribe.unmarshal p data = p.unmarshal data := by
  simp only [Gen.Subscribe.unmarshal, subscribe_props]; rfl

theorem unsubscribe_unmarshal (p : Unsubscribe) (data : Bytes) : Gen.Unsubscribe.unmarshal p data = p.unmarshal data := by
  simp only [Gen.Unsubscribe.unmarshal, unsubscribe_props]; rfl

theorem connect_head (s : Buf × Connect) :
    Stage.seq [Stage.get (fun p => decBin p.protocolName) (·.protocolName) (fun p v => { p with protocolName := v }),
      Stage.get (fun _ => decU8) (·.protocolVersion) (fun p v => { p with protocolVersion := v }),
      Stage.get (fun _ => decU8) (·.flags) (fun p v => { p with flags := v }),
      Stage.get (fun _ => decU16) (·.keepAlive) (fun p v => { p with keepAlive := v })] s = s.2.readHead s.1 := rfl

theorem connect_propsStage (s : Buf × Connect) :
    Stage.props Connect.table (fun p => lastBin p.binInit) Connect.applyOcc s = s.2.readProps s.1 := rfl

theorem connect_clientID (s : Buf × Connect) :
    Stage.get (fun p => decBin p.clientID) (·.clientID) (fun p v => { p with clientID := v }) s = s.2.readClientID s.1 := rfl

theorem connect_will (s : Buf × Connect) :
    Stage.when (fun s => has s.2.flags 4 = true) [Connect.willBlock Connect.willTable Connect.applyWillOcc] s = s.2.readWill s.1 := by
  unfold Stage.when Connect.readWill
  show (if has s.2.flags Connect.fWillFlag = true then _ else _) = _
  split <;> rfl

theorem connect_username (s : Buf × Connect) :
    Stage.when (fun s => has s.2.flags 128 = true)
      [Stage.get (fun p => decBin p.username) (·.username) (fun p v => { p with username := v })] s = s.2.readUsername s.1 := by
  unfold Stage.when Connect.readUsername
  show (if has s.2.flags Connect.fUsername = true then _ else _) = _
  split <;> rfl

theorem connect_password (s : Buf × Connect) :
    Stage.when (fun s => has s.2.flags 64 = true)
      [Stage.get (fun p => decBin p.password) (·.password) (fun p v => { p with password := v })] s = s.2.readPassword s.1 := by
  unfold Stage.when Connect.readPassword
  show (if has s.2.flags Connect.fPassword = true then _ else _) = _
  split <;> rfl

theorem seq_cons {α : Type} (f : Stage α) (fs : List (Stage α)) (s : Buf × α) : Stage.seq (f :: fs) s = Stage.seq fs (f s) := rfl
theorem seq_nil {α : Type} (s : Buf × α) : Stage.seq ([] : List (Stage α)) s = s := rfl

theorem connect_unmarshal (p : Connect) (data : Bytes) : Gen.Connect.unmarshal p data = p.unmarshal data := by
  simp only [Gen.Connect.unmarshal, connect_props, connect_willBlock, Stage.run]
  have h4 := connect_head ({ rest := data }, p)
  simp only [seq_cons, seq_nil] at h4
  simp only [seq_cons, seq_nil, h4, connect_propsStage, connect_clientID, connect_will, connect_username, connect_password]
  rfl

/-- nothing was left untranslated -/
theorem all_translated : Gen.translatedDecoders.length = 16 := by decide

end Mq.Tie.Dec
