import Proofs.Tie.Basic
namespace Mq.Tie
open Mq

/-! ## T5 — effects of ReadPacket -/

/-- ReadPacket writes only what it allocates and its own reader -/
theorem T5_read_packet : Facts.readPacketWrites = [] := by decide


end Mq.Tie
