import Mq.Generated.Enc
import Mq.Fill
/-!
# Proofs.Tie.Enc — the encoder model is the source, translated

`Mq/Generated/Enc.lean` is regenerated on every run from /repo's `fill`, `variableHeader`,
`payload` and `properties` methods (extract/encgen.go), statement by statement, into the `Filler`
combinators. The theorems below say that the hand-written fillers of `Mq/Fill.lean` — the ones
`Proofs/Fill*.lean` prove sound against `Packet.encode`, and so the ones every encoder theorem
(C01, C02, C10, C12, C19) is about — *are* those translations. A change to the order of fields, a
dropped or added field, another flag constant, another condition or another length computation in
the Go encoder changes the generated definition and breaks the corresponding `rfl`.

CONNECT: `payload` dereferences `p.will` inside `if p.flags.Has(WillFlag)`; the translation takes
the will message as a parameter and the statement is by cases (flag clear: any `will`; will
attached: that will). The remaining case — flag set without a will — is the nil dereference the
hand model marks `none` (panic); it is outside the translated fragment and tied by the
correspondence run only.
-/
namespace Mq.Tie.Enc
open Mq

theorem seq_nop (f : Filler) : f.seq Filler.nop = f := by
  funext b i; simp [Filler.seq, Filler.nop]

theorem auth_properties (p : Auth) : Gen.Auth.properties p = p.propertiesG := rfl
theorem auth_variableHeader (p : Auth) : Gen.Auth.variableHeader p = p.variableHeaderG := rfl
theorem auth_fill (p : Auth) : Gen.Auth.fill p = p.fillG := rfl

theorem disconnect_properties (p : Disconnect) : Gen.Disconnect.properties p = p.propertiesG := rfl
theorem disconnect_variableHeader (p : Disconnect) : Gen.Disconnect.variableHeader p = p.variableHeaderG := rfl
theorem disconnect_fill (p : Disconnect) : Gen.Disconnect.fill p = p.fillG := rfl

theorem connack_properties (p : ConnAck) : Gen.ConnAck.properties p = p.propertiesG := rfl
theorem connack_variableHeader (p : ConnAck) : Gen.ConnAck.variableHeader p = p.variableHeaderG := rfl
theorem connack_fill (p : ConnAck) : Gen.ConnAck.fill p = p.fillG := rfl

theorem pingreq_fill (p : Ping) : Gen.PingReq.fill p = p.fillG := rfl
theorem pingresp_fill (p : Ping) : Gen.PingResp.fill p = p.fillG := rfl

theorem topicFilter_fill (f : TopicFilter) : Gen.TopicFilter.fill f = f.fillG := rfl

theorem pubAck_properties (p : Ack) : Gen.PubAck.properties p = p.propertiesG := rfl
theorem pubAck_variableHeader (p : Ack) : Gen.PubAck.variableHeader p = p.variableHeaderG := by
  funext b i
  simp only [Gen.PubAck.variableHeader, Ack.variableHeaderG, pubAck_properties, Filler.seqs, seq_nop]
  rfl
theorem pubAck_fill (p : Ack) : Gen.PubAck.fill p = p.fillG := by
  funext b i
  simp only [Gen.PubAck.fill, Ack.fillG, fillFrame, pubAck_variableHeader]

theorem pubRec_properties (p : Ack) : Gen.PubRec.properties p = p.propertiesG := rfl
theorem pubRec_variableHeader (p : Ack) : Gen.PubRec.variableHeader p = p.variableHeaderG := by
  funext b i
  simp only [Gen.PubRec.variableHeader, Ack.variableHeaderG, pubRec_properties, Filler.seqs, seq_nop]
  rfl
theorem pubRec_fill (p : Ack) : Gen.PubRec.fill p = p.fillG := by
  funext b i
  simp only [Gen.PubRec.fill, Ack.fillG, fillFrame, pubRec_variableHeader]

theorem pubRel_properties (p : Ack) : Gen.PubRel.properties p = p.propertiesG := rfl
theorem pubRel_variableHeader (p : Ack) : Gen.PubRel.variableHeader p = p.variableHeaderG := by
  funext b i
  simp only [Gen.PubRel.variableHeader, Ack.variableHeaderG, pubRel_properties, Filler.seqs, seq_nop]
  rfl
theorem pubRel_fill (p : Ack) : Gen.PubRel.fill p = p.fillG := by
  funext b i
  simp only [Gen.PubRel.fill, Ack.fillG, fillFrame, pubRel_variableHeader]

theorem pubComp_properties (p : Ack) : Gen.PubComp.properties p = p.propertiesG := rfl
theorem pubComp_variableHeader (p : Ack) : Gen.PubComp.variableHeader p = p.variableHeaderG := by
  funext b i
  simp only [Gen.PubComp.variableHeader, Ack.variableHeaderG, pubComp_properties, Filler.seqs, seq_nop]
  rfl
theorem pubComp_fill (p : Ack) : Gen.PubComp.fill p = p.fillG := by
  funext b i
  simp only [Gen.PubComp.fill, Ack.fillG, fillFrame, pubComp_variableHeader]

theorem subAck_properties (p : SubAck) : Gen.SubAck.properties p = p.propertiesG := rfl
theorem subAck_variableHeader (p : SubAck) : Gen.SubAck.variableHeader p = p.variableHeaderG := rfl
theorem subAck_payload (p : SubAck) : Gen.SubAck.payload p = p.payloadG := by
  funext b i
  simp [Gen.SubAck.payload, SubAck.payloadG, Filler.seqs, Filler.seq, Filler.nop]
theorem subAck_fill (p : SubAck) : Gen.SubAck.fill p = p.fillG := by
  funext b i
  simp only [Gen.SubAck.fill, SubAck.fillG, subAck_variableHeader, subAck_payload]

theorem unsubAck_properties (p : SubAck) : Gen.UnsubAck.properties p = p.propertiesG := rfl
theorem unsubAck_variableHeader (p : SubAck) : Gen.UnsubAck.variableHeader p = p.variableHeaderG := rfl
theorem unsubAck_payload (p : SubAck) : Gen.UnsubAck.payload p = p.payloadG := by
  funext b i
  simp [Gen.UnsubAck.payload, SubAck.payloadG, Filler.seqs, Filler.seq, Filler.nop]
theorem unsubAck_fill (p : SubAck) : Gen.UnsubAck.fill p = p.fillG := by
  funext b i
  simp only [Gen.UnsubAck.fill, SubAck.fillG, unsubAck_variableHeader, unsubAck_payload]

theorem subscribe_properties (p : Subscribe) : Gen.Subscribe.properties p = p.propertiesG := rfl
theorem subscribe_variableHeader (p : Subscribe) : Gen.Subscribe.variableHeader p = p.variableHeaderG := rfl
theorem subscribe_payload (p : Subscribe) : Gen.Subscribe.payload p = p.payloadG := by
  funext b i
  have : (fun x => Gen.TopicFilter.fill x) = TopicFilter.fillG := by funext x; rfl
  simp [Gen.Subscribe.payload, Subscribe.payloadG, Filler.seqs, Filler.seq, Filler.nop, this]
theorem subscribe_fill (p : Subscribe) : Gen.Subscribe.fill p = p.fillG := by
  funext b i
  simp only [Gen.Subscribe.fill, Subscribe.fillG, subscribe_variableHeader, subscribe_payload]

theorem unsubscribe_variableHeader (p : Unsubscribe) : Gen.Unsubscribe.variableHeader p = p.variableHeaderG := rfl
theorem unsubscribe_payload (p : Unsubscribe) : Gen.Unsubscribe.payload p = p.payloadG := by
  funext b i
  simp [Gen.Unsubscribe.payload, Unsubscribe.payloadG, Filler.seqs, Filler.seq, Filler.nop]
theorem unsubscribe_fill (p : Unsubscribe) : Gen.Unsubscribe.fill p = p.fillG := by
  funext b i
  simp only [Gen.Unsubscribe.fill, Unsubscribe.fillG, unsubscribe_variableHeader, unsubscribe_payload]

theorem publish_properties (p : Publish) : Gen.Publish.properties p = p.propertiesG := rfl
theorem publish_variableHeader (p : Publish) : Gen.Publish.variableHeader p = p.variableHeaderG := by
  funext b i
  have : (p.qos = 1 ∨ p.qos = 2) ↔ p.hasPacketID = true := by simp [Publish.hasPacketID]
  simp only [Gen.Publish.variableHeader, Publish.variableHeaderG, publish_properties, this]
theorem publish_fill (p : Publish) : Gen.Publish.fill p = p.fillG := by
  funext b i
  simp only [Gen.Publish.fill, Publish.fillG, publish_variableHeader]

theorem connect_properties (p : Connect) : Gen.Connect.properties p = p.propertiesG := rfl
theorem connect_variableHeader (p : Connect) : Gen.Connect.variableHeader p = p.variableHeaderG := rfl

/-- `payload`, will attached -/
theorem connect_payload_will (p : Connect) (w : Publish) (h : p.will = some w) :
    p.payloadG? = some (Gen.Connect.payload p w) := by
  have hf4 : has p.flags 4 = has p.flags Connect.fWillFlag := rfl
  simp only [Connect.payloadG?, h]
  by_cases hf : has p.flags Connect.fWillFlag = true
  · simp only [hf, if_true, Option.map_some, Option.some.injEq]
    funext b i
    simp only [Gen.Connect.payload, hf4, hf, if_true]
    rfl
  · have hf0 : has p.flags Connect.fWillFlag = false := by simpa using hf
    simp only [hf0, Bool.false_eq_true, if_false, Option.map_some, Option.some.injEq]
    funext b i
    simp only [Gen.Connect.payload, hf4, hf0, Bool.false_eq_true, if_false]
    rfl

/-- `payload`, will flag clear: the will message is not looked at -/
theorem connect_payload_noflag (p : Connect) (w : Publish) (h : has p.flags Connect.fWillFlag = false) :
    p.payloadG? = some (Gen.Connect.payload p w) := by
  have hf4 : has p.flags 4 = has p.flags Connect.fWillFlag := rfl
  simp only [Connect.payloadG?, h, Bool.false_eq_true, if_false, Option.map_some, Option.some.injEq]
  funext b i
  simp only [Gen.Connect.payload, hf4, h, Bool.false_eq_true, if_false]
  rfl

theorem connect_fill_will (p : Connect) (w : Publish) (h : p.will = some w) :
    p.fillG? = some (Gen.Connect.fill p w) := by
  simp only [Connect.fillG?, connect_payload_will p w h, Option.map_some]
  rfl

theorem connect_fill_noflag (p : Connect) (w : Publish) (h : has p.flags Connect.fWillFlag = false) :
    p.fillG? = some (Gen.Connect.fill p w) := by
  simp only [Connect.fillG?, connect_payload_noflag p w h, Option.map_some]
  rfl

/-- nothing was left untranslated -/
theorem all_translated : Gen.translated.length = 46 := by decide

end Mq.Tie.Enc
