import Mq.Generated.Dec
/-!
# Proofs.Tie.Dispatch — the type switch of `fixedHeader.ReadRemaining` is the model's `Packet.dispatch`

`Gen.dispatch` is regenerated from the `switch byte(f.fixed) & 0b1111_0000 { case K: p = &T{fixed: f.fixed} … }`
of packet.go on every run (extract/decgen.go).
-/
namespace Mq.Tie.Dispatch
open Mq

/-- the type switch of `fixedHeader.ReadRemaining`, for all 256 first bytes -/
theorem dispatch_table : ∀ n : Fin 256, Gen.dispatch (UInt8.ofNat n.val) = Packet.dispatch (UInt8.ofNat n.val) := by
  decide +kernel

theorem dispatch_eq (b0 : UInt8) : Gen.dispatch b0 = Packet.dispatch b0 := by
  have := dispatch_table ⟨b0.toNat, b0.toNat_lt⟩
  simpa using this

end Mq.Tie.Dispatch
