import Mq.Generated.Stream
/-!
# Proofs.Tie.Stream — `ReadPacket` of the source is the model's `readPacket`

`Mq/Generated/Stream.lean` is regenerated on every run from `packet.go` and `wiretypes.go` (extract/streamgen.go):
`ReadPacket`, `fixedHeader.ReadFrom`, the tail of `fixedHeader.ReadRemaining`, `bits.ReadFrom` and `vbint.ReadFrom` over the
model's scripted reader — that each read is an `io.ReadFull`, the buffer sizes, the order of the two header reads, the
constants and the comparison of the length loop, the test that skips an empty body. Here: that rendering is the
`readPacket` of `Mq/Stream.lean`, the function every theorem of C06, C07, C08 and the stream half of C15 is about.
-/
set_option linter.unusedSimpArgs false   -- a guard may be spelled `== 0` or `<= 0`; an argument is used under one spelling only
namespace Mq.Tie.Stream
open Mq

theorem mask127 : ∀ n, n < 256 → n &&& 127 = n % 128 := by decide +kernel
theorem cont128 : ∀ n, n < 256 → (n &&& 128 = 0 ↔ n < 128) := by decide +kernel

/-- the streaming length loop (`vbint.ReadFrom`) -/
theorem readFrom_eq : ∀ (fuel : Nat) (r : Reader) (m a : Nat), Gen.vbint.readFrom fuel r m a = readVb fuel r m a := by
  intro fuel
  induction fuel with
  | zero => intro r m a; rfl
  | succ fuel ih =>
    intro r m a
    simp only [Gen.vbint.readFrom, readVb]
    rcases readFull r 1 with ⟨bs, e, r'⟩
    cases e with
    | some e => rfl
    | none =>
      cases bs with
      | nil => rfl
      | cons b rest =>
        have hb : b.toNat < 256 := b.toNat_lt
        simp only [mask127 _ hb, ih]
        by_cases hm : m > 128 * 128 * 128
        · simp [hm]
        · by_cases hc : b.toNat < 128
          · simp [hm, hc, (cont128 _ hb).mpr hc]
          · have : ¬ (b.toNat &&& 128 = 0) := fun h => hc ((cont128 _ hb).mp h)
            simp [hm, hc, this]

/-- **`ReadPacket`** -/
theorem readPacket_eq : Gen.readPacket = readPacket := by
  funext r
  simp only [Gen.readPacket, readPacket, readFrom_eq]
  rcases readFull r 1 with ⟨bs, e, r1⟩
  cases e with
  | some e => rfl
  | none =>
    cases bs with
    | nil => rfl
    | cons b0 _ =>
      simp only []
      rcases readVb 5 r1 1 0 with ⟨⟨v, e2⟩, r2⟩
      cases e2 with
      | some e => rfl
      | none =>
        cases v with
        | none => rfl
        | some n =>
          simp only []
          by_cases hn : n = 0
          · simp [hn]
          · have h1 : ¬ n ≤ 0 := by omega
            simp only [hn, h1, if_false]
            rcases readFull r2 n with ⟨body, e3, r3⟩
            cases e3 with
            | some e => rfl
            | none =>
              simp only []
              rcases (Packet.dispatch b0).unmarshal body with ⟨q, st⟩
              cases st <;> rfl

/-- every error test of the five stream functions is `err != nil` (the translator accepts `err == nil` in the same
places so that such a flip is refuted here rather than making the function unrecognisable) -/
theorem err_tests : Gen.streamErrTests.length = 5 ∧ Gen.streamErrTests.all (·.2) = true := by decide

theorem complete : Gen.untranslatedStream = [] := by decide

end Mq.Tie.Stream
