import Mq.Generated.Wire
/-!
# Proofs.Tie.Wire — guards, widths and zero tests of the wire types are those of the source

`Mq/Generated/Wire.lean` is regenerated on every run from `wiretypes.go` (extract/wiregen.go): for every
wire type the `fill` method (its guard `len(data) >= i+k`, what it stores, what it returns), `width()`,
the zero test at the top of `fillProp`, and `UnmarshalBinary` of the fixed-size types (its guard
`len(data) < k`, the value, the width the cursor then advances by). These are the model's, and — the
contract the two-pass encoder and `buffer.get` both rest on — **`fill(nil, 0)` returns `width()`** and
**a decoder reports the width of what it decoded**.
-/
namespace Mq.Tie.Wire
open Mq

theorem bits_fill (v : UInt8) : Gen.bits.fill v = fillByte v := rfl
theorem ident_fill (v : UInt8) : Gen.Ident.fill v = fillByte v := rfl
theorem wbool_fill (v : Bool) : Gen.wbool.fill v = fillBool v := rfl
theorem wuint16_fill (v : UInt16) : Gen.wuint16.fill v = fillU16 v := rfl
theorem wuint32_fill (v : UInt32) : Gen.wuint32.fill v = fillU32 v := rfl
theorem bindata_fill (v : Bytes) : Gen.bindata.fill v = fillBin v := rfl
theorem rawdata_fill (v : Bytes) : Gen.rawdata.fill v = fillRaw v := rfl

/-- the dry run of `fill` is `width()`, for every wire type rendered -/
theorem dry_is_width :
    (∀ v, (Gen.bits.fill v).dry = Gen.bits.width v) ∧ (∀ v, (Gen.Ident.fill v).dry = Gen.Ident.width v)
    ∧ (∀ v, (Gen.wbool.fill v).dry = Gen.wbool.width v) ∧ (∀ v, (Gen.wuint16.fill v).dry = Gen.wuint16.width v)
    ∧ (∀ v, (Gen.wuint32.fill v).dry = Gen.wuint32.width v) ∧ (∀ v, (Gen.bindata.fill v).dry = Gen.bindata.width v)
    ∧ (∀ v, (Gen.rawdata.fill v).dry = Gen.rawdata.width v) ∧ (∀ v, (fillVb v).dry = Gen.vbint.width v) := by
  refine ⟨fun _ => rfl, fun _ => rfl, fun _ => rfl, fun _ => rfl, fun _ => rfl, ?_, ?_, fun _ => rfl⟩
  · intro v
    show (fillBin v [] 0).2 = 2 + v.length
    unfold fillBin
    split <;> rfl
  · intro v
    show (fillRaw v [] 0).2 = v.length
    unfold fillRaw
    split
    · rename_i h
      have : v.length = 0 := by simpa using h
      simp [this]
    · rfl

/-- the zero test of `fillProp` is the model's `isZero` of that wire type -/
theorem isZero_eq :
    (∀ v, Gen.bits.isZero v = (WVal.u8 v).isZero) ∧ (∀ v, Gen.wuint16.isZero v = (WVal.u16 v).isZero)
    ∧ (∀ v, Gen.wuint32.isZero v = (WVal.u32 v).isZero) ∧ (∀ v, Gen.wbool.isZero v = (WVal.bool v).isZero)
    ∧ (∀ v, Gen.bindata.isZero v = (WVal.bin v).isZero) ∧ (∀ v, Gen.vbint.isZero v = (WVal.vb v).isZero) :=
  ⟨fun _ => rfl, fun _ => rfl, fun _ => rfl, fun _ => rfl, fun _ => rfl, fun _ => rfl⟩

theorem bits_dec : Gen.bits.dec = decU8 := by funext d; cases d <;> rfl
theorem ident_dec : Gen.Ident.dec = decU8 := by funext d; cases d <;> rfl
theorem wbool_dec : Gen.wbool.dec = decBool := by funext d; cases d <;> rfl

theorem wuint16_dec : Gen.wuint16.dec = decU16 := by
  funext d
  simp only [Gen.wuint16.dec, decU16, Gen.wuint16.width]
  split
  · rfl
  · rename_i h
    match d, h with
    | a :: b :: _, _ => rfl
    | [], h => simp at h
    | [_], h => simp at h

theorem wuint32_dec : Gen.wuint32.dec = decU32 := by
  funext d
  simp only [Gen.wuint32.dec, decU32, Gen.wuint32.width]
  split
  · rfl
  · rename_i h
    match d, h with
    | a :: b :: c :: e :: _, _ => rfl
    | [], h => simp at h
    | [_], h => simp at h
    | [_, _], h => simp at h
    | [_, _, _], h => simp at h

/-- every `fillProp` (seven wire types) returns 0 when it writes nothing and `i - n` — the number of bytes it wrote —
otherwise: the contract `Filler.seq` and `fillProp` of the model give it -/
theorem fillProp_tails : Gen.fillPropTails.length = 7 ∧ Gen.fillPropTails.all (fun e => e.2 == (0, true)) = true := by
  decide

theorem complete : Gen.untranslatedWire = [] := by decide

end Mq.Tie.Wire
