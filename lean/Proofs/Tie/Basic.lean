import Mq.Generated.Facts
import Mq.Render
/-!
# Proofs.Tie — the facts regenerated from /repo's source on every run equal the model's tables

`Mq/Generated/Facts.lean` is rewritten by `/verif/extract` (go/ast, go/types, go/ssa over the working
tree) before every check. Everything here is closed by `decide`/`rfl`/`simp` on concrete data, so a
changed identifier constant, a property present in an encoder but not in its decoder table, a
re-ordered or added `fillProp`, a new `range` over a multi-entry map, a store into shared memory
on a read-only path or a decoder that keeps its input breaks `lake build` here.
-/
namespace Mq.Tie
open Mq

/-- same entries, irrespective of order (a Go map literal has none) -/
def sameSet (a b : List (UInt8 × WKind)) : Bool :=
  a.length == b.length && a.all (fun x => b.contains x) && b.all (fun x => a.contains x)

def pmap (name : String) : List (UInt8 × WKind) := (Facts.propertyMaps.lookup name).getD [(0, .u8)]
def order (name : String) : List (UInt8 × WKind) := (Facts.fillPropOrder.lookup name).getD [(0, .u8)]
def const (name : String) : Nat := (Facts.consts.lookup name).getD 100000


end Mq.Tie
