import Mq.Generated.Api
import Mq.Render
/-!
# Proofs.Tie.WellFormed — the three `WellFormed` methods, translated from the source, are the model's

`Gen.<Type>.wellFormed` is regenerated on every run from `Publish.WellFormed`,
`Subscribe.WellFormed` and `TopicFilter.WellFormed` (extract/apigen.go, `wfGen`): the conditions in
source order, each with the `(ref, reason)` it reports.
-/
namespace Mq.Tie.WellFormed
open Mq

theorem topicFilter_wellFormed (f : TopicFilter) : Gen.TopicFilter.wellFormed f = f.wellFormed := rfl

theorem publish_wellFormed (p : Publish) : Gen.Publish.wellFormed p = p.wellFormed := by
  unfold Gen.Publish.wellFormed Publish.wellFormed
  by_cases h0 : p.topicName.length = 0 ∧ p.topicAlias = 0
  · simp only [h0, and_self, if_true]
  · simp only [h0, if_false]
    by_cases h12 : p.qos = 1 ∨ p.qos = 2
    · by_cases hp : p.packetID = 0
      · simp [h12, hp]
      · have h3 : ¬ p.qos = 3 := by rcases h12 with h | h <;> rw [h] <;> decide
        simp [h12, hp, h3]
    · simp [h12]

theorem subscribe_wellFormed (p : Subscribe) : Gen.Subscribe.wellFormed p = p.wellFormed := by
  unfold Gen.Subscribe.wellFormed Subscribe.wellFormed
  have : Gen.TopicFilter.wellFormed = TopicFilter.wellFormed := by funext f; rfl
  rw [this]
  split
  · rfl
  · split
    · rfl
    · cases List.findSome? TopicFilter.wellFormed p.filters <;> rfl

theorem complete : Gen.untranslatedWellFormed = [] := by decide

end Mq.Tie.WellFormed
