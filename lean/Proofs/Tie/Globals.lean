import Proofs.Tie.Basic
namespace Mq.Tie
open Mq

/-! ## T5 — package-level variables -/

/-- no exported operation at all writes through a package-level variable (`mqtt5`, `typeNames`, …);
`_LEN` is never assigned, so it is nil and nothing can be written through it -/
theorem T5_globals : Facts.globalWrites = [] ∧ Facts.neverAssigned.contains "_LEN" = true := by decide


end Mq.Tie
