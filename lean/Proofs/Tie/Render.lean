import Proofs.Tie.Basic
namespace Mq.Tie
open Mq

/-! ## T4 — rendering tables -/

def rcNames (n : String) : List UInt8 := (Facts.reasonCodeNames.lookup n).getD []
def rcIdx (n : String) : List Nat := (Facts.reasonCodeIndex.lookup n).getD []

theorem T4_reason_names : rcNames "_ReasonCode_name_0" = rcName0 ∧ rcNames "_ReasonCode_name_1" = rcName1
    ∧ rcNames "_ReasonCode_name_2" = rcName2 ∧ rcNames "_ReasonCode_name_3" = rcName3
    ∧ rcNames "_ReasonCode_name_4" = rcName4a ++ rcName4b ++ rcName4c := by decide +kernel

theorem T4_reason_index : rcIdx "_ReasonCode_index_0" = rcIndex0 ∧ rcIdx "_ReasonCode_index_2" = rcIndex2
    ∧ rcIdx "_ReasonCode_index_3" = rcIndex3 ∧ rcIdx "_ReasonCode_index_4" = rcIndex4 := by decide +kernel

theorem T4_type_names : ∀ n : Fin 16, (Facts.typeNames.lookup (n.val * 16)) = some (typeName (UInt8.ofNat (n.val * 16))) := by
  decide +kernel


end Mq.Tie
