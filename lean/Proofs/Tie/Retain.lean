import Proofs.Tie.Globals
namespace Mq.Tie
open Mq

/-! ## T5 — decoders keep nothing of their input -/

/-- no decoder stores (a slice of) its input where it outlives the call -/
theorem T5_no_retain : Facts.decodeRetains = [] := by decide


end Mq.Tie
