import Mq.Generated.Ctor
/-!
# Proofs.Tie.Ctor — the constructors and the bit helpers of the source are the model's

`Mq/Generated/Ctor.lean` is regenerated on every run (extract/ctorgen.go): which `New<Type>()` exist, every field each
sets (numbers as the type checker folds them — `PUBREL | 1<<1` is 98), and `bits.Has` / `bits.toggle`, which every flag
accessor and setter goes through. Here: the model's `Packet.new` sets exactly those fields to exactly those values,
and `has`/`toggle` are the rendered functions.
-/
namespace Mq.Tie.Ctor
open Mq

def numOf (t f : String) : Option Nat :=
  (Gen.ctorNumbers.find? fun e => e.1 == t && e.2.1 == f).map (·.2.2)

/-- there is a constructor for each of the 15 packet types, and no other -/
theorem constructors_15 : Gen.constructors.length = 15 ∧ ∀ k : Fin 15, Packet.kindName (k.val + 1) ∈ Gen.constructors := by
  decide

/-- the first byte every constructor sets is the model's -/
theorem fixed_eq : ∀ k : Fin 15, numOf (Packet.kindName (k.val + 1)) "fixed" = some (Packet.new (k.val + 1)).fixed.toNat := by
  decide

/-- and nothing else is set, except CONNECT's protocol name and version -/
theorem others : Gen.ctorNumbers.length = 16 ∧ numOf "Connect" "protocolVersion" = some Connect.new.protocolVersion.toNat
    ∧ Gen.ctorBytes = [("Connect", "protocolName", Connect.new.protocolName)] := by
  decide

theorem has_eq : Gen.bits.has = has := rfl
theorem toggle_eq : Gen.bits.toggle = toggle := rfl

/-- the will QoS bits of the CONNECT flags (mask and shift) -/
theorem willQoS_eq (p : Connect) : Gen.Connect.willQoS p.flags = p.willQoS := rfl

theorem complete : Gen.untranslatedCtor = [] := by decide

end Mq.Tie.Ctor
