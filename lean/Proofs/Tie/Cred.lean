import Proofs.Tie.Basic
/-!
# Proofs.Tie.Cred — where the source looks at the CONNECT credentials

`Facts.credentialUses` lists every mention of the fields `username`/`password` of a `Connect`, or
of its accessors `Username()`/`Password()`, in the package outside the functions whose job it is to
hold, write or read them (the two setters, the two accessors, the encoder's `payload`, the
decoder). The rendering model behind C18 lets only the *lengths* of the credentials into `String`
and `Dump`; this is the matching fact about the source: every such mention stands directly under
`len(…)`.
-/
namespace Mq.Tie
open Mq

theorem T6_credentials_only_measured : Facts.credentialUses.all (fun u => u.2.2) = true := by decide

end Mq.Tie
