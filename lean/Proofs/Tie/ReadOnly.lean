import Proofs.Tie.Basic
namespace Mq.Tie
open Mq

/-! ## T5 — effects of the read-only operations -/

/-- the operations the effect analysis covered include `WriteTo` and `String` of all 15 types, `Dump`
and the accessors (so that the empty lists below are not vacuous) -/
theorem T5_roots : ["*Connect.WriteTo", "*ConnAck.WriteTo", "*Publish.WriteTo", "*PubAck.WriteTo", "*PubRec.WriteTo",
      "*PubRel.WriteTo", "*PubComp.WriteTo", "*Subscribe.WriteTo", "*SubAck.WriteTo", "*Unsubscribe.WriteTo",
      "*UnsubAck.WriteTo", "*PingReq.WriteTo", "*PingResp.WriteTo", "*Disconnect.WriteTo", "*Auth.WriteTo",
      "*Connect.String", "*ConnAck.String", "*Publish.String", "*PubAck.String", "*PubRec.String", "*PubRel.String",
      "*PubComp.String", "*Subscribe.String", "*SubAck.String", "*Unsubscribe.String", "*UnsubAck.String",
      "*PingReq.String", "*PingResp.String", "*Disconnect.String", "*Auth.String", "*Undefined.String", "Dump",
      "*Publish.WellFormed", "*Subscribe.WellFormed", "*Connect.Will", "*Connect.Password", "*Publish.Payload",
      "ReasonCode.String", "TopicFilter.String"].all (fun n => Facts.readOnlyOps.contains n) = true
    ∧ ["ReadPacket", "*Connect.UnmarshalBinary", "*Publish.UnmarshalBinary", "*Undefined.UnmarshalBinary",
       "*SubAck.UnmarshalBinary", "*UnsubAck.UnmarshalBinary", "*Subscribe.UnmarshalBinary"].all
        (fun n => Facts.decodeOps.contains n) = true := by decide

/-- no read-only operation writes to memory that is shared: everything it writes it allocated
itself or was handed as the `io.Writer` -/
theorem T5_read_only : Facts.readOnlyWrites = [] := by decide


end Mq.Tie
