import Proofs.Tie.Basic
namespace Mq.Tie
open Mq

/-! ## T1 — decoder property tables = the `propertyMap` literals -/

theorem T1_connect : sameSet (pmap "Connect.propertyMap") Connect.table = true := by decide
theorem T1_will : sameSet (pmap "Connect.willPropertyMap") Connect.willTable = true := by decide
theorem T1_connack : sameSet (pmap "ConnAck.propertyMap") ConnAck.table = true := by decide
theorem T1_publish : sameSet (pmap "Publish.propertyMap") Publish.table = true := by decide
theorem T1_acks : sameSet (pmap "PubAck.propertyMap") Ack.table = true ∧ sameSet (pmap "PubRec.propertyMap") Ack.table = true
    ∧ sameSet (pmap "PubRel.propertyMap") Ack.table = true ∧ sameSet (pmap "PubComp.propertyMap") Ack.table = true := by decide
theorem T1_subscribe : sameSet (pmap "Subscribe.propertyMap") Subscribe.table = true := by decide
theorem T1_subacks : sameSet (pmap "SubAck.propertyMap") SubAck.table = true
    ∧ sameSet (pmap "UnsubAck.propertyMap") SubAck.table = true := by decide
theorem T1_disconnect : sameSet (pmap "Disconnect.propertyMap") Disconnect.table = true := by decide
theorem T1_auth : sameSet (pmap "Auth.propertyMap") Auth.table = true := by decide
/-- no packet type has a property map the model does not know of -/
theorem T1_complete : Facts.propertyMaps.map (·.1) =
    ["Auth.propertyMap", "ConnAck.propertyMap", "Connect.propertyMap", "Connect.willPropertyMap",
     "Disconnect.propertyMap", "PubAck.propertyMap", "PubComp.propertyMap", "PubRec.propertyMap",
     "PubRel.propertyMap", "Publish.propertyMap", "SubAck.propertyMap", "Subscribe.propertyMap",
     "UnsubAck.propertyMap"] := by decide


end Mq.Tie
