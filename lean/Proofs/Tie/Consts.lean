import Proofs.Tie.Basic
namespace Mq.Tie
open Mq

/-! ## T3 — constants -/

theorem T3_types : [const "CONNECT", const "CONNACK", const "PUBLISH", const "PUBACK", const "PUBREC", const "PUBREL",
      const "PUBCOMP", const "SUBSCRIBE", const "SUBACK", const "UNSUBSCRIBE", const "UNSUBACK", const "PINGREQ",
      const "PINGRESP", const "DISCONNECT", const "AUTH"]
    = [0x10, 0x20, 0x30, 0x40, 0x50, 0x60, 0x70, 0x80, 0x90, 0xa0, 0xb0, 0xc0, 0xd0, 0xe0, 0xf0] := by decide

theorem T3_connect_flags : [const "Reserved", const "CleanStart", const "WillFlag", const "WillQoS1", const "WillQoS2",
      const "WillRetain", const "PasswordFlag", const "UsernameFlag"]
    = [Connect.fReserved, Connect.fCleanStart, Connect.fWillFlag, Connect.fWillQoS1, Connect.fWillQoS2,
       Connect.fWillRetain, Connect.fPassword, Connect.fUsername].map UInt8.toNat := by decide

theorem T3_header_flags : [const "DUP", const "QoS1", const "QoS2", const "QoS3", const "RETAIN"] = [8, 2, 4, 6, 1] := by decide

theorem T3_user_property : const "UserProperty" = 38 ∧ const "SubscriptionID" = 11 := by decide


end Mq.Tie
