import Mq.Generated.WriteTo
import Mq.Packet
/-!
# Proofs.Tie.WriteTo — every packet type writes its frame the way `Mq.writeTo` models it

`Mq/Generated/WriteTo.lean` is regenerated on every run (extract/writetogen.go): for every type with a `WriteTo`, that
it is `b := make([]byte, <dry fill at offset 0>); p.fill(b, 0); n, err := w.Write(b); return int64(n), err` — one
allocation of the measured size, one fill from offset 0, exactly one `Write`, its count and error passed on — and that
`width()`, which `String()` prints as `N bytes`, is the same dry fill. `Undefined` is the only type that refuses.
-/
namespace Mq.Tie.WriteTo
open Mq

/-- the 15 defined types, each measuring, filling and reporting from offset 0 -/
theorem shapes : Gen.writeToShapes.length = 15
    ∧ (∀ k : Fin 15, (Gen.writeToShapes.find? fun e => e.1 == Packet.kindName (k.val + 1)).map (·.2) = some (0, 0, 0)) := by
  decide

theorem refuses : Gen.writeToRefuses = [Packet.kindName 0] := by decide

theorem complete : Gen.untranslatedWriteTo = [] := by decide

end Mq.Tie.WriteTo
