import Proofs.GetLemmas
/-!
# Proofs.DSimple — the model's decoders on every legal frame of CONNACK, the PUBACK family,
SUBACK/UNSUBACK, DISCONNECT, AUTH, PINGREQ/PINGRESP
-/
namespace Mq
open Spec (SPacket propVal userPropsOf vvOf propsLegal Form)

theorem ConnAck.agree : tablesAgree 2 ConnAck.table = true := by decide

theorem sectLen (ps : List PropOcc) (suf pre : Bytes) (h : (pre ++ Spec.propSection ps ++ suf).length < 268435456) :
    (ps.flatMap encOcc).length < 268435456 := by
  have := section_len_le ps
  simp only [List.length_append] at h
  omega

theorem D_connack (sess : Bool) (reason : UInt8) (ps : List PropOcc)
    (hl : (SPacket.connack sess reason ps).Legal) :
    ∃ q, frameOutcome 0x20 (SPacket.connack sess reason ps).body = .pkt (.connack q)
      ∧ (Packet.connack q).view = (SPacket.connack sess reason ps).view := by
  obtain ⟨hleg, hlen⟩ := hl
  simp only [SPacket.legal] at hleg
  simp only [SPacket.body] at hlen ⊢
  have hsl := sectLen ps [] [if sess then 1 else 0, reason] (by simpa using hlen)
  have hdisp : Packet.dispatch 0x20 = .connack { fixed := 0x20 } := by decide
  have hne : ([if sess = true then (1 : UInt8) else 0, reason] ++ Spec.propSection ps).length ≠ 0 := by simp
  unfold frameOutcome
  rw [if_neg hne, hdisp]
  simp only [Packet.unmarshal, ConnAck.unmarshal, List.cons_append, List.nil_append, get_u8]
  have hg := getAny_spec 2 ConnAck.table ConnAck.agree ps hleg
    (ConnAck.binInit { fixed := 0x20, flags := if sess = true then 1 else 0, reasonCode := reason }) (by intro id; simp [ConnAck.binInit]; repeat' split <;> rfl) [] hsl
  simp only [List.append_nil] at hg
  rw [hg]
  refine ⟨_, rfl, ?_⟩
  have hok : ∀ o ∈ ps, PropOk ConnAck.table o :=
    fun o ho => propOk_of_legal 2 ConnAck.table ConnAck.agree o (legal_all 2 ps hleg o ho)
  simp only [Packet.view, ConnAck.view, SPacket.view, ConnAck.sessionPresent]
  have e := fun (p : ConnAck) => And.intro (ConnAck.fold_same0 ps p) (And.intro (ConnAck.fold_same1 ps p) (ConnAck.fold_ups ps hok p))
  simp only [] at e
  simp only [ConnAck.fold_assignedClientID ps hok, ConnAck.fold_authData ps hok, ConnAck.fold_authMethod ps hok,
    ConnAck.fold_maxPacketSize ps hok, ConnAck.fold_maxQoS ps hok, ConnAck.fold_reasonString ps hok,
    ConnAck.fold_receiveMax ps hok, ConnAck.fold_responseInformation ps hok, ConnAck.fold_retainAvailable ps hok,
    ConnAck.fold_serverKeepAlive ps hok, ConnAck.fold_serverReference ps hok, ConnAck.fold_sessionExpiryInterval ps hok,
    ConnAck.fold_sharedSubAvailable ps hok, ConnAck.fold_subIdentifiersAvailable ps hok,
    ConnAck.fold_topicAliasMax ps hok, ConnAck.fold_wildcardSubAvailable ps hok, (e _).1, (e _).2.1, (e _).2.2]
  cases sess <;> simp [has]

end Mq

namespace Mq
open Spec (SPacket propVal userPropsOf vvOf propsLegal Form)

theorem Ack.agree4 : tablesAgree 4 Ack.table = true := by decide
theorem Ack.agree5 : tablesAgree 5 Ack.table = true := by decide
theorem Ack.agree6 : tablesAgree 6 Ack.table = true := by decide
theorem Ack.agree7 : tablesAgree 7 Ack.table = true := by decide

theorem getAny_atEnd (tbl : PropTable) (oldOf : UInt8 → List PropOcc → Bytes) (st : St) :
    ({ rest := [], st := st } : Buf).getAny tbl oldOf = ({ rest := [], st := st }, []) := by
  simp [Buf.getAny]

/-- the decoder of the four acknowledgement types on a legal body, whatever the first byte -/
theorem Ack.D (k : Nat) (hagree : tablesAgree k Ack.table = true) (fx : UInt8) (pid : UInt16) (form : Form)
    (reason : UInt8) (ps : List PropOcc) (hleg : propsLegal k ps = true) (hform : SPacket.formLegal form reason ps = true)
    (hlen : (SPacket.ack k pid form reason ps).body.length < 268435456) :
    ∃ q : Ack, ({ fixed := fx } : Ack).unmarshal (SPacket.ack k pid form reason ps).body = (q, .ok)
      ∧ q.view = (SPacket.ack k pid form reason ps).view := by
  simp only [SPacket.body] at hlen ⊢
  cases form with
  | bare =>
    simp only [SPacket.formLegal, Bool.and_eq_true, beq_iff_eq, List.isEmpty_iff] at hform
    obtain ⟨hr, hp⟩ := hform
    subst hr; subst hp
    have h2 : ¬ ((encU16 pid ++ ([] : Bytes)).length > 2) := by simp
    simp only [Ack.unmarshal, h2, if_false, get_u16]
    exact ⟨_, rfl, by simp [Ack.view, SPacket.view, propVal, userPropsOf]⟩
  | reason =>
    simp only [SPacket.formLegal, List.isEmpty_iff] at hform
    subst hform
    have h2 : (encU16 pid ++ [reason]).length > 2 := by simp
    simp only [Ack.unmarshal, h2, if_true, get_u16, get_u8, getAny_atEnd, List.foldl_nil]
    exact ⟨_, rfl, by simp [Ack.view, SPacket.view, propVal, userPropsOf]⟩
  | full =>
    have h2 : (encU16 pid ++ ([reason] ++ Spec.propSection ps)).length > 2 := by simp
    have hsl := sectLen ps [] (encU16 pid ++ [reason]) (by simpa [List.append_assoc] using hlen)
    simp only [Ack.unmarshal, h2, if_true, get_u16, List.cons_append, List.nil_append, get_u8]
    have hg := getAny_spec k Ack.table hagree ps hleg (fun _ => ([] : Bytes)) (fun _ => rfl) [] hsl
    simp only [List.append_nil] at hg
    rw [hg]
    refine ⟨_, rfl, ?_⟩
    have hok : ∀ o ∈ ps, PropOk Ack.table o :=
      fun o ho => propOk_of_legal k Ack.table hagree o (legal_all k ps hleg o ho)
    have e := fun (p : Ack) => And.intro (Ack.fold_same1 ps p) (And.intro (Ack.fold_same2 ps p) (Ack.fold_ups ps hok p))
    simp only [] at e
    simp only [Ack.view, SPacket.view, Ack.fold_reason ps hok, (e _).1, (e _).2.1, (e _).2.2]
    simp

theorem frameOutcome_of_unmarshal (b0 : UInt8) (body : Bytes) (p q : Packet) (hd : Packet.dispatch b0 = p)
    (hu : p.unmarshal body = (q, .ok)) : frameOutcome b0 body = .pkt q ∨ (body.length = 0 ∧ frameOutcome b0 body = .pkt p) := by
  unfold frameOutcome
  by_cases h0 : body.length = 0
  · right; simp [h0, hd]
  · left; simp only [h0, if_false, hd, hu]

theorem ack_body_ne (k : Nat) (pid : UInt16) (form : Form) (reason : UInt8) (ps : List PropOcc) :
    (SPacket.ack k pid form reason ps).body.length ≠ 0 := by
  simp only [SPacket.body]; cases form <;> simp

theorem D_ack (k : Nat) (pid : UInt16) (form : Form) (reason : UInt8) (ps : List PropOcc)
    (hl : (SPacket.ack k pid form reason ps).Legal) :
    ∃ q, frameOutcome (SPacket.ack k pid form reason ps).firstByte (SPacket.ack k pid form reason ps).body = .pkt q
      ∧ q.kind = k ∧ q.view = (SPacket.ack k pid form reason ps).view := by
  obtain ⟨hleg, hlen⟩ := hl
  simp only [SPacket.legal, Bool.and_eq_true, decide_eq_true_eq] at hleg
  obtain ⟨⟨⟨hk1, hk2⟩, hps⟩, hform⟩ := hleg
  have hk : k = 4 ∨ k = 5 ∨ k = 6 ∨ k = 7 := by omega
  have hne := ack_body_ne k pid form reason ps
  rcases hk with rfl | rfl | rfl | rfl
  · obtain ⟨q, hu, hv⟩ := Ack.D 4 Ack.agree4 0x40 pid form reason ps hps hform hlen
    refine ⟨.puback q, ?_, rfl, hv⟩
    have hd : Packet.dispatch 0x40 = .puback { fixed := 0x40 } := by decide
    have : (SPacket.ack 4 pid form reason ps).firstByte = 0x40 := by simp [SPacket.firstByte]
    rw [this]
    unfold frameOutcome; rw [if_neg hne, hd]; simp only [Packet.unmarshal, hu]
  · obtain ⟨q, hu, hv⟩ := Ack.D 5 Ack.agree5 0x50 pid form reason ps hps hform hlen
    refine ⟨.pubrec q, ?_, rfl, hv⟩
    have hd : Packet.dispatch 0x50 = .pubrec { fixed := 0x50 } := by decide
    have : (SPacket.ack 5 pid form reason ps).firstByte = 0x50 := by simp [SPacket.firstByte]
    rw [this]
    unfold frameOutcome; rw [if_neg hne, hd]; simp only [Packet.unmarshal, hu]
  · obtain ⟨q, hu, hv⟩ := Ack.D 6 Ack.agree6 0x62 pid form reason ps hps hform hlen
    refine ⟨.pubrel q, ?_, rfl, hv⟩
    have hd : Packet.dispatch 0x62 = .pubrel { fixed := 0x62 } := by decide
    have : (SPacket.ack 6 pid form reason ps).firstByte = 0x62 := by simp [SPacket.firstByte]
    rw [this]
    unfold frameOutcome; rw [if_neg hne, hd]; simp only [Packet.unmarshal, hu]
  · obtain ⟨q, hu, hv⟩ := Ack.D 7 Ack.agree7 0x70 pid form reason ps hps hform hlen
    refine ⟨.pubcomp q, ?_, rfl, hv⟩
    have hd : Packet.dispatch 0x70 = .pubcomp { fixed := 0x70 } := by decide
    have : (SPacket.ack 7 pid form reason ps).firstByte = 0x70 := by simp [SPacket.firstByte]
    rw [this]
    unfold frameOutcome; rw [if_neg hne, hd]; simp only [Packet.unmarshal, hu]

end Mq

namespace Mq
open Spec (SPacket propVal userPropsOf vvOf propsLegal Form)

theorem SubAck.agree9 : tablesAgree 9 SubAck.table = true := by decide
theorem SubAck.agree11 : tablesAgree 11 SubAck.table = true := by decide
theorem Disconnect.agree : tablesAgree 14 Disconnect.table = true := by decide
theorem Auth.agree : tablesAgree 15 Auth.table = true := by decide

theorem SubAck.D (k : Nat) (hagree : tablesAgree k SubAck.table = true) (fx : UInt8) (pid : UInt16)
    (ps : List PropOcc) (codes : Bytes) (hleg : propsLegal k ps = true)
    (hlen : (SPacket.suback k pid ps codes).body.length < 268435456) :
    ∃ q : SubAck, ({ fixed := fx } : SubAck).unmarshal (SPacket.suback k pid ps codes).body = (q, .ok)
      ∧ q.view = (SPacket.suback k pid ps codes).view := by
  simp only [SPacket.body] at hlen ⊢
  have hsl := sectLen ps codes (encU16 pid) (by simpa [List.append_assoc] using hlen)
  simp only [SubAck.unmarshal, List.append_assoc, get_u16]
  have hg := getAny_spec k SubAck.table hagree ps hleg (fun _ => ([] : Bytes)) (fun _ => rfl) codes hsl
  rw [hg]
  refine ⟨_, rfl, ?_⟩
  have hok : ∀ o ∈ ps, PropOk SubAck.table o :=
    fun o ho => propOk_of_legal k SubAck.table hagree o (legal_all k ps hleg o ho)
  have e := fun (p : SubAck) => And.intro (SubAck.fold_same1 ps p) (SubAck.fold_ups ps hok p)
  simp only [] at e
  simp only [SubAck.view, SPacket.view, SubAck.fold_reasonString ps hok, (e _).1, (e _).2]
  simp

theorem D_suback_L (k : Nat) (pid : UInt16) (ps : List PropOcc) (codes : Bytes)
    (hl : (SPacket.suback k pid ps codes).LegalL) :
    ∃ q, frameOutcome (SPacket.suback k pid ps codes).firstByte (SPacket.suback k pid ps codes).body = .pkt q
      ∧ q.kind = k ∧ q.view = (SPacket.suback k pid ps codes).view := by
  obtain ⟨hleg, hlen⟩ := hl
  simp only [SPacket.legalL, Bool.and_eq_true, Bool.or_eq_true, beq_iff_eq] at hleg
  obtain ⟨hk, hps⟩ := hleg
  have hne : (SPacket.suback k pid ps codes).body.length ≠ 0 := by simp [SPacket.body]
  rcases hk with rfl | rfl
  · obtain ⟨q, hu, hv⟩ := SubAck.D 9 SubAck.agree9 0x90 pid ps codes hps hlen
    refine ⟨.suback q, ?_, rfl, hv⟩
    have hd : Packet.dispatch 0x90 = .suback { fixed := 0x90 } := by decide
    have : (SPacket.suback 9 pid ps codes).firstByte = 0x90 := by simp [SPacket.firstByte]
    rw [this]
    unfold frameOutcome; rw [if_neg hne, hd]; simp only [Packet.unmarshal, hu]
  · obtain ⟨q, hu, hv⟩ := SubAck.D 11 SubAck.agree11 0xb0 pid ps codes hps hlen
    refine ⟨.unsuback q, ?_, rfl, hv⟩
    have hd : Packet.dispatch 0xb0 = .unsuback { fixed := 0xb0 } := by decide
    have : (SPacket.suback 11 pid ps codes).firstByte = 0xb0 := by simp [SPacket.firstByte]
    rw [this]
    unfold frameOutcome; rw [if_neg hne, hd]; simp only [Packet.unmarshal, hu]

theorem D_suback (k : Nat) (pid : UInt16) (ps : List PropOcc) (codes : Bytes)
    (hl : (SPacket.suback k pid ps codes).Legal) :
    ∃ q, frameOutcome (SPacket.suback k pid ps codes).firstByte (SPacket.suback k pid ps codes).body = .pkt q
      ∧ q.kind = k ∧ q.view = (SPacket.suback k pid ps codes).view := by
  apply D_suback_L k pid ps codes
  obtain ⟨hleg, hlen⟩ := hl
  refine ⟨?_, hlen⟩
  simp only [SPacket.legal, SPacket.legalL, Bool.and_eq_true] at hleg ⊢
  exact hleg.1

theorem D_disconnect (form : Form) (reason : UInt8) (ps : List PropOcc)
    (hl : (SPacket.disconnect form reason ps).Legal) :
    ∃ q, frameOutcome 0xe0 (SPacket.disconnect form reason ps).body = .pkt (.disconnect q)
      ∧ (Packet.disconnect q).view = (SPacket.disconnect form reason ps).view := by
  obtain ⟨hleg, hlen⟩ := hl
  simp only [SPacket.legal, Bool.and_eq_true] at hleg
  obtain ⟨hps, hform⟩ := hleg
  have hdisp : Packet.dispatch 0xe0 = .disconnect { fixed := 0xe0 } := by decide
  simp only [SPacket.body] at hlen ⊢
  cases form with
  | bare =>
    simp only [SPacket.formLegal, Bool.and_eq_true, beq_iff_eq, List.isEmpty_iff] at hform
    obtain ⟨hr, hp⟩ := hform
    subst hr; subst hp
    refine ⟨{ fixed := 0xe0 }, by simp [frameOutcome, hdisp], ?_⟩
    simp [Packet.view, Disconnect.view, SPacket.view, propVal, userPropsOf]
  | reason =>
    simp only [SPacket.formLegal, List.isEmpty_iff] at hform
    subst hform
    have hne : ([reason] : Bytes).length ≠ 0 := by simp
    unfold frameOutcome
    rw [if_neg hne, hdisp]
    simp only [Packet.unmarshal, Disconnect.unmarshal, get_u8, getAny_atEnd, List.foldl_nil]
    exact ⟨_, rfl, by simp [Packet.view, Disconnect.view, SPacket.view, propVal, userPropsOf]⟩
  | full =>
    have hne : ([reason] ++ Spec.propSection ps).length ≠ 0 := by simp
    have hsl := sectLen ps [] [reason] (by simpa using hlen)
    unfold frameOutcome
    rw [if_neg hne, hdisp]
    simp only [Packet.unmarshal, Disconnect.unmarshal, List.cons_append, List.nil_append, get_u8]
    have hg := getAny_spec 14 Disconnect.table Disconnect.agree ps hps
      (Disconnect.binInit { fixed := 0xe0, reasonCode := reason })
      (by intro id; simp [Disconnect.binInit]; repeat' split <;> rfl) [] hsl
    simp only [List.append_nil] at hg
    rw [hg]
    refine ⟨_, rfl, ?_⟩
    have hok : ∀ o ∈ ps, PropOk Disconnect.table o :=
      fun o ho => propOk_of_legal 14 Disconnect.table Disconnect.agree o (legal_all 14 ps hps o ho)
    have e := fun (p : Disconnect) => And.intro (Disconnect.fold_same1 ps p) (Disconnect.fold_ups ps hok p)
    simp only [] at e
    simp only [Packet.view, Disconnect.view, SPacket.view, Disconnect.fold_sessionExpiryInterval ps hok,
      Disconnect.fold_reasonString ps hok, Disconnect.fold_serverReference ps hok, (e _).1, (e _).2]
    simp

theorem D_auth (form : Form) (reason : UInt8) (ps : List PropOcc)
    (hl : (SPacket.auth form reason ps).Legal) :
    ∃ q, frameOutcome 0xf0 (SPacket.auth form reason ps).body = .pkt (.auth q)
      ∧ (Packet.auth q).view = (SPacket.auth form reason ps).view := by
  obtain ⟨hleg, hlen⟩ := hl
  simp only [SPacket.legal, Bool.and_eq_true] at hleg
  obtain ⟨⟨hps, hform⟩, hnr⟩ := hleg
  have hdisp : Packet.dispatch 0xf0 = .auth { fixed := 0xf0 } := by decide
  simp only [SPacket.body] at hlen ⊢
  cases form with
  | bare =>
    simp only [SPacket.formLegal, Bool.and_eq_true, beq_iff_eq, List.isEmpty_iff] at hform
    obtain ⟨hr, hp⟩ := hform
    subst hr; subst hp
    refine ⟨{ fixed := 0xf0 }, by simp [frameOutcome, hdisp], ?_⟩
    simp [Packet.view, Auth.view, SPacket.view, propVal, userPropsOf]
  | reason => simp at hnr
  | full =>
    have hne : ([reason] ++ Spec.propSection ps).length ≠ 0 := by simp
    have hsl := sectLen ps [] [reason] (by simpa using hlen)
    unfold frameOutcome
    rw [if_neg hne, hdisp]
    simp only [Packet.unmarshal, Auth.unmarshal, List.cons_append, List.nil_append, get_u8]
    have hg := getAny_spec 15 Auth.table Auth.agree ps hps
      (Auth.binInit { fixed := 0xf0, reasonCode := reason })
      (by intro id; simp [Auth.binInit]; repeat' split <;> rfl) [] hsl
    simp only [List.append_nil] at hg
    rw [hg]
    refine ⟨_, rfl, ?_⟩
    have hok : ∀ o ∈ ps, PropOk Auth.table o :=
      fun o ho => propOk_of_legal 15 Auth.table Auth.agree o (legal_all 15 ps hps o ho)
    have e := fun (p : Auth) => And.intro (Auth.fold_same1 ps p) (Auth.fold_ups ps hok p)
    simp only [] at e
    simp only [Packet.view, Auth.view, SPacket.view, Auth.fold_authMethod ps hok,
      Auth.fold_authData ps hok, Auth.fold_reasonString ps hok, (e _).1, (e _).2]
    simp

theorem D_ping (k : Nat) (hl : (SPacket.ping k).Legal) :
    ∃ q, frameOutcome (SPacket.ping k).firstByte (SPacket.ping k).body = .pkt q
      ∧ q.kind = k ∧ q.view = (SPacket.ping k).view := by
  obtain ⟨hleg, _⟩ := hl
  simp only [SPacket.legal, Bool.or_eq_true, beq_iff_eq] at hleg
  rcases hleg with rfl | rfl
  · exact ⟨.pingreq { fixed := 0xc0 }, by decide, rfl, rfl⟩
  · exact ⟨.pingresp { fixed := 0xd0 }, by decide, rfl, rfl⟩

end Mq
