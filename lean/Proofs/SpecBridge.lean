import Spec
import Proofs.PropLoop
import Proofs.FrameRead
/-!
# Proofs.SpecBridge — from the specification's legality predicates to the hypotheses of the
model's property-loop lemma
-/
namespace Mq
open Spec (propDefs propDef? occLegal occOnce propsLegal PropDef Kind)

theorem propSection_eq (ps : List PropOcc) : Spec.propSection ps = encPropSection ps := rfl

theorem mkFrame_eq (b0 : UInt8) (body : Bytes) : Spec.mkFrame b0 body = frameBytes b0 body := rfl

/-- the specification's table for packet kind `k` is covered by the model's decoder table `tbl`
(the `propertyMap` of the Go type, plus the two identifiers `getAny` handles inline) — a finite
check, decided by evaluation for each kind -/
def tablesAgree (k : Nat) (tbl : PropTable) : Bool :=
  propDefs.all fun d =>
    !d.allowed.contains k
    || tbl.lookup d.id == some d.ty
    || (tbl.lookup d.id == none && ((d.id == 0x26 && d.ty == .pair) || (d.id == 0x0b && d.ty == .vb)))

theorem propDef?_some (id : UInt8) (d : PropDef) (h : propDef? id = some d) : d ∈ propDefs ∧ d.id = id := by
  unfold propDef? at h
  have h1 := List.mem_of_find?_eq_some h
  have h2 := List.find?_some h
  exact ⟨h1, by simpa using h2⟩

theorem valInRange_iff (v : WVal) (h : Spec.valInRange v = true) : v.InRange := by
  cases v <;> simp_all [Spec.valInRange, WVal.InRange]

theorem propOk_of_legal (k : Nat) (tbl : PropTable) (hagree : tablesAgree k tbl = true) (o : PropOcc)
    (h : occLegal k o = true) : PropOk tbl o := by
  unfold occLegal at h
  split at h
  · rename_i d hd
    obtain ⟨hmem, hid⟩ := propDef?_some _ _ hd
    simp only [Bool.and_eq_true, beq_iff_eq] at h
    obtain ⟨⟨hk, hty⟩, hr⟩ := h
    have ha := (List.all_eq_true.mp hagree) d hmem
    simp only [hk, Bool.not_true, Bool.false_or, Bool.or_eq_true, Bool.and_eq_true, beq_iff_eq] at ha
    refine ⟨valInRange_iff _ hr, ?_⟩
    rw [← hid, ← hty]
    rcases ha with h1 | ⟨h1, h2⟩
    · left; exact h1
    · right; exact ⟨h1, h2⟩
  · simp at h

/-- absent from the occurrences so far ⇒ the destination still holds its initial content -/
theorem lastBin_absent (init : UInt8 → Bytes) (id : UInt8) : ∀ (acc : List PropOcc),
    (∀ o ∈ acc, o.id ≠ id) → lastBin init id acc = init id := by
  intro acc
  unfold lastBin
  suffices h : ∀ (cur : Bytes), (∀ o ∈ acc, o.id ≠ id) →
      acc.foldl (fun cur o => if o.id = id then (match o.val with | .bin v => v | _ => cur) else cur) cur = cur from
    fun hall => h (init id) hall
  induction acc with
  | nil => intro cur _; rfl
  | cons a t ih =>
    intro cur hall
    simp only [List.foldl_cons]
    have : ¬ (a.id = id) := hall a (by simp)
    simp only [this, if_false]
    exact ih cur (fun o ho => hall o (by simp [ho]))

/-- the only repeatable identifiers are the user property and the subscription identifier;
string/binary properties occur at most once -/
theorem bin_not_repeatable : ∀ d ∈ propDefs, d.ty = .bin → d.repeatable = [] := by decide

theorem binFresh_of_legal (k : Nat) (ps : List PropOcc) (hl : propsLegal k ps = true)
    (init : UInt8 → Bytes) (hinit : ∀ id, init id = []) :
    ∀ pre o post, ps = pre ++ o :: post → BinFresh (lastBin init) pre o := by
  intro pre o post hsplit hbin
  rw [lastBin_absent init o.id pre ?_, hinit]
  intro o' ho' hid
  -- `o` is a bin occurrence, so its identifier is not repeatable; two occurrences contradict occOnce
  simp only [propsLegal, Bool.and_eq_true] at hl
  obtain ⟨hall, honce⟩ := hl
  have hmem : o ∈ ps := by rw [hsplit]; simp
  have hlo := (List.all_eq_true.mp hall) o hmem
  have hon := (List.all_eq_true.mp honce) o hmem
  unfold occLegal at hlo
  split at hlo
  · rename_i d hd
    obtain ⟨hdm, _⟩ := propDef?_some _ _ hd
    simp only [Bool.and_eq_true, beq_iff_eq] at hlo
    have hty : d.ty = .bin := by rw [hlo.1.2, hbin]; rfl
    have hrep := bin_not_repeatable d hdm hty
    simp only [hd, hrep, List.contains_nil, Bool.false_or, decide_eq_true_eq] at hon
    -- count occurrences of o.id in ps: at least two
    have : 2 ≤ (ps.filter (·.id == o.id)).length := by
      rw [hsplit, List.filter_append, List.length_append, List.filter_cons]
      have h1 : 1 ≤ (pre.filter (·.id == o.id)).length := by
        apply List.length_pos_iff.mpr
        intro hnil
        have : o' ∈ pre.filter (·.id == o.id) := List.mem_filter.mpr ⟨ho', by simp [hid]⟩
        rw [hnil] at this; simp at this
      simp
      omega
    omega
  · simp at hlo

theorem legal_all (k : Nat) (ps : List PropOcc) (hl : propsLegal k ps = true) : ∀ o ∈ ps, occLegal k o = true := by
  simp only [propsLegal, Bool.and_eq_true] at hl
  exact fun o ho => (List.all_eq_true.mp hl.1) o ho

/-- everything `getAny` needs about a legal property list, for a fresh destination -/
theorem getAny_spec (k : Nat) (tbl : PropTable) (hagree : tablesAgree k tbl = true) (ps : List PropOcc)
    (hl : propsLegal k ps = true) (init : UInt8 → Bytes) (hinit : ∀ id, init id = []) (suf : Bytes)
    (hlen : (ps.flatMap encOcc).length < 268435456) :
    ({ rest := Spec.propSection ps ++ suf, st := .ok } : Buf).getAny tbl (lastBin init) = ({ rest := suf, st := .ok }, ps) := by
  rw [propSection_eq]
  exact getAny_enc tbl (lastBin init) ps suf
    (fun o ho => propOk_of_legal k tbl hagree o (legal_all k ps hl o ho))
    (binFresh_of_legal k ps hl init hinit) hlen

theorem section_len_le (ps : List PropOcc) : (ps.flatMap encOcc).length ≤ (Spec.propSection ps).length := by
  rw [propSection_eq]; simp [encPropSection]

end Mq
