import Proofs.ReadPacket
/-!
# Proofs.Frame — the fixed header over plain bytes: complete, cut, and never stuck
-/
namespace Mq

/-- the remaining-length loop on a complete minimal encoding -/
theorem pureVb_enc_gen (x : Nat) : ∀ (k mult acc fuel : Nat) (fail : IOErr) (rest : Bytes), mult = 128 ^ k →
    x < 128 ^ (4 - k) → k < 4 → 4 - k ≤ fuel →
    pureVb fuel (encVb x ++ rest) fail mult acc = ((some (acc + x * mult), none), rest) := by
  induction x using Nat.strongRecOn with
  | _ x ih =>
    intro k mult acc fuel fail rest hm hx hk hfuel
    cases fuel with
    | zero => omega
    | succ fuel =>
      rw [encVb_eq]
      split
      · rename_i h
        have hm' : ¬ (128 * 128 * 128 < mult) := by
          subst hm
          have : k = 0 ∨ k = 1 ∨ k = 2 ∨ k = 3 := by omega
          rcases this with h | h | h | h <;> subst h <;> decide
        have h256 : x < 256 := by omega
        simp only [List.cons_append, List.nil_append, pureVb, UInt8.toNat_ofNat', Nat.mod_eq_of_lt h256,
          Nat.mod_eq_of_lt h, hm', if_false, h, if_true]
      · rename_i h
        have hk3 : k < 3 := by
          rcases Nat.lt_or_ge k 3 with h3 | h3
          · exact h3
          · have : k = 3 := by omega
            subst this; simp at hx; omega
        have hm' : ¬ (128 * 128 * 128 < mult) := by
          subst hm
          have : k = 0 ∨ k = 1 ∨ k = 2 := by omega
          rcases this with h | h | h <;> subst h <;> decide
        have hx' : x / 128 < 128 ^ (4 - (k + 1)) := by
          have : 128 ^ (4 - k) = 128 * 128 ^ (4 - (k + 1)) := by
            have : 4 - k = (4 - (k + 1)) + 1 := by omega
            rw [this, Nat.pow_succ]; omega
          rw [this] at hx
          exact Nat.div_lt_of_lt_mul hx
        have := ih (x / 128) (by omega) (k + 1) (mult * 128) (acc + (x % 128) * mult) fuel fail rest
          (by subst hm; rw [Nat.pow_succ]) hx' (by omega) (by omega)
        have hb : (UInt8.ofNat (x % 128 + 128)).toNat = x % 128 + 128 := by
          simp [UInt8.toNat_ofNat']; omega
        have e1 : (x % 128 + 128) % 128 = x % 128 := by omega
        have e2 : ¬ (x % 128 + 128 < 128) := by omega
        simp only [List.cons_append, pureVb, hb, hm', e1, e2, if_false, this]
        have hv : acc + x % 128 * mult + x / 128 * (mult * 128) = acc + x * mult := by
          have := Nat.div_add_mod x 128
          calc acc + x % 128 * mult + x / 128 * (mult * 128)
              = acc + (x % 128 + 128 * (x / 128)) * mult := by
                rw [Nat.add_mul, Nat.mul_assoc 128, Nat.mul_comm 128, Nat.mul_comm (x / 128 * mult)]
                rw [Nat.mul_comm 128 (x / 128 * mult), Nat.mul_assoc, Nat.add_assoc]
            _ = acc + x * mult := by rw [Nat.add_comm (x % 128), this]
        rw [hv]

theorem pureVb_enc (n : Nat) (hn : n < 268435456) (fail : IOErr) (rest : Bytes) :
    pureVb 5 (encVb n ++ rest) fail 1 0 = ((some n, none), rest) := by
  have := pureVb_enc_gen n 0 1 0 5 fail rest rfl (by simpa using hn) (by omega) (by omega)
  simpa using this

/-- the loop on a proper prefix of an encoding: every byte is a continuation byte, the stream
ends, the end-of-stream error is reported -/
theorem pureVb_prefix_gen (x : Nat) : ∀ (j k mult acc fuel : Nat) (fail : IOErr), mult = 128 ^ k →
    x < 128 ^ (4 - k) → k < 4 → 4 - k ≤ fuel → j < (encVb x).length →
    pureVb fuel ((encVb x).take j) fail mult acc = ((none, some (.io (shortErr fail []))), []) := by
  induction x using Nat.strongRecOn with
  | _ x ih =>
    intro j k mult acc fuel fail hm hx hk hfuel hj
    cases fuel with
    | zero => omega
    | succ fuel =>
      rw [encVb_eq] at hj ⊢
      split at hj
      · -- single byte: the only proper prefix is empty
        rename_i h
        simp at hj
        subst hj
        simp [h, pureVb]
      · rename_i h
        simp only [h, if_false]
        cases j with
        | zero => simp [pureVb]
        | succ j =>
          have hk3 : k < 3 := by
            rcases Nat.lt_or_ge k 3 with h3 | h3
            · exact h3
            · have : k = 3 := by omega
              subst this; simp at hx; omega
          have hm' : ¬ (128 * 128 * 128 < mult) := by
            subst hm
            have : k = 0 ∨ k = 1 ∨ k = 2 := by omega
            rcases this with h | h | h <;> subst h <;> decide
          have hx' : x / 128 < 128 ^ (4 - (k + 1)) := by
            have : 128 ^ (4 - k) = 128 * 128 ^ (4 - (k + 1)) := by
              have : 4 - k = (4 - (k + 1)) + 1 := by omega
              rw [this, Nat.pow_succ]; omega
            rw [this] at hx
            exact Nat.div_lt_of_lt_mul hx
          have hb : (UInt8.ofNat (x % 128 + 128)).toNat = x % 128 + 128 := by
            simp [UInt8.toNat_ofNat']; omega
          have e2 : ¬ (x % 128 + 128 < 128) := by omega
          simp only [List.take_succ_cons, pureVb, hb, hm', e2, if_false]
          exact ih (x / 128) (by omega) j (k + 1) (mult * 128) _ fuel fail
            (by subst hm; rw [Nat.pow_succ]) hx' (by omega) (by omega) (by simpa using hj)

theorem pureVb_prefix (n : Nat) (hn : n < 268435456) (fail : IOErr) (j : Nat) (hj : j < (encVb n).length) :
    pureVb 5 ((encVb n).take j) fail 1 0 = ((none, some (.io (shortErr fail []))), []) :=
  pureVb_prefix_gen n j 0 1 0 5 fail rfl (by simpa using hn) (by omega) (by omega) hj

/-- the loop never gets stuck: with five iterations it always produces a value or an error -/
theorem pureVb_decides : ∀ (fuel : Nat) (d : Bytes) (fail : IOErr) (mult acc k : Nat), mult = 128 ^ k →
    k ≤ 4 → 5 ≤ k + fuel → (pureVb fuel d fail mult acc).1 ≠ (none, none) := by
  intro fuel
  induction fuel with
  | zero => intro d fail mult acc k _ h1 h2; omega
  | succ fuel ih =>
    intro d fail mult acc k hm hk hf
    unfold pureVb
    cases d with
    | nil => simp
    | cons b rest =>
      simp only []
      split
      · simp
      · rename_i hgt
        split
        · simp
        · have hk4 : k < 4 := by
            rcases Nat.lt_or_ge k 4 with h | h
            · exact h
            · have : k = 4 := by omega
              subst this; subst hm; exact absurd (by decide) hgt
          exact ih rest fail (mult * 128) _ (k + 1) (by subst hm; rw [Nat.pow_succ]) (by omega) (by omega)

end Mq
