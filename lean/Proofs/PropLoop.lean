import Proofs.Buf
/-!
# Proofs.PropLoop — the property loop on an encoded property section (the core of C01/C03)
-/
namespace Mq

/-- values inside MQTT's limits -/
def WVal.InRange : WVal → Prop
  | .bin v => v.length < 65536
  | .pair k v => k.length < 65536 ∧ v.length < 65536
  | .vb n => n < 268435456
  | _ => True

theorem encV_length_pos (v : WVal) : 0 < (encV v).length := by
  cases v <;> simp [encV, encPair, encVb_length_pos] <;> omega

/-- a property value decoded from its own encoding. For `bin` the destination's previous content
`old` is irrelevant unless the transmitted value is empty, in which case it must be empty too. -/
theorem decK_enc (old : Bytes) (v : WVal) (h : v.InRange) (rest : Bytes)
    (hold : ∀ x, v = .bin x → x = [] → old = []) :
    decK old v.kind (encV v ++ rest) = .ok v (encV v).length := by
  cases v with
  | u8 x => simp [WVal.kind, decK, encV, decU8, DecRes.map]
  | u16 x => simp only [WVal.kind, decK, encV, decU16_enc, DecRes.map]; simp
  | u32 x => simp only [WVal.kind, decK, encV, decU32_enc, DecRes.map]; simp
  | bool x => simp only [WVal.kind, decK, encV, decBool_enc, DecRes.map]; simp
  | bin x =>
    simp only [WVal.InRange] at h
    simp only [WVal.kind, decK, encV]
    by_cases hx : x = []
    · have := hold x rfl hx
      subst this; subst hx
      simp [decBin_enc, DecRes.map]
    · rw [decBin_enc_old old x rest h hx]
      simp [DecRes.map]; omega
  | pair k x =>
    simp only [WVal.InRange] at h
    simp only [WVal.kind, decK, encV, decPair_enc k x rest h.1 h.2, DecRes.map]
    simp [encPair]; omega
  | vb n =>
    simp only [WVal.InRange] at h
    simp only [WVal.kind, decK, encV, decVb_enc n h rest, DecRes.map]
    simp [vbWidth]

/-- one occurrence on the wire: identifier, value -/
def encOcc (o : PropOcc) : Bytes := o.id :: encV o.val

/-- the loop knows how to read this occurrence: its identifier selects the decoder of its kind -/
def PropOk (tbl : PropTable) (o : PropOcc) : Prop :=
  o.val.InRange ∧
  (tbl.lookup o.id = some o.val.kind
    ∨ (tbl.lookup o.id = none ∧ ((o.id = 0x26 ∧ o.val.kind = .pair) ∨ (o.id = 0x0b ∧ o.val.kind = .vb))))

/-- an empty string/binary value is transmitted only into a destination that is still empty -/
def BinFresh (oldOf : UInt8 → List PropOcc → Bytes) (acc : List PropOcc) (o : PropOcc) : Prop :=
  o.val = .bin [] → oldOf o.id acc = []

theorem get_occ_value (b_rest : Bytes) (old : Bytes) (v : WVal) (h : v.InRange) (suf : Bytes)
    (hold : ∀ x, v = .bin x → x = [] → old = []) :
    ({ rest := encV v ++ suf, st := .ok } : Buf).get (decK old v.kind) (.u8 0) = ({ rest := suf, st := .ok }, v) :=
  get_enc (decK old v.kind) (.u8 0) v (encV v) suf (by
    intro hnil; have := encV_length_pos v; rw [hnil] at this; simp at this) (decK_enc old v h suf hold)

theorem getAnyLoop_enc (tbl : PropTable) (oldOf : UInt8 → List PropOcc → Bytes) (n0 plen : Nat) :
    ∀ (occs acc : List PropOcc) (suf : Bytes) (fuel : Nat),
      (∀ o ∈ occs, PropOk tbl o) →
      (∀ pre o post, occs = pre ++ o :: post → BinFresh oldOf (acc ++ pre) o) →
      (occs.flatMap encOcc ++ suf).length ≤ n0 →
      n0 - (occs.flatMap encOcc ++ suf).length + (occs.flatMap encOcc).length = plen →
      occs.length < fuel →
      getAnyLoop tbl oldOf n0 plen fuel { rest := occs.flatMap encOcc ++ suf, st := .ok } acc
        = ({ rest := suf, st := .ok }, acc ++ occs) := by
  intro occs
  induction occs with
  | nil =>
    intro acc suf fuel _ _ hle hpl hf
    cases fuel with
    | zero => omega
    | succ fuel =>
      simp only [List.flatMap_nil, List.nil_append, List.length_nil, Nat.add_zero] at hpl hle ⊢
      unfold getAnyLoop
      have : ¬ (n0 - suf.length < plen) := by omega
      simp [this]
  | cons o occs ih =>
    intro acc suf fuel hok hbin hle hpl hf
    cases fuel with
    | zero => simp at hf
    | succ fuel =>
      have hko := hok o (by simp)
      have hfresh := hbin [] o occs rfl
      simp only [List.append_nil] at hfresh
      simp only [List.flatMap_cons, List.append_assoc] at hle hpl ⊢
      have hpos : 0 < (encOcc o).length := by simp [encOcc]
      unfold getAnyLoop
      have hcond : n0 - (encOcc o ++ (occs.flatMap encOcc ++ suf)).length < plen := by
        simp only [List.length_append] at hle hpl ⊢; omega
      simp only [hcond, if_true]
      -- the identifier
      have g1 : ({ rest := encOcc o ++ (occs.flatMap encOcc ++ suf), st := .ok } : Buf).get decU8 0
          = ({ rest := encV o.val ++ (occs.flatMap encOcc ++ suf), st := .ok }, o.id) := by
        have := get_enc decU8 (0 : UInt8) o.id [o.id] (encV o.val ++ (occs.flatMap encOcc ++ suf)) (by simp)
          (by simp [decU8])
        simpa [encOcc] using this
      rw [g1]
      simp only [ne_eq, not_true_eq_false, if_false]
      -- the recursive call, shared by all branches
      have hrec := ih (acc ++ [o]) suf fuel (fun x hx => hok x (by simp [hx]))
        (by
          intro pre x post hsplit
          have := hbin (o :: pre) x post (by simp [hsplit])
          simpa [BinFresh, List.append_assoc] using this)
        (by simp only [List.length_append] at hle ⊢; omega)
        (by simp only [List.length_append, encOcc, List.length_cons] at hpl hle ⊢; omega)
        (by simp only [List.length_cons] at hf; omega)
      have hfin : acc ++ [o] ++ occs = acc ++ o :: occs := by simp
      rw [hfin] at hrec
      have hocc : ({ id := o.id, val := o.val } : PropOcc) = o := rfl
      obtain ⟨hr, hcase⟩ := hko
      rcases hcase with hl | ⟨hl, hup | hsub⟩
      · -- in the packet's table
        simp only [hl]
        have g2 := get_occ_value [] (oldOf o.id acc) o.val hr (occs.flatMap encOcc ++ suf)
          (by intro x hx hxe; subst hxe; exact hfresh hx)
        rw [g2]
        simp only [if_true, hocc]
        exact hrec
      · -- user property
        simp only [hl]
        rw [if_pos hup.1]
        have g2 := get_occ_value [] [] o.val hr (occs.flatMap encOcc ++ suf) (by intro x hx hxe; rfl)
        rw [hup.2] at g2
        rw [g2]
        simp only [if_true, hocc]
        exact hrec
      · -- subscription identifier
        have hne : ¬ (o.id = 0x26) := by rw [hsub.1]; decide
        simp only [hl]
        rw [if_neg hne, if_pos hsub.1]
        have g2 := get_occ_value [] [] o.val hr (occs.flatMap encOcc ++ suf) (by intro x hx hxe; rfl)
        rw [hsub.2] at g2
        rw [g2]
        simp only [if_true, hocc]
        exact hrec

/-- a property section on the wire: length, then the occurrences -/
def encPropSection (occs : List PropOcc) : Bytes :=
  encVb (occs.flatMap encOcc).length ++ occs.flatMap encOcc

theorem occs_length_le (occs : List PropOcc) : occs.length ≤ (occs.flatMap encOcc).length := by
  induction occs with
  | nil => simp
  | cons o t ih => simp [List.flatMap_cons, encOcc] at ih ⊢; omega

/-- **`getAny` on an encoded property section** returns the occurrences in wire order and stops
exactly at the end of the section -/
theorem getAny_enc (tbl : PropTable) (oldOf : UInt8 → List PropOcc → Bytes) (occs : List PropOcc) (suf : Bytes)
    (hok : ∀ o ∈ occs, PropOk tbl o)
    (hbin : ∀ pre o post, occs = pre ++ o :: post → BinFresh oldOf pre o)
    (hlen : (occs.flatMap encOcc).length < 268435456) :
    ({ rest := encPropSection occs ++ suf, st := .ok } : Buf).getAny tbl oldOf = ({ rest := suf, st := .ok }, occs) := by
  unfold Buf.getAny encPropSection
  have hloop := getAnyLoop_enc tbl oldOf (occs.flatMap encOcc ++ suf).length (occs.flatMap encOcc).length occs [] suf
    ((occs.flatMap encOcc ++ suf).length + 1) hok (by simpa using hbin) (Nat.le_refl _) (by omega)
    (by have := occs_length_le occs; simp only [List.length_append]; omega)
  generalize occs.flatMap encOcc = ps at hloop hlen ⊢
  have hne : ¬ (encVb ps.length ++ (ps ++ suf) = []) := by
    intro h
    have h1 := encVb_ne_nil ps.length
    cases hh : encVb ps.length with
    | nil => exact h1 hh
    | cons a t => rw [hh] at h; simp at h
  simp only [List.append_assoc]
  rw [if_neg hne]
  have g1 := get_enc decVb (0 : Nat) ps.length (encVb ps.length) (ps ++ suf) (encVb_ne_nil _)
    (by rw [decVb_enc _ hlen]; rfl)
  rw [g1]
  simp only [List.nil_append] at hloop
  simp only []
  exact hloop

end Mq
