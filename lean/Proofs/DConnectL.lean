import Proofs.DConnect
/-!
# Proofs.DConnectL — the CONNECT decoder does not look at the protocol name or version

`UnmarshalBinary` stores the protocol name and version it reads and never consults them again: on
two bodies that differ only there, every later stage does the same thing. So what is proved of the
decoder on `MQTT`/5 frames carries to any name (up to 65 535 bytes) and any version.
-/
namespace Mq

def Connect.setNV (n : Bytes) (v : UInt8) (p : Connect) : Connect := { p with protocolName := n, protocolVersion := v }

theorem Connect.applyOcc_setNV (n : Bytes) (v : UInt8) (p : Connect) (o : PropOcc) :
    (p.setNV n v).applyOcc o = (p.applyOcc o).setNV n v := by
  unfold Connect.applyOcc Connect.setNV
  cases o.val <;> simp only [] <;> (try split) <;> (try split) <;> rfl

theorem Connect.fold_setNV (n : Bytes) (v : UInt8) (ps : List PropOcc) (p : Connect) :
    ps.foldl Connect.applyOcc (p.setNV n v) = (ps.foldl Connect.applyOcc p).setNV n v := by
  induction ps generalizing p with
  | nil => rfl
  | cons o ps ih => simp only [List.foldl_cons, Connect.applyOcc_setNV, ih]

theorem Connect.readProps_setNV (n : Bytes) (v : UInt8) (p : Connect) (b : Buf) :
    (p.setNV n v).readProps b = ((p.readProps b).1, (p.readProps b).2.setNV n v) := by
  simp only [Connect.readProps, Connect.fold_setNV]
  rfl

theorem Connect.readClientID_setNV (n : Bytes) (v : UInt8) (p : Connect) (b : Buf) :
    (p.setNV n v).readClientID b = ((p.readClientID b).1, (p.readClientID b).2.setNV n v) := rfl

theorem Connect.readWill_setNV (n : Bytes) (v : UInt8) (p : Connect) (b : Buf) :
    (p.setNV n v).readWill b = ((p.readWill b).1, (p.readWill b).2.setNV n v) := by
  unfold Connect.readWill
  show (if has p.flags Connect.fWillFlag then _ else _) = _
  split <;> rfl

theorem Connect.readUsername_setNV (n : Bytes) (v : UInt8) (p : Connect) (b : Buf) :
    (p.setNV n v).readUsername b = ((p.readUsername b).1, (p.readUsername b).2.setNV n v) := by
  unfold Connect.readUsername
  show (if has p.flags Connect.fUsername then _ else _) = _
  split <;> rfl

theorem Connect.readPassword_setNV (n : Bytes) (v : UInt8) (p : Connect) (b : Buf) :
    (p.setNV n v).readPassword b = ((p.readPassword b).1, (p.readPassword b).2.setNV n v) := by
  unfold Connect.readPassword
  show (if has p.flags Connect.fPassword then _ else _) = _
  split <;> rfl

/-- the head stage on a body that starts with any name and version: same cursor, same flags and
keep-alive as on the `MQTT`/5 body with the same tail -/
theorem Connect.readHead_subst (p : Connect) (hp : p.protocolName = []) (n : Bytes) (hn : n.length < 65536) (v : UInt8)
    (t : Bytes) :
    p.readHead { rest := encBin n ++ v :: t }
      = ((p.readHead { rest := encBin Connect.mqtt5 ++ 5 :: t }).1,
         (p.readHead { rest := encBin Connect.mqtt5 ++ 5 :: t }).2.setNV n v) := by
  simp only [Connect.readHead, hp, get_bin n hn, get_bin Connect.mqtt5 (by decide), get_u8]
  rfl

/-- **substitution**: decoding a CONNECT body with any protocol name and version gives the packet
decoded from the `MQTT`/5 body with the same tail, with name and version replaced; same status -/
theorem Connect.unmarshal_subst (p : Connect) (hp : p.protocolName = []) (n : Bytes) (hn : n.length < 65536) (v : UInt8)
    (t : Bytes) :
    p.unmarshal (encBin n ++ v :: t)
      = ((p.unmarshal (encBin Connect.mqtt5 ++ 5 :: t)).1.setNV n v, (p.unmarshal (encBin Connect.mqtt5 ++ 5 :: t)).2) := by
  simp only [Connect.unmarshal, Connect.readHead_subst p hp n hn v t, Connect.readProps_setNV, Connect.readClientID_setNV,
    Connect.readWill_setNV, Connect.readUsername_setNV, Connect.readPassword_setNV]

/-- the CONNECT body with the protocol name and version split off -/
theorem Connect.body?_split (q : Connect) (b : Bytes) (hb : q.body? = some b) :
    ∃ t, b = encBin q.protocolName ++ q.protocolVersion :: t
      ∧ (q.setNV Connect.mqtt5 5).body? = some (encBin Connect.mqtt5 ++ 5 :: t) := by
  simp only [Connect.body?, Option.map_eq_some_iff] at hb
  obtain ⟨pl, hpl, rfl⟩ := hb
  refine ⟨q.flags :: (encU16 q.keepAlive ++ encVb q.props.length ++ q.props ++ pl), ?_, ?_⟩
  · simp [Connect.varHeader]
  · have : (q.setNV Connect.mqtt5 5).payload? = some pl := hpl
    simp only [Connect.body?, this, Option.map_some, Option.some.injEq]
    simp [Connect.varHeader, Connect.setNV, Connect.props]

/-- the twin's length bound in `Connect.InDomainL` is implied by the packet's own -/
theorem Connect.twin_bound (q : Connect) (h : ∀ b, q.body? = some b → b.length < 268435456) :
    ∀ b, (q.setNV Connect.mqtt5 5).body? = some b → b.length < 268435456 + 4 := by
  intro b hb
  cases hq : q.body? with
  | none =>
    have : (q.setNV Connect.mqtt5 5).body? = none := by
      simp only [Connect.body?, Option.map_eq_none_iff] at hq ⊢; exact hq
    rw [this] at hb; cases hb
  | some b0 =>
    obtain ⟨t, rfl, h0⟩ := Connect.body?_split q b0 hq
    rw [h0] at hb; simp only [Option.some.injEq] at hb; subst hb
    have := h _ hq
    have hn : Connect.mqtt5.length = 4 := rfl
    simp only [List.length_append, List.length_cons, encBin, encU16, hn] at this ⊢
    omega

end Mq
