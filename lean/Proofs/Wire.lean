import Mq.Wire
/-!
# Proofs.Wire — helper lemmas about the wire types: round trips, widths, no panic
-/
namespace Mq

/-! ## fixed-width integers -/

@[simp] theorem encU16_length (v : UInt16) : (encU16 v).length = 2 := rfl
@[simp] theorem encU32_length (v : UInt32) : (encU32 v).length = 4 := rfl
@[simp] theorem encBool_length (v : Bool) : (encBool v).length = 1 := rfl
@[simp] theorem encBin_length (v : Bytes) : (encBin v).length = v.length + 2 := by simp [encBin]

theorem decU16_enc (v : UInt16) (rest : Bytes) : decU16 (encU16 v ++ rest) = .ok v 2 := by
  simp only [encU16, List.cons_append, List.nil_append, decU16, List.length_cons]
  have h : ¬ (rest.length + 1 + 1 < 2) := by omega
  simp only [h, if_false]
  congr 1
  apply UInt16.toNat_inj.mp
  have := v.toNat_lt
  simp [UInt8.toNat_ofNat']
  omega

theorem decU32_enc (v : UInt32) (rest : Bytes) : decU32 (encU32 v ++ rest) = .ok v 4 := by
  simp only [encU32, List.cons_append, List.nil_append, decU32, List.length_cons]
  have h : ¬ (rest.length + 1 + 1 + 1 + 1 < 4) := by omega
  simp only [h, if_false]
  congr 1
  apply UInt32.toNat_inj.mp
  have := v.toNat_lt
  simp [UInt8.toNat_ofNat']
  omega

theorem decBool_enc (v : Bool) (rest : Bytes) : decBool (encBool v ++ rest) = .ok v 1 := by
  cases v <;> simp [encBool, decBool]

theorem decU8_cons (a : UInt8) (rest : Bytes) : decU8 (a :: rest) = .ok a 1 := rfl

/-! ## length-prefixed data -/

theorem be16_ofNat (n : Nat) (h : n < 65536) :
    (UInt16.ofNat ((UInt8.ofNat (n / 256)).toNat * 256 + (UInt8.ofNat (n % 256)).toNat)).toNat = n := by
  simp [UInt8.toNat_ofNat']
  omega

/-- the prefix that `bindata.UnmarshalBinary` reads, on the output of `fill` -/
theorem decU16_encBin (v rest : Bytes) :
    decU16 (encBin v ++ rest) = .ok (UInt16.ofNat ((UInt8.ofNat (v.length / 256)).toNat * 256 + (UInt8.ofNat (v.length % 256)).toNat)) 2 := by
  simp only [encBin, List.cons_append, decU16, List.length_cons]
  have h : ¬ ((v ++ rest).length + 1 + 1 < 2) := by omega
  simp only [h, if_false]

/-- round trip of strings and binary data within MQTT's limit, into a fresh destination -/
theorem binLen_encBin (v rest : Bytes) (h : v.length < 65536) : binLen (encBin v ++ rest) = v.length := by
  unfold binLen
  simp only [decU16_encBin, be16_ofNat _ h]

theorem decBin_enc (v rest : Bytes) (h : v.length < 65536) :
    decBin [] (encBin v ++ rest) = .ok v (2 + v.length) := by
  unfold decBin
  simp only [binLen_encBin _ _ h]
  have hl : (encBin v ++ rest).length = v.length + 2 + rest.length := by simp
  have h1 : ¬ ((encBin v ++ rest).length < v.length + 2) := by omega
  simp only [h1, if_false]
  by_cases h0 : v.length = 0
  · have : v = [] := List.eq_nil_of_length_eq_zero h0
    subst this
    simp
  · simp only [h0, if_false]
    simp [encBin]

/-- same, for a destination that already holds `old` and a non-empty value -/
theorem decBin_enc_old (old v rest : Bytes) (h : v.length < 65536) (hne : v ≠ []) :
    decBin old (encBin v ++ rest) = .ok v (2 + v.length) := by
  unfold decBin
  simp only [binLen_encBin _ _ h]
  have hl : (encBin v ++ rest).length = v.length + 2 + rest.length := by simp
  have h1 : ¬ ((encBin v ++ rest).length < v.length + 2) := by omega
  have h0 : v.length ≠ 0 := by
    intro h0; exact hne (List.eq_nil_of_length_eq_zero h0)
  simp only [h1, if_false, h0]
  congr 1
  simp [encBin]

theorem decPair_enc (k v rest : Bytes) (hk : k.length < 65536) (hv : v.length < 65536) :
    decPair (encPair (k, v) ++ rest) = .ok (k, v) (2 + k.length + (2 + v.length)) := by
  unfold decPair encPair
  simp only [List.append_assoc, decBin_enc k _ hk]
  have hl : ¬ ((encBin k ++ (encBin v ++ rest)).length < k.length + 2) := by simp
  simp only [hl, if_false]
  have hd : List.drop (k.length + 2) (encBin k ++ (encBin v ++ rest)) = encBin v ++ rest := by
    have : (encBin k).length = k.length + 2 := by simp
    rw [← this, List.drop_left]
  simp only [hd, decBin_enc v _ hv]

/-! ## variable byte integers -/

theorem encVbAux_fuel : ∀ (x f g : Nat), x ≤ f → x ≤ g → encVbAux f x = encVbAux g x := by
  intro x
  induction x using Nat.strongRecOn with
  | _ x ih =>
    intro f g hf hg
    cases f with
    | zero =>
      have : x = 0 := by omega
      subst this
      cases g <;> simp [encVbAux]
    | succ f =>
      cases g with
      | zero =>
        have : x = 0 := by omega
        subst this
        simp [encVbAux]
      | succ g =>
        simp only [encVbAux]
        split
        · rfl
        · rw [ih (x / 128) (by omega) f g (by omega) (by omega)]

/-- the loop equation of `vbint.fill` -/
theorem encVb_eq (x : Nat) :
    encVb x = if x < 128 then [UInt8.ofNat x] else UInt8.ofNat (x % 128 + 128) :: encVb (x / 128) := by
  unfold encVb
  cases x with
  | zero => simp [encVbAux]
  | succ n =>
    simp only [encVbAux]
    split
    · rfl
    · rw [encVbAux_fuel ((n + 1) / 128) n ((n + 1) / 128) (by omega) (Nat.le_refl _)]

theorem encVb_ne_nil (x : Nat) : encVb x ≠ [] := by
  rw [encVb_eq]; split <;> simp

theorem encVb_length_pos (x : Nat) : 0 < (encVb x).length := by
  have := encVb_ne_nil x
  cases h : encVb x with
  | nil => exact absurd h this
  | cons a t => simp

theorem vbWidth_pos (x : Nat) : 0 < vbWidth x := encVb_length_pos x

/-- the Go-shaped decoder loop on the output of the encoder, at any position `k` of the loop -/
theorem decVbLoop_enc_gen (x : Nat) : ∀ (k mult acc : Nat) (rest : Bytes), mult = 128 ^ k →
    x < 128 ^ (4 - k) → k < 4 →
    decVbLoop (encVb x ++ rest) mult acc = .ok (acc + x * mult) (vbWidth (acc + x * mult)) := by
  induction x using Nat.strongRecOn with
  | _ x ih =>
    intro k mult acc rest hm hx hk
    rw [encVb_eq]
    split
    · rename_i h
      have hm' : ¬ (128 * 128 * 128 < mult) := by
        subst hm
        have : k = 0 ∨ k = 1 ∨ k = 2 ∨ k = 3 := by omega
        rcases this with h | h | h | h <;> subst h <;> decide
      have h256 : x < 256 := by omega
      simp only [List.cons_append, List.nil_append, decVbLoop, UInt8.toNat_ofNat', Nat.mod_eq_of_lt h256,
        Nat.mod_eq_of_lt h, hm', if_false, h, if_true]
    · rename_i h
      have hk3 : k < 3 := by
        rcases Nat.lt_or_ge k 3 with h3 | h3
        · exact h3
        · have : k = 3 := by omega
          subst this; simp at hx; omega
      have hm' : ¬ (128 * 128 * 128 < mult) := by
        subst hm
        have : k = 0 ∨ k = 1 ∨ k = 2 := by omega
        rcases this with h | h | h <;> subst h <;> decide
      have hx' : x / 128 < 128 ^ (4 - (k + 1)) := by
        have : 128 ^ (4 - k) = 128 * 128 ^ (4 - (k + 1)) := by
          have : 4 - k = (4 - (k + 1)) + 1 := by omega
          rw [this, Nat.pow_succ]; omega
        rw [this] at hx
        exact Nat.div_lt_of_lt_mul hx
      have := ih (x / 128) (by omega) (k + 1) (mult * 128) (acc + (x % 128) * mult) rest
        (by subst hm; rw [Nat.pow_succ]) hx' (by omega)
      have hb : (UInt8.ofNat (x % 128 + 128)).toNat = x % 128 + 128 := by
        simp [UInt8.toNat_ofNat']; omega
      have e1 : (x % 128 + 128) % 128 = x % 128 := by omega
      have e2 : ¬ (x % 128 + 128 < 128) := by omega
      simp only [List.cons_append, decVbLoop, hb, hm', e1, e2, if_false, this]
      have hv : acc + x % 128 * mult + x / 128 * (mult * 128) = acc + x * mult := by
        have := Nat.div_add_mod x 128
        calc acc + x % 128 * mult + x / 128 * (mult * 128)
            = acc + (x % 128 + 128 * (x / 128)) * mult := by
              rw [Nat.add_mul, Nat.mul_assoc 128, Nat.mul_comm 128, Nat.mul_comm (x / 128 * mult)]
              rw [Nat.mul_comm 128 (x / 128 * mult), Nat.mul_assoc, Nat.add_assoc]
          _ = acc + x * mult := by rw [Nat.add_comm (x % 128), this]
      rw [hv]

/-- round trip of the in-memory decoder, for every value MQTT allows -/
theorem decVb_enc (x : Nat) (hx : x < 268435456) (rest : Bytes) :
    decVb (encVb x ++ rest) = .ok x (vbWidth x) := by
  have := decVbLoop_enc_gen x 0 1 0 rest rfl (by simpa using hx) (by omega)
  simpa [decVb] using this

/-! ## no panic -/

theorem decU16_no_panic (d : Bytes) : decU16 d ≠ .panic := by
  unfold decU16
  split
  · simp
  · match d with
    | [] => simp at *
    | [_] => simp at *
    | _ :: _ :: _ => simp

theorem decU32_no_panic (d : Bytes) : decU32 d ≠ .panic := by
  unfold decU32
  split
  · simp
  · match d with
    | [] => simp at *
    | [_] => simp at *
    | [_, _] => simp at *
    | [_, _, _] => simp at *
    | _ :: _ :: _ :: _ :: _ => simp

theorem decBin_no_panic (old d : Bytes) : decBin old d ≠ .panic := by
  unfold decBin
  generalize binLen d = n
  simp only
  split
  · simp
  · split <;> simp

theorem decVbLoop_no_panic (d : Bytes) : ∀ (m a : Nat), decVbLoop d m a ≠ .panic := by
  induction d with
  | nil => intro m a; simp [decVbLoop]
  | cons b t ih =>
    intro m a
    simp only [decVbLoop]
    split
    · simp
    · split
      · simp
      · exact ih _ _

theorem decVb_no_panic (d : Bytes) : decVb d ≠ .panic := decVbLoop_no_panic d 1 0

/-- a successful `bindata` decode consumed no more than there was -/
theorem decBin_ok_len (old d v : Bytes) (w : Nat) (h : decBin old d = .ok v w) (hold : old = []) :
    w ≤ d.length ∧ v.length + 2 = w := by
  subst hold
  unfold decBin at h
  generalize binLen d = n at h
  simp only at h
  split at h
  · simp at h
  · rename_i hlen
    split at h
    · rename_i h0
      simp at h
      obtain ⟨rfl, rfl⟩ := h
      simp; omega
    · simp at h
      obtain ⟨rfl, rfl⟩ := h
      simp [List.length_take]
      omega

theorem decPair_no_panic (d : Bytes) : decPair d ≠ .panic := by
  unfold decPair
  split
  · rename_i k w hk
    have := decBin_ok_len [] d k w hk rfl
    have hl : ¬ (d.length < k.length + 2) := by omega
    simp only [hl, if_false]
    split
    · simp
    · simp
    · rename_i h; exact absurd h (decBin_no_panic _ _)
  · simp
  · rename_i h; exact absurd h (decBin_no_panic _ _)

/-- `data[0]` is guarded by `buffer.get`: no panic on a non-empty slice -/
theorem decU8_no_panic (d : Bytes) (h : d ≠ []) : decU8 d ≠ .panic := by
  cases d with
  | nil => exact absurd rfl h
  | cons a t => simp [decU8]

theorem decBool_no_panic (d : Bytes) (h : d ≠ []) : decBool d ≠ .panic := by
  cases d with
  | nil => exact absurd rfl h
  | cons a t =>
    simp only [decBool]
    split
    · simp
    · split <;> simp

theorem decRaw_no_panic (d : Bytes) : decRaw d ≠ .panic := by simp [decRaw]

end Mq
