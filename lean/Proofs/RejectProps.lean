import Proofs.Reject
import Proofs.PropLoop
import Proofs.GetLemmas
/-!
# Proofs.RejectProps — the property loop after a run of well-formed properties meets a malformed one
-/
namespace Mq

/-- the loop reads the well-formed occurrences `pre` and carries on, as long as the declared
property length has not been reached -/
theorem getAnyLoop_prefix (tbl : PropTable) (oldOf : UInt8 → List PropOcc → Bytes) (n0 plen : Nat) :
    ∀ (pre acc : List PropOcc) (suf : Bytes) (fuel : Nat),
      (∀ o ∈ pre, PropOk tbl o) →
      (∀ p o post, pre = p ++ o :: post → BinFresh oldOf (acc ++ p) o) →
      (pre.flatMap encOcc ++ suf).length ≤ n0 →
      n0 - (pre.flatMap encOcc ++ suf).length + (pre.flatMap encOcc).length < plen →
      pre.length < fuel →
      getAnyLoop tbl oldOf n0 plen fuel { rest := pre.flatMap encOcc ++ suf, st := .ok } acc
        = getAnyLoop tbl oldOf n0 plen (fuel - pre.length) { rest := suf, st := .ok } (acc ++ pre) := by
  intro pre
  induction pre with
  | nil => intro acc suf fuel _ _ _ _ _; simp
  | cons o occs ih =>
    intro acc suf fuel hok hbin hle hpl hf
    cases fuel with
    | zero => simp at hf
    | succ fuel =>
      have hko := hok o (by simp)
      have hfresh := hbin [] o occs rfl
      simp only [List.append_nil] at hfresh
      simp only [List.flatMap_cons, List.append_assoc] at hle hpl ⊢
      have hpos : 0 < (encOcc o).length := by simp [encOcc]
      conv => lhs; unfold getAnyLoop
      have hcond : n0 - (encOcc o ++ (occs.flatMap encOcc ++ suf)).length < plen := by
        simp only [List.length_append] at hle hpl ⊢; omega
      simp only [hcond, if_true]
      have g1 : ({ rest := encOcc o ++ (occs.flatMap encOcc ++ suf), st := .ok } : Buf).get decU8 0
          = ({ rest := encV o.val ++ (occs.flatMap encOcc ++ suf), st := .ok }, o.id) := by
        have := get_enc decU8 (0 : UInt8) o.id [o.id] (encV o.val ++ (occs.flatMap encOcc ++ suf)) (by simp)
          (by simp [decU8])
        simpa [encOcc] using this
      rw [g1]
      simp only [ne_eq, not_true_eq_false, if_false]
      have hrec := ih (acc ++ [o]) suf fuel (fun x hx => hok x (by simp [hx]))
        (by
          intro p x post hsplit
          have := hbin (o :: p) x post (by simp [hsplit])
          simpa [BinFresh, List.append_assoc] using this)
        (by simp only [List.length_append] at hle ⊢; omega)
        (by simp only [List.length_append, encOcc, List.length_cons] at hpl hle ⊢; omega)
        (by simp only [List.length_cons] at hf; omega)
      have hfin : acc ++ [o] ++ occs = acc ++ o :: occs := by simp
      rw [hfin] at hrec
      have hfu : fuel + 1 - (o :: occs).length = fuel - occs.length := by simp
      rw [hfu]
      have hocc : ({ id := o.id, val := o.val } : PropOcc) = o := rfl
      obtain ⟨hr, hcase⟩ := hko
      rcases hcase with hl | ⟨hl, hup | hsub⟩
      · simp only [hl]
        have g2 := get_occ_value [] (oldOf o.id acc) o.val hr (occs.flatMap encOcc ++ suf)
          (by intro x hx hxe; subst hxe; exact hfresh hx)
        rw [g2]
        simp only [if_true, hocc]
        exact hrec
      · simp only [hl]
        rw [if_pos hup.1]
        have g2 := get_occ_value [] [] o.val hr (occs.flatMap encOcc ++ suf) (by intro x hx hxe; rfl)
        rw [hup.2] at g2
        rw [g2]
        simp only [if_true, hocc]
        exact hrec
      · have hne : ¬ (o.id = 0x26) := by rw [hsub.1]; decide
        simp only [hl]
        rw [if_neg hne, if_pos hsub.1]
        have g2 := get_occ_value [] [] o.val hr (occs.flatMap encOcc ++ suf) (by intro x hx hxe; rfl)
        rw [hsub.2] at g2
        rw [g2]
        simp only [if_true, hocc]
        exact hrec

/-- what makes the next property malformed for the loop -/
inductive BadProp (tbl : PropTable) : Bytes → Prop
  /-- an identifier the packet's table does not know (and that is neither of the two handled inline) -/
  | unknownId (id : UInt8) (rest : Bytes) : tbl.lookup id = none → id ≠ 0x26 → id ≠ 0x0b → BadProp tbl (id :: rest)
  /-- a boolean property whose value byte is neither 0 nor 1 -/
  | badBool (id b : UInt8) (rest : Bytes) : tbl.lookup id = some .bool → b ≠ 0 → b ≠ 1 → BadProp tbl (id :: b :: rest)
  /-- a variable byte integer property that continues beyond four bytes -/
  | longVb (id b1 b2 b3 b4 b5 : UInt8) (rest : Bytes) :
      (tbl.lookup id = some .vb ∨ (tbl.lookup id = none ∧ id = 0x0b)) →
      128 ≤ b1.toNat → 128 ≤ b2.toNat → 128 ≤ b3.toNat → 128 ≤ b4.toNat →
      BadProp tbl (id :: b1 :: b2 :: b3 :: b4 :: b5 :: rest)

theorem decVb_long (b1 b2 b3 b4 b5 : UInt8) (rest : Bytes)
    (h1 : 128 ≤ b1.toNat) (h2 : 128 ≤ b2.toNat) (h3 : 128 ≤ b3.toNat) (h4 : 128 ≤ b4.toNat) :
    decVb (b1 :: b2 :: b3 :: b4 :: b5 :: rest) = .err .sizeExceeded := by
  have n1 : ¬ b1.toNat < 128 := by omega
  have n2 : ¬ b2.toNat < 128 := by omega
  have n3 : ¬ b3.toNat < 128 := by omega
  have n4 : ¬ b4.toNat < 128 := by omega
  simp [decVb, decVbLoop, n1, n2, n3, n4]

/-- one iteration of the loop on a malformed property sets the error status (for good) -/
theorem getAnyLoop_bad (tbl : PropTable) (oldOf : UInt8 → List PropOcc → Bytes) (n0 plen : Nat)
    (bad : Bytes) (hbad : BadProp tbl bad) (acc : List PropOcc) (fuel : Nat) (hf : 1 < fuel)
    (hc : n0 - bad.length < plen) :
    (getAnyLoop tbl oldOf n0 plen fuel { rest := bad, st := .ok } acc).1.Failed := by
  obtain ⟨fuel, rfl⟩ : ∃ f, fuel = f + 1 := ⟨fuel - 1, by omega⟩
  unfold getAnyLoop
  simp only [hc, if_true]
  cases hbad with
  | unknownId id rest hl h26 h0b =>
    simp only [get_u8, ne_eq, not_true_eq_false, if_false, hl, h26, h0b]
    exact getAnyLoop_failed _ _ _ _ _ _ _ ⟨_, rfl⟩ (by omega)
  | badBool id b rest hl hb0 hb1 =>
    simp only [get_u8, ne_eq, not_true_eq_false, if_false, hl]
    have hd : decK (oldOf id acc) .bool (b :: rest) = .err .badBool := by
      simp [decK, decBool, hb0, hb1, DecRes.map]
    rw [get_err_val _ _ _ _ (by simp) hd]
    simp only [reduceCtorEq, if_false]
    exact getAnyLoop_failed _ _ _ _ _ _ _ ⟨_, rfl⟩ (by omega)
  | longVb id b1 b2 b3 b4 b5 rest hl h1 h2 h3 h4 =>
    have hd : ∀ old, decK old .vb (b1 :: b2 :: b3 :: b4 :: b5 :: rest) = .err .sizeExceeded := by
      intro old; simp [decK, decVb_long b1 b2 b3 b4 b5 rest h1 h2 h3 h4, DecRes.map]
    simp only [get_u8, ne_eq, not_true_eq_false, if_false]
    rcases hl with hl | ⟨hl, hid⟩
    · simp only [hl]
      rw [get_err_val _ _ _ _ (by simp) (hd _)]
      simp only [reduceCtorEq, if_false]
      exact getAnyLoop_failed _ _ _ _ _ _ _ ⟨_, rfl⟩ (by omega)
    · subst hid
      have h26 : ¬ ((0x0b : UInt8) = 0x26) := by decide
      simp only [hl, h26, if_false, if_true]
      rw [get_err_val _ _ _ _ (by simp) (hd _)]
      simp only [reduceCtorEq, if_false]
      exact getAnyLoop_failed _ _ _ _ _ _ _ ⟨_, rfl⟩ (by omega)

/-- **a property section with a malformed property**: declared length `L`, any run `pre` of
well-formed properties, then the malformed one (anything may follow): `getAny` ends with the
error status -/
theorem getAny_bad (tbl : PropTable) (oldOf : UInt8 → List PropOcc → Bytes) (pre : List PropOcc) (bad suf : Bytes)
    (L : Nat) (hL : L < 268435456) (hok : ∀ o ∈ pre, PropOk tbl o)
    (hbin : ∀ p o post, pre = p ++ o :: post → BinFresh oldOf p o)
    (hreach : (pre.flatMap encOcc).length < L) (hbad : BadProp tbl bad) :
    (({ rest := encVb L ++ (pre.flatMap encOcc ++ (bad ++ suf)), st := .ok } : Buf).getAny tbl oldOf).1.Failed := by
  unfold Buf.getAny
  have hne : ¬ (encVb L ++ (pre.flatMap encOcc ++ (bad ++ suf)) = []) := by
    have := encVb_ne_nil L
    intro h; exact this (List.append_eq_nil_iff.mp h).1
  simp only [hne, if_false]
  have g1 := get_enc decVb (0 : Nat) L (encVb L) (pre.flatMap encOcc ++ (bad ++ suf)) (encVb_ne_nil _)
    (by rw [decVb_enc _ hL]; rfl)
  rw [g1]
  simp only []
  have hbl : 0 < bad.length := by cases hbad <;> simp
  rw [getAnyLoop_prefix tbl oldOf _ L pre [] (bad ++ suf) _ hok (by simpa using hbin) (Nat.le_refl _)
    (by simp only [List.length_append]; omega)
    (by have := occs_length_le pre; simp only [List.length_append]; omega)]
  -- the malformed property, followed by `suf`
  have hbs : BadProp tbl (bad ++ suf) := by
    cases hbad with
    | unknownId id rest a b c => exact .unknownId id (rest ++ suf) a b c
    | badBool id b rest a c d => exact .badBool id b (rest ++ suf) a c d
    | longVb id b1 b2 b3 b4 b5 rest a c d e f => exact .longVb id b1 b2 b3 b4 b5 (rest ++ suf) a c d e f
  apply getAnyLoop_bad tbl oldOf _ L (bad ++ suf) hbs
  · have := occs_length_le pre
    simp only [List.length_append]; omega
  · simp only [List.length_append]; omega

end Mq
