import Proofs.SpecBridge
import Proofs.EncodeFields
/-!
# Proofs.EBridge — from the model's encoder to the specification's generator (E)

The library's encoder writes one particular legal choice: a fixed property order, zero values
omitted, user properties last. `occsOf fs ++ upOccs ups` is that choice as a list of occurrences.
-/
namespace Mq
open Spec (propDefs propDef? occLegal occOnce propsLegal PropDef propBytes propSection propVal userPropsOf subIDsOf vvOf)
open Tie (encFields kinds)

/-- the occurrences the encoder writes for a field list: the non-zero values, in order -/
def occsOf (fs : List (UInt8 × WVal)) : List PropOcc :=
  (fs.filter fun f => !f.2.isZero).map fun f => ⟨f.1, f.2⟩

def upOccs (ups : UserProps) : List PropOcc := ups.map fun kv => ⟨0x26, .pair kv.1 kv.2⟩

theorem encFields_eq (fs : List (UInt8 × WVal)) : encFields fs = propBytes (occsOf fs) := by
  induction fs with
  | nil => rfl
  | cons f fs ih =>
    simp only [encFields, List.flatMap_cons] at ih ⊢
    rw [ih]
    by_cases hz : f.2.isZero = true
    · simp [encPropOpt, hz, occsOf, propBytes]
    · simp [encPropOpt, hz, occsOf, propBytes, Spec.encOccS]

theorem encUserProps_eq (ups : UserProps) (h : ∀ kv ∈ ups, kv.1 ≠ []) : encUserProps ups = propBytes (upOccs ups) := by
  induction ups with
  | nil => rfl
  | cons kv ups ih =>
    have hk : kv.1 ≠ [] := h kv (by simp)
    have : kv.1.isEmpty = false := by cases hkv : kv.1 <;> simp_all
    simp only [encUserProps, List.flatMap_cons] at ih ⊢
    rw [ih (fun x hx => h x (by simp [hx]))]
    simp [encPropOpt, WVal.isZero, this, upOccs, propBytes, Spec.encOccS]

theorem propBytes_append (a b : List PropOcc) : propBytes (a ++ b) = propBytes a ++ propBytes b := by
  simp [propBytes]

/-- property section of the encoder = property section of the generator -/
theorem props_section (fs : List (UInt8 × WVal)) (ups : UserProps) (h : ∀ kv ∈ ups, kv.1 ≠ []) (props : Bytes)
    (hp : props = encFields fs ++ encUserProps ups) :
    encVb props.length ++ props = propSection (occsOf fs ++ upOccs ups) := by
  subst hp
  rw [encFields_eq, encUserProps_eq ups h, ← propBytes_append]
  rfl

/-! ## legality of what the encoder writes -/

/-- the (identifier, kind) pairs are allowed in packet kind `k` by the specification's table -/
def kindsAllowed (k : Nat) (ks : List (UInt8 × WKind)) : Bool :=
  ks.all fun e => match propDef? e.1 with
    | some d => d.allowed.contains k && d.ty == e.2
    | none => false

/-- identifiers pairwise different and none of them the user property -/
def idsDistinct (ks : List (UInt8 × WKind)) : Bool :=
  (ks.map (·.1)).Nodup && ks.all (fun e => e.1 != 0x26)

def FieldsInRange (fs : List (UInt8 × WVal)) : Prop := ∀ f ∈ fs, Spec.valInRange f.2 = true
def UpsInRange (ups : UserProps) : Prop := ∀ kv ∈ ups, kv.1 ≠ [] ∧ kv.1.length < 65536 ∧ kv.2.length < 65536

theorem mem_occsOf (fs : List (UInt8 × WVal)) (o : PropOcc) (h : o ∈ occsOf fs) : (o.id, o.val) ∈ fs := by
  simp only [occsOf, List.mem_map, List.mem_filter] at h
  obtain ⟨f, ⟨hf, _⟩, rfl⟩ := h
  exact hf

theorem mem_upOccs (ups : UserProps) (o : PropOcc) (h : o ∈ upOccs ups) : ∃ kv ∈ ups, o = ⟨0x26, .pair kv.1 kv.2⟩ := by
  simp only [upOccs, List.mem_map] at h
  obtain ⟨kv, hkv, rfl⟩ := h
  exact ⟨kv, hkv, rfl⟩

/-- the specification's entry for the user property -/
def upAllowed : List Nat := [1, 2, 3, 4, 5, 6, 7, 8, 9, 10, 11, 14, 15, Spec.willK]

theorem propDef?_up : propDef? 0x26 = some { id := 0x26, ty := .pair, allowed := upAllowed, repeatable := upAllowed } := rfl

theorem userProp_legal (k : Nat) (hk : k ∈ upAllowed) (kx v : Bytes) (hr : Spec.valInRange (.pair kx v) = true) :
    occLegal k ⟨0x26, .pair kx v⟩ = true := by
  simp only [occLegal, propDef?_up, WVal.kind, hr, Bool.and_true, beq_self_eq_true]
  simpa using hk

theorem filter_count_le_one_of_nodup {α} [DecidableEq α] (l : List α) (h : l.Nodup) (a : α) : (l.filter (· == a)).length ≤ 1 := by
  induction l with
  | nil => simp
  | cons x xs ih =>
    rw [List.nodup_cons] at h
    by_cases hx : x = a
    · subst hx
      have : xs.filter (· == x) = [] := by
        apply List.filter_eq_nil_iff.mpr
        intro y hy; simp; intro e; subst e; exact h.1 hy
      simp [List.filter_cons, this]
    · simp [List.filter_cons, hx]; exact ih h.2

theorem occsOf_count (fs : List (UInt8 × WVal)) (a : UInt8) :
    ((occsOf fs).filter (fun x => x.id == a)).length ≤ ((fs.map (·.1)).filter (· == a)).length := by
  induction fs with
  | nil => simp [occsOf]
  | cons f fs ih =>
    have hstep : occsOf (f :: fs) = if f.2.isZero then occsOf fs else ⟨f.1, f.2⟩ :: occsOf fs := by
      simp only [occsOf, List.filter_cons]
      cases f.2.isZero <;> simp
    rw [hstep]
    by_cases hz : f.2.isZero = true
    · simp only [hz, if_true, List.map_cons, List.filter_cons]
      split <;> simp <;> omega
    · simp only [hz, List.map_cons, List.filter_cons]
      by_cases ha : f.1 = a
      · simp [ha]; exact ih
      · simp [ha]; exact ih

/-- occurrences of repeatable properties appended after the fields -/
def RepOK (k : Nat) (fs : List (UInt8 × WVal)) (rep : List PropOcc) : Prop :=
  ∀ o ∈ rep, occLegal k o = true ∧ (∃ d, propDef? o.id = some d ∧ d.repeatable.contains k = true) ∧ o.id ∉ fs.map (·.1)

/-- what the encoder writes is a legal property list of the packet kind -/
theorem occs_legal' (k : Nat) (fs : List (UInt8 × WVal)) (rep : List PropOcc)
    (hall : kindsAllowed k (kinds fs) = true) (hnd : (fs.map (·.1)).Nodup)
    (hr : FieldsInRange fs) (hrep : RepOK k fs rep) :
    propsLegal k (occsOf fs ++ rep) = true := by
  simp only [propsLegal, Bool.and_eq_true, List.all_eq_true]
  have hkm : ∀ o : PropOcc, (o.id, o.val) ∈ fs → (o.id, o.val.kind) ∈ kinds fs := by
    intro o hm; simp only [kinds, List.mem_map]; exact ⟨(o.id, o.val), hm, rfl⟩
  constructor
  · intro o ho
    rcases List.mem_append.mp ho with h1 | h2
    · have hm := mem_occsOf fs o h1
      have hka := (List.all_eq_true.mp hall) _ (hkm o hm)
      simp only at hka
      unfold occLegal
      cases hd : propDef? o.id with
      | none => simp [hd] at hka
      | some d =>
        simp only [hd, Bool.and_eq_true, beq_iff_eq] at hka ⊢
        exact ⟨⟨hka.1, hka.2⟩, hr _ hm⟩
    · exact (hrep o h2).1
  · unfold occOnce
    simp only [List.all_eq_true]
    intro o ho
    rcases List.mem_append.mp ho with h1 | h2
    · have hm := mem_occsOf fs o h1
      have hka := (List.all_eq_true.mp hall) _ (hkm o hm)
      simp only at hka
      cases hd : propDef? o.id with
      | none => simp [hd] at hka
      | some d =>
        simp only [Bool.or_eq_true, decide_eq_true_eq]
        right
        rw [List.filter_append, List.length_append]
        have hz : rep.filter (fun x => x.id == o.id) = [] := by
          apply List.filter_eq_nil_iff.mpr
          intro x hx
          have := (hrep x hx).2.2
          simp only [beq_iff_eq]
          intro e
          apply this
          rw [e]
          simp only [List.mem_map]
          exact ⟨(o.id, o.val), hm, rfl⟩
        rw [hz, List.length_nil, Nat.add_zero]
        exact Nat.le_trans (occsOf_count fs o.id) (filter_count_le_one_of_nodup _ hnd _)
    · obtain ⟨_, ⟨d, hd, hrp⟩, _⟩ := hrep o h2
      simp only [hd, hrp, Bool.true_or]

theorem upOccs_repOK (k : Nat) (hup : k ∈ upAllowed) (fs : List (UInt8 × WVal)) (ups : UserProps)
    (hu : UpsInRange ups) (hno : (0x26 : UInt8) ∉ fs.map (·.1)) : RepOK k fs (upOccs ups) := by
  intro o ho
  obtain ⟨kv, hkv, rfl⟩ := mem_upOccs ups o ho
  have := hu kv hkv
  refine ⟨userProp_legal k hup kv.1 kv.2 (by simp [Spec.valInRange, this.2.1, this.2.2]), ⟨_, propDef?_up, ?_⟩, hno⟩
  simpa using hup

theorem occs_legal (k : Nat) (fs : List (UInt8 × WVal)) (ups : UserProps)
    (hall : kindsAllowed k (kinds fs) = true) (hnd : (fs.map (·.1)).Nodup) (hno : (0x26 : UInt8) ∉ fs.map (·.1))
    (hup : k ∈ upAllowed) (hr : FieldsInRange fs) (hu : UpsInRange ups) :
    propsLegal k (occsOf fs ++ upOccs ups) = true :=
  occs_legal' k fs _ hall hnd hr (upOccs_repOK k hup fs ups hu hno)

/-! ## what the specification reads back from those occurrences -/

theorem propVal_foldl_nomatch (ps : List PropOcc) (id : UInt8) (cur : VV) (h : ∀ o ∈ ps, o.id ≠ id) :
    ps.foldl (fun cur o => if o.id = id then vvOf o.val else cur) cur = cur := by
  induction ps generalizing cur with
  | nil => rfl
  | cons o ps ih =>
    simp only [List.foldl_cons, h o (by simp), if_false]
    exact ih cur (fun x hx => h x (by simp [hx]))

theorem occsOf_cons (f : UInt8 × WVal) (fs : List (UInt8 × WVal)) :
    occsOf (f :: fs) = if f.2.isZero then occsOf fs else ⟨f.1, f.2⟩ :: occsOf fs := by
  simp only [occsOf, List.filter_cons]
  cases f.2.isZero <;> simp

theorem propVal_fields_aux (fs : List (UInt8 × WVal)) (id : UInt8) (hnd : (fs.map (·.1)).Nodup) (v : WVal)
    (hm : (id, v) ∈ fs) (cur : VV) :
    (occsOf fs).foldl (fun cur o => if o.id = id then vvOf o.val else cur) cur = if v.isZero then cur else vvOf v := by
  induction fs generalizing cur with
  | nil => simp at hm
  | cons f fs ih =>
    simp only [List.map_cons, List.nodup_cons] at hnd
    rw [occsOf_cons]
    by_cases hf : f.1 = id
    · have hv : f = (id, v) := by
        rcases List.mem_cons.mp hm with h | h
        · exact h.symm
        · exfalso; apply hnd.1; rw [hf]; simp only [List.mem_map]; exact ⟨(id, v), h, rfl⟩
      have hno : ∀ o ∈ occsOf fs, o.id ≠ id := by
        intro o ho e
        apply hnd.1; rw [hf, ← e]
        simp only [List.mem_map]; exact ⟨(o.id, o.val), mem_occsOf fs o ho, rfl⟩
      subst hv
      by_cases hz : v.isZero = true
      · simp only [hz, if_true]; exact propVal_foldl_nomatch _ _ _ hno
      · have hz' : v.isZero = false := by simpa using hz
        simp only [hz', Bool.false_eq_true, if_false, List.foldl_cons, if_true]
        exact propVal_foldl_nomatch _ _ _ hno
    · have hm' : (id, v) ∈ fs := by
        rcases List.mem_cons.mp hm with h | h
        · exfalso; apply hf; rw [← h]
        · exact h
      by_cases hz : f.2.isZero = true
      · simp only [hz, if_true]; exact ih hnd.2 hm' cur
      · have hz' : f.2.isZero = false := by simpa using hz
        simp only [hz', Bool.false_eq_true, if_false, List.foldl_cons, hf]; exact ih hnd.2 hm' cur

/-- the specification's reading of a field from what the encoder wrote: the value, or the default
when the (zero) value was omitted -/
theorem propVal_fields (fs : List (UInt8 × WVal)) (rep : List PropOcc) (id : UInt8) (dflt : VV)
    (hnd : (fs.map (·.1)).Nodup) (hrep : ∀ o ∈ rep, o.id ≠ id) (v : WVal) (hm : (id, v) ∈ fs)
    (hz : v.isZero = true → vvOf v = dflt) :
    propVal (occsOf fs ++ rep) id dflt = vvOf v := by
  unfold propVal
  rw [List.foldl_append, propVal_fields_aux fs id hnd v hm dflt, propVal_foldl_nomatch _ _ _ hrep]
  by_cases h : v.isZero = true
  · simp [h, hz h]
  · simp [h]

theorem upOccs_ids (ups : UserProps) : ∀ o ∈ upOccs ups, o.id = 0x26 := by
  intro o ho; obtain ⟨kv, _, rfl⟩ := mem_upOccs ups o ho; rfl

theorem userPropsOf_append (a b : List PropOcc) : userPropsOf (a ++ b) = userPropsOf a ++ userPropsOf b := by
  simp [userPropsOf, List.filterMap_append]

theorem userPropsOf_nil_of_ids (ps : List PropOcc) (h : ∀ o ∈ ps, o.id ≠ 0x26) : userPropsOf ps = [] := by
  unfold userPropsOf
  apply List.filterMap_eq_nil_iff.mpr
  intro o ho
  have := h o ho
  cases hv : o.val <;> simp [this]

theorem userPropsOf_upOccs (ups : UserProps) : userPropsOf (upOccs ups) = ups := by
  induction ups with
  | nil => rfl
  | cons kv ups ih =>
    simp only [userPropsOf, upOccs, List.map_cons, List.filterMap_cons] at ih ⊢
    simp [ih]

theorem userPropsOf_occs (fs : List (UInt8 × WVal)) (ups : UserProps) (hno : (0x26 : UInt8) ∉ fs.map (·.1)) :
    userPropsOf (occsOf fs ++ upOccs ups) = ups := by
  rw [userPropsOf_append, userPropsOf_upOccs, userPropsOf_nil_of_ids, List.nil_append]
  intro o ho e
  apply hno; rw [← e]; simp only [List.mem_map]; exact ⟨(o.id, o.val), mem_occsOf fs o ho, rfl⟩

/-! ## the same lemmas stated over the literal (identifier, kind) list of a packet's fields, so that
their side conditions are closed by `decide` -/

theorem kinds_fst (fs : List (UInt8 × WVal)) : (kinds fs).map (·.1) = fs.map (·.1) := by simp [kinds]

theorem occs_legalK (k : Nat) (fs : List (UInt8 × WVal)) (ups : UserProps) (ks : List (UInt8 × WKind))
    (hks : kinds fs = ks) (hall : kindsAllowed k ks = true) (hnd : (ks.map (·.1)).Nodup)
    (hno : (0x26 : UInt8) ∉ ks.map (·.1)) (hup : k ∈ upAllowed) (hr : FieldsInRange fs) (hu : UpsInRange ups) :
    propsLegal k (occsOf fs ++ upOccs ups) = true := by
  subst hks
  rw [kinds_fst] at hnd hno
  exact occs_legal k fs ups hall hnd hno hup hr hu

theorem propVal_fieldsK (fs : List (UInt8 × WVal)) (ups : UserProps) (ks : List (UInt8 × WKind)) (hks : kinds fs = ks)
    (id : UInt8) (dflt : VV) (hnd : (ks.map (·.1)).Nodup) (hid : id ≠ 0x26) (v : WVal) (hm : (id, v) ∈ fs)
    (hz : v.isZero = true → vvOf v = dflt) :
    propVal (occsOf fs ++ upOccs ups) id dflt = vvOf v := by
  subst hks
  rw [kinds_fst] at hnd
  exact propVal_fields fs _ id dflt hnd
    (fun o ho e => by have := upOccs_ids _ o ho; rw [this] at e; exact hid e.symm) v hm hz

theorem userPropsOf_occsK (fs : List (UInt8 × WVal)) (ups : UserProps) (ks : List (UInt8 × WKind)) (hks : kinds fs = ks)
    (hno : (0x26 : UInt8) ∉ ks.map (·.1)) : userPropsOf (occsOf fs ++ upOccs ups) = ups := by
  subst hks
  rw [kinds_fst] at hno
  exact userPropsOf_occs fs ups hno

/-- the zero value of a string/binary field reads back as the empty default -/
theorem bin_zero (v : Bytes) : (WVal.bin v).isZero = true → vvOf (.bin v) = .s [] := by
  intro hz; cases v <;> simp_all [WVal.isZero, vvOf]
theorem u32_zero (v : UInt32) : (WVal.u32 v).isZero = true → vvOf (.u32 v) = .n 0 := by
  intro hz; simp only [WVal.isZero, beq_iff_eq] at hz; simp [vvOf, hz]
theorem u16_zero (v : UInt16) : (WVal.u16 v).isZero = true → vvOf (.u16 v) = .n 0 := by
  intro hz; simp only [WVal.isZero, beq_iff_eq] at hz; simp [vvOf, hz]
theorem u8_zero (v : UInt8) : (WVal.u8 v).isZero = true → vvOf (.u8 v) = .n 0 := by
  intro hz; simp only [WVal.isZero, beq_iff_eq] at hz; simp [vvOf, hz]
theorem bool_zero (v : Bool) : (WVal.bool v).isZero = true → vvOf (.bool v) = .b false := by
  intro hz; cases v <;> simp_all [WVal.isZero, vvOf]

end Mq
