import Mq.Buf
import Proofs.Wire
/-!
# Proofs.Buf — helper lemmas about the cursor and the property loop
-/
namespace Mq

/-- neither abnormal outcome -/
def Buf.Safe (b : Buf) : Prop := b.st ≠ .panic ∧ b.st ≠ .hang

/-- a wire decoder that cannot panic on a non-empty slice (the guard of `buffer.get`) -/
def Dec.NoPanic {α} (dec : Dec α) : Prop := ∀ d, d ≠ [] → dec d ≠ .panic

theorem DecRes.map_ne_panic {α β} (f : α → β) (r : DecRes α) (h : r ≠ .panic) : r.map f ≠ .panic := by
  cases r <;> simp [DecRes.map] at *

theorem decK_noPanic (old : Bytes) (k : WKind) : (decK old k).NoPanic := by
  intro d hd
  cases k <;> simp only [decK] <;> apply DecRes.map_ne_panic
  · exact decU8_no_panic d hd
  · exact decU16_no_panic d
  · exact decU32_no_panic d
  · exact decBool_no_panic d hd
  · exact decBin_no_panic old d
  · exact decPair_no_panic d
  · exact decVb_no_panic d

theorem noPanic_u8 : (decU8).NoPanic := fun d h => decU8_no_panic d h
theorem noPanic_u16 : (decU16).NoPanic := fun d _ => decU16_no_panic d
theorem noPanic_u32 : (decU32).NoPanic := fun d _ => decU32_no_panic d
theorem noPanic_bool : (decBool).NoPanic := fun d h => decBool_no_panic d h
theorem noPanic_bin (old : Bytes) : (decBin old).NoPanic := fun d _ => decBin_no_panic old d
theorem noPanic_vb : (decVb).NoPanic := fun d _ => decVb_no_panic d
theorem noPanic_raw : (decRaw).NoPanic := fun d _ => decRaw_no_panic d

/-! ## `get` -/

theorem get_safe {α} (b : Buf) (dec : Dec α) (old : α) (h : b.Safe) (hd : dec.NoPanic) :
    (b.get dec old).1.Safe := by
  unfold Buf.get
  split
  · split
    · simp [Buf.Safe]
    · rename_i hne
      have := hd b.rest hne
      split
      · split <;> simp [Buf.Safe]
      · simp [Buf.Safe]
      · rename_i hp; exact absurd hp this
  · exact h

theorem get_rest_le {α} (b : Buf) (dec : Dec α) (old : α) : (b.get dec old).1.rest.length ≤ b.rest.length := by
  unfold Buf.get
  split
  · split
    · simp
    · split
      · split <;> simp
      · simp
      · simp
  · simp

/-- what a successful `get` did -/
theorem get_ok_inv {α} (b : Buf) (dec : Dec α) (old : α) (h : (b.get dec old).1.st = .ok) (hb : b.st = .ok) :
    b.rest ≠ [] ∧ ∃ v w, dec b.rest = .ok v w ∧ w ≤ b.rest.length ∧ (b.get dec old).1.rest = b.rest.drop w
      ∧ (b.get dec old).2 = v := by
  unfold Buf.get at h ⊢
  simp only [hb] at h ⊢
  split at h
  · simp at h
  · rename_i hne
    refine ⟨hne, ?_⟩
    simp only [hne, if_false]
    split at h
    · rename_i v w hdec
      by_cases hw : w ≤ b.rest.length
      · simp only [hw, if_true]
        exact ⟨v, w, hdec, hw, rfl, rfl⟩
      · simp [hw] at h
    · simp at h
    · simp at h

/-- once the status is not `ok`, `get` is the identity -/
theorem get_of_not_ok {α} (b : Buf) (dec : Dec α) (old : α) (h : b.st ≠ .ok) : b.get dec old = (b, old) := by
  unfold Buf.get
  split
  · rename_i h2; exact absurd h2 h
  · rfl

/-- the status can only leave `ok`, never return to it -/
theorem get_st_ok {α} (b : Buf) (dec : Dec α) (old : α) (h : (b.get dec old).1.st = .ok) : b.st = .ok := by
  rcases hb : b.st with _ | _ | _ | _
  · rfl
  all_goals (rw [get_of_not_ok b dec old (by simp [hb])] at h; simp [hb] at h)

/-- `get` on the encoding of a value followed by anything: the round-trip step -/
theorem get_enc {α} (dec : Dec α) (old v : α) (enc suf : Bytes) (hne : enc ≠ [])
    (hdec : dec (enc ++ suf) = .ok v enc.length) :
    ({ rest := enc ++ suf, st := .ok } : Buf).get dec old = ({ rest := suf, st := .ok }, v) := by
  unfold Buf.get
  have h1 : enc ++ suf ≠ [] := by simp [hne]
  have h2 : enc.length ≤ (enc ++ suf).length := by simp
  simp only [h1, if_false, hdec, h2, if_true, List.drop_left]

/-! ## the property loop: no panic, no hang, bounded elements -/

theorem decU8_ok_w (d : Bytes) (v : UInt8) (w : Nat) (h : decU8 d = .ok v w) : w = 1 := by
  cases d with
  | nil => simp [decU8] at h
  | cons a t => simp [decU8] at h; omega

theorem getAnyLoop_safe (tbl : PropTable) (oldOf : UInt8 → List PropOcc → Bytes) (n0 plen : Nat) :
    ∀ (fuel : Nat) (b : Buf) (acc : List PropOcc), b.Safe → b.rest.length < fuel →
      (getAnyLoop tbl oldOf n0 plen fuel b acc).1.Safe
        ∧ (getAnyLoop tbl oldOf n0 plen fuel b acc).2.length + (getAnyLoop tbl oldOf n0 plen fuel b acc).1.rest.length
            ≤ acc.length + b.rest.length := by
  intro fuel
  induction fuel with
  | zero => intro b acc _ h; omega
  | succ fuel ih =>
    intro b acc hs hf
    unfold getAnyLoop
    split
    · -- loop condition true
      simp only []
      have hs1 := get_safe b decU8 0 hs noPanic_u8
      have hle1 := get_rest_le b decU8 (0 : UInt8)
      split
      · -- status not ok after reading the identifier: return
        exact ⟨hs1, by simp only []; omega⟩
      · rename_i hok
        have hok' : (b.get decU8 0).1.st = .ok := by simpa using hok
        have hb := get_st_ok b decU8 0 hok'
        obtain ⟨hne, v, w, hdec, _, hrest, _⟩ := get_ok_inv b decU8 0 hok' hb
        have hw := decU8_ok_w _ _ _ hdec
        have hlen : (b.get decU8 0).1.rest.length + 1 = b.rest.length := by
          rw [hrest, hw, List.length_drop]
          have : 0 < b.rest.length := List.length_pos_iff.mpr hne
          omega
        -- every branch continues with a buffer that is safe and no longer than `(b.get …).1`
        have key : ∀ (b' : Buf) (acc' : List PropOcc), b'.Safe → b'.rest.length ≤ (b.get decU8 0).1.rest.length →
            acc'.length ≤ acc.length + 1 →
            (getAnyLoop tbl oldOf n0 plen fuel b' acc').1.Safe ∧
            (getAnyLoop tbl oldOf n0 plen fuel b' acc').2.length + (getAnyLoop tbl oldOf n0 plen fuel b' acc').1.rest.length
              ≤ acc.length + b.rest.length := by
          intro b' acc' hs' hl' ha'
          have := ih b' acc' hs' (by omega)
          exact ⟨this.1, by omega⟩
        split
        · -- identifier in the table
          rename_i k _
          have hs2 := get_safe (b.get decU8 0).1 (decK (oldOf (b.get decU8 0).2 acc) k) (.u8 0) hs1 (decK_noPanic _ _)
          have hle2 := get_rest_le (b.get decU8 0).1 (decK (oldOf (b.get decU8 0).2 acc) k) (WVal.u8 0)
          split
          · exact key _ _ hs2 hle2 (by simp)
          · exact key _ _ hs2 hle2 (by omega)
        · split
          · have hs2 := get_safe (b.get decU8 0).1 (decK [] .pair) (.u8 0) hs1 (decK_noPanic _ _)
            have hle2 := get_rest_le (b.get decU8 0).1 (decK [] .pair) (WVal.u8 0)
            split
            · exact key _ _ hs2 hle2 (by simp)
            · exact key _ _ hs2 hle2 (by omega)
          · split
            · have hs2 := get_safe (b.get decU8 0).1 (decK [] .vb) (.u8 0) hs1 (decK_noPanic _ _)
              have hle2 := get_rest_le (b.get decU8 0).1 (decK [] .vb) (WVal.u8 0)
              split
              · exact key _ _ hs2 hle2 (by simp)
              · exact key _ _ hs2 hle2 (by omega)
            · exact key _ _ (by simp [Buf.Safe]) (by simp) (by omega)
    · exact ⟨hs, by simp only []; omega⟩

theorem getAny_safe (b : Buf) (tbl : PropTable) (oldOf : UInt8 → List PropOcc → Bytes) (h : b.Safe) :
    (b.getAny tbl oldOf).1.Safe ∧ (b.getAny tbl oldOf).2.length + (b.getAny tbl oldOf).1.rest.length ≤ b.rest.length := by
  unfold Buf.getAny
  split
  · exact ⟨h, by simp⟩
  · simp only []
    have hs1 := get_safe b decVb 0 h noPanic_vb
    have hle := get_rest_le b decVb (0 : Nat)
    have := getAnyLoop_safe tbl oldOf (b.get decVb 0).1.rest.length (b.get decVb 0).2
      ((b.get decVb 0).1.rest.length + 1) (b.get decVb 0).1 [] hs1 (by omega)
    exact ⟨this.1, by have := this.2; simp at this; omega⟩

end Mq
