import Props.C04
import Props.C05
import Props.C07
import Props.C06
import Props.C08
