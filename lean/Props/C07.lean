import Proofs.ReadPacket
/-!
# C07 — the decoded packet does not depend on how the stream is fragmented

`Reader` (Mq.Stream) enumerates the deliveries the `io.Reader` contract allows: any chunk sizes
down to one byte, `(0, nil)` reads anywhere, the last bytes with or without the error.
-/
namespace Mq

/-- two readers that deliver the same bytes and end the same way — under **any** two delivery
schedules — make ReadPacket return the same packet or the same rejection, and leave the same
bytes in the stream -/
theorem C07_schedule_irrelevant (r₁ r₂ : Reader) (hd : r₁.data = r₂.data) (hf : r₁.fail = r₂.fail) :
    (readPacket r₁).1 = (readPacket r₂).1 ∧ (readPacket r₁).2.data = (readPacket r₂).2.data := by
  have h1 := (readPacket_pure r₁).1
  have h2 := (readPacket_pure r₂).1
  rw [hd, hf] at h1
  have := h1.trans h2.symm
  simp only [Prod.mk.injEq] at this
  exact this

/-- in particular: same result as when all bytes arrive in one read -/
theorem C07_as_contiguous (r : Reader) :
    (readPacket r).1 = (readPacket { data := r.data, fail := r.fail }).1 :=
  (C07_schedule_irrelevant r { data := r.data, fail := r.fail } rfl rfl).1

/-- the underlying fact about `io.ReadFull`: the bytes it returns, its error and the bytes it
leaves behind do not depend on the schedule -/
theorem C07_readFull (r₁ r₂ : Reader) (want : Nat) (hd : r₁.data = r₂.data) (hf : r₁.fail = r₂.fail) :
    (readFull r₁ want).1 = (readFull r₂ want).1 ∧ (readFull r₁ want).2.1 = (readFull r₂ want).2.1
      ∧ (readFull r₁ want).2.2.data = (readFull r₂ want).2.2.data := by
  have h1 := (readFull_pure r₁ want).1
  have h2 := (readFull_pure r₂ want).1
  rw [hd, hf] at h1
  have := h1.trans h2.symm
  simp only [Prod.mk.injEq] at this
  exact this

/-- non-vacuity: a PUBLISH delivered one byte at a time with zero-length reads in between and
the last byte together with io.EOF decodes like the contiguous frame -/
example :
    (readPacket { data := [0x30, 0x05, 0x00, 0x01, 0x61, 0x00, 0x62], sched := [1, 0, 1, 1, 0, 1, 1, 1, 1],
                  eofWithData := true }).1
      = (readPacket (Reader.contig [0x30, 0x05, 0x00, 0x01, 0x61, 0x00, 0x62])).1 := by decide

end Mq
