import Proofs.ReadPacket
import Proofs.FrameRead
/-!
# C07 — the decoded packet does not depend on how the stream is fragmented

`Reader` (Mq.Stream) enumerates the deliveries the `io.Reader` contract allows: any chunk sizes
down to one byte, `(0, nil)` reads anywhere, the last bytes with or without the error.
-/
namespace Mq

/-- two readers that deliver the same bytes and end the same way — under **any** two delivery
schedules — make ReadPacket return the same packet or the same rejection, and leave the same
bytes in the stream -/
theorem C07_schedule_irrelevant (r₁ r₂ : Reader) (hd : r₁.data = r₂.data) (hf : r₁.fail = r₂.fail) :
    (readPacket r₁).1 = (readPacket r₂).1 ∧ (readPacket r₁).2.data = (readPacket r₂).2.data := by
  have h1 := (readPacket_pure r₁).1
  have h2 := (readPacket_pure r₂).1
  rw [hd, hf] at h1
  have := h1.trans h2.symm
  simp only [Prod.mk.injEq] at this
  exact this

/-- in particular: same result as when all bytes arrive in one read -/
theorem C07_as_contiguous (r : Reader) :
    (readPacket r).1 = (readPacket { data := r.data, fail := r.fail }).1 :=
  (C07_schedule_irrelevant r { data := r.data, fail := r.fail } rfl rfl).1

/-- the underlying fact about `io.ReadFull`: the bytes it returns, its error and the bytes it
leaves behind do not depend on the schedule -/
theorem C07_readFull (r₁ r₂ : Reader) (want : Nat) (hd : r₁.data = r₂.data) (hf : r₁.fail = r₂.fail) :
    (readFull r₁ want).1 = (readFull r₂ want).1 ∧ (readFull r₁ want).2.1 = (readFull r₂ want).2.1
      ∧ (readFull r₁ want).2.2.data = (readFull r₂ want).2.2.data := by
  have h1 := (readFull_pure r₁ want).1
  have h2 := (readFull_pure r₂ want).1
  rw [hd, hf] at h1
  have := h1.trans h2.symm
  simp only [Prod.mk.injEq] at this
  exact this

/-- **a whole session**: any number of consecutive `ReadPacket` calls on two readers that deliver the
same bytes and end the same way return the same sequence of packets and rejections and leave the
same bytes — whatever the two delivery schedules are, valid frames or not, including what is read
after a rejected frame. By induction on the number of calls: each call preserves "same remaining
bytes, same end". -/
theorem C07_session : ∀ (n : Nat) (r₁ r₂ : Reader), r₁.data = r₂.data → r₁.fail = r₂.fail →
    (readAll n r₁).1 = (readAll n r₂).1 ∧ (readAll n r₁).2.data = (readAll n r₂).2.data := by
  intro n
  induction n with
  | zero => intro r₁ r₂ hd _; exact ⟨rfl, hd⟩
  | succ n ih =>
    intro r₁ r₂ hd hf
    have h := C07_schedule_irrelevant r₁ r₂ hd hf
    have hf' : (readPacket r₁).2.fail = (readPacket r₂).2.fail := by
      rw [(readPacket_pure r₁).2.1, (readPacket_pure r₂).2.1, hf]
    have h2 := ih (readPacket r₁).2 (readPacket r₂).2 h.2 hf'
    simp only [readAll]
    exact ⟨by rw [h.1, h2.1], h2.2⟩

/-- non-vacuity: PINGREQ, a malformed CONNACK and a PUBACK read one byte at a time with zero-length
reads in between give what the contiguous stream gives -/
example :
    let d : Bytes := [0xc0, 0x00, 0x20, 0x05, 0x00, 0x00, 0x02, 0x7f, 0x00, 0x40, 0x02, 0x00, 0x01, 0xaa]
    (readAll 3 { data := d, sched := [1, 0, 1, 1, 0, 0, 1, 1, 1, 1, 1, 1, 1, 1, 1, 1, 1, 1] }).1
      = (readAll 3 (Reader.contig d)).1 := by decide

/-- non-vacuity: a PUBLISH delivered one byte at a time with zero-length reads in between and
the last byte together with io.EOF decodes like the contiguous frame -/
example :
    (readPacket { data := [0x30, 0x05, 0x00, 0x01, 0x61, 0x00, 0x62], sched := [1, 0, 1, 1, 0, 1, 1, 1, 1],
                  eofWithData := true }).1
      = (readPacket (Reader.contig [0x30, 0x05, 0x00, 0x01, 0x61, 0x00, 0x62])).1 := by decide

end Mq
