import Proofs.PacketSafe
/-!
# C05 — decoding terminates with work and memory bounded by the frame size

Termination of the model is by construction: every function of `Mq.*` is accepted by Lean's
termination checker; the three Go loops are given `rest.length + 1` (property loop) and
`len(data) + 1` (filter loops) units of fuel, one per iteration, and report `hang` if they run
out. The theorems below show that this never happens and bound what the decoders build.
-/
namespace Mq

/-- no decoder exhausts its iteration budget of (input length + 1) per loop: decoding terminates
after a number of loop iterations linear in the frame's length -/
theorem C05_terminates (p : Packet) (data : Bytes) : (p.unmarshal data).2 ≠ .hang :=
  (Packet.unmarshal_safe p data).2

theorem C05_readPacket_terminates (r : Reader) : (readPacket r).1 ≠ .hang := by
  rcases C04_readPacket_xor' r with ⟨q, h⟩ | ⟨e, h⟩ <;> rw [h] <;> simp
where
  C04_readPacket_xor' (r : Reader) : (∃ q, (readPacket r).1 = .pkt q) ∨ (∃ e, (readPacket r).1 = .err e) := by
    have h := (readPacket_pure r).1
    have h1 : (readPacket r).1 = (purePacket r.data r.fail).1 := by
      have := congrArg Prod.fst h; simpa using this
    rw [h1]; exact purePacket_xor r.data r.fail

/-- the lists of a packet (user properties, subscription identifiers, filters, reason codes) grow
by at most one element per input byte, plus the one element a filter loop was reading when it
stopped on an error -/
theorem C05_list_growth (p : Packet) (data : Bytes) :
    (p.unmarshal data).1.elems ≤ p.elems + data.length + 1 :=
  Packet.unmarshal_elems p data

/-- a packet decoded by ReadPacket from a frame with first byte `b0` and body `data` holds at
most `len(data) + 1` list elements — fewer than the frame has bytes (`len(data) + 2` or more) -/
theorem C05_elements_below_frame (b0 : UInt8) (data : Bytes) :
    ((Packet.dispatch b0).unmarshal data).1.elems < 1 + (encVb data.length).length + data.length := by
  have := Packet.unmarshal_elems (Packet.dispatch b0) data
  rw [Packet.dispatch_elems] at this
  have := encVb_length_pos data.length
  omega

/-- every successful `get` consumes at least one byte, so the property loop performs at most
`rest.length` successful reads -/
theorem C05_loop_progress (tbl : PropTable) (oldOf : UInt8 → List PropOcc → Bytes) (b : Buf) (h : b.Safe) :
    (b.getAny tbl oldOf).2.length + (b.getAny tbl oldOf).1.rest.length ≤ b.rest.length :=
  (getAny_safe b tbl oldOf h).2

/-- non-vacuity: the eight bytes `82 06 00 01 00 00 05 61`, which made the SUBSCRIBE filter loop
spin and allocate forever, are rejected after one iteration -/
example : (readPacket (Reader.contig [0x82, 0x06, 0x00, 0x01, 0x00, 0x00, 0x05, 0x61])).1 = .err .missing := by
  decide

end Mq
