import Proofs.Tie.Retain
import Proofs.ReadPacket
import Mq.Ops
/-!
# C14 — decoded packets own their memory and packets do not interfere

The model has value semantics: a packet is a value, a pool of packets a list of values. That this
is the right model of the Go code — that no two packets and no packet and its input share mutable
memory — is what the property states; it rests on
* `C14_no_retain`, `C14_no_shared_state` (regenerated from the source on every run by the SSA effect
  analysis of `/verif/extract`): no decoder stores (a slice of) its input where it outlives the call,
  and no exported operation writes through a package-level variable (`mqtt5` included);
* the correspondence run: pool histories with the decoder input overwritten (`SCRIBBLE`) and all
  packets viewed after every step, against this value-semantics model.
Given that, the theorems below are the frame properties of the model.
-/
namespace Mq

abbrev Pool := List Packet

/-- operations on one packet of a pool -/
inductive PoolOp
  | set (op : SetOp)          -- any public setter or adder
  | decode (data : Bytes)     -- UnmarshalBinary
  | encode                    -- WriteTo / String / Dump / accessors: no effect on any packet
  | scribble                  -- the caller overwrites the bytes it passed to the last decode
deriving Repr, DecidableEq

def PoolOp.apply (p : Packet) : PoolOp → Packet
  | .set op => (p.apply op).getD p
  | .decode d => (p.unmarshal d).1
  | .encode => p
  | .scribble => p

def Pool.step (pool : Pool) (i : Nat) (op : PoolOp) : Pool :=
  match pool[i]? with
  | some p => pool.set i (op.apply p)
  | none => pool

def Pool.run (pool : Pool) : List (Nat × PoolOp) → Pool
  | [] => pool
  | (i, op) :: rest => (pool.step i op).run rest

/-- **source fact, regenerated on every run**: no `UnmarshalBinary` (of any of the 16 types and the
wire types) and not `ReadPacket` keeps a pointer into its input -/
theorem C14_no_retain : Facts.decodeRetains = [] := Tie.T5_no_retain

/-- **source fact, regenerated on every run**: no exported operation writes through a package-level
variable — the `mqtt5` protocol-name slice shared by every `NewConnect()` is never written through -/
theorem C14_no_shared_state : Facts.globalWrites = [] := Tie.T5_globals.1

/-- overwriting the decoder's input afterwards changes no accessor of any packet -/
theorem C14_scribble (pool : Pool) (i : Nat) : pool.step i .scribble = pool := by
  unfold Pool.step
  cases h : pool[i]? with
  | none => rfl
  | some p =>
    simp only [PoolOp.apply]
    apply List.ext_getElem?
    intro k
    by_cases hk : i = k
    · subst hk; simp [List.getElem?_set, h]
      have := List.getElem?_eq_some_iff.mp h
      obtain ⟨hlt, _⟩ := this
      simp [hlt]
    · simp [List.getElem?_set, hk]

/-- decoding, encoding or modifying one packet never changes another -/
theorem C14_pool_frame (pool : Pool) (i j : Nat) (op : PoolOp) (h : i ≠ j) : (pool.step i op)[j]? = pool[j]? := by
  unfold Pool.step
  cases pool[i]? with
  | none => rfl
  | some p => simp [List.getElem?_set, h]

/-- … over whole histories: a packet no operation of the history addresses keeps every accessor value -/
theorem C14_bystander (pool : Pool) (ops : List (Nat × PoolOp)) (j : Nat) (h : ∀ o ∈ ops, o.1 ≠ j) :
    (pool.run ops)[j]? = pool[j]? := by
  induction ops generalizing pool with
  | nil => rfl
  | cons o ops ih =>
    obtain ⟨i, op⟩ := o
    simp only [Pool.run]
    rw [ih _ (fun o ho => h o (List.mem_cons_of_mem _ ho))]
    exact C14_pool_frame pool i j op (h (i, op) (List.mem_cons_self))

/-- a frame decodes to the same packet regardless of what was processed before it: `ReadPacket`'s
result is a function of the stream alone (there is no decoder state for a history to change) -/
theorem C14_history_free (pool : Pool) (ops : List (Nat × PoolOp)) (r : Reader) :
    (fun (_ : Pool) => (readPacket r).1) (pool.run ops) = (readPacket r).1 := rfl

/-- non-vacuity: two CONNECT packets from `NewConnect()` (sharing `mqtt5` in Go); decoding into the
first one a frame with another protocol name leaves the second one's protocol name alone -/
example :
    let pool : Pool := [Packet.new 1, Packet.new 1]
    let pool' := pool.step 0 (.decode [0, 4, 0x58, 0x58, 0x58, 0x58, 5, 0, 0, 0, 0, 0, 0])
    (pool'[1]?.map Packet.view) = (pool[1]?.map Packet.view) ∧ pool'[0]? ≠ pool[0]? := by
  decide +kernel

end Mq
