import Proofs.FillPackets
import Proofs.Tie.ReadOnly
import Proofs.Tie.MapRanges
import Mq.Stream
/-!
# C11 — encoding is deterministic and read-only

Two things can make repeated encodings differ in Go: iteration over a map (each `range` is
independently randomised, and differently seeded in every process) and hidden writes by the
"read-only" operations. Everything else in the encoder is a function of the packet's fields — in
the model by construction, tied to the code by the correspondence run (repeated `ENC` in two
processes with `STR`/`DUMP`/`WF`/`VIEW` in between).

* map iteration is modelled as an **arbitrary permutation** of the map's entries;
  `C11_range_singleton` shows that a range over at most one entry does not depend on it, and
  `C11_map_ranges` (regenerated from the source on every run) that every `range` over a map on an
  encoding or rendering path of the current tree ranges over a literal with at most one entry;
* `C11_readonly` (regenerated): no read-only operation writes to the packet or to package state.
-/
namespace Mq

/-- a `for k, v := range m` over the entries `fs`, visited in the order `ord` the runtime picks -/
theorem C11_range_singleton (fs ord : List Filler) (h : fs.length ≤ 1) (hp : ord.Perm fs) :
    Filler.seqs ord = Filler.seqs fs := by
  match fs, h with
  | [], _ => rw [List.perm_nil.mp hp]
  | [f], _ => rw [List.perm_singleton.mp hp]

/-- SUBSCRIBE, SUBACK, UNSUBACK write their one map-held property the same way under every
iteration order -/
theorem C11_ranged_properties (p : SubAck) (s : Subscribe) (v : Nat) (hs : s.subscriptionID = some v)
    (ord₁ ord₂ : List Filler)
    (h₁ : ord₁.Perm [fillProp 0x1f (.bin p.reasonString)]) (h₂ : ord₂.Perm [fillProp 0x0b (.vb v)]) :
    Filler.seqs [Filler.seqs ord₁, fillUserProps p.userProps] = p.propertiesG
    ∧ Filler.seqs [Filler.seqs ord₂, fillUserProps s.userProps] = s.propertiesG := by
  rw [C11_range_singleton _ _ (by simp) h₁, C11_range_singleton _ _ (by simp) h₂]
  constructor
  · funext b i; simp [SubAck.propertiesG, Filler.seqs, Filler.seq, Filler.nop]
  · funext b i; simp [Subscribe.propertiesG, hs, Filler.seqs, Filler.seq, Filler.nop]

/-- why the bound matters: two entries written in the two possible orders give different bytes
(the defect this property was written for: CONNECT will properties ranged over a six-entry map) -/
theorem C11_two_entries_differ :
    let a := fillProp 0x01 (.bool true)
    let b := fillProp 0x02 (.u32 7)
    (Filler.seqs [a, b] (List.replicate 7 0) 0).1 ≠ (Filler.seqs [b, a] (List.replicate 7 0) 0).1 := by
  decide

/-- **source fact, regenerated on every run**: every `range` over a map in a function reachable
from a read-only operation ranges over a map literal with at most one entry; the maps are the
ones the model knows (`Tie.T1_*`) -/
theorem C11_map_ranges : Facts.mapRanges.all (fun m => !m.encoderPath || (0 ≤ m.size && m.size ≤ 1)) = true :=
  Tie.T5_map_ranges

/-- **source fact, regenerated on every run**: `WriteTo`, `String`, `Dump`, `WellFormed` and every
accessor write nothing but memory they allocate and the caller's `io.Writer` -/
theorem C11_readonly : Facts.readOnlyWrites = [] := Tie.T5_read_only

/-- the read-only operations of the API -/
inductive ReadOp | writeTo | string | dump | wellFormed | view
deriving Repr, DecidableEq

/-- what a read-only operation returns; none of them returns (or can change) the packet -/
inductive Out
  | enc (e : Packet.Enc) | text (r : Rend) | wf (w : Option WF) | view (v : View)
deriving DecidableEq

def ReadOp.run (p : Packet) : ReadOp → Out
  | .writeTo => .enc p.encodeG
  | .string => .text p.string
  | .dump => .text p.dump
  | .wellFormed => .wf p.wellFormed
  | .view => .view p.view

/-- **any interleaving of read-only operations**: every `WriteTo` in it produces the same bytes —
those of `Packet.encode` — and every accessor snapshot is the same, wherever it occurs -/
theorem C11_repeatable (p : Packet) (ops : List ReadOp) :
    ∀ o ∈ ops.map (ReadOp.run p),
      (∀ e, o = .enc e → e = p.encode) ∧ (∀ v, o = .view v → v = p.view) := by
  intro o ho
  simp only [List.mem_map] at ho
  obtain ⟨op, _, rfl⟩ := ho
  cases op <;> simp [ReadOp.run, Packet.encodeG_eq]

/-- non-vacuity: a CONNECT with all six will properties (720 orders before the repair) has one encoding -/
example :
    let w : Publish := { topicName := [0x74], payloadFormat := true, messageExpiryInterval := 9,
                         contentType := [0x63], responseTopic := [0x72], correlationData := [0x64] }
    let c : Connect := Connect.new.setWill w
    let p := Packet.connect { c with willDelayInterval := 5 }
    (ReadOp.run p .writeTo) = .enc p.encode ∧ sizeOf? p.encode = some 45 := by
  decide +kernel

end Mq
