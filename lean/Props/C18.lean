import Proofs.FillPackets
import Proofs.Tie.Cred
/-!
# C18 — diagnostics never disclose credentials

Non-interference: `Dump` and `String` of a CONNECT are functions of everything in the packet except
the *bytes* of user name and password; of those only the lengths enter (whether they are empty, and
— through the frame size `String` prints — how long they are). Stated over arbitrary `Connect`
values, so API-built and wire-decoded packets, with or without will, properties and authentication
fields, and credentials that coincide with other field contents are all covered: the relation is
between two runs that differ in nothing but the credential bytes.
-/
namespace Mq

/-- the packet with its credentials replaced (fields only — flags and everything else kept) -/
def Connect.withCreds (p : Connect) (u pw : Bytes) : Connect := { p with username := u, password := pw }

/-- **Dump**: equal lengths ⇒ identical output -/
theorem C18_dump (p : Connect) (u₁ u₂ pw₁ pw₂ : Bytes) (hu : u₁.length = u₂.length) (hp : pw₁.length = pw₂.length) :
    (Packet.connect (p.withCreds u₁ pw₁)).dump = (Packet.connect (p.withCreds u₂ pw₂)).dump := by
  simp only [Packet.dump, Connect.dump, Connect.withCreds, hu, hp]

/-- the frame size is a function of the lengths only -/
theorem C18_size (p : Connect) (u₁ u₂ pw₁ pw₂ : Bytes) (hu : u₁.length = u₂.length) (hp : pw₁.length = pw₂.length) :
    (p.withCreds u₁ pw₁).encode?.map List.length = (p.withCreds u₂ pw₂).encode?.map List.length := by
  simp only [Connect.encode?, Connect.body?, Connect.payload?, Connect.withCreds, Option.map_map]
  have hv : ∀ u pw, ({ p with username := u, password := pw } : Connect).varHeader = p.varHeader := fun _ _ => rfl
  have hw : ∀ u pw w, ({ p with username := u, password := pw } : Connect).willProps w = p.willProps w := fun _ _ _ => rfl
  congr 1
  funext wp
  simp only [Function.comp, frame, List.length_cons, List.length_append, encBin_length, hv]
  by_cases f1 : has p.flags Connect.fUsername = true <;> by_cases f2 : has p.flags Connect.fPassword = true <;>
    simp [f1, f2, encBin_length, hu, hp]

/-- **String**: equal lengths ⇒ identical output -/
theorem C18_string (p : Connect) (u₁ u₂ pw₁ pw₂ : Bytes) (hu : u₁.length = u₂.length) (hp : pw₁.length = pw₂.length) :
    (Packet.connect (p.withCreds u₁ pw₁)).string = (Packet.connect (p.withCreds u₂ pw₂)).string := by
  have hs := C18_size p u₁ u₂ pw₁ pw₂ hu hp
  rw [← Connect.fillG_dry, ← Connect.fillG_dry] at hs
  simp only [Packet.string]
  cases h1 : (p.withCreds u₁ pw₁).fillG? <;> cases h2 : (p.withCreds u₂ pw₂).fillG? <;>
    simp only [h1, h2, Option.map_none, Option.map_some, reduceCtorEq, Option.some.injEq] at hs
  · rfl
  · simp only [Connect.withCreds, hs]

/-- the same through the public setters (which also maintain the flag bits): packets built by
`SetUsername`/`SetPassword` with equally long values -/
theorem C18_setters (p : Connect) (u₁ u₂ pw₁ pw₂ : Bytes) (hu : u₁.length = u₂.length) (hp : pw₁.length = pw₂.length) :
    (Packet.connect ((p.setUsername u₁).setPassword pw₁)).dump = (Packet.connect ((p.setUsername u₂).setPassword pw₂)).dump
    ∧ (Packet.connect ((p.setUsername u₁).setPassword pw₁)).string = (Packet.connect ((p.setUsername u₂).setPassword pw₂)).string := by
  have key : (p.setUsername u₂).setPassword pw₂ = (((p.setUsername u₁).setPassword pw₁).withCreds u₂ pw₂) := by
    simp [Connect.setUsername, Connect.setPassword, Connect.withCreds, hu, hp]
  have self : (p.setUsername u₁).setPassword pw₁ = (((p.setUsername u₁).setPassword pw₁).withCreds u₁ pw₁) := by
    simp [Connect.setUsername, Connect.setPassword, Connect.withCreds]
  rw [key]
  constructor
  · conv => lhs; rw [self]
    exact C18_dump _ _ _ _ _ hu hp
  · conv => lhs; rw [self]
    exact C18_string _ _ _ _ _ hu hp

/-- wire-decoded: two CONNECT bodies that are decoded into packets differing only in the credential
bytes render identically — whatever else the frames carried -/
theorem C18_decoded (p₁ p₂ : Connect) (h : p₂ = p₁.withCreds p₂.username p₂.password)
    (hu : p₁.username.length = p₂.username.length) (hp : p₁.password.length = p₂.password.length) :
    (Packet.connect p₁).dump = (Packet.connect p₂).dump ∧ (Packet.connect p₁).string = (Packet.connect p₂).string := by
  have self : p₁ = p₁.withCreds p₁.username p₁.password := rfl
  rw [h]
  constructor
  · conv => lhs; rw [self]
    exact C18_dump _ _ _ _ _ hu hp
  · conv => lhs; rw [self]
    exact C18_string _ _ _ _ _ hu hp

/-- non-vacuity: a CONNECT with a will whose topic coincides with the secret; the two dumps are
equal and do show the will topic -/
example :
    let w : Publish := { Publish.new with topicName := [0x73, 0x33] }
    let p := ((Connect.new.setWill w).setUsername [0x75, 0x31]).setPassword [0x73, 0x33]
    (Packet.connect p).dump = (Packet.connect (p.withCreds [0x78, 0x78] [0x79, 0x79])).dump
    ∧ (Packet.connect p).dump ≠ .panic ∧ (Packet.connect p).string ≠ .panic := by
  decide +kernel

/-- **the source looks at the credentials only to measure them**: outside the setters, the accessors,
the encoder's `payload` and the decoder, every mention of `username`/`password`/`Username()`/
`Password()` in the package stands directly under `len(…)` (fact regenerated from /repo on every run) -/
theorem C18_credentials_only_measured : Facts.credentialUses.all (fun u => u.2.2) = true :=
  Tie.T6_credentials_only_measured

end Mq
