import Proofs.EBridge
import Proofs.Setters
/-!
# Props.Domain — the input domains of C01 / C02, written out

`InDomain` is the part of the C01 domain for which the theorems are proved: every string/binary
field and user-property key/value at most 65 535 bytes, user-property keys non-empty, remaining
length at most 268 435 455, the packet's first byte the one its constructor sets, and — this is
what makes it the *strict* sub-domain, see `C01.lean` — the structural rules a conforming peer may
enforce (`Spec.SPacket.legal`): CONNECT protocol name `MQTT` version 5, at least one reason
code / filter, subscription option reserved bits clear, QoS ≤ 2.
-/
namespace Mq

def strOK (s : Bytes) : Prop := s.length < 65536

def Ack.InDomain (k : Nat) (p : Ack) : Prop :=
  (4 ≤ k ∧ k ≤ 7) ∧ p.fixed = (if k = 6 then 0x62 else UInt8.ofNat (k * 16))
  ∧ strOK p.reason ∧ UpsInRange p.userProps ∧ p.body.length < 268435456

def SubAck.InDomain (k : Nat) (p : SubAck) : Prop :=
  (k = 9 ∨ k = 11) ∧ p.fixed = UInt8.ofNat (k * 16) ∧ strOK p.reasonString ∧ UpsInRange p.userProps
  ∧ p.reasonCodes ≠ [] ∧ p.body.length < 268435456

def Ping.InDomain (k : Nat) (p : Ping) : Prop := (k = 12 ∨ k = 13) ∧ p.fixed = UInt8.ofNat (k * 16)

def Disconnect.InDomain (p : Disconnect) : Prop :=
  p.fixed = 0xe0 ∧ strOK p.reasonString ∧ strOK p.serverReference ∧ UpsInRange p.userProps ∧ p.body.length < 268435456

def Auth.InDomain (p : Auth) : Prop :=
  p.fixed = 0xf0 ∧ strOK p.reasonString ∧ strOK p.authMethod ∧ strOK p.authData ∧ UpsInRange p.userProps
  ∧ p.body.length < 268435456

def TopicFilter.OK (f : TopicFilter) : Prop :=
  strOK f.filter ∧ f.options &&& 0xc0 = 0 ∧ f.options &&& 3 ≠ 3 ∧ f.options &&& 0x30 ≠ 0x30

def Subscribe.InDomain (p : Subscribe) : Prop :=
  p.fixed = 0x82 ∧ (∀ v, p.subscriptionID = some v → 1 ≤ v ∧ v < 268435456) ∧ UpsInRange p.userProps
  ∧ p.filters ≠ [] ∧ (∀ f ∈ p.filters, f.OK) ∧ p.body.length < 268435456

/-- lenient: any subscription option byte -/
def Subscribe.InDomainL (p : Subscribe) : Prop :=
  p.fixed = 0x82 ∧ (∀ v, p.subscriptionID = some v → 1 ≤ v ∧ v < 268435456) ∧ UpsInRange p.userProps
  ∧ p.filters ≠ [] ∧ (∀ f ∈ p.filters, strOK f.filter) ∧ p.body.length < 268435456

/-- lenient: possibly no reason code -/
def SubAck.InDomainL (k : Nat) (p : SubAck) : Prop :=
  (k = 9 ∨ k = 11) ∧ p.fixed = UInt8.ofNat (k * 16) ∧ strOK p.reasonString ∧ UpsInRange p.userProps
  ∧ p.body.length < 268435456

def Unsubscribe.InDomain (p : Unsubscribe) : Prop :=
  p.fixed = 0xa2 ∧ UpsInRange p.userProps ∧ p.filters ≠ [] ∧ (∀ f ∈ p.filters, strOK f) ∧ p.body.length < 268435456

def ConnAck.InDomain (p : ConnAck) : Prop :=
  p.fixed = 0x20 ∧ (p.flags = 0 ∨ p.flags = 1)
  ∧ strOK p.assignedClientID ∧ strOK p.reasonString ∧ strOK p.responseInformation ∧ strOK p.serverReference
  ∧ strOK p.authMethod ∧ strOK p.authData ∧ UpsInRange p.userProps ∧ p.body.length < 268435456

/-- PUBLISH: QoS 0…2; a QoS 0 PUBLISH has no packet identifier field, so its identifier is 0;
subscription identifiers in 1 … 268 435 455 -/
def Publish.InDomain (p : Publish) : Prop :=
  p.fixed &&& 0xf0 = 0x30 ∧ p.qos ≤ 2 ∧ (p.qos = 0 → p.packetID = 0)
  ∧ strOK p.topicName ∧ strOK p.responseTopic ∧ strOK p.correlationData ∧ strOK p.contentType
  ∧ UpsInRange p.userProps ∧ (∀ v ∈ p.subscriptionIDs, 1 ≤ v.toNat ∧ v.toNat < 268435456)
  ∧ p.body.length < 268435456

/-- a will message as `SetWill` received it and `Connect` keeps it -/
def Connect.WillOK (p : Connect) (w : Publish) : Prop :=
  w.fixed &&& 0xf0 = 0x30 ∧ w.duplicate = false ∧ w.qos ≤ 2 ∧ w.packetID = 0 ∧ w.topicAlias = 0 ∧ w.subscriptionIDs = []
  ∧ p.willPayload = w.payload
  ∧ strOK w.topicName ∧ strOK w.payload ∧ strOK w.responseTopic ∧ strOK w.correlationData ∧ strOK w.contentType
  ∧ UpsInRange w.userProps

/-- `k` = slack on the remaining-length bound (0 in the domain proper; the C01 substitution argument
looks at a twin packet up to four bytes longer) -/
def Connect.InDomainW (k : Nat) (p : Connect) : Prop :=
  p.fixed = 0x10 ∧ p.protocolName = Connect.mqtt5 ∧ p.protocolVersion = 5 ∧ p.FlagsInv
  ∧ (∀ w, p.will = some w → p.WillOK w)
  ∧ (p.will = none → p.willDelayInterval = 0 ∧ p.willPayload = [] ∧ p.flags &&& 0x3c = 0)
  ∧ strOK p.clientID ∧ strOK p.authMethod ∧ strOK p.authData ∧ strOK p.username ∧ strOK p.password
  ∧ UpsInRange p.userProps
  ∧ (∀ b, p.body? = some b → b.length < 268435456 + k)

def Connect.InDomain (p : Connect) : Prop := p.InDomainW 0

/-- CONNECT with any protocol name (up to 65 535 bytes) and any protocol version, everything else
as `InDomain`: stated through the `MQTT`/5 twin. The twin's own length bound (slack 4) is implied by
the packet's (`Connect.twin_bound`, Props/C01), so the conditions are: name ≤ 65 535 bytes, the
`InDomain` conditions on every other field, remaining length ≤ 268 435 455. -/
def Connect.InDomainL (p : Connect) : Prop :=
  strOK p.protocolName ∧ ({ p with protocolName := Connect.mqtt5, protocolVersion := 5 } : Connect).InDomainW 4
  ∧ (∀ b, p.body? = some b → b.length < 268435456)

def Packet.InDomain : Packet → Prop
  | .undefined _ => False
  | .connect p => p.InDomain
  | .connack p => p.InDomain
  | .publish p => p.InDomain
  | .puback p => p.InDomain 4 | .pubrec p => p.InDomain 5 | .pubrel p => p.InDomain 6 | .pubcomp p => p.InDomain 7
  | .subscribe p => p.InDomain
  | .suback p => p.InDomain 9 | .unsuback p => p.InDomain 11
  | .unsubscribe p => p.InDomain
  | .pingreq p => p.InDomain 12 | .pingresp p => p.InDomain 13
  | .disconnect p => p.InDomain
  | .auth p => p.InDomain

/-- **the C01 domain**: `InDomain` with the three relaxations — packets the API lets a caller build that
are not valid MQTT but must round-trip all the same -/
def Packet.InDomainL : Packet → Prop
  | .connect p => p.InDomainL
  | .subscribe p => p.InDomainL
  | .suback p => p.InDomainL 9 | .unsuback p => p.InDomainL 11
  | p => p.InDomain

end Mq
