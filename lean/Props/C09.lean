import Proofs.RejectConnect
import Proofs.RejectSections
import Proofs.FrameRead
import Props.C15
/-!
# C09 — frames the decoder must reject are rejected

(a) `C09a_cut_inside_field`: for **every** legal abstract packet (all 15 types, any property list)
and **every** position strictly inside a field of its field map (`Spec.SPacket.fieldLens`: two-byte
integers, strings and binary data with their length prefix, each property section — its length,
every identifier/value boundary, every value —, will fields, filters; the raw PUBLISH payload
exempt), the frame cut there, with the remaining length equal to the shortened size, is rejected
by `ReadPacket`: an error and no packet, under every reader schedule.
(b) `C09b_remaining_length`: a remaining length that continues beyond four bytes is rejected;
`C09b_in_memory`: so is every variable byte integer read from a frame body (property length,
subscription identifier) — the decoder `decVb` the model's `get` uses for them.
(c)/(d) `C09c_bool`, `C09d_unknown_id`: in the property loop, after any run of well-formed
properties, a boolean property with a value other than 0/1 and an identifier not in the packet's
table (in particular none of the 229 identifiers MQTT leaves undefined) set the error status,
which no later step clears (`C09_sticky`).
-/
namespace Mq
open Spec (SPacket StrictlyInside)

/-- (a) on the level of one frame's bytes -/
theorem C09a_frame (sp : SPacket) (hl : sp.Legal) (k : Nat) (hk : StrictlyInside sp.fieldLens k) :
    ∃ e, frameOutcome sp.firstByte (sp.body.take k) = .err e := by
  cases sp with
  | connect cs ka ps cid will user pass => exact C09a_connect cs ka ps cid will user pass hl k hk
  | connack s r ps => exact C09a_connack s r ps hl k hk
  | publish d q r t pid ps pl => exact C09a_publish d q r t pid ps pl hl k hk
  | ack kk pid f r ps => exact C09a_ack kk pid f r ps hl k hk
  | subscribe pid ps fs => exact C09a_subscribe pid ps fs hl k hk
  | suback kk pid ps cs => exact C09a_suback kk pid ps cs hl k hk
  | unsubscribe pid ps fs => exact C09a_unsubscribe pid ps fs hl k hk
  | ping kk => simp only [SPacket.fieldLens] at hk; exact absurd hk (strictlyInside_nil _)
  | disconnect f r ps => exact C09a_disconnect f r ps hl k hk
  | auth f r ps => exact C09a_auth f r ps hl k hk

/-- **(a)** a legal frame cut strictly inside a field, its remaining length set to the shortened
size, delivered by any reader under any schedule and followed by anything: `ReadPacket` returns an
error and no packet -/
theorem C09a_cut_inside_field (sp : SPacket) (hl : sp.Legal) (k : Nat) (hk : StrictlyInside sp.fieldLens k)
    (r : Reader) (rest : Bytes) (hd : r.data = Spec.mkFrame sp.firstByte (sp.body.take k) ++ rest) :
    ∃ e, (readPacket r).1 = .err e := by
  obtain ⟨e, he⟩ := C09a_frame sp hl k hk
  have hp := (readPacket_pure r).1
  rw [hd] at hp
  have hlen : (sp.body.take k).length < 268435456 := by
    have := hl.2; simp only [List.length_take]; omega
  have : Spec.mkFrame sp.firstByte (sp.body.take k) = frameBytes sp.firstByte (sp.body.take k) := rfl
  rw [this, purePacket_frame _ _ rest hlen] at hp
  simp only [Prod.mk.injEq] at hp
  exact ⟨e, by rw [hp.1, he]⟩

/-- **(b)** a remaining length whose fourth byte still carries the continuation bit -/
theorem C09b_remaining_length (b0 b1 b2 b3 b4 b5 : UInt8) (rest : Bytes) (r : Reader)
    (hd : r.data = b0 :: b1 :: b2 :: b3 :: b4 :: b5 :: rest)
    (h1 : 128 ≤ b1.toNat) (h2 : 128 ≤ b2.toNat) (h3 : 128 ≤ b3.toNat) (h4 : 128 ≤ b4.toNat) :
    ∃ e, (readPacket r).1 = .err e := by
  have hp := congrArg Prod.fst (readPacket_pure r).1
  simp only [] at hp
  rw [hp, hd]
  have n1 : ¬ b1.toNat < 128 := by omega
  have n2 : ¬ b2.toNat < 128 := by omega
  have n3 : ¬ b3.toNat < 128 := by omega
  have n4 : ¬ b4.toNat < 128 := by omega
  simp [purePacket, pureVb, n1, n2, n3, n4]

/-- **(b)** inside a frame body: the decoder used for property lengths and subscription
identifiers rejects a fifth byte, and a `get` with it leaves the error status -/
theorem C09b_in_memory (b1 b2 b3 b4 b5 : UInt8) (rest : Bytes)
    (h1 : 128 ≤ b1.toNat) (h2 : 128 ≤ b2.toNat) (h3 : 128 ≤ b3.toNat) (h4 : 128 ≤ b4.toNat) (old : Nat) :
    (({ rest := b1 :: b2 :: b3 :: b4 :: b5 :: rest, st := .ok } : Buf).get decVb old).1.Failed := by
  rw [get_err_val decVb old _ .sizeExceeded (by simp) (C15_reject_long_mem b1 b2 b3 b4 b5 rest h1 h2 h3 h4)]
  exact ⟨_, rfl⟩

/-! ### (b), (c), (d) at property positions

`BadProp tbl bad` (Proofs.RejectProps) says the bytes `bad` start a property the decoder must not
accept: an identifier unknown to the packet's table (d), a boolean property with a value other than
0/1 (c), or a variable-byte-integer property running to a fifth byte (b). `badSection L pre bad suf`
is a property section that declares length `L`, starts with any well-formed properties `pre`, then
`bad`, then anything. The theorems below: a frame of each packet type whose property section is such
a section is rejected — whatever the other field values. -/

/-- the decoder tables of the model (tied to the `propertyMap` literals of the code by `Tie.T1_*`) -/
def allTables : List PropTable :=
  [Connect.table, Connect.willTable, ConnAck.table, Publish.table, Ack.table, Subscribe.table, SubAck.table,
   Disconnect.table, Auth.table, []]

/-- **(d)** none of the 229 identifiers MQTT v5.0 leaves undefined is known to any decoder table, nor
handled inline: each of them is a `BadProp.unknownId` in every packet — complete enumeration of the
256 byte values -/
theorem C09d_undefined_ids : ∀ n : Fin 256, Spec.propDef? (UInt8.ofNat n.val) = none →
    (UInt8.ofNat n.val ≠ 0x26 ∧ UInt8.ofNat n.val ≠ 0x0b) ∧ ∀ tbl ∈ allTables, tbl.lookup (UInt8.ofNat n.val) = none := by
  decide +kernel

theorem C09d_unknown_id (id : UInt8) (h : Spec.propDef? id = none) (tbl : PropTable) (ht : tbl ∈ allTables) (rest : Bytes) :
    BadProp tbl (id :: rest) := by
  have := C09d_undefined_ids ⟨id.toNat, id.toNat_lt⟩
  simp only [UInt8.ofNat_toNat] at this
  obtain ⟨⟨h1, h2⟩, h3⟩ := this h
  exact .unknownId id rest (h3 tbl ht) h1 h2

/-- **(c)** every boolean property of MQTT v5.0 is decoded as a boolean by the table of each packet
that may carry it, so a value byte other than 0/1 is a `BadProp.badBool` there -/
theorem C09c_bool_ids : ∀ d ∈ Spec.propDefs, d.ty = .bool →
    (d.allowed.contains 1 → Connect.table.lookup d.id = some .bool)
    ∧ (d.allowed.contains 2 → ConnAck.table.lookup d.id = some .bool)
    ∧ (d.allowed.contains 3 → Publish.table.lookup d.id = some .bool)
    ∧ (d.allowed.contains Spec.willK → Connect.willTable.lookup d.id = some .bool) := by
  decide

/-- **(b)** the subscription identifier — the only variable-byte-integer property — is decoded as one
in PUBLISH (inline) and SUBSCRIBE (table) -/
theorem C09b_vb_ids : Publish.table.lookup 0x0b = none ∧ Subscribe.table.lookup 0x0b = some .vb := by decide

/-- **(b), (c), (d) in a property section**, for every packet type that has one: whatever the fixed
fields, whatever well-formed (legal) properties `pre` precede it and whatever follows, a frame whose
property section reaches a malformed property is rejected -/
theorem C09_malformed_property (L : Nat) (pre : List PropOcc) (bad suf : Bytes) (hL : L < 268435456)
    (hreach : (pre.flatMap encOcc).length < L) :
    (∀ fl ka, Spec.propsLegal 1 pre = true → BadProp Connect.table bad →
      ∃ e, frameOutcome 0x10 (encBin Connect.mqtt5 ++ (5 :: fl :: (encU16 ka ++ badSection L pre bad suf))) = .err e)
    ∧ (∀ fl rc, Spec.propsLegal 2 pre = true → BadProp ConnAck.table bad →
      ∃ e, frameOutcome 0x20 (fl :: rc :: badSection L pre bad suf) = .err e)
    ∧ (∀ dup retain qos topic pid, qos ≤ 2 → topic.length < 65536 → Spec.propsLegal 3 pre = true → BadProp Publish.table bad →
      ∃ e, frameOutcome (Spec.SPacket.publish dup qos retain topic pid [] []).firstByte
        (encBin topic ++ ((if qos = 0 then [] else encU16 pid) ++ badSection L pre bad suf)) = .err e)
    ∧ (∀ b0 k pid rc, ((b0 = 0x40 ∧ k = 4) ∨ (b0 = 0x50 ∧ k = 5) ∨ (b0 = 0x62 ∧ k = 6) ∨ (b0 = 0x70 ∧ k = 7)) →
      Spec.propsLegal k pre = true → BadProp Ack.table bad →
      ∃ e, frameOutcome b0 (encU16 pid ++ (rc :: badSection L pre bad suf)) = .err e)
    ∧ (∀ pid, Spec.propsLegal 8 pre = true → BadProp Subscribe.table bad →
      ∃ e, frameOutcome 0x82 (encU16 pid ++ badSection L pre bad suf) = .err e)
    ∧ (∀ b0 k pid, ((b0 = 0x90 ∧ k = 9) ∨ (b0 = 0xb0 ∧ k = 11)) → Spec.propsLegal k pre = true → BadProp SubAck.table bad →
      ∃ e, frameOutcome b0 (encU16 pid ++ badSection L pre bad suf) = .err e)
    ∧ (∀ pid, Spec.propsLegal 10 pre = true → BadProp ([] : PropTable) bad →
      ∃ e, frameOutcome 0xa2 (encU16 pid ++ badSection L pre bad suf) = .err e)
    ∧ (∀ rc, Spec.propsLegal 14 pre = true → BadProp Disconnect.table bad →
      ∃ e, frameOutcome 0xe0 (rc :: badSection L pre bad suf) = .err e)
    ∧ (∀ rc, Spec.propsLegal 15 pre = true → BadProp Auth.table bad →
      ∃ e, frameOutcome 0xf0 (rc :: badSection L pre bad suf) = .err e) :=
  ⟨fun fl ka hl hb => bad_connect fl ka L pre bad suf hl hL hreach hb,
   fun fl rc hl hb => bad_connack fl rc L pre bad suf hl hL hreach hb,
   fun dup retain qos topic pid hq ht hl hb => bad_publish dup retain qos hq topic ht pid L pre bad suf hl hL hreach hb,
   fun b0 k pid rc hk hl hb => bad_ack b0 k hk pid rc L pre bad suf hl hL hreach hb,
   fun pid hl hb => bad_subscribe pid L pre bad suf hl hL hreach hb,
   fun b0 k pid hk hl hb => bad_suback b0 k hk pid L pre bad suf hl hL hreach hb,
   fun pid hl hb => bad_unsubscribe pid L pre bad suf hl hL hreach hb,
   fun rc hl hb => bad_disconnect rc L pre bad suf hl hL hreach hb,
   fun rc hl hb => bad_auth rc L pre bad suf hl hL hreach hb⟩

/-- … and in the will properties of a CONNECT (will flag set), after any legal CONNECT properties and
client identifier -/
theorem C09_malformed_will_property (fl : UInt8) (hfl : has fl Connect.fWillFlag = true) (ka : UInt16) (ps : List PropOcc)
    (hps : Spec.propsLegal 1 ps = true) (hsl : (ps.flatMap encOcc).length < 268435456) (cid : Bytes) (hcid : cid.length < 65536)
    (L : Nat) (pre : List PropOcc) (bad suf : Bytes) (hl : Spec.propsLegal Spec.willK pre = true)
    (hL : L < 268435456) (hreach : (pre.flatMap encOcc).length < L) (hbad : BadProp Connect.willTable bad) :
    ∃ e, frameOutcome 0x10 (encBin Connect.mqtt5 ++ (5 :: fl :: (encU16 ka ++ (Spec.propSection ps ++ (encBin cid
      ++ badSection L pre bad suf))))) = .err e :=
  bad_connect_will fl hfl ka ps hps hsl cid hcid L pre bad suf hl hL hreach hbad

/-- once the error status is set, every later step of every decoder keeps it -/
theorem C09_sticky (b : Buf) (h : b.Failed) :
    (∀ {α} (dec : Dec α) (old : α), (b.get dec old).1.Failed)
    ∧ (∀ tbl oldOf, (b.getAny tbl oldOf).1.Failed)
    ∧ (∀ fuel acc, 0 < fuel → (Subscribe.filterLoop fuel b acc).1.Failed)
    ∧ (∀ fuel acc, 0 < fuel → (Unsubscribe.filterLoop fuel b acc).1.Failed) :=
  ⟨fun dec old => get_failed b dec old h, fun tbl oldOf => getAny_failed b tbl oldOf h,
   fun fuel acc hf => Subscribe.filterLoop_failed fuel b acc h hf,
   fun fuel acc hf => Unsubscribe.filterLoop_failed fuel b acc h hf⟩

/-- non-vacuity of (c): a CONNACK whose Retain Available (0x25) property carries the value 2, after a
well-formed Receive Maximum property, `20 08 00 00 05 21 00 0a 25 02`, is rejected -/
example : ∃ e, frameOutcome 0x20 [0x00, 0x00, 0x05, 0x21, 0x00, 0x0a, 0x25, 0x02] = .err e := by
  have := bad_connack 0 0 5 [⟨0x21, .u16 10⟩] [0x25, 0x02] [] (by decide) (by decide) (by decide)
    (.badBool 0x25 2 [] (by decide) (by decide) (by decide))
  simpa [badSection, encOcc, encV, encU16, encVb, encVbAux] using this

/-- non-vacuity of (a): the CONNACK `20 03 00 00 00` cut after the first byte of nothing — rather:
a PUBACK `40 04 00 07 10 00` cut inside its packet identifier, `40 01 00`, is rejected (the frame
that used to panic) -/
example : ∃ e, frameOutcome 0x40 [0x00] = .err e := by
  have := C09a_frame (.ack 4 7 .full 0x10 []) (by constructor <;> decide) 1
    ⟨[], (2, true), _, rfl, rfl, by decide, by decide⟩
  simpa [SPacket.firstByte, SPacket.body, encU16] using this

end Mq
