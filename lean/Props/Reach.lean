import Props.Domain
import Proofs.Reach
import Proofs.DConnectL
/-!
# Props.Reach — from "built with the public constructors and setters" to the domain predicates

C01, C02, C10 and C12 quantify over packets *built through the API with values inside MQTT's
limits*; their theorems are stated over the value predicates `Packet.InDomainL` / `Packet.InDomain`.
Here the two are connected: a packet obtained from `New<Type>()` by any sequence of setter/adder
calls whose arguments are within the limits (`SetOp.OK`) satisfies the invariant `Packet.Reach`
(Proofs/Reach.lean), and `Reach` together with `Packet.Final` — the conditions on the packet as
finally written that no single call can guarantee — is the domain.

`Final` says: the frame fits MQTT's remaining-length limit; SUBSCRIBE/UNSUBSCRIBE carry at least
one filter (an empty one is not a packet the decoder may accept, C09); a PUBLISH with QoS 0 has no
packet identifier to transmit and a CONNECT without a will has no will delay to transmit, so those
two fields are still 0. `FinalValid` adds what makes the packet *valid MQTT* (C02's domain).
-/
namespace Mq

def Packet.Final : Packet → Prop
  | .undefined _ => False
  | .connect p => (p.will = none → p.willDelayInterval = 0) ∧ ∀ b, p.body? = some b → b.length < 268435456
  | .connack p => p.body.length < 268435456
  | .publish p => (p.qos = 0 → p.packetID = 0) ∧ p.body.length < 268435456
  | .puback p | .pubrec p | .pubrel p | .pubcomp p => p.body.length < 268435456
  | .subscribe p => p.filters ≠ [] ∧ p.body.length < 268435456
  | .suback p | .unsuback p => p.body.length < 268435456
  | .unsubscribe p => p.filters ≠ [] ∧ p.body.length < 268435456
  | .pingreq _ | .pingresp _ => True
  | .disconnect p => p.body.length < 268435456
  | .auth p => p.body.length < 268435456

/-- additionally valid MQTT: protocol `MQTT` 5, legal subscription options, at least one reason code -/
def Packet.FinalValid : Packet → Prop
  | .connect p => p.protocolName = Connect.mqtt5 ∧ p.protocolVersion = 5
  | .subscribe p => ∀ f ∈ p.filters, f.options &&& 0xc0 = 0 ∧ f.options &&& 3 ≠ 3 ∧ f.options &&& 0x30 ≠ 0x30
  | .suback p | .unsuback p => p.reasonCodes ≠ []
  | _ => True

theorem Packet.inDomainL_of_reach (p : Packet) (hr : p.Reach) (hf : p.Final) : p.InDomainL := by
  cases p with
  | undefined q => exact hf.elim
  | connect q =>
    obtain ⟨r1, r2, r3, r4, r5, r6, r7, r8, r9, r10, r11⟩ := hr
    obtain ⟨hd, hlen⟩ := hf
    refine ⟨r5, ⟨r1, rfl, rfl, ⟨r2.user, r2.pass, r2.will, r2.reserved, r2.mirror⟩, r3,
      fun hn => ⟨hd hn, (r4 hn).1, (r4 hn).2⟩, r6, r7, r8, r9, r10, r11, Connect.twin_bound q hlen⟩, hlen⟩
  | connack q => obtain ⟨a, b, c, d, e, f, g, h, i⟩ := hr; exact ⟨a, b, c, d, e, f, g, h, i, hf⟩
  | publish q =>
    obtain ⟨a, b, c, d, e, f, g, h⟩ := hr
    exact ⟨a, b, hf.1, c, d, e, f, g, h, hf.2⟩
  | puback q => obtain ⟨a, b, c⟩ := hr; exact ⟨⟨by omega, by omega⟩, a, b, c, hf⟩
  | pubrec q => obtain ⟨a, b, c⟩ := hr; exact ⟨⟨by omega, by omega⟩, a, b, c, hf⟩
  | pubrel q => obtain ⟨a, b, c⟩ := hr; exact ⟨⟨by omega, by omega⟩, a, b, c, hf⟩
  | pubcomp q => obtain ⟨a, b, c⟩ := hr; exact ⟨⟨by omega, by omega⟩, a, b, c, hf⟩
  | subscribe q => obtain ⟨a, b, c, d⟩ := hr; exact ⟨a, b, c, hf.1, d, hf.2⟩
  | suback q => obtain ⟨a, b, c⟩ := hr; exact ⟨Or.inl rfl, a, b, c, hf⟩
  | unsuback q => obtain ⟨a, b, c⟩ := hr; exact ⟨Or.inr rfl, a, b, c, hf⟩
  | unsubscribe q => obtain ⟨a, b, c⟩ := hr; exact ⟨a, b, hf.1, c, hf.2⟩
  | pingreq q => exact ⟨Or.inl rfl, hr⟩
  | pingresp q => exact ⟨Or.inr rfl, hr⟩
  | disconnect q => obtain ⟨a, b, c, d⟩ := hr; exact ⟨a, b, c, d, hf⟩
  | auth q => obtain ⟨a, b, c, d, e⟩ := hr; exact ⟨a, b, c, d, e, hf⟩

theorem Packet.inDomain_of_reach (p : Packet) (hr : p.Reach) (hf : p.Final) (hv : p.FinalValid) : p.InDomain := by
  have hl := p.inDomainL_of_reach hr hf
  cases p with
  | connect q =>
    obtain ⟨_, ⟨a1, _, _, a4, a5, a6, a7, a8, a9, a10, a11, a12, _⟩, hlen⟩ := hl
    exact ⟨a1, hv.1, hv.2, ⟨a4.user, a4.pass, a4.will, a4.reserved, a4.mirror⟩, a5, a6, a7, a8, a9, a10, a11, a12,
      fun b hb => by have := hlen b hb; omega⟩
  | subscribe q =>
    obtain ⟨a, b, c, d, e, f⟩ := hl
    exact ⟨a, b, c, d, fun x hx => ⟨e x hx, hv x hx⟩, f⟩
  | suback q => obtain ⟨a, b, c, d, e⟩ := hl; exact ⟨a, b, c, d, hv, e⟩
  | unsuback q => obtain ⟨a, b, c, d, e⟩ := hl; exact ⟨a, b, c, d, hv, e⟩
  | undefined q => exact hl
  | connack q => exact hl
  | publish q => exact hl
  | puback q => exact hl
  | pubrec q => exact hl
  | pubrel q => exact hl
  | pubcomp q => exact hl
  | unsubscribe q => exact hl
  | pingreq q => exact hl
  | pingresp q => exact hl
  | disconnect q => exact hl
  | auth q => exact hl

theorem Packet.new_undefined (k : Nat) (h : ¬ (1 ≤ k ∧ k ≤ 15)) : Packet.new k = .undefined {} := by
  unfold Packet.new
  split <;> first | omega | rfl

/-- a packet built by `New<Type>()` and any history of in-limit setter/adder calls, finally
satisfying `Final`, is in the C01 domain -/
theorem Packet.api_inDomainL (k : Nat) (ops : List SetOp) (p : Packet) (h : (Packet.new k).applyAll ops = some p)
    (hok : ∀ op ∈ ops, op.OK) (hf : p.Final) : p.InDomainL := by
  by_cases hk : 1 ≤ k ∧ k ≤ 15
  · exact p.inDomainL_of_reach (Packet.applyAll_reach ops _ p h hok (Packet.new_reach k hk.1 hk.2)) hf
  · rw [Packet.new_undefined k hk] at h
    cases ops with
    | nil => simp only [Packet.applyAll, Option.some.injEq] at h; subst h; exact hf.elim
    | cons op ops => simp [Packet.applyAll, Packet.apply] at h

theorem Packet.api_inDomain (k : Nat) (ops : List SetOp) (p : Packet) (h : (Packet.new k).applyAll ops = some p)
    (hok : ∀ op ∈ ops, op.OK) (hf : p.Final) (hv : p.FinalValid) : p.InDomain := by
  by_cases hk : 1 ≤ k ∧ k ≤ 15
  · exact p.inDomain_of_reach (Packet.applyAll_reach ops _ p h hok (Packet.new_reach k hk.1 hk.2)) hf hv
  · rw [Packet.new_undefined k hk] at h
    cases ops with
    | nil => simp only [Packet.applyAll, Option.some.injEq] at h; subst h; exact hf.elim
    | cons op ops => simp [Packet.applyAll, Packet.apply] at h

/-- non-vacuity: a CONNECT with a will, credentials and a user property, built call by call from
in-limit arguments, and final -/
def exampleOps : List SetOp :=
  [.setClientID [0x63], .setWill ((Publish.new.setQoS 1)), .setUsername [0x75], .addUserProp [0x6b] [0x76],
   .setCleanStart true]

example : (∀ op ∈ exampleOps, op.OK) ∧ ∃ p, (Packet.new 1).applyAll exampleOps = some p ∧ p.Final := by
  have hs : ∀ b : Bytes, b.length < 65536 → strOK b := fun _ h => h
  constructor
  · intro op hop
    simp only [exampleOps, List.mem_cons, List.mem_nil_iff, or_false] at hop
    rcases hop with rfl | rfl | rfl | rfl | rfl
    · exact hs _ (by decide)
    · exact ⟨by decide, by decide, by decide, rfl, rfl, rfl, hs _ (by decide), hs _ (by decide), hs _ (by decide),
        hs _ (by decide), hs _ (by decide), ups_nil⟩
    · exact hs _ (by decide)
    · exact ⟨by decide, hs _ (by decide), hs _ (by decide)⟩
    · trivial
  · refine ⟨_, rfl, ?_, ?_⟩
    · intro hn; cases hn
    · intro b hb
      have h : some b = some _ := hb.symm
      cases h
      decide

end Mq
