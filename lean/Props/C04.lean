import Proofs.PacketSafe
/-!
# C04 — decoding never panics, whatever bytes arrive

Property theorems only. `St.panic` is the model's outcome for every partial Go operation inside
the decoders (slice index, slice expression); `RP.panic`/`RP.hang` those of ReadPacket.
-/
namespace Mq

/-- `UnmarshalBinary` of every packet type (16 dispatch targets), on every byte string and
every receiver state, returns normally. -/
theorem C04_unmarshal_total (p : Packet) (data : Bytes) :
    (p.unmarshal data).2 ≠ .panic ∧ (p.unmarshal data).2 ≠ .hang :=
  Packet.unmarshal_safe p data

/-- `ReadPacket` through any reader — any bytes, any delivery schedule, any way the stream ends
— returns either a packet (with nil error) or an error (with nil packet): never both, never
neither, never a panic. `RP.pkt`/`RP.err` are exactly those two shapes. -/
theorem C04_readPacket_xor (r : Reader) :
    (∃ q, (readPacket r).1 = .pkt q) ∨ (∃ e, (readPacket r).1 = .err e) := by
  have h := (readPacket_pure r).1
  have hx := purePacket_xor r.data r.fail
  have h1 : (readPacket r).1 = (purePacket r.data r.fail).1 := by
    have := congrArg Prod.fst h; simpa using this
  rw [h1]; exact hx

/-- every wire decoder is panic-free behind the one-byte guard of `buffer.get` -/
theorem C04_wire_decoders (old : Bytes) (k : WKind) (d : Bytes) (h : d ≠ []) : decK old k d ≠ .panic :=
  decK_noPanic old k d h

/-- non-vacuity: the frame `40 01 00` (PUBACK cut inside its packet identifier), which used to
panic, is answered with an error; and a well-formed frame is accepted. -/
example : (readPacket (Reader.contig [0x40, 0x01, 0x00])).1 = .err .missing := by decide
example : (readPacket (Reader.contig [0x40, 0x02, 0x00, 0x07])).1 = .pkt (.puback { fixed := 0x40, packetID := 7 }) := by decide

end Mq
