import Proofs.Vbint
/-!
# C15 — variable byte integers are encoded minimally and decoded exactly

`encVb` is the encoder loop of `vbint.fill`, `decVb` the in-memory decoder
(`vbint.UnmarshalBinary` + the recomputed `width()`), `readVb 5` the streaming decoder
(`vbint.ReadFrom`). All statements are for every value / every byte string — nothing is enumerated.
-/
namespace Mq

/-- every value 0 … 268 435 455 is written in 1–4 bytes, the length MQTT prescribes -/
theorem C15_enc_length (x : Nat) (h : x < 268435456) :
    (encVb x).length = if x < 128 then 1 else if x < 16384 then 2 else if x < 2097152 then 3 else 4 :=
  encVb_length x h

/-- continuation bit on all bytes but the last, which has it clear -/
theorem C15_enc_shape (x : Nat) : VbShape (encVb x) := encVb_shape x

/-- … and the form is the minimal one: a multi-byte encoding never ends in a zero byte -/
theorem C15_enc_minimal (x : Nat) (h : 128 ≤ x) : (encVb x).getLast? ≠ some 0 := encVb_last_ne_zero x h

/-- the in-memory decoder returns exactly the value and advances by exactly its bytes -/
theorem C15_mem_roundtrip (x : Nat) (h : x < 268435456) (rest : Bytes) :
    decVb (encVb x ++ rest) = .ok x (encVb x).length := decVb_enc x h rest

/-- the streaming decoder, under every delivery schedule, returns exactly the value and consumes
exactly its bytes -/
theorem C15_stream_roundtrip (x : Nat) (h : x < 268435456) (rest : Bytes) (r : Reader)
    (hd : r.data = encVb x ++ rest) :
    (readVb 5 r 1 0).1 = (some x, none) ∧ (readVb 5 r 1 0).2.data = rest := by
  have hp := (readVb_pure 5 r 1 0).1
  rw [hd, pureVb_enc x h] at hp
  simp only [Prod.mk.injEq] at hp
  exact hp

/-- `width()` is the encoded length ("advance by exactly those bytes") -/
theorem C15_width (x : Nat) : vbWidth x = (encVb x).length := rfl

/-- on every byte sequence the two decoders agree on value or rejection -/
theorem C15_decoders_agree (d : Bytes) (r : Reader) (hd : r.data = d) :
    (∃ v w, decVb d = .ok v w ∧ (readVb 5 r 1 0).1 = (some v, none))
    ∨ ((∃ e, decVb d = .err e) ∧ ∃ e, (readVb 5 r 1 0).1 = (none, some e)) := by
  have hp := (readVb_pure 5 r 1 0).1
  have h1 : (readVb 5 r 1 0).1 = (pureVb 5 r.data r.fail 1 0).1 := by
    have := congrArg Prod.fst hp; simpa using this
  rw [h1, hd]
  exact decoders_agree_gen d 5 1 0 0 r.fail rfl (by omega) (by omega)

/-- a sequence with a fifth continuation byte is rejected by the in-memory decoder … -/
theorem C15_reject_long_mem (b1 b2 b3 b4 b5 : UInt8) (rest : Bytes)
    (h1 : 128 ≤ b1.toNat) (h2 : 128 ≤ b2.toNat) (h3 : 128 ≤ b3.toNat) (h4 : 128 ≤ b4.toNat) :
    decVb (b1 :: b2 :: b3 :: b4 :: b5 :: rest) = .err .sizeExceeded := by
  have n1 : ¬ b1.toNat < 128 := by omega
  have n2 : ¬ b2.toNat < 128 := by omega
  have n3 : ¬ b3.toNat < 128 := by omega
  have n4 : ¬ b4.toNat < 128 := by omega
  simp [decVb, decVbLoop, n1, n2, n3, n4]

/-- … and by the streaming decoder (by agreement) -/
theorem C15_reject_long_stream (b1 b2 b3 b4 b5 : UInt8) (rest : Bytes) (r : Reader)
    (hd : r.data = b1 :: b2 :: b3 :: b4 :: b5 :: rest)
    (h1 : 128 ≤ b1.toNat) (h2 : 128 ≤ b2.toNat) (h3 : 128 ≤ b3.toNat) (h4 : 128 ≤ b4.toNat) :
    ∃ e, (readVb 5 r 1 0).1 = (none, some e) := by
  rcases C15_decoders_agree _ r hd with ⟨v, w, hv, _⟩ | ⟨_, he⟩
  · rw [C15_reject_long_mem b1 b2 b3 b4 b5 rest h1 h2 h3 h4] at hv; simp at hv
  · exact he

/-- a sequence that ends on a continuation byte is rejected -/
theorem C15_reject_truncated (d : Bytes) (hall : ∀ b ∈ d, 128 ≤ b.toNat) : ∀ (m a : Nat),
    ∃ e, decVbLoop d m a = .err e := by
  induction d with
  | nil => intro m a; exact ⟨_, rfl⟩
  | cons b t ih =>
    intro m a
    simp only [decVbLoop]
    split
    · exact ⟨_, rfl⟩
    · have : ¬ b.toNat < 128 := by have := hall b (by simp); omega
      simp only [this, if_false]
      exact ih (fun c hc => hall c (by simp [hc])) _ _

/-- every decoded value is below 2^28, so no intermediate of the Go `uint` arithmetic can wrap -/
theorem C15_no_overflow (d : Bytes) (v w : Nat) (h : decVb d = .ok v w) : v < 268435456 :=
  decVbLoop_bound d 1 0 0 rfl (by omega) (by omega) v w h

/-- non-vacuity: the four size boundaries and the two rejections named in the property -/
example : encVb 127 = [0x7f] ∧ encVb 128 = [0x80, 0x01] ∧ encVb 16384 = [0x80, 0x80, 0x01]
    ∧ encVb 268435455 = [0xff, 0xff, 0xff, 0x7f] := by decide
example : decVb [0x80] = .err .missing ∧ decVb [0x80, 0x80, 0x80, 0x80, 0x01] = .err .sizeExceeded := by decide

end Mq
