import Proofs.FrameRead
/-!
# C08 — a stream that ends or fails inside a packet is reported, never papered over
-/
namespace Mq

/-- If the reader fails with `E = r.fail`, or the stream ends, after delivering any proper prefix
of a frame (`k` bytes, under any delivery schedule, the failure arriving with or after the last
bytes), ReadPacket returns no packet and an error; for a reader failure `errors.Is(err, E)` holds. -/
theorem C08_cut_reported (b0 : UInt8) (body : Bytes) (hn : body.length < 268435456) (k : Nat)
    (hk : k < (frameBytes b0 body).length) (r : Reader) (hd : r.data = (frameBytes b0 body).take k) :
    ∃ e, (readPacket r).1 = .err e ∧ (r.fail ≠ .eof → e.is r.fail = true) := by
  have h := (readPacket_pure r).1
  obtain ⟨got, hg⟩ := purePacket_cut b0 body hn r.fail k hk
  rw [hd] at h
  have h1 : (readPacket r).1 = (purePacket ((frameBytes b0 body).take k) r.fail).1 := by
    have := congrArg Prod.fst h; simpa using this
  rw [hg] at h1
  exact ⟨_, h1, fun hne => shortErr_is r.fail got hne⟩

/-- A stream that ends exactly on a frame boundary yields an error for which
`errors.Is(err, io.EOF)` holds. -/
theorem C08_boundary_eof (r : Reader) (hd : r.data = []) (hf : r.fail = .eof) :
    ∃ e, (readPacket r).1 = .err e ∧ e.is .eof = true := by
  have h := (readPacket_pure r).1
  rw [hd, hf] at h
  simp only [purePacket, Prod.mk.injEq] at h
  exact ⟨_, h.1, by simp [shortErr, Err.is]⟩

/-- and a reader failure on a frame boundary is passed through as well -/
theorem C08_boundary_error (r : Reader) (hd : r.data = []) :
    ∃ e, (readPacket r).1 = .err e ∧ (r.fail ≠ .eof → e.is r.fail = true) := by
  have h := (readPacket_pure r).1
  rw [hd] at h
  simp only [purePacket, Prod.mk.injEq] at h
  exact ⟨_, h.1, fun hne => shortErr_is r.fail [] hne⟩

/-- A packet is returned only if every byte of its frame was delivered: no proper prefix of a
frame makes ReadPacket return a packet. -/
theorem C08_packet_needs_all_bytes (b0 : UInt8) (body : Bytes) (hn : body.length < 268435456) (k : Nat)
    (hk : k < (frameBytes b0 body).length) (r : Reader) (hd : r.data = (frameBytes b0 body).take k) (q : Packet) :
    (readPacket r).1 ≠ .pkt q := by
  obtain ⟨e, he, _⟩ := C08_cut_reported b0 body hn k hk r hd
  rw [he]; simp

/-- **anywhere in a session**: after any number of complete frames (valid packets or not), a stream
that ends or fails inside the next frame — after any proper prefix of it, incl. none of it — makes
the next `ReadPacket` return no packet and an error, and for a reader failure `errors.Is(err, E)`
holds. The frames before the cut are still delivered, in order. -/
theorem C08_cut_after_frames (fs : List (UInt8 × Bytes)) (hall : ∀ f ∈ fs, f.2.length < 268435456)
    (b0 : UInt8) (body : Bytes) (hn : body.length < 268435456) (k : Nat) (hk : k < (frameBytes b0 body).length)
    (r : Reader) (hd : r.data = fs.flatMap (fun f => frameBytes f.1 f.2) ++ (frameBytes b0 body).take k) :
    (readAll fs.length r).1 = fs.map (fun f => frameOutcome f.1 f.2)
      ∧ ∃ e, (readPacket (readAll fs.length r).2).1 = .err e ∧ (r.fail ≠ .eof → e.is r.fail = true) := by
  have h := readAll_frames fs r _ hall hd
  obtain ⟨e, he, hi⟩ := C08_cut_reported b0 body hn k hk (readAll fs.length r).2 h.2.1
  exact ⟨h.1, e, he, by rw [h.2.2] at hi; exact hi⟩

/-- non-vacuity: a PINGREQ and a PUBACK, then a PUBLISH cut after 3 bytes when the transport fails -/
example :
    let r : Reader := { data := [0xc0, 0x00, 0x40, 0x02, 0x00, 0x01, 0x30, 0x05, 0x00], sched := List.replicate 12 1,
                        fail := .custom 7 }
    (readAll 2 r).1 = [.pkt (.pingreq { fixed := 0xc0 }), .pkt (.puback { fixed := 0x40, packetID := 1 })]
      ∧ (readPacket (readAll 2 r).2).1 = .err (.io (.custom 7)) := by decide

/-- non-vacuity: a PUBLISH frame cut after 5 of its 7 bytes, delivered in two chunks, the
transport error arriving together with the last bytes -/
example :
    let r : Reader := { data := [0x30, 0x05, 0x00, 0x01, 0x61], sched := [2, 3], eofWithData := true, fail := .custom 7 }
    (readPacket r).1 = .err (.io (.custom 7)) := by decide
example : (frameBytes 0x30 [0x00, 0x01, 0x61, 0x00, 0x62]).take 5 = [0x30, 0x05, 0x00, 0x01, 0x61] := by decide

end Mq
