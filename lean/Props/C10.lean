import Proofs.FillPackets
import Proofs.EncodeFields
import Proofs.RenderInv
import Mq.Stream
/-!
# C10 — WriteTo emits one complete frame and reports its size truthfully

The model of `WriteTo` (`Mq.Stream.writeTo`) runs the Go-shaped two-pass encoder of `Mq.Fill`:
a dry run `fill(_LEN, 0)` for the size, `fill` again into a buffer of that size, one `Write`.
`Packet.encode` (list append) is the reference the two passes are proved to agree with.
-/
namespace Mq

/-- **dry run and real pass agree, for every packet**: the buffer `WriteTo` builds is `encode p`,
and `width()` (what `String()` prints, what `make` allocates) is its length — for API-built,
malformed-but-constructible and decoded packets alike (no hypothesis on `p`) -/
theorem C10_two_pass (p : Packet) : p.encodeG = p.encode ∧ p.widthG = sizeOf? p.encode :=
  ⟨Packet.encodeG_eq p, Packet.widthG_eq p⟩

/-- a frame: first byte, remaining length, that many bytes -/
theorem C10_frame_shape (p : Packet) (bs : Bytes) (h : p.encode = .bytes bs) :
    ∃ body, bs = p.fixed :: (encVb body.length ++ body)
      ∧ bs.length = 1 + (encVb body.length).length + body.length := by
  have key : ∀ (f : UInt8) (body : Bytes), frame f body = bs →
      ∃ body, bs = f :: (encVb body.length ++ body) ∧ bs.length = 1 + (encVb body.length).length + body.length := by
    intro f body e; subst e; exact ⟨body, rfl, by simp [frame]; omega⟩
  cases p with
  | undefined q => simp [Packet.encode] at h
  | connect q =>
    simp only [Packet.encode] at h
    cases he : q.encode? with
    | none => simp [he] at h
    | some e =>
      simp only [he, Packet.Enc.bytes.injEq] at h; subst h
      simp only [Connect.encode?, Option.map_eq_some_iff] at he
      obtain ⟨body, _, rfl⟩ := he
      exact key _ body rfl
  | connack q => simp only [Packet.encode, Packet.Enc.bytes.injEq] at h; exact key _ q.body h
  | publish q => simp only [Packet.encode, Packet.Enc.bytes.injEq] at h; exact key _ q.body h
  | puback q | pubrec q | pubrel q | pubcomp q =>
    simp only [Packet.encode, Packet.Enc.bytes.injEq] at h; exact key _ q.body h
  | subscribe q => simp only [Packet.encode, Packet.Enc.bytes.injEq] at h; exact key _ q.body h
  | suback q | unsuback q => simp only [Packet.encode, Packet.Enc.bytes.injEq] at h; exact key _ q.body h
  | unsubscribe q => simp only [Packet.encode, Packet.Enc.bytes.injEq] at h; exact key _ q.body h
  | pingreq q | pingresp q =>
    simp only [Packet.encode, Packet.Enc.bytes.injEq] at h
    exact key q.fixed [] (by simpa [frame, Ping.encode] using h)
  | disconnect q => simp only [Packet.encode, Packet.Enc.bytes.injEq] at h; exact key _ q.body h
  | auth q => simp only [Packet.encode, Packet.Enc.bytes.injEq] at h; exact key _ q.body h

/-- **WriteTo, any writer**: exactly one `Write`, offered the whole frame and nothing else; the
returned count and error are the writer's own — so a writer that accepts only `k` bytes and reports
an error yields `(k, that error)`, one that fails before writing `(0, that error)`, one that
succeeds `(frame length, nil)` -/
theorem C10_writeTo (p : Packet) (bs : Bytes) (h : p.encode = .bytes bs) (w : Writer) :
    (writeTo p w).calls = [bs] ∧ (writeTo p w).n = (w.write bs).1 ∧ (writeTo p w).err = (w.write bs).2
      ∧ (writeTo p w).panicked = false := by
  simp [writeTo, Packet.encodeG_eq, h]

/-- the count on success is the frame length = 1 + size of the remaining-length field + remaining length -/
theorem C10_count (p : Packet) (bs : Bytes) (h : p.encode = .bytes bs) :
    (writeTo p {}).n = bs.length ∧ (writeTo p {}).err = none ∧ p.widthG = some bs.length := by
  simp [writeTo, Packet.encodeG_eq, Packet.widthG_eq, h, Writer.write, sizeOf?]

/-- short writes: accepting `k` bytes below the frame length returns `k` and the error -/
theorem C10_short_write (p : Packet) (bs : Bytes) (h : p.encode = .bytes bs) (k t : Nat) (hk : k < bs.length) :
    (writeTo p { accept := some k, err := some t }).n = k
      ∧ (writeTo p { accept := some k, err := some t }).err = some (.io (.custom t)) := by
  simp [writeTo, Packet.encodeG_eq, h, Writer.write]; omega

/-- `Undefined` cannot be serialised: an error and no `Write` at all -/
theorem C10_undefined (u : Undefined) (w : Writer) :
    (writeTo (.undefined u) w).calls = [] ∧ (writeTo (.undefined u) w).n = 0
      ∧ (writeTo (.undefined u) w).err = some .cannotWrite := by
  simp [writeTo, Packet.encodeG, Packet.fillG]

/-- every one of the 15 defined types does serialise, except a CONNECT with the will flag set and
no will attached (which no constructor, setter or decoder produces: `C19_total`'s invariant) -/
theorem C10_defined_types (p : Packet) (hk : p.kind ≠ 0) (hi : p.RenderInv) : ∃ bs, p.encode = .bytes bs := by
  cases p with
  | undefined q => simp [Packet.kind] at hk
  | connect q =>
    simp only [Packet.encode]
    cases he : q.encode? with
    | some e => exact ⟨e, rfl⟩
    | none =>
      exfalso
      simp only [Packet.RenderInv, Connect.WillInv] at hi
      simp only [Connect.encode?, Connect.body?, Connect.payload?, Option.map_eq_none_iff] at he
      by_cases hf : has q.flags Connect.fWillFlag = true
      · have := hi hf
        cases hw : q.will with
        | none => simp [hw] at this
        | some w => simp [hf, hw] at he
      · simp [hf] at he
  | _ => exact ⟨_, rfl⟩

/-- **the size `String()` prints** is `width()`, the dry run of the Go-shaped filler, which is the
frame length: every `String()` of a serialisable packet has the form `… <frame length> bytes …` -/
theorem C10_string_size (p : Packet) (bs : Bytes) (h : p.encode = .bytes bs) (t : Bytes) (ht : p.string = .ok t) :
    p.widthG = some bs.length ∧ ∃ pre suf, t = pre ++ (decStr bs.length ++ b!" bytes") ++ suf := by
  have hw : p.widthG = some bs.length := by rw [Packet.widthG_eq, h]; rfl
  refine ⟨hw, ?_⟩
  cases p with
  | undefined q => simp [Packet.encode] at h
  | connect q =>
    simp only [Packet.widthG, Packet.fillG] at hw
    cases hf : q.fillG? with
    | none => simp [hf] at hw
    | some f =>
      simp only [hf, Option.some.injEq] at hw
      simp only [Packet.string, hf, Rend.ok.injEq, hw] at ht
      subst ht
      exact ⟨_, [], (List.append_nil _).symm⟩
  | connack q =>
    simp only [Packet.widthG, Packet.fillG, Option.some.injEq] at hw
    simp only [Packet.string, hw] at ht
    obtain ⟨suf, hs⟩ := withReason_shape _ _ _ _ ht
    exact ⟨_, suf, hs⟩
  | publish q =>
    simp only [Packet.widthG, Packet.fillG, Option.some.injEq] at hw
    simp only [Packet.string, hw, Rend.ok.injEq] at ht
    obtain ⟨suf, hs⟩ := withForm_shape _ _ _ ht
    exact ⟨_, suf, hs⟩
  | puback q | pubrel q =>
    simp only [Packet.widthG, Packet.fillG, Option.some.injEq] at hw
    simp only [Packet.string, hw] at ht
    obtain ⟨suf, hs⟩ := withReason_shape _ _ _ _ ht
    exact ⟨_, suf, hs⟩
  | pubrec q | pubcomp q =>
    simp only [Packet.widthG, Packet.fillG, Option.some.injEq] at hw
    simp only [Packet.string, hw] at ht
    cases hc : reasonCodeStr q.reasonCode with
    | ok cs =>
      simp only [hc, Rend.bind, Rend.ok.injEq] at ht
      subst ht
      exact ⟨_, [], (List.append_nil _).symm⟩
    | unmodelled => simp [hc, Rend.bind] at ht
    | panic => simp [hc, Rend.bind] at ht
  | subscribe q =>
    simp only [Packet.widthG, Packet.fillG, Option.some.injEq] at hw
    simp only [Packet.string, hw, Rend.ok.injEq] at ht
    obtain ⟨suf, hs⟩ := withForm_shape _ _ _ ht
    exact ⟨_, suf, hs⟩
  | unsubscribe q =>
    simp only [Packet.widthG, Packet.fillG, Option.some.injEq] at hw
    simp only [Packet.string, hw, Rend.ok.injEq] at ht
    subst ht
    exact ⟨_, [], (List.append_nil _).symm⟩
  | suback q | unsuback q | pingreq q | pingresp q | auth q =>
    simp only [Packet.widthG, Packet.fillG, Option.some.injEq] at hw
    simp only [Packet.string, hw, Rend.ok.injEq] at ht
    subst ht
    exact ⟨_, [], (List.append_nil _).symm⟩
  | disconnect q =>
    simp only [Packet.widthG, Packet.fillG, Option.some.injEq] at hw
    simp only [Packet.string, hw] at ht
    obtain ⟨suf, hs⟩ := withReason_shape _ _ _ _ ht
    exact ⟨_, suf, hs⟩

/-- non-vacuity: a DISCONNECT whose remaining length needs two bytes (a 130-byte reason string);
frame = 1 + 2 + 136 bytes and `String()` says so -/
example :
    let p := Packet.disconnect { reasonString := List.replicate 130 0x61 }
    p.widthG = some 139 ∧ sizeOf? p.encode = some 139
    ∧ (match p.encode with | .bytes bs => bs.take 3 | _ => []) = [0xe0, 0x88, 0x01]
    ∧ p.string = .ok (b!"DISCONNECT ---- 139 bytes") := by
  decide +kernel

end Mq
