import Proofs.FrameRead
/-!
# C06 — ReadPacket consumes exactly one frame from the stream

`frameBytes b0 body` is a frame: first byte, minimal remaining length, body. `frameOutcome b0 body`
is what ReadPacket returns for it (packet or rejection) — a function of the frame's bytes only.
-/
namespace Mq

/-- A call that finds a complete frame at the head of the stream — whatever follows it, however
the bytes are delivered — consumes exactly the frame's `1 + |remaining length| + remaining length`
bytes, both when it returns a packet and when it rejects the content, and its result depends on
those bytes only. -/
theorem C06_consumed (r : Reader) (b0 : UInt8) (body rest : Bytes) (hn : body.length < 268435456)
    (hd : r.data = frameBytes b0 body ++ rest) :
    (readPacket r).2.data = rest
      ∧ r.data.length - (readPacket r).2.data.length = 1 + (encVb body.length).length + body.length
      ∧ (readPacket r).1 = frameOutcome b0 body := by
  have h := (readPacket_pure r).1
  rw [hd, purePacket_frame b0 body rest hn] at h
  simp only [Prod.mk.injEq] at h
  refine ⟨h.2, ?_, h.1⟩
  rw [h.2, hd, List.length_append, frameBytes_length]
  omega

/-- Any concatenation of frames is returned packet by packet, in order, by successive calls;
bytes after the frames are never touched or interpreted. -/
theorem C06_sequence (fs : List (UInt8 × Bytes)) (tail : Bytes) (r : Reader)
    (hall : ∀ f ∈ fs, f.2.length < 268435456)
    (hd : r.data = fs.flatMap (fun f => frameBytes f.1 f.2) ++ tail) :
    (readAll fs.length r).1 = fs.map (fun f => frameOutcome f.1 f.2)
      ∧ (readAll fs.length r).2.data = tail :=
  let h := readAll_frames fs r tail hall hd
  ⟨h.1, h.2.1⟩

/-- … followed by io.EOF when the stream ends after the last frame. -/
theorem C06_then_eof (fs : List (UInt8 × Bytes)) (r : Reader) (hall : ∀ f ∈ fs, f.2.length < 268435456)
    (hd : r.data = fs.flatMap (fun f => frameBytes f.1 f.2)) (hf : r.fail = .eof) :
    ∃ e, (readPacket (readAll fs.length r).2).1 = .err e ∧ e.is .eof = true := by
  have h := readAll_frames fs r [] hall (by simpa using hd)
  have hp := (readPacket_pure (readAll fs.length r).2).1
  rw [h.2.1, h.2.2, hf] at hp
  simp only [purePacket, Prod.mk.injEq] at hp
  exact ⟨_, hp.1, by simp [shortErr, Err.is]⟩

/-- a frame of remaining length 0 is a frame like any other: two bytes consumed -/
theorem C06_zero_length (r : Reader) (b0 : UInt8) (rest : Bytes) (hd : r.data = b0 :: 0 :: rest) :
    (readPacket r).2.data = rest ∧ (readPacket r).1 = .pkt (Packet.dispatch b0) := by
  have := C06_consumed r b0 [] rest (by simp) (by simpa [frameBytes, encVb, encVbAux] using hd)
  exact ⟨this.1, by simpa [frameOutcome] using this.2.2⟩

/-- non-vacuity: PINGREQ, a content-malformed CONNACK (unknown property 0x7f) and a PUBACK, with
two trailing bytes, under a one-byte-at-a-time schedule -/
example :
    let r : Reader := { data := [0xc0, 0x00, 0x20, 0x05, 0x00, 0x00, 0x02, 0x7f, 0x00, 0x40, 0x02, 0x00, 0x01, 0xaa, 0xbb],
                        sched := List.replicate 20 1 }
    (readAll 3 r).1 = [.pkt (.pingreq { fixed := 0xc0 }), .err (.unknownProp 0x7f),
                        .pkt (.puback { fixed := 0x40, packetID := 1 })]
      ∧ (readAll 3 r).2.data = [0xaa, 0xbb] := by decide

end Mq
