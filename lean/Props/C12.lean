import Proofs.Setters
/-!
# C12 — setters and accessors obey last-write-wins and keep derived flags in step

The model's scalar setters are record updates `{ p with field := v }` (Mq.Ops): last-write-wins and
"fields not named are unchanged" hold by construction, and the correspondence run compares every
accessor after every step of generated histories with the Go code. The theorems below are about the
parts that are *derived*: flag bytes maintained by bit operations.
-/
namespace Mq

/-- **CONNECT flags follow the values, over every setter history** from `NewConnect()`:
user-name and password flags are set exactly when the value is non-empty; the will flag is set
exactly when a will is attached; will QoS and will retain mirror the message passed to the last
`SetWill`; the reserved bit stays clear. -/
theorem C12_connect_flags (ops : List SetOp) (q : Connect) (h : Connect.new.applyAll ops = some q) :
    has q.flags 128 = decide (q.username ≠ []) ∧ has q.flags 64 = decide (q.password ≠ [])
      ∧ has q.flags 4 = q.will.isSome ∧ has q.flags 1 = false
      ∧ ∀ w, q.will = some w → has q.flags 32 = w.retain ∧ q.willQoS = (if w.qos.toNat < 3 then w.qos else 0) :=
  let i := Connect.applyAll_inv ops Connect.new q h Connect.new_inv
  ⟨i.user, i.pass, i.will, i.reserved, i.mirror⟩

/-- one step: any single setter call preserves that relation (so it also holds for packets that
were decoded and then modified, whenever it held before) -/
theorem C12_connect_step (p q : Connect) (op : SetOp) (h : p.apply op = some q) (hi : p.FlagsInv) : q.FlagsInv :=
  Connect.apply_inv p q op h hi

/-- CleanStart is last-write-wins, including the transition back to false -/
theorem C12_clean_start (p : Connect) (v : Bool) : has (p.setCleanStart v).flags Connect.fCleanStart = v := by
  simp only [Connect.setCleanStart, Connect.fCleanStart]
  rw [has_toggle p.flags v 2 2 mem_masks_2 mem_masks_2]; simp

/-- CONNACK's session-present flag equals the last value set — both truth values -/
theorem C12_session_present (p : ConnAck) (v : Bool) : (p.setSessionPresent v).sessionPresent = v := by
  simp only [ConnAck.setSessionPresent, ConnAck.sessionPresent]
  rw [has_toggle p.flags v 1 1 mem_masks_1 mem_masks_1]; simp

/-- … and no other CONNACK flag bit is touched -/
theorem C12_session_present_frame (p : ConnAck) (v : Bool) (m : UInt8) (hm : m ∈ flagMasks) (hne : m ≠ 1) :
    has (p.setSessionPresent v).flags m = has p.flags m := by
  simp only [ConnAck.setSessionPresent]
  rw [has_toggle p.flags v 1 m mem_masks_1 hm]
  simp [Ne.symm hne]

/-- PUBLISH: DUP and RETAIN are last-write-wins and disturb neither each other, nor QoS, nor the type nibble -/
theorem C12_publish_dup_retain (p : Publish) (v : Bool) :
    (p.setDuplicate v).duplicate = v ∧ (p.setDuplicate v).retain = p.retain ∧ (p.setDuplicate v).qos = p.qos
    ∧ (p.setRetain v).retain = v ∧ (p.setRetain v).duplicate = p.duplicate ∧ (p.setRetain v).qos = p.qos
    ∧ (p.setDuplicate v).fixed &&& 0xf0 = p.fixed &&& 0xf0 ∧ (p.setRetain v).fixed &&& 0xf0 = p.fixed &&& 0xf0 := by
  have := publish_bits_table ⟨p.fixed.toNat, p.fixed.toNat_lt⟩ v
  simp only [UInt8.ofNat_toNat, Publish.setDuplicate, Publish.setRetain, Publish.duplicate, Publish.retain, Publish.qos] at this ⊢
  exact this

/-- PUBLISH: `SetQoS(v)` makes `QoS()` return `v` for 0…3 (any other value clears the bits) and
leaves DUP, RETAIN and the type nibble alone -/
theorem C12_publish_qos (p : Publish) (v : UInt8) :
    (p.setQoS v).qos = (if v.toNat ≤ 3 then v else 0)
    ∧ (p.setQoS v).duplicate = p.duplicate ∧ (p.setQoS v).retain = p.retain
    ∧ (p.setQoS v).fixed &&& 0xf0 = p.fixed &&& 0xf0 := by
  by_cases h : v.toNat ≤ 4
  · have := publish_qos_table ⟨p.fixed.toNat, p.fixed.toNat_lt⟩ ⟨v.toNat, by omega⟩
    have hv : UInt8.ofNat v.toNat = v := by simp
    simp only [UInt8.ofNat_toNat, hv] at this
    simp only [Publish.setQoS, Publish.duplicate, Publish.retain, Publish.qos] at this ⊢
    exact this
  · have h1 : v ≠ 1 := by intro e; subst e; simp at h
    have h2 : v ≠ 2 := by intro e; subst e; simp at h
    have h3 : v ≠ 3 := by intro e; subst e; simp at h
    rw [setQoS_other p v h1 h2 h3]
    have := publish_qos_table ⟨p.fixed.toNat, p.fixed.toNat_lt⟩ ⟨4, by omega⟩
    have h3' : ¬ v.toNat ≤ 3 := by omega
    have h4 : ¬ ((4 : Nat) ≤ 3) := by decide
    simp only [UInt8.ofNat_toNat, h3', h4, if_false, Publish.setQoS, Publish.duplicate, Publish.retain, Publish.qos] at this ⊢
    exact this

/-- non-vacuity: a history with a will, credentials set and reset, and the clean-start flag toggled -/
example :
    let w : Publish := (Publish.new.setQoS 2).setRetain true
    let ops : List SetOp := [.setUsername [0x75], .setPassword [0x70], .setWill w, .setCleanStart true,
                             .setUsername [], .setCleanStart false, .setKeepAlive 7]
    (Connect.new.applyAll ops).map (fun q => (q.flags, q.keepAlive)) = some (0x74, 7) := by decide

end Mq
