import Proofs.RenderTotal
import Proofs.Tie.Render
/-!
# C19 — String and Dump are total on every packet value

`Packet.string` / `Packet.dump` (Mq.Render) are the Go renderers with every partial Go operation
as an explicit `.panic`: the nil-will dereference behind CONNECT's size computation, and the
`name[idx[i]:idx[i+1]]` slicing of the stringer tables of `ReasonCode.String`. There is no loop
whose exit depends on data, so "never blocks" is the absence of a `hang` outcome by construction.
-/
namespace Mq

/-! `Packet.RenderInv` (Proofs.RenderInv) is the only state a renderer depends on for not panicking:
a CONNECT with the will flag set has a will attached (`Connect.WillInv`); no condition on any other type. -/

/-- `ReasonCode(b).String()` is defined for all 256 byte values (complete kernel-checked
enumeration in `reasonCode_table`: the stringer's table slicing never leaves its arrays) -/
theorem C19_reason_code (c : UInt8) : ∃ text, reasonCodeStr c = .ok text := reasonCode_defined c

/-- header flags, CONNECT flags, CONNACK flags and subscription options: the renderers are total
functions of the byte, of fixed shape (type name + 4 flag characters; 8 flag characters) -/
theorem C19_flag_renderers (b : UInt8) (f : Bytes) :
    (firstByteStr b).length = (typeName b).length + 5 ∧ (connectFlagsStr b).length = 8
    ∧ (connAckFlagsStr b).length = 8 ∧ (topicFilterStr ⟨f, b⟩).length = f.length + 9 := by
  simp [firstByteStr, connectFlagsStr, connAckFlagsStr, topicFilterStr]

/-- **String() never panics** on a packet that satisfies the invariant -/
theorem C19_string_total (p : Packet) (h : p.RenderInv) : p.string ≠ .panic := by
  cases p with
  | connect q =>
    simp only [Packet.RenderInv, Connect.WillInv] at h
    simp only [Packet.string]
    cases hg : q.fillG? with
    | some e => simp
    | none =>
      exfalso
      have he := (Connect.fillG_sound q).1.mp hg
      simp only [Connect.encode?, Connect.body?, Connect.payload?, Option.map_eq_none_iff] at he
      by_cases hf : has q.flags Connect.fWillFlag = true
      · have := h hf
        cases hw : q.will with
        | none => simp [hw] at this
        | some w => simp [hf, hw] at he
      · simp [hf] at he
  | pubrec q | pubcomp q =>
    simp only [Packet.string]
    obtain ⟨t, ht⟩ := C19_reason_code q.reasonCode
    rw [ht]; simp [Rend.bind]
  | connack q | puback q | pubrel q | disconnect q => simp only [Packet.string]; exact withReason_ne_panic _ _ _
  | _ => simp [Packet.string]

/-- **Dump never panics**, on any packet value at all (a nil will is skipped, an empty filter list
prints nothing, `Undefined` and the pings have no `dump` method) -/
theorem C19_dump_total (p : Packet) : p.dump ≠ .panic := by
  cases p with
  | connect q =>
    simp only [Packet.dump, Connect.dump]
    have hu := dumpUserProps_ne_panic q.userProps
    cases hw : q.will with
    | none =>
      simp only [Rend.bind]
      cases hd : dumpUserProps q.userProps <;> simp_all
    | some w =>
      have := Publish.dump_ne_panic w
      cases hd : w.dump <;> simp_all [Rend.bind]
      cases hd2 : dumpUserProps q.userProps <;> simp_all
  | publish q => exact Publish.dump_ne_panic q
  | connack q =>
    simp only [Packet.dump, ConnAck.dump]
    apply concat_ne_panic
    intro r hr
    simp only [List.mem_cons, List.mem_nil_iff, or_false] at hr
    rcases hr with h | h | h | h | h | h | h | h | h | h | h | h | h | h | h | h | h | h | h <;> subst h <;>
      first | exact lineQ_ne_panic _ _ | exact reasonLine_ne_panic _ _ | exact dumpUserProps_ne_panic _ | simp
  | puback q | pubrel q | pubrec q | pubcomp q =>
    simp only [Packet.dump, Ack.dump]
    apply concat_ne_panic
    intro r hr
    simp only [List.mem_cons, List.mem_nil_iff, or_false] at hr
    rcases hr with h | h | h | h <;> subst h <;>
      first | exact reasonLine_ne_panic _ _ | exact dumpUserProps_ne_panic _ | simp
  | subscribe q =>
    simp only [Packet.dump, Subscribe.dump]
    apply concat_ne_panic
    intro r hr
    simp only [List.mem_cons, List.mem_nil_iff, or_false] at hr
    rcases hr with h | h | h | h <;> subst h <;> first | exact dumpUserProps_ne_panic _ | simp
  | unsubscribe q =>
    simp only [Packet.dump, Unsubscribe.dump]
    apply concat_ne_panic
    intro r hr
    simp only [List.mem_cons, List.mem_nil_iff, or_false] at hr
    rcases hr with h | h | h <;> subst h <;> first | exact dumpUserProps_ne_panic _ | simp
  | suback q | unsuback q =>
    simp only [Packet.dump, SubAck.dump]
    apply concat_ne_panic
    intro r hr
    simp only [List.mem_cons, List.mem_nil_iff, or_false] at hr
    rcases hr with h | h | h | h <;> subst h <;> first | exact dumpUserProps_ne_panic _ | simp
  | disconnect q =>
    simp only [Packet.dump, Disconnect.dump]
    apply concat_ne_panic
    intro r hr
    simp only [List.mem_cons, List.mem_nil_iff, or_false] at hr
    rcases hr with h | h <;> subst h <;> first | exact reasonLine_ne_panic _ _ | exact dumpUserProps_ne_panic _
  | auth q =>
    simp only [Packet.dump, Auth.dump]
    apply concat_ne_panic
    intro r hr
    simp only [List.mem_cons, List.mem_nil_iff, or_false] at hr
    rcases hr with h | h | h | h | h <;> subst h <;>
      first | exact lineQ_ne_panic _ _ | exact reasonLine_ne_panic _ _ | exact dumpUserProps_ne_panic _
  | _ => simp [Packet.dump]

/-! ## every packet value a program can hold satisfies the invariant -/

/-- zero values of the exported types and the constructors -/
theorem C19_inv_zero_new (k : Nat) : (Packet.zero k).RenderInv ∧ (Packet.new k).RenderInv := by
  constructor
  · unfold Packet.zero; split <;> simp [Packet.RenderInv, Connect.WillInv, has, Connect.fWillFlag]
  · unfold Packet.new; split <;> simp [Packet.RenderInv, Connect.WillInv, has, Connect.fWillFlag, Connect.new]

/-- packets under construction: every public setter preserves it -/
theorem C19_inv_setter (p q : Packet) (op : SetOp) (h : p.apply op = some q) (hi : p.RenderInv) : q.RenderInv := by
  cases p <;> simp only [Packet.apply, Option.map_eq_some_iff] at h <;>
    first
      | (obtain ⟨x, hx, rfl⟩ := h
         first | exact Connect.apply_will_inv _ x op hx hi | trivial)
      | (simp at h)

/-- decoded packets, including failed and malformed-but-accepted decodes: `UnmarshalBinary` on any
bytes, whatever its outcome, leaves the invariant in place (the will is allocated as soon as the
flag byte says so, before anything else is read) -/
theorem C19_inv_decode (p : Packet) (d : Bytes) : (p.unmarshal d).1.RenderInv :=
  Packet.unmarshal_renderInv p d

/-- **C19** for every reachable packet value: zero value or constructor, then any interleaving of
setter calls and decodes of arbitrary bytes -/
inductive Reachable : Packet → Prop
  | zero (k : Nat) : Reachable (Packet.zero k)
  | new (k : Nat) : Reachable (Packet.new k)
  | set (p q : Packet) (op : SetOp) : Reachable p → p.apply op = some q → Reachable q
  | decode (p : Packet) (d : Bytes) : Reachable p → Reachable (p.unmarshal d).1
  | read (r : Reader) (q : Packet) : (readPacket r).1 = .pkt q → Reachable q

theorem C19_total (p : Packet) (h : Reachable p) : p.string ≠ .panic ∧ p.dump ≠ .panic := by
  refine ⟨C19_string_total p ?_, C19_dump_total p⟩
  induction h with
  | zero k => exact (C19_inv_zero_new k).1
  | new k => exact (C19_inv_zero_new k).2
  | set p q op _ ha ih => exact C19_inv_setter p q op ha ih
  | decode p d _ _ => exact C19_inv_decode p d
  | read r q hq => exact readPacket_renderInv r q hq

/-- non-vacuity: a CONNECT decoded from bytes that set the will flag and then run out — accepted
packets aside, even this half-decoded value renders -/
example : ((Packet.zero 1).unmarshal [0, 4, 0x4d, 0x51, 0x54, 0x54, 5, 0x04]).1.string ≠ .panic :=
  (C19_total _ (.decode _ _ (.zero 1))).1

end Mq
