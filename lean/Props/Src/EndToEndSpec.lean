import Proofs.Tie.Stream
import Props.C03
/-!
# Props.Src.EndToEndSpec — C03 stated about the `ReadPacket` translated from the source

As `Props/Src/EndToEnd.lean`, kept apart because `Props.C03` rests on regenerated source facts of its own.
Built by a check only when the `Stream` family was rendered completely.
-/
namespace Mq

/-- **C03**: every legal abstract packet of the specification, unparsed, is accepted with the specification's view -/
theorem C03_accepts_valid_from_source (sp : Spec.SPacket) (h : sp.Legal) (r : Reader) (rest : Bytes)
    (hd : r.data = sp.unparse ++ rest) :
    ∃ q, (Gen.readPacket r).1 = .pkt q ∧ q.kind = sp.kind ∧ q.view = sp.view ∧ (Gen.readPacket r).2.data = rest := by
  rw [Tie.Stream.readPacket_eq]; exact C03_accepts_valid sp h r rest hd

end Mq
