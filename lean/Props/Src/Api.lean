import Proofs.Tie.Api
/-!
# Props.Src.Api — the API model and the accessor view are the translated source (serves C12)

Built by a check only when the source translator rendered every function of this family
(`Mq/Generated/status.json`) and the generated module type-checks against the model's vocabulary;
otherwise the family's source tie is *unavailable* in that run (recorded in the evidence) and the
model is tied to the code by the correspondence run alone. When it is built and a theorem here no
longer checks, that is a broken obligation like any other.
-/
namespace Mq

/-- **the API these theorems are about is the one in /repo's source**: every exported `Set…`/`Add…`
method of every packet type, translated statement by statement on every run
(`Mq/Generated/Api.lean`), is the hand-written `apply` of `Mq/Ops.lean`, for every call -/
theorem C12_api_from_source :
    (∀ p op, Gen.Connect.api p op = p.apply op) ∧ (∀ p op, Gen.ConnAck.api p op = p.apply op)
    ∧ (∀ p op, Gen.Publish.api p op = p.apply op) ∧ (∀ p op, Gen.PubAck.api p op = p.apply op)
    ∧ (∀ p op, Gen.PubRec.api p op = p.apply op) ∧ (∀ p op, Gen.PubRel.api p op = p.apply op)
    ∧ (∀ p op, Gen.PubComp.api p op = p.apply op) ∧ (∀ p op, Gen.Subscribe.api p op = p.apply op)
    ∧ (∀ p op, Gen.SubAck.api p op = p.apply op) ∧ (∀ p op, Gen.Unsubscribe.api p op = p.apply op)
    ∧ (∀ p op, Gen.UnsubAck.api p op = p.apply op) ∧ (∀ p op, Gen.Disconnect.api p op = p.apply op)
    ∧ (∀ p op, Gen.Auth.api p op = p.apply op)
    ∧ Gen.untranslatedSetters = [] ∧ Gen.unmodelledSetters = [] ∧ Gen.untranslatedAccessors = [] :=
  ⟨Tie.Api.connect_api, Tie.Api.connAck_api, Tie.Api.publish_api, Tie.Api.pubAck_api, Tie.Api.pubRec_api,
   Tie.Api.pubRel_api, Tie.Api.pubComp_api, Tie.Api.subscribe_api, Tie.Api.subAck_api, Tie.Api.unsubscribe_api,
   Tie.Api.unsubAck_api, Tie.Api.disconnect_api, Tie.Api.auth_api, Tie.Api.complete.1, Tie.Api.complete.2.1, Tie.Api.complete.2.2⟩

/-- **the accessor values the theorems speak of are those of /repo's accessors**: every exported
accessor (`KeepAlive()`, `ReasonString()`, `QoS()`, …), translated from its source on every run,
is the entry of that name in the model's `view` — the observation all round-trip, decode and setter
theorems are stated over -/
theorem C12_accessors_from_source :
    (∀ (p : Connect), ∀ kv ∈ Gen.Connect.accessors p, kv ∈ p.view) ∧ (∀ (p : ConnAck), ∀ kv ∈ Gen.ConnAck.accessors p, kv ∈ p.view)
    ∧ (∀ (p : Publish), ∀ kv ∈ Gen.Publish.accessors p, kv ∈ p.view) ∧ (∀ (p : Ack), ∀ kv ∈ Gen.PubAck.accessors p, kv ∈ p.view)
    ∧ (∀ (p : Ack), ∀ kv ∈ Gen.PubRec.accessors p, kv ∈ p.view) ∧ (∀ (p : Ack), ∀ kv ∈ Gen.PubRel.accessors p, kv ∈ p.view)
    ∧ (∀ (p : Ack), ∀ kv ∈ Gen.PubComp.accessors p, kv ∈ p.view) ∧ (∀ (p : Subscribe), ∀ kv ∈ Gen.Subscribe.accessors p, kv ∈ p.view)
    ∧ (∀ (p : SubAck), ∀ kv ∈ Gen.SubAck.accessors p, kv ∈ p.view) ∧ (∀ (p : Unsubscribe), ∀ kv ∈ Gen.Unsubscribe.accessors p, kv ∈ p.view)
    ∧ (∀ (p : SubAck), ∀ kv ∈ Gen.UnsubAck.accessors p, kv ∈ p.view) ∧ (∀ (p : Disconnect), ∀ kv ∈ Gen.Disconnect.accessors p, kv ∈ p.view)
    ∧ (∀ (p : Auth), ∀ kv ∈ Gen.Auth.accessors p, kv ∈ p.view) ∧ (∀ (p : Undefined), ∀ kv ∈ Gen.Undefined.accessors p, kv ∈ p.view) :=
  ⟨Tie.Api.connect_accessors, Tie.Api.connAck_accessors, Tie.Api.publish_accessors, Tie.Api.pubAck_accessors,
   Tie.Api.pubRec_accessors, Tie.Api.pubRel_accessors, Tie.Api.pubComp_accessors, Tie.Api.subscribe_accessors,
   Tie.Api.subAck_accessors, Tie.Api.unsubscribe_accessors, Tie.Api.unsubAck_accessors, Tie.Api.disconnect_accessors,
   Tie.Api.auth_accessors, Tie.Api.undefined_accessors⟩

end Mq
