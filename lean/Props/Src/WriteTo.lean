import Proofs.Tie.WriteTo
/-!
# Props.Src.WriteTo — the frame writer of every packet type has the shape the model gives it (serves C10)

Built by a check only when the translator rendered the family completely (availability policy of `Props/Src`).
-/
namespace Mq

/-- **`WriteTo` and `width` of all 15 types**, rendered from the source on every run: allocate what a dry `fill` from
offset 0 measures, fill from offset 0, hand the buffer to the writer in one `Write`, return its count and its error;
`width()` — the `N bytes` of `String()` — is that same measurement; `Undefined` alone returns 0 and an error without
touching the writer. This is the function `Mq.writeTo` (C10's theorems) models -/
theorem C10_writeTo_shape_from_source :
    (Gen.writeToShapes.length = 15
      ∧ (∀ k : Fin 15, (Gen.writeToShapes.find? fun e => e.1 == Packet.kindName (k.val + 1)).map (·.2) = some (0, 0, 0)))
    ∧ Gen.writeToRefuses = [Packet.kindName 0] :=
  ⟨Tie.WriteTo.shapes, Tie.WriteTo.refuses⟩

end Mq
