import Proofs.Tie.WellFormed
/-!
# Props.Src.WellFormed — the WellFormed model is the translated source (serves C17)

Built by a check only when the source translator rendered every function of this family
(`Mq/Generated/status.json`) and the generated module type-checks against the model's vocabulary;
otherwise the family's source tie is *unavailable* in that run (recorded in the evidence) and the
model is tied to the code by the correspondence run alone. When it is built and a theorem here no
longer checks, that is a broken obligation like any other.
-/
namespace Mq

/-- **the `WellFormed` these theorems are about is the one in /repo's source**: the three methods,
translated condition by condition on every run, are the model's -/
theorem C17_wellFormed_from_source :
    (∀ p, Gen.Publish.wellFormed p = p.wellFormed) ∧ (∀ p, Gen.Subscribe.wellFormed p = p.wellFormed)
    ∧ (∀ f, Gen.TopicFilter.wellFormed f = f.wellFormed) ∧ Gen.untranslatedWellFormed = [] :=
  ⟨Tie.WellFormed.publish_wellFormed, Tie.WellFormed.subscribe_wellFormed, Tie.WellFormed.topicFilter_wellFormed,
   Tie.WellFormed.complete⟩

end Mq
