import Proofs.Tie.Dec
/-!
# Props.Src.Dec — the decoder model is the translated source (serves C01, C03, C09)

Built by a check only when the source translator rendered every function of this family
(`Mq/Generated/status.json`) and the generated module type-checks against the model's vocabulary;
otherwise the family's source tie is *unavailable* in that run (recorded in the evidence) and the
model is tied to the code by the correspondence run alone. When it is built and a theorem here no
longer checks, that is a broken obligation like any other.
-/
namespace Mq

/-- **the decoder these theorems are about is the one in /repo's source**: each packet type's
`UnmarshalBinary`, translated statement by statement from the Go source on every run together with
the property-map literals it hands to `getAny` (`Mq/Generated/Dec.lean`), is the hand-written
decoder of `Mq/Packet/*.lean` that `Packet.unmarshal` dispatches to. -/
theorem C03_decoder_from_source :
    (∀ p d, Gen.Connect.unmarshal p d = p.unmarshal d) ∧ (∀ p d, Gen.ConnAck.unmarshal p d = p.unmarshal d)
    ∧ (∀ p d, Gen.Publish.unmarshal p d = p.unmarshal d) ∧ (∀ p d, Gen.PubAck.unmarshal p d = p.unmarshal d)
    ∧ (∀ p d, Gen.PubRec.unmarshal p d = p.unmarshal d) ∧ (∀ p d, Gen.PubRel.unmarshal p d = p.unmarshal d)
    ∧ (∀ p d, Gen.PubComp.unmarshal p d = p.unmarshal d) ∧ (∀ p d, Gen.Subscribe.unmarshal p d = p.unmarshal d)
    ∧ (∀ p d, Gen.SubAck.unmarshal p d = p.unmarshal d) ∧ (∀ p d, Gen.Unsubscribe.unmarshal p d = p.unmarshal d)
    ∧ (∀ p d, Gen.UnsubAck.unmarshal p d = p.unmarshal d) ∧ (∀ p d, Gen.PingReq.unmarshal p d = p.unmarshal d)
    ∧ (∀ p d, Gen.PingResp.unmarshal p d = p.unmarshal d) ∧ (∀ p d, Gen.Disconnect.unmarshal p d = p.unmarshal d)
    ∧ (∀ p d, Gen.Auth.unmarshal p d = p.unmarshal d) ∧ (∀ p d, Gen.Undefined.unmarshal p d = p.unmarshal d) :=
  ⟨Tie.Dec.connect_unmarshal, Tie.Dec.connack_unmarshal, Tie.Dec.publish_unmarshal, Tie.Dec.pubAck_unmarshal,
   Tie.Dec.pubRec_unmarshal, Tie.Dec.pubRel_unmarshal, Tie.Dec.pubComp_unmarshal, Tie.Dec.subscribe_unmarshal,
   Tie.Dec.subAck_unmarshal, Tie.Dec.unsubscribe_unmarshal, Tie.Dec.unsubAck_unmarshal, Tie.Dec.pingreq_unmarshal,
   Tie.Dec.pingresp_unmarshal, Tie.Dec.disconnect_unmarshal, Tie.Dec.auth_unmarshal, Tie.Dec.undefined_unmarshal⟩

end Mq
