import Proofs.Tie.Buffer
import Proofs.Buf
/-!
# Props.Src.Buffer — the cursor of the model is the cursor of the source (serves C03, C04, C05, C09)

`buffer.go` — `get`, `atEnd`, the property loop `getAny` — is rendered on every run over the representation the Go code
has (the whole data, the offset `i`, the first error), with the comparison operators of its guards, the end of the
property section and the identifiers of the list-valued properties taken from the source. The model keeps only the
unread rest of the data. These theorems say that nothing is lost by that: started on a fresh buffer, the rendered source
and the model's cursor go through the same statuses, decode the same values and leave the same bytes unread, for every
data, every wire decoder and every property table.

Built by a check only when the translator rendered the family completely (availability policy of `Props/Src`).
-/
namespace Mq
open Mq.Gen Mq.Tie.Buffer

/-- a fresh buffer (`&buffer{data: data}`) satisfies the invariant and is the model's fresh cursor -/
theorem C04_buffer_fresh_from_source (data : Bytes) :
    Inv { data := data, i := 0 } ∧ abs { data := data, i := 0 } = { rest := data } :=
  ⟨inv_fresh data, abs_fresh data⟩

/-- **`buffer.get`**: for every state with the offset inside the data, every wire decoder and every destination, the
rendered source returns the model's value and status, leaves the model's unread bytes, keeps the offset inside the data
(so `b.data[b.i:]` never panics) and never moves it back -/
theorem C04_buffer_get_from_source {α} (b : IBuf) (h : Inv b) (dec : Dec α) (old : α) :
    abs (b.get dec old).1 = ((abs b).get dec old).1 ∧ (b.get dec old).2 = ((abs b).get dec old).2
    ∧ Inv (b.get dec old).1 ∧ (b.get dec old).1.data = b.data ∧ b.i ≤ (b.get dec old).1.i :=
  get_refines b h dec old

/-- `buffer.atEnd` -/
theorem C05_buffer_atEnd_from_source (b : IBuf) (h : Inv b) : b.atEnd = decide ((abs b).rest = []) :=
  atEnd_eq b h

/-- **`buffer.getAny`**: the property loop of the source — `end := b.i + int(propLen)`, `for b.i < end`, table lookup,
user property, subscription identifier, unknown identifier — returns the model's occurrences in the model's order with
the model's status and unread bytes, for every property table and every data -/
theorem C05_buffer_getAny_from_source (b : IBuf) (h : Inv b) (tbl : PropTable)
    (oldOf : UInt8 → List PropOcc → Bytes) :
    abs (b.getAny tbl oldOf).1 = ((abs b).getAny tbl oldOf).1 ∧ (b.getAny tbl oldOf).2 = ((abs b).getAny tbl oldOf).2
    ∧ Inv (b.getAny tbl oldOf).1 ∧ (b.getAny tbl oldOf).1.data.length = b.data.length :=
  getAny_refines b h tbl oldOf

/-- **C04/C05 read off the translated source.** Started anywhere inside the data with no panic or hang behind it, the
cursor of /repo's `buffer.go` — rendered with its own guards, its slice expression `b.data[b.i:]` an explicit panic
branch — introduces neither: `get` for every wire decoder that does not panic on a non-empty slice (all of them,
`C04_wire_decoders`), `getAny` for every property table; the loop of `getAny` ends within the fuel of one iteration
per unread byte, and records at most one property per byte it consumes -/
theorem C04_buffer_safe_from_source {α} (b : IBuf) (h : Inv b) (hs : b.st ≠ .panic ∧ b.st ≠ .hang)
    (dec : Dec α) (old : α) (hd : ∀ d, d ≠ [] → dec d ≠ .panic) :
    (b.get dec old).1.st ≠ .panic ∧ (b.get dec old).1.st ≠ .hang := by
  have e := (get_refines b h dec old).1
  have hm : ((abs b).get dec old).1.Safe := get_safe (abs b) dec old hs hd
  rw [← e] at hm
  exact hm

theorem C05_buffer_getAny_safe_from_source (b : IBuf) (h : Inv b) (hs : b.st ≠ .panic ∧ b.st ≠ .hang)
    (tbl : PropTable) (oldOf : UInt8 → List PropOcc → Bytes) :
    ((b.getAny tbl oldOf).1.st ≠ .panic ∧ (b.getAny tbl oldOf).1.st ≠ .hang)
    ∧ (b.getAny tbl oldOf).2.length + ((b.getAny tbl oldOf).1.data.length - (b.getAny tbl oldOf).1.i)
        ≤ b.data.length - b.i := by
  obtain ⟨e1, e2, _⟩ := getAny_refines b h tbl oldOf
  have hm := getAny_safe (abs b) tbl oldOf hs
  rw [← e1, ← e2, rest_length, rest_length] at hm
  exact hm

/-- **the lesson of D13, as a fact about the source.** `SubAck.UnmarshalBinary` and `UnsubAck.UnmarshalBinary` size their
reason-code slice with `make([]uint8, len(data)-b.i)` after `b.get(&p.packetID)` and `b.getAny(…)`; a negative size is a
run-time panic, and before the repair a repeated, second-time-empty reason string produced one. For the cursor of
/repo as it is now — rendered with its own guards — the offset after those two calls is inside the data whatever the
data and the property table, and the data has not changed length: the size is never negative -/
theorem C04_reason_code_slice_size_from_source (data : Bytes) (tbl : PropTable)
    (oldOf : UInt8 → List PropOcc → Bytes) :
    ((({ data := data, i := 0 } : IBuf).get decU16 0).1.getAny tbl oldOf).1.i
      ≤ ((({ data := data, i := 0 } : IBuf).get decU16 0).1.getAny tbl oldOf).1.data.length
    ∧ ((({ data := data, i := 0 } : IBuf).get decU16 0).1.getAny tbl oldOf).1.data.length = data.length := by
  have g := get_refines ({ data := data, i := 0 } : IBuf) (inv_fresh data) decU16 0
  have ga := getAny_refines (({ data := data, i := 0 } : IBuf).get decU16 0).1 g.2.2.1 tbl oldOf
  refine ⟨ga.2.2.1, ?_⟩
  rw [ga.2.2.2, g.2.2.2.1]

/-- not vacuous: the D13 input, a reason string given twice, the second time empty, run through the rendered source -/
example :
    Inv { data := [0x00, 0x01, 0x09, 0x1f, 0x00, 0x03, 0x61, 0x62, 0x63, 0x1f, 0x00, 0x00], i := 2 }
    ∧ (({ data := [0x00, 0x01, 0x09, 0x1f, 0x00, 0x03, 0x61, 0x62, 0x63, 0x1f, 0x00, 0x00], i := 2 } : IBuf).getAny
        [(0x1f, .bin)] (lastBin fun _ => [])).1.st = .err .missing :=
  ⟨by unfold Tie.Buffer.Inv; decide, by decide +kernel⟩

end Mq
