import Proofs.Tie.Wire
/-!
# Props.Src.Wire — the wire layer's guards, widths and zero tests are the translated source (serves C04, C09, C10)

Built by a check only when the source translator rendered every function of this family
(`Mq/Generated/status.json`) and the generated module type-checks against the model's vocabulary;
otherwise the family's source tie is *unavailable* in that run (recorded in the evidence) and the
model is tied to the code by the correspondence run alone. When it is built and a theorem here no
longer checks, that is a broken obligation like any other.
-/
namespace Mq

/-- the `fill` methods of the wire types in /repo's `wiretypes.go` (guard, store, returned width), rendered on every
run, are the model's fillers -/
theorem C10_wire_fill_from_source :
    (∀ v, Gen.bits.fill v = fillByte v) ∧ (∀ v, Gen.Ident.fill v = fillByte v) ∧ (∀ v, Gen.wbool.fill v = fillBool v)
    ∧ (∀ v, Gen.wuint16.fill v = fillU16 v) ∧ (∀ v, Gen.wuint32.fill v = fillU32 v)
    ∧ (∀ v, Gen.bindata.fill v = fillBin v) ∧ (∀ v, Gen.rawdata.fill v = fillRaw v) :=
  ⟨Tie.Wire.bits_fill, Tie.Wire.ident_fill, Tie.Wire.wbool_fill, Tie.Wire.wuint16_fill, Tie.Wire.wuint32_fill,
   Tie.Wire.bindata_fill, Tie.Wire.rawdata_fill⟩

/-- **`fill(nil, 0)` returns `width()`** for every wire type — the contract the two-pass `WriteTo` (measure, allocate,
fill) and the `width()` printed by `String()` rest on -/
theorem C10_wire_dry_is_width :
    (∀ v, (Gen.bits.fill v).dry = Gen.bits.width v) ∧ (∀ v, (Gen.Ident.fill v).dry = Gen.Ident.width v)
    ∧ (∀ v, (Gen.wbool.fill v).dry = Gen.wbool.width v) ∧ (∀ v, (Gen.wuint16.fill v).dry = Gen.wuint16.width v)
    ∧ (∀ v, (Gen.wuint32.fill v).dry = Gen.wuint32.width v) ∧ (∀ v, (Gen.bindata.fill v).dry = Gen.bindata.width v)
    ∧ (∀ v, (Gen.rawdata.fill v).dry = Gen.rawdata.width v) ∧ (∀ v, (fillVb v).dry = Gen.vbint.width v) :=
  Tie.Wire.dry_is_width

/-- the decoders of the fixed-size wire types — their length guards, the value, and the width `buffer.get` then
advances by — rendered from the source, are the model's -/
theorem C09_wire_guards_from_source :
    Gen.bits.dec = decU8 ∧ Gen.Ident.dec = decU8 ∧ Gen.wbool.dec = decBool ∧ Gen.wuint16.dec = decU16
    ∧ Gen.wuint32.dec = decU32 :=
  ⟨Tie.Wire.bits_dec, Tie.Wire.ident_dec, Tie.Wire.wbool_dec, Tie.Wire.wuint16_dec, Tie.Wire.wuint32_dec⟩

/-- the zero test at the top of every `fillProp` (a property with the zero value is not written) is the model's -/
theorem C02_zero_tests_from_source :
    (∀ v, Gen.bits.isZero v = (WVal.u8 v).isZero) ∧ (∀ v, Gen.wuint16.isZero v = (WVal.u16 v).isZero)
    ∧ (∀ v, Gen.wuint32.isZero v = (WVal.u32 v).isZero) ∧ (∀ v, Gen.wbool.isZero v = (WVal.bool v).isZero)
    ∧ (∀ v, Gen.bindata.isZero v = (WVal.bin v).isZero) ∧ (∀ v, Gen.vbint.isZero v = (WVal.vb v).isZero) :=
  Tie.Wire.isZero_eq

/-- every `fillProp` of the wire layer returns 0 for the zero value and otherwise `i - n`, the bytes it wrote -/
theorem C02_fillProp_result_from_source :
    Gen.fillPropTails.length = 7 ∧ Gen.fillPropTails.all (fun e => e.2 == (0, true)) = true :=
  Tie.Wire.fillProp_tails

end Mq
