import Proofs.Tie.Dispatch
/-!
# Props.Src.Dispatch — the dispatch of the model is the translated type switch (serves C03, C16)

Built by a check only when the source translator rendered every function of this family
(`Mq/Generated/status.json`) and the generated module type-checks against the model's vocabulary;
otherwise the family's source tie is *unavailable* in that run (recorded in the evidence) and the
model is tied to the code by the correspondence run alone. When it is built and a theorem here no
longer checks, that is a broken obligation like any other.
-/
namespace Mq

/-- **the dispatch these theorems are about is the switch in /repo's source**, translated on every run -/
theorem C16_dispatch_from_source (b0 : UInt8) : Gen.dispatch b0 = Packet.dispatch b0 := Tie.Dispatch.dispatch_eq b0

end Mq
