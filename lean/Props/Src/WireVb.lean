import Proofs.Tie.WireVb
/-!
# Props.Src.WireVb — the variable byte integer codec of the model is the translated source (serves C15, C03, C04, C09)

Built by a check only when the translator rendered the family completely (availability policy of `Props/Src`).
-/
namespace Mq

/-- **the in-memory decoder** `vbint.UnmarshalBinary`, rendered from /repo's `wiretypes.go` on every run — the empty
input, the mask `& 127`, the multiplier limit `128*128*128` with its comparison operator, the continuation bit `& 128`,
the step `* 128`, running out of data — is the model's `decVb`, with the width the cursor then advances by -/
theorem C15_vbint_decoder_from_source : Gen.vbint.dec = decVb :=
  Tie.WireVb.vbint_dec

/-- **the encoder loop** `vbint.fill` (`x % 128`, `x / 128`, `| 128` while more follows, each byte under its own guard
`i < len(data)`) is the model's filler, and `vbint.width()` is the length of the minimal encoding the theorems of C15
are about -/
theorem C15_vbint_encoder_from_source :
    (∀ v, Gen.vbint.fill v = fillVb v) ∧ (∀ n, Gen.vbint.width n = (encVb n).length) :=
  ⟨Tie.WireVb.vbint_fill, Tie.WireVb.vbint_width⟩

end Mq
