import Proofs.Tie.Stream
import Props.C01
/-!
# Props.Src.EndToEndRT — C01 stated about the `ReadPacket` translated from the source

As `Props/Src/EndToEnd.lean`, kept apart because `Props.C01` rests on the theorems of C02, C03 and C16.
Built by a check only when the `Stream` family was rendered completely.
-/
namespace Mq

/-- **C01 for the translated `ReadPacket`**: on the bytes `WriteTo` produced — under any reader schedule, followed by
anything — it returns the packet that was written and consumes exactly the frame -/
theorem C01_roundtrip_from_source (p : Packet) (h : p.InDomainL) (bs : Bytes) (he : p.encode = .bytes bs)
    (r : Reader) (rest : Bytes) (hd : r.data = bs ++ rest) :
    (Gen.readPacket r).1 = .pkt p ∧ (Gen.readPacket r).2.data = rest := by
  rw [Tie.Stream.readPacket_eq]; exact C01_roundtrip p h bs he r rest hd

end Mq
