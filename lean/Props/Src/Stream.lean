import Proofs.Tie.Stream
/-!
# Props.Src.Stream — the stream reader of the model is the translated source (serves C06, C07, C08, C15)

Built by a check only when the translator rendered the family completely (availability policy of `Props/Src`).
-/
namespace Mq

/-- **`ReadPacket`**, rendered from /repo's `packet.go` and `wiretypes.go` on every run — the fixed byte and every byte
of the remaining length fetched by an `io.ReadFull` of one byte, the length loop with its mask, limit, comparison,
continuation bit and step, the body fetched by one `io.ReadFull` of exactly the remaining length and skipped when that
is 0, the reader's error passed on wrapped with `%w`, `UnmarshalBinary` of the dispatched packet on exactly those
bytes — is the model's `readPacket` on every reader: every data, delivery schedule and failure -/
theorem C06_readPacket_from_source : Gen.readPacket = readPacket :=
  Tie.Stream.readPacket_eq

/-- the streaming decoder of the remaining length (`vbint.ReadFrom`) is the model's, for every reader and loop state -/
theorem C15_stream_decoder_from_source (fuel : Nat) (r : Reader) (m a : Nat) :
    Gen.vbint.readFrom fuel r m a = readVb fuel r m a :=
  Tie.Stream.readFrom_eq fuel r m a

/-- in `ReadPacket`, `fixedHeader.ReadFrom`/`ReadRemaining`, `bits.ReadFrom` and `vbint.ReadFrom` every error test reads
`err != nil`: an error is never taken for success nor success for an error -/
theorem C08_error_tests_from_source : Gen.streamErrTests.length = 5 ∧ Gen.streamErrTests.all (·.2) = true :=
  Tie.Stream.err_tests

end Mq
