import Proofs.Tie.WireVar
/-!
# Props.Src.WireVar — strings, binary data and user properties decode as the translated source does (serves C03, C04, C09)

Built by a check only when the translator rendered the family completely (availability policy of `Props/Src`).
-/
namespace Mq

/-- **the decoders of every string, binary field and user property**, rendered from /repo's `wiretypes.go` on every
run, are the model's: `bindata.UnmarshalBinary` (the length prefix read with its error dropped, the guard
`len(data) < int(length)+2` with its comparison operator and constant, the zero-length case that leaves the destination
— and therefore the width the cursor advances by — alone, `make` + `copy(data[2:int(length)+2])`), and
`UserProp.UnmarshalBinary` (key, the value starting at `len(key)+2`, the width), `rawdata.UnmarshalBinary` (the PUBLISH
payload: a copy of all that is left) -/
theorem C09_wire_decoders_from_source :
    (∀ old, Gen.bindata.dec old = decBin old) ∧ Gen.UserProp.dec = decPair ∧ Gen.rawdata.dec = decRaw
    ∧ Gen.UserProp.errTests = true :=
  ⟨Tie.WireVar.bindata_dec, Tie.WireVar.userProp_dec, Tie.WireVar.rawdata_dec, Tie.WireVar.userProp_errTests⟩

/-- `UserProp.fill` is the model's filler, and **`UserProperties.properties`** — the method every packet type's
`properties` ends with: the pairs in order, each through `UserProp.fillProp` (nothing for an empty key, else the
identifier `UserProperty` and the pair) — is the model's `fillUserProps` -/
theorem C02_userProp_fill_from_source :
    (∀ kv : Bytes × Bytes, Gen.UserProp.fill kv = fillPair kv.1 kv.2)
    ∧ (∀ ups : UserProps, Gen.UserProperties.properties ups = fillUserProps ups) :=
  ⟨Tie.WireVar.userProp_fill, Tie.WireVar.userProps_fill⟩

end Mq
