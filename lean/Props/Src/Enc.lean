import Proofs.Tie.Enc
import Proofs.Tie.Encode
import Proofs.FillPackets
/-!
# Props.Src.Enc — the encoder model is the translated source (serves C01, C02, C10)

Built by a check only when the source translator rendered every function of this family
(`Mq/Generated/status.json`) and the generated module type-checks against the model's vocabulary;
otherwise the family's source tie is *unavailable* in that run (recorded in the evidence) and the
model is tied to the code by the correspondence run alone. When it is built and a theorem here no
longer checks, that is a broken obligation like any other.
-/
namespace Mq

/-- **the encoder these theorems are about is the one in /repo's source**: each packet type's `fill`
method, translated statement by statement from the Go source on every run
(`Mq/Generated/Enc.lean`, with `variableHeader`, `payload`, `properties` and the will closure it
calls), is the hand-written filler that `Packet.encodeG_eq` proves equal to `Packet.encode`.
CONNECT by cases: will attached, or will flag clear. -/
theorem C02_encoder_from_source :
    (∀ p, Gen.ConnAck.fill p = p.fillG) ∧ (∀ p, Gen.Publish.fill p = p.fillG)
    ∧ (∀ p, Gen.PubAck.fill p = p.fillG) ∧ (∀ p, Gen.PubRec.fill p = p.fillG) ∧ (∀ p, Gen.PubRel.fill p = p.fillG)
    ∧ (∀ p, Gen.PubComp.fill p = p.fillG) ∧ (∀ p, Gen.Subscribe.fill p = p.fillG) ∧ (∀ p, Gen.SubAck.fill p = p.fillG)
    ∧ (∀ p, Gen.Unsubscribe.fill p = p.fillG) ∧ (∀ p, Gen.UnsubAck.fill p = p.fillG) ∧ (∀ p, Gen.PingReq.fill p = p.fillG)
    ∧ (∀ p, Gen.PingResp.fill p = p.fillG) ∧ (∀ p, Gen.Disconnect.fill p = p.fillG) ∧ (∀ p, Gen.Auth.fill p = p.fillG)
    ∧ (∀ (p : Connect) w, p.will = some w → p.fillG? = some (Gen.Connect.fill p w))
    ∧ (∀ (p : Connect) w, has p.flags Connect.fWillFlag = false → p.fillG? = some (Gen.Connect.fill p w)) :=
  ⟨Tie.Enc.connack_fill, Tie.Enc.publish_fill, Tie.Enc.pubAck_fill, Tie.Enc.pubRec_fill, Tie.Enc.pubRel_fill,
   Tie.Enc.pubComp_fill, Tie.Enc.subscribe_fill, Tie.Enc.subAck_fill, Tie.Enc.unsubscribe_fill, Tie.Enc.unsubAck_fill,
   Tie.Enc.pingreq_fill, Tie.Enc.pingresp_fill, Tie.Enc.disconnect_fill, Tie.Enc.auth_fill,
   Tie.Enc.connect_fill_will, Tie.Enc.connect_fill_noflag⟩

/-- the older, table-level view of the same: the `fillProp` sequence of every `properties` method as
extracted from the source (identifier, wire type) is the model's field order -/
theorem C02_property_order_from_source :
    (∀ p, Tie.kinds (Tie.connectFields p) ++ Tie.up = Tie.order "Connect.properties")
    ∧ (∀ p w, Tie.kinds (Tie.willFields p w) ++ Tie.up = Tie.order "Connect.payload(will)")
    ∧ (∀ p, Tie.kinds (Tie.connackFields p) ++ Tie.up = Tie.order "ConnAck.properties")
    ∧ (∀ p, Tie.kinds (Tie.publishFields p) ++ Tie.up ++ [(11, .vb)] = Tie.order "Publish.properties") :=
  ⟨Tie.T2_connect, Tie.T2_will, Tie.T2_connack, Tie.T2_publish⟩

end Mq
