import Proofs.Tie.Stream
import Props.C06
import Props.C07
import Props.C08
/-!
# Props.Src.EndToEnd — the stream properties, stated about the `ReadPacket` translated from the source

`Gen.readPacket` is what `extract/streamgen.go` makes of /repo's `ReadPacket` on every run. The theorems of C06,
C07 and C08 (C01: `Props/Src/EndToEndRT.lean`, C03: `Props/Src/EndToEndSpec.lean`) are about the model's `readPacket`; `C06_readPacket_from_source` says the two are the same function.
Here the headline statements are transported across that equality, so that what is proved is read off the rendering of
the current source: nothing new is proved, the hypotheses and conclusions are the ones of `Props/C0x.lean`.

Built by a check only when the `Stream` family was rendered completely.
-/
namespace Mq

/-- **C06**: a complete frame at the head of any stream is consumed exactly, its outcome a function of its bytes -/
theorem C06_consumed_from_source (r : Reader) (b0 : UInt8) (body rest : Bytes) (hn : body.length < 268435456)
    (hd : r.data = frameBytes b0 body ++ rest) :
    (Gen.readPacket r).2.data = rest
      ∧ r.data.length - (Gen.readPacket r).2.data.length = 1 + (encVb body.length).length + body.length
      ∧ (Gen.readPacket r).1 = frameOutcome b0 body := by
  rw [Tie.Stream.readPacket_eq]; exact C06_consumed r b0 body rest hn hd

/-- **C07**: two readers with the same data and failure give the same result, however they deliver -/
theorem C07_schedule_irrelevant_from_source (r₁ r₂ : Reader) (hd : r₁.data = r₂.data) (hf : r₁.fail = r₂.fail) :
    (Gen.readPacket r₁).1 = (Gen.readPacket r₂).1 ∧ (Gen.readPacket r₁).2.data = (Gen.readPacket r₂).2.data := by
  rw [Tie.Stream.readPacket_eq]; exact C07_schedule_irrelevant r₁ r₂ hd hf

/-- **C08**: a stream that ends or fails after a proper prefix of a frame is reported, the reader's error recognisable -/
theorem C08_cut_reported_from_source (b0 : UInt8) (body : Bytes) (hn : body.length < 268435456) (k : Nat)
    (hk : k < (frameBytes b0 body).length) (r : Reader) (hd : r.data = (frameBytes b0 body).take k) :
    ∃ e, (Gen.readPacket r).1 = .err e ∧ (r.fail ≠ .eof → e.is r.fail = true) := by
  rw [Tie.Stream.readPacket_eq]; exact C08_cut_reported b0 body hn k hk r hd

end Mq
