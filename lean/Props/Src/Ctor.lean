import Proofs.Tie.Ctor
/-!
# Props.Src.Ctor — what every API history starts from is what the source's constructors build (serves C12, C16, C01)

Built by a check only when the translator rendered the family completely (availability policy of `Props/Src`).
-/
namespace Mq

/-- **the constructors**: /repo has a `New<Type>()` for each of the 15 packet types; the first byte each sets —
type nibble and the reserved flag bits of PUBREL, SUBSCRIBE and UNSUBSCRIBE, as the type checker folds the constant
expression — is the first byte of the model's `Packet.new`; CONNECT's protocol name and version are the model's; no
constructor sets any other field -/
theorem C12_constructors_from_source :
    (Gen.constructors.length = 15 ∧ ∀ k : Fin 15, Packet.kindName (k.val + 1) ∈ Gen.constructors)
    ∧ (∀ k : Fin 15, Tie.Ctor.numOf (Packet.kindName (k.val + 1)) "fixed" = some (Packet.new (k.val + 1)).fixed.toNat)
    ∧ (Gen.ctorNumbers.length = 16 ∧ Tie.Ctor.numOf "Connect" "protocolVersion" = some Connect.new.protocolVersion.toNat
        ∧ Gen.ctorBytes = [("Connect", "protocolName", Connect.new.protocolName)]) :=
  ⟨Tie.Ctor.constructors_15, Tie.Ctor.fixed_eq, Tie.Ctor.others⟩

/-- **`bits.Has` and `bits.toggle`**, which every flag accessor and setter of the library goes through, are the `has`
and `toggle` the model's setters, accessors and decoders use; `Connect.willQoS` (mask and shift of the will QoS
bits, as the type checker folds the constants) is the model's -/
theorem C12_bit_helpers_from_source :
    Gen.bits.has = has ∧ Gen.bits.toggle = toggle ∧ (∀ p : Connect, Gen.Connect.willQoS p.flags = p.willQoS) :=
  ⟨Tie.Ctor.has_eq, Tie.Ctor.toggle_eq, Tie.Ctor.willQoS_eq⟩

end Mq
