import Mq.Effects
import Proofs.Tie.ReadOnly
import Proofs.Tie.ReadPacket
import Proofs.Tie.Globals
/-!
# C13 — read-only operations on a shared packet are safe to run concurrently

Proved: race-freedom and sequential results for **any** program whose effect summary is confined
(`C13_confined_no_race`, `C13_shared_constant`, `C13_reads_initial`), and that the effect summary
regenerated from /repo's current source is confined (`C13_mq_confined`, over `Mq.Generated.Facts`).
Not proved (trusted, see DESIGN.md): that the SSA classification in `/verif/extract` is sound, and
the Go memory model. The race detector run of the check supports this; it is not a proof.
-/
namespace Mq
open Effects

/-- in every interleaving of goroutines whose writes are confined to their own private memory there
is no data race -/
theorem C13_confined_no_race (e : Exec) (hc : Confined e) (ho : OwnPriv e) :
    ∀ a ∈ e, ∀ b ∈ e, ¬ Race a b := by
  intro a ha b hb ⟨hne, hloc, hw⟩
  rcases hw with hw | hw
  · obtain ⟨t, n, hl⟩ := hc a ha hw
    have h1 := ho a ha t n hl
    have h2 := ho b hb t n (hloc ▸ hl)
    exact hne (h1.trans h2.symm)
  · obtain ⟨t, n, hl⟩ := hc b hb hw
    have h1 := ho b hb t n hl
    have h2 := ho a ha t n (hloc ▸ hl)
    exact hne (h2.trans h1.symm)

/-- … the shared memory is the same after any prefix of any interleaving as at the start … -/
theorem C13_shared_constant (e : Exec) (hc : Confined e) (m : Mem) : (e.foldl Mem.step m).shared = m.shared := by
  induction e generalizing m with
  | nil => rfl
  | cons a e ih =>
    simp only [List.foldl_cons]
    rw [ih (fun x hx => hc x (List.mem_cons_of_mem _ hx))]
    unfold Mem.step
    by_cases hw : a.write = true
    · obtain ⟨t, n, hl⟩ := hc a (List.mem_cons_self) hw
      simp [hw, hl]
    · simp [hw]

/-- … so every read of shared memory, at any point of any interleaving, returns the initial value:
each operation computes what it computes when run alone — in particular `WriteTo` its bytes -/
theorem C13_reads_initial (pre post : Exec) (a : Access) (hc : Confined (pre ++ a :: post)) (m : Mem) (n : Nat)
    (hl : a.loc = .shared n) : (pre.foldl Mem.step m).read a.loc = m.read a.loc := by
  have hpre : Confined pre := fun x hx => hc x (List.mem_append_left _ hx)
  rw [hl]; simp only [Mem.read]
  rw [C13_shared_constant pre hpre]

/-- the effect summary of gregoryv/mq regenerated from the working tree is confined: no read-only
operation (`WriteTo`, `String`, `Dump`, `WellFormed`, every accessor, the constructors) and not
`ReadPacket` writes to the receiver, to another argument, or through a package-level variable;
the roots analysed include all of those (`T5_roots`) -/
theorem C13_mq_confined :
    Facts.readOnlyWrites = [] ∧ Facts.readPacketWrites = [] ∧ Facts.globalWrites = []
    ∧ Facts.neverAssigned.contains "_LEN" = true :=
  ⟨Tie.T5_read_only, Tie.T5_read_packet, Tie.T5_globals.1, Tie.T5_globals.2⟩

/-- non-vacuity: two goroutines reading the same shared field while each writes its own buffer is a
confined execution, and it is not trivially race-free by having a single thread -/
example :
    let e : Exec := [⟨1, .shared 0, false, 0⟩, ⟨2, .shared 0, false, 0⟩, ⟨1, .priv 1 0, true, 7⟩, ⟨2, .priv 2 0, true, 7⟩]
    Confined e ∧ OwnPriv e := by
  constructor
  · intro a ha hw
    simp only [List.mem_cons, List.mem_nil_iff, or_false] at ha
    rcases ha with rfl | rfl | rfl | rfl <;> simp_all
  · intro a ha t n hl
    simp only [List.mem_cons, List.mem_nil_iff, or_false] at ha
    rcases ha with rfl | rfl | rfl | rfl <;> simp_all

/-- and a shared write is what breaks it: the theorem's hypothesis is not satisfiable then -/
example : ¬ Confined [⟨1, .shared 0, true, 1⟩] := by
  intro h
  obtain ⟨t, n, hl⟩ := h _ (List.mem_cons_self) rfl
  cases hl

end Mq
