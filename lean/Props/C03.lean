import Proofs.DConnect
import Proofs.FrameRead
import Proofs.Tie.Decode
/-!
# C03 — every valid MQTT v5.0 frame is accepted and decoded to the values it carries

`Spec.SPacket` is an abstract packet with its properties in wire order and its short/long form;
`sp.Legal` is structural validity by the specification (Spec.Types: allowed identifiers, wire
types, multiplicities, string and remaining-length limits, non-empty payload lists, reserved
bits); `sp.unparse` writes it. The valid-frame language is `{ sp.unparse | sp.Legal }`: every
property order, explicit zero values, every short form, strings up to 65 535 bytes, multi-byte
property lengths. `sp.view` is what a specification-faithful reading gives, in accessor form.
-/
namespace Mq
open Spec (SPacket)

/-- the decoder on the frame `sp.unparse` of any legal abstract packet: a packet of the matching
type whose accessors report exactly the specification's reading -/
theorem C03_frame (sp : SPacket) (h : sp.Legal) :
    ∃ q, frameOutcome sp.firstByte sp.body = .pkt q ∧ q.kind = sp.kind ∧ q.view = sp.view := by
  cases sp with
  | connect cs ka ps cid will user pass =>
    obtain ⟨q, h1, h2⟩ := D_connect cs ka ps cid will user pass h; exact ⟨_, h1, rfl, h2⟩
  | connack s r ps => obtain ⟨q, h1, h2⟩ := D_connack s r ps h; exact ⟨_, h1, rfl, h2⟩
  | publish d q r t pid ps pl => obtain ⟨x, h1, h2⟩ := D_publish d q r t pid ps pl h; exact ⟨_, h1, rfl, h2⟩
  | ack k pid f r ps => exact D_ack k pid f r ps h
  | subscribe pid ps fs => obtain ⟨q, h1, h2⟩ := D_subscribe pid ps fs h; exact ⟨_, h1, rfl, h2⟩
  | suback k pid ps cs => exact D_suback k pid ps cs h
  | unsubscribe pid ps fs => obtain ⟨q, h1, h2⟩ := D_unsubscribe pid ps fs h; exact ⟨_, h1, rfl, h2⟩
  | ping k => exact D_ping k h
  | disconnect f r ps => obtain ⟨q, h1, h2⟩ := D_disconnect f r ps h; exact ⟨_, h1, rfl, h2⟩
  | auth f r ps => obtain ⟨q, h1, h2⟩ := D_auth f r ps h; exact ⟨_, h1, rfl, h2⟩

/-- **C03**: for every structurally valid frame — delivered by any reader under any schedule,
followed by anything — ReadPacket returns, without error, a packet of the matching type whose
accessors report exactly the values a specification-faithful reading of the frame gives, and
consumes exactly the frame. -/
theorem C03_accepts_valid (sp : SPacket) (h : sp.Legal) (r : Reader) (rest : Bytes)
    (hd : r.data = sp.unparse ++ rest) :
    ∃ q, (readPacket r).1 = .pkt q ∧ q.kind = sp.kind ∧ q.view = sp.view ∧ (readPacket r).2.data = rest := by
  obtain ⟨q, hq, hk, hv⟩ := C03_frame sp h
  have hp := (readPacket_pure r).1
  rw [hd] at hp
  have : sp.unparse = frameBytes sp.firstByte sp.body := rfl
  rw [this, purePacket_frame sp.firstByte sp.body rest h.2] at hp
  simp only [Prod.mk.injEq] at hp
  exact ⟨q, by rw [hp.1, hq], hk, hv, hp.2⟩

/-- **a whole session**: a stream made of any number of valid frames — each the `unparse` of a legal
abstract packet — followed by anything is accepted frame by frame: as many `ReadPacket` calls
return, in order and without error, packets of the matching types whose accessors report the
specification's reading of the respective frame, and leave what follows unread. -/
theorem C03_session : ∀ (sps : List SPacket) (r : Reader) (tail : Bytes), (∀ sp ∈ sps, sp.Legal) →
    r.data = sps.flatMap (·.unparse) ++ tail →
    ∃ qs : List Packet, (readAll sps.length r).1 = qs.map RP.pkt
      ∧ qs.map (fun q => (q.kind, q.view)) = sps.map (fun sp => (sp.kind, sp.view))
      ∧ (readAll sps.length r).2.data = tail := by
  intro sps
  induction sps with
  | nil => intro r tail _ hd; exact ⟨[], rfl, rfl, by simpa [readAll] using hd⟩
  | cons sp sps ih =>
    intro r tail hall hd
    obtain ⟨q, h1, hk, hv, hrest⟩ := C03_accepts_valid sp (hall sp (by simp)) r
      (sps.flatMap (·.unparse) ++ tail) (by rw [hd]; simp)
    obtain ⟨qs, h2, h3, h4⟩ := ih (readPacket r).2 tail (fun x hx => hall x (by simp [hx])) hrest
    refine ⟨q :: qs, ?_, ?_, ?_⟩
    · simp only [List.length_cons, readAll, List.map_cons]; rw [h1, h2]
    · simp only [List.map_cons]; rw [h3, hk, hv]
    · simpa only [List.length_cons, readAll] using h4

/-- non-vacuity of `C03_session`'s premise: a two-frame session -/
example : ∀ sp ∈ [SPacket.ack 4 7 .reason 0x10 [], SPacket.connack true 0 [⟨0x21, .u16 0⟩, ⟨0x25, .bool false⟩]],
    sp.Legal := by
  intro sp h
  simp only [List.mem_cons, List.not_mem_nil, or_false] at h
  rcases h with rfl | rfl <;> constructor <;> decide

/-- non-vacuity: a DISCONNECT carrying a reason string and a user property in "foreign" order,
a PUBACK of remaining length 3, a CONNACK with an explicit zero-valued property -/
example : (SPacket.disconnect .full 0x8b [⟨0x26, .pair [0x6b] [0x76]⟩, ⟨0x1f, .bin [0x61]⟩]).Legal := by
  constructor <;> decide
example : (SPacket.ack 4 7 .reason 0x10 []).Legal := by constructor <;> decide
example : (SPacket.connack true 0 [⟨0x21, .u16 0⟩, ⟨0x25, .bool false⟩]).Legal := by constructor <;> decide
example : (SPacket.disconnect .full 0x8b [⟨0x26, .pair [0x6b] [0x76]⟩, ⟨0x1f, .bin [0x61]⟩]).unparse
    = [0xe0, 0x0d, 0x8b, 0x0b, 0x26, 0x00, 0x01, 0x6b, 0x00, 0x01, 0x76, 0x1f, 0x00, 0x01, 0x61] := by decide

end Mq
