import Mq.Render
/-!
# C17 — WellFormed decides exactly the documented rules and String agrees with it
-/
namespace Mq

/-- `Publish.WellFormed` reports an error exactly when the topic name is empty and no topic alias
is set, or QoS is 1 or 2 with packet identifier 0, or both QoS bits are set -/
theorem C17_publish (p : Publish) :
    p.wellFormed.isSome ↔
      (p.topicName = [] ∧ p.topicAlias = 0) ∨ ((p.qos = 1 ∨ p.qos = 2) ∧ p.packetID = 0) ∨ p.qos = 3 := by
  unfold Publish.wellFormed
  by_cases h1 : p.topicName.length = 0 ∧ p.topicAlias = 0
  · have : p.topicName = [] := List.eq_nil_of_length_eq_zero h1.1
    simp [h1, this]
  · have h1' : ¬ (p.topicName = [] ∧ p.topicAlias = 0) := by
      intro h; exact h1 ⟨by simp [h.1], h.2⟩
    simp only [h1, if_false, h1', false_or]
    by_cases h2 : (p.qos = 1 ∨ p.qos = 2) ∧ p.packetID = 0
    · simp [h2]
    · simp only [h2, if_false, false_or]
      by_cases h3 : p.qos = 3 <;> simp [h3]

/-- `TopicFilter.WellFormed`: error exactly when the filter is empty or QoS 3 is requested -/
theorem C17_filter (f : TopicFilter) :
    f.wellFormed.isSome ↔ f.filter = [] ∨ has f.options 3 = true := by
  unfold TopicFilter.wellFormed
  by_cases h1 : f.filter.length = 0
  · have : f.filter = [] := List.eq_nil_of_length_eq_zero h1
    simp [this]
  · have h1' : f.filter ≠ [] := by intro h; exact h1 (by simp [h])
    simp only [h1, if_false, h1', false_or]
    by_cases h2 : has f.options 3 = true <;> simp [h2]

theorem findSome_isSome {α β} (l : List α) (g : α → Option β) :
    (l.findSome? g).isSome ↔ ∃ x ∈ l, (g x).isSome := by
  induction l with
  | nil => simp
  | cons a t ih =>
    simp only [List.findSome?_cons]
    cases h : g a with
    | some b => simp [h]
    | none => simp [h, ih]

/-- `Subscribe.WellFormed`: error exactly when there is no filter, the subscription identifier
exceeds 268 435 455, or some filter is not well formed -/
theorem C17_subscribe (s : Subscribe) :
    s.wellFormed.isSome ↔
      s.filters = [] ∨ (∃ v, s.subscriptionID = some v ∧ v > 268435455) ∨ ∃ f ∈ s.filters, f.wellFormed.isSome := by
  unfold Subscribe.wellFormed
  by_cases h1 : s.filters.length = 0
  · have : s.filters = [] := List.eq_nil_of_length_eq_zero h1
    simp [this]
  · have h1' : s.filters ≠ [] := by intro h; exact h1 (by simp [h])
    simp only [h1, if_false, h1', false_or]
    by_cases h2 : s.subscriptionID.any (· > 268435455) = true
    · have : ∃ v, s.subscriptionID = some v ∧ v > 268435455 := by
        cases hs : s.subscriptionID with
        | none => simp [hs] at h2
        | some v => simp [hs] at h2; exact ⟨v, rfl, h2⟩
      simp [h2, this]
    · have : ¬ ∃ v, s.subscriptionID = some v ∧ v > 268435455 := by
        intro ⟨v, hv, hgt⟩; simp [hv] at h2; omega
      simp only [h2, this, false_or]
      exact findSome_isSome _ _

/-- the suffix `withForm` appends -/
def malformedSuffix : WF → Bytes
  | none => []
  | some (ref, reason) => b!", malformed! " ++ sb reason ++ b!" " ++ sb ref

theorem withForm_eq (wf : WF) (v : Bytes) : withForm wf v = v ++ malformedSuffix wf := by
  cases wf with
  | none => simp [withForm, malformedSuffix]
  | some rr => obtain ⟨ref, reason⟩ := rr; simp [withForm, malformedSuffix, List.append_assoc]

theorem malformedSuffix_nil (wf : WF) : malformedSuffix wf = [] ↔ wf = none := by
  cases wf with
  | none => simp [malformedSuffix]
  | some rr =>
    obtain ⟨ref, reason⟩ := rr
    simp only [malformedSuffix, reduceCtorEq, iff_false]
    intro h
    have hne : b!", malformed! " ≠ [] := by decide
    simp only [List.append_eq_nil_iff] at h
    exact hne h.1.1.1

/-- `String()` of a PUBLISH is its plain rendering followed by the 'malformed!' suffix, and the
suffix is present exactly when `WellFormed` reports an error -/
theorem C17_string_publish (p : Publish) :
    ∃ base, (Packet.publish p).string = .ok (base ++ malformedSuffix p.wellFormed)
      ∧ (malformedSuffix p.wellFormed = [] ↔ p.wellFormed = none) := by
  simp only [Packet.string, withForm_eq]
  exact ⟨_, rfl, malformedSuffix_nil _⟩

theorem C17_string_subscribe (s : Subscribe) :
    ∃ base, (Packet.subscribe s).string = .ok (base ++ malformedSuffix s.wellFormed)
      ∧ (malformedSuffix s.wellFormed = [] ↔ s.wellFormed = none) := by
  simp only [Packet.string, withForm_eq]
  exact ⟨_, rfl, malformedSuffix_nil _⟩

/-- non-vacuity, both sides of the alias rule: empty topic with an alias is well formed; without, not -/
example : ({ topicAlias := 5 } : Publish).wellFormed = none ∧ ({} : Publish).wellFormed = some ("topic name", "empty") := by
  decide

end Mq
