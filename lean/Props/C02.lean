import Props.Reach
import Proofs.EConnect
import Proofs.SpecParse
import Proofs.EncodeFields
/-!
# C02 — everything WriteTo emits is a structurally valid MQTT v5.0 frame

"Structurally valid" is the specification layer's `SPacket.Legal` (Spec.Types, written from the
standard, sharing no table with the model): allowed identifiers per packet with their wire type,
at most once unless repeatable, strings within 65 535 bytes, property length and remaining length
as minimal variable byte integers equal to what follows, the short forms only where MQTT allows
them, reserved bits as prescribed — and the frame is `unparse` of that abstract packet: first
byte, remaining length, body in the prescribed field order. The theorem exhibits, for every
packet of the domain, the abstract packet the emitted bytes are the writing of, and shows that its
specification-side reading (`view`, absent = zero value) equals the values set through the API.
`C02_reference_decoder` adds the strict parser: `Spec.parse` accepts the frame and reads the same values
(`Spec.parse_unparse`, Proofs.SpecParse: the parser and the generator of the specification layer agree).
-/
namespace Mq
open Spec (SPacket)

/-- the abstract packet the encoder's output is the writing of -/
def Packet.abs : Packet → Option SPacket
  | .undefined _ => none
  | .connect p => some p.abs
  | .connack p => some p.abs
  | .publish p => some p.abs
  | .puback p => some (Ack.abs 4 p) | .pubrec p => some (Ack.abs 5 p)
  | .pubrel p => some (Ack.abs 6 p) | .pubcomp p => some (Ack.abs 7 p)
  | .subscribe p => some p.abs
  | .suback p => some (SubAck.abs 9 p) | .unsuback p => some (SubAck.abs 11 p)
  | .unsubscribe p => some p.abs
  | .pingreq _ => some (.ping 12) | .pingresp _ => some (.ping 13)
  | .disconnect p => some p.abs
  | .auth p => some p.abs

/-- **C02**: for every packet of the domain the bytes `WriteTo` emits are exactly one frame, the
`unparse` of a legal abstract packet of the same type whose specification-side reading equals the
packet's accessor values -/
theorem C02_emits_valid (p : Packet) (h : p.InDomain) (bs : Bytes) (he : p.encode = .bytes bs) :
    ∃ sp : SPacket, p.abs = some sp ∧ sp.Legal ∧ sp.unparse = bs ∧ sp.kind = p.kind ∧ sp.view = p.view := by
  cases p with
  | undefined q => exact absurd h (by simp [Packet.InDomain])
  | connect q =>
    simp only [Packet.encode] at he
    cases hb : q.encode? with
    | none => simp [hb] at he
    | some b =>
      simp only [hb, Packet.Enc.bytes.injEq] at he; subst he
      obtain ⟨h1, h2, h3⟩ := E_connect q h b hb
      exact ⟨_, rfl, h1, h2, rfl, h3⟩
  | connack q =>
    simp only [Packet.encode, Packet.Enc.bytes.injEq] at he; subst he
    obtain ⟨h1, h2, h3⟩ := E_connack q h; exact ⟨_, rfl, h1, h2, rfl, h3⟩
  | publish q =>
    simp only [Packet.encode, Packet.Enc.bytes.injEq] at he; subst he
    obtain ⟨h1, h2, h3, _⟩ := E_publish q h; exact ⟨_, rfl, h1, h2, rfl, h3⟩
  | puback q | pubrec q | pubrel q | pubcomp q =>
    simp only [Packet.encode, Packet.Enc.bytes.injEq] at he; subst he
    obtain ⟨h1, h2, h3, h4, _⟩ := E_ack _ q h; exact ⟨_, rfl, h1, h2, h3, h4⟩
  | subscribe q =>
    simp only [Packet.encode, Packet.Enc.bytes.injEq] at he; subst he
    obtain ⟨h1, h2, h3⟩ := E_subscribe q h; exact ⟨_, rfl, h1, h2, rfl, h3⟩
  | suback q | unsuback q =>
    simp only [Packet.encode, Packet.Enc.bytes.injEq] at he; subst he
    obtain ⟨h1, h2, h3, h4, _⟩ := E_suback _ q h; exact ⟨_, rfl, h1, h2, h3, h4⟩
  | unsubscribe q =>
    simp only [Packet.encode, Packet.Enc.bytes.injEq] at he; subst he
    obtain ⟨h1, h2, h3⟩ := E_unsubscribe q h; exact ⟨_, rfl, h1, h2, rfl, h3⟩
  | pingreq q | pingresp q =>
    simp only [Packet.encode, Packet.Enc.bytes.injEq] at he; subst he
    obtain ⟨h1, h2, h3, _⟩ := E_ping _ q h; exact ⟨_, rfl, h1, h2, rfl, h3⟩
  | disconnect q =>
    simp only [Packet.encode, Packet.Enc.bytes.injEq] at he; subst he
    obtain ⟨h1, h2, h3⟩ := E_disconnect q h; exact ⟨_, rfl, h1, h2, rfl, h3⟩
  | auth q =>
    simp only [Packet.encode, Packet.Enc.bytes.injEq] at he; subst he
    obtain ⟨h1, h2, h3⟩ := E_auth q h; exact ⟨_, rfl, h1, h2, rfl, h3⟩

/-- **C02 as the property words it**: such a packet, when it is valid MQTT, is written as exactly
the `unparse` of a legal abstract packet with the same reading -/
theorem C02_api (k : Nat) (ops : List SetOp) (p : Packet) (h : (Packet.new k).applyAll ops = some p)
    (hok : ∀ op ∈ ops, op.OK) (hf : p.Final) (hv : p.FinalValid) (bs : Bytes) (he : p.encode = .bytes bs) :
    ∃ sp : SPacket, p.abs = some sp ∧ sp.Legal ∧ sp.unparse = bs ∧ sp.kind = p.kind ∧ sp.view = p.view :=
  C02_emits_valid p (Packet.api_inDomain k ops p h hok hf hv) bs he

theorem abs_canonical (p : Packet) (h : p.InDomain) (sp : SPacket) (ha : p.abs = some sp) : sp.Canonical := by
  cases p <;> simp only [Packet.abs, Option.some.injEq, reduceCtorEq] at ha <;> subst ha <;>
    simp only [Spec.SPacket.Canonical, Publish.abs, Ack.abs, SubAck.abs, Connect.abs, ConnAck.abs, Subscribe.abs,
      Unsubscribe.abs, Disconnect.abs, Auth.abs]
  rename_i q
  intro h0
  exact UInt16.toNat_inj.mp (by rw [h.2.2.1 h0])

/-- **C02, as the property words it**: the strict reference reader of the specification layer
(`Spec.parse`: minimal remaining length equal to what follows, nothing after the frame, reserved
flags, booleans 0/1, allowed identifiers per packet with their wire type, at most once unless
repeatable, non-empty lists where MQTT requires them) accepts every frame `WriteTo` emits and reads
back exactly the values that were set -/
theorem C02_reference_decoder (p : Packet) (h : p.InDomain) (bs : Bytes) (he : p.encode = .bytes bs) :
    ∃ sp : SPacket, Spec.parse bs = some sp ∧ sp.kind = p.kind ∧ sp.view = p.view := by
  obtain ⟨sp, habs, hl, hu, hk, hv⟩ := C02_emits_valid p h bs he
  exact ⟨sp, by rw [← hu]; exact Spec.parse_unparse sp hl (abs_canonical p h sp habs), hk, hv⟩

/-- exactly one frame and nothing else: first byte, the remaining length as the minimal variable
byte integer of the number of bytes that follow (below 2^28), those bytes -/
theorem C02_one_frame (p : Packet) (h : p.InDomain) (bs : Bytes) (he : p.encode = .bytes bs) :
    ∃ first body, bs = first :: (encVb body.length ++ body) ∧ body.length < 268435456 := by
  obtain ⟨sp, _, hl, hu, _, _⟩ := C02_emits_valid p h bs he
  exact ⟨sp.firstByte, sp.body, hu.symm, hl.2⟩

/-- **a whole session**: the bytes any number of in-domain packets put on one stream, written back to
back, are the concatenation of the frames of as many legal abstract packets, one per packet and in
the order written, each of the matching type and with the reading of its packet — nothing between
the frames, nothing after the last. -/
theorem C02_stream : ∀ (pbs : List (Packet × Bytes)), (∀ x ∈ pbs, x.1.InDomain ∧ x.1.encode = .bytes x.2) →
    ∃ sps : List SPacket, (∀ sp ∈ sps, sp.Legal) ∧ sps.flatMap (·.unparse) = (pbs.map (·.2)).flatten
      ∧ sps.map (fun sp => (sp.kind, sp.view)) = pbs.map (fun x => (x.1.kind, x.1.view)) := by
  intro pbs
  induction pbs with
  | nil => intro _; exact ⟨[], by simp, rfl, rfl⟩
  | cons x pbs ih =>
    intro hall
    obtain ⟨sp, _, hl, hu, hk, hv⟩ := C02_emits_valid x.1 (hall x (by simp)).1 x.2 (hall x (by simp)).2
    obtain ⟨sps, h1, h2, h3⟩ := ih (fun y hy => hall y (by simp [hy]))
    refine ⟨sp :: sps, ?_, ?_, ?_⟩
    · intro y hy
      rcases List.mem_cons.mp hy with rfl | hy
      · exact hl
      · exact h1 y hy
    · simp only [List.flatMap_cons, List.map_cons, List.flatten_cons]; rw [hu, h2]
    · simp only [List.map_cons]; rw [hk, hv, h3]

/-- non-vacuity of `C02_stream`'s premise: a PINGREQ followed by a PINGRESP -/
example : ∀ x ∈ [(Packet.pingreq { fixed := 0xc0 }, ([0xc0, 0x00] : Bytes)), (Packet.pingresp { fixed := 0xd0 }, [0xd0, 0x00])],
    x.1.InDomain ∧ x.1.encode = .bytes x.2 := by
  intro x h
  simp only [List.mem_cons, List.not_mem_nil, or_false] at h
  rcases h with rfl | rfl <;> exact ⟨by simp [Packet.InDomain, Ping.InDomain], by decide⟩

/-- the defect this property was written for cannot recur: an acknowledgement with reason code 0
and a property is written with its reason code — the abstract packet has form `full` -/
example :
    let p : Ack := { fixed := 0x40, packetID := 7, userProps := [([0x6b], [0x76])] }
    (Ack.abs 4 p) = .ack 4 7 .full 0 [⟨0x26, .pair [0x6b] [0x76]⟩]
    ∧ p.encode = [0x40, 0x0b, 0x00, 0x07, 0x00, 0x07, 0x26, 0x00, 0x01, 0x6b, 0x00, 0x01, 0x76] := by decide

/-- non-vacuity: a CONNECT with a will, credentials and properties is in the domain -/
example :
    let w : Publish := { topicName := [0x74], payload := [0x70], contentType := [0x63] }
    let c : Connect := ((Connect.new.setWill w).setUsername [0x75]).setPassword [0x73]
    (c.abs).legal = true ∧ c.flags = 0xc4 := by decide +kernel

end Mq
