import Proofs.Fixed
/-!
# C16 — packet type dispatch follows the first byte and header flags are preserved
-/
namespace Mq

/-- complete enumeration of the 256 first bytes (a finite table, not a sample) -/
theorem dispatch_table : ∀ n : Fin 256,
    (Packet.dispatch (UInt8.ofNat n.val)).kind = ((UInt8.ofNat n.val) >>> 4).toNat
    ∧ (((UInt8.ofNat n.val) >>> 4).toNat ≠ 0 → (Packet.dispatch (UInt8.ofNat n.val)).fixed = UInt8.ofNat n.val) := by
  decide +kernel

/-- for each of the 256 first bytes the packet type is the one selected by the upper four bits,
and (types 1–15) the packet keeps the whole byte, lower four bits included -/
theorem C16_dispatch (b : UInt8) :
    (Packet.dispatch b).kind = (b >>> 4).toNat ∧ ((b >>> 4).toNat ≠ 0 → (Packet.dispatch b).fixed = b) := by
  have := dispatch_table ⟨b.toNat, b.toNat_lt⟩
  simpa using this

/-- the type and the first byte survive decoding: for every frame that ReadPacket accepts, the
returned packet has the type selected by the first byte and (types 1–15) still carries that byte -/
theorem C16_decoded (b0 : UInt8) (body : Bytes) (q : Packet) (h : frameOutcome b0 body = .pkt q) :
    q.kind = (b0 >>> 4).toNat ∧ ((b0 >>> 4).toNat ≠ 0 → q.fixed = b0) := by
  have hd := C16_dispatch b0
  unfold frameOutcome at h
  split at h
  · simp at h; subst h; exact hd
  · have hk := Packet.unmarshal_kind_fixed (Packet.dispatch b0) body
    rcases hu : (Packet.dispatch b0).unmarshal body with ⟨q', st⟩
    rw [hu] at h hk
    cases st <;> simp at h
    subst h
    exact ⟨by rw [hk.1, hd.1], fun hne => by rw [hk.2, hd.2 hne]⟩

/-- type 0 yields Undefined carrying the frame's bytes -/
theorem C16_undefined (b0 : UInt8) (h : (b0 >>> 4).toNat = 0) (body : Bytes) (hb : body ≠ []) :
    frameOutcome b0 body = .pkt (.undefined { data := body }) := by
  have hd : Packet.dispatch b0 = .undefined {} := by
    unfold Packet.dispatch; rw [h]; rfl
  have hl : body.length ≠ 0 := by
    intro h0; exact hb (List.eq_nil_of_length_eq_zero h0)
  simp [frameOutcome, hd, hl, Packet.unmarshal, Undefined.unmarshal]

theorem publish_flags_table : ∀ n : Fin 256,
    let p : Publish := { fixed := UInt8.ofNat n.val }
    p.duplicate = ((UInt8.ofNat n.val) &&& 8 != 0) ∧ p.retain = ((UInt8.ofNat n.val) &&& 1 != 0)
      ∧ p.qos = ((UInt8.ofNat n.val) >>> 1) &&& 3 := by
  decide +kernel

/-- a PUBLISH reports DUP (bit 3), QoS (bits 2–1) and RETAIN (bit 0) of the first byte it carries -/
theorem C16_publish_flags (p : Publish) :
    p.duplicate = (p.fixed &&& 8 != 0) ∧ p.retain = (p.fixed &&& 1 != 0) ∧ p.qos = (p.fixed >>> 1) &&& 3 := by
  have := publish_flags_table ⟨p.fixed.toNat, p.fixed.toNat_lt⟩
  simpa [Publish.duplicate, Publish.retain, Publish.qos] using this

/-- writing a packet reproduces its first byte: whatever WriteTo emits starts with it -/
theorem C16_first_byte_back (b0 : UInt8) (body : Bytes) (q : Packet) (h : frameOutcome b0 body = .pkt q)
    (hne : (b0 >>> 4).toNat ≠ 0) (bs : Bytes) (he : q.encode = .bytes bs) : bs.head? = some b0 := by
  rw [Packet.encode_head q bs he, (C16_decoded b0 body q h).2 hne]

/-- non-vacuity -/
example : frameOutcome 0x3b [0x00, 0x01, 0x61, 0x00, 0x07, 0x00] =
    .pkt (.publish { fixed := 0x3b, topicName := [0x61], packetID := 7 }) := by decide
example : (Packet.publish { fixed := 0x3b, topicName := [0x61], packetID := 7 }).encode
    = .bytes [0x3b, 0x06, 0x00, 0x01, 0x61, 0x00, 0x07, 0x00] := by decide

end Mq
