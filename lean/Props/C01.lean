import Props.C02
import Props.C03
import Props.C16
import Proofs.Inject
import Proofs.FillPackets
/-!
# C01 — write then read returns the same packet, field for field

Proved here for the domain `Packet.InDomain` (Props/Domain.lean), which is the C01 domain
**restricted to packets that are structurally valid MQTT** (protocol name `MQTT` version 5, legal
subscription option bits, at least one reason code in SUBACK/UNSUBACK): on that domain the encoder's
output is a frame of the specification's language (C02), which the decoder accepts with the
specification's view (C03); the view and the first byte determine the packet value
(Proofs.Inject), so **`ReadPacket` returns the packet that was written, as a value** — every
accessor equal, nested will included, and re-encoding trivially byte-identical.

`C01_roundtrip_partial` is therefore not the full statement: the property also covers packets that
are constructible but not valid MQTT (any protocol name and version, all 256 subscription option
bytes, SUBACK/UNSUBACK without reason codes, all 256 reason codes are covered). For those the
round trip is established by the correspondence run only (`RT` oracle on generated packets, all
boundary lengths), not by a theorem. Full statement, for the record:
`∀ p in the C01 domain, readPacket (contig (encode p)) = (pkt q, ·) ∧ q.kind = p.kind ∧ q.view = p.view ∧ encode q = encode p`.
-/
namespace Mq
open Spec (SPacket)

theorem abs_firstByte (p : Packet) (h : p.InDomain) (sp : SPacket) (ha : p.abs = some sp) : sp.firstByte = p.fixed := by
  cases p <;> simp only [Packet.abs, Option.some.injEq, reduceCtorEq] at ha <;> subst ha <;> simp only [Packet.fixed]
  · exact h.1.symm ▸ rfl
  · exact h.1.symm ▸ rfl
  · exact (E_publish _ h).2.2.2
  · exact (E_ack _ _ h).2.2.2.2
  · exact (E_ack _ _ h).2.2.2.2
  · exact (E_ack _ _ h).2.2.2.2
  · exact (E_ack _ _ h).2.2.2.2
  · exact h.1.symm ▸ rfl
  · exact (E_suback _ _ h).2.2.2.2
  · exact h.1.symm ▸ rfl
  · exact (E_suback _ _ h).2.2.2.2
  · exact (E_ping _ _ h).2.2.2
  · exact (E_ping _ _ h).2.2.2
  · exact h.1.symm ▸ rfl
  · exact h.1.symm ▸ rfl

theorem kind_ne_zero_of_domain (p : Packet) (h : p.InDomain) : p.kind ≠ 0 := by
  cases p <;> simp [Packet.kind, Packet.InDomain] at h ⊢

theorem firstByte_nibble (sp : SPacket) (h : sp.Legal) : (sp.firstByte >>> 4).toNat = sp.kind := by
  obtain ⟨q, hq, hk, _⟩ := C03_frame sp h
  have := (C16_decoded sp.firstByte sp.body q hq).1
  rw [← this, hk]

/-- **C01 (on the structurally valid part of the domain)**: `ReadPacket` on the bytes `WriteTo`
produced — delivered by any reader under any schedule, followed by anything — returns, without
error, *the packet that was written* (same dynamic type, every field equal), and consumes exactly
the frame. Sizes are unbounded in the statement: strings of 0 … 65 535 bytes, remaining lengths in
their one- to four-byte forms. -/
theorem C01_roundtrip_partial (p : Packet) (h : p.InDomain) (bs : Bytes) (he : p.encode = .bytes bs)
    (r : Reader) (rest : Bytes) (hd : r.data = bs ++ rest) :
    (readPacket r).1 = .pkt p ∧ (readPacket r).2.data = rest := by
  obtain ⟨sp, habs, hleg, hun, hkind, hview⟩ := C02_emits_valid p h bs he
  obtain ⟨q, hq, hk, hv⟩ := C03_frame sp hleg
  have hfb := abs_firstByte p h sp habs
  have hne := kind_ne_zero_of_domain p h
  have hqf : q.fixed = p.fixed := by
    have := (C16_decoded sp.firstByte sp.body q hq).2 (by rw [firstByte_nibble sp hleg, hkind]; exact hne)
    rw [this, hfb]
  have hqp : q = p :=
    (Packet.eq_of_view p q (by rw [hk, hkind]) hqf.symm (by rw [hv, hview]) (Packet.canon_of_domain p h)
      (frameOutcome_canon _ _ q hq) hne).symm
  subst hqp
  have hp := (readPacket_pure r).1
  rw [hd, ← hun] at hp
  have : sp.unparse = frameBytes sp.firstByte sp.body := rfl
  rw [this, purePacket_frame sp.firstByte sp.body rest hleg.2] at hp
  simp only [Prod.mk.injEq] at hp
  exact ⟨by rw [hp.1, hq], hp.2⟩

/-- the consequences the property lists: same type, every accessor (nested will, user properties,
subscription identifiers, filters, reason codes in order), and byte-identical re-encoding -/
theorem C01_accessors_and_reencoding (p : Packet) (h : p.InDomain) (bs : Bytes) (he : p.encode = .bytes bs) :
    ∃ q, (readPacket (Reader.contig bs)).1 = .pkt q ∧ q.kind = p.kind ∧ q.view = p.view ∧ q.encodeG = .bytes bs := by
  obtain ⟨h1, _⟩ := C01_roundtrip_partial p h bs he (Reader.contig bs) [] (by simp [Reader.contig])
  exact ⟨p, h1, rfl, rfl, by rw [Packet.encodeG_eq, he]⟩

/-- non-vacuity and the boundary the property was written for: a PUBLISH whose topic is `n` bytes
long, for every `n` up to 65 535, is in the domain -/
example (n : Nat) (hn : n < 65536) : (Packet.publish { topicName := List.replicate n 0x61 }).InDomain := by
  have hq : ({ topicName := List.replicate n 0x61 } : Publish).qos = 0 := by
    show (if has 0x30 6 then 3 else if has 0x30 2 then 1 else if has 0x30 4 then 2 else 0 : UInt8) = 0; decide
  have hh : ({ topicName := List.replicate n 0x61 } : Publish).hasPacketID = false := by
    simp only [Publish.hasPacketID, hq]; decide
  have hp : ({ topicName := List.replicate n 0x61 } : Publish).props = [] := by
    simp [Publish.props, encPropOpt, WVal.isZero, encUserProps]
  refine ⟨by show (0x30 : UInt8) &&& 0xf0 = 0x30; decide, by rw [hq]; decide, fun _ => rfl, ?_, ?_, ?_, ?_, ?_, ?_, ?_⟩
  · simpa [strOK] using hn
  · simp [strOK]
  · simp [strOK]
  · simp [strOK]
  · intro kv hkv; simp at hkv
  · intro v hv; simp at hv
  · simp only [Publish.body, Publish.varHeader, hh, hp]
    simp [encVb, encVbAux]; omega

end Mq
