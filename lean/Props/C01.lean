import Props.C02
import Props.C03
import Props.C16
import Proofs.Inject
import Proofs.FillPackets
import Proofs.DConnectL
import Props.Reach
/-!
# C01 — write then read returns the same packet, field for field

`C01_roundtrip` is the full statement, on the whole C01 domain `Packet.InDomainL`
(Props/Domain.lean): every packet the constructors and setters build whose `WriteTo` succeeds —
strings of 0 … 65 535 bytes, remaining length up to 268 435 455, and also the packets that are
constructible but *not* valid MQTT: a CONNECT with any protocol name and version, a SUBSCRIBE with
any of the 256 option bytes per filter, a SUBACK/UNSUBACK without reason codes, any reason-code
byte. **`ReadPacket` returns the packet that was written, as a value** — same dynamic type, every
accessor equal, nested will included, re-encoding byte-identical — and consumes exactly the frame.

Route. On the structurally valid sub-domain `Packet.InDomain` the encoder's output is a frame of
the specification's language (C02), which the decoder accepts with the specification's view (C03);
the view and the first byte determine the packet value (Proofs.Inject). The three relaxations:
SUBSCRIBE and SUBACK/UNSUBACK go the same route through the *lenient* legality `Spec.SPacket.LegalL`
(`E_subscribe_L`/`D_subscribe_L`, `E_suback_L`/`D_suback_L`: the decoder never needed those two
restrictions); CONNECT goes by substitution (`Connect.unmarshal_subst`: the decoder stores the name
and version and never looks at them again), reducing any name/version to `MQTT`/5.
-/
namespace Mq
open Spec (SPacket)

theorem abs_firstByte (p : Packet) (h : p.InDomain) (sp : SPacket) (ha : p.abs = some sp) : sp.firstByte = p.fixed := by
  cases p <;> simp only [Packet.abs, Option.some.injEq, reduceCtorEq] at ha <;> subst ha <;> simp only [Packet.fixed]
  · exact h.1.symm ▸ rfl
  · exact h.1.symm ▸ rfl
  · exact (E_publish _ h).2.2.2
  · exact (E_ack _ _ h).2.2.2.2
  · exact (E_ack _ _ h).2.2.2.2
  · exact (E_ack _ _ h).2.2.2.2
  · exact (E_ack _ _ h).2.2.2.2
  · exact h.1.symm ▸ rfl
  · exact (E_suback _ _ h).2.2.2.2
  · exact h.1.symm ▸ rfl
  · exact (E_suback _ _ h).2.2.2.2
  · exact (E_ping _ _ h).2.2.2
  · exact (E_ping _ _ h).2.2.2
  · exact h.1.symm ▸ rfl
  · exact h.1.symm ▸ rfl

theorem kind_ne_zero_of_domain (p : Packet) (h : p.InDomain) : p.kind ≠ 0 := by
  cases p <;> simp [Packet.kind, Packet.InDomain] at h ⊢

theorem firstByte_nibble (sp : SPacket) (h : sp.Legal) : (sp.firstByte >>> 4).toNat = sp.kind := by
  obtain ⟨q, hq, hk, _⟩ := C03_frame sp h
  have := (C16_decoded sp.firstByte sp.body q hq).1
  rw [← this, hk]

/-- the core, with the specification as go-between: a packet whose encoding is the `unparse` of an
abstract packet that the decoder accepts with the specification's view decodes to itself -/
theorem roundtrip_of_spec (p : Packet) (sp : SPacket) (hkind : sp.kind = p.kind) (hview : sp.view = p.view)
    (hfb : sp.firstByte = p.fixed)
    (hD : ∃ q, frameOutcome sp.firstByte sp.body = .pkt q ∧ q.kind = sp.kind ∧ q.view = sp.view)
    (hc : p.Canon) (hne : p.kind ≠ 0) : frameOutcome p.fixed sp.body = .pkt p := by
  obtain ⟨q, hq, hk, hv⟩ := hD
  have hnib : (sp.firstByte >>> 4).toNat = sp.kind := by
    have := (C16_decoded sp.firstByte sp.body q hq).1
    rw [← this, hk]
  have hqf : q.fixed = p.fixed := by
    have := (C16_decoded sp.firstByte sp.body q hq).2 (by rw [hnib, hkind]; exact hne)
    rw [this, hfb]
  have hqp : q = p :=
    (Packet.eq_of_view p q (by rw [hk, hkind]) hqf.symm (by rw [hv, hview]) hc
      (frameOutcome_canon _ _ q hq) hne).symm
  subst hqp
  rw [← hfb]; exact hq

/-- a frame determines its body -/
theorem frameBytes_inj (b0 b1 : UInt8) (x y : Bytes) (hx : x.length < 268435456) (hy : y.length < 268435456)
    (h : frameBytes b0 x = frameBytes b1 y) : x = y := by
  simp only [frameBytes, List.cons.injEq] at h
  have h1 := pureVb_enc x.length hx default x
  have h2 := pureVb_enc y.length hy default y
  rw [h.2, h2] at h1
  simp only [Prod.mk.injEq] at h1
  exact h1.2.symm

/-- one frame, decoded to the packet itself — on the structurally valid part of the domain -/
theorem C01_frame_partial (p : Packet) (h : p.InDomain) (bs : Bytes) (he : p.encode = .bytes bs) :
    ∃ body, bs = frameBytes p.fixed body ∧ body.length < 268435456 ∧ frameOutcome p.fixed body = .pkt p := by
  obtain ⟨sp, habs, hleg, hun, hkind, hview⟩ := C02_emits_valid p h bs he
  have hfb := abs_firstByte p h sp habs
  refine ⟨sp.body, ?_, hleg.2, roundtrip_of_spec p sp hkind hview hfb (C03_frame sp hleg) (Packet.canon_of_domain p h)
    (kind_ne_zero_of_domain p h)⟩
  rw [← hun, ← hfb]; rfl

theorem Connect.canon_of_domainW (k : Nat) (c : Connect) (h : c.InDomainW k) : c.Canon := by
  obtain ⟨_, _, _, _, hwok, hnone, _⟩ := h
  exact ⟨fun w hw => ⟨(hwok w hw).2.2.2.2.2.2.1, (hwok w hw).1⟩, fun hw => (hnone hw).2.1⟩

theorem Connect.setNV_self (q : Connect) : (q.setNV Connect.mqtt5 5).setNV q.protocolName q.protocolVersion = q := rfl

/-- one frame, decoded to the packet itself — **on the whole C01 domain** -/
theorem C01_frame (p : Packet) (h : p.InDomainL) (bs : Bytes) (he : p.encode = .bytes bs) :
    ∃ body, bs = frameBytes p.fixed body ∧ body.length < 268435456 ∧ frameOutcome p.fixed body = .pkt p := by
  cases p with
  | connect q =>
    obtain ⟨hname, hdom, hlen⟩ := h
    simp only [Packet.encode] at he
    cases hb : q.encode? with
    | none => simp [hb] at he
    | some b =>
      simp only [hb, Packet.Enc.bytes.injEq] at he; subst he
      simp only [Connect.encode?, Option.map_eq_some_iff] at hb
      obtain ⟨body, hbody, rfl⟩ := hb
      have hfix : q.fixed = 0x10 := hdom.1
      refine ⟨body, by simp only [frame, frameBytes, Packet.fixed], hlen body hbody, ?_⟩
      obtain ⟨t, rfl, hb0⟩ := Connect.body?_split q body hbody
      -- the `MQTT`/5 twin decodes to itself
      have henc0 : (q.setNV Connect.mqtt5 5).encode? = some (frame 0x10 (encBin Connect.mqtt5 ++ 5 :: t)) := by
        simp only [Connect.encode?, hb0, Option.map_some]
        show some (frame q.fixed _) = _
        rw [hfix]
      obtain ⟨⟨hleg, hl4⟩, _, hview, hb0'⟩ := E_connect_core 4 (q.setNV Connect.mqtt5 5) hdom _ henc0
      rw [hb0] at hb0'
      simp only [Option.some.injEq] at hb0'
      have hout := roundtrip_of_spec (.connect (q.setNV Connect.mqtt5 5)) (q.setNV Connect.mqtt5 5).abs rfl hview
        (by show (0x10 : UInt8) = q.fixed; rw [hfix])
        (by
          obtain ⟨x, h1, h2⟩ := D_connect_core _ _ _ _ _ _ _ hleg hl4
          exact ⟨_, h1, rfl, h2⟩)
        (Connect.canon_of_domainW 4 _ hdom) (by simp [Packet.kind])
      rw [← hb0'] at hout
      simp only [Packet.fixed] at hout ⊢
      have hf0 : (q.setNV Connect.mqtt5 5).fixed = 0x10 := hfix
      rw [hf0] at hout; rw [hfix]
      unfold frameOutcome at hout ⊢
      rw [if_neg (by simp [encBin])] at hout ⊢
      have hd : Packet.dispatch 0x10 = .connect { fixed := 0x10 } := rfl
      rw [hd] at hout ⊢
      simp only [Packet.unmarshal] at hout ⊢
      rw [Connect.unmarshal_subst _ rfl q.protocolName hname q.protocolVersion t]
      rcases hu : ({ fixed := 0x10 } : Connect).unmarshal (encBin Connect.mqtt5 ++ 5 :: t) with ⟨q', st⟩
      rw [hu] at hout
      cases st <;> simp only [RP.pkt.injEq, Packet.connect.injEq, reduceCtorEq] at hout
      subst hout
      simp only [Connect.setNV_self]
  | subscribe q =>
    simp only [Packet.encode, Packet.Enc.bytes.injEq] at he; subst he
    obtain ⟨hl, hun, hview⟩ := E_subscribe_L q h
    have hfb : q.abs.firstByte = q.fixed := h.1.symm ▸ rfl
    refine ⟨q.abs.body, ?_, hl.2, roundtrip_of_spec (.subscribe q) q.abs rfl hview hfb ?_ trivial (by simp [Packet.kind])⟩
    · rw [← hun]; show _ = frameBytes q.fixed _; rw [← hfb]; rfl
    · obtain ⟨x, h1, h2⟩ := D_subscribe_L _ _ _ hl; exact ⟨_, h1, rfl, h2⟩
  | suback q =>
    simp only [Packet.encode, Packet.Enc.bytes.injEq] at he; subst he
    obtain ⟨hl, hun, hk, hview, hfb⟩ := E_suback_L 9 q h
    refine ⟨(SubAck.abs 9 q).body, ?_, hl.2, roundtrip_of_spec (.suback q) _ hk hview hfb ?_ trivial (by simp [Packet.kind])⟩
    · rw [← hun]; show _ = frameBytes q.fixed _; rw [← hfb]; rfl
    · obtain ⟨x, h1, h2, h3⟩ := D_suback_L 9 _ _ _ hl; exact ⟨x, h1, by rw [h2]; rfl, h3⟩
  | unsuback q =>
    simp only [Packet.encode, Packet.Enc.bytes.injEq] at he; subst he
    obtain ⟨hl, hun, hk, hview, hfb⟩ := E_suback_L 11 q h
    refine ⟨(SubAck.abs 11 q).body, ?_, hl.2, roundtrip_of_spec (.unsuback q) _ hk hview hfb ?_ trivial (by simp [Packet.kind])⟩
    · rw [← hun]; show _ = frameBytes q.fixed _; rw [← hfb]; rfl
    · obtain ⟨x, h1, h2, h3⟩ := D_suback_L 11 _ _ _ hl; exact ⟨x, h1, by rw [h2]; rfl, h3⟩
  | undefined q => exact C01_frame_partial (.undefined q) h bs he
  | connack q => exact C01_frame_partial (.connack q) h bs he
  | publish q => exact C01_frame_partial (.publish q) h bs he
  | puback q => exact C01_frame_partial (.puback q) h bs he
  | pubrec q => exact C01_frame_partial (.pubrec q) h bs he
  | pubrel q => exact C01_frame_partial (.pubrel q) h bs he
  | pubcomp q => exact C01_frame_partial (.pubcomp q) h bs he
  | unsubscribe q => exact C01_frame_partial (.unsubscribe q) h bs he
  | pingreq q => exact C01_frame_partial (.pingreq q) h bs he
  | pingresp q => exact C01_frame_partial (.pingresp q) h bs he
  | disconnect q => exact C01_frame_partial (.disconnect q) h bs he
  | auth q => exact C01_frame_partial (.auth q) h bs he

/-- **C01**: `ReadPacket` on the bytes `WriteTo` produced — delivered by any reader under any
schedule, followed by anything — returns, without error, *the packet that was written* (same
dynamic type, every field equal), and consumes exactly the frame. For every packet of the C01
domain; sizes are unbounded in the statement: strings of 0 … 65 535 bytes, remaining lengths in
their one- to four-byte forms. -/
theorem C01_roundtrip (p : Packet) (h : p.InDomainL) (bs : Bytes) (he : p.encode = .bytes bs)
    (r : Reader) (rest : Bytes) (hd : r.data = bs ++ rest) :
    (readPacket r).1 = .pkt p ∧ (readPacket r).2.data = rest := by
  obtain ⟨body, rfl, hlen, hout⟩ := C01_frame p h bs he
  have hp := (readPacket_pure r).1
  rw [hd, purePacket_frame p.fixed body rest hlen] at hp
  simp only [Prod.mk.injEq] at hp
  exact ⟨by rw [hp.1, hout], hp.2⟩

/-- the structurally valid domain is inside the C01 domain -/
theorem Packet.inDomainL_of_inDomain (p : Packet) (h : p.InDomain) (bs : Bytes) (he : p.encode = .bytes bs) :
    p.InDomainL := by
  cases p with
  | connect q =>
    obtain ⟨h1, h2, h3, h4⟩ := h
    have hq : q.setNV Connect.mqtt5 5 = q := by
      cases q; simp only [Connect.setNV] at h2 h3 ⊢; subst h2 h3; rfl
    obtain ⟨a4, a5, a6, a7, a8, a9, a10, a11, a12, hlen⟩ := h4
    exact ⟨by rw [h2]; unfold strOK; decide,
      by show (q.setNV Connect.mqtt5 5).InDomainW 4
         rw [hq]; exact ⟨h1, h2, h3, a4, a5, a6, a7, a8, a9, a10, a11, a12, fun b hb => by have := hlen b hb; omega⟩,
      hlen⟩
  | subscribe q =>
    obtain ⟨a, b, c, d, e, f⟩ := h
    exact ⟨a, b, c, d, fun x hx => (e x hx).1, f⟩
  | suback q => obtain ⟨a, b, c, d, e, f⟩ := h; exact ⟨a, b, c, d, f⟩
  | unsuback q => obtain ⟨a, b, c, d, e, f⟩ := h; exact ⟨a, b, c, d, f⟩
  | undefined q => exact h
  | connack q => exact h
  | publish q => exact h
  | puback q => exact h
  | pubrec q => exact h
  | pubrel q => exact h
  | pubcomp q => exact h
  | unsubscribe q => exact h
  | pingreq q => exact h
  | pingresp q => exact h
  | disconnect q => exact h
  | auth q => exact h

/-- the same on the structurally valid part alone (the earlier, weaker statement) -/
theorem C01_roundtrip_partial (p : Packet) (h : p.InDomain) (bs : Bytes) (he : p.encode = .bytes bs)
    (r : Reader) (rest : Bytes) (hd : r.data = bs ++ rest) :
    (readPacket r).1 = .pkt p ∧ (readPacket r).2.data = rest :=
  C01_roundtrip p (p.inDomainL_of_inDomain h bs he) bs he r rest hd

/-- **C01 as the property words it**: for every packet built with a public constructor and any
sequence of setter/adder calls whose arguments are inside MQTT's limits, `ReadPacket` on the bytes
`WriteTo` produced returns that very packet and consumes exactly the frame -/
theorem C01_api (k : Nat) (ops : List SetOp) (p : Packet) (h : (Packet.new k).applyAll ops = some p)
    (hok : ∀ op ∈ ops, op.OK) (hf : p.Final) (bs : Bytes) (he : p.encode = .bytes bs)
    (r : Reader) (rest : Bytes) (hd : r.data = bs ++ rest) :
    (readPacket r).1 = .pkt p ∧ (readPacket r).2.data = rest :=
  C01_roundtrip p (Packet.api_inDomainL k ops p h hok hf) bs he r rest hd

/-- the consequences the property lists: same type, every accessor (nested will, user properties,
subscription identifiers, filters, reason codes in order), and byte-identical re-encoding -/
theorem C01_accessors_and_reencoding (p : Packet) (h : p.InDomainL) (bs : Bytes) (he : p.encode = .bytes bs) :
    ∃ q, (readPacket (Reader.contig bs)).1 = .pkt q ∧ q.kind = p.kind ∧ q.view = p.view ∧ q.encodeG = .bytes bs := by
  obtain ⟨h1, _⟩ := C01_roundtrip p h bs he (Reader.contig bs) [] (by simp [Reader.contig])
  exact ⟨p, h1, rfl, rfl, by rw [Packet.encodeG_eq, he]⟩

/-- **a whole session**: any number of in-domain packets written back to back into one stream are
read back, by as many `ReadPacket` calls, as exactly those packets in that order — for every
fragmentation schedule of the reader and whatever follows the last frame (which is left unread).
One packet's content can therefore never leak into, truncate or shift its neighbour's. -/
theorem C01_stream : ∀ (pbs : List (Packet × Bytes)) (r : Reader) (tail : Bytes),
    (∀ x ∈ pbs, x.1.InDomainL ∧ x.1.encode = .bytes x.2) →
    r.data = (pbs.map (·.2)).flatten ++ tail →
    (readAll pbs.length r).1 = pbs.map (fun x => RP.pkt x.1) ∧ (readAll pbs.length r).2.data = tail := by
  intro pbs
  induction pbs with
  | nil => intro r tail _ hd; simpa [readAll] using hd
  | cons x pbs ih =>
    intro r tail hall hd
    have hx := hall x (by simp)
    have h1 := C01_roundtrip x.1 hx.1 x.2 hx.2 r ((pbs.map (·.2)).flatten ++ tail) (by rw [hd]; simp)
    have h2 := ih (readPacket r).2 tail (fun q hq => hall q (by simp [hq])) h1.2
    simp only [List.length_cons, readAll, List.map_cons]
    exact ⟨by rw [h1.1, h2.1], h2.2⟩

/-- non-vacuity: PINGREQ, a PUBACK and a DISCONNECT on one stream, one byte at a time, with a stray
trailing byte -/
example :
    let r : Reader := { data := [0xc0, 0x00, 0x40, 0x02, 0x00, 0x01, 0xe0, 0x00, 0xaa], sched := List.replicate 12 1 }
    (readAll 3 r).1 = [.pkt (.pingreq { fixed := 0xc0 }), .pkt (.puback { fixed := 0x40, packetID := 1 }),
                        .pkt (.disconnect { fixed := 0xe0 })]
      ∧ (readAll 3 r).2.data = [0xaa] := by decide

/-- non-vacuity and the boundary the property was written for: a PUBLISH whose topic is `n` bytes
long, for every `n` up to 65 535, is in the domain -/
example (n : Nat) (hn : n < 65536) : (Packet.publish { topicName := List.replicate n 0x61 }).InDomain := by
  have hq : ({ topicName := List.replicate n 0x61 } : Publish).qos = 0 := by
    show (if has 0x30 6 then 3 else if has 0x30 2 then 1 else if has 0x30 4 then 2 else 0 : UInt8) = 0; decide
  have hh : ({ topicName := List.replicate n 0x61 } : Publish).hasPacketID = false := by
    simp only [Publish.hasPacketID, hq]; decide
  have hp : ({ topicName := List.replicate n 0x61 } : Publish).props = [] := by
    simp [Publish.props, encPropOpt, WVal.isZero, encUserProps]
  refine ⟨by show (0x30 : UInt8) &&& 0xf0 = 0x30; decide, by rw [hq]; decide, fun _ => rfl, ?_, ?_, ?_, ?_, ?_, ?_, ?_⟩
  · simpa [strOK] using hn
  · simp [strOK]
  · simp [strOK]
  · simp [strOK]
  · intro kv hkv; simp at hkv
  · intro v hv; simp at hv
  · simp only [Publish.body, Publish.varHeader, hh, hp]
    simp [encVb, encVbAux]; omega

/-- non-vacuity of the relaxations: a CONNECT named `MQIsdp` version 3, a SUBSCRIBE whose option
byte is 0xff, an UNSUBACK with no reason code — each in the C01 domain -/
example : (Packet.subscribe { packetID := 1, filters := [{ filter := [0x61], options := 0xff }] }).InDomainL := by
  refine ⟨rfl, fun v hv => by simp at hv, fun kv hkv => by simp at hkv, by simp, ?_, by decide⟩
  intro f hf; simp only [List.mem_singleton] at hf; subst hf; unfold strOK; decide
example : (Packet.unsuback { fixed := 0xb0, packetID := 1 }).InDomainL :=
  ⟨Or.inr rfl, rfl, by unfold strOK; decide, fun kv hkv => by simp at hkv, by decide⟩

example : (Packet.connect (Connect.new.setNV [0x4d, 0x51, 0x49, 0x73, 0x64, 0x70] 3)).InDomainL := by
  have hs : ∀ b : Bytes, b.length < 65536 → strOK b := fun _ h => h
  refine ⟨hs _ (by decide), ?_, ?_⟩
  · show Connect.new.InDomainW 4
    refine ⟨rfl, rfl, rfl, Connect.new_inv, ?_, fun _ => ⟨rfl, rfl, by decide⟩, hs _ (by decide), hs _ (by decide),
      hs _ (by decide), hs _ (by decide), hs _ (by decide), ?_, ?_⟩
    · intro w hw; cases hw
    · intro kv hkv; cases hkv
    · intro b hb
      have h : Connect.new.body? = some [0, 4, 0x4d, 0x51, 0x54, 0x54, 5, 0, 0, 0, 0, 0, 0] := by decide
      rw [h] at hb; cases hb; decide
  · intro b hb
    have h : (Connect.new.setNV [0x4d, 0x51, 0x49, 0x73, 0x64, 0x70] 3).body?
        = some [0, 6, 0x4d, 0x51, 0x49, 0x73, 0x64, 0x70, 3, 0, 0, 0, 0, 0, 0] := by decide
    rw [h] at hb; cases hb; decide
end Mq
