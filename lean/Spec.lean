import Spec.Types
import Spec.Parse
