import Mq
import Mq.Ops
import Spec
import Std.Data.HashMap
/-!
# Driver — line-protocol interpreter for the model (one op per input line, one result line each)

See DESIGN.md §9 for the protocol. Core-only, compiled as `lean_exe driver`.
-/
open Mq

/-- slot contents: the packet and whether it is *tainted* — it was the target of a failed
`UnmarshalBinary`, after which Go leaves it partly modified in a way the model does not track.
For a tainted slot only normal return versus panic is reported. -/
structure Slot where
  p : Packet
  tainted : Bool := false
  /-- for a CONNECT: the slot whose PUBLISH was passed to `SetWill`. Go keeps the pointer: what is done to that
  PUBLISH afterwards shows through `Will()` and in everything the encoder reads live from it (the flags and the
  payload were copied by `SetWill`). -/
  willFrom : Option String := none

abbrev Slots := Std.HashMap String Slot

def kindOfName (s : String) : Option Nat :=
  (List.range 16).find? fun k => Packet.kindName k == s

def parseNat? (s : String) : Option Nat := s.toNat?
/-- Go `vbint(v)` for `v int`: a negative argument converts to `2^64 - |v|` (`vbint` is a 64-bit `uint`) -/
def parseIntAsUint? (s : String) : Option Nat :=
  if s.startsWith "-" then
    ((s.drop 1).toString.toNat?).bind fun k => if 0 < k ∧ k ≤ 9223372036854775808 then some (18446744073709551616 - k) else none
  else s.toNat?
def parseBool? (s : String) : Option Bool :=
  if s == "true" then some true else if s == "false" then some false else none
def parseU8? (s : String) : Option UInt8 := (parseNat? s).bind fun n => if n < 256 then some n.toUInt8 else none
def parseU16? (s : String) : Option UInt16 := (parseNat? s).bind fun n => if n < 65536 then some n.toUInt16 else none
def parseU32? (s : String) : Option UInt32 := (parseNat? s).bind fun n => if n < 4294967296 then some n.toUInt32 else none

def parseFilters : List String → Option (List TopicFilter)
  | [] => some []
  | f :: o :: rest => do
    let fb ← bytesOfHex f
    let ob ← parseU8? o
    let more ← parseFilters rest
    pure (⟨fb, ob⟩ :: more)
  | _ => none

def parseSetOp (slots : Slots) (name : String) (args : List String) : Option SetOp :=
  match name, args with
  | "SetWill", [w] => match slots.get? w with
    | some ⟨.publish q, _, _⟩ => some (.setWill q)
    | _ => none
  | "SetWillDelayInterval", [v] => (parseU32? v).map .setWillDelayInterval
  | "SetCleanStart", [v] => (parseBool? v).map .setCleanStart
  | "SetProtocolVersion", [v] => (parseU8? v).map .setProtocolVersion
  | "SetProtocolName", [v] => (bytesOfHex v).map .setProtocolName
  | "SetClientID", [v] => (bytesOfHex v).map .setClientID
  | "SetKeepAlive", [v] => (parseU16? v).map .setKeepAlive
  | "SetSessionExpiryInterval", [v] => (parseU32? v).map .setSessionExpiryInterval
  | "SetReceiveMax", [v] => (parseU16? v).map .setReceiveMax
  | "SetMaxPacketSize", [v] => (parseU32? v).map .setMaxPacketSize
  | "SetTopicAliasMax", [v] => (parseU16? v).map .setTopicAliasMax
  | "SetRequestResponseInfo", [v] => (parseBool? v).map .setRequestResponseInfo
  | "SetRequestProblemInfo", [v] => (parseBool? v).map .setRequestProblemInfo
  | "SetAuthMethod", [v] => (bytesOfHex v).map .setAuthMethod
  | "SetAuthData", [v] => (bytesOfHex v).map .setAuthData
  | "SetUsername", [v] => (bytesOfHex v).map .setUsername
  | "SetPassword", [v] => (bytesOfHex v).map .setPassword
  | "AddUserProp", [k, v] => do some (.addUserProp (← bytesOfHex k) (← bytesOfHex v))
  | "SetSessionPresent", [v] => (parseBool? v).map .setSessionPresent
  | "SetMaxQoS", [v] => (parseU8? v).map .setMaxQoS
  | "SetRetainAvailable", [v] => (parseBool? v).map .setRetainAvailable
  | "SetAssignedClientID", [v] => (bytesOfHex v).map .setAssignedClientID
  | "SetReasonCode", [v] => (parseU8? v).map .setReasonCode
  | "SetReasonString", [v] => (bytesOfHex v).map .setReasonString
  | "SetWildcardSubAvailable", [v] => (parseBool? v).map .setWildcardSubAvailable
  | "SetSubIdentifiersAvailable", [v] => (parseBool? v).map .setSubIdentifiersAvailable
  | "SetSharedSubAvailable", [v] => (parseBool? v).map .setSharedSubAvailable
  | "SetServerKeepAlive", [v] => (parseU16? v).map .setServerKeepAlive
  | "SetResponseInformation", [v] => (bytesOfHex v).map .setResponseInformation
  | "SetServerReference", [v] => (bytesOfHex v).map .setServerReference
  | "SetDuplicate", [v] => (parseBool? v).map .setDuplicate
  | "SetRetain", [v] => (parseBool? v).map .setRetain
  | "SetQoS", [v] => (parseU8? v).map .setQoS
  | "SetTopicName", [v] => (bytesOfHex v).map .setTopicName
  | "SetPacketID", [v] => (parseU16? v).map .setPacketID
  | "SetPayloadFormat", [v] => (parseBool? v).map .setPayloadFormat
  | "SetMessageExpiryInterval", [v] => (parseU32? v).map .setMessageExpiryInterval
  | "SetTopicAlias", [v] => (parseU16? v).map .setTopicAlias
  | "SetResponseTopic", [v] => (bytesOfHex v).map .setResponseTopic
  | "SetCorrelationData", [v] => (bytesOfHex v).map .setCorrelationData
  | "AddSubscriptionID", [v] => (parseU32? v).map .addSubscriptionID
  | "SetContentType", [v] => (bytesOfHex v).map .setContentType
  | "SetPayload", [v] => (bytesOfHex v).map .setPayload
  | "SetSubscriptionID", [v] => (parseIntAsUint? v).map .setSubscriptionID
  | "AddFilters", fs => (parseFilters fs).map .addFilters
  | "AddReasonCode", [v] => (parseU8? v).map .addReasonCode
  | "AddFilter", [v] => (bytesOfHex v).map .addFilter
  | _, _ => none

def viewLine (p : Packet) : String := Packet.kindName p.kind ++ " " ++ View.str p.view

def kv? (key : String) (toks : List String) : Option String :=
  toks.findSome? fun t => if t.startsWith (key ++ "=") then some ((t.drop (key.length + 1)).toString) else none

def parseSched (s : String) : Option (List Nat) :=
  if s == "-" then some [] else (s.splitOn ",").mapM parseNat?

def parseFail (s : String) : Option IOErr :=
  if s == "eof" then some .eof
  else if s.startsWith "E" then ((s.drop 1).toString.toNat?).map .custom
  else none

def b01 (b : Bool) : String := if b then "1" else "0"

def rendStr (tag : String) : Rend → String
  | .ok b => tag ++ " " ++ (if b = [] then "-" else hexOfBytes b)
  | .unmodelled => tag ++ " ?"
  | .panic => tag ++ " panic"

/-- run up to `calls` ReadPacket calls on the reader, collecting result strings -/
def rdCalls (failE : IOErr) : Nat → Reader → Option Packet → List String → List String × Option Packet
  | 0, _, last, acc => (acc.reverse, last)
  | n + 1, r, last, acc =>
    let (res, r') := readPacket r
    let c := r.data.length - r'.data.length
    match res with
    | .pkt p => rdCalls failE n r' (some p) (("pkt " ++ viewLine p ++ " c=" ++ toString c) :: acc)
    | .err e =>
      let isFail := match failE with | .custom _ => e.is failE | _ => false
      rdCalls failE n r' last
        (("err eof=" ++ b01 (e.is .eof) ++ " ueof=" ++ b01 (e.is .unexpectedEOF) ++ " fail=" ++ b01 isFail
          ++ " c=" ++ toString c) :: acc)
    | .panic => (("panic" :: acc).reverse, last)
    | .hang => (("hang" :: acc).reverse, last)

def wfStr : Option WF → String
  | none => "wf n/a"
  | some none => "wf nil"
  | some (some (ref, reason)) => "wf " ++ (ref ++ " " ++ reason).replace " " "_"

/-- the C01 oracle on the model: encode, read back, compare kind, view, re-encoding -/
def roundTrip (p : Packet) : String :=
  match p.encodeG with
  | .bytes b =>
    match readPacket (Reader.contig b) with
    | (.pkt q, r) =>
      if q.kind ≠ p.kind then "rt FAIL kind"
      else if q.view ≠ p.view then "rt FAIL view"
      else if q.encodeG ≠ .bytes b then "rt FAIL reencode"
      else if r.data ≠ [] then "rt FAIL leftover"
      else "rt ok"
    | (.err _, _) => "rt FAIL err"
    | (.panic, _) => "rt FAIL panic"
    | (.hang, _) => "rt FAIL hang"
  | .refuse => "rt FAIL refuse"
  | .panic => "rt FAIL encpanic"

/-- slot `w` now holds another object: CONNECTs that kept a pointer to the old one no longer follow the slot -/
def dropAlias (slots : Slots) (w : String) : Slots :=
  slots.fold (fun acc k v => if v.willFrom == some w then acc.insert k { v with willFrom := none } else acc) slots

/-- the PUBLISH in slot `w` was modified in place: every CONNECT that holds it as its will sees the new state -/
def followAlias (slots : Slots) (w : String) (q : Packet) : Slots :=
  match q with
  | .publish pub =>
    slots.fold (fun acc k v =>
      if v.willFrom == some w then
        match v.p with
        | .connect c => acc.insert k { v with p := .connect { c with will := some pub } }
        | _ => acc
      else acc) slots
  | _ => slots

/-- the operations one line stands for: `AddUserProp` is variadic — one call with several key/value pairs appends them in
order — every other setter is one operation -/
def parseSetOps (slots : Slots) (name : String) : List String → Option (List SetOp)
  | k :: v :: k2 :: rest =>
    if name == "AddUserProp" then do
      let op ← parseSetOp slots name [k, v]
      let more ← parseSetOps slots name (k2 :: rest)
      pure (op :: more)
    else (parseSetOp slots name (k :: v :: k2 :: rest)).map ([·])
  | args => (parseSetOp slots name args).map ([·])

def okOrPanic (tag : String) (panicked : Bool) : String :=
  if panicked then tag ++ " panic" else tag ++ " ok"

def step (slots : Slots) (line : String) : Slots × String :=
  let toks := (line.trimAscii.toString.splitOn " ").filter (· ≠ "")
  match toks with
  | "RESET" :: _ => ({}, "ok")
  | "NOTE" :: _ => (slots, "note")
  | ["NEW", s, k] => match kindOfName k with
    | some kk => ((dropAlias slots s).insert s ⟨Packet.new kk, false, none⟩, "ok")
    | none => (slots, "bad-op")
  | ["ZERO", s, k] => match kindOfName k with
    | some kk => ((dropAlias slots s).insert s ⟨Packet.zero kk, false, none⟩, "ok")
    | none => (slots, "bad-op")
  | "SET" :: s :: name :: args => match slots.get? s with
    | some ⟨p, t, wf⟩ => match parseSetOps slots name args with
      | some ops => match ops.foldlM (fun q op => q.apply op) p with
        | some q =>
          let wf' := if name == "SetWill" then args.head? else wf
          (followAlias (slots.insert s ⟨q, t, wf'⟩) s q, "ok")
        | none => (slots, "bad-op")
      | none => (slots, "bad-op")
    | none => (slots, "bad-op")
  | ["VIEW", s] => match slots.get? s with
    | some ⟨p, false, _⟩ => (slots, "view " ++ viewLine p)
    | some ⟨_, true, _⟩ => (slots, "view ok")
    | none => (slots, "bad-op")
  | ["ENC", s] => match slots.get? s with
    | some ⟨p, false, _⟩ => match p.encodeG with
      | .bytes b => (slots, "enc " ++ hexOfBytes b ++ " n=" ++ toString b.length ++ " err=0")
      | .refuse => (slots, "enc - n=0 err=1")
      | .panic => (slots, "enc panic")
    | some ⟨p, true, _⟩ => (slots, okOrPanic "enc" (p.encodeG == .panic))
    | none => (slots, "bad-op")
  | ["DEC", s, h] => match slots.get? s, bytesOfHex h with
    | some ⟨p, t, wf⟩, some d =>
      match p.unmarshal d with
      | (q, .ok) =>
        -- a CONNECT decoded with the will flag set gets a will of its own: it no longer follows the slot `SetWill` was given
        let wf' := match q with | .connect c => if has c.flags Connect.fWillFlag then none else wf | _ => wf
        (followAlias (slots.insert s ⟨q, t, wf'⟩) s q, if t then "dec ok" else "dec ok " ++ viewLine q)
      | (q, .err _) => (followAlias (slots.insert s ⟨q, true, wf⟩) s q, "dec err")
      | (q, .panic) => (followAlias (slots.insert s ⟨q, true, wf⟩) s q, "dec panic")
      | (q, .hang) => (followAlias (slots.insert s ⟨q, true, wf⟩) s q, "dec hang")
    | _, _ => (slots, "bad-op")
  | "RD" :: s :: h :: rest =>
    match bytesOfHex h, (kv? "sched" rest).bind parseSched, (kv? "eofwd" rest), (kv? "fail" rest).bind parseFail,
          (kv? "calls" rest).bind parseNat? with
    | some d, some sched, some ew, some fl, some calls =>
      let r : Reader := { data := d, sched := sched, eofWithData := ew == "1", fail := fl }
      let (outs, last) := rdCalls fl calls r none []
      let slots := match last with | some p => (dropAlias slots s).insert s ⟨p, false, none⟩ | none => slots
      (slots, "rd " ++ " || ".intercalate outs)
    | _, _, _, _, _ => (slots, "bad-op")
  | "WR" :: s :: rest =>
    match slots.get? s, kv? "accept" rest, kv? "err" rest with
    | some ⟨p, t, _⟩, some acc, some e =>
      let accept := if acc == "all" then none else acc.toNat?
      let err := if e == "0" then none else (e.drop 1).toString.toNat?
      let res := writeTo p { accept := accept, err := err }
      if res.panicked then (slots, "wr panic")
      else if t then (slots, "wr ok")
      else
        let errS := match res.err with
          | none => "none"
          | some (.io (.custom _)) => "w"
          | some _ => "other"
        (slots, "wr calls=" ++ toString res.calls.length ++ " off=" ++ ",".intercalate (res.calls.map hexOfBytes)
          ++ " n=" ++ toString res.n ++ " err=" ++ errS)
    | _, _, _ => (slots, "bad-op")
  | ["STR", s] => match slots.get? s with
    | some ⟨p, false, _⟩ => (slots, rendStr "str" p.string)
    | some ⟨p, true, _⟩ => (slots, okOrPanic "str" (p.string == .panic))
    | none => (slots, "bad-op")
  | ["DUMP", s] => match slots.get? s with
    | some ⟨p, false, _⟩ => (slots, rendStr "dump" p.dump)
    | some ⟨p, true, _⟩ => (slots, okOrPanic "dump" (p.dump == .panic))
    | none => (slots, "bad-op")
  | ["WF", s] => match slots.get? s with
    | some ⟨p, false, _⟩ => (slots, wfStr p.wellFormed)
    | some ⟨_, true, _⟩ => (slots, "wf ok")
    | none => (slots, "bad-op")
  | ["SCRIBBLE", _] => (slots, "ok")
  | ["FCOPY", _, _, _, _] => (slots, "ok")   -- a TopicFilter copied out of a packet and modified: the packet is untouched
  | ["RT", s] => match slots.get? s with
    | some ⟨p, false, _⟩ => (slots, roundTrip p)
    | some ⟨_, true, _⟩ => (slots, "rt ok")
    | none => (slots, "bad-op")
  | ["RDP", s, d] => match slots.get? s with
    | some ⟨p, false, _⟩ => match p.encodeG with
      | .bytes b => match readPacket (Reader.contig b) with
        | (.pkt q, _) => ((dropAlias slots d).insert d ⟨q, false, none⟩, "rdp " ++ viewLine q)
        | _ => (slots, "rdp err")
      | _ => (slots, "rdp err")
    | _ => (slots, "bad-op")
  | ["SPEC", h] => match bytesOfHex h with
    | some d => match Spec.parse d with
      | some sp => (slots, "spec " ++ Spec.kindName sp.kind ++ " " ++ View.str sp.view)
      | none => (slots, "spec reject")
    | none => (slots, "bad-op")
  | ["VB", "enc", n] => match n.toNat? with
    | some v => (slots, "vb " ++ hexOfBytes (encVb v))
    | none => (slots, "bad-op")
  | ["VB", "width", n] => match n.toNat? with
    | some v => (slots, "vb " ++ toString (vbWidth v))
    | none => (slots, "bad-op")
  | ["VB", "mem", h] => match bytesOfHex h with
    | some d => match decVb d with
      | .ok v w => (slots, "vb ok " ++ toString v ++ " " ++ toString w)
      | .err _ => (slots, "vb err")
      | .panic => (slots, "vb panic")
    | none => (slots, "bad-op")
  | ["VB", "stream", h] => match bytesOfHex h with
    | some d =>
      let (res, r) := readVb 5 (Reader.contig d) 1 0
      let c := d.length - r.data.length
      match res with
      | (some v, none) => (slots, "vb ok " ++ toString v ++ " " ++ toString c)
      | _ => (slots, "vb err " ++ toString c)
    | none => (slots, "bad-op")
  | [] => (slots, "")
  | _ => (slots, "bad-op")

partial def loop (h : IO.FS.Stream) (out : IO.FS.Stream) (slots : Slots) : IO Unit := do
  let line ← h.getLine
  if line.isEmpty then return ()
  let (slots', res) := step slots line
  out.putStrLn res
  loop h out slots'

def main : IO Unit := do
  let stdin ← IO.getStdin
  let stdout ← IO.getStdout
  loop stdin stdout {}
