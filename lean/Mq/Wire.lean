import Mq.Basic
/-!
# Mq.Wire — the wire types of `wiretypes.go`

Each Go wire type `T` has `fill`/`width` (modelled by `encT`, a byte list) and
`UnmarshalBinary` + `width()` (modelled by `decT : Dec _`, returning the decoded value together
with the width Go recomputes from it). Partial Go operations (slice index, slice expression)
are explicit `.panic` branches; the guards in front of them are the guards of the Go code.

Big-endian integers are modelled arithmetically (what `encoding/binary` computes).
-/
namespace Mq

/-! ## bits / wuint8 / Ident : one byte, `data[0]` unguarded (the guard is in `buffer.get`) -/

def decU8 : Dec UInt8
  | [] => .panic                       -- data[0] on an empty slice
  | a :: _ => .ok a 1

/-! ## wbool -/

def encBool (v : Bool) : Bytes := [if v then 1 else 0]

def decBool : Dec Bool
  | [] => .panic                       -- switch data[0]
  | a :: _ => if a = 0 then .ok false 1 else if a = 1 then .ok true 1 else .err .badBool

/-! ## wuint16 -/

def encU16 (v : UInt16) : Bytes := [UInt8.ofNat (v.toNat / 256), UInt8.ofNat (v.toNat % 256)]

def decU16 : Dec UInt16 := fun d =>
  if d.length < 2 then .err .missing   -- `if len(data) < 2 { return missing data }`
  else match d with
    | a :: b :: _ => .ok (UInt16.ofNat (a.toNat * 256 + b.toNat)) 2
    | _ => .panic                      -- binary.BigEndian.Uint16 on a short slice

/-! ## wuint32 -/

def encU32 (v : UInt32) : Bytes :=
  [UInt8.ofNat (v.toNat / 16777216), UInt8.ofNat (v.toNat / 65536 % 256),
   UInt8.ofNat (v.toNat / 256 % 256), UInt8.ofNat (v.toNat % 256)]

def decU32 : Dec UInt32 := fun d =>
  if d.length < 4 then .err .missing
  else match d with
    | a :: b :: c :: e :: _ =>
      .ok (UInt32.ofNat (((a.toNat * 256 + b.toNat) * 256 + c.toNat) * 256 + e.toNat)) 4
    | _ => .panic

/-! ## bindata / wstring : two-byte length prefix

`fill` writes `wuint16(len(v))` (which wraps for `len(v) ≥ 65536`) followed by all bytes. -/

def encBin (v : Bytes) : Bytes :=
  UInt8.ofNat (v.length / 256) :: UInt8.ofNat (v.length % 256) :: v

/-- the two-byte length prefix as `bindata.UnmarshalBinary` reads it -/
def binLen (d : Bytes) : Nat :=
  match decU16 d with
  | .ok v _ => v.toNat
  | _ => 0                             -- `_ = length.UnmarshalBinary(data)`: error ignored, length stays 0

/-- `bindata.UnmarshalBinary` then `width()`. `old` is the destination's previous content:
for a zero length prefix Go returns without touching the destination, so both the value and
the width `2 + len(*v)` are those of the old content. -/
def decBin (old : Bytes) : Dec Bytes := fun d =>
  let length : Nat := binLen d
  if d.length < length + 2 then .err .missing
  else if length = 0 then .ok old (2 + old.length)
  else .ok ((d.drop 2).take length) (2 + length)   -- make + copy(data[2:int(length)+2])

/-! ## rawdata : the rest of the frame -/

def decRaw : Dec Bytes := fun d => .ok d d.length

/-! ## UserProp : two strings -/

def encPair (kv : Bytes × Bytes) : Bytes := encBin kv.1 ++ encBin kv.2

def decPair : Dec (Bytes × Bytes) := fun d =>
  match decBin [] d with
  | .ok k _ =>
    if d.length < k.length + 2 then .panic          -- data[i:] with i > len(data)
    else match decBin [] (d.drop (k.length + 2)) with
      | .ok v _ => .ok (k, v) (2 + k.length + (2 + v.length))
      | .err e => .err e
      | .panic => .panic
  | .err e => .err e
  | .panic => .panic

/-! ## vbint : variable byte integer -/

/-- `vbint.fill`: the loop `for { b := x % 128; x /= 128; if x > 0 { b |= 128 }; …; if x == 0 break }`.
Structural recursion on a fuel argument (so that the kernel can evaluate it); `encVb_eq` in
`Proofs.Wire` is the loop equation without fuel. -/
def encVbAux : Nat → Nat → Bytes
  | 0, x => [UInt8.ofNat x]
  | fuel + 1, x =>
    if x < 128 then [UInt8.ofNat x] else UInt8.ofNat (x % 128 + 128) :: encVbAux fuel (x / 128)

def encVb (x : Nat) : Bytes := encVbAux x x

/-- `vbint.width()` = `fill(_LEN, 0)`. -/
def vbWidth (x : Nat) : Nat := (encVb x).length

/-- The in-memory decoder loop (`vbint.UnmarshalBinary`): `range data` with multiplier and
accumulator; the size guard sits after the addition, exactly as in Go; running out of bytes
before a terminator is "missing data". -/
def decVbLoop : Bytes → Nat → Nat → DecRes Nat
  | [], _, _ => .err .missing
  | b :: rest, mult, acc =>
    let acc' := acc + (b.toNat % 128) * mult
    if mult > 128 * 128 * 128 then .err .sizeExceeded
    else if b.toNat < 128 then .ok acc' (vbWidth acc')
    else decVbLoop rest (mult * 128) acc'

def decVb : Dec Nat := fun d => decVbLoop d 1 0   -- (`len(data) == 0` ⇒ missing is the `[]` case)

end Mq
