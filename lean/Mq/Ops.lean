import Mq.Packet
/-!
# Mq.Ops — the public setters and adders as data

`SetOp` has one constructor per exported setter/adder name of the Go API; `Packet.apply`
performs the call on the packet types that have a method of that name (`none` = no such method).
-/
namespace Mq

inductive SetOp
  | setWill (w : Publish)
  | setWillDelayInterval (v : UInt32)
  | setCleanStart (v : Bool)
  | setProtocolVersion (v : UInt8)
  | setProtocolName (v : Bytes)
  | setClientID (v : Bytes)
  | setKeepAlive (v : UInt16)
  | setSessionExpiryInterval (v : UInt32)
  | setReceiveMax (v : UInt16)
  | setMaxPacketSize (v : UInt32)
  | setTopicAliasMax (v : UInt16)
  | setRequestResponseInfo (v : Bool)
  | setRequestProblemInfo (v : Bool)
  | setAuthMethod (v : Bytes)
  | setAuthData (v : Bytes)
  | setUsername (v : Bytes)
  | setPassword (v : Bytes)
  | addUserProp (k v : Bytes)
  | setSessionPresent (v : Bool)
  | setMaxQoS (v : UInt8)
  | setRetainAvailable (v : Bool)
  | setAssignedClientID (v : Bytes)
  | setReasonCode (v : UInt8)
  | setReasonString (v : Bytes)
  | setWildcardSubAvailable (v : Bool)
  | setSubIdentifiersAvailable (v : Bool)
  | setSharedSubAvailable (v : Bool)
  | setServerKeepAlive (v : UInt16)
  | setResponseInformation (v : Bytes)
  | setServerReference (v : Bytes)
  | setDuplicate (v : Bool)
  | setRetain (v : Bool)
  | setQoS (v : UInt8)
  | setTopicName (v : Bytes)
  | setPacketID (v : UInt16)
  | setPayloadFormat (v : Bool)
  | setMessageExpiryInterval (v : UInt32)
  | setTopicAlias (v : UInt16)
  | setResponseTopic (v : Bytes)
  | setCorrelationData (v : Bytes)
  | addSubscriptionID (v : UInt32)
  | setContentType (v : Bytes)
  | setPayload (v : Bytes)
  | setSubscriptionID (v : Nat)
  | addFilters (fs : List TopicFilter)
  | addReasonCode (v : UInt8)
  | addFilter (v : Bytes)
deriving Repr, DecidableEq

namespace Connect
def apply (p : Connect) : SetOp → Option Connect
  | .setWill w => some (p.setWill w)
  | .setWillDelayInterval v => some { p with willDelayInterval := v }
  | .setCleanStart v => some (p.setCleanStart v)
  | .setProtocolVersion v => some { p with protocolVersion := v }
  | .setProtocolName v => some { p with protocolName := v }
  | .setClientID v => some { p with clientID := v }
  | .setKeepAlive v => some { p with keepAlive := v }
  | .setSessionExpiryInterval v => some { p with sessionExpiryInterval := v }
  | .setReceiveMax v => some { p with receiveMax := v }
  | .setMaxPacketSize v => some { p with maxPacketSize := v }
  | .setTopicAliasMax v => some { p with topicAliasMax := v }
  | .setRequestResponseInfo v => some { p with requestResponseInfo := v }
  | .setRequestProblemInfo v => some { p with requestProblemInfo := v }
  | .setAuthMethod v => some { p with authMethod := v }
  | .setAuthData v => some { p with authData := v }
  | .setUsername v => some (p.setUsername v)
  | .setPassword v => some (p.setPassword v)
  | .addUserProp k v => some { p with userProps := p.userProps ++ [(k, v)] }
  | _ => none
end Connect

namespace ConnAck
def apply (p : ConnAck) : SetOp → Option ConnAck
  | .setSessionPresent v => some (p.setSessionPresent v)
  | .setSessionExpiryInterval v => some { p with sessionExpiryInterval := v }
  | .setReceiveMax v => some { p with receiveMax := v }
  | .setMaxQoS v => some { p with maxQoS := v }
  | .setRetainAvailable v => some { p with retainAvailable := v }
  | .setMaxPacketSize v => some { p with maxPacketSize := v }
  | .setAssignedClientID v => some { p with assignedClientID := v }
  | .setTopicAliasMax v => some { p with topicAliasMax := v }
  | .setReasonCode v => some { p with reasonCode := v }
  | .setReasonString v => some { p with reasonString := v }
  | .setWildcardSubAvailable v => some { p with wildcardSubAvailable := v }
  | .setSubIdentifiersAvailable v => some { p with subIdentifiersAvailable := v }
  | .setSharedSubAvailable v => some { p with sharedSubAvailable := v }
  | .setServerKeepAlive v => some { p with serverKeepAlive := v }
  | .setResponseInformation v => some { p with responseInformation := v }
  | .setServerReference v => some { p with serverReference := v }
  | .setAuthMethod v => some { p with authMethod := v }
  | .setAuthData v => some { p with authData := v }
  | .addUserProp k v => some { p with userProps := p.userProps ++ [(k, v)] }
  | _ => none
end ConnAck

namespace Publish
def apply (p : Publish) : SetOp → Option Publish
  | .setDuplicate v => some (p.setDuplicate v)
  | .setRetain v => some (p.setRetain v)
  | .setQoS v => some (p.setQoS v)
  | .setTopicName v => some { p with topicName := v }
  | .setPacketID v => some { p with packetID := v }
  | .setPayloadFormat v => some { p with payloadFormat := v }
  | .setMessageExpiryInterval v => some { p with messageExpiryInterval := v }
  | .setTopicAlias v => some { p with topicAlias := v }
  | .setResponseTopic v => some { p with responseTopic := v }
  | .setCorrelationData v => some { p with correlationData := v }
  | .addSubscriptionID v => some { p with subscriptionIDs := p.subscriptionIDs ++ [v] }
  | .setContentType v => some { p with contentType := v }
  | .setPayload v => some { p with payload := v }
  | .addUserProp k v => some { p with userProps := p.userProps ++ [(k, v)] }
  | _ => none
end Publish

namespace Ack
def apply (p : Ack) : SetOp → Option Ack
  | .setPacketID v => some { p with packetID := v }
  | .setReasonCode v => some { p with reasonCode := v }
  | .setReasonString v => some { p with reason := v }
  | .addUserProp k v => some { p with userProps := p.userProps ++ [(k, v)] }
  | _ => none
end Ack

namespace Subscribe
def apply (p : Subscribe) : SetOp → Option Subscribe
  | .setPacketID v => some { p with packetID := v }
  | .setSubscriptionID v => some { p with subscriptionID := some v }
  | .addFilters fs => some { p with filters := p.filters ++ fs }
  | .addUserProp k v => some { p with userProps := p.userProps ++ [(k, v)] }
  | _ => none
end Subscribe

namespace SubAck
def apply (p : SubAck) : SetOp → Option SubAck
  | .setPacketID v => some { p with packetID := v }
  | .setReasonString v => some { p with reasonString := v }
  | .addReasonCode v => some { p with reasonCodes := p.reasonCodes ++ [v] }
  | .addUserProp k v => some { p with userProps := p.userProps ++ [(k, v)] }
  | _ => none
end SubAck

namespace Unsubscribe
def apply (p : Unsubscribe) : SetOp → Option Unsubscribe
  | .setPacketID v => some { p with packetID := v }
  | .addFilter v => some { p with filters := p.filters ++ [v] }
  | .addUserProp k v => some { p with userProps := p.userProps ++ [(k, v)] }
  | _ => none
end Unsubscribe

namespace Disconnect
def apply (p : Disconnect) : SetOp → Option Disconnect
  | .setReasonCode v => some { p with reasonCode := v }
  | .setReasonString v => some { p with reasonString := v }
  | .setSessionExpiryInterval v => some { p with sessionExpiryInterval := v }
  | .setServerReference v => some { p with serverReference := v }
  | .addUserProp k v => some { p with userProps := p.userProps ++ [(k, v)] }
  | _ => none
end Disconnect

namespace Auth
def apply (p : Auth) : SetOp → Option Auth
  | .setReasonCode v => some { p with reasonCode := v }
  | .setAuthMethod v => some { p with authMethod := v }
  | .setAuthData v => some { p with authData := v }
  | .setReasonString v => some { p with reasonString := v }
  | .addUserProp k v => some { p with userProps := p.userProps ++ [(k, v)] }
  | _ => none
end Auth

def Packet.apply : Packet → SetOp → Option Packet
  | .connect p, op => (p.apply op).map .connect
  | .connack p, op => (p.apply op).map .connack
  | .publish p, op => (p.apply op).map .publish
  | .puback p, op => (p.apply op).map .puback
  | .pubrec p, op => (p.apply op).map .pubrec
  | .pubrel p, op => (p.apply op).map .pubrel
  | .pubcomp p, op => (p.apply op).map .pubcomp
  | .subscribe p, op => (p.apply op).map .subscribe
  | .suback p, op => (p.apply op).map .suback
  | .unsubscribe p, op => (p.apply op).map .unsubscribe
  | .unsuback p, op => (p.apply op).map .unsuback
  | .disconnect p, op => (p.apply op).map .disconnect
  | .auth p, op => (p.apply op).map .auth
  | .pingreq _, _ | .pingresp _, _ | .undefined _, _ => none

end Mq
