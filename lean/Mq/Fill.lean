import Mq.Packet
/-!
# Mq.Fill — the encoder as the Go code runs it: `fill(buf, i) int` and the two-pass `WriteTo`

Every wire type and every packet section of the library has a method `fill(buf []byte, i int) int`
that writes its bytes into `buf` at offset `i` **if the buffer is long enough** and returns the
width in either case; called with the nil slice `_LEN` it is a dry run that only measures.
`WriteTo` allocates `fill(_LEN, 0)` bytes, calls `fill` again on that buffer and hands it to the
writer in one `Write`; `String()` prints `width()`. This file models exactly that: a `Filler` is the
Go method (buffer in, buffer out, width), with the guards the Go code has; `Packet.encode`
(list append, `Mq.Packet`) is the specification these fillers are proved to refine
(`Proofs.Fill`: `Sound`, `two_pass`).
-/
namespace Mq

/-- `fill(buf, i)`: the buffer afterwards and the returned width -/
abbrev Filler := Bytes → Nat → Bytes × Nat

namespace Filler

/-- `i += f(b, i); i += g(b, i)` -/
def seq (f g : Filler) : Filler := fun b i =>
  let r1 := f b i
  let r2 := g r1.1 (i + r1.2)
  (r2.1, r1.2 + r2.2)

/-- nothing written, width 0 -/
def nop : Filler := fun b _ => (b, 0)

/-- `n := i; i += f₁(b, i); …; i += fₖ(b, i); return i - n` -/
def seqs : List Filler → Filler
  | [] => nop
  | f :: fs => seq f (seqs fs)

/-- `f(_LEN, 0)`: the dry run -/
def dry (f : Filler) : Nat := (f [] 0).2

/-- placeholders the source translator (extract/encgen.go) emits for a construct it does not
understand; they compile, and the tie theorems (Proofs/Tie/Enc.lean) then fail -/
def unknown (_src : String) : Filler := nop
def unknownNat (_src : String) : Nat := 0
def unknownCond (_src : String) : Bool := false

end Filler

/-! ## wire types (`wiretypes.go`) -/

/-- `binary.BigEndian.PutUint16(data[i:], v)` for `i+2 ≤ len(data)` -/
def putU16 (b : Bytes) (i : Nat) (v : UInt16) : Bytes :=
  (b.set i (UInt8.ofNat (v.toNat / 256))).set (i + 1) (UInt8.ofNat (v.toNat % 256))

/-- `binary.BigEndian.PutUint32(data[i:], v)` for `i+4 ≤ len(data)` -/
def putU32 (b : Bytes) (i : Nat) (v : UInt32) : Bytes :=
  (((b.set i (UInt8.ofNat (v.toNat / 16777216))).set (i + 1) (UInt8.ofNat (v.toNat / 65536 % 256))).set (i + 2)
    (UInt8.ofNat (v.toNat / 256 % 256))).set (i + 3) (UInt8.ofNat (v.toNat % 256))

/-- `binary.BigEndian.Uint16(data)` for `2 ≤ len(data)` (the Go call panics on a shorter slice; the decoders guard it) -/
def beU16 (d : Bytes) : UInt16 :=
  match d with
  | a :: b :: _ => UInt16.ofNat (a.toNat * 256 + b.toNat)
  | _ => 0

/-- `binary.BigEndian.Uint32(data)` for `4 ≤ len(data)` -/
def beU32 (d : Bytes) : UInt32 :=
  match d with
  | a :: b :: c :: e :: _ => UInt32.ofNat (((a.toNat * 256 + b.toNat) * 256 + c.toNat) * 256 + e.toNat)
  | _ => 0

/-- `bits.fill` / `Ident.fill`: `if len(data) >= i+1 { data[i] = v }; return 1` -/
def fillByte (v : UInt8) : Filler := fun b i => (if b.length ≥ i + 1 then b.set i v else b, 1)

/-- `wbool.fill` -/
def fillBool (v : Bool) : Filler := fun b i =>
  (if b.length ≥ i + 1 then b.set i (if v then 1 else 0) else b, 1)

/-- `wuint16.fill`: `if len(data) >= i+2 { binary.BigEndian.PutUint16(data[i:], v) }; return 2` -/
def fillU16 (v : UInt16) : Filler := fun b i =>
  (if b.length ≥ i + 2 then (b.set i (UInt8.ofNat (v.toNat / 256))).set (i + 1) (UInt8.ofNat (v.toNat % 256)) else b, 2)

/-- `wuint32.fill` -/
def fillU32 (v : UInt32) : Filler := fun b i =>
  (if b.length ≥ i + 4 then
     (((b.set i (UInt8.ofNat (v.toNat / 16777216))).set (i + 1) (UInt8.ofNat (v.toNat / 65536 % 256))).set (i + 2)
        (UInt8.ofNat (v.toNat / 256 % 256))).set (i + 3) (UInt8.ofNat (v.toNat % 256))
   else b, 4)

/-- `copy(data[i:], src)` for `i ≤ len(data)`: as many bytes as fit -/
def copyAt (b : Bytes) (i : Nat) (src : Bytes) : Bytes :=
  b.take i ++ src.take (b.length - i) ++ b.drop (i + min src.length (b.length - i))

/-- `bindata.fill`: `if len(data) >= i+v.width() { i += wuint16(len(v)).fill(data, i); copy(data[i:], v) }; return v.width()` -/
def fillBin (v : Bytes) : Filler := fun b i =>
  if b.length ≥ i + (2 + v.length) then
    let r := fillU16 (UInt16.ofNat v.length) b i
    (copyAt r.1 (i + r.2) v, 2 + v.length)
  else (b, 2 + v.length)

/-- `rawdata.fill`: `if len(data) >= i+v.width() { return copy(data[i:], v) }; return v.width()` -/
def fillRaw (v : Bytes) : Filler := fun b i =>
  if b.length ≥ i + v.length then (copyAt b i v, min v.length (b.length - i)) else (b, v.length)

/-- `UserProp.fill`: `i += wstring(v[0]).fill(data, i); _ = wstring(v[1]).fill(data, i); return v.width()` -/
def fillPair (k v : Bytes) : Filler := fun b i =>
  let r1 := fillBin k b i
  let r2 := fillBin v r1.1 (i + r1.2)
  (r2.1, (2 + k.length) + (2 + v.length))

/-- `vbint.fill`: the loop writes each byte under its own guard `if i < len(data)`. One unit of
fuel per iteration (`x` itself always suffices). Returns the buffer and the number of bytes. -/
def fillVbAux : Nat → Nat → Bytes → Nat → Bytes × Nat
  | 0, x, b, i => (if i < b.length then b.set i (UInt8.ofNat x) else b, 1)
  | fuel + 1, x, b, i =>
    let e := if x / 128 > 0 then x % 128 + 128 else x % 128
    let b' := if i < b.length then b.set i (UInt8.ofNat e) else b
    if x / 128 = 0 then (b', 1)
    else
      let r := fillVbAux fuel (x / 128) b' (i + 1)
      (r.1, r.2 + 1)

def fillVb (x : Nat) : Filler := fun b i => fillVbAux x x b i

/-- `fill` of a property value by its wire type -/
def fillV : WVal → Filler
  | .u8 v => fillByte v
  | .u16 v => fillU16 v
  | .u32 v => fillU32 v
  | .bool v => fillBool v
  | .bin v => fillBin v
  | .pair k v => fillPair k v
  | .vb n => fillVb n

/-- `v.fillProp(data, i, id)`: `if <zero value> { return 0 }; n := i; i += id.fill(data, i); i += v.fill(data, i); return i - n`
(the same five lines on every wire type) -/
def fillProp (id : UInt8) (v : WVal) : Filler := fun b i =>
  if v.isZero then (b, 0) else Filler.seq (fillByte id) (fillV v) b i

/-- `UserProperties.properties(b, i)` -/
def fillUserProps (ups : UserProps) : Filler :=
  Filler.seqs (ups.map fun kv => fillProp 0x26 (.pair kv.1 kv.2))

/-- first byte, remaining length computed by a dry run of `rest`, then `rest` — the shape of every
packet's `fill(b, 0)` -/
def fillFrame (fixed : UInt8) (rest : Filler) : Filler :=
  Filler.seqs [fillByte fixed, fillVb rest.dry, rest]

/-! ## packets -/

namespace Ack
def propertiesG (p : Ack) : Filler := Filler.seqs [fillProp 0x1f (.bin p.reason), fillUserProps p.userProps]

/-- `variableHeader`: `propl := vbint(p.properties(_LEN, 0))`, reason code if non-zero or
properties follow, property section if there are properties -/
def variableHeaderG (p : Ack) : Filler := fun b i =>
  let propl := p.propertiesG.dry
  Filler.seqs [fillU16 p.packetID,
    (if p.reasonCode ≠ 0 ∨ propl > 0 then fillByte p.reasonCode else Filler.nop),
    (if propl > 0 then Filler.seq (fillVb propl) p.propertiesG else Filler.nop)] b i

def fillG (p : Ack) : Filler := fillFrame p.fixed p.variableHeaderG
end Ack

namespace Ping
/-- `i += p.fixed.fill(b, i); i += vbint(0).fill(b, i)` -/
def fillG (p : Ping) : Filler := Filler.seqs [fillByte p.fixed, fillVb 0]
end Ping

namespace Disconnect
def propertiesG (p : Disconnect) : Filler :=
  Filler.seqs [fillProp 0x11 (.u32 p.sessionExpiryInterval), fillProp 0x1f (.bin p.reasonString),
    fillProp 0x1c (.bin p.serverReference), fillUserProps p.userProps]

def variableHeaderG (p : Disconnect) : Filler := fun b i =>
  let proplen := p.propertiesG.dry
  if p.reasonCode = 0 ∧ proplen = 0 then (b, 0)
  else Filler.seqs [fillByte p.reasonCode, fillVb proplen, p.propertiesG] b i

def fillG (p : Disconnect) : Filler := fillFrame p.fixed p.variableHeaderG
end Disconnect

namespace Auth
def propertiesG (p : Auth) : Filler :=
  Filler.seqs [fillProp 0x15 (.bin p.authMethod), fillProp 0x16 (.bin p.authData),
    fillProp 0x1f (.bin p.reasonString), fillUserProps p.userProps]

def variableHeaderG (p : Auth) : Filler := fun b i =>
  let proplen := p.propertiesG.dry
  if p.reasonCode = 0 ∧ proplen = 0 then (b, 0)
  else Filler.seqs [fillByte p.reasonCode, fillVb proplen, p.propertiesG] b i

def fillG (p : Auth) : Filler := fillFrame p.fixed p.variableHeaderG
end Auth

namespace SubAck
/-- the single-entry `propertyMap()` is ranged over: one `fillProp` -/
def propertiesG (p : SubAck) : Filler := Filler.seqs [fillProp 0x1f (.bin p.reasonString), fillUserProps p.userProps]

def variableHeaderG (p : SubAck) : Filler :=
  Filler.seqs [fillU16 p.packetID, fillVb p.propertiesG.dry, p.propertiesG]

/-- `for j := range p.reasonCodes { i += wuint8(p.reasonCodes[j]).fill(b, i) }` -/
def payloadG (p : SubAck) : Filler := Filler.seqs (p.reasonCodes.map fillByte)

/-- `remainingLen := vbint(p.variableHeader(_LEN, 0) + p.payload(_LEN, 0))` -/
def fillG (p : SubAck) : Filler :=
  Filler.seqs [fillByte p.fixed, fillVb (p.variableHeaderG.dry + p.payloadG.dry), p.variableHeaderG, p.payloadG]
end SubAck

namespace TopicFilter
/-- `TopicFilter.fill`: filter string, options byte -/
def fillG (f : TopicFilter) : Filler := Filler.seqs [fillBin f.filter, fillByte f.options]
end TopicFilter

namespace Subscribe
/-- ranging over the single-entry `propertyMap(false)`: a nil `*vbint` is skipped -/
def propertiesG (p : Subscribe) : Filler :=
  Filler.seqs [(match p.subscriptionID with
                | some v => fillProp 0x0b (.vb v)
                | none => Filler.nop),
               fillUserProps p.userProps]

def variableHeaderG (p : Subscribe) : Filler :=
  Filler.seqs [fillU16 p.packetID, fillVb p.propertiesG.dry, p.propertiesG]

def payloadG (p : Subscribe) : Filler := Filler.seqs (p.filters.map TopicFilter.fillG)

def fillG (p : Subscribe) : Filler :=
  Filler.seqs [fillByte p.fixed, fillVb (p.variableHeaderG.dry + p.payloadG.dry), p.variableHeaderG, p.payloadG]
end Subscribe

namespace Unsubscribe
def propertiesG (p : Unsubscribe) : Filler := fillUserProps p.userProps

def variableHeaderG (p : Unsubscribe) : Filler :=
  Filler.seqs [fillU16 p.packetID, fillVb p.propertiesG.dry, p.propertiesG]

def payloadG (p : Unsubscribe) : Filler := Filler.seqs (p.filters.map fillBin)

def fillG (p : Unsubscribe) : Filler :=
  Filler.seqs [fillByte p.fixed, fillVb (p.variableHeaderG.dry + p.payloadG.dry), p.variableHeaderG, p.payloadG]
end Unsubscribe

namespace Publish
def propertiesG (p : Publish) : Filler :=
  Filler.seqs [fillProp 0x01 (.bool p.payloadFormat), fillProp 0x02 (.u32 p.messageExpiryInterval),
    fillProp 0x23 (.u16 p.topicAlias), fillProp 0x08 (.bin p.responseTopic),
    fillProp 0x09 (.bin p.correlationData), fillProp 0x03 (.bin p.contentType),
    fillUserProps p.userProps,
    Filler.seqs (p.subscriptionIDs.map fun v => fillProp 0x0b (.vb v.toNat))]

def variableHeaderG (p : Publish) : Filler :=
  Filler.seqs [fillBin p.topicName,
    (if p.hasPacketID then fillU16 p.packetID else Filler.nop),
    fillVb p.propertiesG.dry, p.propertiesG]

/-- `fill`: the payload is measured and written only `if len(p.payload) > 0` -/
def fillG (p : Publish) : Filler := fun b i =>
  let remainingLen := p.variableHeaderG.dry + (if p.payload.length > 0 then (fillRaw p.payload).dry else 0)
  Filler.seqs [fillByte p.fixed, fillVb remainingLen, p.variableHeaderG,
    (if p.payload.length > 0 then fillRaw p.payload else Filler.nop)] b i
end Publish

namespace ConnAck
def propertiesG (p : ConnAck) : Filler :=
  Filler.seqs [fillProp 0x21 (.u16 p.receiveMax), fillProp 0x11 (.u32 p.sessionExpiryInterval),
    fillProp 0x24 (.u8 p.maxQoS), fillProp 0x25 (.bool p.retainAvailable),
    fillProp 0x27 (.u32 p.maxPacketSize), fillProp 0x12 (.bin p.assignedClientID),
    fillProp 0x22 (.u16 p.topicAliasMax), fillProp 0x1f (.bin p.reasonString),
    fillProp 0x28 (.bool p.wildcardSubAvailable), fillProp 0x29 (.bool p.subIdentifiersAvailable),
    fillProp 0x2a (.bool p.sharedSubAvailable), fillProp 0x13 (.u16 p.serverKeepAlive),
    fillProp 0x1a (.bin p.responseInformation), fillProp 0x1c (.bin p.serverReference),
    fillProp 0x15 (.bin p.authMethod), fillProp 0x16 (.bin p.authData),
    fillUserProps p.userProps]

def variableHeaderG (p : ConnAck) : Filler :=
  Filler.seqs [fillByte p.flags, fillByte p.reasonCode, fillVb p.propertiesG.dry, p.propertiesG]

def fillG (p : ConnAck) : Filler := fillFrame p.fixed p.variableHeaderG
end ConnAck

namespace Connect
def propertiesG (p : Connect) : Filler :=
  Filler.seqs [fillProp 0x21 (.u16 p.receiveMax), fillProp 0x11 (.u32 p.sessionExpiryInterval),
    fillProp 0x27 (.u32 p.maxPacketSize), fillProp 0x22 (.u16 p.topicAliasMax),
    fillProp 0x19 (.bool p.requestResponseInfo), fillProp 0x17 (.bool p.requestProblemInfo),
    fillProp 0x15 (.bin p.authMethod), fillProp 0x16 (.bin p.authData),
    fillUserProps p.userProps]

def variableHeaderG (p : Connect) : Filler :=
  Filler.seqs [fillBin p.protocolName, fillByte p.protocolVersion, fillByte p.flags, fillU16 p.keepAlive,
    fillVb p.propertiesG.dry, p.propertiesG]

/-- the inlined closure `properties` of `payload` -/
def willPropertiesG (p : Connect) (w : Publish) : Filler :=
  Filler.seqs [fillProp 0x18 (.u32 p.willDelayInterval), fillProp 0x01 (.bool w.payloadFormat),
    fillProp 0x02 (.u32 w.messageExpiryInterval), fillProp 0x03 (.bin w.contentType),
    fillProp 0x08 (.bin w.responseTopic), fillProp 0x09 (.bin w.correlationData),
    fillUserProps w.userProps]

/-- `payload(b, i)`; `none` = `p.will.…` with a nil will (run-time panic) -/
def payloadG? (p : Connect) : Option Filler :=
  let willPart : Option Filler :=
    if has p.flags fWillFlag then
      match p.will with
      | some w => some (Filler.seqs [fillVb (p.willPropertiesG w).dry, p.willPropertiesG w,
                                      fillBin w.topicName, fillBin p.willPayload])
      | none => none
    else some Filler.nop
  willPart.map fun wp =>
    Filler.seqs [fillBin p.clientID, wp,
      (if has p.flags fUsername then fillBin p.username else Filler.nop),
      (if has p.flags fPassword then fillBin p.password else Filler.nop)]

/-- `remainingLen := vbint(p.variableHeader(_LEN, 0) + p.payload(_LEN, 0))` -/
def fillG? (p : Connect) : Option Filler :=
  p.payloadG?.map fun pl =>
    Filler.seqs [fillByte p.fixed, fillVb (p.variableHeaderG.dry + pl.dry), p.variableHeaderG, pl]
end Connect

/-! ## WriteTo and width as the Go code computes them -/

namespace Packet

/-- the packet's `fill` method: `refuse` for `Undefined` (no `fill`; `WriteTo` returns an error),
`panic` for a CONNECT whose will flag is set without a will -/
inductive FillG
  | filler (f : Filler)
  | refuse
  | panic

def fillG : Packet → FillG
  | undefined _ => .refuse
  | connect p => match p.fillG? with | some f => .filler f | none => .panic
  | connack p => .filler p.fillG
  | publish p => .filler p.fillG
  | puback p | pubrec p | pubrel p | pubcomp p => .filler p.fillG
  | subscribe p => .filler p.fillG
  | suback p | unsuback p => .filler p.fillG
  | unsubscribe p => .filler p.fillG
  | pingreq p | pingresp p => .filler p.fillG
  | disconnect p => .filler p.fillG
  | auth p => .filler p.fillG

/-- `b := make([]byte, p.fill(_LEN, 0)); p.fill(b, 0)`: the buffer handed to `w.Write` -/
def encodeG (p : Packet) : Enc :=
  match p.fillG with
  | .filler f => .bytes (f (List.replicate f.dry 0) 0).1
  | .refuse => .refuse
  | .panic => .panic

/-- `p.width()` / `p.fill(_LEN, 0)` as printed by `String()` -/
def widthG (p : Packet) : Option Nat :=
  match p.fillG with
  | .filler f => some f.dry
  | _ => none

end Packet

end Mq
